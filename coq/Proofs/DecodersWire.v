(* C11 — the hand-written protobuf wire parser of keepidentity.go (Model/Decoders.v part 2):
   no slicing fault, no fuel exhaustion, for every byte string; plus size bounds of what it returns. *)
From Coq Require Import List NArith Bool Arith Lia ZifyBool ZifyNat ZifyN.
Import ListNotations.
From AnySync Require Import Model.Decoders Proofs.DecodersBase.
Open Scope N_scope.

Ltac beta_iota := cbv beta iota.

(* ---- protowire primitives ---- *)
Lemma consume_varint_from_spec : forall fuel b k v,
  no_panic (consume_varint_from fuel b k v) /\
  forall val n, consume_varint_from fuel b k v = Ok (val, n) -> k < n /\ n <= blen b.
Proof.
  induction fuel as [|f IH]; intros b k v; cbn [consume_varint_from].
  - split; [apply no_panic_err|discriminate].
  - destruct (N.leb_spec (blen b) k) as [Hle|Hlt]; [split; [apply no_panic_err|discriminate]|].
    destruct (index_ok b k Hlt) as [y Hy]. rewrite Hy. cbn [bind].
    destruct (N.eqb_spec k 9) as [Hk|Hk].
    + destruct (y <? 2); split; try apply no_panic_err; try apply no_panic_ok; try discriminate.
      intros val n H. injection H as _ Hn. lia.
    + destruct (y <? 128).
      * split; [apply no_panic_ok|]. intros val n H. injection H as _ Hn. lia.
      * destruct (IH b (k + 1) (v + (y - 128) * 2 ^ (7 * k))) as [IH1 IH2]. split; [exact IH1|].
        intros val n H. apply IH2 in H. lia.
Qed.

Lemma consume_varint_no_panic : forall b, no_panic (consume_varint b).
Proof. intros b. apply consume_varint_from_spec. Qed.
Lemma consume_varint_ok : forall b v n, consume_varint b = Ok (v, n) -> 0 < n /\ n <= blen b.
Proof. intros b v n H. apply (proj2 (consume_varint_from_spec 10 b 0 0)) in H. exact H. Qed.

Lemma consume_tag_no_panic : forall b, no_panic (consume_tag b).
Proof.
  intros b. unfold consume_tag. apply no_panic_bind; [apply consume_varint_no_panic|].
  intros [v n] _. beta_iota. destruct (_ || _); auto with c11.
Qed.
Lemma consume_tag_ok : forall b num typ n, consume_tag b = Ok (num, typ, n) ->
  0 < n /\ n <= blen b /\ 1 <= num /\ num <= max_int32 /\ typ < 8.
Proof.
  intros b num typ n. unfold consume_tag.
  destruct (consume_varint b) as [[v n0]| |] eqn:E; cbn [bind]; try discriminate. beta_iota.
  destruct (N.ltb_spec max_int32 (v / 8)) as [Hmx|Hmx]; cbn [orb]; [discriminate|].
  destruct (N.ltb_spec (v / 8) 1) as [Hmn|Hmn]; [discriminate|].
  intros H. injection H as H1 H2 H3. subst. apply consume_varint_ok in E.
  repeat split; lia.
Qed.

Lemma consume_bytes_spec : forall b,
  no_panic (consume_bytes b) /\
  forall v n, consume_bytes b = Ok (v, n) -> 0 < n /\ n <= blen b /\ blen v < n.
Proof.
  intros b. unfold consume_bytes.
  destruct (consume_varint b) as [[m n0]| |] eqn:E; cbn [bind].
  - beta_iota. apply consume_varint_ok in E. destruct E as [E1 E2].
    rewrite slice_from_ok by lia. cbn [bind].
    assert (Ht : blen (skipn (N.to_nat n0) b) = blen b - n0) by (rewrite blen_skipn; lia).
    destruct (N.ltb_spec (blen (skipn (N.to_nat n0) b)) m) as [Hlt|Hge].
    + split; [apply no_panic_err|discriminate].
    + rewrite slice_to_ok by lia. cbn [bind]. split; [apply no_panic_ok|].
      intros v n H. injection H as Hv Hn. subst v n. rewrite blen_firstn. lia.
  - split; [apply no_panic_err|discriminate].
  - exfalso. apply (consume_varint_no_panic b why). exact E.
Qed.

Lemma read_tag_spec : forall d i, i <= blen d ->
  no_panic (read_tag d i) /\
  forall f wt ni, read_tag d i = Ok (f, wt, ni) -> i < ni /\ ni <= blen d.
Proof.
  intros d i Hi. unfold read_tag. rewrite slice_from_ok by exact Hi. cbn [bind].
  assert (Hs : blen (skipn (N.to_nat i) d) = blen d - i) by (rewrite blen_skipn; lia).
  destruct (consume_tag (skipn (N.to_nat i) d)) as [[[num typ] n]| |] eqn:E; cbn [bind].
  - beta_iota. apply consume_tag_ok in E. destruct E as [E1 [E2 _]].
    destruct (_ || _); split; try apply no_panic_err; try apply no_panic_ok; try discriminate.
    intros f wt ni H. injection H as _ _ Hn. lia.
  - split; [apply no_panic_err|discriminate].
  - exfalso. apply (consume_tag_no_panic (skipn (N.to_nat i) d) why). exact E.
Qed.

Lemma read_bytes_spec : forall d i, i <= blen d ->
  no_panic (read_bytes d i) /\
  forall b ni, read_bytes d i = Ok (b, ni) -> i < ni /\ ni <= blen d /\ blen b < ni - i.
Proof.
  intros d i Hi. unfold read_bytes. rewrite slice_from_ok by exact Hi. cbn [bind].
  assert (Hs : blen (skipn (N.to_nat i) d) = blen d - i) by (rewrite blen_skipn; lia).
  destruct (consume_bytes_spec (skipn (N.to_nat i) d)) as [Hnp Hok].
  destruct (consume_bytes (skipn (N.to_nat i) d)) as [[b n]| |] eqn:E; cbn [bind].
  - beta_iota. specialize (Hok b n eq_refl). split; [apply no_panic_ok|].
    intros b0 ni H. injection H as Hb Hn. subst. lia.
  - split; [apply no_panic_err|discriminate].
  - exfalso. apply (Hnp why). reflexivity.
Qed.

(* continuation-style step lemmas: what every loop iteration of the parser does first *)
Lemma step_read_tag : forall B d i (K : N * N * N -> outcome B), i <= blen d ->
  (forall f wt ni, i < ni -> ni <= blen d -> no_panic (K (f, wt, ni))) ->
  no_panic (bind (read_tag d i) K).
Proof.
  intros B d i K Hi HK. destruct (read_tag_spec d i Hi) as [Hnp Hok].
  apply no_panic_bind; [exact Hnp|]. intros [[f wt] ni] H. apply Hok in H. apply HK; lia.
Qed.
Lemma step_read_bytes : forall B d i (K : bytes * N -> outcome B), i <= blen d ->
  (forall b ni, i < ni -> ni <= blen d -> blen b < ni - i -> no_panic (K (b, ni))) ->
  no_panic (bind (read_bytes d i) K).
Proof.
  intros B d i K Hi HK. destruct (read_bytes_spec d i Hi) as [Hnp Hok].
  apply no_panic_bind; [exact Hnp|]. intros [b ni] H. apply Hok in H. apply HK; lia.
Qed.

(* ---- generated-code models: varint loop, Skip, AclEncryptedReadKey.UnmarshalVT ---- *)
Lemma vt_varint_spec : forall fuel d i shift acc,
  no_panic (vt_varint fuel d i shift acc) /\
  forall v i', vt_varint fuel d i shift acc = Ok (v, i') -> i < i' /\ i' <= blen d.
Proof.
  induction fuel as [|f IH]; intros d i shift acc; cbn [vt_varint].
  - split; [apply no_panic_err|discriminate].
  - destruct (64 <=? shift); [split; [apply no_panic_err|discriminate]|].
    destruct (N.leb_spec (blen d) i) as [Hle|Hlt]; [split; [apply no_panic_err|discriminate]|].
    destruct (index_ok d i Hlt) as [b Hb]. rewrite Hb. cbn [bind]. beta_iota.
    destruct (b <? 128).
    + split; [apply no_panic_ok|]. intros v i' H. injection H as _ Hi. lia.
    + destruct (IH d (i + 1) (shift + 7) (N.lor acc (N.shiftl (b mod 128) shift mod two64))) as [IH1 IH2].
      split; [exact IH1|]. intros v i' H. apply IH2 in H. lia.
Qed.

Lemma vt_skip_varint_no_panic : forall fuel d i shift, no_panic (vt_skip_varint fuel d i shift).
Proof.
  induction fuel as [|f IH]; intros d i shift; cbn [vt_skip_varint]; [apply no_panic_err|].
  destruct (64 <=? shift); [apply no_panic_err|].
  destruct (N.leb_spec (blen d) i) as [Hle|Hlt]; [apply no_panic_err|].
  destruct (index_ok d i Hlt) as [b Hb]. rewrite Hb. cbn [bind].
  destruct (b <? 128); [apply no_panic_ok|apply IH].
Qed.

(* Skip: no fault; the loop makes progress on every round, so the fuel S(len) is never exhausted *)
Lemma vt_skip_loop_no_panic : forall fuel d i depth,
  blen d < i + N.of_nat fuel -> (0 < fuel)%nat -> no_panic (vt_skip_loop fuel d i depth).
Proof.
  induction fuel as [|f IH]; intros d i depth Hf Hpos; cbn [vt_skip_loop].
  - intros w _. lia.
  - destruct (N.leb_spec (blen d) i) as [Hle|Hlt]; [apply no_panic_err|].
    destruct (vt_varint_spec 11 d i 0 0) as [Hnp Hok]. unfold vt_read_varint at 1.
    apply no_panic_bind; [exact Hnp|]. intros [wire i1] H1. apply Hok in H1. beta_iota.
    apply no_panic_bind.
    + destruct (wire mod 8 =? 0).
      { apply no_panic_bind; [apply vt_skip_varint_no_panic|]. intros; apply no_panic_ok. }
      destruct (wire mod 8 =? 1); [apply no_panic_ok|].
      destruct (wire mod 8 =? 2).
      { unfold vt_read_varint. apply no_panic_bind; [apply vt_varint_spec|]. intros [len i2] _. beta_iota.
        destruct (two63 <=? len); auto with c11. }
      destruct (wire mod 8 =? 3); [apply no_panic_ok|].
      destruct (wire mod 8 =? 4); [destruct (depth =? 0); auto with c11|].
      destruct (wire mod 8 =? 5); auto with c11.
    + intros [[i' depth'] fl] Hr. beta_iota.
      destruct (two63 <=? i'); [apply no_panic_err|].
      destruct (depth' =? 0); [apply no_panic_ok|].
      apply IH.
      (* progress: i' >= i1 > i in every branch *)
      assert (Hprog : i1 <= i').
      { revert Hr. destruct (wire mod 8 =? 0).
        { destruct (vt_skip_varint 11 d i1 0) as [i2| |] eqn:E; cbn [bind]; try discriminate.
          intros H. injection H as Hi _ _. subst i'.
          clear - E. revert E. generalize 11%nat as fu. generalize 0 as sh. revert i1.
          intros i1 sh fu. revert i1 sh. induction fu as [|fu IHfu]; intros i1 sh; cbn [vt_skip_varint]; [discriminate|].
          destruct (64 <=? sh); [discriminate|]. destruct (blen d <=? i1); [discriminate|].
          destruct (index d i1) as [b| |]; cbn [bind]; try discriminate.
          destruct (b <? 128); [intros H; injection H as H; lia|]. intros H. apply IHfu in H. lia. }
        destruct (wire mod 8 =? 1); [intros H; injection H as Hi _ _; lia|].
        destruct (wire mod 8 =? 2).
        { unfold vt_read_varint. destruct (vt_varint 11 d i1 0 0) as [[len i2]| |] eqn:E; cbn [bind]; try discriminate.
          beta_iota. destruct (two63 <=? len); [discriminate|]. intros H. injection H as Hi _ _.
          apply vt_varint_spec in E. lia. }
        destruct (wire mod 8 =? 3); [intros H; injection H as Hi _ _; lia|].
        destruct (wire mod 8 =? 4); [destruct (depth =? 0); [discriminate|intros H; injection H as Hi _ _; lia]|].
        destruct (wire mod 8 =? 5); [intros H; injection H as Hi _ _; lia|discriminate]. }
      lia. lia.
Qed.

Theorem vt_skip_no_panic : forall d, no_panic (vt_skip d).
Proof. intros d. unfold vt_skip. apply vt_skip_loop_no_panic; [unfold blen; lia|lia]. Qed.

(* the generated decoder never slices out of range, whatever Skip returns *)
Lemma enc_key_loop_no_panic : forall skip, (forall b, no_panic (skip b)) ->
  forall fuel d i acc, i <= blen d -> blen d < i + N.of_nat fuel -> no_panic (enc_key_loop skip fuel d i acc).
Proof.
  intros skip Hskip. induction fuel as [|f IH]; intros d i acc Hi Hf; cbn [enc_key_loop].
  - intros w _. lia.
  - destruct (N.leb_spec (blen d) i) as [Hle|Hlt]; [apply no_panic_ok|].
    destruct (vt_varint_spec 11 d i 0 0) as [Hnp Hok]. unfold vt_read_varint at 1.
    apply no_panic_bind; [exact Hnp|]. intros [wire i1] H1. apply Hok in H1. beta_iota.
    destruct (wire mod 8 =? 4); [apply no_panic_err|].
    destruct (_ || _); [apply no_panic_err|].
    destruct (_ || _).
    + destruct (negb _); [apply no_panic_err|].
      destruct (vt_varint_spec 11 d i1 0 0) as [Hnp2 Hok2]. unfold vt_read_varint.
      apply no_panic_bind; [exact Hnp2|]. intros [len i2] H2. apply Hok2 in H2. beta_iota.
      destruct (two63 <=? len); [apply no_panic_err|].
      destruct (two63 <=? i2 + len); [apply no_panic_err|].
      destruct (N.ltb_spec (blen d) (i2 + len)) as [Hp|Hp]; [apply no_panic_err|].
      unfold slice. destruct (N.leb_spec i2 (i2 + len)); [|lia].
      destruct (N.leb_spec (i2 + len) (blen d)); [|lia]. cbn [andb bind].
      apply IH; lia.
    + rewrite slice_from_ok by lia. cbn [bind].
      apply no_panic_bind; [apply Hskip|]. intros skippy _.
      destruct (two63 <=? i + skippy); [apply no_panic_err|].
      destruct (N.ltb_spec (blen d) (i + skippy)) as [Hp|Hp]; [apply no_panic_err|].
      unfold slice. destruct (N.leb_spec i (i + skippy)); [|lia].
      destruct (N.leb_spec (i + skippy) (blen d)); [|lia]. cbn [andb bind].
      destruct (N.eqb_spec skippy 0); [apply no_panic_err|]. apply IH; lia.
Qed.

Theorem enc_key_unmarshal_with_no_panic : forall skip, (forall b, no_panic (skip b)) ->
  forall d, no_panic (enc_key_unmarshal_with skip d).
Proof.
  intros skip Hskip d. unfold enc_key_unmarshal_with. apply enc_key_loop_no_panic; [exact Hskip|lia|unfold blen; lia].
Qed.
Theorem enc_key_unmarshal_no_panic : forall d, no_panic (enc_key_unmarshal d).
Proof. intros d. apply enc_key_unmarshal_with_no_panic. apply vt_skip_no_panic. Qed.

(* ---- the fast path ---- *)
Lemma erk_loop_no_panic : forall fuel d i ident s1 s2,
  i <= blen d -> blen d < i + N.of_nat fuel -> no_panic (erk_loop fuel d i ident s1 s2).
Proof.
  induction fuel as [|f IH]; intros d i ident s1 s2 Hi Hf; cbn [erk_loop].
  - intros w _. lia.
  - destruct (N.leb_spec (blen d) i) as [Hle|Hlt]; [apply no_panic_ok|].
    apply step_read_tag; [exact Hi|]. intros fld wt ni Hn1 Hn2. beta_iota.
    destruct (negb _); [apply no_panic_err|].
    apply step_read_bytes; [exact Hn2|]. intros body ni2 Hm1 Hm2 _. beta_iota.
    destruct (fld =? 1); [destruct s1; [apply no_panic_err|apply IH; lia]|].
    destruct (fld =? 2); [destruct s2; [apply no_panic_err|apply IH; lia]|apply no_panic_err].
Qed.

Lemma enc_read_key_matches_no_panic : forall ours elem, no_panic (enc_read_key_matches ours elem).
Proof.
  intros ours elem. unfold enc_read_key_matches.
  apply no_panic_bind; [apply erk_loop_no_panic; [lia|unfold blen; lia]|]. intros; apply no_panic_ok.
Qed.

Section FastPath.
  Variable vt : bytes -> outcome enc_key.
  Hypothesis vt_no_panic : forall b, no_panic (vt b).
  Variable ours : bytes -> bool.

  Lemma rkc_loop_no_panic : forall fuel d i acc,
    i <= blen d -> blen d < i + N.of_nat fuel -> no_panic (rkc_loop vt ours fuel d i acc).
  Proof.
    induction fuel as [|f IH]; intros d i acc Hi Hf; cbn [rkc_loop].
    - intros w _. lia.
    - destruct (N.leb_spec (blen d) i) as [Hle|Hlt]; [apply no_panic_ok|].
      apply step_read_tag; [exact Hi|]. intros fld wt ni Hn1 Hn2. beta_iota.
      destruct (negb _); [apply no_panic_err|].
      apply step_read_bytes; [exact Hn2|]. intros body ni2 Hm1 Hm2 _. beta_iota.
      destruct (fld =? 1).
      { apply no_panic_bind; [apply enc_read_key_matches_no_panic|]. intros keep _.
        destruct keep; [|apply IH; lia].
        apply no_panic_bind; [apply vt_no_panic|]. intros ek _. apply IH; lia. }
      destruct (fld =? 2); [destruct (is_some _); [apply no_panic_err|apply IH; lia]|].
      destruct (fld =? 3); [destruct (is_some _); [apply no_panic_err|apply IH; lia]|].
      destruct (fld =? 4); [destruct (is_some _); [apply no_panic_err|apply IH; lia]|].
      destruct (fld =? 5); [|apply no_panic_err].
      apply no_panic_bind; [apply vt_no_panic|]. intros ek _. apply IH; lia.
  Qed.

  Lemma keep_read_key_change_no_panic : forall d, no_panic (keep_read_key_change vt ours d).
  Proof. intros d. unfold keep_read_key_change. apply rkc_loop_no_panic; [lia|unfold blen; lia]. Qed.

  Lemma ar_loop_no_panic : forall fuel d i acc,
    i <= blen d -> blen d < i + N.of_nat fuel -> no_panic (ar_loop vt ours fuel d i acc).
  Proof.
    induction fuel as [|f IH]; intros d i acc Hi Hf; cbn [ar_loop].
    - intros w _. lia.
    - destruct (N.leb_spec (blen d) i) as [Hle|Hlt]; [apply no_panic_ok|].
      apply step_read_tag; [exact Hi|]. intros fld wt ni Hn1 Hn2. beta_iota.
      destruct (negb _); [apply no_panic_err|].
      apply step_read_bytes; [exact Hn2|]. intros body ni2 Hm1 Hm2 _. beta_iota.
      destruct (fld =? 1); [apply IH; lia|].
      destruct (fld =? 2); [|apply no_panic_err].
      destruct (is_some _); [apply no_panic_err|].
      apply no_panic_bind; [apply keep_read_key_change_no_panic|]. intros r _. apply IH; lia.
  Qed.

  Lemma keep_account_remove_no_panic : forall d, no_panic (keep_account_remove vt ours d).
  Proof. intros d. unfold keep_account_remove. apply ar_loop_no_panic; [lia|unfold blen; lia]. Qed.

  Lemma keep_content_value_no_panic : forall cv, no_panic (keep_content_value vt ours cv).
  Proof.
    intros cv. unfold keep_content_value.
    apply step_read_tag; [lia|]. intros fld wt ni Hn1 Hn2. beta_iota.
    destruct (negb _); [apply no_panic_err|].
    apply step_read_bytes; [exact Hn2|]. intros body nx Hm1 Hm2 _. beta_iota.
    destruct (negb _); [apply no_panic_err|].
    destruct (fld =? 7).
    { apply no_panic_bind; [apply keep_read_key_change_no_panic|]. intros; apply no_panic_ok. }
    destruct (fld =? 6); [|apply no_panic_err].
    apply no_panic_bind; [apply keep_account_remove_no_panic|]. intros; apply no_panic_ok.
  Qed.

  Lemma fast_loop_no_panic : forall fuel d i acc,
    i <= blen d -> blen d < i + N.of_nat fuel -> no_panic (fast_loop vt ours fuel d i acc).
  Proof.
    induction fuel as [|f IH]; intros d i acc Hi Hf; cbn [fast_loop].
    - intros w _. lia.
    - destruct (N.leb_spec (blen d) i) as [Hle|Hlt]; [apply no_panic_ok|].
      apply step_read_tag; [exact Hi|]. intros fld wt ni Hn1 Hn2. beta_iota.
      destruct (negb _); [apply no_panic_err|].
      apply step_read_bytes; [exact Hn2|]. intros body ni2 Hm1 Hm2 _. beta_iota.
      apply no_panic_bind; [apply keep_content_value_no_panic|]. intros c _. apply IH; lia.
  Qed.

  Theorem keep_identity_fast_with_no_panic : forall d, no_panic (keep_identity_fast_with vt ours d).
  Proof. intros d. unfold keep_identity_fast_with. apply fast_loop_no_panic; [lia|unfold blen; lia]. Qed.
End FastPath.

Theorem keep_identity_fast_no_panic : forall ours d, no_panic (keep_identity_fast ours d).
Proof. intros ours d. apply keep_identity_fast_with_no_panic. apply enc_key_unmarshal_no_panic. Qed.

Theorem unmarshal_keep_identity_no_panic : forall full ours d,
  (forall b, no_panic (full b)) -> no_panic (unmarshal_keep_identity full ours d).
Proof.
  intros full ours d Hfull. unfold unmarshal_keep_identity.
  pose proof (keep_identity_fast_no_panic ours d) as H.
  destruct (keep_identity_fast ours d) as [v|e|w]; [apply no_panic_ok|apply Hfull|].
  exfalso. apply (H w). reflexivity.
Qed.
