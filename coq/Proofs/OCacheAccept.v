(* Soundness of the acceptance function used by the correspondence check: a trace accepted by [accept] is the
   observable trace of a schedule of the model (so every theorem about model runs applies to it). *)
From Coq Require Import List NArith Bool Lia.
Import ListNotations.
From AnySync Require Import Model.OCache Proofs.OCacheProofs.
Open Scope N_scope.

Lemma call_eqb_eq : forall a b, event_eqb_call a b = true -> a = b.
Proof.
  intros a b; destruct a, b; simpl; intros H; try discriminate; auto;
    repeat match goal with
           | H : (_ && _) = true |- _ => apply andb_true_iff in H; destruct H
           | H : (_ =? _) = true |- _ => apply N.eqb_eq in H; subst
           end; auto.
Qed.

Lemma result_eqb_eq : forall a b, result_eqb a b = true -> a = b.
Proof.
  intros a b; destruct a, b; simpl; intros Hq; try discriminate; auto;
    repeat match goal with
           | H : (_ =? _) = true |- _ => apply N.eqb_eq in H; subst
           | H : Bool.eqb _ _ = true |- _ => apply Bool.eqb_prop in H; subst
           end; auto;
    try (match goal with |- ROk ?x = ROk ?y => destruct x, y; simpl in *; try discriminate; auto end).
Qed.

Lemma optN_eqb_eq : forall a b, optN_eqb a b = true -> a = b.
Proof. intros a b; destruct a, b; simpl; intros H; try discriminate; auto. apply N.eqb_eq in H. subst. auto. Qed.

Lemma event_eqb_eq : forall a b, event_eqb a b = true -> a = b.
Proof.
  intros a b; destruct a, b; simpl; intros H; try discriminate;
    repeat match goal with
           | H : (_ && _) = true |- _ => apply andb_true_iff in H; destruct H
           | H : (_ =? _) = true |- _ => apply N.eqb_eq in H; subst
           | H : event_eqb_call _ _ = true |- _ => apply call_eqb_eq in H; subst
           | H : result_eqb _ _ = true |- _ => apply result_eqb_eq in H; subst
           | H : optN_eqb _ _ = true |- _ => apply optN_eqb_eq in H; subst
           | H : Bool.eqb _ _ = true |- _ => apply Bool.eqb_prop in H; subst
           end; auto;
    try (match goal with |- ETryExit _ _ ?x = ETryExit _ _ ?y => destruct x, y; simpl in *; try discriminate; auto end).
Qed.

Lemma step_core_trace : forall c s t a s' ev, step_core c s t a = Some (s', ev) -> trace s' = trace s.
Proof.
  intros c s t a s' ev E. unfold step_core in E.
  destruct (threads s t); destruct a; try discriminate E;
    break_step E; inversion E; subst; reflexivity.
Qed.

Lemma vis_step_sound : forall c s e s',
  vis_step c s e = Some s' -> step c s (label_of e) = Some s' /\ trace s' = e :: trace s.
Proof.
  intros c s e s' H. unfold vis_step in H. unfold step.
  destruct (step_core c s (fst (label_of e)) (snd (label_of e))) as [[s1 [e'|]]|] eqn:E; try discriminate.
  destruct (event_eqb e e') eqn:Eq; [|discriminate]. inversion H; subst.
  apply event_eqb_eq in Eq. subst e'. split; auto. simpl. f_equal. eapply step_core_trace; eauto.
Qed.

Lemma split_moves_sound : forall c s ls taus vis s',
  split_moves c s ls = (taus, vis) -> In s' taus ->
  exists l, step c s l = Some s' /\ trace s' = trace s.
Proof.
  induction ls as [|l ls IH]; simpl; intros taus vis s' H Hin.
  - inversion H; subst. contradiction.
  - destruct (split_moves c s ls) as [taus0 vis0] eqn:E0.
    destruct (step_core c s (fst l) (snd l)) as [[s1 [e|]]|] eqn:E; inversion H; subst; eauto.
    destruct Hin as [Hin|Hin]; [| eauto]. subst s1. exists l. unfold step. rewrite E. split; auto.
    eapply step_core_trace; eauto.
Qed.

Lemma first_some_some : forall A B (f : A -> option B) l y,
  first_some f l = Some y -> exists x, In x l /\ f x = Some y.
Proof.
  induction l as [|x l IH]; simpl; intros y H; [discriminate|].
  destruct (f x) eqn:E; [inversion H; subst; eauto|]. destruct (IH _ H) as [x0 [A0 B0]]. eauto.
Qed.

Lemma run_app : forall c l1 l2 s, run c s (l1 ++ l2) = match run c s l1 with Some s1 => run c s1 l2 | None => None end.
Proof. induction l1 as [|l l1 IH]; simpl; intros l2 s; auto. destruct (step c s l); auto. Qed.

Lemma macro_sound : forall fuel c ths s evs s',
  macro fuel c ths s evs = Some s' ->
  exists ls, run c s ls = Some s' /\ trace s' = rev evs ++ trace s.
Proof.
  induction fuel as [|f IH]; simpl; intros c ths s evs s' H; [discriminate|].
  destruct (split_moves c s (own_labels s ths)) as [taus vis] eqn:E.
  assert (Htau : forall evs0, first_some (fun s1 => macro f c ths s1 evs0) taus = Some s' ->
            exists ls, run c s ls = Some s' /\ trace s' = rev evs0 ++ trace s).
  { intros evs0 Hf. destruct (first_some_some _ _ _ _ _ Hf) as [s1 [Hin Hm]].
    destruct (split_moves_sound _ _ _ _ _ _ E Hin) as [l [Hl Ht]].
    destruct (IH _ _ _ _ _ Hm) as [ls [Hr Htr]]. exists (l :: ls). simpl. rewrite Hl. split; auto. congruence. }
  destruct evs as [|e rest].
  - destruct taus as [|s1 taus'].
    + destruct vis; [discriminate|]. inversion H; subst. exists []. simpl. auto.
    + apply Htau. exact H.
  - destruct (vis_step c s e) as [s1|] eqn:Ev.
    + destruct (macro f c ths s1 rest) as [r|] eqn:Em.
      * inversion H; subst r. destruct (vis_step_sound _ _ _ _ Ev) as [Hl Ht].
        destruct (IH _ _ _ _ _ Em) as [ls [Hr Htr]]. exists (label_of e :: ls). simpl. rewrite Hl. split; auto.
        rewrite Htr, Ht. rewrite <- app_assoc. reflexivity.
      * apply Htau. exact H.
    + apply Htau. exact H.
Qed.

Lemma accept_from_sound : forall c ths steps s,
  accept_from c ths s steps = true ->
  exists ls s', run c s ls = Some s' /\ trace s' = rev (concat steps) ++ trace s /\ panicked s' = false.
Proof.
  induction steps as [|evs steps IH]; intros s H; cbn [accept_from] in H.
  - exists [], s. simpl. repeat split; auto. destruct (panicked s); auto; discriminate.
  - destruct (macro (4 * length evs + 40) c ths s evs) as [s1|] eqn:E; [|discriminate].
    destruct (macro_sound _ _ _ _ _ _ E) as [l1 [R1 T1]].
    destruct (IH _ H) as [l2 [s2 [R2 [T2 P2]]]].
    exists (l1 ++ l2), s2. rewrite run_app, R1. repeat split; auto.
    rewrite T2, T1. simpl concat. rewrite rev_app_distr. rewrite app_assoc. reflexivity.
Qed.

Lemma try_all_true : forall g l b b',
  try_all g l b = (true, b') -> exists x b0, In x l /\ g x b0 = (true, b').
Proof.
  induction l as [|x l IH]; simpl; intros b b' H; [discriminate|].
  destruct (g x b) as [ok b1] eqn:E. destruct ok.
  - inversion H; subst. exists x, b. auto.
  - destruct (IH _ _ H) as [x0 [b0 [A B]]]. eauto.
Qed.

Lemma search_sound : forall fuel c ths s evs rest b b',
  search fuel c ths s evs rest b = (true, b') ->
  exists ls s', run c s ls = Some s' /\ trace s' = rev (concat (evs :: rest)) ++ trace s /\ panicked s' = false.
Proof.
  induction fuel as [|f IH]; intros c ths s evs rest b b' H; cbn [search] in H; [discriminate|].
  destruct (b =? 0); [discriminate|].
  destruct (split_moves c s (own_labels s ths)) as [taus vis] eqn:E.
  assert (Htau : forall evs0 b0 b1,
            try_all (fun s1 b2 => search f c ths s1 evs0 rest b2) taus b0 = (true, b1) ->
            exists ls s', run c s ls = Some s' /\ trace s' = rev (concat (evs0 :: rest)) ++ trace s /\ panicked s' = false).
  { intros evs0 b0 b1 Hf. destruct (try_all_true _ _ _ _ Hf) as [s1 [b2 [Hin Hm]]].
    destruct (split_moves_sound _ _ _ _ _ _ E Hin) as [l [Hl Ht]].
    destruct (IH _ _ _ _ _ _ _ Hm) as [ls [s' [Hr [Htr Hp]]]].
    exists (l :: ls), s'. simpl. rewrite Hl. repeat split; auto. simpl in Htr. congruence. }
  destruct evs as [|e r].
  - destruct taus as [|s1 taus'].
    + destruct vis; [discriminate|]. destruct rest as [|evs' rest'].
      * inversion H. exists [], s. simpl. repeat split; auto. destruct (panicked s); auto; discriminate.
      * destruct (IH _ _ _ _ _ _ _ H) as [ls [s' [Hr [Htr Hp]]]]. exists ls, s'. repeat split; auto.
    + eapply Htau. exact H.
  - destruct (vis_step c s e) as [s1|] eqn:Ev.
    + destruct (search f c ths s1 r rest (b - 1)) as [ok b1] eqn:Em. destruct ok.
      * destruct (vis_step_sound _ _ _ _ Ev) as [Hl Ht].
        destruct (IH _ _ _ _ _ _ _ Em) as [ls [s' [Hr [Htr Hp]]]].
        exists (label_of e :: ls), s'. simpl run. rewrite Hl. repeat split; auto.
        rewrite Htr, Ht. simpl concat. simpl rev. rewrite !rev_app_distr. simpl.
        rewrite <- !app_assoc. reflexivity.
      * eapply Htau. exact H.
    + eapply Htau. exact H.
Qed.

Theorem accept_sound : forall n steps,
  accept n steps = true ->
  exists ls s, run fixed init ls = Some s /\ obs s = concat steps /\ panicked s = false.
Proof.
  intros n steps H. unfold accept in H. apply orb_true_iff in H. destruct H as [H|H].
  - unfold accept_fast in H.
    destruct (accept_from_sound _ _ _ _ H) as [ls [s [R [T P]]]].
    exists ls, s. repeat split; auto. unfold obs. rewrite T. simpl. rewrite app_nil_r. apply rev_involutive.
  - unfold accept_full in H. destruct steps as [|evs rest].
    + exists [], init. simpl. auto.
    + destruct (search (4 * length (concat (evs :: rest)) + 40 * length (evs :: rest) + 40) fixed
                       (seqN 0 (N.to_nat n)) init evs rest 200000) as [ok b'] eqn:E.
      simpl in H. subst ok. destruct (search_sound _ _ _ _ _ _ _ _ E) as [ls [s [R [T P]]]].
      exists ls, s. repeat split; auto. unfold obs. rewrite T. simpl trace. rewrite app_nil_r. apply rev_involutive.
Qed.

(* ---- fine-grained observations (lock-region granularity, open macro steps, frozen goroutines) *)
Lemma search_open_sound : forall fuel c s mv evs rest b b',
  search_open fuel c s mv evs rest b = (true, b') ->
  exists ls s', run c s ls = Some s' /\ trace s' = rev (evs ++ fine_events rest) ++ trace s /\ panicked s' = false.
Proof.
  induction fuel as [|f IH]; intros c s mv evs rest b b' H; cbn [search_open] in H; [discriminate|].
  destruct (b =? 0); [discriminate|].
  destruct (split_moves c s (own_labels s mv)) as [taus vis] eqn:E. cbn [fst] in H.
  assert (Htau : forall evs0 b0 b1,
            try_all (fun s1 b2 => search_open f c s1 mv evs0 rest b2) taus b0 = (true, b1) ->
            exists ls s', run c s ls = Some s' /\ trace s' = rev (evs0 ++ fine_events rest) ++ trace s /\
                          panicked s' = false).
  { intros evs0 b0 b1 Hf. destruct (try_all_true _ _ _ _ Hf) as [s1 [b2 [Hin Hm]]].
    destruct (split_moves_sound _ _ _ _ _ _ E Hin) as [l [Hl Ht]].
    destruct (IH _ _ _ _ _ _ _ Hm) as [ls [s' [Hr [Htr Hp]]]].
    exists (l :: ls), s'. simpl. rewrite Hl. repeat split; auto. congruence. }
  destruct evs as [|e r].
  - destruct rest as [|[mv' evs'] rest'].
    + destruct (negb (panicked s)) eqn:Ep.
      * exists [], s. simpl. repeat split; auto. destruct (panicked s); auto; discriminate.
      * eapply Htau. exact H.
    + destruct (search_open f c s mv' evs' rest' (b - 1)) as [ok b1] eqn:Em. destruct ok.
      * destruct (IH _ _ _ _ _ _ _ Em) as [ls [s' [Hr [Htr Hp]]]]. exists ls, s'. repeat split; auto.
      * eapply Htau. exact H.
  - destruct (if mem (event_thread e) mv then vis_step c s e else None) as [s1|] eqn:Ev.
    + destruct (search_open f c s1 mv r rest (b - 1)) as [ok b1] eqn:Em. destruct ok.
      * assert (Ev' : vis_step c s e = Some s1) by (destruct (mem (event_thread e) mv); [exact Ev | discriminate]).
        destruct (vis_step_sound _ _ _ _ Ev') as [Hl Ht].
        destruct (IH _ _ _ _ _ _ _ Em) as [ls [s' [Hr [Htr Hp]]]].
        exists (label_of e :: ls), s'. simpl run. rewrite Hl. repeat split; auto.
        rewrite Htr, Ht. simpl. rewrite <- !app_assoc. reflexivity.
      * eapply Htau. exact H.
    + eapply Htau. exact H.
Qed.

Theorem accept_fine_sound : forall steps,
  accept_fine steps = true ->
  exists ls s, run fixed init ls = Some s /\ obs s = fine_events steps /\ panicked s = false.
Proof.
  intros steps H. unfold accept_fine in H. destruct steps as [|[mv evs] rest].
  - exists [], init. simpl. auto.
  - destruct (search_open (6 * length (fine_events ((mv, evs) :: rest)) + 40 * length ((mv, evs) :: rest) + 40)
                          fixed init mv evs rest 200000) as [ok b'] eqn:E.
    simpl in H. subst ok. destruct (search_open_sound _ _ _ _ _ _ _ _ E) as [ls [s [R [T P]]]].
    exists ls, s. repeat split; auto. unfold obs. rewrite T. simpl trace. rewrite app_nil_r.
    rewrite rev_involutive. reflexivity.
Qed.
