(* C17 — serving side of Model/PubSub.v: generic lemmas (N-keyed maps, weighted sums, string sets, tags)
   and the trie facts in the form used by the service invariant.  Plain stdlib style. *)
From Coq Require Import List NArith Bool Arith Lia.
Import ListNotations.
From AnySync Require Import Model.Trie Model.PubSub Proofs.TrieProofs.

(* ------------------------------------------------------------------ maps keyed by N *)

Section NMap.
  Context {V : Type}.
  Implicit Types (l : list (N * V)).

  Lemma nassoc_nset_same : forall k v l, nassoc k (nset k v l) = Some v.
  Proof.
    induction l as [|[k' v'] l IH]; cbn [nset nassoc].
    - rewrite N.eqb_refl. reflexivity.
    - destruct (N.eqb k k') eqn:E; cbn [nassoc].
      + rewrite N.eqb_refl. reflexivity.
      + rewrite E. exact IH.
  Qed.

  Lemma nassoc_nset_other : forall k k' v l, k <> k' -> nassoc k' (nset k v l) = nassoc k' l.
  Proof.
    intros k k' v l Hne. assert (E0 : N.eqb k' k = false) by (apply N.eqb_neq; congruence).
    induction l as [|[k2 v2] l IH]; cbn [nset nassoc].
    - rewrite E0. reflexivity.
    - destruct (N.eqb k k2) eqn:E; cbn [nassoc].
      + apply N.eqb_eq in E. subst k2. rewrite E0. reflexivity.
      + destruct (N.eqb k' k2); auto.
  Qed.

  Lemma nassoc_ndel_same : forall k l, nassoc k (ndel k l) = None.
  Proof.
    induction l as [|[k' v'] l IH]; cbn [ndel nassoc]; auto.
    destruct (N.eqb k k') eqn:E; cbn [nassoc]; auto. rewrite E. exact IH.
  Qed.

  Lemma nassoc_ndel_other : forall k k' l, k <> k' -> nassoc k' (ndel k l) = nassoc k' l.
  Proof.
    intros k k' l Hne. assert (E0 : N.eqb k' k = false) by (apply N.eqb_neq; congruence).
    induction l as [|[k2 v2] l IH]; cbn [ndel nassoc]; auto.
    destruct (N.eqb k k2) eqn:E; cbn [nassoc].
    - apply N.eqb_eq in E. subst k2. rewrite E0. exact IH.
    - destruct (N.eqb k' k2); auto.
  Qed.

  Lemma nassoc_none_notin : forall k l, nassoc k l = None <-> ~ In k (map fst l).
  Proof.
    induction l as [|[k' v'] l IH]; cbn [nassoc map fst In].
    - split; auto.
    - destruct (N.eqb k k') eqn:E.
      + apply N.eqb_eq in E. subst. split; [discriminate|]. intros H. exfalso. apply H. left. reflexivity.
      + apply N.eqb_neq in E. rewrite IH. split; intros H; [intros [H1|H1]; [congruence|auto]|auto].
  Qed.

  Lemma nassoc_in : forall k v l, nassoc k l = Some v -> In (k, v) l.
  Proof.
    induction l as [|[k' v'] l IH]; cbn [nassoc]; [discriminate|].
    destruct (N.eqb k k') eqn:E; intros H.
    - apply N.eqb_eq in E. inversion H; subst. left. reflexivity.
    - right. auto.
  Qed.

  Lemma in_nassoc : forall k v l, NoDup (map fst l) -> In (k, v) l -> nassoc k l = Some v.
  Proof.
    induction l as [|[k' v'] l IH]; cbn [nassoc map fst]; intros ND HI; [contradiction|].
    inversion ND as [|x xs Hn ND']; subst. destruct HI as [HI|HI].
    - inversion HI; subst. rewrite N.eqb_refl. reflexivity.
    - destruct (N.eqb k k') eqn:E; [|auto]. apply N.eqb_eq in E. subst k'.
      exfalso. apply Hn. change k with (fst (k, v)). apply in_map. exact HI.
  Qed.

  Lemma keys_nset : forall k v l x, In x (map fst (nset k v l)) <-> x = k \/ In x (map fst l).
  Proof.
    induction l as [|[k' v'] l IH]; intros x; cbn [nset map fst In].
    - split; [intros [H|[]]; auto|intros [H|[]]; auto].
    - destruct (N.eqb k k') eqn:E; cbn [map fst In].
      + apply N.eqb_eq in E. subst k'. split; [intros [H|H]; auto|intros [H|[H|H]]; auto].
      + rewrite IH. split; [intros [H|[H|H]]; auto|intros [H|[H|H]]; auto].
  Qed.

  Lemma keys_ndel : forall k l x, In x (map fst (ndel k l)) <-> x <> k /\ In x (map fst l).
  Proof.
    induction l as [|[k' v'] l IH]; intros x; cbn [ndel map fst In].
    - split; [contradiction|intros [_ []]].
    - destruct (N.eqb k k') eqn:E; cbn [map fst In].
      + apply N.eqb_eq in E. subst k'. rewrite IH. split; [intros [H1 H2]; auto|intros [H1 [H2|H2]]; [congruence|auto]].
      + apply N.eqb_neq in E. rewrite IH. split.
        * intros [H|[H1 H2]]; [subst; split; auto; congruence|auto].
        * intros [H1 [H2|H2]]; auto.
  Qed.

  Lemma nodup_nset : forall k v l, NoDup (map fst l) -> NoDup (map fst (nset k v l)).
  Proof.
    induction l as [|[k' v'] l IH]; cbn [nset map fst]; intros ND.
    - constructor; [intros []|constructor].
    - inversion ND as [|x xs Hn ND']; subst. destruct (N.eqb k k') eqn:E; cbn [map fst].
      + apply N.eqb_eq in E. subst k'. constructor; auto.
      + apply N.eqb_neq in E. constructor; [|auto]. rewrite keys_nset. intros [H|H]; [congruence|auto].
  Qed.

  Lemma nodup_ndel : forall k l, NoDup (map fst l) -> NoDup (map fst (ndel k l)).
  Proof.
    induction l as [|[k' v'] l IH]; cbn [ndel map fst]; intros ND; [constructor|].
    inversion ND as [|x xs Hn ND']; subst. destruct (N.eqb k k'); cbn [map fst]; auto.
    constructor; [|auto]. rewrite keys_ndel. intros [_ H]. auto.
  Qed.

  Lemma nset_id : forall k v l, nassoc k l = Some v -> nset k v l = l.
  Proof.
    induction l as [|[k' v'] l IH]; cbn [nassoc nset]; [discriminate|].
    destruct (N.eqb k k') eqn:E; intros H.
    - apply N.eqb_eq in E. inversion H; subst. reflexivity.
    - rewrite IH; auto.
  Qed.

  Lemma ndel_absent : forall k l, nassoc k l = None -> ndel k l = l.
  Proof.
    induction l as [|[k' v'] l IH]; cbn [nassoc ndel]; auto.
    destruct (N.eqb k k'); [discriminate|]. intros H. rewrite IH; auto.
  Qed.

  Lemma ndel_nset_fresh : forall k v l, nassoc k l = None -> ndel k (nset k v l) = l.
  Proof.
    induction l as [|[k' v'] l IH]; cbn [nassoc nset ndel].
    - rewrite N.eqb_refl. reflexivity.
    - destruct (N.eqb k k') eqn:E; [discriminate|]. intros H. cbn [ndel]. rewrite E, IH; auto.
  Qed.

  (* weighted sums over the values of a map with distinct keys *)
  Variable w : V -> nat.
  Fixpoint wsum l : nat := match l with [] => 0 | e :: r => w (snd e) + wsum r end.
  Definition ow (o : option V) : nat := match o with Some v => w v | None => 0 end.

  Lemma wsum_absent_nset : forall k v l, nassoc k l = None -> wsum (nset k v l) = wsum l + w v.
  Proof.
    induction l as [|[k' v'] l IH]; cbn [nassoc nset wsum snd]; [lia|].
    destruct (N.eqb k k'); [discriminate|]. intros H. cbn [wsum snd]. rewrite IH; auto. lia.
  Qed.

  Lemma wsum_nset : forall k v l, NoDup (map fst l) ->
    wsum (nset k v l) + ow (nassoc k l) = wsum l + w v.
  Proof.
    induction l as [|[k' v'] l IH]; cbn [nassoc nset wsum snd map fst ow]; intros ND; [lia|].
    inversion ND as [|x xs Hn ND']; subst. destruct (N.eqb k k') eqn:E; cbn [wsum snd ow].
    - lia.
    - specialize (IH ND'). lia.
  Qed.

  Lemma wsum_ndel : forall k l, NoDup (map fst l) -> wsum (ndel k l) + ow (nassoc k l) = wsum l.
  Proof.
    induction l as [|[k' v'] l IH]; cbn [nassoc ndel wsum snd map fst ow]; intros ND; [lia|].
    inversion ND as [|x xs Hn ND']; subst. destruct (N.eqb k k') eqn:E; cbn [wsum snd ow].
    - apply N.eqb_eq in E. subst k'. apply nassoc_none_notin in Hn. rewrite ndel_absent by exact Hn. lia.
    - specialize (IH ND'). lia.
  Qed.

  Lemma wsum_ge : forall k v l, nassoc k l = Some v -> w v <= wsum l.
  Proof.
    induction l as [|[k' v'] l IH]; cbn [nassoc wsum snd]; [discriminate|].
    destruct (N.eqb k k'); intros H; [inversion H; subst; lia|]. specialize (IH H). lia.
  Qed.

  Lemma wsum_zero : forall l, wsum l = 0 -> forall k v, nassoc k l = Some v -> w v = 0.
  Proof. intros l H k v Hk. pose proof (wsum_ge k v l Hk). lia. Qed.

  Lemma wsum_pos : forall l, NoDup (map fst l) -> 0 < wsum l -> exists k v, nassoc k l = Some v /\ 0 < w v.
  Proof.
    induction l as [|[k' v'] l IH]; cbn [wsum snd map fst]; intros ND H; [lia|].
    inversion ND as [|x xs Hn ND']; subst.
    destruct (Nat.eq_dec (w v') 0) as [Z|Z].
    - destruct (IH ND') as (k & v & Hk & Hw); [lia|].
      exists k, v. cbn [nassoc]. destruct (N.eqb k k') eqn:E; [|auto].
      apply N.eqb_eq in E. subst k'. apply nassoc_none_notin in Hn. congruence.
    - exists k', v'. cbn [nassoc]. rewrite N.eqb_refl. split; auto. lia.
  Qed.
End NMap.

(* ------------------------------------------------------------------ string sets, tags *)

Lemma nodup_snoc : forall {A} (l : list A) x, NoDup l -> ~ In x l -> NoDup (l ++ [x]).
Proof.
  induction l as [|y l IH]; intros x ND HN; cbn [app].
  - constructor; [intros []|constructor].
  - inversion ND; subst. constructor.
    + rewrite in_app_iff. intros [H|[H|[]]]; [auto|subst; apply HN; left; reflexivity].
    + apply IH; auto. intros H. apply HN. right. exact H.
Qed.

Lemma bool_ext : forall a b : bool, (a = true <-> b = true) -> a = b.
Proof. intros [|] [|] H; auto; [symmetry|]; apply H; reflexivity. Qed.

Lemma mem_str_in : forall x l, mem_str x l = true <-> In x l.
Proof.
  induction l as [|y l IH]; cbn [mem_str In]; [split; [discriminate|contradiction]|].
  rewrite orb_true_iff, IH, str_eqb_eq. split; intros [H|H]; auto.
Qed.

Lemma mem_str_app : forall x a b, mem_str x (a ++ b) = mem_str x a || mem_str x b.
Proof. induction a as [|y a IH]; intros b; cbn [app mem_str]; auto. rewrite IH, orb_assoc. reflexivity. Qed.

Lemma in_del_str : forall p q l, In q (del_str p l) <-> In q l /\ q <> p.
Proof.
  intros p q l. unfold del_str. rewrite filter_In. rewrite negb_true_iff, str_eqb_neq. reflexivity.
Qed.

Lemma mem_del_str : forall p q l, mem_str q (del_str p l) = mem_str q l && negb (str_eqb q p).
Proof.
  intros. apply bool_ext. rewrite andb_true_iff, negb_true_iff, str_eqb_neq, !mem_str_in. apply in_del_str.
Qed.

Lemma nodup_del_str : forall p l, NoDup l -> NoDup (del_str p l).
Proof. intros. unfold del_str. apply NoDup_filter. auto. Qed.

Lemma length_del_str : forall p l, NoDup l -> In p l -> length (del_str p l) = pred (length l).
Proof. intros. unfold del_str. apply filter_neq_length; auto. Qed.

Lemma tag_eqb_eq : forall a b : tag, tag_eqb a b = true <-> a = b.
Proof.
  intros [a1 a2] [b1 b2]. unfold tag_eqb. cbn [fst snd]. rewrite andb_true_iff, N.eqb_eq, str_eqb_eq.
  split; [intros [H1 H2]; congruence|intros H; inversion H; auto].
Qed.

Lemma mem_tag_in : forall t l, mem_tag t l = true <-> In t l.
Proof.
  intros t l. unfold mem_tag. rewrite existsb_exists. split.
  - intros (x & HI & HE). apply tag_eqb_eq in HE. subst. exact HI.
  - intros HI. exists t. split; auto. apply tag_eqb_eq. reflexivity.
Qed.

Lemma mem_tag_remove_tags : forall t cur gone,
  mem_tag t (remove_tags cur gone) = mem_tag t cur && negb (mem_tag t gone).
Proof.
  intros. apply bool_ext. rewrite andb_true_iff, negb_true_iff, !mem_tag_in. unfold remove_tags.
  rewrite filter_In, negb_true_iff. reflexivity.
Qed.

Lemma nodup_remove_tags : forall cur gone, NoDup cur -> NoDup (remove_tags cur gone).
Proof. intros. apply NoDup_filter. auto. Qed.

Lemma add_tags_spec : forall new cur,
  (forall t, mem_tag t (add_tags cur new) = mem_tag t cur || mem_tag t new)
  /\ (NoDup cur -> NoDup (add_tags cur new)).
Proof.
  unfold add_tags. induction new as [|x new IH]; intros cur; cbn [fold_left].
  - split; auto. intros t. cbn. rewrite orb_false_r. reflexivity.
  - destruct (mem_tag x cur) eqn:E.
    + destruct (IH cur) as [H1 H2]. split; auto. intros t. rewrite H1.
      change (mem_tag t (x :: new)) with (tag_eqb t x || mem_tag t new).
      destruct (tag_eqb t x) eqn:Et; cbn [orb]; auto.
      apply tag_eqb_eq in Et. subst. rewrite E. reflexivity.
    + destruct (IH (cur ++ [x])) as [H1 H2]. split.
      * intros t. rewrite H1. change (mem_tag t (x :: new)) with (tag_eqb t x || mem_tag t new).
        unfold mem_tag at 1. rewrite existsb_app. cbn [existsb]. rewrite orb_false_r.
        fold (mem_tag t cur). rewrite orb_assoc. reflexivity.
      * intros ND. apply H2. apply nodup_snoc; auto. apply not_true_iff_false in E. rewrite mem_tag_in in E. exact E.
Qed.

Lemma mem_tag_map : forall sp p space l,
  mem_tag (sp, p) (map (fun q => (space, q)) l) = N.eqb sp space && mem_str p l.
Proof.
  intros. apply bool_ext. rewrite mem_tag_in, andb_true_iff, N.eqb_eq, mem_str_in, in_map_iff. split.
  - intros (q & HE & HI). inversion HE; subst. auto.
  - intros [H1 H2]. subst. exists p. auto.
Qed.

(* ------------------------------------------------------------------ trie facts in invariant form *)

Lemma trie_inv_ext : forall t f g, trie_inv t f -> (forall p, f p = g p) -> trie_inv t g.
Proof.
  intros t f g ([I1 I2] & HD & L & [ND HL] & HS) E. split; [|split].
  - split; auto. intros p. rewrite I1. apply E.
  - exact HD.
  - exists L. split; auto. split; auto. intros p. rewrite HL, E. reflexivity.
Qed.

Lemma trie_inv_add : forall t f p, trie_inv t f ->
  trie_inv (fst (trie_add t p)) (fun q => if str_eqb q p then (f q + 1)%N else f q).
Proof. intros t f p H. pose proof (trie_inv_step t f (TAdd p) H) as H'. cbn [trie_step step_rc] in H'.
  destruct (trie_add t p). exact H'. Qed.

Lemma trie_inv_remove : forall t f p, trie_inv t f ->
  trie_inv (fst (trie_remove t p)) (fun q => if str_eqb q p then N.pred (f q) else f q).
Proof. intros t f p H. pose proof (trie_inv_step t f (TRemove p) H) as H'. cbn [trie_step step_rc] in H'.
  destruct (trie_remove t p). exact H'. Qed.

Lemma trie_inv_len0 : forall t f, trie_inv t f -> (trie_len t = 0%N <-> forall p, f p = 0%N).
Proof.
  intros t f (_ & _ & L & [ND HL] & HS). unfold trie_len. rewrite HS. split.
  - intros HZ p. destruct L; [|cbn in HZ; lia]. destruct (N.eq_dec (f p) 0); auto.
    assert (In p []) by (apply HL; lia). contradiction.
  - intros HZ. destruct L as [|x L]; [reflexivity|]. assert (0 < f x)%N by (apply HL; left; reflexivity).
    rewrite HZ in H. lia.
Qed.

Lemma trie_inv_match : forall t f topic, trie_inv t f ->
  NoDup (trie_match t topic)
  /\ forall p, In p (trie_match t topic) <-> ((0 < f p)%N /\ matches (split_topic p) (split_topic topic) = true).
Proof.
  intros t f topic (HA & _ & _). split.
  - unfold trie_match. apply match_level_nodup. eapply abs_inv_inj; eauto.
  - intros p. unfold trie_match. rewrite match_level_spec. destruct HA as [I1 I2]. split.
    + intros (pi & Hne & Hl & Hp & Hm). pose proof (I2 pi Hl) as E. rewrite Hp in E. subst pi.
      rewrite I1 in Hl. auto.
    + intros [Hl Hm]. exists (split_topic p). split; [apply split_topic_nonempty|].
      rewrite <- I1 in Hl. repeat split; auto.
      apply split_topic_inj. apply I2. exact Hl.
Qed.

(* a trie holding a live pattern has a non-empty root level *)
Lemma trie_inv_root_nonempty : forall t f p, trie_inv t f -> (0 < f p)%N -> trie_is_empty t = false.
Proof.
  intros t f p ([I1 _] & _ & _) Hp. rewrite <- I1 in Hp. unfold trie_is_empty, level_empty.
  destruct (kids (root t)) eqn:EK; [|reflexivity].
  rewrite refs_at_no_kids in Hp; [lia|exact EK|apply split_topic_nonempty].
Qed.
