(* Proofs/TreeAppend.v — Tree.Add answers Append only when the previously presented sequence is a prefix of the new
   one (C06), for every tree reached by Tree.Add / Tree.AddFast calls from the empty tree.

   Ingredients:  (1) a second invariant of the incremental tree: attached ids are pairwise different, every attached
   change other than the root has all its previous ids attached, nothing stays unattached between calls, and
   lastIteratedHeadId is the last childless change of the presented sequence;  (2) what one Add does to a non-empty
   tree: the attached list grows at the front by changes whose ids come from the batch;  (3) reach_loop (Tree.dfsNext)
   only finds Next-descendants of its start;  (4) order_append_prefix (Proofs/DfsStable.v). *)
From Coq Require Import List NArith Bool Arith Lia Permutation.
Import ListNotations.
From AnySync Require Import Lib.Dag Model.Dfs Model.Tree Proofs.DfsBase Proofs.TreeInc Proofs.DfsTopo Proofs.DfsStable.

(* ---------------------------------------------------------------- reach_loop is sound *)

Lemma reach_snoc : forall nx p z y, reach nx p z -> In y (nx z) -> reach nx p y.
Proof.
  intros nx p z y Hr. induction Hr as [p z Hz | p w z Hw Hr IH]; intros Hy.
  - apply (reach_step nx p z y Hz). apply reach_one. exact Hy.
  - apply (reach_step nx p w y Hw). apply IH. exact Hy.
Qed.

Lemma reach_ext : forall nx nx' p y, (forall i, nx i = nx' i) -> reach nx p y -> reach nx' p y.
Proof.
  intros nx nx' p y He Hr. induction Hr as [p y Hy | p z y Hz Hr IH].
  - apply reach_one. rewrite <- He. exact Hy.
  - apply (reach_step nx' p z y); [rewrite <- He; exact Hz | exact IH].
Qed.

Lemma reach_loop_sound : forall nx start fuel st vis,
  (forall x, In x st -> x = start \/ reach nx start x) ->
  (forall x, In x vis -> x = start \/ reach nx start x) ->
  forall x, In x (reach_loop nx fuel st vis) -> x = start \/ reach nx start x.
Proof.
  intros nx start. induction fuel as [|f IH]; intros st vis Hst Hvis x Hx; cbn [reach_loop] in Hx.
  - apply Hvis. exact Hx.
  - destruct st as [|ch st']; [apply Hvis; exact Hx|].
    destruct (mem ch vis).
    + apply (IH st' vis); [intros y Hy; apply Hst; right; exact Hy | exact Hvis | exact Hx].
    + apply (IH _ _) in Hx; [exact Hx | |].
      * intros y Hy. apply in_app_or in Hy. destruct Hy as [Hy|Hy]; [|apply Hst; right; exact Hy].
        apply in_rev in Hy. apply filter_In in Hy. destruct Hy as [Hy _]. right.
        destruct (Hst ch (or_introl eq_refl)) as [Hc|Hc]; [subst ch; apply reach_one; exact Hy | apply (reach_snoc nx start ch y Hc Hy)].
      * intros y [Hy|Hy]; [subst y; apply Hst; left; reflexivity | apply Hvis; exact Hy].
Qed.

(* ---------------------------------------------------------------- the second invariant *)

Definition closed (t : tree) : Prop :=
  forall c p, In c (view (t_att t) (t_root t)) -> In p (cprev c) -> attached t p = true.

Record inv2 (t : tree) : Prop := mkInv2 {
  i2_nodup  : NoDup (ids (t_att t));
  i2_closed : closed t
}.

Lemma inv2_transport : forall t t', t_att t' = t_att t -> t_root t' = t_root t -> inv2 t -> inv2 t'.
Proof.
  intros t t' Ha Hr [H1 H2]. split; [rewrite Ha; exact H1|].
  unfold closed, attached in *. rewrite Ha, Hr. exact H2.
Qed.

Lemma attached_In : forall t i, attached t i = true <-> In i (ids (t_att t)).
Proof. intros t i. unfold attached, has_change. apply mem_In. Qed.

(* [grows t r U added added']: r is t with new changes attached at the front, their ids taken from U *)
Record grows (t r : tree) (U : list N) (added added' : list N) : Prop := mkGrows {
  g_root  : t_root r = t_root t;
  g_last  : t_last r = t_last t;
  g_att   : exists Nw, t_att r = Nw ++ t_att t /\ (forall y, In y (ids Nw) -> In y U)
                       /\ length added' = length added + length Nw;
  g_unatt : forall u, In u (t_unatt r) -> In (cid u) U
}.

Lemma grows_refl : forall t U added, (forall u, In u (t_unatt t) -> In (cid u) U) -> grows t t U added added.
Proof.
  intros t U added Hu. split; try reflexivity; [|exact Hu].
  exists []. split; [reflexivity|]. split; [intros y []| cbn; lia].
Qed.

Lemma grows_trans : forall t a r U U2 x y z,
  grows t a U x y -> grows a r U2 y z -> (forall i, In i U2 -> In i U) -> grows t r U x z.
Proof.
  intros t a r U U2 x y z [R1 L1 [N1 [A1 [I1 Len1]]] Un1] [R2 L2 [N2 [A2 [I2 Len2]]] Un2] Hsub. split.
  - congruence.
  - congruence.
  - exists (N2 ++ N1). split; [rewrite A2, A1, app_assoc; reflexivity|]. split.
    + intros i Hi. unfold ids in Hi. rewrite map_app in Hi. apply in_app_or in Hi.
      destruct Hi as [Hi|Hi]; [apply Hsub, I2; exact Hi | apply I1; exact Hi].
    + rewrite app_length. lia.
  - intros u Hu. apply Hsub, Un2. exact Hu.
Qed.

Lemma grows_weaken : forall t r U U' x y, grows t r U x y -> (forall i, In i U -> In i U') -> grows t r U' x y.
Proof.
  intros t r U U' x y [R L [Nw [A [I Len]]] Un] Hsub. split; try assumption.
  - exists Nw. split; [exact A|]. split; [intros i Hi; apply Hsub, I; exact Hi | exact Len].
  - intros u Hu. apply Hsub, Un. exact Hu.
Qed.

Lemma grows_transport_r : forall t r r' U x y,
  t_root r' = t_root r -> t_last r' = t_last r -> t_att r' = t_att r -> (forall u, In u (t_unatt r') -> In u (t_unatt r)) ->
  grows t r U x y -> grows t r' U x y.
Proof.
  intros t r r' U x y Hr Hl Ha Hu [R L A Un]. split.
  - congruence.
  - congruence.
  - rewrite Ha. exact A.
  - intros u Hin. apply Un, Hu. exact Hin.
Qed.

Lemma grows_transport_l : forall t t' r U x y,
  t_root t' = t_root t -> t_last t' = t_last t -> t_att t' = t_att t ->
  grows t' r U x y -> grows t r U x y.
Proof.
  intros t t' r U x y Hr Hl Ha [R L A Un]. split; try congruence.
  - rewrite <- Ha. exact A.
  - exact Un.
Qed.

Lemma can_attach_core2 : forall t c b,
  let t1 := fst (fst (can_attach t c b)) in
  t_att t1 = t_att t /\ t_next t1 = t_next t /\ t_root t1 = t_root t /\ t_unatt t1 = t_unatt t /\ t_last t1 = t_last t.
Proof.
  intros t c b. unfold can_attach. destruct b; cbn;
    destruct (filter _ (cprev c)); try destruct (attached t (csnap c)); cbn; repeat split.
Qed.

Lemma can_attach_true : forall t c b,
  snd (fst (can_attach t c b)) = true -> forall p, In p (cprev c) -> attached t p = true.
Proof.
  intros t c b H p Hp. unfold can_attach in H.
  destruct (filter (fun p => negb (attached t p)) (cprev c)) as [|m ms] eqn:Em.
  - destruct (attached t p) eqn:Ea; [reflexivity|]. exfalso.
    assert (Hin : In p (filter (fun p => negb (attached t p)) (cprev c))) by (apply filter_In; split; [exact Hp | rewrite Ea; reflexivity]).
    rewrite Em in Hin. destruct Hin.
  - cbn in H. discriminate.
Qed.

Lemma inv2_attach_one : forall t c un w h l d o,
  inv2 t -> attached t (cid c) = false -> (forall p, In p (cprev c) -> attached t p = true) ->
  forall nx, inv2 (mkTree (t_root t) (c :: t_att t) nx un w h l d o).
Proof.
  intros t c un w h l d o [Hnd Hcl] Hna Hprev nx. split; cbn [t_att t_root].
  - cbn [ids map]. constructor; [|exact Hnd]. intro Hin. apply attached_In in Hin. congruence.
  - intros c' p Hc' Hp. rewrite attached_cons. apply orb_true_iff. right.
    unfold view in Hc'. cbn [t_att t_root filter] in Hc'.
    destruct (negb (N.eqb (cid c) (t_root t))).
    + destruct Hc' as [Hc'|Hc']; [subst c'; apply Hprev; exact Hp | apply (Hcl c' p Hc' Hp)].
    + apply (Hcl c' p Hc' Hp).
Qed.

(* Tree.attach *)
Lemma attach_grows : forall fuel t added c newEl,
  inv t -> inv2 t -> t_att t <> [] -> attached t (cid c) = false ->
  (forall p, In p (cprev c) -> attached t p = true) ->
  (newEl = true -> forall u, In u (t_unatt t) -> cid u <> cid c) ->
  inv2 (fst (attach fuel t added c newEl)) /\
  grows t (fst (attach fuel t added c newEl)) (cid c :: ids (t_unatt t)) added (snd (attach fuel t added c newEl)).
Proof.
  induction fuel as [|f IH]; intros t added c newEl Hinv Hinv2 Hne Hna Hprev Hnew.
  - cbn [attach fst snd]. split.
    + apply (inv2_transport t); [reflexivity | reflexivity | exact Hinv2].
    + apply (grows_transport_r t t); try reflexivity; [intros u Hu; exact Hu|].
      apply grows_refl. intros u Hu. right. unfold ids. apply in_map. exact Hu.
  - cbn [attach].
    set (t1 := mkTree (t_root t) (c :: t_att t)
                 (fold_left (fun m q => aupdate m q (insert_sorted (cid c))) (cprev c) (t_next t))
                 (if newEl then t_unatt t else remove_change (t_unatt t) (cid c))
                 (t_wait t) (t_heads t) (t_last t) true (t_oof t)).
    set (U := cid c :: ids (t_unatt t)).
    (* what attach_inv establishes for t1 *)
    assert (Hinv1 : inv t1 /\ t_att t1 <> []).
    { split; [|unfold t1; cbn [t_att]; discriminate]. split.
      - apply attach_core_next; assumption.
      - intros u Hu. unfold t1. rewrite attached_cons. cbn [t_unatt] in Hu.
        assert (Hu' : In u (t_unatt t) /\ cid u <> cid c).
        { destruct newEl; [split; [exact Hu | apply Hnew; auto] | apply remove_change_In; exact Hu]. }
        destruct Hu' as [Hu1 Hu2]. rewrite (inv_unatt t Hinv u Hu1).
        destruct (N.eqb (cid u) (cid c)) eqn:E; [apply N.eqb_eq in E; contradiction | reflexivity].
      - right. unfold t1. rewrite attached_cons. cbn [t_root].
        destruct (inv_root t Hinv) as [He|Hr]; [contradiction | rewrite Hr; apply orb_true_r]. }
    destruct Hinv1 as [Hinv1 Hne1].
    assert (Hinv21 : inv2 t1) by (unfold t1; apply inv2_attach_one; assumption).
    assert (Hg1 : grows t t1 U added (added ++ [cid c])).
    { split; try reflexivity.
      - exists [c]. split; [reflexivity|]. split; [intros y [Hy|[]]; left; exact Hy | rewrite app_length; cbn; lia].
      - intros u Hu. unfold t1 in Hu. cbn [t_unatt] in Hu. right. unfold ids. apply in_map.
        destruct newEl; [exact Hu | apply remove_change_In in Hu; tauto]. }
    clearbody t1.
    assert (Hfold : forall (wl : list N) (acc : tree * list N),
               inv (fst acc) -> inv2 (fst acc) -> t_att (fst acc) <> [] -> grows t (fst acc) U added (snd acc) ->
               let r := fold_left
                 (fun (acc : tree * list N) (wid : N) =>
                    let '(ta, ad) := acc in
                    match find_change (t_unatt ta) wid with
                    | None => acc
                    | Some nxt =>
                        let '(_, att, rem) := can_attach ta nxt false in
                        if att then attach f ta ad nxt false
                        else if rem then (set_unatt ta (remove_change (t_unatt ta) wid), ad)
                        else acc
                    end) wl acc in
               inv2 (fst r) /\ grows t (fst r) U added (snd r)).
    { induction wl as [|wid wl IHwl]; intros [ta ad] Hia Hi2a Hna' Hga; cbn [fold_left fst snd] in *; [split; assumption|].
      destruct (find_change (t_unatt ta) wid) as [nxt|] eqn:Ef; [|apply IHwl; assumption].
      destruct (can_attach ta nxt false) as [[tx att] rem] eqn:Ec. destruct att.
      - apply find_change_In in Ef. destruct Ef as [Hin _].
        assert (Hnatt : attached ta (cid nxt) = false) by (apply (inv_unatt ta Hia); exact Hin).
        assert (Hpr : forall p, In p (cprev nxt) -> attached ta p = true).
        { apply (can_attach_true ta nxt false). rewrite Ec. reflexivity. }
        assert (Hnf : false = true -> forall u, In u (t_unatt ta) -> cid u <> cid nxt) by (intros Hf; discriminate).
        destruct (attach_inv f ta ad nxt false Hia Hna' Hnatt Hnf) as [Hia' Hna''].
        destruct (IH ta ad nxt false Hia Hi2a Hna' Hnatt Hpr Hnf) as [Hi2a' Hga'].
        destruct (attach f ta ad nxt false) as [tr adr]. cbn [fst snd] in *.
        apply IHwl; try assumption.
        apply (grows_trans t ta tr U (cid nxt :: ids (t_unatt ta)) added ad adr Hga Hga').
        intros i [Hi|Hi].
        + subst i. apply (g_unatt _ _ _ _ _ Hga). exact Hin.
        + unfold ids in Hi. apply in_map_iff in Hi. destruct Hi as [u [Hu1 Hu2]]. subst i. apply (g_unatt _ _ _ _ _ Hga). exact Hu2.
      - destruct rem; [|apply IHwl; assumption].
        apply IHwl; cbn [fst snd].
        + apply (inv_transport ta); try reflexivity; [|exact Hia].
          intros u Hu. cbn [set_unatt t_unatt] in Hu. apply remove_change_In in Hu. tauto.
        + apply (inv2_transport ta); [reflexivity | reflexivity | exact Hi2a].
        + cbn [set_unatt t_att]. exact Hna'.
        + apply (grows_transport_r t ta); try reflexivity; [|exact Hga].
          intros u Hu. cbn [set_unatt t_unatt] in Hu. apply remove_change_In in Hu. tauto. }
    specialize (Hfold (alookup (t_wait t1) (cid c)) (t1, added ++ [cid c]) Hinv1 Hinv21 Hne1 Hg1).
    cbn zeta in Hfold.
    destruct (fold_left _ (alookup (t_wait t1) (cid c)) (t1, added ++ [cid c])) as [t2 added2].
    cbn [fst snd] in *. destruct Hfold as [Hi2 Hg2]. split.
    + apply (inv2_transport t2); [reflexivity | reflexivity | exact Hi2].
    + apply (grows_transport_r t t2); try reflexivity; [intros u Hu; exact Hu | exact Hg2].
Qed.

(* Tree.add on a non-empty tree *)
Lemma add_grows : forall t added c,
  inv t -> inv2 t -> t_att t <> [] -> attached t (cid c) = false -> has_change (t_unatt t) (cid c) = false ->
  inv2 (fst (add t added c)) /\ grows t (fst (add t added c)) (cid c :: ids (t_unatt t)) added (snd (add t added c)).
Proof.
  intros t added c Hinv Hinv2 Hne Hna Hnu. unfold add.
  assert (Ern : root_nil t = false) by (unfold root_nil; destruct (t_att t); [contradiction | reflexivity]).
  rewrite Ern.
  pose proof (can_attach_core2 t c true) as Hc. cbn zeta in Hc.
  pose proof (can_attach_true t c true) as Hct.
  destruct (can_attach t c true) as [[t1 att] rem]. cbn [fst snd] in Hc, Hct. destruct Hc as [Ha [Hn [Hr [Hu Hl]]]].
  assert (Hinv1 : inv t1).
  { apply (inv_transport t); try assumption. intros u Hin. rewrite Hu in Hin. exact Hin. }
  assert (Hinv21 : inv2 t1) by (apply (inv2_transport t); assumption).
  assert (Hun : forall u, In u (t_unatt t) -> In (cid u) (cid c :: ids (t_unatt t))).
  { intros u Hin. right. unfold ids. apply in_map. exact Hin. }
  destruct att.
  - assert (Hna1 : attached t1 (cid c) = false) by (unfold attached; rewrite Ha; exact Hna).
    assert (Hpr1 : forall p, In p (cprev c) -> attached t1 p = true).
    { intros p Hp. unfold attached. rewrite Ha. apply (Hct eq_refl p Hp). }
    assert (Hnew1 : true = true -> forall u, In u (t_unatt t1) -> cid u <> cid c).
    { intros _ u Hin E. rewrite Hu in Hin.
      assert (has_change (t_unatt t) (cid c) = true).
      { unfold has_change. apply mem_In. unfold ids. apply in_map_iff. exists u. auto. }
      congruence. }
    assert (Hne1 : t_att t1 <> []) by (rewrite Ha; exact Hne).
    destruct (attach_grows (S (length (t_unatt t1))) t1 added c true Hinv1 Hinv21 Hne1 Hna1 Hpr1 Hnew1) as [Hi2 Hg].
    split; [exact Hi2|]. rewrite <- Hu. apply (grows_transport_l t t1); assumption.
  - destruct rem; cbn [fst snd].
    + split; [exact Hinv21|].
      apply (grows_transport_r t t t1 _ _ _ Hr Hl Ha); [intros u Hin; rewrite Hu in Hin; exact Hin|].
      apply grows_refl. exact Hun.
    + split; [apply (inv2_transport t1); [reflexivity | reflexivity | exact Hinv21]|].
      split; cbn [set_unatt t_root t_last t_att t_unatt]; try assumption.
      * exists []. split; [exact Ha|]. split; [intros y []| cbn; lia].
      * intros u [Hin|Hin]; [subst u; left; reflexivity | rewrite Hu in Hin; apply Hun; exact Hin].
Qed.

(* the "ignore existing" loop on a non-empty tree *)
Lemma add_all_grows : forall cs t added,
  inv t -> inv2 t -> t_att t <> [] ->
  let r := add_all t added cs in
  inv (fst (fst r)) /\ inv2 (fst (fst r)) /\ t_att (fst (fst r)) <> [] /\
  grows t (fst (fst r)) (ids cs ++ ids (t_unatt t)) added (snd (fst r)) /\ length (snd r) = length cs.
Proof.
  induction cs as [|c r IH]; intros t added Hinv Hinv2 Hne; cbn [add_all].
  - cbn [fst snd]. split; [exact Hinv|]. split; [exact Hinv2|]. split; [exact Hne|]. split; [|reflexivity].
    apply grows_refl. intros u Hu. cbn [ids map app]. unfold ids. apply in_map. exact Hu.
  - destruct (attached t (cid c) || has_change (t_unatt t) (cid c)) eqn:E.
    + specialize (IH t added Hinv Hinv2 Hne). cbn zeta in IH.
      destruct (add_all t added r) as [[t' ad'] fl]. cbn [fst snd] in *.
      destruct IH as [H1 [H2 [H3 [H4 H5]]]]. split; [exact H1|]. split; [exact H2|]. split; [exact H3|]. split; [|cbn [length]; rewrite H5; reflexivity].
      apply (grows_weaken _ _ _ _ _ _ H4). intros i Hi. cbn [ids map app]. right. exact Hi.
    + apply orb_false_iff in E. destruct E as [E1 E2].
      destruct (add_inv t added c Hinv E1 E2) as [Hi Hn1].
      destruct (add_grows t added c Hinv Hinv2 Hne E1 E2) as [Hi2 Hg].
      destruct (add t added c) as [t1 ad1]. cbn [fst snd] in *.
      specialize (IH t1 ad1 Hi Hi2 Hn1). cbn zeta in IH.
      destruct (add_all t1 ad1 r) as [[t' ad'] fl]. cbn [fst snd] in *.
      destruct IH as [H1 [H2 [H3 [H4 H5]]]]. split; [exact H1|]. split; [exact H2|]. split; [exact H3|]. split; [|cbn [length]; rewrite H5; reflexivity].
      apply (grows_trans t t1 t' _ (ids r ++ ids (t_unatt t1)) added ad1 ad').
      * apply (grows_weaken _ _ _ _ _ _ Hg). intros i [Hi'|Hi']; [left; exact Hi' | right; apply in_or_app; right; exact Hi'].
      * exact H4.
      * intros i Hi'. apply in_app_or in Hi'. destruct Hi' as [Hi'|Hi'].
        -- cbn [ids map app]. right. apply in_or_app. left. exact Hi'.
        -- unfold ids in Hi'. apply in_map_iff in Hi'. destruct Hi' as [u [Hu1 Hu2]]. subst i.
           destruct (g_unatt _ _ _ _ _ Hg u Hu2) as [H|H]; [left; exact H | right; apply in_or_app; right; exact H].
Qed.

(* ---------------------------------------------------------------- lastIteratedHeadId *)

Definition childless_in (t : tree) (i : N) : bool := is_nil (next_of (view (t_att t) (t_root t)) i).

Definition last_head (t : tree) : N := last (filter (childless_in t) (order (t_att t) (t_root t))) 0%N.

Lemma last_head_transport : forall t t', t_att t' = t_att t -> t_root t' = t_root t -> last_head t' = last_head t.
Proof. intros t t' Ha Hr. unfold last_head, childless_in. rewrite Ha, Hr. reflexivity. Qed.

Record inv3 (t : tree) : Prop := mkInv3 {
  i3_unatt : t_unatt t = [];
  i3_inv2  : inv2 t;
  i3_last  : t_att t <> [] -> t_last t = last_head t
}.

Lemma update_heads_core : forall t,
  t_att (update_heads t) = t_att t /\ t_root (update_heads t) = t_root t /\ t_unatt (update_heads t) = t_unatt t.
Proof. intros t. unfold update_heads. destruct (iter_tree t); repeat split. Qed.

Lemma update_heads_last : forall t, inv t -> t_att t <> [] -> t_last (update_heads t) = last_head t.
Proof.
  intros t Hinv Hne. unfold update_heads. rewrite (inv_iter_canonical t Hinv Hne), order_opt_order. cbn [t_last].
  unfold last_head. f_equal. apply filter_ext. intros i. unfold childless_in. rewrite (inv_next t Hinv). reflexivity.
Qed.

Lemma inv3_finish : forall t1, inv t1 -> inv2 t1 -> inv3 (update_heads (set_unatt t1 [])).
Proof.
  intros t1 Hinv Hinv2. pose proof (set_unatt_nil_inv t1 Hinv) as Hi.
  destruct (update_heads_core (set_unatt t1 [])) as [Ha [Hr Hu]]. split.
  - rewrite Hu. reflexivity.
  - apply (inv2_transport t1); [rewrite Ha; reflexivity | rewrite Hr; reflexivity | exact Hinv2].
  - intros Hne. rewrite (update_heads_last _ Hi) by (rewrite <- Ha; exact Hne).
    symmetry. apply last_head_transport; assumption.
Qed.

Lemma add_empty : forall t added c, t_att t = [] ->
  add t added c = (mkTree (cid c) [c] [] [] [] (t_heads t) (cid c) false (t_oof t), added ++ [cid c]).
Proof. intros t added c He. unfold add, root_nil. rewrite He. reflexivity. Qed.

(* what the loop of one Add / AddFast call leaves behind, from any reachable tree *)
Lemma add_all_facts : forall t cs t1 added fresh,
  inv t -> inv3 t -> add_all t [] cs = (t1, added, fresh) ->
  inv t1 /\ inv2 t1 /\
  (added = [] -> t_att t1 = t_att t /\ t_root t1 = t_root t /\ t_last t1 = t_last t).
Proof.
  intros t cs t1 added fresh Hinv [Hun Hinv2 Hlast] E.
  destruct (t_att t) as [|a0 r0] eqn:Eatt.
  - destruct cs as [|c r].
    + cbn [add_all] in E. inversion E; subst. split; [exact Hinv|]. split; [exact Hinv2|]. intros _. rewrite Eatt. repeat split.
    + cbn [add_all] in E.
      assert (E1 : attached t (cid c) = false) by (unfold attached, has_change; rewrite Eatt; reflexivity).
      assert (E2 : has_change (t_unatt t) (cid c) = false) by (rewrite Hun; reflexivity).
      rewrite E1, E2 in E. cbn [orb] in E.
      destruct (add_inv t [] c Hinv E1 E2) as [Hi0 Hn0].
      rewrite (add_empty t [] c Eatt) in E, Hi0, Hn0. cbn [fst app] in *.
      set (t0 := mkTree (cid c) [c] [] [] [] (t_heads t) (cid c) false (t_oof t)) in *.
      assert (Hi20 : inv2 t0).
      { split; cbn [t0 t_att t_root ids map].
        - constructor; [intros [] | constructor].
        - intros c' p Hc'. unfold view, t0 in Hc'. cbn [t_att t_root filter] in Hc'. rewrite N.eqb_refl in Hc'. destruct Hc'. }
      pose proof (add_all_grows r t0 [cid c] Hi0 Hi20 Hn0) as Hg. cbn zeta in Hg.
      destruct (add_all t0 [cid c] r) as [[t' ad'] fl]. cbn [fst snd] in Hg. inversion E; subst.
      destruct Hg as [H1 [H2 [_ [[_ _ [Nw [_ [_ Hlen]]] _] _]]]].
      split; [exact H1|]. split; [exact H2|]. intros Hnil. rewrite Hnil in Hlen. cbn [length] in Hlen. lia.
  - assert (Hne : t_att t <> []) by (rewrite Eatt; discriminate).
    pose proof (add_all_grows cs t [] Hinv Hinv2 Hne) as Hg. cbn zeta in Hg. rewrite E in Hg. cbn [fst snd] in Hg.
    destruct Hg as [H1 [H2 [_ [[Hr Hl [Nw [Ha [_ Hlen]]] _] _]]]].
    split; [exact H1|]. split; [exact H2|]. intros Hnil. rewrite Hnil in Hlen. cbn [length] in Hlen.
    destruct Nw; [|cbn [length] in Hlen; lia]. cbn [app] in Ha. rewrite <- Eatt. repeat split; assumption.
Qed.

Theorem tree_add_inv3 : forall t cs, inv t -> inv3 t -> inv3 (fst (fst (tree_add t cs))).
Proof.
  intros t cs Hinv H3. unfold tree_add.
  destruct (add_all t [] cs) as [[t1 added] fresh] eqn:E.
  destruct (add_all_facts t cs t1 added fresh Hinv H3 E) as [Hi1 [Hi21 Hsame]].
  destruct added as [|a ad]; cbn [fst].
  - destruct (Hsame eq_refl) as [Ha [Hr Hl]]. destruct H3 as [Hun Hinv2 Hlast]. split.
    + reflexivity.
    + apply (inv2_transport t1); [reflexivity | reflexivity | exact Hi21].
    + cbn [set_unatt t_att t_last]. intros Hne. rewrite Hl, Hlast by (rewrite <- Ha; exact Hne).
      symmetry. apply last_head_transport; assumption.
  - destruct (root_nil t); cbn [fst]; apply inv3_finish; assumption.
Qed.

Theorem tree_add_fast_inv3 : forall t cs, inv t -> inv3 t -> inv3 (fst (tree_add_fast t cs)).
Proof.
  intros t cs Hinv H3. unfold tree_add_fast. destruct cs as [|c r]; [exact H3|].
  destruct (add_all t [] (c :: r)) as [[t1 added] fresh] eqn:E.
  destruct (add_all_facts t (c :: r) t1 added fresh Hinv H3 E) as [Hi1 [Hi21 _]]. cbn [fst].
  pose proof (update_heads_inv t1 Hi1) as Hiu. destruct (update_heads_core t1) as [Ha [Hr Hu]]. split.
  - reflexivity.
  - apply (inv2_transport t1); [exact Ha | exact Hr | exact Hi21].
  - cbn [set_unatt t_att t_last]. intros Hne. rewrite (update_heads_last t1 Hi1) by (rewrite <- Ha; exact Hne).
    symmetry. apply last_head_transport; [exact Ha | exact Hr].
Qed.

Lemma inv3_empty : inv3 empty_tree.
Proof.
  split; [reflexivity | | intros H; contradiction H; reflexivity].
  split; [constructor | intros c p []].
Qed.

Lemma run_ops_inv3_from : forall ops t, inv t -> inv3 t -> inv3 (fold_left apply_op ops t).
Proof.
  induction ops as [|o r IH]; intros t Hinv H3; cbn [fold_left]; [exact H3|].
  apply IH; destruct o; cbn [apply_op];
    [apply tree_add_inv | apply tree_add_fast_inv | apply tree_add_inv3 | apply tree_add_fast_inv3]; assumption.
Qed.

Theorem run_ops_inv3 : forall ops, inv3 (run_ops ops).
Proof. intros ops. apply run_ops_inv3_from; [apply inv_empty | apply inv3_empty]. Qed.

(* ---------------------------------------------------------------- Append => prefix *)

Lemma exists2b_false : forall (A B : Type) (f : A -> B -> bool) l1 l2,
  exists2b f l1 l2 = false -> length l2 = length l1 -> forall a, In a l1 -> exists b, f a b = false.
Proof.
  intros A B f l1. induction l1 as [|a r IH]; intros l2 H Hlen x Hx; [destruct Hx|].
  destruct l2 as [|b r2]; [discriminate|]. cbn [exists2b] in H. apply orb_false_iff in H. destruct H as [H1 H2].
  destruct Hx as [Hx|Hx]; [subst x; exists b; exact H1|].
  apply (IH r2 H2); [cbn [length] in Hlen; lia | exact Hx].
Qed.

Lemma NoDup_app_disjoint : forall (l1 l2 : list N) x, NoDup (l1 ++ l2) -> In x l1 -> In x l2 -> False.
Proof.
  intros l1 l2 x. induction l1 as [|a r IH]; intros Hnd H1 H2; [destruct H1|].
  cbn [app] in Hnd. inversion Hnd as [|y ys Hy Hr]; subst. destruct H1 as [H1|H1].
  - subst a. apply Hy. apply in_or_app. right. exact H2.
  - apply IH; assumption.
Qed.

Theorem tree_add_append_prefix : forall ops cs t2 added rk,
  tree_add (run_ops ops) cs = (t2, Append, added) ->
  acyclic_by rk (view (t_att t2) (t_root t2)) ->
  exists B, iter_ids t2 = iter_ids (run_ops ops) ++ B.
Proof.
  intros ops cs t2 added rk H Hac.
  pose proof (run_ops_inv ops) as Hinv. pose proof (run_ops_inv3 ops) as H3.
  set (t := run_ops ops) in *.
  destruct H3 as [Hun Hinv2 Hlast].
  unfold tree_add in H.
  destruct (add_all t [] cs) as [[t1 ad] fresh] eqn:E.
  destruct ad as [|a ad']; [inversion H|].
  destruct (root_nil t) eqn:Ern; [inversion H|].
  assert (Hne : t_att t <> []) by (unfold root_nil in Ern; destruct (t_att t); [discriminate | discriminate]).
  pose proof (add_all_grows cs t [] Hinv Hinv2 Hne) as Hg. cbn zeta in Hg. rewrite E in Hg. cbn [fst snd] in Hg.
  destruct Hg as [Hi1 [Hi21 [Hne1 [[Hr1 Hl1 [Nw [Ha1 [HU _]]] _] Hlenf]]]].
  set (tu := update_heads (set_unatt t1 [])) in *.
  set (vis := reach_loop (nxf tu) (dfs_fuel (t_att tu)) [t_last t] []) in *.
  destruct (exists2b (fun c fr => attached tu (cid c) && negb (fr && mem (cid c) vis)) cs fresh) eqn:Ebad; inversion H.
  subst t2 added. clear H.
  (* shape of the new tree *)
  destruct (update_heads_core (set_unatt t1 [])) as [Hau [Hru _]]. fold tu in Hau, Hru.
  cbn [set_unatt t_att t_root] in Hau, Hru.
  assert (Hiu : inv tu) by (apply update_heads_inv, set_unatt_nil_inv; exact Hi1).
  assert (Hatt : t_att tu = Nw ++ t_att t) by (rewrite Hau; exact Ha1).
  assert (Hroot : t_root tu = t_root t) by (rewrite Hru; exact Hr1).
  set (S := t_att t) in *. set (root := t_root t) in *.
  assert (Hnd : NoDup (ids Nw ++ ids S)).
  { destruct Hi21 as [Hnd1 _]. rewrite Ha1 in Hnd1. unfold ids in *. rewrite map_app in Hnd1. exact Hnd1. }
  assert (h1 : forall c, In c S -> ~ In (cid c) (ids Nw)).
  { intros c Hc Hin. apply (NoDup_app_disjoint _ _ (cid c) Hnd Hin). unfold ids. apply in_map. exact Hc. }
  assert (h2 : forall c p, In c (view S root) -> In p (cprev c) -> ~ In p (ids Nw)).
  { intros c p Hc Hp Hin. pose proof (i2_closed t Hinv2 c p Hc Hp) as Hat. apply attached_In in Hat.
    apply (NoDup_app_disjoint _ _ p Hnd Hin Hat). }
  assert (h3 : ~ In root (ids Nw)).
  { intros Hin. destruct (inv_root t Hinv) as [He|Hrt]; [contradiction|]. apply attached_In in Hrt.
    apply (NoDup_app_disjoint _ _ root Hnd Hin Hrt). }
  assert (Hac' : acyclic_by rk (view (S ++ Nw) root)).
  { intros c p Hc Hp. apply (Hac c p); [|exact Hp]. rewrite Hatt, Hroot. rewrite view_app in *.
    apply in_or_app. apply in_app_or in Hc. tauto. }
  assert (HacS : acyclic_by rk (view S root)).
  { intros c p Hc Hp. apply (Hac' c p); [|exact Hp]. rewrite view_app. apply in_or_app. left. exact Hc. }
  destruct (order_last_head S root rk HacS) as [A0 [x [Hord Hnx]]].
  assert (Hx : t_last t = x).
  { rewrite (Hlast Hne). unfold last_head, childless_in. fold S root. rewrite Hord, filter_app. cbn [filter].
    rewrite Hnx. cbn [is_nil]. apply last_last. }
  assert (Hit : iter_ids t = order S root).
  { unfold iter_ids. rewrite (inv_iter_canonical t Hinv Hne), order_opt_order. reflexivity. }
  assert (Hneu : t_att tu <> []) by (rewrite Hatt; intro Hnil; apply app_eq_nil in Hnil; destruct Hnil as [_ Hnil]; exact (Hne Hnil)).
  assert (Hitu : iter_ids tu = order (S ++ Nw) root).
  { unfold iter_ids. rewrite (inv_iter_canonical tu Hiu Hneu), order_opt_order, Hatt, Hroot.
    apply order_perm. apply Permutation_app_comm. }
  assert (Hnxu : forall i, nxf tu i = next_of (view (S ++ Nw) root) i).
  { intros i. rewrite (inv_next tu Hiu). unfold nonroot. rewrite Hatt, Hroot.
    apply next_of_perm. apply view_perm. apply Permutation_app_comm. }
  assert (Hreach : forall y, In y (order (S ++ Nw) root) -> In y (ids Nw) ->
                             reach (next_of (view (S ++ Nw) root)) x y).
  { intros y _ HyN.
    pose proof (HU y HyN) as HyU. rewrite Hun in HyU. cbn [ids map] in HyU. rewrite app_nil_r in HyU.
    unfold ids in HyU. apply in_map_iff in HyU. destruct HyU as [c [Hcy Hc]].
    destruct (exists2b_false _ _ _ cs fresh Ebad Hlenf c Hc) as [fr Hfr]. cbn beta in Hfr. rewrite Hcy in Hfr.
    assert (Haty : attached tu y = true).
    { apply attached_In. rewrite Hatt. unfold ids. rewrite map_app. apply in_or_app. left. exact HyN. }
    rewrite Haty in Hfr. cbn [andb] in Hfr. apply negb_false_iff in Hfr. apply andb_true_iff in Hfr. destruct Hfr as [_ Hm].
    apply mem_In in Hm. unfold vis in Hm.
    apply (reach_loop_sound (nxf tu) (t_last t)) in Hm.
    - destruct Hm as [Hm|Hm].
      + exfalso. rewrite Hx in Hm. rewrite Hm in HyN.
        pose proof (order_stable S Nw root h1 h2 h3) as Hst.
        assert (Hxin : In x (filter (not_new Nw) (order (S ++ Nw) root))) by (rewrite Hst, Hord; apply in_or_app; right; left; reflexivity).
        apply filter_In in Hxin. destruct Hxin as [_ Hxn]. apply not_new_true in Hxn. exact (Hxn HyN).
      + rewrite Hx in Hm. apply (reach_ext (nxf tu)); [exact Hnxu | exact Hm].
    - intros z [Hz|[]]. left. symmetry. exact Hz.
    - intros z []. }
  destruct (order_append_prefix S Nw root h1 h2 h3 rk Hac' A0 x Hord Hreach) as [B [HB _]].
  exists B. rewrite Hitu, Hit. exact HB.
Qed.

(* ---------------------------------------------------------------- growth never reorders, for the tree *)

Theorem tree_add_old_order_stable : forall ops cs,
  t_att (run_ops ops) <> [] ->
  exists Nw, t_att (fst (fst (tree_add (run_ops ops) cs))) = Nw ++ t_att (run_ops ops) /\
    filter (not_new Nw) (iter_ids (fst (fst (tree_add (run_ops ops) cs)))) = iter_ids (run_ops ops).
Proof.
  intros ops cs Hne.
  pose proof (run_ops_inv ops) as Hinv. pose proof (run_ops_inv3 ops) as H3.
  set (t := run_ops ops) in *.
  pose proof (tree_add_inv t cs Hinv) as Hi2.
  destruct H3 as [Hun Hinv2 Hlast].
  assert (Hshape : exists t1 Nw, inv2 t1 /\ t_att t1 = Nw ++ t_att t /\ t_root t1 = t_root t /\
            t_att (fst (fst (tree_add t cs))) = t_att t1 /\ t_root (fst (fst (tree_add t cs))) = t_root t1).
  { unfold tree_add.
    pose proof (add_all_grows cs t [] Hinv Hinv2 Hne) as Hg. cbn zeta in Hg.
    destruct (add_all t [] cs) as [[t1 ad] fresh]. cbn [fst snd] in Hg.
    destruct Hg as [_ [Hi21 [_ [[Hr1 _ [Nw [Ha1 _]] _] _]]]].
    exists t1, Nw. split; [exact Hi21|]. split; [exact Ha1|]. split; [exact Hr1|].
    destruct (update_heads_core (set_unatt t1 [])) as [Hau [Hru _]].
    destruct ad as [|a ad']; cbn [fst]; [split; reflexivity|].
    destruct (root_nil t); cbn [fst]; split; assumption. }
  destruct Hshape as [t1 [Nw [Hi21 [Ha1 [Hr1 [Hau Hru]]]]]].
  set (tu := fst (fst (tree_add t cs))) in *.
  exists Nw. split; [rewrite Hau; exact Ha1|].
  set (S := t_att t) in *. set (root := t_root t) in *.
  assert (Hatt : t_att tu = Nw ++ S) by (rewrite Hau; exact Ha1).
  assert (Hroot : t_root tu = root) by (rewrite Hru; exact Hr1).
  assert (Hnd : NoDup (ids Nw ++ ids S)).
  { destruct Hi21 as [Hnd1 _]. rewrite Ha1 in Hnd1. unfold ids in *. rewrite map_app in Hnd1. exact Hnd1. }
  assert (h1 : forall c, In c S -> ~ In (cid c) (ids Nw)).
  { intros c Hc Hin. apply (NoDup_app_disjoint _ _ (cid c) Hnd Hin). unfold ids. apply in_map. exact Hc. }
  assert (h2 : forall c p, In c (view S root) -> In p (cprev c) -> ~ In p (ids Nw)).
  { intros c p Hc Hp Hin. pose proof (i2_closed t Hinv2 c p Hc Hp) as Hat. apply attached_In in Hat.
    apply (NoDup_app_disjoint _ _ p Hnd Hin Hat). }
  assert (h3 : ~ In root (ids Nw)).
  { intros Hin. destruct (inv_root t Hinv) as [He|Hrt]; [contradiction|]. apply attached_In in Hrt.
    apply (NoDup_app_disjoint _ _ root Hnd Hin Hrt). }
  assert (Hit : iter_ids t = order S root).
  { unfold iter_ids. rewrite (inv_iter_canonical t Hinv Hne), order_opt_order. reflexivity. }
  assert (Hneu : t_att tu <> []) by (rewrite Hatt; intro Hnil; apply app_eq_nil in Hnil; destruct Hnil as [_ Hnil]; exact (Hne Hnil)).
  assert (Hitu : iter_ids tu = order (S ++ Nw) root).
  { unfold iter_ids. rewrite (inv_iter_canonical tu Hi2 Hneu), order_opt_order, Hatt, Hroot.
    apply order_perm. apply Permutation_app_comm. }
  rewrite Hitu, Hit. apply order_stable; assumption.
Qed.
