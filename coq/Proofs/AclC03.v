(* C03: the ACL log (Model/Acl.v: add_raw / add_raws / build / records_after) is a tamper-evident chain whose
   state is a fold over the accepted records. *)
From Coq Require Import List NArith Bool Lia.
Import ListNotations.
From AnySync Require Import Model.Acl Proofs.AclBase.
Open Scope N_scope.

Lemma last_or_app : forall l x d, last_or (l ++ [x]) d = x.
Proof.
  induction l as [|y l IH]; intros x d; [reflexivity|].
  cbn [app]. destruct l as [|z l']; [reflexivity|].
  change (last_or ((y :: z :: l') ++ [x]) d) with (last_or ((z :: l') ++ [x]) d). apply IH.
Qed.

Section ListThms.
  Variable legacy need_acc v : bool.
  Variable me : acct.
  Notation add_raw := (add_raw legacy need_acc v me).
  Notation add_raw_keep := (add_raw_keep legacy need_acc v me).
  Notation add_raws := (add_raws legacy need_acc v me).
  Notation replay := (replay legacy need_acc v me).
  Notation build := (build legacy need_acc v me).
  Notation verify_raw := (verify_raw need_acc).

  (* head of the in-memory log = lastRecordId of the state *)
  Definition wf_list (l : alist) : Prop := last (l_state l) = head l.

  Lemma apply_record_last : forall s au r cs s',
    apply_record legacy v me s au r cs = Some s' -> last s' = r.
  Proof.
    intros s au r cs s' H. unfold apply_record in H.
    destruct (apply_contents legacy v me s au r cs); [|discriminate]. now injection H as <-.
  Qed.

  (* accept => extends the head, id = CID(bytes), author signature, acceptor signature when required,
     not a duplicate; exactly this record is appended to memory and storage *)
  Theorem accept_extends : forall l w l',
    wf_list l -> add_raw l w = AddOk l' ->
    w_prev w = head l /\ w_cid_ok w = true /\ w_sig_ok w = true /\ w_decodes w = true /\
    (need_acc = true -> w_acceptor_ok w = true) /\ ~ In (w_id w) (l_ids l) /\
    l_ids l' = l_ids l ++ [w_id w] /\ l_store l' = l_store l ++ [w] /\
    head l' = w_id w /\ wf_list l'.
  Proof.
    intros l w l' Hwf H. unfold Acl.add_raw in H.
    destruct (memN (w_id w) (l_ids l)) eqn:Ed; [discriminate|].
    destruct (Acl.verify_raw need_acc w) eqn:Ev; cbn [negb] in H; [|discriminate].
    destruct (N.eqb_spec (w_prev w) (last (l_state l))) as [Ep|]; cbn [negb] in H; [|discriminate].
    destruct (apply_record legacy v me (l_state l) (w_author w) (w_id w) (decode v me (w_contents w))) as [s'|] eqn:Ea;
      [|discriminate].
    injection H as <-. unfold Acl.verify_raw in Ev.
    apply andb_true_iff in Ev. destruct Ev as [Ev Hc]. apply andb_true_iff in Ev. destruct Ev as [Ev Hs].
    apply andb_true_iff in Ev. destruct Ev as [Hacc Hd].
    repeat split; try assumption; cbn [l_ids l_store l_state].
    - now rewrite Ep.
    - intros ->. cbn in Hacc. exact Hacc.
    - now apply memN_false.
    - unfold head. cbn [l_ids]. apply last_or_app.
    - unfold wf_list, head. cbn [l_ids l_state]. rewrite last_or_app. eapply apply_record_last; eassumption.
  Qed.

  (* reject (or duplicate) => the list (state, in-memory log, storage) is unchanged *)
  Theorem reject_noop : forall l w, (forall l', add_raw l w <> AddOk l') -> add_raw_keep l w = l.
  Proof.
    intros l w H. unfold Acl.add_raw_keep. destruct (Acl.add_raw legacy need_acc v me l w) as [l'| |] eqn:E; try reflexivity.
    exfalso. now apply (H l').
  Qed.

  (* ... in particular a multi-content record failing at content k, whatever the contents before k did to the copy *)
  Lemma apply_contents_app_fail : forall cs1 s au r s1 c cs2,
    apply_contents legacy v me s au r cs1 = Some s1 ->
    apply_content legacy v me s1 au r c = None ->
    apply_contents legacy v me s au r (cs1 ++ c :: cs2) = None.
  Proof.
    induction cs1 as [|c1 rest IH]; intros s au r s1 c cs2 H1 H2; cbn [app apply_contents] in *.
    - injection H1 as <-. now rewrite H2.
    - destruct (apply_content legacy v me s au r c1) as [s0|]; [|discriminate]. eapply IH; eassumption.
  Qed.

  Theorem partial_failure_noop : forall l w cs1 c cs2 s1,
    decode v me (w_contents w) = cs1 ++ c :: cs2 ->
    apply_contents legacy v me (l_state l) (w_author w) (w_id w) cs1 = Some s1 ->
    apply_content legacy v me s1 (w_author w) (w_id w) c = None ->
    add_raw_keep l w = l.
  Proof.
    intros l w cs1 c cs2 s1 Hd H1 H2. apply reject_noop. intros l' H. unfold Acl.add_raw in H.
    destruct (memN (w_id w) (l_ids l)); [discriminate|].
    destruct (negb (Acl.verify_raw need_acc w)); [discriminate|].
    destruct (negb (w_prev w =? last (l_state l))); [discriminate|].
    unfold apply_record in H. rewrite Hd in H.
    rewrite (apply_contents_app_fail _ _ _ _ _ _ _ H1 H2) in H. discriminate.
  Qed.

  (* ---- state = fold over the accepted records *)
  Lemma replay_app : forall ws1 s s1 ws2,
    replay s ws1 = Some s1 -> replay s (ws1 ++ ws2) = replay s1 ws2.
  Proof.
    induction ws1 as [|w rest IH]; intros s s1 ws2 H; cbn [app Acl.replay] in *.
    - now injection H as <-.
    - destruct (negb (Acl.verify_raw need_acc w)); [discriminate|].
      destruct (negb (w_prev w =? last s)); [discriminate|].
      destruct (apply_record legacy v me s (w_author w) (w_id w) (decode v me (w_contents w))) as [s0|]; [|discriminate].
      now apply IH.
  Qed.

  Definition list_inv (s0 : state) (root : rid) (l : alist) : Prop :=
    replay s0 (l_store l) = Some (l_state l) /\ l_ids l = root :: map w_id (l_store l).

  Lemma list_inv_init : forall s0 root, list_inv s0 root (mkList s0 [root] []).
  Proof. intros. split; reflexivity. Qed.

  Lemma add_raw_inv : forall s0 root l w l', list_inv s0 root l -> add_raw l w = AddOk l' -> list_inv s0 root l'.
  Proof.
    intros s0 root l w l' [Hr Hi] H. unfold Acl.add_raw in H.
    destruct (memN (w_id w) (l_ids l)); [discriminate|].
    destruct (negb (Acl.verify_raw need_acc w)) eqn:Ev; [discriminate|].
    destruct (negb (w_prev w =? last (l_state l))) eqn:Ep; [discriminate|].
    destruct (apply_record legacy v me (l_state l) (w_author w) (w_id w) (decode v me (w_contents w))) as [s'|] eqn:Ea;
      [|discriminate].
    injection H as <-. split; cbn [l_store l_state l_ids].
    - rewrite (replay_app _ _ _ _ Hr). cbn [Acl.replay]. now rewrite Ev, Ep, Ea.
    - rewrite Hi, map_app. reflexivity.
  Qed.

  Lemma add_raw_keep_inv : forall s0 root l w, list_inv s0 root l -> list_inv s0 root (add_raw_keep l w).
  Proof.
    intros s0 root l w H. unfold Acl.add_raw_keep.
    destruct (Acl.add_raw legacy need_acc v me l w) as [l'| |] eqn:E; try assumption. eapply add_raw_inv; eassumption.
  Qed.

  (* after ANY sequence of deliveries (valid, invalid, duplicated, in any order) the state is the replay of what is
     in storage, and the in-memory ids are the stored ids *)
  Theorem state_is_fold : forall ws s0 root,
    list_inv s0 root (fold_left add_raw_keep ws (mkList s0 [root] [])).
  Proof.
    intros ws s0 root. assert (G : forall ws l, list_inv s0 root l -> list_inv s0 root (fold_left add_raw_keep ws l)).
    { induction ws0 as [|w rest IH]; intros l H; [assumption|]. cbn [fold_left]. apply IH. now apply add_raw_keep_inv. }
    apply G. apply list_inv_init.
  Qed.

  (* rebuilt from storage (at any point of any delivery sequence) = the incrementally maintained list *)
  Theorem rebuild_eq : forall s0 root l, list_inv s0 root l ->
    build s0 root (l_store l) = Some l.
  Proof.
    intros s0 root [s ids st] [Hr Hi]. cbn [l_store l_state l_ids] in *. unfold Acl.build. rewrite Hr. now rewrite Hi.
  Qed.

  (* batched = one by one (AddRawRecords stops at the first real error; until then it is the same fold) *)
  Theorem batch_eq_single : forall ws l, snd (add_raws l ws) = true -> fst (add_raws l ws) = fold_left add_raw_keep ws l.
  Proof.
    induction ws as [|w rest IH]; intros l H; [reflexivity|].
    cbn [Acl.add_raws fold_left] in *. unfold Acl.add_raw_keep.
    destruct (Acl.add_raw legacy need_acc v me l w) as [l'| |] eqn:E.
    - now apply IH.
    - now apply IH.
    - cbn in H. discriminate.
  Qed.

  Theorem batch_prefix_on_error : forall ws l, snd (add_raws l ws) = false ->
    exists ws1 w ws2, ws = ws1 ++ w :: ws2 /\ fst (add_raws l ws) = fold_left add_raw_keep ws1 l /\
                      add_raw (fold_left add_raw_keep ws1 l) w = AddRejected.
  Proof.
    induction ws as [|w rest IH]; intros l H; [discriminate|].
    cbn [Acl.add_raws] in *.
    destruct (Acl.add_raw legacy need_acc v me l w) as [l'| |] eqn:E.
    - destruct (IH l' H) as (ws1 & w1 & ws2 & -> & Hf & Hr). exists (w :: ws1), w1, ws2.
      cbn [app fold_left]. unfold Acl.add_raw_keep at 2 4. rewrite E. auto.
    - destruct (IH l H) as (ws1 & w1 & ws2 & -> & Hf & Hr). exists (w :: ws1), w1, ws2.
      cbn [app fold_left]. unfold Acl.add_raw_keep at 2 4. rewrite E. auto.
    - exists [], w, rest. cbn. auto.
  Qed.

  (* feeding records that replay from the current state: all accepted, same state (used for catch-up) *)
  Lemma add_raws_replay : forall ws l s',
    replay (l_state l) ws = Some s' ->
    NoDup (l_ids l ++ map w_id ws) ->
    fst (add_raws l ws) = mkList s' (l_ids l ++ map w_id ws) (l_store l ++ ws) /\ snd (add_raws l ws) = true.
  Proof.
    induction ws as [|w rest IH]; intros l s' Hr Hn; cbn [Acl.replay Acl.add_raws map] in *.
    - injection Hr as <-. rewrite !app_nil_r. destruct l; auto.
    - destruct (negb (Acl.verify_raw need_acc w)) eqn:Ev; [discriminate|].
      destruct (negb (w_prev w =? last (l_state l))) eqn:Ep; [discriminate|].
      destruct (apply_record legacy v me (l_state l) (w_author w) (w_id w) (decode v me (w_contents w))) as [s1|] eqn:Ea;
        [|discriminate].
      unfold Acl.add_raw. rewrite Ev, Ep, Ea.
      assert (Hm : memN (w_id w) (l_ids l) = false).
      { apply memN_false. intros Hin. apply NoDup_remove_2 in Hn. apply Hn. apply in_or_app. now left. }
      rewrite Hm.
      specialize (IH (mkList s1 (l_ids l ++ [w_id w]) (l_store l ++ [w])) s').
      cbn [l_state l_ids l_store] in IH. rewrite <- !app_assoc in IH. cbn [app] in IH. apply IH; assumption.
  Qed.

  (* catch-up: a replica E that holds a prefix of A's accepted log and is fed what A serves after E's head (the
     served list starts with E's own head record, which is skipped as a duplicate) ends in A's state *)
  Theorem catchup_eq : forall s0 root st1 d st2 sE sA,
    replay s0 (st1 ++ [d]) = Some sE -> replay s0 (st1 ++ d :: st2) = Some sA ->
    NoDup (root :: map w_id (st1 ++ d :: st2)) ->
    let E := mkList sE (root :: map w_id (st1 ++ [d])) (st1 ++ [d]) in
    let A := mkList sA (root :: map w_id (st1 ++ d :: st2)) (st1 ++ d :: st2) in
    records_after A root (head E) = Some (d :: st2) /\
    fst (add_raws E (d :: st2)) = A /\ snd (add_raws E (d :: st2)) = true.
  Proof.
    intros s0 root st1 d st2 sE sA HE HA Hn E A.
    assert (Hh : head E = w_id d).
    { unfold head, E. cbn [l_ids]. rewrite map_app. cbn [map]. rewrite app_comm_cons. apply last_or_app. }
    assert (Hnr : w_id d <> root).
    { intros Heq. inversion Hn as [|x l Hni Hnd]. apply Hni. rewrite <- Heq. rewrite map_app. apply in_or_app. right. now left. }
    split; [|].
    - unfold records_after. rewrite Hh. destruct (N.eqb_spec (w_id d) root); [contradiction|].
      assert (Hmem : memN (w_id d) (l_ids A) = true).
      { apply memN_In. unfold A. cbn [l_ids]. right. rewrite map_app. apply in_or_app. right. now left. }
      rewrite Hmem. f_equal. unfold A. cbn [l_store].
      inversion Hn as [|x l Hni Hnd]. subst. clear Hn Hni HE HA E A Hh Hmem.
      induction st1 as [|w rest IH]; cbn [app drop_until map] in *.
      + now rewrite N.eqb_refl.
      + inversion Hnd as [|y l' Hy Hl]. subst.
        destruct (N.eqb_spec (w_id w) (w_id d)) as [Eq|].
        * exfalso. apply Hy. rewrite Eq. rewrite map_app. apply in_or_app. right. now left.
        * now apply IH.
    - cbn [Acl.add_raws]. unfold Acl.add_raw.
      assert (Hmem : memN (w_id d) (l_ids E) = true).
      { apply memN_In. unfold E. cbn [l_ids]. right. rewrite map_app. apply in_or_app. right. now left. }
      rewrite Hmem.
      assert (Hr2 : replay sE st2 = Some sA).
      { replace (st1 ++ d :: st2) with ((st1 ++ [d]) ++ st2) in HA by (rewrite <- app_assoc; reflexivity).
        now rewrite (replay_app _ _ _ _ HE) in HA. }
      pose proof (add_raws_replay st2 E sA) as X. cbn [l_state l_ids l_store E] in X.
      assert (Hn2 : NoDup ((root :: map w_id (st1 ++ [d])) ++ map w_id st2)).
      { cbn [app]. rewrite <- map_app, <- app_assoc. exact Hn. }
      destruct (X Hr2 Hn2) as [X1 X2]. split; [|exact X2].
      rewrite X1. unfold A. f_equal.
      + cbn [app]. now rewrite <- map_app, <- app_assoc.
      + now rewrite <- app_assoc.
  Qed.
End ListThms.

(* ---- partial decode: without validation, dropping the other members' read keys changes nothing for the observer *)
Section Partial.
  Variable legacy : bool.
  Variable me : acct.

  Lemma memN_filter_me : forall l, memN me (filter (N.eqb me) l) = memN me l.
  Proof.
    induction l as [|x l IH]; [reflexivity|]. cbn [filter memN existsb].
    destruct (N.eqb_spec me x) as [->|Hne].
    - cbn. now rewrite N.eqb_refl.
    - cbn [existsb]. destruct (N.eqb_spec me x); [contradiction|]. cbn. exact IH.
  Qed.

  Lemma do_rk_keep : forall s r rk, do_rk me s r (keep_rk me rk) = do_rk me s r rk.
  Proof.
    intros s r rk. unfold do_rk, keep_rk. cbn [rk_meta_ok rk_invites rk_accounts]. now rewrite memN_filter_me.
  Qed.

  Lemma apply_content_keep : forall s au r c,
    apply_content legacy false me s au r (keep_ours me c) = apply_content legacy false me s au r c.
  Proof.
    intros s au r c. destruct c; try reflexivity.
    - (* account remove *) destruct rk as [k|]; [|reflexivity]. cbn [keep_ours apply_content].
      unfold apply_account_remove. cbn [andb]. destruct (do_removals s r ids); [|reflexivity]. apply do_rk_keep.
    - (* read key change *) cbn [keep_ours apply_content]. unfold apply_read_key_change. cbn [andb]. apply do_rk_keep.
  Qed.

  Lemma apply_contents_keep : forall cs s au r,
    apply_contents legacy false me s au r (map (keep_ours me) cs) = apply_contents legacy false me s au r cs.
  Proof.
    induction cs as [|c rest IH]; intros s au r; [reflexivity|]. cbn [map apply_contents].
    rewrite apply_content_keep. destruct (apply_content legacy false me s au r c); [apply IH|reflexivity].
  Qed.

  Theorem partial_decode_eq : forall s au r cs,
    apply_record legacy false me s au r (decode false me cs) = apply_record legacy false me s au r cs.
  Proof.
    intros s au r cs. unfold decode, apply_record. cbn [negb andb]. destruct (negb (me =? 0)); [|reflexivity].
    now rewrite apply_contents_keep.
  Qed.
End Partial.

Lemma last_or_default : forall l x d d', last_or (x :: l) d = last_or (x :: l) d'.
Proof.
  induction l as [|y l IH]; intros x d d'; [reflexivity|].
  change (last_or (y :: l) d = last_or (y :: l) d'). apply IH.
Qed.

(* ---- isContiguousChain: an accepted scan is exactly the PrevId chain from the root to the head *)
Lemma chain_from_spec : forall l prev, chain_from prev l = true ->
  forall pre id p post, l = pre ++ (id, p) :: post -> p = last_or (map fst pre) prev.
Proof.
  induction l as [|[id0 p0] rest IH]; intros prev H pre id p post E.
  - destruct pre; discriminate.
  - cbn [chain_from] in H. apply andb_true_iff in H. destruct H as [H1 H2]. apply N.eqb_eq in H1.
    destruct pre as [|[idx px] pre'].
    + cbn in E. injection E as <- <- <-. now cbn.
    + cbn [app] in E. injection E as <- <- ->.
      rewrite (IH id0 H2 pre' id p post eq_refl). cbn [map fst].
      destruct pre' as [|y l']; [reflexivity|]. cbn [map]. 
      change (last_or (fst y :: map fst l') id0 = last_or (fst y :: map fst l') prev). apply last_or_default.
Qed.

Theorem scan_guard : forall l root hd, is_contiguous_chain l root hd = true ->
  exists p0 rest, l = (root, p0) :: rest /\ last_or (map fst l) 0 = hd /\
    forall pre id p post, rest = pre ++ (id, p) :: post -> p = last_or (map fst pre) root.
Proof.
  intros l root hd H. unfold is_contiguous_chain in H. destruct l as [|[id0 p0] rest]; [discriminate|].
  apply andb_true_iff in H. destruct H as [H H3]. apply andb_true_iff in H. destruct H as [H1 H2].
  apply N.eqb_eq in H1, H2. subst id0. exists p0, rest. split; [reflexivity|]. split; [assumption|].
  now apply chain_from_spec.
Qed.
