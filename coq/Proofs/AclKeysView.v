(* C05 — the view half: what the code's unpacking (view_content / unpack / view_rot of Model/AclKeys.v) stores for an
   identity along an honest history.
     * nobody's own list ever refuses a record (no view becomes None),
     * every stored ReadKey is the true key of its generation, and is a generation the identity can derive,
     * a permission holder's view holds EXACTLY the generations, which are exactly what it derives. *)
From Coq Require Import List NArith Bool Lia.
Import ListNotations.
From AnySync Require Import Model.Acl Model.AclKeys Proofs.AclBase Proofs.AclKeysBase Proofs.AclKeysStep Proofs.AclKeysInv.
Open Scope N_scope.

(* ------------------------------------------------------------------------------------------ lists, maps *)
Lemma rev_last_or : forall (l : list rid) d, l <> [] -> exists t, rev l = last_or l d :: t.
Proof.
  intros l d H. destruct (rev l) as [|x t] eqn:E.
  - apply (f_equal (@rev rid)) in E. rewrite rev_involutive in E. cbn in E. contradiction.
  - exists t. f_equal. apply (f_equal (@rev rid)) in E. rewrite rev_involutive in E. cbn [rev] in E.
    rewrite E. symmetry. apply last_or_app.
Qed.

Lemma mget_map_fst : forall (V : Type) (m : list (N * V)) k, In k (map fst m) <-> exists x, mget k m = Some x.
Proof.
  intros V m k. induction m as [|[k' x'] r IH]; cbn [map fst mget In].
  - split; [intros [] | intros [x H]; discriminate].
  - destruct (N.eqb_spec k k') as [->|Hne].
    + split; [intros _; now exists x' | intros _; now left].
    + rewrite <- IH. split; [intros [H|H]; [congruence | exact H] | intros H; now right].
Qed.

Lemma DerivesN_mono : forall p L L' n g, incl L L' -> DerivesN p L n g -> DerivesN p L' n g.
Proof.
  intros p L L' n g Hi H. induction H as [g Hg|n o i _ IH Hc]; [apply D_direct; now apply Hi|].
  apply (D_open p L' n o i IH). now apply Hi.
Qed.
Lemma Derives_mono : forall p L L' g, incl L L' -> Derives p L g -> Derives p L' g.
Proof. intros p L L' g Hi [n H]. exists n. now apply (DerivesN_mono p L L'). Qed.

(* ------------------------------------------------------------------------------------------ unpackAllKeys *)
(* newest first: every generation but the oldest carries the previous one under its own key *)
Fixpoint linked (gens_rev : list rid) (olds : oldmap) : Prop :=
  match gens_rev with
  | g :: ((g' :: _) as t) => mget g olds = Some (Some g') /\ linked t olds
  | _ => True
  end.

Lemma linked_ext : forall l olds olds', (forall g, In g l -> mget g olds' = mget g olds) -> linked l olds -> linked l olds'.
Proof.
  induction l as [|g t IH]; intros olds olds' He H; [exact I|].
  destruct t as [|g' t]; [exact I|]. cbn [linked] in *. destruct H as [H1 H2]. split.
  - rewrite He; [exact H1 | now left].
  - apply (IH olds); [|exact H2]. intros x Hx. apply He. now right.
Qed.

Lemma unpack_linked : forall l g t olds keys, l = g :: t -> linked l olds ->
  exists keys', unpack l g olds keys = Some keys' /\
    (forall x, mget x keys' = if memN x l then Some x else mget x keys) /\
    (forall e, In e keys' -> In e keys \/ exists x, e = (x, x) /\ In x l).
Proof.
  induction l as [|g0 t0 IH]; intros g t olds keys E Hl; [discriminate|].
  injection E as -> ->. cbn [unpack]. rewrite N.eqb_refl.
  destruct t as [|g' t'].
  - exists (mset g g keys). split; [reflexivity|]. split.
    + intros x. rewrite mget_mset. unfold memN. cbn [existsb].
      rewrite orb_false_r. destruct (x =? g) eqn:Ex; [apply N.eqb_eq in Ex; now subst | reflexivity].
    + intros e He. apply In_mset in He. destruct He as [->|He]; [right; exists g; split; [reflexivity|now left] | now left].
  - cbn [linked] in Hl. destruct Hl as [H1 H2]. rewrite H1.
    destruct (IH g' t' olds (mset g g keys) eq_refl H2) as [keys' [Hu [Hm Hi]]].
    exists keys'. split; [exact Hu|]. split.
    + intros x. rewrite Hm.
      change (memN x (g :: g' :: t')) with ((x =? g) || memN x (g' :: t')).
      destruct (memN x (g' :: t')); [now rewrite orb_true_r|]. rewrite orb_false_r, mget_mset.
      destruct (x =? g) eqn:Ex; [apply N.eqb_eq in Ex; now subst | reflexivity].
    + intros e He. destruct (Hi e He) as [He'|[x [-> Hx]]].
      * apply In_mset in He'. destruct He' as [->|He']; [right; exists g; split; [reflexivity|now left] | now left].
      * right. exists x. split; [reflexivity | now right].
Qed.

(* every delivery of the current key to us unpacks all generations *)
Lemma unpack_all_cur : forall gens olds (n : nat) keys, gens <> [] -> linked (rev gens) olds ->
  exists keys', unpack_all gens olds (repeat (Some (last_or gens 0)) n) keys = Some keys' /\
    (forall x, mget x keys' = match n with O => mget x keys | S _ => if memN x gens then Some x else mget x keys end) /\
    (forall e, In e keys' -> In e keys \/ (n <> O /\ exists x, e = (x, x) /\ In x gens)).
Proof.
  intros gens olds n. induction n as [|n IH]; intros keys Hne Hl.
  - exists keys. split; [reflexivity|]. split; [reflexivity | intros e He; now left].
  - cbn [repeat unpack_all]. destruct (rev_last_or gens 0 Hne) as [t Et].
    destruct (unpack_linked (rev gens) (last_or gens 0) t olds keys Et Hl) as [k1 [Hu [Hm Hi]]]. rewrite Hu.
    destruct (IH k1 Hne Hl) as [k2 [Hu2 [Hm2 Hi2]]]. exists k2. split; [exact Hu2|].
    assert (Em : forall x, memN x (rev gens) = memN x gens).
    { intros x. destruct (memN x gens) eqn:E.
      - apply memN_In. apply in_rev. rewrite rev_involutive. now apply memN_In.
      - apply memN_false. intros H. apply in_rev in H. apply memN_false in E. contradiction. }
    split.
    + intros x. rewrite Hm2. destruct n; rewrite Hm, Em; [reflexivity|]. now destruct (memN x gens).
    + intros e He. destruct (Hi2 e He) as [He'|[_ [x [-> Hx]]]].
      * destruct (Hi e He') as [He''|[x [-> Hx]]]; [now left|]. right. split; [discriminate|].
        exists x. split; [reflexivity|]. now apply in_rev.
      * right. split; [discriminate|]. now exists x.
Qed.

Lemma my_entries_all_some : forall (A : Type) (f : A -> N) (l : list A) g me,
  my_entries me (map f l) (all_some g l) = repeat (Some g) (length (filter (fun x => f x =? me) l)).
Proof.
  intros A f l g me. unfold all_some. induction l as [|x l IH]; cbn [map my_entries filter]; [reflexivity|].
  destruct (f x =? me); cbn [length repeat]; now rewrite IH.
Qed.
Lemma my_entries_all_some_id : forall (l : list N) g me,
  my_entries me l (all_some g l) = repeat (Some g) (length (filter (fun x => x =? me) l)).
Proof.
  intros l g me. unfold all_some. induction l as [|x l IH]; cbn [map my_entries filter]; [reflexivity|].
  destruct (x =? me); cbn [length repeat]; now rewrite IH.
Qed.

Lemma filter_len_pos : forall (A : Type) (f : A -> N) (l : list A) me,
  length (filter (fun x => f x =? me) l) <> O <-> In me (map f l).
Proof.
  intros A f l me. induction l as [|x l IH]; cbn [filter map In length]; [tauto|].
  destruct (N.eqb_spec (f x) me) as [E|E]; cbn [length].
  - split; [intros _; now left | discriminate].
  - rewrite IH. split; [intros H; now right | intros [H|H]; [contradiction | exact H]].
Qed.

Lemma last_entry_repeat : forall g n acc,
  last_entry (repeat (Some g) n) acc = Some (match n with O => acc | S _ => Some g end).
Proof.
  intros g n. induction n as [|n IH]; intros acc; [reflexivity|].
  cbn [repeat last_entry]. rewrite IH. now destruct n.
Qed.

Lemma NoDup_snoc : forall (l : list rid) x, NoDup l -> ~ In x l -> NoDup (l ++ [x]).
Proof.
  induction l as [|y l IH]; intros x Hn Hx; cbn [app]; [constructor; [intros []|constructor]|].
  inversion Hn as [|y' l' Hy Hn']; subst. constructor.
  - intros Hin. apply in_app_or in Hin. destruct Hin as [Hin|[<-|[]]]; [contradiction|]. apply Hx. now left.
  - apply IH; [exact Hn'|]. intros Hin. apply Hx. now right.
Qed.

(* ------------------------------------------------------------------------------------------ one view, one content *)
(* what one identity's key map holds: only true keys, only of existing generations, only generations it derives *)
Definition Vok (s : state) (L : list cipher) (a : acct) (keys : keymap) : Prop :=
  forall r g, In (r, g) keys -> g = r /\ In r (keychanges s) /\ Derives (PA a) L r.
Definition Vfull (s : state) (keys : keymap) : Prop := forall g, In g (keychanges s) -> mget g keys = Some g.

Definition olds_ok (s : state) (olds : oldmap) : Prop :=
  NoDup (keychanges s) /\ linked (rev (keychanges s)) olds.

Lemma olds_nonrot : forall olds r c k, is_rot c = None -> olds_step olds r c k = olds.
Proof.
  intros olds r c k H. destruct c; cbn [is_rot] in H; try discriminate H; try reflexivity.
  destruct rk; [discriminate|]. reflexivity.
Qed.

(* a rotation with honest payload: every named recipient stores the new key, nobody else's view changes *)
Lemma rot_view : forall s r c k rk removed me gens olds keys,
  is_rot c = Some (rk, removed) -> honest_content s r c k = true ->
  view_content me gens olds r c k keys = Some (if memN me (rk_accounts rk) then mset r r keys else keys) /\
  olds_step olds r c k = mset r (Some (cur_key s)) olds.
Proof.
  intros s r c k rk removed me gens olds keys Hrot H.
  assert (Hh : honest_rot s r rk k = true /\ view_content me gens olds r c k keys = view_rot me r rk k keys /\
               forall a i o, k = KRot a i o -> olds_step olds r c k = mset r o olds).
  { destruct c; cbn [is_rot] in Hrot; try discriminate Hrot.
    - destruct rk0; [|discriminate]. injection Hrot as <- <-. split; [exact H|]. split; [reflexivity|].
      intros a i o ->. reflexivity.
    - injection Hrot as <- <-. split; [exact H|]. split; [reflexivity|]. intros a i o ->. reflexivity. }
  destruct Hh as [Hh [-> Ho]]. unfold honest_rot in Hh. apply andb_true_iff in Hh. destruct Hh as [Hk _].
  apply kpay_eqb_eq in Hk. subst k. split; [|now apply (Ho _ _ _ eq_refl)].
  unfold view_rot. rewrite my_entries_all_some_id, last_entry_repeat.
  destruct (memN me (rk_accounts rk)) eqn:Em.
  - apply memN_In in Em. rewrite <- (map_id (rk_accounts rk)) in Em.
    apply (filter_len_pos N (fun x => x)) in Em.
    destruct (length (filter (fun x => x =? me) (rk_accounts rk))); [contradiction|]. now rewrite N.eqb_refl.
  - apply memN_false in Em. rewrite <- (map_id (rk_accounts rk)) in Em.
    destruct (length (filter (fun x => x =? me) (rk_accounts rk))) eqn:El; [reflexivity|].
    exfalso. apply Em. apply (filter_len_pos N (fun x => x)). rewrite El. discriminate.
Qed.

(* any other content with honest payload: n deliveries of the current key to us, n > 0 iff the content admits us *)
Lemma nonrot_view : forall s r c k me gens olds keys,
  is_rot c = None -> honest_content s r c k = true ->
  exists n, view_content me gens olds r c k keys = unpack_all gens olds (repeat (Some (cur_key s)) n) keys /\
            (n <> O <-> In me (admits c)).
Proof.
  intros s r c k me gens olds keys Hrot H.
  destruct c; cbn [is_rot] in Hrot; try discriminate Hrot; cbn [admits];
    try (exists O; split; [destruct k; reflexivity | cbn; tauto]).
  - (* accept *) cbn [honest_content] in H. apply andb_true_iff in H. destruct H as [H _].
    apply kpay_eqb_eq in H. subst k. cbn [view_content my_entries].
    destruct (N.eqb_spec ident me) as [E|E].
    + exists 1%nat. split; [reflexivity|]. split; [intros _; now left | discriminate].
    + exists O. split; [reflexivity|]. split; [congruence | intros [H|[]]; contradiction].
  - (* remove without rotation *) destruct rk; [discriminate|]. exists O. split; [destruct k; reflexivity | cbn; tauto].
  - (* add *) cbn [honest_content] in H. apply kpay_eqb_eq in H. subst k. cbn [view_content].
    rewrite my_entries_all_some. eexists. split; [reflexivity|]. apply filter_len_pos.
  - (* invite join *) cbn [honest_content] in H. apply kpay_eqb_eq in H. subst k. cbn [view_content my_entries].
    destruct (N.eqb_spec ident me) as [E|E].
    + exists 1%nat. split; [reflexivity|]. split; [intros _; now left | discriminate].
    + exists O. split; [reflexivity|]. split; [congruence | intros [H|[]]; contradiction].
Qed.

Lemma olds_ok_content : forall s L tr au r c k s' olds,
  KInv s L tr -> olds_ok s olds ->
  apply_content5 false s au r c = Some s' -> honest_content s r c k = true ->
  olds_ok s' (olds_step olds r c k).
Proof.
  intros s L tr au r c k s' olds HI [Hnd Hlk] Hstep Hh.
  destruct (is_rot c) as [[rk removed]|] eqn:Hrot.
  - destruct (step_rot s au r c s' rk removed Hstep Hrot) as [Hk _].
    destruct (honest_rot_ciphers s r c k rk removed Hrot Hh) as [_ Hfresh].
    assert (Ho' : olds_step olds r c k = mset r (Some (cur_key s)) olds)
      by (apply (proj2 (rot_view s r c k rk removed 0 (keychanges s) olds [] Hrot Hh))).
    split; [rewrite Hk; now apply NoDup_snoc|].
    rewrite Hk, rev_app_distr. cbn [rev app]. rewrite Ho'.
    destruct (rev_last_or (keychanges s) 0 (ki_ne _ _ _ HI)) as [t Et].
    assert (Hl' : linked (rev (keychanges s)) (mset r (Some (cur_key s)) olds)).
    { apply (linked_ext _ olds); [|exact Hlk]. intros g Hg. apply mget_mset_neq.
      intros ->. apply Hfresh. now apply in_rev. }
    rewrite Et in Hl' |- *. cbn [linked]. split; [|exact Hl']. apply mget_mset_eq.
  - destruct (step_nonrot s au r c s' Hstep Hrot) as [Hk _].
    rewrite (olds_nonrot olds r c k Hrot). split; rewrite Hk; assumption.
Qed.

Lemma view_content_honest : forall s L tr au r c k s' a keys olds,
  KInv s L tr -> olds_ok s olds ->
  apply_content5 false s au r c = Some s' -> honest_content s r c k = true ->
  Vok s L a keys -> (perm_of s a <> 0 -> Vfull s keys) ->
  exists keys', view_content a (keychanges s) (olds_step olds r c k) r c k keys = Some keys' /\
    Vok s' (L ++ ciphers_of r c k) a keys' /\ (perm_of s' a <> 0 -> Vfull s' keys').
Proof.
  intros s L tr au r c k s' a keys olds HI [Hnd Hlk] Hstep Hh Hok Hfull.
  assert (Hmono : forall g, Derives (PA a) L g -> Derives (PA a) (L ++ ciphers_of r c k) g).
  { intros g. apply Derives_mono. intros x Hx. apply in_or_app. now left. }
  destruct (is_rot c) as [[rk removed]|] eqn:Hrot.
  - destruct (step_rot s au r c s' rk removed Hstep Hrot) as [Hk [_ [Hp0 [Hr1 _]]]].
    destruct (honest_rot_ciphers s r c k rk removed Hrot Hh) as [Hc Hfresh].
    destruct (rot_view s r c k rk removed a (keychanges s) (mset r (Some (cur_key s)) olds) keys Hrot Hh) as [_ Ho].
    pose proof (rot_view s r c k rk removed a (keychanges s) (olds_step olds r c k) keys Hrot Hh) as [Hv _].
    assert (Ho' : olds_step olds r c k = mset r (Some (cur_key s)) olds)
      by (apply (proj2 (rot_view s r c k rk removed a (keychanges s) olds keys Hrot Hh))).
    eexists. split; [exact Hv|]. split.
      * intros x g Hin. destruct (memN a (rk_accounts rk)) eqn:Em.
        -- apply In_mset in Hin. destruct Hin as [Heq|Hin].
           ++ injection Heq as -> ->. split; [reflexivity|]. split; [rewrite Hk; apply in_or_app; right; now left|].
              exists O. apply D_direct. apply in_or_app. right. rewrite Hc. apply in_or_app. left.
              apply in_map_iff. exists a. split; [reflexivity | now apply memN_In].
           ++ destruct (Hok x g Hin) as [H1 [H2 H3]]. split; [exact H1|]. split; [rewrite Hk; apply in_or_app; now left|].
              now apply Hmono.
        -- destruct (Hok x g Hin) as [H1 [H2 H3]]. split; [exact H1|]. split; [rewrite Hk; apply in_or_app; now left|].
           now apply Hmono.
      * intros Hp g Hg. assert (Hm : memN a (rk_accounts rk) = true) by (apply memN_In; now apply Hr1).
        rewrite Hm, mget_mset. rewrite Hk in Hg. apply in_app_or in Hg.
        destruct (N.eqb_spec g r) as [->|Hne]; [reflexivity|].
        destruct Hg as [Hg|[Hg|[]]]; [|congruence]. apply Hfull; [now apply Hp0 | exact Hg].
  - destruct (step_nonrot s au r c s' Hstep Hrot) as [Hk [Hadm _]].
    rewrite (olds_nonrot olds r c k Hrot).
    destruct (nonrot_view s r c k a (keychanges s) olds keys Hrot Hh) as [n [Hv Hn]].
    destruct (unpack_all_cur (keychanges s) olds n keys (ki_ne _ _ _ HI) Hlk) as [keys' [Hu [Hm Hi]]].
    exists keys'. split; [rewrite Hv; exact Hu|]. split.
    + intros x g Hin. destruct (Hi (x, g) Hin) as [Hin'|[Hn0 [y [Heq Hy]]]].
      * destruct (Hok x g Hin') as [H1 [H2 H3]]. split; [exact H1|]. split; [now rewrite Hk | now apply Hmono].
      * injection Heq as -> ->. split; [reflexivity|]. split; [now rewrite Hk|].
        assert (Hd : DerivesN (PA a) (L ++ ciphers_of r c k) O (last_or (keychanges s) 0)).
        { apply D_direct. apply in_or_app. right. apply honest_admit_ciphers; [exact Hh | now apply Hn]. }
        assert (Hch : chain (keychanges s) (L ++ ciphers_of r c k)).
        { apply (chain_mono _ L); [|exact (ki_chain _ _ _ HI)]. intros z Hz. apply in_or_app. now left. }
        destruct (chain_derives (PA a) _ _ Hch (ki_ne _ _ _ HI) O Hd y Hy) as [m [_ Hdm]]. now exists m.
    + intros Hp g Hg. rewrite Hk in Hg. rewrite Hm. destruct n as [|n].
      * apply Hfull; [|exact Hg]. intros Hz. apply (proj2 Hn (Hadm a Hz Hp)). reflexivity.
      * apply memN_In in Hg. now rewrite Hg.
Qed.

(* ------------------------------------------------------------------------------------------ all views, records, histories *)
Definition VInv (ms : mstate) : Prop :=
  olds_ok (m_s ms) (m_olds ms) /\
  forall a v, In (a, v) (m_views ms) ->
    exists keys, v = Some keys /\ Vok (m_s ms) (m_log ms) a keys /\ (perm_of (m_s ms) a <> 0 -> Vfull (m_s ms) keys).

Lemma VInv_content : forall ms tr au r c k ms1,
  KInv (m_s ms) (m_log ms) tr -> VInv ms ->
  kcontent_step false ms au r (c, k) = Some ms1 ->
  honest_content (m_s ms) r c k = true -> VInv ms1.
Proof.
  intros ms tr au r c k ms1 HI [Hol Hvs] Hstep Hh. unfold kcontent_step in Hstep. cbn [fst snd] in Hstep.
  destruct (apply_content5 false (m_s ms) au r c) as [s'|] eqn:Hc; [|discriminate].
  injection Hstep as <-. cbn [m_s m_log m_olds m_views]. split.
  - exact (olds_ok_content _ _ _ _ _ _ _ _ _ HI Hol Hc Hh).
  - intros a v Hin. unfold step_views in Hin. apply in_map_iff in Hin. destruct Hin as [[a0 v0] [Heq Hin0]].
    cbn [fst snd] in Heq. injection Heq as -> <-.
    destruct (Hvs a v0 Hin0) as [keys [-> [Hok Hfull]]].
    destruct (view_content_honest _ _ _ _ _ _ _ _ a keys _ HI Hol Hc Hh Hok Hfull) as [keys' [Hv [Hok' Hfull']]].
    exists keys'. split; [exact Hv|]. split; assumption.
Qed.

Lemma VInv_contents : forall au r cks ms ms' tr,
  KInv (m_s ms) (m_log ms) tr -> VInv ms ->
  kcontents_step false ms au r cks = Some ms' ->
  honest_contents (m_s ms) au r cks = true -> VInv ms'.
Proof.
  intros au r cks. induction cks as [|[c k] rest IH]; intros ms ms' tr HI HV Hstep Hh.
  - cbn in Hstep. injection Hstep as <-. exact HV.
  - cbn [kcontents_step] in Hstep.
    destruct (kcontent_step false ms au r (c, k)) as [ms1|] eqn:H1; [|discriminate].
    cbn [honest_contents fst snd] in Hh. pose proof H1 as H1'. unfold kcontent_step in H1'. cbn [fst snd] in H1'.
    destruct (apply_content5 false (m_s ms) au r c) as [s'|] eqn:Hc; [|discriminate].
    apply andb_true_iff in Hh. destruct Hh as [Hh Hrest]. apply andb_true_iff in Hh. destruct Hh as [Hh Hdel].
    pose proof (VInv_content ms tr au r c k ms1 HI HV H1 Hh) as HV1.
    pose proof (KInv_content _ _ _ au r c k s' HI Hc Hh Hdel) as HI1.
    injection H1' as E. subst ms1.
    eapply (IH _ ms' (tr ++ [s'])); [| exact HV1 | exact Hstep |]; cbn [m_s m_log]; assumption.
Qed.

Lemma VInv_set_last : forall ms r, VInv ms -> VInv (mkM (set_last (m_s ms) r) (m_log ms) (m_olds ms) (m_views ms)).
Proof. intros ms r HV. exact HV. Qed.

Lemma VInv_run : forall h ms tr, Reach ms tr -> VInv ms -> honest_run ms h = true -> VInv (run_hist ms h).
Proof.
  induction h as [|[[au r] cks] rest IH]; intros ms tr HI HV Hh; [exact HV|].
  cbn [honest_run run_hist fold_left fst snd] in *. unfold krecord_step in *.
  destruct (kcontents_step false ms au r cks) as [ms1|] eqn:Hs; cbn [fst snd] in *.
  - apply andb_true_iff in Hh. destruct Hh as [Hh Hrest]. cbn [negb orb] in Hh.
    pose proof (KInv_contents au r cks ms ms1 tr HI Hs Hh) as HI1.
    apply (KInv_set_last _ _ _ r) in HI1.
    pose proof (VInv_contents au r cks ms ms1 tr HI HV Hs Hh) as HV1.
    apply (VInv_set_last ms1 r) in HV1.
    exact (IH (mkM (set_last (m_s ms1) r) (m_log ms1) (m_olds ms1) (m_views ms1)) _ HI1 HV1 Hrest).
  - apply andb_true_iff in Hh. destruct Hh as [_ Hrest]. exact (IH ms tr HI HV Hrest).
Qed.

Lemma VInv_init : forall owner root U, VInv (kinit owner root U).
Proof.
  intros owner root U. unfold kinit. split; cbn [m_s m_olds m_views m_log].
  - split; cbn [init_state keychanges]; [constructor; [intros []|constructor] | exact I].
  - intros a v Hin. apply in_map_iff in Hin. destruct Hin as [a0 [Heq _]]. injection Heq as -> <-.
    eexists. split; [reflexivity|]. split.
    + intros x g Hin. destruct (a =? owner) eqn:E; [|destruct Hin].
      apply N.eqb_eq in E. subst a. destruct Hin as [Heq|[]]. injection Heq as <- <-.
      split; [reflexivity|]. split; [now left|]. exists O. apply D_direct. now left.
    + intros Hp g Hg. cbn [init_state keychanges] in Hg. destruct Hg as [<-|[]].
      unfold perm_of, acc_of in Hp. cbn [init_state accounts mget] in Hp.
      destruct (N.eqb_spec a owner) as [E|E]; [|cbn in Hp; now contradiction Hp].
      cbn [mget]. now rewrite N.eqb_refl.
Qed.

(* the universe of views never changes *)
Lemma views_dom_run : forall h ms, map fst (m_views (run_hist ms h)) = map fst (m_views ms).
Proof.
  assert (C : forall au r cks ms ms', kcontents_step false ms au r cks = Some ms' ->
                map fst (m_views ms') = map fst (m_views ms)).
  { intros au r cks. induction cks as [|ck rest IH]; intros ms ms' H; cbn [kcontents_step] in H.
    - injection H as <-. reflexivity.
    - destruct (kcontent_step false ms au r ck) as [ms1|] eqn:H1; [|discriminate].
      rewrite (IH _ _ H). unfold kcontent_step in H1.
      destruct (apply_content5 false (m_s ms) au r (fst ck)); [|discriminate]. injection H1 as <-.
      cbn [m_views]. unfold step_views. rewrite map_map. cbn [fst]. reflexivity. }
  induction h as [|[[au r] cks] rest IH]; intros ms; [reflexivity|].
  cbn [run_hist fold_left fst snd]. fold (run_hist (fst (krecord_step false ms au r cks)) rest).
  rewrite IH. unfold krecord_step. destruct (kcontents_step false ms au r cks) as [ms1|] eqn:Hs; cbn [fst m_views]; [|reflexivity].
  exact (C _ _ _ _ _ Hs).
Qed.

(* ------------------------------------------------------------------------------------------ the theorems *)
(* every identity of the universe, at the end of every honest history: its own list accepted every record, every key it
   stores is the true key of an existing generation which it can derive from the log with its private key *)
Theorem views_sound : forall owner root U h a,
  honest_run (kinit owner root U) h = true ->
  let ms := run_hist (kinit owner root U) h in
  In a U ->
  exists keys, mget a (m_views ms) = Some (Some keys) /\ right_of (Some keys) = true /\
    forall g, In g (map fst keys) -> In g (keychanges (m_s ms)) /\ Derives (PA a) (m_log ms) g.
Proof.
  intros owner root U h a Hh ms Ha.
  pose proof (reach_hist owner root U h Hh) as HI.
  pose proof (VInv_run h (kinit owner root U) _ (KInv_init owner root : Reach (kinit owner root U) _) (VInv_init owner root U) Hh) as [_ HV]. fold ms in HV.
  assert (Hd : In a (map fst (m_views ms))).
  { unfold ms. rewrite views_dom_run. unfold kinit. cbn [m_views]. rewrite map_map. cbn [fst]. now rewrite map_id. }
  apply mget_map_fst in Hd. destruct Hd as [v Hv]. pose proof (mget_In _ _ _ Hv) as Hin.
  destruct (HV a v Hin) as [keys [-> [Hok _]]]. exists keys. split; [exact Hv|]. split.
  - cbn [right_of]. apply forallb_forall. intros [x g] Hx. destruct (Hok x g Hx) as [-> _]. cbn [fst snd]. apply N.eqb_refl.
  - intros g Hg. apply in_map_iff in Hg. destruct Hg as [[x y] [<- Hx]]. destruct (Hok x y Hx) as [_ [H1 H2]]. now split.
Qed.

(* (1), view half: a permission holder's view holds exactly the generations = exactly what it derives *)
Theorem members_view_all : forall owner root U h a,
  honest_run (kinit owner root U) h = true ->
  let ms := run_hist (kinit owner root U) h in
  In a U -> perm_of (m_s ms) a <> 0 ->
  exists keys, mget a (m_views ms) = Some (Some keys) /\ right_of (Some keys) = true /\
    (forall g, In g (map fst keys) <-> In g (keychanges (m_s ms))) /\
    (forall g, In g (map fst keys) <-> In g (derives (PA a) (m_log ms))) /\
    (forall g, In g (map fst keys) <-> Derives (PA a) (m_log ms) g).
Proof.
  intros owner root U h a Hh ms Ha Hp.
  pose proof (reach_hist owner root U h Hh) as HI. fold ms in HI.
  pose proof (VInv_run h (kinit owner root U) _ (KInv_init owner root : Reach (kinit owner root U) _) (VInv_init owner root U) Hh) as [_ HV]. fold ms in HV.
  destruct (views_sound owner root U h a Hh Ha) as [keys [Hv [Hr Hs]]]. fold ms in Hv, Hs.
  exists keys. split; [exact Hv|]. split; [exact Hr|].
  pose proof (mget_In _ _ _ Hv) as Hin. destruct (HV a _ Hin) as [keys0 [Heq [_ Hfull]]]. injection Heq as <-.
  specialize (Hfull Hp).
  assert (A1 : forall g, In g (map fst keys) <-> In g (keychanges (m_s ms))).
  { intros g. split; [intros Hg; now apply Hs|]. intros Hg. apply mget_map_fst. exists g. now apply Hfull. }
  assert (A3 : forall g, Derives (PA a) (m_log ms) g -> In g (keychanges (m_s ms))).
  { intros g Hd. destruct (derive_only_if_member ms _ a g HI Hd) as [st [Hst [_ Hk]]].
    exact (ki_s4 _ _ _ HI st Hst g Hk). }
  split; [exact A1|]. split.
  - intros g. rewrite A1. split.
    + intros Hg. exact (proj2 (members_derive_all ms _ a g HI Hp Hg)).
    + intros Hg. apply A3. now apply derives_sound.
  - intros g. rewrite A1. split.
    + intros Hg. exact (proj1 (members_derive_all ms _ a g HI Hp Hg)).
    + apply A3.
Qed.
