(* Proofs about the validators of Model/Trie.v (C17): ValidateTopic / ValidatePattern accept exactly the
   canonical domain of the matching rule, and on that domain splitTopic is the plain split at '/'. *)
From Coq Require Import List NArith Bool Arith Lia.
Import ListNotations.
From AnySync Require Import Model.Trie Proofs.TrieProofs.

Lemma full_split_nonempty : forall s, full_split s <> [].
Proof.
  induction s as [|c s IH]; simpl; [discriminate|].
  destruct (N.eqb c SLASH); [discriminate|]. destruct (full_split s); discriminate.
Qed.

Lemma full_split_cut_none : forall s a, cut s = (a, None) -> full_split s = [a].
Proof.
  induction s as [|c s IH]; simpl; intros a H.
  - inversion H. reflexivity.
  - destruct (N.eqb c SLASH); [discriminate|]. destruct (cut s) as [a' o] eqn:C. inversion H; subst.
    rewrite (IH a' eq_refl). reflexivity.
Qed.

Lemma full_split_cut_some : forall s a r, cut s = (a, Some r) -> full_split s = a :: full_split r.
Proof.
  induction s as [|c s IH]; simpl; intros a r H.
  - discriminate.
  - destruct (N.eqb c SLASH).
    + inversion H; subst. reflexivity.
    + destruct (cut s) as [a' o] eqn:C. inversion H; subst. rewrite (IH a' r eq_refl). reflexivity.
Qed.

Lemma splitN_full_le : forall f s, (length (full_split s) <= S f)%nat -> splitN f s = full_split s.
Proof.
  induction f as [|f IH]; intros s H.
  - simpl. destruct (cut s) as [a [r|]] eqn:C.
    + rewrite (full_split_cut_some _ _ _ C) in H. simpl in H.
      pose proof (full_split_nonempty r). destruct (full_split r); [contradiction|simpl in H; lia].
    + rewrite (full_split_cut_none _ _ C). apply cut_none in C. destruct C as [C _]. congruence.
  - cbn [splitN]. destruct (cut s) as [a [r|]] eqn:C.
    + rewrite (full_split_cut_some _ _ _ C) in *. simpl in H. rewrite IH by lia. reflexivity.
    + rewrite (full_split_cut_none _ _ C). reflexivity.
Qed.

Lemma splitN_full_gt : forall f s, (length (full_split s) > f)%nat -> length (splitN f s) = S f.
Proof.
  induction f as [|f IH]; intros s H; [reflexivity|].
  cbn [splitN]. destruct (cut s) as [a [r|]] eqn:C.
  - rewrite (full_split_cut_some _ _ _ C) in H. simpl in H. simpl. rewrite IH by lia. reflexivity.
  - rewrite (full_split_cut_none _ _ C) in H. simpl in H. lia.
Qed.

(* within the segment limit the Go split is the plain split; beyond it, it reports 17 segments *)
Lemma split_topic_full : forall s, (length (full_split s) <= max_segments)%nat -> split_topic s = full_split s.
Proof. intros s H. apply splitN_full_le. unfold max_segments in *. lia. Qed.

Lemma split_topic_over : forall s, (length (full_split s) > max_segments)%nat ->
  length (split_topic s) = S max_segments.
Proof. intros s H. apply splitN_full_gt. exact H. Qed.

Lemma forallb_and : forall {A} (f g : A -> bool) l,
  forallb (fun x => f x && g x) l = forallb f l && forallb g l.
Proof.
  induction l as [|x l IH]; simpl; auto. rewrite IH.
  destruct (f x), (g x), (forallb f l), (forallb g l); reflexivity.
Qed.

Lemma full_split_nil_topic : forall t, is_nil t = true -> forallb (fun s : str => negb (is_nil s)) (full_split t) = false.
Proof. intros [|c t] H; [reflexivity|discriminate]. Qed.

Theorem validate_topic_iff : forall t, validate_topic t = spec_valid_topic t.
Proof.
  intros t. unfold validate_topic, spec_valid_topic, validate_segments.
  destruct (Nat.leb (length (full_split t)) max_segments) eqn:EL.
  - apply Nat.leb_le in EL. rewrite (split_topic_full t EL).
    apply Nat.leb_le in EL. rewrite EL.
    unfold seg_plain. rewrite forallb_and.
    destruct (is_nil t) eqn:EN.
    + rewrite (full_split_nil_topic t EN). simpl. rewrite andb_false_r. reflexivity.
    + simpl. destruct (Nat.leb (length t) max_topic_len); simpl; reflexivity.
  - apply Nat.leb_gt in EL. rewrite (split_topic_over t EL).
    assert (E : Nat.leb (S max_segments) max_segments = false) by reflexivity. rewrite E.
    rewrite !andb_false_r. reflexivity.
Qed.

Lemma is_star_shape : forall s, is_star s = true -> s = star_seg.
Proof. intros s H. apply str_eqb_eq in H. exact H. Qed.
Lemma is_tail_shape : forall s, is_tail s = true -> s = tail_seg.
Proof. intros s H. apply str_eqb_eq in H. exact H. Qed.

Lemma pattern_segs_equiv : forall segs,
  forallb (fun s : str => negb (is_nil s)) segs && pattern_segs_ok segs = spec_pattern_segs segs.
Proof.
  induction segs as [|s r IH]; [reflexivity|].
  cbn [forallb pattern_segs_ok spec_pattern_segs]. rewrite <- IH.
  destruct (is_star s) eqn:ES.
  - apply is_star_shape in ES. subst s. simpl.
    destruct (forallb _ r), (pattern_segs_ok r); reflexivity.
  - destruct (is_tail s) eqn:ET.
    + apply is_tail_shape in ET. subst s. simpl.
      destruct (is_nil r), (forallb _ r), (pattern_segs_ok r); reflexivity.
    + unfold seg_plain. simpl.
      destruct (is_nil s), (contains_wild s), (forallb _ r), (pattern_segs_ok r); reflexivity.
Qed.

Theorem validate_pattern_iff : forall p, validate_pattern p = spec_valid_pattern p.
Proof.
  intros p. unfold validate_pattern, spec_valid_pattern, validate_segments.
  destruct (Nat.leb (length (full_split p)) max_segments) eqn:EL.
  - apply Nat.leb_le in EL. rewrite (split_topic_full p EL).
    apply Nat.leb_le in EL. rewrite EL.
    rewrite <- andb_assoc. rewrite pattern_segs_equiv.
    destruct (is_nil p) eqn:EN.
    + destruct p; [|discriminate]. reflexivity.
    + simpl. rewrite andb_true_r. reflexivity.
  - apply Nat.leb_gt in EL. rewrite (split_topic_over p EL).
    assert (E : Nat.leb (S max_segments) max_segments = false) by reflexivity. rewrite E.
    rewrite !andb_false_r. reflexivity.
Qed.

(* on validated input the code's segmentation is the rule's segmentation *)
Lemma valid_pattern_split : forall p, validate_pattern p = true -> split_topic p = full_split p.
Proof.
  intros p H. rewrite validate_pattern_iff in H. unfold spec_valid_pattern in H.
  apply andb_true_iff in H. destruct H as [H _]. apply andb_true_iff in H. destruct H as [_ H].
  apply Nat.leb_le in H. apply split_topic_full. exact H.
Qed.

Lemma valid_topic_split : forall t, validate_topic t = true -> split_topic t = full_split t.
Proof.
  intros t H. rewrite validate_topic_iff in H. unfold spec_valid_topic in H.
  apply andb_true_iff in H. destruct H as [H _]. apply andb_true_iff in H. destruct H as [_ H].
  apply Nat.leb_le in H. apply split_topic_full. exact H.
Qed.

(* the declarative reading of the canonical domain *)
Lemma full_split_join_inv : forall s, join (full_split s) = s.
Proof.
  induction s as [|c s IH]; [reflexivity|]. cbn [full_split].
  destruct (N.eqb c SLASH) eqn:E.
  - apply N.eqb_eq in E. subst c. rewrite join_cons by apply full_split_nonempty. rewrite IH. reflexivity.
  - pose proof (full_split_nonempty s) as NE. destruct (full_split s) as [|h t] eqn:EF; [contradiction|].
    destruct t as [|h2 t2]; simpl in *; congruence.
Qed.

Theorem validate_model_spec : forall s, spec_C17_validate s (validate_topic s) (validate_pattern s) = true.
Proof.
  intros s. unfold spec_C17_validate. rewrite validate_topic_iff, validate_pattern_iff.
  rewrite !Bool.eqb_reflx. reflexivity.
Qed.
