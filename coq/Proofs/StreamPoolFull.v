(* Proofs about Model/StreamPool.v (property C19), part 7: the model's harness-level histories satisfy the WHOLE
   executable specification: forall c ops, spec_C19 ops (model_hist c ops) = true.
   Assembles: per-observation clauses (StreamPoolSpec), Close/removal once (StreamPoolHist), one writer per stream
   (StreamPoolHist), snapshot consistency / cleanup (StreamPoolSnap), and — proved here on top of the per-operation
   invariant [Dop] (StreamPoolFifo) — FIFO over the MsgSend log and "no send issued after the removal reaches a removed
   stream", "after a stream ended nothing mentions it". *)
From Coq Require Import List NArith Bool Lia Arith Permutation Sorted.
Import ListNotations.
From AnySync Require Import Model.StreamPool Proofs.StreamPoolProofs Proofs.StreamPoolIndex Proofs.StreamPoolSpec
  Proofs.StreamPoolHist Proofs.StreamPoolSnap Proofs.StreamPoolFifo.
Open Scope N_scope.

(* ------------------------------------------------------------------ small list facts *)
Lemma sorted_app_le : forall a b x y, StronglySorted N.le (a ++ b) -> In x a -> In y b -> x <= y.
Proof.
  induction a as [|a0 a IH]; intros b x y Hs Hx Hy; cbn [In] in Hx; [tauto|].
  cbn [app] in Hs. inversion Hs as [|a' l' Hs' Hf]; subst. destruct Hx as [->|Hx].
  - rewrite Forall_forall in Hf. apply Hf. apply in_or_app. right; exact Hy.
  - eapply IH; eauto.
Qed.

Lemma aget_in : forall k v l, aget k l = Some v -> In (k, v) l.
Proof.
  intros k v l; induction l as [|[k' v'] r IH]; cbn [aget]; [discriminate|].
  destruct (N.eqb_spec k k') as [->|Hne]; [intros E; inversion E; subst; left; reflexivity | intros H; right; auto].
Qed.

Lemma in_aget : forall k v l, In (k, v) l -> exists v', aget k l = Some v'.
Proof.
  intros k v l; induction l as [|[k' v'] r IH]; cbn [In aget]; [tauto|].
  intros [E|H]; destruct (k =? k') eqn:Ek; eauto.
  inversion E; subst. rewrite N.eqb_refl in Ek. discriminate.
Qed.

Lemma aget_map_const : forall (A : Type) k (i : N) (l : list (N * A)) v,
  aget k (map (fun rm => (fst rm, i)) l) = Some v -> v = i.
Proof.
  intros A k i l v. induction l as [|[k' x] r IH]; cbn [map aget fst]; [discriminate|].
  destruct (k =? k'); [intros E; inversion E; reflexivity | exact IH].
Qed.

Lemma in_entries : forall sid m evs, In (sid, m) (entries evs) <-> In (sid, (m, true)) evs.
Proof.
  intros sid m evs. unfold entries. rewrite in_flat_map. split.
  - intros ([k [m' e]] & Hin & H). cbn [fst snd] in H. destruct e; cbn [In] in H; [|tauto].
    destruct H as [H|[]]. inversion H; subst. exact Hin.
  - intros H. exists (sid, (m, true)). split; [exact H | left; reflexivity].
Qed.

(* ------------------------------------------------------------------ what the observer remembers about takes and removals *)
Definition oi (st : ost) (s : state) : Prop :=
  (forall sid m0, aget sid (os_last st) = Some m0 ->
     exists x, hget sid (objs s) = Some x /\ In m0 (st_taken x))
  /\ (forall sid r, aget sid (os_removed st) = Some r ->
     exists x, hget sid (objs s) = Some x /\ st_removed x = true /\ Forall (fun m => m <= r) (st_accepted x)).

Lemma oi_mono : forall st s s', objs_ok (objs s) -> heap_rel ge2 (objs s) (objs s') -> oi st s -> oi st s'.
Proof.
  intros st s s' Ho Hr [H1 H2]. split.
  - intros sid m0 Hg. destruct (H1 sid m0 Hg) as (x & Hx & Hin). destruct (Hr sid x Hx) as (y & Hy & (G1 & _)).
    exists y. split; [exact Hy | apply G1; exact Hin].
  - intros sid r Hg. destruct (H2 sid r Hg) as (x & Hx & Hrm & Hf).
    destruct (Hr sid x Hx) as (y & Hy & (_ & G2 & _ & G4)).
    destruct (Ho sid x Hx) as (_ & _ & _ & _ & Hq & _).
    exists y. split; [exact Hy|]. split; [apply G4; exact Hrm|]. rewrite (G2 (Hq Hrm)). exact Hf.
Qed.

Lemma take_some : forall st m, snd (take st) = Some m ->
  exists q, st_queue st = m :: q /\ st_taken (fst (take st)) = st_taken st ++ [m].
Proof.
  intros st m. unfold take. destruct (st_wdone st); [discriminate|]. destruct (st_inflight st); [discriminate|].
  destruct (st_queue st) as [|m' q]; [destruct (st_qclosed st); discriminate|].
  cbn. intros H; inversion H; subst. exists q. split; reflexivity.
Qed.

Lemma label_take : forall s l sid m, In (sid, (m, true)) (label_events s l) ->
  dead s = false /\ l = LTake sid /\ exists st, hget sid (objs s) = Some st /\ snd (take st) = Some m.
Proof.
  intros s l sid m H. unfold label_events in H. fold (dead s) in H. destruct (dead s); [destruct H|].
  split; [reflexivity|]. destruct l; cbn [In] in H; try tauto.
  - destruct (hget sid0 (objs s)) as [st|] eqn:E; [|destruct H].
    destruct (snd (take st)) as [m'|] eqn:Et; [|destruct H]. destruct H as [H|[]]. inversion H; subst.
    split; [reflexivity|]. exists st. split; assumption.
  - destruct (infl s sid0); [|destruct H]. destruct H as [H|[]]. inversion H.
  - destruct (infl s sid0); [|destruct H]. destruct H as [H|[]]. inversion H.
Qed.

(* the FIFO facts about one MsgSend entry (sid, m) seen during operation i by an observer in state st *)
Definition take_fact (i : N) (st : ost) (sid m : N) : Prop :=
  m <= i
  /\ (forall m0, aget sid (os_last st) = Some m0 -> m0 <= m)
  /\ (forall r, aget sid (os_removed st) = Some r -> m <= r).

Lemma step_take_fact : forall i b st s l sid m,
  good s -> Dop i b s -> oi st s -> In (sid, (m, true)) (label_events s l) ->
  take_fact i st sid m /\ exists y, hget sid (objs (step s l)) = Some y /\ In m (st_taken y).
Proof.
  intros i b st s l sid m [Ho Hi] HD [O1 O2] Hin.
  apply label_take in Hin. destruct Hin as (Hd & -> & x & Hx & Ht).
  destruct (take_some x m Ht) as (q & Hq & Htk).
  destruct (Ho sid x Hx) as (_ & _ & Hacc & _).
  destruct (d_acc i b s HD sid x Hx) as [Hs Hf]. rewrite Hacc, Hq in Hs, Hf.
  split; [split; [|split]|].
  - rewrite Forall_forall in Hf. apply Hf. apply in_or_app. right; left; reflexivity.
  - intros m0 Hg. destruct (O1 sid m0 Hg) as (x' & Hx' & Hin). rewrite Hx in Hx'. inversion Hx'; subst x'.
    eapply sorted_app_le; [exact Hs | exact Hin | left; reflexivity].
  - intros r Hg. destruct (O2 sid r Hg) as (x' & Hx' & _ & Hfr). rewrite Hx in Hx'. inversion Hx'; subst x'.
    rewrite Hacc, Hq in Hfr. rewrite Forall_forall in Hfr. apply Hfr. apply in_or_app. right; left; reflexivity.
  - unfold step, step_out. unfold dead in Hd. rewrite Hd. rewrite Hx.
    destruct (take x) as [x' o] eqn:E. cbn [fst snd] in *. cbn [objs upd_objs]. rewrite hget_hset_same.
    exists x'. split; [reflexivity|]. rewrite Htk. apply in_or_app. right; left; reflexivity.
Qed.

Lemma good_step : forall s l, good s -> good (step s l).
Proof. intros s l H. exact (good_run [l] s H). Qed.

Lemma run_take_fact : forall ls i b st s sid m,
  good s -> Dop i b s -> oi st s -> ls_ok i b ls -> In (sid, (m, true)) (run_events s ls) ->
  take_fact i st sid m /\ exists y, hget sid (objs (run s ls)) = Some y /\ In m (st_taken y).
Proof.
  induction ls as [|l ls IH]; intros i b st s sid m Hg HD Hoi Hok Hin; cbn [run_events] in Hin; [destruct Hin|].
  destruct Hok as [Hl Hok]. cbn [run fold_left]. apply in_app_or in Hin. destruct Hin as [Hin|Hin].
  - destruct (step_take_fact i b st s l sid m Hg HD Hoi Hin) as (Hf & y & Hy & Hm). split; [exact Hf|].
    destruct (run_heap_ge2 ls (step s l) (proj2 (good_step s l Hg)) sid y Hy) as (z & Hz & (G1 & _)).
    exists z. split; [exact Hz | apply G1; exact Hm].
  - apply (IH i (next_b b l) st (step s l)); auto.
    + apply good_step; exact Hg.
    + apply step_Dop; [exact (proj2 Hg) | exact HD | exact Hl].
    + eapply oi_mono; [exact (proj1 Hg) | apply step_heap_ge2; exact (proj2 Hg) | exact Hoi].
Qed.

(* ------------------------------------------------------------------ the expansion of operation i only uses labels of operation i *)
Definition lplain (i : N) (b : bool) (l : label) : Prop :=
  match l with
  | LBroadcast _ _ _ | LSendById _ _ _ | LSend _ _ _ => False
  | LWrite c => c = i + 1 \/ (c = 0 /\ b = true)
  | _ => True
  end.

Lemma ls_ok_plain : forall i b ls, Forall (lplain i b) ls -> ls_ok i b ls.
Proof.
  intros i b ls H; induction H as [|l ls Hl Hls IH]; cbn [ls_ok]; [exact I|].
  assert (Hn : next_b b l = b) by (destruct l; cbn in Hl |- *; tauto || reflexivity).
  rewrite Hn. split; [|exact IH]. destruct l; cbn in Hl |- *; tauto.
Qed.

Lemma writes_takes_plain : forall i b cid ids n,
  (cid = i + 1 \/ (cid = 0 /\ b = true)) -> Forall (lplain i b) (writes_takes cid ids n).
Proof.
  intros i b cid ids n Hc. apply Forall_forall. intros l Hin. unfold writes_takes in Hin.
  apply in_flat_map in Hin. destruct Hin as (k & _ & [<-|Hin]); [exact Hc|].
  apply in_map_iff in Hin. destruct Hin as (x & <- & _). exact I.
Qed.

Lemma expand_ls_ok : forall s i op, ls_ok i false (expand s i op).
Proof.
  intros s i op. destruct op; cbn [expand].
  - apply ls_ok_plain. repeat constructor.
  - cbn [ls_ok lab_ok next_b]. split; [split; reflexivity|]. apply ls_ok_plain, writes_takes_plain. right; split; reflexivity.
  - cbn [ls_ok lab_ok next_b]. split; [split; reflexivity|]. apply ls_ok_plain, writes_takes_plain. right; split; reflexivity.
  - apply ls_ok_plain. repeat constructor.
  - apply ls_ok_plain. repeat constructor.
  - apply ls_ok_plain. repeat constructor.
  - destruct ok; [apply ls_ok_plain; repeat constructor|].
    apply ls_ok_plain. destruct (cgated s sid); repeat constructor.
  - apply ls_ok_plain. destruct (cgated s sid); repeat constructor.
  - apply ls_ok_plain. repeat constructor.
  - cbn [ls_ok lab_ok next_b]. split; [split; reflexivity|]. split; [exact I|].
    apply ls_ok_plain. apply Forall_app. split; [|repeat constructor].
    apply Forall_forall. intros l Hin. apply in_flat_map in Hin. destruct Hin as (po & _ & [<-|Hin]); [exact I|].
    pose proof (writes_takes_plain i false (i + 1) (all_ids s (length peers)) (S (length (objs s))) (or_introl eq_refl)) as Hf.
    rewrite Forall_forall in Hf. apply Hf. exact Hin.
  - cbn [ls_ok lab_ok next_b]. split; [split; reflexivity|]. split; [exact I|exact I].
Qed.

(* ------------------------------------------------------------------ one operation: FIFO clause and the observer's memory *)
Definition fifo_ok (st : ost) (i : N) (o : obs) : bool :=
  forallb (fun sm => (snd sm <=? i)
                     && match aget (fst sm) (os_last st) with Some m0 => m0 <=? snd sm | None => true end
                     && match aget (fst sm) (os_removed st) with Some r => snd sm <=? r | None => true end)
          (o_takes o).

Lemma run_op_fifo : forall s i op st, good s -> Dop i false s -> oi st s ->
  fifo_ok st i (snd (run_op s i op)) = true
  /\ oi (obs_next st i (snd (run_op s i op))) (fst (run_op s i op))
  /\ Dop (N.succ i) false (fst (run_op s i op)).
Proof.
  intros s i op st Hg HD Hoi.
  pose proof (expand_ls_ok s i op) as Hok.
  pose proof (run_Dop _ i false s (proj2 Hg) HD Hok) as HD'.
  pose proof (run_heap_ge2 (expand s i op) s (proj2 Hg)) as Hrel.
  pose proof (oi_mono st s _ (proj1 Hg) Hrel Hoi) as Hoi'.
  assert (Htk : forall sid m, In (sid, m) (o_takes (snd (run_op s i op))) ->
                take_fact i st sid m /\ exists y, hget sid (objs (run s (expand s i op))) = Some y /\ In m (st_taken y)).
  { intros sid m Hin. unfold run_op in Hin. cbn [snd o_takes] in Hin. apply in_entries in Hin.
    apply (Permutation_in _ (sortK_perm _ _)) in Hin.
    eapply run_take_fact; eauto. }
  unfold run_op in *. cbn [fst snd] in *. set (s' := run s (expand s i op)) in *.
  split; [|split].
  - unfold fifo_ok. apply forallb_forall. intros [sid m] Hin. cbn [fst snd].
    destruct (Htk sid m Hin) as ((F1 & F2 & F3) & _).
    apply andb_true_iff; split; [apply andb_true_iff; split|].
    + apply N.leb_le; exact F1.
    + destruct (aget sid (os_last st)) as [m0|]; [apply N.leb_le; apply F2; reflexivity | reflexivity].
    + destruct (aget sid (os_removed st)) as [r|]; [apply N.leb_le; apply F3; reflexivity | reflexivity].
  - destruct Hoi' as [O1 O2]. unfold obs_next. cbn [o_takes o_closed o_removed os_last os_removed]. split.
    + intros sid m0 Hgm. cbn [os_last os_removed o_takes o_removed] in Hgm. rewrite aget_app in Hgm.
      match type of Hgm with context [aget sid ?l] => destruct (aget sid l) as [v|] eqn:E end.
      * inversion Hgm; subst v. apply aget_in in E. destruct (Htk sid m0 E) as (_ & y & Hy & Hin). exists y. split; assumption.
      * apply O1; exact Hgm.
    + intros sid r Hgr. cbn [os_last os_removed o_takes o_removed] in Hgr. rewrite aget_app in Hgr.
      match type of Hgr with context [aget sid (map ?f ?l)] => destruct (aget sid (map f l)) as [v|] eqn:E end.
      * inversion Hgr; subst v. pose proof (aget_map_const _ _ _ _ _ E) as ->.
        apply aget_map_in in E. rewrite map_map in E. cbn [fst] in E. rewrite map_id in E.
        apply flag_diff_spec in E. destruct E as ((y & Hy & Hrm) & _).
        exists y. split; [exact Hy|]. split; [exact Hrm|]. exact (proj2 (d_acc _ _ _ HD' sid y Hy)).
      * apply O2; exact Hgr.
  - eapply Dop_next; exact HD'.
Qed.

(* ------------------------------------------------------------------ ids returned by a call never name a removed stream *)
Lemma out_ids_fresh : forall s l sid x, idx_inv s -> hget sid (objs s) = Some x -> st_removed x = true ->
  match snd (step_out s l) with
  | OIds ids => ~ In sid ids
  | ONew k => k <> sid
  | _ => True
  end.
Proof.
  intros s l sid x Hi Hx Hrm.
  assert (Hl : live s sid = false) by (unfold live; rewrite Hx, Hrm; reflexivity).
  assert (Hfresh : last_id s + 1 <> sid).
  { intros E. pose proof (fresh_id s Hi) as Hf. rewrite E, Hx in Hf. discriminate. }
  unfold step_out. rewrite (dead_false_of_inv s Hi).
  destruct l; cbn [snd]; try exact I.
  - unfold add_stream. cbn [snd]. exact Hfresh.
  - unfold do_write. destruct (cget cid (callers s)) as [p|]; cbn [snd]; [|exact I].
    destruct (next_target (p_groups p)) as [[[k g] rest]|]; cbn [snd]; [|exact I].
    destruct (hget k (objs s)) as [st|]; cbn [snd]; [|exact I].
    destruct (write_stream st (p_msg p)); cbn [snd]. exact I.
  - unfold add_tags. destruct (negb (memN sid0 (pool_ids s))); cbn [snd]; [exact I|].
    destruct (hget sid0 (objs s)) as [st|]; cbn [snd]; [|exact I].
    destruct (add_new_tags (st_tags st) tags); cbn [snd]. exact I.
  - unfold remove_tags. destruct (negb (memN sid0 (pool_ids s))); cbn [snd]; [exact I|].
    destruct (hget sid0 (objs s)) as [st|]; cbn [snd]; [|exact I].
    destruct (idx_remove_all _ _ sid0); cbn [snd]; exact I.
  - destruct (all_in_pool s (streams_of s tags)); cbn [snd]; [|exact I].
    intros Hin. unfold streams_of in Hin. apply in_flat_map in Hin. destruct Hin as (t & _ & Hin).
    pose proof (in_by_tag_live s t sid Hi Hin). congruence.
  - destruct (hget sid0 (objs s)) as [st|]; cbn [snd]; [|exact I].
    destruct (take st) as [st' o]; cbn [snd]. destruct o; exact I.
  - unfold send_enqueue. destruct (_ && _); cbn [snd]; exact I.
  - unfold dial_peer. destruct (cget cid (callers s)) as [p|]; cbn [snd]; [|exact I].
    destruct (next_target (p_groups p)); cbn [snd]; [exact I|].
    destruct (p_peers p) as [|peer rest]; cbn [snd]; [exact I|].
    destruct (mget peer (by_peer s)) as [|y g]; [|cbn [snd]; exact I].
    destruct opn as [[[cap tags] cg]|]; cbn [snd]; [|exact I].
    unfold add_stream. cbn [snd]. exact Hfresh.
Qed.

Lemma run_op_ids_fresh : forall s i op sid x, idx_inv s -> hget sid (objs s) = Some x -> st_removed x = true ->
  memN sid (o_ids (snd (run_op s i op))) = false.
Proof.
  intros s i op sid x Hi Hx Hrm. unfold run_op. cbn [snd o_ids].
  destruct (expand s i op) as [|l0 ls]; [reflexivity|].
  pose proof (out_ids_fresh s l0 sid x Hi Hx Hrm) as H.
  destruct (snd (step_out s l0)) as [| | | |ids|k]; try reflexivity.
  - apply memN_false_notin. intros Hin. apply H. apply (proj1 (in_sortN _ _)). exact Hin.
  - cbn. apply N.eqb_neq in H. rewrite N.eqb_sym, H. reflexivity.
Qed.

Lemma run_op_snap : forall s i op, o_snap (snd (run_op s i op)) = snapshot (fst (run_op s i op)).
Proof. reflexivity. Qed.

(* ------------------------------------------------------------------ the whole invariant of a history *)
Record full_inv (st : ost) (i : N) (s : state) : Prop := mkFull {
  f_good : good s;
  f_knd  : knd s;
  f_dop  : Dop i false s;
  f_ost  : ost_inv st s;
  f_oi   : oi st s
}.

Lemma full_inv_init : forall c, full_inv (mkOst [] [] []) 0 (init c).
Proof.
  intros c. constructor.
  - apply good_init.
  - apply init_knd.
  - apply Dop_init.
  - split; cbn; [intros sid [] | intros sid j H; discriminate].
  - split; cbn; intros; discriminate.
Qed.

Lemma removed_not_live : forall s sid x, hget sid (objs s) = Some x -> st_removed x = true -> live s sid = false.
Proof. intros s sid x Hx Hr. unfold live. rewrite Hx, Hr. reflexivity. Qed.

Theorem run_op_full : forall s i op st, full_inv st i s ->
  obs_ok st i (snd (run_op s i op)) = true
  /\ full_inv (obs_next st i (snd (run_op s i op))) (N.succ i) (fst (run_op s i op)).
Proof.
  intros s i op st [Hg Hk HD Host Hoi].
  pose proof (run_op_static_ok s i op Hg) as Hstat.
  pose proof (good_run_op s i op Hg) as Hg'.
  assert (Hk' : knd (fst (run_op s i op))) by (rewrite run_op_state; apply run_knd; exact Hk).
  destruct (run_op_once s i op st Hg Host) as [Honce Host'].
  destruct (run_op_fifo s i op st Hg HD Hoi) as (Hfifo & Hoi' & HD').
  pose proof (run_heap_mono (expand s i op) s (proj2 Hg)) as Hmono. rewrite <- run_op_state in Hmono.
  split; [|constructor; assumption].
  unfold obs_static_ok in Hstat. apply andb_true_iff in Hstat. destruct Hstat as [Ht Hsb].
  unfold obs_once_ok in Honce. apply andb_true_iff in Honce. destruct Honce as [Hc1 Hc2].
  unfold obs_ok.
  apply andb_true_iff; split; [apply andb_true_iff; split; [apply andb_true_iff; split; [apply andb_true_iff; split;
    [apply andb_true_iff; split; [apply andb_true_iff; split; [apply andb_true_iff; split|]|]|]|]|]|].
  - exact Ht.
  - exact Hsb.
  - rewrite run_op_snap. apply snap_consistent_good; [exact (proj2 Hg') | exact Hk'].
  - exact Hfifo.
  - exact Hc1.
  - exact Hc2.
  - apply forallb_forall. intros [sid r] Hin. cbn [fst].
    destruct (in_aget _ _ _ Hin) as (r' & Hr').
    destruct (proj2 Host sid r' Hr') as (x & Hx & Hrm).
    destruct (Hmono sid x Hx) as (y & Hy & [_ G2]).
    apply andb_true_iff; split; apply negb_true_iff.
    + rewrite run_op_snap. apply snap_not_mentions; [exact (proj2 Hg') | exact Hk'|].
      eapply removed_not_live; [exact Hy | apply G2; exact Hrm].
    + eapply run_op_ids_fresh; [exact (proj2 Hg) | exact Hx | exact Hrm].
  - apply forallb_forall. intros [sid tg] Hin. cbn [fst]. apply negb_true_iff.
    unfold run_op in Hin. cbn [snd o_removed] in Hin.
    apply in_map_iff in Hin. destruct Hin as (sid0 & Heq & Hin). injection Heq as -> _.
    apply flag_diff_spec in Hin. destruct Hin as ((y & Hy & Hrm) & _).
    rewrite run_op_snap. apply snap_not_mentions; [exact (proj2 Hg') | exact Hk'|].
    rewrite run_op_state. eapply removed_not_live; eauto.
Qed.

Theorem run_hist_full : forall ops s i st, full_inv st i s -> spec_from st i (run_hist s i ops) = true.
Proof.
  induction ops as [|op ops IH]; intros s i st Hf; cbn [run_hist]; [reflexivity|].
  pose proof (run_op_full s i op st Hf) as [H1 H2].
  destruct (run_op s i op) as [s' o]; cbn [fst snd] in *. cbn [spec_from]. rewrite H1. cbn [andb].
  apply IH; exact H2.
Qed.

(* the model's own history satisfies the whole executable specification, for all configurations and operation lists *)
Theorem model_hist_spec_ok : forall c ops, spec_C19 ops (model_hist c ops) = true.
Proof.
  intros c ops. unfold spec_C19. rewrite (model_hist_events_ok c ops), andb_true_r.
  unfold model_hist. rewrite run_hist_length, Nat.eqb_refl. cbn [andb].
  apply run_hist_full, full_inv_init.
Qed.

(* the invariant behind FIFO, for any label list that consists of labels of operation i *)
Theorem run_acc_sorted : forall ls i b s, idx_inv s -> Dop i b s -> ls_ok i b ls ->
  forall sid st, hget sid (objs (run s ls)) = Some st ->
    StronglySorted N.le (st_accepted st) /\ Forall (fun m => m <= i) (st_accepted st).
Proof.
  intros ls i b s Hi HD Hok sid st Hg. exact (d_acc _ _ _ (run_Dop ls i b s Hi HD Hok) sid st Hg).
Qed.
