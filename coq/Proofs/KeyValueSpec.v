(* C12: every history of the model (two stores; SetRaw batches, local Sets, sync exchanges, injected faults)
   satisfies the executable property predicate spec_C12 after every operation. *)
From Coq Require Import List NArith ZArith Bool Lia.
Import ListNotations.
From AnySync Require Import Model.KeyValue Proofs.KeyValueMap Proofs.KeyValueProofs.

Lemma sm_get_in_pair : forall {A} (m : smap A) k a, sm_get m k = Some a -> In (k, a) m.
Proof.
  intros A m k a. induction m as [|[k0 a0] r IH]; cbn [sm_get]; [discriminate|].
  destruct (k0 =? k)%N eqn:E.
  - intros H. injection H as H. apply N.eqb_eq in E. subst. left. reflexivity.
  - intros H. right. apply IH, H.
Qed.

Lemma sm_in_get : forall {A} (m : smap A) k a, sm_sorted m -> In (k, a) m -> sm_get m k = Some a.
Proof.
  intros A m k a. induction m as [|[k0 a0] r IH]; cbn [sm_get sm_sorted]; intros Hs Hin; [destruct Hin|].
  destruct Hs as [Hall Hs]. destruct Hin as [Hin|Hin].
  - injection Hin as H1 H2. subst. rewrite N.eqb_refl. reflexivity.
  - rewrite Forall_forall in Hall. pose proof (Hall _ Hin) as Hlt. cbn in Hlt.
    destruct (k0 =? k)%N eqn:E; [apply N.eqb_eq in E; lia | apply IH; assumption].
Qed.

(* [cur] is a maximal valid delivered value of slot [s] (or there is none) *)
Definition maxi (d : list value) (s : N) (cur : option value) : Prop :=
  match cur with
  | Some w => In w d /\ valid w = true /\ v_env w = s /\
              (forall v, In v d -> valid v = true -> v_env v = s -> (v_ts v <= v_ts w)%Z)
  | None => forall v, In v d -> valid v = true -> v_env v <> s
  end.

Lemma in_slot_filter : forall s v l, In v l -> valid v = true -> v_env v = s ->
  In v (filter (fun v => valid v && (v_env v =? s)%N) l).
Proof.
  intros s v l Hin Hv He. apply filter_In. split; [exact Hin|]. rewrite Hv, He, N.eqb_refl. reflexivity.
Qed.

Lemma best_maxi : forall s cur d l, maxi d s cur -> maxi (d ++ l) s (best s cur l).
Proof.
  intros s cur d l Hm.
  assert (Hl : forall v, In v l -> valid v = true -> v_env v = s ->
            exists w, best s cur l = Some w /\ (v_ts v <= v_ts w)%Z).
  { intros v Hin Hv He. unfold best. apply join_fold_ge_in, in_slot_filter; assumption. }
  assert (Hd : forall v, In v d -> valid v = true -> v_env v = s ->
            exists w, best s cur l = Some w /\ (v_ts v <= v_ts w)%Z).
  { intros v Hin Hv He. destruct cur as [c|]; cbn [maxi] in Hm.
    - destruct Hm as (_ & _ & _ & Hb). unfold best.
      destruct (join_fold_ge_cur (filter (fun v => valid v && (v_env v =? s)%N) l) c) as [w [Hw Hle]].
      exists w. split; [exact Hw|]. specialize (Hb v Hin Hv He). lia.
    - exfalso. apply (Hm v Hin Hv He). }
  destruct (best s cur l) as [w|] eqn:E; cbn [maxi].
  - destruct (best_cases s cur l) as [H|[x [Hin [Hv [He H]]]]]; rewrite E in H.
    + subst cur. cbn [maxi] in Hm. destruct Hm as (Hin & Hv & He & _).
      repeat split; [apply in_or_app; left; exact Hin | exact Hv | exact He|].
      intros v Hvin Hvv Hve. apply in_app_or in Hvin. destruct Hvin as [Hvin|Hvin].
      * destruct (Hd v Hvin Hvv Hve) as [w' [Hw' Hle]]. injection Hw' as Hw'. subst w'. exact Hle.
      * destruct (Hl v Hvin Hvv Hve) as [w' [Hw' Hle]]. injection Hw' as Hw'. subst w'. exact Hle.
    + injection H as H. subst x.
      repeat split; [apply in_or_app; right; exact Hin | exact Hv | exact He|].
      intros v Hvin Hvv Hve. apply in_app_or in Hvin. destruct Hvin as [Hvin|Hvin].
      * destruct (Hd v Hvin Hvv Hve) as [w' [Hw' Hle]]. injection Hw' as Hw'. subst w'. exact Hle.
      * destruct (Hl v Hvin Hvv Hve) as [w' [Hw' Hle]]. injection Hw' as Hw'. subst w'. exact Hle.
  - intros v Hvin Hvv Hve. apply in_app_or in Hvin. destruct Hvin as [Hvin|Hvin].
    + destruct (Hd v Hvin Hvv Hve) as [w' [Hw' _]]. discriminate.
    + destruct (Hl v Hvin Hvv Hve) as [w' [Hw' _]]. discriminate.
Qed.

Lemma maxi_app_invalid : forall s cur d l, maxi d s cur ->
  (forall v, In v l -> valid v = true -> v_env v = s ->
     exists w, cur = Some w /\ (v_ts v <= v_ts w)%Z) ->
  maxi (d ++ l) s cur.
Proof.
  intros s cur d l Hm Hl. destruct cur as [w|]; cbn [maxi] in *.
  - destruct Hm as (Hin & Hv & He & Hb). repeat split; [apply in_or_app; left; exact Hin | exact Hv | exact He|].
    intros v Hvin Hvv Hve. apply in_app_or in Hvin. destruct Hvin as [Hvin|Hvin]; [apply Hb; assumption|].
    destruct (Hl v Hvin Hvv Hve) as [w' [Hw' Hle]]. injection Hw' as Hw'. subst w'. exact Hle.
  - intros v Hvin Hvv Hve. apply in_app_or in Hvin. destruct Hvin as [Hvin|Hvin]; [apply (Hm v); assumption|].
    destruct (Hl v Hvin Hvv Hve) as [w' [Hw' _]]. discriminate.
Qed.

(* the invariant tying a store to what has been delivered to it *)
Definition tied (st : state) (d : list value) : Prop :=
  inv st /\ forall s, maxi d s (sm_get (st_store st) s).

Lemma tied_empty : tied empty_state [].
Proof. split; [apply inv_empty|]. intros s v []. Qed.

Lemma spec_of_tied : forall st d ok, tied st d -> spec_C12 d (observe st ok) = true.
Proof.
  intros st d ok [[Hs Hi Hok] Hm]. unfold spec_C12, observe. cbn [o_contents o_index o_hash_ok].
  rewrite !andb_true_iff. repeat split.
  - apply forallb_forall. intros e He. unfold contents_of in He. apply in_map_iff in He.
    destruct He as [[k w] [He Hin]]. cbn [fst snd] in He. subst e.
    pose proof (sm_in_get _ _ _ Hs Hin) as Hg. specialize (Hm k). rewrite Hg in Hm. cbn [maxi] in Hm.
    destruct Hm as (Hind & Hv & Henv & Hb). unfold entry_justified. apply andb_true_iff. split.
    + apply existsb_exists. exists w. split; [exact Hind|].
      rewrite Hv, Henv, N.eqb_refl, Z.eqb_refl, N.eqb_refl. reflexivity.
    + apply forallb_forall. intros v Hvin. destruct (valid v) eqn:Hvv; [|reflexivity].
      destruct (v_env v =? k)%N eqn:E; [|reflexivity]. apply N.eqb_eq in E. cbn [andb negb orb].
      apply Z.leb_le. apply Hb; assumption.
  - apply forallb_forall. intros v Hvin. destruct (valid v) eqn:Hvv; [|reflexivity]. cbn [negb orb].
    specialize (Hm (v_env v)). destruct (sm_get (st_store st) (v_env v)) as [w|] eqn:Hg; cbn [maxi] in Hm.
    + unfold slot_present, contents_of. apply existsb_exists.
      exists (v_env v, v_ts w, v_id w). split; [|cbn [fst]; apply N.eqb_refl].
      apply in_map_iff. exists (v_env v, w). split; [reflexivity | apply sm_get_in_pair, Hg].
    + exfalso. apply (Hm v Hvin Hvv). reflexivity.
  - unfold contents_of. rewrite map_map. cbn [fst]. apply slots_increasing_sorted, Hs.
  - rewrite Hi. apply index_matches_image.
Qed.

(* ---- single operations preserve [tied] with the delivered set of the runner -------------------------------- *)

Lemma tied_set_raw : forall f st d b, tied st d -> batch_ok b ->
  tied (fst (set_raw f st b)) (if snd (set_raw f st b) then d ++ b else d).
Proof.
  intros f st d b [Hinv Hm] Hb. destruct (set_raw_cases f st b Hinv) as [H|H].
  - rewrite H. cbn [fst snd]. split; assumption.
  - rewrite H, set_raw_none_ok by exact Hinv. split; [apply set_raw_none_inv; assumption|].
    intros s. rewrite set_raw_get by assumption. apply best_maxi, Hm.
Qed.

Lemma tied_local_set : forall f st d v, tied st d -> local_wf v ->
  tied (fst (local_set f st v)) (if snd (local_set f st v) then d ++ [v] else d).
Proof.
  intros f st d v [Hinv Hm] Hwf. destruct (local_set_cases f st v Hinv) as [H|H].
  - rewrite H. cbn [fst snd]. split; assumption.
  - rewrite H. destruct (v_write v) eqn:Hw.
    + assert (Hok : snd (local_set FNone st v) = true).
      { destruct Hinv as [Hs Hi _]. unfold local_set. rewrite Hw, inner_set_commit by assumption. reflexivity. }
      rewrite Hok. split; [apply local_set_inv; assumption|].
      intros s. rewrite local_set_get by assumption. apply best_maxi, Hm.
    + unfold local_set. rewrite Hw. cbn [fst snd]. split; assumption.
Qed.

(* ---- sync --------------------------------------------------------------------------------------------------- *)

(* what the other side holds for a slot is either transferred or already dominated locally *)
Lemma pull_covers : forall a b s wb, inv a -> inv b -> sm_get (st_store b) s = Some wb ->
  In wb (values_of (st_store b) (push_ids (st_index b) (st_index a))) \/
  exists wa, sm_get (st_store a) s = Some wa /\ (v_ts wb <= v_ts wa)%Z.
Proof.
  intros a b s wb [Sa Ia Oka] [Sb Ib Okb] Hg.
  assert (Hib : sm_get (st_index b) s = Some (head_of wb)).
  { rewrite Ib. unfold image. rewrite sm_get_map, Hg. reflexivity. }
  assert (Hpush : (match sm_get (st_index a) s with None => true | Some h => (h <? head_of wb)%N end) = true ->
            In wb (values_of (st_store b) (push_ids (st_index b) (st_index a)))).
  { intros Hq. unfold values_of. apply in_flat_map. exists s. split; [|rewrite Hg; left; reflexivity].
    unfold push_ids. apply in_map_iff. exists (s, head_of wb). split; [reflexivity|].
    apply filter_In. split; [apply sm_get_in_pair, Hib | exact Hq]. }
  destruct (sm_get (st_store a) s) as [wa|] eqn:Hga.
  - assert (Hia : sm_get (st_index a) s = Some (head_of wa)).
    { rewrite Ia. unfold image. rewrite sm_get_map, Hga. reflexivity. }
    rewrite Hia in Hpush.
    destruct (Oka _ _ Hga) as (_ & _ & Hta). destruct (Okb _ _ Hg) as (_ & _ & Htb).
    rewrite (head_ltb wa wb Hta Htb) in Hpush.
    destruct (v_ts wb <=? v_ts wa)%Z eqn:E.
    + right. exists wa. split; [reflexivity | apply Z.leb_le, E].
    + left. apply Hpush. reflexivity.
  - left. apply Hpush.
    assert (Hia : sm_get (st_index a) s = None).
    { rewrite Ia. unfold image. rewrite sm_get_map, Hga. reflexivity. }
    rewrite Hia. reflexivity.
Qed.

(* general form: [a'] is ANY state whose slots are the join of a's with a message list [msgs] carrying the same set of
   values as the pull list (one SetRaw of the list, or the chunked application of a reordered stream) *)
Lemma tied_sync_side_gen : forall a b da db a' msgs,
  tied a da -> tied b db ->
  (forall v, In v msgs <-> In v (values_of (st_store b) (push_ids (st_index b) (st_index a)))) ->
  inv a' -> (forall s, sm_get (st_store a') s = best s (sm_get (st_store a) s) msgs) ->
  tied a' (da ++ db).
Proof.
  intros a b da db a' msgs [Ha Hma] [Hb Hmb] Hset Hinv' Hget.
  set (pull := values_of (st_store b) (push_ids (st_index b) (st_index a))) in *.
  split; [exact Hinv'|].
  intros s. rewrite Hget.
  (* first: maximal w.r.t. da ++ msgs; then widen msgs to db *)
  pose proof (best_maxi s _ da msgs (Hma s)) as Hm.
  set (r := best s (sm_get (st_store a) s) msgs) in *.
  assert (Hpull_db : forall v, In v msgs -> In v db /\ valid v = true).
  { intros v Hin. apply Hset in Hin. destruct (values_of_in _ _ _ Hin) as [k Hk]. specialize (Hmb k). rewrite Hk in Hmb.
    cbn [maxi] in Hmb. destruct Hmb as (H1 & H2 & _). auto. }
  assert (Hdom : forall v, In v db -> valid v = true -> v_env v = s ->
            exists w, r = Some w /\ (v_ts v <= v_ts w)%Z).
  { intros v Hin Hv He. specialize (Hmb s).
    destruct (sm_get (st_store b) s) as [wb|] eqn:Hgb; cbn [maxi] in Hmb; [|exfalso; apply (Hmb v Hin Hv He)].
    destruct Hmb as (_ & Hvb & Heb & Hbb). specialize (Hbb v Hin Hv He).
    destruct (pull_covers a b s wb Ha Hb Hgb) as [Hp|[wa [Hga Hle]]].
    - unfold r, best. destruct (join_fold_ge_in (filter (fun v => valid v && (v_env v =? s)%N) msgs)
                              (sm_get (st_store a) s) wb) as [w [Hw Hlew]].
      { apply in_slot_filter; [apply Hset; exact Hp | assumption | assumption]. }
      exists w. split; [exact Hw | lia].
    - unfold r, best. rewrite Hga.
      destruct (join_fold_ge_cur (filter (fun v => valid v && (v_env v =? s)%N) msgs) wa) as [w [Hw Hlew]].
      exists w. split; [exact Hw | lia]. }
  destruct r as [w|] eqn:Er; cbn [maxi] in *.
  - destruct Hm as (Hin & Hv & He & Hb'). repeat split; [|exact Hv | exact He|].
    + apply in_app_or in Hin. apply in_or_app. destruct Hin as [Hin|Hin]; [left; exact Hin|].
      right. apply Hpull_db, Hin.
    + intros v Hvin Hvv Hve. apply in_app_or in Hvin. destruct Hvin as [Hvin|Hvin].
      * apply Hb'; [apply in_or_app; left; exact Hvin | exact Hvv | exact Hve].
      * destruct (Hdom v Hvin Hvv Hve) as [w' [Hw' Hle]]. injection Hw' as Hw'. subst w'. exact Hle.
  - intros v Hvin Hvv Hve. apply in_app_or in Hvin. destruct Hvin as [Hvin|Hvin].
    + apply (Hm v); [apply in_or_app; left; exact Hvin | exact Hvv | exact Hve].
    + destruct (Hdom v Hvin Hvv Hve) as [w' [Hw' _]]. discriminate.
Qed.

Lemma tied_sync_side : forall a b da db,
  tied a da -> tied b db ->
  tied (fst (set_raw FNone a (values_of (st_store b) (push_ids (st_index b) (st_index a))))) (da ++ db).
Proof.
  intros a b da db Ha Hb.
  assert (Hpok : batch_ok (values_of (st_store b) (push_ids (st_index b) (st_index a))))
    by (apply values_of_ok, Hb).
  apply (tied_sync_side_gen a b da db _ (values_of (st_store b) (push_ids (st_index b) (st_index a)))); try assumption.
  - intros v. tauto.
  - apply set_raw_none_inv; [apply Ha | exact Hpok].
  - intros s. apply set_raw_get; [apply Ha | exact Hpok].
Qed.

(* the initiator's side of the STREAMED exchange: newest-first order, chunks of any size *)
Lemma tied_sync_side_stream : forall n a b da db,
  tied a da -> tied b db ->
  tied (stream_apply n a [] (values_of (st_store b)
          (newest_first (st_index b) (push_ids (st_index b) (st_index a))))) (da ++ db).
Proof.
  intros n a b da db Ha Hb.
  set (msgs := values_of (st_store b) (newest_first (st_index b) (push_ids (st_index b) (st_index a)))).
  assert (Hmok : batch_ok ([] ++ msgs)) by (apply values_of_ok, Hb).
  apply (tied_sync_side_gen a b da db _ msgs); try assumption.
  - intros v. apply values_of_newest_first.
  - apply stream_apply_inv; [apply Ha | exact Hmok].
  - intros s. rewrite stream_apply_get; [reflexivity | apply Ha | exact Hmok].
Qed.

Lemma maxi_perm : forall d1 d2 s cur, (forall v, In v d1 <-> In v d2) -> maxi d1 s cur -> maxi d2 s cur.
Proof.
  intros d1 d2 s cur H Hm. destruct cur as [w|]; cbn [maxi] in *.
  - destruct Hm as (H1 & H2 & H3 & H4). repeat split; [apply H, H1 | exact H2 | exact H3|].
    intros v Hv. apply H4, H, Hv.
  - intros v Hv. apply Hm, H, Hv.
Qed.

(* ---- histories ---------------------------------------------------------------------------------------------- *)

(* the runner's bookkeeping (Run/C12_run.v spec_run), with the MODEL's results *)
Definition deliver (x : world * (list value * list value)) (o : op) : world * (list value * list value) :=
  let '(w, (da, db)) := x in
  let '(w', ok) := step w o in
  (w', match o with
       | OpRaw who _ b => if ok then (if who then (da, db ++ b) else (da ++ b, db)) else (da, db)
       | OpLocal who _ v => if ok then (if who then (da, db ++ [v]) else (da ++ [v], db)) else (da, db)
       | OpSync _ | OpSyncStream _ _ => (da ++ db, da ++ db)
       end).

Definition wtied (x : world * (list value * list value)) : Prop :=
  tied (fst (fst x)) (fst (snd x)) /\ tied (snd (fst x)) (snd (snd x)).

Lemma deliver_tied : forall x o, wtied x -> op_wf o -> wtied (deliver x o).
Proof.
  intros [[a b] [da db]] o [Ha Hb] Hwf. cbn [fst snd] in Ha, Hb.
  destruct o as [who f bt|who f v|who|who n]; cbn [deliver step op_wf] in *.
  - destruct who; cbn [wget wset fst snd].
    + pose proof (tied_set_raw f b db bt Hb Hwf) as H. destruct (set_raw f b bt) as [s ok]. cbn [fst snd] in *.
      split; cbn [fst snd]; [destruct ok; exact Ha | destruct ok; exact H].
    + pose proof (tied_set_raw f a da bt Ha Hwf) as H. destruct (set_raw f a bt) as [s ok]. cbn [fst snd] in *.
      split; cbn [fst snd]; [destruct ok; exact H | destruct ok; exact Hb].
  - destruct who; cbn [wget wset fst snd].
    + pose proof (tied_local_set f b db v Hb Hwf) as H. destruct (local_set f b v) as [s ok]. cbn [fst snd] in *.
      split; cbn [fst snd]; [destruct ok; exact Ha | destruct ok; exact H].
    + pose proof (tied_local_set f a da v Ha Hwf) as H. destruct (local_set f a v) as [s ok]. cbn [fst snd] in *.
      split; cbn [fst snd]; [destruct ok; exact H | destruct ok; exact Hb].
  - unfold sync_exchange. destruct who; cbn [wget wset negb fst snd].
    + (* b initiates *)
      split; cbn [fst snd].
      * pose proof (tied_sync_side a b da db Ha Hb) as H. exact H.
      * pose proof (tied_sync_side b a db da Hb Ha) as [Hi Hm]. split; [exact Hi|].
        intros s. apply (maxi_perm (db ++ da)); [|apply Hm].
        intros v. rewrite !in_app_iff. tauto.
    + split; cbn [fst snd].
      * pose proof (tied_sync_side a b da db Ha Hb) as H. exact H.
      * pose proof (tied_sync_side b a db da Hb Ha) as [Hi Hm]. split; [exact Hi|].
        intros s. apply (maxi_perm (db ++ da)); [|apply Hm].
        intros v. rewrite !in_app_iff. tauto.
  - unfold sync_exchange_stream. destruct who; cbn [wget wset negb fst snd].
    + (* b initiates: b applies the stream, a applies the pushed values *)
      split; cbn [fst snd].
      * pose proof (tied_sync_side a b da db Ha Hb) as H. exact H.
      * pose proof (tied_sync_side_stream n b a db da Hb Ha) as [Hi Hm]. split; [exact Hi|].
        intros s. apply (maxi_perm (db ++ da)); [|apply Hm].
        intros v. rewrite !in_app_iff. tauto.
    + split; cbn [fst snd].
      * pose proof (tied_sync_side_stream n a b da db Ha Hb) as H. exact H.
      * pose proof (tied_sync_side b a db da Hb Ha) as [Hi Hm]. split; [exact Hi|].
        intros s. apply (maxi_perm (db ++ da)); [|apply Hm].
        intros v. rewrite !in_app_iff. tauto.
Qed.

Definition run_deliver (ops : list op) : world * (list value * list value) :=
  fold_left deliver ops ((empty_state, empty_state), ([], [])).

Lemma run_deliver_tied : forall ops x, wtied x -> (forall o, In o ops -> op_wf o) -> wtied (fold_left deliver ops x).
Proof.
  induction ops as [|o ops IH]; intros x Hx Hwf; cbn [fold_left]; [exact Hx|].
  apply IH; [apply deliver_tied; [exact Hx | apply Hwf; left; reflexivity] | intros o' Hin; apply Hwf; right; exact Hin].
Qed.

Theorem model_satisfies_spec : forall ops oka okb,
  (forall o, In o ops -> op_wf o) ->
  let '(w, (da, db)) := run_deliver ops in
  spec_C12 da (observe (fst w) oka) = true /\ spec_C12 db (observe (snd w) okb) = true.
Proof.
  intros ops oka okb Hwf.
  assert (H : wtied (run_deliver ops)).
  { apply run_deliver_tied; [|exact Hwf]. split; apply tied_empty. }
  destruct (run_deliver ops) as [w [da db]]. destruct H as [Ha Hb]. cbn [fst snd] in *.
  split; apply spec_of_tied; assumption.
Qed.

(* authenticity: whatever is stored, anywhere, after any history, satisfies all five conditions *)
Theorem stored_authentic : forall ops who s v,
  (forall o, In o ops -> op_wf o) ->
  sm_get (st_store (wget (run_ops (empty_state, empty_state) ops) who)) s = Some v ->
  v_env v = s /\ v_decodes v = true /\ v_dev v = true /\ v_acc v = true /\
  v_env v = v_signed v /\ v_known v = true /\ v_write v = true.
Proof.
  intros ops who s v Hwf Hg.
  pose proof (run_ops_inv ops _ winv_empty Hwf) as Hw.
  pose proof (wget_inv _ who Hw) as [_ _ Hok]. destruct (Hok _ _ Hg) as (He & Hv & _).
  unfold valid in Hv. rewrite !andb_true_iff in Hv. destruct Hv as (((((H1 & H2) & H3) & H4) & H5) & H6).
  apply N.eqb_eq in H4. auto 10.
Qed.

(* index = image(store) after any history, faults included *)
Theorem index_is_image : forall ops who,
  (forall o, In o ops -> op_wf o) ->
  st_index (wget (run_ops (empty_state, empty_state) ops) who) =
  image (st_store (wget (run_ops (empty_state, empty_state) ops) who)).
Proof.
  intros ops who Hwf. pose proof (run_ops_inv ops _ winv_empty Hwf) as Hw.
  apply (wget_inv _ who Hw).
Qed.

(* ---- one exchange makes two stores equal ------------------------------------------------------------------- *)

Lemma in_stored_get : forall st v, sm_sorted (st_store st) -> In v (stored st) ->
  exists k, sm_get (st_store st) k = Some v.
Proof.
  intros st v Hs Hin. unfold stored in Hin. apply in_map_iff in Hin. destruct Hin as [[k w] [Hw Hin]].
  cbn [snd] in Hw. subst w. exists k. apply sm_in_get; assumption.
Qed.

Lemma tied_stored : forall st, inv st -> tied st (stored st).
Proof.
  intros st Hinv. split; [exact Hinv|]. destruct Hinv as [Hs _ Hok].
  intros s. destruct (sm_get (st_store st) s) as [w|] eqn:Hg; cbn [maxi].
  - destruct (Hok _ _ Hg) as (He & Hv & _). repeat split; [eapply sm_get_in; exact Hg | exact Hv | exact He|].
    intros v Hin Hvv Hve. destruct (in_stored_get st v Hs Hin) as [k Hk].
    destruct (Hok _ _ Hk) as (Hek & _ & _). assert (Hks : k = s) by congruence. rewrite Hks in Hk.
    rewrite Hg in Hk. injection Hk as Hk. subst v. lia.
  - intros v Hin Hvv Hve. destruct (in_stored_get st v Hs Hin) as [k Hk].
    destruct (Hok _ _ Hk) as (Hek & _ & _). assert (Hks : k = s) by congruence. rewrite Hks in Hk.
    rewrite Hg in Hk. discriminate.
Qed.

Lemma maxi_unique : forall d s c1 c2, distinct_ts d -> maxi d s c1 -> maxi d s c2 -> c1 = c2.
Proof.
  intros d s [w1|] [w2|] Hd H1 H2; cbn [maxi] in *.
  - destruct H1 as (I1 & V1 & E1 & B1), H2 as (I2 & V2 & E2 & B2). f_equal.
    apply Hd; auto; [congruence|]. specialize (B1 w2 I2 V2 E2). specialize (B2 w1 I1 V1 E1). lia.
  - destruct H1 as (I1 & V1 & E1 & _). exfalso. apply (H2 w1 I1 V1 E1).
  - destruct H2 as (I2 & V2 & E2 & _). exfalso. apply (H1 w2 I2 V2 E2).
  - reflexivity.
Qed.

Theorem sync_equalises : forall a b,
  inv a -> inv b -> distinct_ts (stored a ++ stored b) ->
  let '(a', b') := sync_exchange a b in a' = b'.
Proof.
  intros a b Ha Hb Hd. unfold sync_exchange.
  pose proof (tied_sync_side a b _ _ (tied_stored a Ha) (tied_stored b Hb)) as [[Sa Ia _] Ma].
  pose proof (tied_sync_side b a _ _ (tied_stored b Hb) (tied_stored a Ha)) as [[Sb Ib _] Mb].
  set (a' := fst (set_raw FNone a (values_of (st_store b) (push_ids (st_index b) (st_index a))))) in *.
  set (b' := fst (set_raw FNone b (values_of (st_store a) (push_ids (st_index a) (st_index b))))) in *.
  assert (Hst : st_store a' = st_store b').
  { apply sm_ext; [exact Sa | exact Sb|]. intros s.
    apply (maxi_unique (stored a ++ stored b) s); [exact Hd | apply Ma|].
    apply (maxi_perm (stored b ++ stored a)); [|apply Mb]. intros v. rewrite !in_app_iff. tauto. }
  destruct a' as [s1 i1], b' as [s2 i2]. cbn [st_store st_index] in *. subst. reflexivity.
Qed.

(* the same for the exchange as it runs over the stream (newest-first, chunks of n): it IS the plain exchange *)
Theorem sync_stream_equalises : forall n a b,
  inv a -> inv b -> distinct_ts (stored a ++ stored b) ->
  let '(a', b') := sync_exchange_stream n a b in a' = b'.
Proof.
  intros n a b Ha Hb Hd. rewrite (sync_stream_eq n a b Ha Hb Hd). apply sync_equalises; assumption.
Qed.
