(* Proofs about Model/StreamPool.v (property C19), part 1: per-stream invariants over ALL label sequences
   (bounded queue, TryAdd semantics, FIFO), bounded dial queue, caller progress and writer frame. *)
From Coq Require Import List NArith Bool Lia Arith.
Import ListNotations.
From AnySync Require Import Model.StreamPool.
Open Scope N_scope.

(* ------------------------------------------------------------------ heap lemmas *)
Lemma hget_hset_same : forall sid st h, hget sid (hset sid st h) = Some st.
Proof.
  intros sid st h; induction h as [|[k x] r IH]; cbn [hset hget].
  - rewrite N.eqb_refl; reflexivity.
  - destruct (sid =? k) eqn:E; cbn [hget]; rewrite E; auto.
Qed.

Lemma hget_hset_other : forall sid sid' st h, sid' <> sid -> hget sid' (hset sid st h) = hget sid' h.
Proof.
  intros sid sid' st h Hne; induction h as [|[k x] r IH]; cbn [hset hget].
  - destruct (sid' =? sid) eqn:E; [apply N.eqb_eq in E; contradiction|reflexivity].
  - destruct (sid =? k) eqn:E; cbn [hget].
    + apply N.eqb_eq in E; subst k.
      destruct (sid' =? sid) eqn:E2; [apply N.eqb_eq in E2; contradiction|reflexivity].
    + destruct (sid' =? k); auto.
Qed.

Lemma hget_hset : forall sid sid' st h,
  hget sid' (hset sid st h) = if sid' =? sid then Some st else hget sid' h.
Proof.
  intros sid sid' st h; destruct (sid' =? sid) eqn:E.
  - apply N.eqb_eq in E; subst; apply hget_hset_same.
  - apply N.eqb_neq in E; apply hget_hset_other; auto.
Qed.

(* ------------------------------------------------------------------ per-stream invariant *)
Definition olist (o : option N) : list N := match o with Some m => [m] | None => [] end.

Definition stream_ok (st : stream) : Prop :=
  0 < st_cap st
  /\ N.of_nat (length (st_queue st)) <= st_cap st
  /\ st_accepted st = st_taken st ++ st_queue st
  /\ (st_taken st = st_written st ++ olist (st_inflight st)
      \/ (st_wdone st = true /\ st_inflight st = None /\ exists m, st_taken st = st_written st ++ [m]))
  /\ (st_removed st = true -> st_qclosed st = true)
  /\ (st_qclosed st = true -> st_closing st = true).

Definition objs_ok (h : heap) : Prop := forall sid st, hget sid h = Some st -> stream_ok st.

Lemma objs_ok_hset : forall h sid st, objs_ok h -> stream_ok st -> objs_ok (hset sid st h).
Proof.
  intros h sid st Hh Hst sid' st' Hg. rewrite hget_hset in Hg.
  destruct (sid' =? sid); [inversion Hg; subst; auto|eapply Hh; eauto].
Qed.

Lemma write_stream_ok : forall st m, stream_ok st -> stream_ok (fst (write_stream st m)).
Proof.
  intros st m H. unfold write_stream.
  destruct (st_qclosed st) eqn:Eq; cbn [fst]; [exact H|].
  destruct (st_cap st <=? N.of_nat (length (st_queue st))) eqn:El; cbn [fst]; [exact H|].
  apply N.leb_gt in El. destruct H as (Hc & Hq & Ha & Ht & Hr & Hcl).
  unfold stream_ok; cbn. repeat split; auto.
  - rewrite app_length; cbn [length]. lia.
  - rewrite Ha, app_assoc; reflexivity.
  - intros Hrm. specialize (Hr Hrm). congruence.
  - discriminate.
Qed.

(* TryAdd semantics: a full queue rejects the message and nothing changes *)
Lemma write_stream_overflow : forall st m,
  st_qclosed st = false -> st_cap st <= N.of_nat (length (st_queue st)) ->
  write_stream st m = (st, WOverflow).
Proof.
  intros st m Hq Hl. unfold write_stream. rewrite Hq.
  destruct (st_cap st <=? N.of_nat (length (st_queue st))) eqn:E; auto.
  apply N.leb_gt in E. lia.
Qed.

Lemma write_stream_closed : forall st m, st_qclosed st = true -> write_stream st m = (st, WClosed).
Proof. intros st m Hq. unfold write_stream. rewrite Hq. reflexivity. Qed.

Lemma write_stream_accept : forall st m st',
  write_stream st m = (st', WOk) ->
  st_queue st' = st_queue st ++ [m] /\ st_accepted st' = st_accepted st ++ [m]
  /\ N.of_nat (length (st_queue st)) < st_cap st.
Proof.
  intros st m st'. unfold write_stream.
  destruct (st_qclosed st); [inversion 1|].
  destruct (st_cap st <=? N.of_nat (length (st_queue st))) eqn:E; [inversion 1|].
  intros H; inversion H; subst; cbn. apply N.leb_gt in E. auto.
Qed.

Lemma take_ok : forall st, stream_ok st -> stream_ok (fst (take st)).
Proof.
  intros st H. unfold take.
  destruct (st_wdone st) eqn:Ew; cbn [fst]; [exact H|].
  destruct (st_inflight st) eqn:Ei; cbn [fst]; [exact H|].
  destruct (st_queue st) as [|m q] eqn:Eqq; cbn [fst].
  - destruct (st_qclosed st) eqn:Ec; cbn [fst]; [|exact H].
    destruct H as (Hc & Hq & Ha & Ht & Hr & Hcl).
    unfold stream_ok; cbn. repeat split; auto.
    + lia.
    + rewrite Ha, Eqq; reflexivity.
    + destruct Ht as [Ht|(Hw & _)]; [left; rewrite Ht, Ei; reflexivity|congruence].
  - destruct H as (Hc & Hq & Ha & Ht & Hr & Hcl).
    unfold stream_ok; cbn. repeat split; auto.
    + rewrite Eqq in Hq. cbn [length] in Hq. lia.
    + rewrite Ha, Eqq, <- app_assoc; reflexivity.
    + destruct Ht as [Ht|(Hw & _)]; [|congruence].
      left. rewrite Ht, Ei. cbn. rewrite app_nil_r. reflexivity.
Qed.

Lemma send_ok_ok : forall st, stream_ok st -> stream_ok (send_ok st).
Proof.
  intros st H. unfold send_ok.
  destruct (st_inflight st) as [m|] eqn:Ei; [|exact H].
  destruct H as (Hc & Hq & Ha & Ht & Hr & Hcl).
  unfold stream_ok; cbn. repeat split; auto.
  destruct Ht as [Ht|(_ & Hn & _)]; [|congruence].
  left. rewrite Ht, Ei. cbn. rewrite app_nil_r. reflexivity.
Qed.

Lemma send_fail_ok : forall st, stream_ok st -> stream_ok (send_fail st).
Proof.
  intros st H. unfold send_fail.
  destruct (st_inflight st) as [m|] eqn:Ei; [|exact H].
  destruct H as (Hc & Hq & Ha & Ht & Hr & Hcl).
  unfold stream_ok; cbn. repeat split; auto.
  destruct Ht as [Ht|(_ & Hn & _)]; [|congruence].
  right. repeat split; auto. exists m. rewrite Ht, Ei. reflexivity.
Qed.

Lemma read_err_ok : forall st, stream_ok st -> stream_ok (read_err st).
Proof. intros st (Hc & Hq & Ha & Ht & Hr & Hcl). unfold read_err, stream_ok; cbn. repeat split; auto. Qed.

Lemma close_queue_ok : forall st, stream_ok st -> stream_ok (close_queue st).
Proof.
  intros st H. unfold close_queue.
  destruct (st_closing st && negb (st_qclosed st)) eqn:E; [|exact H].
  destruct H as (Hc & Hq & Ha & Ht & Hr & Hcl).
  unfold stream_ok; cbn. repeat split; auto.
Qed.

Lemma set_tags_ok : forall st t, stream_ok st -> stream_ok (set_tags st t).
Proof. intros st t (Hc & Hq & Ha & Ht & Hr & Hcl). unfold set_tags, stream_ok; cbn. repeat split; auto. Qed.

Lemma mark_removed_ok : forall st, stream_ok st -> st_qclosed st = true -> stream_ok (mark_removed st).
Proof. intros st (Hc & Hq & Ha & Ht & Hr & Hcl) Hqc. unfold mark_removed, stream_ok; cbn. repeat split; auto. Qed.

Lemma new_stream_ok : forall peer cap tags cg,
  stream_ok (mkStream peer (if cap =? 0 then 100 else cap) tags [] None false false false false cg [] [] []).
Proof.
  intros. unfold stream_ok; cbn. repeat split; auto; try discriminate.
  - destruct (cap =? 0) eqn:E; [lia|apply N.eqb_neq in E; lia].
  - destruct (cap =? 0) eqn:E; [lia|apply N.eqb_neq in E; lia].
Qed.

(* ------------------------------------------------------------------ the heap after one step *)
Lemma upd_stream_ok : forall s sid f,
  (forall st, stream_ok st -> stream_ok (f st)) -> objs_ok (objs s) -> objs_ok (objs (upd_stream s sid f)).
Proof.
  intros s sid f Hf Hs. unfold upd_stream. destruct (hget sid (objs s)) eqn:E; auto.
  cbn. apply objs_ok_hset; auto. apply Hf. eapply Hs; eauto.
Qed.

Lemma objs_start_caller : forall s cid m md gs ps, objs (start_caller s cid m md gs ps) = objs s.
Proof. intros. unfold start_caller. destruct (all_in_pool s (concat gs)); reflexivity. Qed.

Lemma add_stream_objs_ok : forall s p c t g, objs_ok (objs s) -> objs_ok (objs (fst (add_stream s p c t g))).
Proof. intros. unfold add_stream; cbn. apply objs_ok_hset; auto. apply new_stream_ok. Qed.

Lemma do_write_objs_ok : forall s cid, objs_ok (objs s) -> objs_ok (objs (fst (do_write s cid))).
Proof.
  intros s cid Hs. unfold do_write.
  destruct (cget cid (callers s)) as [p|]; cbn [fst]; auto.
  destruct (next_target (p_groups p)) as [[[sid g] rest]|]; cbn [fst]; auto.
  destruct (hget sid (objs s)) as [st|] eqn:E; cbn [fst]; auto.
  pose proof (write_stream_ok st (p_msg p) (Hs _ _ E)) as Hw.
  destruct (write_stream st (p_msg p)) as [st' r]; cbn [fst] in *. cbn.
  apply objs_ok_hset; auto.
Qed.

Lemma remove_stream_objs_ok : forall s sid, objs_ok (objs s) -> objs_ok (objs (remove_stream s sid)).
Proof.
  intros s sid Hs. unfold remove_stream.
  destruct (hget sid (objs s)) as [st|] eqn:E; auto.
  destruct (st_qclosed st && negb (st_removed st)) eqn:Eq; auto.
  destruct (negb (memN sid (pool_ids s))); auto.
  destruct (idx_remove (by_peer s) (st_peer st) sid); auto.
  destruct (idx_remove_all (by_tag s) (st_tags st) sid); auto.
  cbn. apply objs_ok_hset; auto. apply mark_removed_ok; [eapply Hs; eauto|].
  apply andb_true_iff in Eq. tauto.
Qed.

Lemma dial_peer_objs_ok : forall s cid opn, objs_ok (objs s) -> objs_ok (objs (fst (dial_peer s cid opn))).
Proof.
  intros s cid opn Hs. unfold dial_peer.
  destruct (cget cid (callers s)) as [p|]; cbn [fst]; auto.
  destruct (next_target (p_groups p)); cbn [fst]; auto.
  destruct (p_peers p) as [|peer rest]; cbn [fst]; auto.
  destruct (mget peer (by_peer s)) eqn:Em.
  - destruct opn as [[[cap tags] cg]|]; cbn [fst]; auto.
    pose proof (add_stream_objs_ok s peer cap tags cg Hs) as Ha.
    destruct (add_stream s peer cap tags cg) as [s1 sid]; cbn [fst] in *.
    rewrite objs_start_caller; auto.
  - cbn [fst]. rewrite objs_start_caller; auto.
Qed.

Theorem step_objs_ok : forall s l, objs_ok (objs s) -> objs_ok (objs (step s l)).
Proof.
  intros s l Hs. unfold step, step_out.
  destruct (fatal s || panicked s); cbn [fst]; auto.
  destruct l; cbn [fst].
  - pose proof (add_stream_objs_ok s peer cap tags cgate Hs) as Ha.
    destruct (add_stream s peer cap tags cgate); cbn [fst] in *; auto.
  - rewrite objs_start_caller; auto.
  - rewrite objs_start_caller; auto.
  - apply do_write_objs_ok; auto.
  - unfold add_tags. destruct (negb (memN sid (pool_ids s))); cbn [fst]; auto.
    destruct (hget sid (objs s)) as [st|] eqn:E; cbn [fst]; auto.
    destruct (add_new_tags (st_tags st) tags) as [cur' newt]; cbn.
    apply objs_ok_hset; auto. apply set_tags_ok. eapply Hs; eauto.
  - unfold remove_tags. destruct (negb (memN sid (pool_ids s))); cbn [fst]; auto.
    destruct (hget sid (objs s)) as [st|] eqn:E; cbn [fst]; auto.
    match goal with |- context [idx_remove_all ?a ?b ?c] => destruct (idx_remove_all a b c) end; cbn;
      apply objs_ok_hset; auto; apply set_tags_ok; eapply Hs; eauto.
  - destruct (all_in_pool s (streams_of s tags)); cbn [fst]; auto.
  - destruct (hget sid (objs s)) as [st|] eqn:E; cbn [fst]; auto.
    pose proof (take_ok st (Hs _ _ E)) as Ht.
    destruct (take st) as [st' o]; cbn [fst] in *. cbn. apply objs_ok_hset; auto.
  - apply upd_stream_ok; auto using send_ok_ok.
  - apply upd_stream_ok; auto using send_fail_ok.
  - apply upd_stream_ok; auto using read_err_ok.
  - apply upd_stream_ok; auto using close_queue_ok.
  - apply remove_stream_objs_ok; auto.
  - unfold send_enqueue. destruct ((0 <? dial_cap (cfg s)) && (dial_cap (cfg s) <=? N.of_nat (length (dialq s)))); cbn [fst]; auto.
  - unfold dial_take. destruct (running s <? dial_workers (cfg s)); auto.
    destruct (dialq s) as [|[[c m] ps] q]; auto.
  - apply dial_peer_objs_ok; auto.
  - unfold dial_done. destruct (cget cid (callers s)) as [p|]; auto.
    destruct (next_target (p_groups p)); auto. destruct (p_peers p); auto. destruct (p_mode p); auto.
    destruct (0 <? running s); auto.
Qed.

Lemma run_app : forall s a b, run s (a ++ b) = run (run s a) b.
Proof. intros. unfold run. apply fold_left_app. Qed.

Theorem run_objs_ok : forall tr s, objs_ok (objs s) -> objs_ok (objs (run s tr)).
Proof.
  induction tr as [|l tr IH]; intros s Hs; cbn; auto. apply IH. apply step_objs_ok; auto.
Qed.

Lemma init_objs_ok : forall c, objs_ok (objs (init c)).
Proof. intros c sid st H. cbn in H. discriminate. Qed.

(* bounded: in every reachable state every queue holds at most its configured size *)
Theorem bounded_all_schedules : forall c tr sid st,
  hget sid (objs (run (init c) tr)) = Some st ->
  (N.of_nat (length (st_queue st)) <= st_cap st)%N.
Proof.
  intros c tr sid st H. pose proof (run_objs_ok tr (init c) (init_objs_ok c) sid st H) as Hk.
  destruct Hk as (_ & Hq & _). exact Hq.
Qed.

Definition prefix (a b : list N) : Prop := exists r, b = a ++ r.

(* FIFO: what was handed to MsgSend is a prefix of what was accepted, in acceptance order;
   what MsgSend delivered is a prefix of that; the rest of the accepted messages is exactly the buffer *)
Theorem fifo_all_schedules : forall c tr sid st,
  hget sid (objs (run (init c) tr)) = Some st ->
  st_accepted st = st_taken st ++ st_queue st /\ prefix (st_taken st) (st_accepted st)
  /\ prefix (st_written st) (st_taken st)
  /\ (length (st_taken st) <= S (length (st_written st)))%nat.
Proof.
  intros c tr sid st H. pose proof (run_objs_ok tr (init c) (init_objs_ok c) sid st H) as Hk.
  destruct Hk as (_ & _ & Ha & Ht & _). split; [exact Ha|]. split; [exists (st_queue st); exact Ha|].
  destruct Ht as [Ht|(_ & _ & m & Ht)]; rewrite Ht.
  - split; [eexists; reflexivity|]. rewrite app_length. destruct (st_inflight st); cbn; lia.
  - split; [eexists; reflexivity|]. rewrite app_length; cbn; lia.
Qed.

(* ------------------------------------------------------------------ dial queue bounded *)
Definition dial_ok (s : state) : Prop :=
  0 < dial_cap (cfg s) -> N.of_nat (length (dialq s)) <= dial_cap (cfg s).

Lemma cfg_start_caller : forall s cid m md gs ps, cfg (start_caller s cid m md gs ps) = cfg s.
Proof. intros. unfold start_caller. destruct (all_in_pool s (concat gs)); reflexivity. Qed.
Lemma dialq_start_caller : forall s cid m md gs ps, dialq (start_caller s cid m md gs ps) = dialq s.
Proof. intros. unfold start_caller. destruct (all_in_pool s (concat gs)); reflexivity. Qed.

Lemma step_cfg_dialq : forall s l,
  cfg (step s l) = cfg s /\
  (dialq (step s l) = dialq s \/ dialq (step s l) = tl (dialq s)
   \/ (exists j, dialq (step s l) = dialq s ++ [j] /\
        ((0 <? dial_cap (cfg s)) && (dial_cap (cfg s) <=? N.of_nat (length (dialq s)))) = false)).
Proof.
  intros s l. unfold step, step_out.
  destruct (fatal s || panicked s); cbn [fst]; auto.
  destruct l; cbn [fst].
  - unfold add_stream; cbn; auto.
  - rewrite cfg_start_caller, dialq_start_caller; auto.
  - rewrite cfg_start_caller, dialq_start_caller; auto.
  - unfold do_write. destruct (cget cid (callers s)) as [p|]; cbn [fst]; auto.
    destruct (next_target (p_groups p)) as [[[sid g] rest]|]; cbn [fst]; auto.
    destruct (hget sid (objs s)) as [st|]; cbn [fst]; auto.
    destruct (write_stream st (p_msg p)); cbn; auto.
  - unfold add_tags. destruct (negb (memN sid (pool_ids s))); cbn [fst]; auto.
    destruct (hget sid (objs s)) as [st|]; cbn [fst]; auto.
    destruct (add_new_tags (st_tags st) tags); cbn; auto.
  - unfold remove_tags. destruct (negb (memN sid (pool_ids s))); cbn [fst]; auto.
    destruct (hget sid (objs s)) as [st|]; cbn [fst]; auto.
    match goal with |- context [idx_remove_all ?a ?b ?c] => destruct (idx_remove_all a b c) end; cbn; auto.
  - destruct (all_in_pool s (streams_of s tags)); cbn [fst]; auto.
  - destruct (hget sid (objs s)) as [st|]; cbn [fst]; auto. destruct (take st); cbn; auto.
  - unfold upd_stream. destruct (hget sid (objs s)); cbn; auto.
  - unfold upd_stream. destruct (hget sid (objs s)); cbn; auto.
  - unfold upd_stream. destruct (hget sid (objs s)); cbn; auto.
  - unfold upd_stream. destruct (hget sid (objs s)); cbn; auto.
  - unfold remove_stream. destruct (hget sid (objs s)) as [st|]; auto.
    destruct (st_qclosed st && negb (st_removed st)); auto.
    destruct (negb (memN sid (pool_ids s))); auto.
    destruct (idx_remove (by_peer s) (st_peer st) sid); auto.
    destruct (idx_remove_all (by_tag s) (st_tags st) sid); auto.
  - unfold send_enqueue.
    destruct ((0 <? dial_cap (cfg s)) && (dial_cap (cfg s) <=? N.of_nat (length (dialq s)))) eqn:E; cbn [fst]; auto.
    cbn. split; auto. right; right. eexists; split; eauto.
  - unfold dial_take. destruct (running s <? dial_workers (cfg s)); auto.
    destruct (dialq s) as [|[[c m] ps] q] eqn:E; auto; try (cbn; auto).
  - unfold dial_peer. destruct (cget cid (callers s)) as [p|]; cbn [fst]; auto.
    destruct (next_target (p_groups p)); cbn [fst]; auto.
    destruct (p_peers p) as [|peer rest]; cbn [fst]; auto.
    destruct (mget peer (by_peer s)).
    + destruct opn as [[[cap tags] cg]|]; cbn [fst]; auto.
      destruct (add_stream s peer cap tags cg) as [s1 sid] eqn:Ea; cbn [fst].
      rewrite cfg_start_caller, dialq_start_caller.
      unfold add_stream in Ea; inversion Ea; subst; cbn; auto.
    + cbn [fst]. rewrite cfg_start_caller, dialq_start_caller; auto.
  - unfold dial_done. destruct (cget cid (callers s)) as [p|]; auto.
    destruct (next_target (p_groups p)); auto. destruct (p_peers p); auto. destruct (p_mode p); auto.
    destruct (0 <? running s); auto.
Qed.

Theorem step_dial_ok : forall s l, dial_ok s -> dial_ok (step s l).
Proof.
  intros s l Hs. destruct (step_cfg_dialq s l) as (Hc & Hq). unfold dial_ok in *. rewrite Hc.
  intros Hpos. specialize (Hs Hpos).
  destruct Hq as [Hq|[Hq|(j & Hq & Hb)]]; rewrite Hq.
  - exact Hs.
  - destruct (dialq s); cbn [tl length] in *; lia.
  - rewrite app_length; cbn [length].
    apply andb_false_iff in Hb. destruct Hb as [Hb|Hb].
    + apply N.ltb_ge in Hb. lia.
    + apply N.leb_gt in Hb. lia.
Qed.

Theorem dial_bounded_all_schedules : forall c tr,
  0 < dial_cap c -> N.of_nat (length (dialq (run (init c) tr))) <= dial_cap c.
Proof.
  intros c tr Hpos.
  assert (H : forall tr s, dial_ok s -> dial_ok (run s tr) /\ cfg (run s tr) = cfg s).
  { induction tr0 as [|l tr0 IH]; intros s Hs; cbn; auto.
    destruct (IH (step s l) (step_dial_ok s l Hs)) as (H1 & H2). split; auto.
    unfold run in H2. rewrite H2. apply step_cfg_dialq. }
  destruct (H tr (init c)) as (H1 & H2).
  - intros _. cbn. lia.
  - unfold dial_ok in H1. rewrite H2 in H1. apply H1. exact Hpos.
Qed.

(* ------------------------------------------------------------------ callers never wait: progress and frame *)
Definition dead (s : state) : bool := fatal s || panicked s.

Lemma step_dead : forall s l, dead s = true -> step s l = s.
Proof. intros s l H. unfold step, step_out. unfold dead in H. rewrite H. reflexivity. Qed.

Lemma run_dead : forall tr s, dead s = true -> run s tr = s.
Proof. induction tr as [|l tr IH]; intros s H; cbn; auto. rewrite step_dead; auto. apply IH; auto. Qed.

Lemma cget_cset_same : forall cid p l, cget cid (cset cid p l) = Some p.
Proof. intros. unfold cset. cbn. rewrite N.eqb_refl. reflexivity. Qed.

Lemma cget_cdel_other : forall cid cid' l, cid' <> cid -> cget cid' (cdel cid l) = cget cid' l.
Proof.
  intros cid cid' l Hne. induction l as [|[k p] r IH]; cbn; auto.
  destruct (cid =? k) eqn:E.
  - apply N.eqb_eq in E; subst k. rewrite IH.
    destruct (cid' =? cid) eqn:E2; [apply N.eqb_eq in E2; contradiction|reflexivity].
  - cbn. rewrite IH. reflexivity.
Qed.

Lemma cget_cset_other : forall cid cid' p l, cid' <> cid -> cget cid' (cset cid p l) = cget cid' l.
Proof.
  intros. unfold cset. cbn. destruct (cid' =? cid) eqn:E; [apply N.eqb_eq in E; contradiction|].
  apply cget_cdel_other; auto.
Qed.

Lemma next_target_size : forall gs x g rest,
  next_target gs = Some (x, g, rest) -> length (concat gs) = S (length (concat (g :: rest))).
Proof.
  induction gs as [|[|y g'] r IH]; intros x g rest H; cbn in H; try discriminate.
  - cbn. eapply IH; eauto.
  - inversion H; subst. cbn. reflexivity.
Qed.

Lemma next_target_none : forall gs, next_target gs = None -> concat gs = [].
Proof.
  induction gs as [|[|y g'] r IH]; intros H; cbn in *; auto; discriminate.
Qed.

Lemma after_write_size : forall md r g rest,
  (length (concat (after_write md r g rest)) <= length (concat (g :: rest)))%nat.
Proof.
  intros md r g rest. destruct r, md; cbn; rewrite ?app_length; lia.
Qed.

(* one own step of a caller strictly decreases its remaining work — whatever state the streams are in;
   the step inspects no writer field ([st_inflight], [st_wdone]) and waits for nothing *)
Theorem write_progress : forall s cid,
  dead s = false ->
  (pending_size (step s (LWrite cid)) cid < pending_size s cid)%nat
  \/ pending_size s cid = 0%nat
  \/ dead (step s (LWrite cid)) = true.
Proof.
  intros s cid Hd. unfold step, step_out. unfold dead in Hd. rewrite Hd. cbn [fst].
  unfold do_write, pending_size.
  destruct (cget cid (callers s)) as [p|] eqn:Ec; [|right; left; reflexivity].
  destruct (next_target (p_groups p)) as [[[sid g] rest]|] eqn:En.
  - destruct (hget sid (objs s)) as [st|] eqn:Eh.
    + left. destruct (write_stream st (p_msg p)) as [st' r]. cbn [fst]. cbn [callers upd_callers].
      rewrite cget_cset_same. cbn [p_groups].
      rewrite (next_target_size _ _ _ _ En).
      pose proof (after_write_size (p_mode p) r g rest). lia.
    + right; right. cbn. unfold dead. cbn. apply orb_true_r.
  - right; left. rewrite (next_target_none _ En). reflexivity.
Qed.

(* labels of the writer / reader / closer threads of stream sid *)
Definition writer_label (l : label) : option N :=
  match l with
  | LTake sid | LSendOk sid | LSendFail sid | LReadErr sid | LCloseQueue sid => Some sid
  | _ => None
  end.

(* a writer label of stream sid touches nothing but the record of stream sid:
   neither the indexes, nor any caller's program, nor the dial queue, nor another stream *)
Theorem writer_frame : forall s l sid,
  writer_label l = Some sid ->
  callers (step s l) = callers s /\ by_peer (step s l) = by_peer s /\ by_tag (step s l) = by_tag s
  /\ pool_ids (step s l) = pool_ids s /\ dialq (step s l) = dialq s /\ running (step s l) = running s
  /\ fatal (step s l) = fatal s /\ panicked (step s l) = panicked s
  /\ forall sid', sid' <> sid -> hget sid' (objs (step s l)) = hget sid' (objs s).
Proof.
  intros s l sid Hl. unfold step, step_out.
  destruct (fatal s || panicked s); cbn [fst]; [repeat split; auto|].
  destruct l; cbn in Hl; try discriminate; inversion Hl; subst; cbn [fst].
  - destruct (hget sid (objs s)) as [st|] eqn:E; cbn [fst]; [|repeat split; auto].
    destruct (take st) as [st' o]; cbn. repeat split; auto. intros; apply hget_hset_other; auto.
  - unfold upd_stream. destruct (hget sid (objs s)); cbn; repeat split; auto. intros; apply hget_hset_other; auto.
  - unfold upd_stream. destruct (hget sid (objs s)); cbn; repeat split; auto. intros; apply hget_hset_other; auto.
  - unfold upd_stream. destruct (hget sid (objs s)); cbn; repeat split; auto. intros; apply hget_hset_other; auto.
  - unfold upd_stream. destruct (hget sid (objs s)); cbn; repeat split; auto. intros; apply hget_hset_other; auto.
Qed.

(* labels that are NOT steps of caller cid's own program *)
Definition foreign (cid : N) (l : label) : bool :=
  match l with
  | LBroadcast c _ _ | LSendById c _ _ | LWrite c | LDialPeer c _ | LDialDone c => negb (c =? cid)
  | LDialTake => false
  | _ => true
  end.

Lemma callers_start_caller_other : forall s c m md gs ps cid,
  c <> cid -> cget cid (callers (start_caller s c m md gs ps)) = cget cid (callers s).
Proof.
  intros. unfold start_caller. destruct (all_in_pool s (concat gs)); cbn; auto.
  apply cget_cset_other; auto.
Qed.

Lemma foreign_keeps_pending : forall s l cid,
  foreign cid l = true -> cget cid (callers (step s l)) = cget cid (callers s).
Proof.
  intros s l cid Hf. unfold step, step_out.
  destruct (fatal s || panicked s); cbn [fst]; auto.
  destruct l; cbn in Hf; try discriminate; cbn [fst];
    try (apply negb_true_iff in Hf; apply N.eqb_neq in Hf).
  - unfold add_stream; cbn; auto.
  - apply callers_start_caller_other; auto.
  - apply callers_start_caller_other; auto.
  - unfold do_write. destruct (cget cid0 (callers s)) as [p|]; cbn [fst]; auto.
    destruct (next_target (p_groups p)) as [[[sid g] rest]|]; cbn [fst]; auto.
    destruct (hget sid (objs s)) as [st|]; cbn [fst]; auto.
    destruct (write_stream st (p_msg p)); cbn. apply cget_cset_other; auto.
  - unfold add_tags. destruct (negb (memN sid (pool_ids s))); cbn [fst]; auto.
    destruct (hget sid (objs s)) as [st|]; cbn [fst]; auto.
    destruct (add_new_tags (st_tags st) tags); cbn; auto.
  - unfold remove_tags. destruct (negb (memN sid (pool_ids s))); cbn [fst]; auto.
    destruct (hget sid (objs s)) as [st|]; cbn [fst]; auto.
    match goal with |- context [idx_remove_all ?a ?b ?c] => destruct (idx_remove_all a b c) end; cbn; auto.
  - destruct (all_in_pool s (streams_of s tags)); cbn [fst]; auto.
  - destruct (hget sid (objs s)) as [st|]; cbn [fst]; auto. destruct (take st); cbn; auto.
  - unfold upd_stream. destruct (hget sid (objs s)); cbn; auto.
  - unfold upd_stream. destruct (hget sid (objs s)); cbn; auto.
  - unfold upd_stream. destruct (hget sid (objs s)); cbn; auto.
  - unfold upd_stream. destruct (hget sid (objs s)); cbn; auto.
  - unfold remove_stream. destruct (hget sid (objs s)) as [st|]; auto.
    destruct (st_qclosed st && negb (st_removed st)); auto.
    destruct (negb (memN sid (pool_ids s))); auto.
    destruct (idx_remove (by_peer s) (st_peer st) sid); auto.
    destruct (idx_remove_all (by_tag s) (st_tags st) sid); auto.
  - unfold send_enqueue.
    destruct ((0 <? dial_cap (cfg s)) && (dial_cap (cfg s) <=? N.of_nat (length (dialq s)))); cbn [fst]; auto.
  - unfold dial_peer. destruct (cget cid0 (callers s)) as [p|]; cbn [fst]; auto.
    destruct (next_target (p_groups p)); cbn [fst]; auto.
    destruct (p_peers p) as [|peer rest]; cbn [fst]; auto.
    destruct (mget peer (by_peer s)).
    + destruct opn as [[[cap tags] cg]|]; cbn [fst].
      * destruct (add_stream s peer cap tags cg) as [s1 sid] eqn:Ea; cbn [fst].
        rewrite callers_start_caller_other; auto.
        unfold add_stream in Ea; inversion Ea; subst; cbn; auto.
      * cbn. apply cget_cset_other; auto.
    + cbn [fst]. apply callers_start_caller_other; auto.
  - unfold dial_done. destruct (cget cid0 (callers s)) as [p|]; auto.
    destruct (next_target (p_groups p)); auto. destruct (p_peers p); auto. destruct (p_mode p); auto.
    destruct (0 <? running s); auto. cbn. apply cget_cdel_other; auto.
Qed.

Fixpoint count_writes (cid : N) (tr : list label) : nat :=
  match tr with
  | [] => 0
  | LWrite c :: r => if c =? cid then S (count_writes cid r) else count_writes cid r
  | _ :: r => count_writes cid r
  end.

(* Structural non-blocking: take ANY schedule in which caller cid only performs writes of its current
   operation and everybody else (all stream writers, readers, closers, other callers, including never
   taking a blocked stream's MsgSend return) does whatever it likes.  After k own steps at most
   (initial work - k) remains: the operation is over after at most [pending_size] own steps, each of
   which is always enabled — no step of the caller depends on a writer label being taken. *)
Theorem caller_progress_all_schedules : forall tr s cid,
  Forall (fun l => l = LWrite cid \/ foreign cid l = true) tr ->
  (pending_size (run s tr) cid <= pending_size s cid - count_writes cid tr)%nat
  \/ dead (run s tr) = true.
Proof.
  induction tr as [|l tr IH]; intros s cid Hall; cbn [run fold_left].
  - left. cbn. lia.
  - inversion Hall as [|l' tr' Hl Htr]; subst.
    destruct (dead s) eqn:Hd.
    + right. change (dead (run (step s l) tr) = true). rewrite step_dead; auto. rewrite run_dead; auto.
    + destruct (IH (step s l) cid Htr) as [IHk|IHk]; [|right; exact IHk].
      change (fold_left step tr (step s l)) with (run (step s l) tr).
      destruct Hl as [Hl|Hl].
      * subst l. cbn [count_writes]. rewrite N.eqb_refl.
        destruct (write_progress s cid Hd) as [Hw|[Hw|Hw]].
        -- left. lia.
        -- (* nothing left: a further write is a no-op *)
           left.
           assert (Hz : pending_size (step s (LWrite cid)) cid = 0%nat).
           { unfold step, step_out. unfold dead in Hd. rewrite Hd. cbn [fst]. unfold do_write.
             unfold pending_size in Hw |- *.
             destruct (cget cid (callers s)) as [p|] eqn:Ec; cbn [fst]; [|rewrite Ec; reflexivity].
             destruct (next_target (p_groups p)) as [[[sid g] rest]|] eqn:En; cbn [fst].
             - rewrite (next_target_size _ _ _ _ En) in Hw. discriminate.
             - rewrite Ec. exact Hw. }
           lia.
        -- right. rewrite run_dead; auto.
      * left.
        assert (Hp : pending_size (step s l) cid = pending_size s cid).
        { unfold pending_size. rewrite foreign_keeps_pending; auto. }
        assert (Hc : count_writes cid (l :: tr) = count_writes cid tr).
        { destruct l; cbn in *; auto. apply negb_true_iff in Hl. rewrite Hl. reflexivity. }
        rewrite Hp in IHk. rewrite Hc. exact IHk.
Qed.

Lemma caller_not_env : forall l, caller_label l = true -> env_label l = false.
Proof. intros l H. destruct l; cbn in *; auto; discriminate. Qed.
