(* Proofs/TreeTopo.v — the sequence presented by the incrementally maintained tree is topological (C06):
   incremental = canonical (Proofs/TreeInc.v) + canonical order is topological (Proofs/DfsTopo.v). *)
From Coq Require Import List NArith Bool Arith.
Import ListNotations.
From AnySync Require Import Lib.Dag Model.Dfs Model.Tree Proofs.DfsBase Proofs.TreeInc Proofs.DfsTopo.

Theorem incremental_topological : forall ops rk,
  t_att (run_ops ops) <> [] ->
  acyclic_by rk (view (t_att (run_ops ops)) (t_root (run_ops ops))) ->
  NoDup (iter_ids (run_ops ops)) /\
  forall l1 p l2, iter_ids (run_ops ops) = l1 ++ p :: l2 ->
    forall c, In c (view (t_att (run_ops ops)) (t_root (run_ops ops))) -> In p (cprev c) -> In (cid c) l2.
Proof.
  intros ops rk Hne Hac. unfold iter_ids. rewrite (incremental_canonical ops Hne).
  apply (order_topological _ _ rk). exact Hac.
Qed.
