(* Proofs about Model/Trie.v (C17): the trie computes exactly the matching rule over the live patterns,
   prunes itself, and counts distinct live patterns.  Plain stdlib style. *)
From Coq Require Import List NArith Bool Arith Lia.
Import ListNotations.
From AnySync Require Import Model.Trie.

(* ------------------------------------------------------------------ strings, association lists *)

Lemma str_eqb_eq : forall a b, str_eqb a b = true <-> a = b.
Proof.
  induction a as [|x a IH]; destruct b as [|y b]; simpl; split; intro H; try discriminate; auto.
  - apply andb_true_iff in H. destruct H as [H1 H2]. apply N.eqb_eq in H1. apply IH in H2. congruence.
  - inversion H; subst. apply andb_true_iff. split. apply N.eqb_refl. apply IH. reflexivity.
Qed.

Lemma str_eqb_refl : forall a, str_eqb a a = true.
Proof. intro a. apply str_eqb_eq. reflexivity. Qed.

Lemma str_eqb_neq : forall a b, str_eqb a b = false <-> a <> b.
Proof.
  intros a b. split; intro H.
  - intro E. apply str_eqb_eq in E. congruence.
  - destruct (str_eqb a b) eqn:E; auto. apply str_eqb_eq in E. contradiction.
Qed.

Lemma str_eq_dec : forall a b : str, {a = b} + {a <> b}.
Proof. intros a b. destruct (str_eqb a b) eqn:E; [left; apply str_eqb_eq; auto | right; apply str_eqb_neq; auto]. Qed.

Lemma strs_eq_dec : forall a b : list str, {a = b} + {a <> b}.
Proof. apply list_eq_dec. apply str_eq_dec. Qed.

Section Assoc.
  Context {V : Type}.
  Implicit Types (l : list (str * V)).

  Lemma assoc_set_same : forall k v l, assoc k (set_kv k v l) = Some v.
  Proof.
    induction l as [|[k' v'] l IH]; simpl.
    - rewrite str_eqb_refl. reflexivity.
    - destruct (str_eqb k k') eqn:E; simpl.
      + rewrite str_eqb_refl. reflexivity.
      + rewrite E. exact IH.
  Qed.

  Lemma assoc_set_other : forall k k' v l, k <> k' -> assoc k' (set_kv k v l) = assoc k' l.
  Proof.
    intros k k' v l Hne. induction l as [|[k2 v2] l IH]; simpl.
    - assert (E : str_eqb k' k = false) by (apply str_eqb_neq; congruence). rewrite E. reflexivity.
    - destruct (str_eqb k k2) eqn:E; simpl.
      + apply str_eqb_eq in E. subst k2.
        assert (E2 : str_eqb k' k = false) by (apply str_eqb_neq; congruence). rewrite E2. reflexivity.
      + destruct (str_eqb k' k2); auto.
  Qed.

  Lemma assoc_del_same : forall k l, assoc k (del_k k l) = None.
  Proof.
    induction l as [|[k' v'] l IH]; simpl; auto.
    destruct (str_eqb k k') eqn:E; simpl; auto. rewrite E. exact IH.
  Qed.

  Lemma assoc_del_other : forall k k' l, k <> k' -> assoc k' (del_k k l) = assoc k' l.
  Proof.
    intros k k' l Hne. induction l as [|[k2 v2] l IH]; simpl; auto.
    destruct (str_eqb k k2) eqn:E; simpl.
    - apply str_eqb_eq in E. subst k2.
      assert (E2 : str_eqb k' k = false) by (apply str_eqb_neq; congruence). rewrite E2. exact IH.
    - destruct (str_eqb k' k2); auto.
  Qed.
End Assoc.

(* ------------------------------------------------------------------ splitTopic *)

Fixpoint join (segs : list str) : str :=
  match segs with
  | [] => []
  | [a] => a
  | a :: r => a ++ SLASH :: join r
  end.

Lemma cut_none : forall s a, cut s = (a, None) -> s = a /\ ~ In SLASH a.
Proof.
  induction s as [|c s IH]; simpl; intros a H.
  - inversion H. split; auto.
  - destruct (N.eqb c SLASH) eqn:E; [discriminate|].
    destruct (cut s) as [a' o] eqn:C. inversion H; subst. destruct (IH a' eq_refl) as [H1 H2].
    split. congruence. simpl. intros [F|F]; [apply N.eqb_neq in E; congruence | contradiction].
Qed.

Lemma cut_some : forall s a r, cut s = (a, Some r) -> s = a ++ SLASH :: r /\ ~ In SLASH a.
Proof.
  induction s as [|c s IH]; simpl; intros a r H.
  - discriminate.
  - destruct (N.eqb c SLASH) eqn:E.
    + inversion H; subst. apply N.eqb_eq in E. subst. split; auto.
    + destruct (cut s) as [a' o] eqn:C. inversion H; subst. destruct (IH a' r eq_refl) as [H1 H2].
      split. simpl. congruence. simpl. intros [F|F]; [apply N.eqb_neq in E; congruence | contradiction].
Qed.

Lemma splitN_nonempty : forall f s, splitN f s <> [].
Proof. destruct f; simpl; intros s; [discriminate|]. destruct (cut s) as [a [r|]]; discriminate. Qed.

Lemma join_cons : forall a r, r <> [] -> join (a :: r) = a ++ SLASH :: join r.
Proof. intros a [|b r] H; [contradiction|reflexivity]. Qed.

Lemma join_splitN : forall f s, join (splitN f s) = s.
Proof.
  induction f as [|f IH]; simpl; intro s; auto.
  destruct (cut s) as [a [r|]] eqn:C.
  - apply cut_some in C. destruct C as [C _]. rewrite join_cons by apply splitN_nonempty.
    rewrite IH. auto.
  - apply cut_none in C. destruct C as [C _]. simpl. auto.
Qed.

Lemma split_topic_inj : forall p q, split_topic p = split_topic q -> p = q.
Proof.
  intros p q H. rewrite <- (join_splitN max_segments p), <- (join_splitN max_segments q).
  unfold split_topic in H. rewrite H. reflexivity.
Qed.

Lemma split_topic_nonempty : forall p, split_topic p <> [].
Proof. intro p. apply splitN_nonempty. Qed.

(* ------------------------------------------------------------------ paths into the trie *)

Fixpoint get (n : node) (pi : list str) : option node :=
  match pi with
  | [] => Some n
  | s :: r => match child n s with Some c => get c r | None => None end
  end.

Definition refs_at (n : node) (pi : list str) : N :=
  match get n pi with Some m => refs m | None => 0%N end.
Definition pat_at (n : node) (pi : list str) : str :=
  match get n pi with Some m => pat m | None => [] end.

Definition child_or_empty (n : node) (s : str) : node :=
  match child n s with Some c => c | None => empty_node end.

Lemma get_empty_node : forall pi, pi <> [] -> get empty_node pi = None.
Proof. destruct pi; [contradiction|reflexivity]. Qed.

Lemma refs_at_cons : forall n s pi, refs_at n (s :: pi) = refs_at (child_or_empty n s) pi.
Proof.
  intros n s pi. unfold refs_at, child_or_empty. simpl. destruct (child n s); auto.
  destruct pi; simpl; auto.
Qed.

Lemma pat_at_cons : forall n s pi, pat_at n (s :: pi) = pat_at (child_or_empty n s) pi.
Proof.
  intros n s pi. unfold pat_at, child_or_empty. simpl. destruct (child n s); auto.
  destruct pi; simpl; auto.
Qed.

Lemma child_set_child_same : forall n s c, child (set_child n s c) s = Some c.
Proof. intros. unfold child, set_child. simpl. apply assoc_set_same. Qed.
Lemma child_set_child_other : forall n s s' c, s <> s' -> child (set_child n s c) s' = child n s'.
Proof. intros. unfold child, set_child. simpl. apply assoc_set_other; auto. Qed.
Lemma child_delete_same : forall n s, child (delete_child n s) s = None.
Proof. intros. unfold child, delete_child. simpl. apply assoc_del_same. Qed.
Lemma child_delete_other : forall n s s', s <> s' -> child (delete_child n s) s' = child n s'.
Proof. intros. unfold child, delete_child. simpl. apply assoc_del_other; auto. Qed.

Lemma coe_set_same : forall n s c, child_or_empty (set_child n s c) s = c.
Proof. intros. unfold child_or_empty. rewrite child_set_child_same. reflexivity. Qed.
Lemma coe_set_other : forall n s s' c, s <> s' -> child_or_empty (set_child n s c) s' = child_or_empty n s'.
Proof. intros. unfold child_or_empty. rewrite child_set_child_other; auto. Qed.

Lemma refs_at_nil : forall n, refs_at n [] = refs n.
Proof. reflexivity. Qed.
Lemma pat_at_nil : forall n, pat_at n [] = pat n.
Proof. reflexivity. Qed.

Lemma refs_at_empty : forall pi, refs_at empty_node pi = 0%N.
Proof. destruct pi; reflexivity. Qed.
Lemma pat_at_empty : forall pi, pat_at empty_node pi = [].
Proof. destruct pi; reflexivity. Qed.

(* a node with the same children: same lookups below *)
Lemma refs_at_same_kids : forall a b pi, kids a = kids b -> pi <> [] -> refs_at a pi = refs_at b pi.
Proof. intros a b pi H Hne. destruct pi; [contradiction|]. unfold refs_at, get, child. rewrite H. reflexivity. Qed.
Lemma pat_at_same_kids : forall a b pi, kids a = kids b -> pi <> [] -> pat_at a pi = pat_at b pi.
Proof. intros a b pi H Hne. destruct pi; [contradiction|]. unfold pat_at, get, child. rewrite H. reflexivity. Qed.

Lemma node_eta : forall c, c = Node (kids c) (pat c) (refs c).
Proof. destruct c; reflexivity. Qed.

(* ------------------------------------------------------------------ add *)

Lemma add_segs_spec : forall segs n p, segs <> [] ->
  let n' := fst (add_segs n segs p) in
  (forall pi, refs_at n' pi = if strs_eq_dec pi segs then (refs_at n pi + 1)%N else refs_at n pi)
  /\ (forall pi, pat_at n' pi = if strs_eq_dec pi segs then p else pat_at n pi)
  /\ snd (add_segs n segs p) = N.eqb (refs_at n segs) 0.
Proof.
  induction segs as [|s rest IH]; intros n p Hne; [contradiction|].
  cbn [add_segs]. fold (child_or_empty n s).
  set (c := child_or_empty n s).
  destruct rest as [|s2 rest2].
  - (* terminal *)
    cbn [fst snd]. repeat split.
    + intros pi. destruct pi as [|s' pi'].
      * destruct (strs_eq_dec [] [s]); [discriminate|]. reflexivity.
      * rewrite refs_at_cons. destruct (str_eq_dec s s') as [E|E].
        -- subst s'. rewrite coe_set_same. rewrite (refs_at_cons n s). fold c.
           destruct pi' as [|x pi''].
           ++ destruct (strs_eq_dec [s] [s]); [|congruence]. reflexivity.
           ++ destruct (strs_eq_dec (s :: x :: pi'') [s]); [discriminate|].
              apply refs_at_same_kids; [reflexivity|discriminate].
        -- rewrite coe_set_other by auto. rewrite <- refs_at_cons.
           destruct (strs_eq_dec (s' :: pi') [s]); [congruence|]. reflexivity.
    + intros pi. destruct pi as [|s' pi'].
      * destruct (strs_eq_dec [] [s]); [discriminate|]. reflexivity.
      * rewrite pat_at_cons. destruct (str_eq_dec s s') as [E|E].
        -- subst s'. rewrite coe_set_same. rewrite (pat_at_cons n s). fold c.
           destruct pi' as [|x pi''].
           ++ destruct (strs_eq_dec [s] [s]); [|congruence]. reflexivity.
           ++ destruct (strs_eq_dec (s :: x :: pi'') [s]); [discriminate|].
              apply pat_at_same_kids; [reflexivity|discriminate].
        -- rewrite coe_set_other by auto. rewrite <- pat_at_cons.
           destruct (strs_eq_dec (s' :: pi') [s]); [congruence|]. reflexivity.
    + rewrite refs_at_cons. fold c. rewrite refs_at_nil.
      destruct (refs c); simpl; try reflexivity. destruct p0; reflexivity.
  - (* inner *)
    assert (Hne2 : s2 :: rest2 <> []) by discriminate.
    specialize (IH c p Hne2). cbv zeta in IH.
    destruct (add_segs c (s2 :: rest2) p) as [c' fresh] eqn:EA.
    cbn [fst snd] in IH |- *. destruct IH as (IHr & IHp & IHf).
    repeat split.
    + intros pi. destruct pi as [|s' pi'].
      * destruct (strs_eq_dec [] (s :: s2 :: rest2)); [discriminate|]. reflexivity.
      * rewrite refs_at_cons. destruct (str_eq_dec s s') as [E|E].
        -- subst s'. rewrite coe_set_same. rewrite IHr. rewrite (refs_at_cons n s). fold c.
           destruct (strs_eq_dec pi' (s2 :: rest2)); destruct (strs_eq_dec (s :: pi') (s :: s2 :: rest2));
             try reflexivity; congruence.
        -- rewrite coe_set_other by auto. rewrite <- refs_at_cons.
           destruct (strs_eq_dec (s' :: pi') (s :: s2 :: rest2)); [congruence|]. reflexivity.
    + intros pi. destruct pi as [|s' pi'].
      * destruct (strs_eq_dec [] (s :: s2 :: rest2)); [discriminate|]. reflexivity.
      * rewrite pat_at_cons. destruct (str_eq_dec s s') as [E|E].
        -- subst s'. rewrite coe_set_same. rewrite IHp. rewrite (pat_at_cons n s). fold c.
           destruct (strs_eq_dec pi' (s2 :: rest2)); destruct (strs_eq_dec (s :: pi') (s :: s2 :: rest2));
             try reflexivity; congruence.
        -- rewrite coe_set_other by auto. rewrite <- pat_at_cons.
           destruct (strs_eq_dec (s' :: pi') (s :: s2 :: rest2)); [congruence|]. reflexivity.
    + rewrite IHf. rewrite (refs_at_cons n s). reflexivity.
Qed.

(* ------------------------------------------------------------------ remove *)

Lemma refs_at_no_kids : forall c pi, kids c = [] -> pi <> [] -> refs_at c pi = 0%N.
Proof. intros c pi H Hne. destruct pi; [contradiction|]. unfold refs_at, get, child. rewrite H. reflexivity. Qed.

Lemma level_empty_kids : forall c, level_empty c = true -> kids c = [].
Proof. intros c. unfold level_empty. destruct (kids c); [reflexivity|discriminate]. Qed.

Lemma refs_at_pop : forall n s c' s' pi,
  refs_at (put_or_prune n s c') (s' :: pi)
  = if str_eq_dec s s' then refs_at c' pi else refs_at n (s' :: pi).
Proof.
  intros n s c' s' pi. unfold put_or_prune.
  destruct (N.eqb (refs c') 0 && level_empty c') eqn:EP.
  - apply andb_true_iff in EP. destruct EP as [E1 E2]. apply N.eqb_eq in E1. apply level_empty_kids in E2.
    destruct (str_eq_dec s s') as [E|E].
    + subst s'. unfold refs_at at 1. cbn [get]. rewrite child_delete_same.
      destruct pi; [rewrite refs_at_nil; auto | rewrite refs_at_no_kids; auto; discriminate].
    + rewrite !refs_at_cons. unfold child_or_empty. rewrite child_delete_other by auto. reflexivity.
  - rewrite refs_at_cons. destruct (str_eq_dec s s') as [E|E].
    + subst s'. rewrite coe_set_same. reflexivity.
    + rewrite coe_set_other by auto. rewrite <- refs_at_cons. reflexivity.
Qed.

Lemma pat_at_pop : forall n s c' s' pi,
  (0 < refs_at (put_or_prune n s c') (s' :: pi))%N ->
  pat_at (put_or_prune n s c') (s' :: pi)
  = if str_eq_dec s s' then pat_at c' pi else pat_at n (s' :: pi).
Proof.
  intros n s c' s' pi Hlive. rewrite refs_at_pop in Hlive. revert Hlive. unfold put_or_prune.
  destruct (N.eqb (refs c') 0 && level_empty c') eqn:EP.
  - apply andb_true_iff in EP. destruct EP as [E1 E2]. apply N.eqb_eq in E1. apply level_empty_kids in E2.
    destruct (str_eq_dec s s') as [E|E]; intro Hlive.
    + exfalso. destruct pi; [rewrite refs_at_nil in Hlive; lia | rewrite refs_at_no_kids in Hlive; auto; [lia|discriminate]].
    + rewrite !pat_at_cons. unfold child_or_empty. rewrite child_delete_other by auto. reflexivity.
  - intros _. rewrite pat_at_cons. destruct (str_eq_dec s s') as [E|E].
    + subst s'. rewrite coe_set_same. reflexivity.
    + rewrite coe_set_other by auto. rewrite <- pat_at_cons. reflexivity.
Qed.

Lemma refs_at_pop_nil : forall n s c', refs_at (put_or_prune n s c') [] = refs_at n [].
Proof. intros. unfold put_or_prune. destruct (_ && _); reflexivity. Qed.
Lemma pat_at_pop_nil : forall n s c', pat_at (put_or_prune n s c') [] = pat_at n [].
Proof. intros. unfold put_or_prune. destruct (_ && _); reflexivity. Qed.

Lemma coe_child : forall n s c, child n s = Some c -> child_or_empty n s = c.
Proof. intros n s c H. unfold child_or_empty. rewrite H. reflexivity. Qed.

Lemma remove_segs_spec : forall segs n, segs <> [] ->
  let n' := fst (remove_segs n segs) in
  (forall pi, refs_at n' pi = if strs_eq_dec pi segs then N.pred (refs_at n pi) else refs_at n pi)
  /\ (forall pi, (0 < refs_at n' pi)%N -> pat_at n' pi = pat_at n pi)
  /\ snd (remove_segs n segs) = N.eqb (refs_at n segs) 1.
Proof.
  induction segs as [|s rest IH]; intros n Hne; [contradiction|].
  cbn [remove_segs].
  destruct (child n s) as [c|] eqn:EC.
  2:{ cbn [fst snd]. repeat split.
      - intros pi. destruct (strs_eq_dec pi (s :: rest)) as [E|E]; auto. subst pi.
        rewrite refs_at_cons. unfold child_or_empty. rewrite EC. rewrite refs_at_empty. reflexivity.
      - rewrite refs_at_cons. unfold child_or_empty. rewrite EC. rewrite refs_at_empty. reflexivity. }
  pose proof (coe_child _ _ _ EC) as Hcoe.
  destruct rest as [|s2 rest2].
  - destruct (N.eqb (refs c) 0) eqn:E0.
    { apply N.eqb_eq in E0. cbn [fst snd]. repeat split.
      - intros pi. destruct (strs_eq_dec pi [s]) as [E|E]; auto. subst pi.
        rewrite refs_at_cons, Hcoe, refs_at_nil, E0. reflexivity.
      - rewrite refs_at_cons, Hcoe, refs_at_nil, E0. reflexivity. }
    apply N.eqb_neq in E0.
    destruct (N.ltb 0 (N.pred (refs c))) eqn:EL.
    + apply N.ltb_lt in EL. cbn [fst snd]. repeat split.
      * intros pi. destruct pi as [|s' pi'].
        -- destruct (strs_eq_dec [] [s]); [discriminate|]. reflexivity.
        -- rewrite refs_at_cons. destruct (str_eq_dec s s') as [E|E].
           ++ subst s'. rewrite coe_set_same. rewrite (refs_at_cons n s), Hcoe.
              destruct pi' as [|x pi''].
              ** destruct (strs_eq_dec [s] [s]); [|congruence]. reflexivity.
              ** destruct (strs_eq_dec (s :: x :: pi'') [s]); [discriminate|].
                 apply refs_at_same_kids; [reflexivity|discriminate].
           ++ rewrite coe_set_other by auto. rewrite <- refs_at_cons.
              destruct (strs_eq_dec (s' :: pi') [s]); [congruence|]. reflexivity.
      * intros pi _. destruct pi as [|s' pi']; [reflexivity|].
        rewrite pat_at_cons. destruct (str_eq_dec s s') as [E|E].
        -- subst s'. rewrite coe_set_same. rewrite (pat_at_cons n s), Hcoe.
           destruct pi' as [|x pi'']; [reflexivity|]. apply pat_at_same_kids; [reflexivity|discriminate].
        -- rewrite coe_set_other by auto. rewrite <- pat_at_cons. reflexivity.
      * rewrite refs_at_cons, Hcoe, refs_at_nil. symmetry. apply N.eqb_neq. lia.
    + apply N.ltb_ge in EL. assert (E1 : refs c = 1%N) by lia.
      cbn [fst snd]. repeat split.
      * intros pi. destruct pi as [|s' pi'].
        -- destruct (strs_eq_dec [] [s]); [discriminate|]. apply refs_at_pop_nil.
        -- rewrite refs_at_pop. destruct (str_eq_dec s s') as [E|E].
           ++ subst s'. rewrite (refs_at_cons n s), Hcoe.
              destruct pi' as [|x pi''].
              ** destruct (strs_eq_dec [s] [s]); [|congruence]. rewrite !refs_at_nil. cbn [refs]. lia.
              ** destruct (strs_eq_dec (s :: x :: pi'') [s]); [discriminate|].
                 apply refs_at_same_kids; [reflexivity|discriminate].
           ++ destruct (strs_eq_dec (s' :: pi') [s]); [congruence|]. reflexivity.
      * intros pi Hlive. destruct pi as [|s' pi']; [apply pat_at_pop_nil|].
        pose proof Hlive as Hlive2. rewrite refs_at_pop in Hlive2.
        rewrite pat_at_pop by exact Hlive. destruct (str_eq_dec s s') as [E|E]; [|reflexivity].
        subst s'. rewrite (pat_at_cons n s), Hcoe.
        destruct pi' as [|x pi'']; [rewrite refs_at_nil in Hlive2; cbn [refs] in Hlive2; lia|].
        apply pat_at_same_kids; [reflexivity|discriminate].
      * rewrite refs_at_cons, Hcoe, refs_at_nil. symmetry. apply N.eqb_eq. exact E1.
  - assert (Hne2 : s2 :: rest2 <> []) by discriminate.
    specialize (IH c Hne2). cbv zeta in IH.
    destruct (remove_segs c (s2 :: rest2)) as [c' removed] eqn:ER.
    cbn [fst snd] in IH |- *. destruct IH as (IHr & IHp & IHf).
    repeat split.
    + intros pi. destruct pi as [|s' pi'].
      * destruct (strs_eq_dec [] (s :: s2 :: rest2)); [discriminate|]. apply refs_at_pop_nil.
      * rewrite refs_at_pop. destruct (str_eq_dec s s') as [E|E].
        -- subst s'. rewrite IHr. rewrite (refs_at_cons n s), Hcoe.
           destruct (strs_eq_dec pi' (s2 :: rest2)); destruct (strs_eq_dec (s :: pi') (s :: s2 :: rest2));
             try reflexivity; congruence.
        -- destruct (strs_eq_dec (s' :: pi') (s :: s2 :: rest2)); [congruence|]. reflexivity.
    + intros pi Hlive. destruct pi as [|s' pi']; [apply pat_at_pop_nil|].
      pose proof Hlive as Hlive2. rewrite refs_at_pop in Hlive2.
      rewrite pat_at_pop by exact Hlive. destruct (str_eq_dec s s') as [E|E]; [|reflexivity].
      subst s'. rewrite (pat_at_cons n s), Hcoe. apply IHp. exact Hlive2.
    + rewrite IHf. rewrite (refs_at_cons n s), Hcoe. reflexivity.
Qed.

(* ------------------------------------------------------------------ match *)

Definition sub_match (c : node) (rest : list str) : list str :=
  match rest with
  | [] => if N.ltb 0 (refs c) then [pat c] else []
  | _ :: _ => match_level c rest
  end.

Lemma match_level_cons : forall n s rest,
  match_level n (s :: rest) =
  (match child n tail_seg with
   | Some f => if N.ltb 0 (refs f) then [pat f] else []
   | None => []
   end)
  ++ (match child n star_seg with Some c => sub_match c rest | None => [] end)
  ++ (match literal n s with Some c => sub_match c rest | None => [] end).
Proof. intros. destruct rest; reflexivity. Qed.

Definition live_path (n : node) (pi : list str) (p : str) (t : list str) : Prop :=
  (0 < refs_at n pi)%N /\ pat_at n pi = p /\ matches pi t = true.

Lemma live_child : forall n k pi, (0 < refs_at n (k :: pi))%N ->
  exists c, child n k = Some c /\ refs_at n (k :: pi) = refs_at c pi /\ pat_at n (k :: pi) = pat_at c pi.
Proof.
  intros n k pi H. destruct (child n k) as [c|] eqn:EC.
  - exists c. rewrite refs_at_cons, pat_at_cons. rewrite (coe_child _ _ _ EC). auto.
  - rewrite refs_at_cons in H. unfold child_or_empty in H. rewrite EC in H. rewrite refs_at_empty in H. lia.
Qed.

Lemma child_path : forall n k c pi, child n k = Some c ->
  refs_at n (k :: pi) = refs_at c pi /\ pat_at n (k :: pi) = pat_at c pi.
Proof. intros n k c pi EC. rewrite refs_at_cons, pat_at_cons, (coe_child _ _ _ EC). auto. Qed.

Lemma matches_nil_r : forall k pi, matches (k :: pi) [] = false.
Proof. reflexivity. Qed.

Lemma match_level_spec : forall t n p,
  In p (match_level n t) <-> exists pi, pi <> [] /\ live_path n pi p t.
Proof.
  induction t as [|s rest IH]; intros n p.
  - simpl. split; [contradiction|]. intros (pi & Hne & _ & _ & Hm).
    destruct pi; [contradiction|discriminate].
  - assert (Hsub : forall c q, In q (sub_match c rest) <-> exists pi', live_path c pi' q rest).
    { intros c q. destruct rest as [|r rs].
      - simpl. destruct (N.ltb 0 (refs c)) eqn:EL.
        + apply N.ltb_lt in EL. simpl. split.
          * intros [E|[]]. exists []. repeat split; auto.
          * intros (pi' & Hl & Hp & Hm). destruct pi'; [|discriminate]. left. exact Hp.
        + apply N.ltb_ge in EL. simpl. split; [contradiction|].
          intros (pi' & Hl & Hp & Hm). destruct pi'; [|discriminate]. rewrite refs_at_nil in Hl. lia.
      - cbn [sub_match]. rewrite IH. split.
        + intros (pi & _ & H). exists pi. exact H.
        + intros (pi & H). exists pi. split; auto. destruct H as (_ & _ & Hm).
          destruct pi; [discriminate|discriminate]. }
    rewrite match_level_cons. rewrite !in_app_iff. split.
    + intros [HA|[HB|HC]].
      * destruct (child n tail_seg) as [f|] eqn:EC; [|contradiction].
        destruct (N.ltb 0 (refs f)) eqn:EL; [|contradiction]. apply N.ltb_lt in EL.
        destruct HA as [E|[]]. exists [tail_seg]. split; [discriminate|].
        destruct (child_path n tail_seg f [] EC) as [H1 H2].
        unfold live_path. rewrite H1, H2. repeat split; auto.
      * destruct (child n star_seg) as [c|] eqn:EC; [|contradiction].
        apply Hsub in HB. destruct HB as (pi' & Hl & Hp & Hm).
        exists (star_seg :: pi'). split; [discriminate|].
        destruct (child_path n star_seg c pi' EC) as [H1 H2].
        unfold live_path. rewrite H1, H2. repeat split; auto.
      * unfold literal in HC. destruct (is_wild s) eqn:EW; [contradiction|].
        destruct (assoc s (kids n)) as [c|] eqn:EC; [|contradiction].
        apply Hsub in HC. destruct HC as (pi' & Hl & Hp & Hm).
        exists (s :: pi'). split; [discriminate|].
        destruct (child_path n s c pi' EC) as [H1 H2].
        unfold live_path. rewrite H1, H2. repeat split; auto.
        unfold is_wild in EW. apply orb_false_iff in EW. destruct EW as [EW1 EW2].
        cbn [matches]. rewrite EW2, EW1, str_eqb_refl. exact Hm.
    + intros (pi & Hne & Hl & Hp & Hm). destruct pi as [|k pi']; [contradiction|].
      destruct (live_child n k pi' Hl) as (c & EC & H1 & H2).
      cbn [matches] in Hm. destruct (is_tail k) eqn:ET.
      * left. apply str_eqb_eq in ET. subst k. rewrite EC.
        destruct pi'; [|discriminate]. rewrite H1 in Hl. rewrite refs_at_nil in Hl.
        apply N.ltb_lt in Hl. rewrite Hl. left. rewrite <- Hp, H2. reflexivity.
      * destruct (is_star k) eqn:ES.
        -- right; left. apply str_eqb_eq in ES. subst k. rewrite EC. apply Hsub.
           exists pi'. unfold live_path. rewrite <- H1, <- H2. auto.
        -- right; right. apply andb_true_iff in Hm. destruct Hm as [Hk Hm]. apply str_eqb_eq in Hk. subst k.
           unfold literal, is_wild. rewrite ES, ET. cbn [orb]. unfold child in EC. rewrite EC. apply Hsub.
           exists pi'. unfold live_path. rewrite <- H1, <- H2. auto.
Qed.

(* distinct live paths carry distinct patterns *)
Definition inj_pats (n : node) : Prop :=
  forall pi1 pi2, (0 < refs_at n pi1)%N -> (0 < refs_at n pi2)%N -> pat_at n pi1 = pat_at n pi2 -> pi1 = pi2.

Lemma inj_pats_child : forall n k c, inj_pats n -> child n k = Some c -> inj_pats c.
Proof.
  intros n k c H EC pi1 pi2 H1 H2 HP.
  destruct (child_path n k c pi1 EC) as [A1 B1]. destruct (child_path n k c pi2 EC) as [A2 B2].
  assert (E : k :: pi1 = k :: pi2) by (apply H; congruence). congruence.
Qed.

Lemma match_level_nodup : forall t n, inj_pats n -> NoDup (match_level n t).
Proof.
  induction t as [|s rest IH]; intros n Hinj; [constructor|].
  assert (Hsub : forall c, inj_pats c -> NoDup (sub_match c rest)).
  { intros c Hc. destruct rest; cbn [sub_match]; [|apply IH; auto].
    destruct (N.ltb 0 (refs c)); [repeat constructor; intros []|constructor]. }
  assert (Hsubp : forall k c q, child n k = Some c -> In q (sub_match c rest) ->
            exists pi', (0 < refs_at n (k :: pi'))%N /\ pat_at n (k :: pi') = q).
  { intros k c q EC HI.
    assert (exists pi', (0 < refs_at c pi')%N /\ pat_at c pi' = q) as (pi' & A & B).
    { destruct rest; cbn [sub_match] in HI.
      - destruct (N.ltb 0 (refs c)) eqn:EL; [|contradiction]. destruct HI as [E|[]].
        exists []. apply N.ltb_lt in EL. auto.
      - apply match_level_spec in HI. destruct HI as (pi & _ & A & B & _). exists pi. auto. }
    exists pi'. destruct (child_path n k c pi' EC) as [H1 H2]. rewrite H1, H2. auto. }
  rewrite match_level_cons.
  set (A := match child n tail_seg with Some f => if N.ltb 0 (refs f) then [pat f] else [] | None => [] end).
  set (B := match child n star_seg with Some c => sub_match c rest | None => [] end).
  set (C := match literal n s with Some c => sub_match c rest | None => [] end).
  assert (HA : forall q, In q A -> exists pi', (0 < refs_at n (tail_seg :: pi'))%N /\ pat_at n (tail_seg :: pi') = q).
  { intros q HI. unfold A in HI. destruct (child n tail_seg) as [f|] eqn:EC; [|contradiction].
    destruct (N.ltb 0 (refs f)) eqn:EL; [|contradiction]. destruct HI as [E|[]].
    exists []. destruct (child_path n tail_seg f [] EC) as [H1 H2]. rewrite H1, H2. apply N.ltb_lt in EL. auto. }
  assert (HB : forall q, In q B -> exists pi', (0 < refs_at n (star_seg :: pi'))%N /\ pat_at n (star_seg :: pi') = q).
  { intros q HI. unfold B in HI. destruct (child n star_seg) as [c|] eqn:EC; [|contradiction]. eapply Hsubp; eauto. }
  assert (HC : forall q, In q C -> is_wild s = false /\ exists pi', (0 < refs_at n (s :: pi'))%N /\ pat_at n (s :: pi') = q).
  { intros q HI. unfold C, literal in HI. destruct (is_wild s) eqn:EW; [contradiction|]. split; auto.
    destruct (assoc s (kids n)) as [c|] eqn:EC; [|contradiction]. eapply Hsubp; eauto. }
  assert (NA : NoDup A).
  { unfold A. destruct (child n tail_seg); [|constructor]. destruct (N.ltb 0 (refs n0)); [repeat constructor; intros []|constructor]. }
  assert (NB : NoDup B).
  { unfold B. destruct (child n star_seg) eqn:EC; [|constructor]. apply Hsub. eapply inj_pats_child; eauto. }
  assert (NC : NoDup C).
  { unfold C, literal. destruct (is_wild s); [constructor|]. destruct (assoc s (kids n)) eqn:EC; [|constructor].
    apply Hsub. eapply inj_pats_child; eauto. }
  assert (Hdisj : forall k1 k2 pi1 pi2 q, k1 <> k2 ->
            (0 < refs_at n (k1 :: pi1))%N -> pat_at n (k1 :: pi1) = q ->
            (0 < refs_at n (k2 :: pi2))%N -> pat_at n (k2 :: pi2) = q -> False).
  { intros k1 k2 pi1 pi2 q Hk A1 B1 A2 B2. assert (E : k1 :: pi1 = k2 :: pi2) by (apply Hinj; congruence). congruence. }
  (* NoDup (A ++ B ++ C) *)
  assert (NBC : NoDup (B ++ C)).
  { clear NA HA. induction B as [|b B' IHB]; [exact NC|]. simpl. inversion NB; subst. constructor.
    - rewrite in_app_iff. intros [F|F]; [contradiction|].
      destruct (HB b (or_introl eq_refl)) as (pi1 & A1 & B1). destruct (HC b F) as (EW & pi2 & A2 & B2).
      apply (Hdisj star_seg s pi1 pi2 b); auto. intro E. subst s. discriminate.
    - apply IHB; auto. intros q HI. apply HB. right. exact HI. }
  induction A as [|a A' IHA]; [exact NBC|]. simpl. inversion NA; subst. constructor.
  - rewrite !in_app_iff. intros [F|[F|F]]; [contradiction| |].
    + destruct (HA a (or_introl eq_refl)) as (pi1 & A1 & B1). destruct (HB a F) as (pi2 & A2 & B2).
      apply (Hdisj tail_seg star_seg pi1 pi2 a); auto. discriminate.
    + destruct (HA a (or_introl eq_refl)) as (pi1 & A1 & B1). destruct (HC a F) as (EW & pi2 & A2 & B2).
      apply (Hdisj tail_seg s pi1 pi2 a); auto. intro E. subst s. discriminate.
  - apply IHA; auto. intros q HI. apply HA. right. exact HI.
Qed.

(* ------------------------------------------------------------------ the refcount abstraction *)

Definition step_rc (o : top) (f : str -> N) : str -> N :=
  match o with
  | TAdd q => fun p => if str_eqb p q then (f p + 1)%N else f p
  | TRemove q => fun p => if str_eqb p q then N.pred (f p) else f p
  | _ => f
  end.

Definition rc_of (ops : list top) (f : str -> N) : str -> N := fun p => refcount ops (f p) p.

Lemma rc_of_cons : forall o r f p, rc_of (o :: r) f p = rc_of r (step_rc o f) p.
Proof. intros o r f p. unfold rc_of. destruct o; simpl; try reflexivity; destruct (str_eqb p p0); reflexivity. Qed.

(* I1: the terminal of every pattern holds its refcount; I2: a live node stores the pattern spelling its path *)
Definition abs_inv (n : node) (f : str -> N) : Prop :=
  (forall p, refs_at n (split_topic p) = f p)
  /\ (forall pi, (0 < refs_at n pi)%N -> split_topic (pat_at n pi) = pi).

Lemma abs_inv_empty : abs_inv empty_node (fun _ => 0%N).
Proof. split; intros; rewrite refs_at_empty in *; [reflexivity|lia]. Qed.

Lemma abs_inv_add : forall n f p, abs_inv n f ->
  abs_inv (fst (add_segs n (split_topic p) p)) (step_rc (TAdd p) f)
  /\ snd (add_segs n (split_topic p) p) = N.eqb (f p) 0.
Proof.
  intros n f p [I1 I2].
  destruct (add_segs_spec (split_topic p) n p (split_topic_nonempty p)) as (Hr & Hp & Hf).
  split; [split|].
  - intros q. rewrite Hr. cbn [step_rc]. destruct (strs_eq_dec (split_topic q) (split_topic p)) as [E|E].
    + apply split_topic_inj in E. subst q. rewrite str_eqb_refl, I1. reflexivity.
    + assert (Eq : str_eqb q p = false) by (apply str_eqb_neq; intro; subst; congruence). rewrite Eq. apply I1.
  - intros pi Hl. rewrite Hp. rewrite Hr in Hl. destruct (strs_eq_dec pi (split_topic p)); [congruence|].
    apply I2. exact Hl.
  - rewrite Hf, I1. reflexivity.
Qed.

Lemma abs_inv_remove : forall n f p, abs_inv n f ->
  abs_inv (fst (remove_segs n (split_topic p))) (step_rc (TRemove p) f)
  /\ snd (remove_segs n (split_topic p)) = N.eqb (f p) 1.
Proof.
  intros n f p [I1 I2].
  destruct (remove_segs_spec (split_topic p) n (split_topic_nonempty p)) as (Hr & Hp & Hf).
  split; [split|].
  - intros q. rewrite Hr. cbn [step_rc]. destruct (strs_eq_dec (split_topic q) (split_topic p)) as [E|E].
    + apply split_topic_inj in E. subst q. rewrite str_eqb_refl, I1. reflexivity.
    + assert (Eq : str_eqb q p = false) by (apply str_eqb_neq; intro; subst; congruence). rewrite Eq. apply I1.
  - intros pi Hl. rewrite Hp by exact Hl. apply I2. rewrite Hr in Hl.
    destruct (strs_eq_dec pi (split_topic p)); lia.
  - rewrite Hf, I1. reflexivity.
Qed.

Lemma abs_inv_inj : forall n f, abs_inv n f -> inj_pats n.
Proof. intros n f [_ I2] pi1 pi2 H1 H2 HP. rewrite <- (I2 pi1 H1), <- (I2 pi2 H2), HP. reflexivity. Qed.

(* ------------------------------------------------------------------ pruning *)

Definition has_live (c : node) : Prop := exists pi, (0 < refs_at c pi)%N.

Inductive no_dead : node -> Prop :=
| ND : forall n, (forall k c, child n k = Some c -> has_live c /\ no_dead c) -> no_dead n.

Lemma no_dead_same_kids : forall a b, kids a = kids b -> no_dead a -> no_dead b.
Proof. intros a b E H. inversion H; subst. constructor. intros k c EC. apply (H0 k). unfold child in *. rewrite E. exact EC. Qed.

Lemma no_dead_empty : no_dead empty_node.
Proof. constructor. intros k c EC. discriminate. Qed.

Lemma no_dead_coe : forall n s, no_dead n -> no_dead (child_or_empty n s).
Proof.
  intros n s H. unfold child_or_empty. destruct (child n s) eqn:EC; [|apply no_dead_empty].
  inversion H; subst. apply (H0 s n0 EC).
Qed.

Lemma no_dead_set_child : forall n s c, no_dead n -> has_live c -> no_dead c -> no_dead (set_child n s c).
Proof.
  intros n s c H HL HC. constructor. intros k c2 EC. destruct (str_eq_dec s k) as [E|E].
  - subst k. rewrite child_set_child_same in EC. inversion EC; subst. auto.
  - rewrite child_set_child_other in EC by auto. inversion H; subst. apply (H0 k c2 EC).
Qed.

Lemma no_dead_delete_child : forall n s, no_dead n -> no_dead (delete_child n s).
Proof.
  intros n s H. constructor. intros k c2 EC. destruct (str_eq_dec s k) as [E|E].
  - subst k. rewrite child_delete_same in EC. discriminate.
  - rewrite child_delete_other in EC by auto. inversion H; subst. apply (H0 k c2 EC).
Qed.

Lemma no_dead_pop : forall n s c, no_dead n -> no_dead c -> no_dead (put_or_prune n s c).
Proof.
  intros n s c H HC. unfold put_or_prune.
  destruct (N.eqb (refs c) 0 && level_empty c) eqn:EP; [apply no_dead_delete_child; auto|].
  apply no_dead_set_child; auto.
  apply andb_false_iff in EP. destruct EP as [EP|EP].
  - apply N.eqb_neq in EP. exists []. rewrite refs_at_nil. lia.
  - unfold level_empty in EP. destruct c as [k p r]. cbn [kids] in EP. destruct k as [|[k2 c2] k']; [discriminate|].
    assert (EC : child (Node ((k2, c2) :: k') p r) k2 = Some c2).
    { unfold child. cbn [kids assoc]. rewrite str_eqb_refl. reflexivity. }
    inversion HC; subst. destruct (H0 k2 c2 EC) as [[pi Hpi] _].
    exists (k2 :: pi). destruct (child_path _ _ _ pi EC) as [H1 _]. rewrite H1. exact Hpi.
Qed.

Lemma no_dead_add : forall segs n p, segs <> [] -> no_dead n -> no_dead (fst (add_segs n segs p)).
Proof.
  induction segs as [|s rest IH]; intros n p Hne H; [contradiction|].
  pose proof (add_segs_spec (s :: rest) n p Hne) as (Hr & _ & _).
  cbn [add_segs] in *. fold (child_or_empty n s) in *. set (c := child_or_empty n s) in *.
  assert (HC : no_dead c) by (apply no_dead_coe; auto).
  destruct rest as [|s2 rest2].
  - cbn [fst]. apply no_dead_set_child; auto.
    + exists []. rewrite refs_at_nil. cbn [refs]. lia.
    + eapply no_dead_same_kids; [|exact HC]. reflexivity.
  - assert (Hne2 : s2 :: rest2 <> []) by discriminate.
    pose proof (IH c p Hne2 HC) as IH'.
    pose proof (add_segs_spec (s2 :: rest2) c p Hne2) as (Hr2 & _ & _).
    destruct (add_segs c (s2 :: rest2) p) as [c' fresh]. cbn [fst] in *.
    apply no_dead_set_child; auto.
    exists (s2 :: rest2). rewrite Hr2. destruct (strs_eq_dec (s2 :: rest2) (s2 :: rest2)); [lia|congruence].
Qed.

Lemma no_dead_remove : forall segs n, no_dead n -> no_dead (fst (remove_segs n segs)).
Proof.
  induction segs as [|s rest IH]; intros n H; [exact H|].
  cbn [remove_segs]. destruct (child n s) as [c|] eqn:EC; [|exact H].
  assert (HC : no_dead c) by (inversion H; subst; apply (H0 s c EC)).
  destruct rest as [|s2 rest2].
  - destruct (N.eqb (refs c) 0); [exact H|].
    destruct (N.ltb 0 (N.pred (refs c))) eqn:EL; cbn [fst].
    + apply N.ltb_lt in EL. apply no_dead_set_child; auto.
      * exists []. rewrite refs_at_nil. cbn [refs]. exact EL.
      * eapply no_dead_same_kids; [|exact HC]. reflexivity.
    + apply no_dead_pop; auto. eapply no_dead_same_kids; [|exact HC]. reflexivity.
  - pose proof (IH c HC) as IH'. destruct (remove_segs c (s2 :: rest2)) as [c' removed]. cbn [fst] in *.
    apply no_dead_pop; auto.
Qed.

Lemma no_dead_all_zero_empty : forall n, no_dead n -> (forall pi, refs_at n pi = 0%N) -> kids n = [].
Proof.
  intros n H HZ. destruct n as [k p r]. cbn [kids]. destruct k as [|[k2 c2] k']; [reflexivity|].
  assert (EC : child (Node ((k2, c2) :: k') p r) k2 = Some c2).
  { unfold child. cbn [kids assoc]. rewrite str_eqb_refl. reflexivity. }
  inversion H; subst. destruct (H0 k2 c2 EC) as [[pi Hpi] _].
  destruct (child_path _ _ _ pi EC) as [H1 _]. specialize (HZ (k2 :: pi)). rewrite H1 in HZ. lia.
Qed.

(* ------------------------------------------------------------------ size = number of distinct live patterns *)

Definition live_list (f : str -> N) (L : list str) : Prop :=
  NoDup L /\ (forall p, In p L <-> (0 < f p)%N).

Lemma filter_neq_id : forall (p : str) L, ~ In p L -> filter (fun q => negb (str_eqb q p)) L = L.
Proof.
  induction L as [|y L IHL]; intros HN; simpl; auto.
  assert (Ey : str_eqb y p = false) by (apply str_eqb_neq; intro; subst; apply HN; left; auto).
  rewrite Ey. simpl. f_equal. apply IHL. intro F. apply HN. right. exact F.
Qed.

Lemma filter_neq_length : forall (p : str) L, NoDup L -> In p L ->
  length (filter (fun q => negb (str_eqb q p)) L) = pred (length L).
Proof.
  induction L as [|x L IH]; intros ND HI; [contradiction|].
  inversion ND; subst. simpl. destruct (str_eqb x p) eqn:E; simpl.
  - apply str_eqb_eq in E. subst x. rewrite filter_neq_id by auto. reflexivity.
  - destruct HI as [HI|HI]; [subst; rewrite str_eqb_refl in E; discriminate|].
    rewrite IH by auto. destruct L; [contradiction|reflexivity].
Qed.

Lemma live_list_step_add : forall f L p, live_list f L ->
  exists L', live_list (step_rc (TAdd p) f) L'
             /\ length L' = if N.eqb (f p) 0 then S (length L) else length L.
Proof.
  intros f L p [ND HL]. destruct (N.eqb (f p) 0) eqn:E.
  - apply N.eqb_eq in E. exists (p :: L). split; [split|reflexivity].
    + constructor; auto. rewrite HL. lia.
    + intros q. cbn [step_rc]. simpl. destruct (str_eqb q p) eqn:Eq.
      * apply str_eqb_eq in Eq. subst q. split; [intros _; lia|auto].
      * apply str_eqb_neq in Eq. rewrite <- HL. split; [intros [F|F]; [congruence|auto]|auto].
  - apply N.eqb_neq in E. exists L. split; [split; auto|reflexivity].
    intros q. cbn [step_rc]. destruct (str_eqb q p) eqn:Eq; [|apply HL].
    apply str_eqb_eq in Eq. subst q. rewrite HL. lia.
Qed.

Lemma live_list_step_remove : forall f L p, live_list f L ->
  exists L', live_list (step_rc (TRemove p) f) L'
             /\ length L' = if N.eqb (f p) 1 then pred (length L) else length L.
Proof.
  intros f L p [ND HL]. destruct (N.eqb (f p) 1) eqn:E.
  - apply N.eqb_eq in E. exists (filter (fun q => negb (str_eqb q p)) L). split; [split|].
    + apply NoDup_filter. exact ND.
    + intros q. rewrite filter_In. cbn [step_rc]. destruct (str_eqb q p) eqn:Eq; simpl.
      * apply str_eqb_eq in Eq. subst q. rewrite E. simpl. split; [intros [_ F]; discriminate|lia].
      * rewrite HL. split; [intros [F _]; exact F|auto].
    + apply filter_neq_length; auto. apply HL. lia.
  - apply N.eqb_neq in E. exists L. split; [split; auto|reflexivity].
    intros q. cbn [step_rc]. destruct (str_eqb q p) eqn:Eq; [|apply HL].
    apply str_eqb_eq in Eq. subst q. rewrite HL. lia.
Qed.

(* ------------------------------------------------------------------ the whole-trie invariant *)

Definition trie_inv (t : trie) (f : str -> N) : Prop :=
  abs_inv (root t) f /\ no_dead (root t)
  /\ exists L, live_list f L /\ size t = N.of_nat (length L).

Lemma trie_inv_empty : trie_inv trie_empty (fun _ => 0%N).
Proof.
  split; [apply abs_inv_empty|]. split; [apply no_dead_empty|].
  exists []. split; [split; [constructor|]|reflexivity]. intros p. simpl. lia.
Qed.

Lemma trie_inv_step : forall t f o, trie_inv t f -> trie_inv (fst (trie_step t o)) (step_rc o f).
Proof.
  intros t f o (HA & HD & L & HL & HS). destruct o as [p|p|s| |]; cbn [trie_step step_rc]; try (split; [|split]; eauto; fail).
  - unfold trie_add. destruct (abs_inv_add (root t) f p HA) as [HA' HF].
    pose proof (no_dead_add (split_topic p) (root t) p (split_topic_nonempty p) HD) as HD'.
    destruct (add_segs (root t) (split_topic p) p) as [r fresh]. cbn [fst snd] in *.
    split; [exact HA'|]. split; [exact HD'|].
    destruct (live_list_step_add f L p HL) as (L' & HL' & Hlen). exists L'. split; [exact HL'|].
    cbn [size]. rewrite Hlen, HF. destruct (N.eqb (f p) 0); lia.
  - unfold trie_remove. destruct (abs_inv_remove (root t) f p HA) as [HA' HF].
    pose proof (no_dead_remove (split_topic p) (root t) HD) as HD'.
    destruct (remove_segs (root t) (split_topic p)) as [r removed]. cbn [fst snd] in *.
    split; [exact HA'|]. split; [exact HD'|].
    destruct (live_list_step_remove f L p HL) as (L' & HL' & Hlen). exists L'. split; [exact HL'|].
    cbn [size]. rewrite Hlen, HF. destruct (N.eqb (f p) 1); lia.
Qed.

Lemma trie_exec_cons : forall t o r, trie_exec t (o :: r) = trie_exec (fst (trie_step t o)) r.
Proof. reflexivity. Qed.

Lemma trie_inv_exec : forall ops t f, trie_inv t f -> trie_inv (trie_exec t ops) (rc_of ops f).
Proof.
  induction ops as [|o r IH]; intros t f H.
  - exact H.
  - rewrite trie_exec_cons.
    pose proof (IH _ _ (trie_inv_step t f o H)) as H'.
    destruct H' as (HA & HD & L & HL & HS).
    assert (Ext : forall p, rc_of r (step_rc o f) p = rc_of (o :: r) f p) by (intros; symmetry; apply rc_of_cons).
    split; [|split].
    + destruct HA as [I1 I2]. split; auto. intros p. rewrite I1. apply Ext.
    + exact HD.
    + exists L. split; auto. destruct HL as [ND HL]. split; auto. intros p. rewrite HL, Ext. reflexivity.
Qed.

(* ------------------------------------------------------------------ main theorems *)

Theorem trie_match_exact : forall ops topic,
  let t := trie_exec trie_empty ops in
  NoDup (trie_match t topic)
  /\ forall p, In p (trie_match t topic) <->
       ((0 < refcount ops 0 p)%N /\ matches (split_topic p) (split_topic topic) = true).
Proof.
  intros ops topic t.
  destruct (trie_inv_exec ops trie_empty _ trie_inv_empty) as (HA & _ & _). fold t in HA.
  split.
  - unfold trie_match. apply match_level_nodup. eapply abs_inv_inj; eauto.
  - intros p. unfold trie_match. rewrite match_level_spec. destruct HA as [I1 I2]. unfold rc_of in I1. split.
    + intros (pi & Hne & Hl & Hp & Hm). pose proof (I2 pi Hl) as E. rewrite Hp in E. subst pi.
      rewrite I1 in Hl. auto.
    + intros [Hl Hm]. exists (split_topic p). split; [apply split_topic_nonempty|].
      rewrite <- I1 in Hl. repeat split; auto.
      apply split_topic_inj. apply I2. exact Hl.
Qed.

Theorem trie_prunes : forall ops,
  (forall p, refcount ops 0 p = 0%N) ->
  root (trie_exec trie_empty ops) = Node [] [] 0 /\ trie_len (trie_exec trie_empty ops) = 0%N.
Proof.
  intros ops HZ.
  destruct (trie_inv_exec ops trie_empty _ trie_inv_empty) as ([I1 I2] & HD & L & [ND HL] & HS).
  set (t := trie_exec trie_empty ops) in *. unfold rc_of in *.
  assert (Hz : forall pi, refs_at (root t) pi = 0%N).
  { intros pi. destruct (N.eq_dec (refs_at (root t) pi) 0) as [E|E]; auto.
    assert (Hl : (0 < refs_at (root t) pi)%N) by lia. pose proof (I2 pi Hl) as E2.
    rewrite <- E2 in Hl. rewrite I1, HZ in Hl. lia. }
  split.
  - pose proof (no_dead_all_zero_empty _ HD Hz) as HK.
    assert (root_shape : forall ops', pat (root (trie_exec trie_empty ops')) = [] /\ refs (root (trie_exec trie_empty ops')) = 0%N).
    { intros ops'. change (pat_at (root (trie_exec trie_empty ops')) [] = [] /\ refs_at (root (trie_exec trie_empty ops')) [] = 0%N).
      assert (G : forall l t0, pat_at (root t0) [] = [] /\ refs_at (root t0) [] = 0%N ->
                    pat_at (root (trie_exec t0 l)) [] = [] /\ refs_at (root (trie_exec t0 l)) [] = 0%N).
      { induction l as [|o l IHl]; intros t0 H0; [exact H0|]. rewrite trie_exec_cons. apply IHl.
        destruct o as [p|p|s| |]; cbn [trie_step fst]; auto.
        - unfold trie_add. destruct (add_segs_spec (split_topic p) (root t0) p (split_topic_nonempty p)) as (Hr & Hp & _).
          destruct (add_segs (root t0) (split_topic p) p) as [r fr]. cbn [fst root] in *.
          rewrite Hr, Hp. destruct (strs_eq_dec [] (split_topic p)) as [E|E]; [symmetry in E; apply split_topic_nonempty in E; contradiction|exact H0].
        - unfold trie_remove. destruct (remove_segs_spec (split_topic p) (root t0) (split_topic_nonempty p)) as (Hr & _ & _).
          destruct (remove_segs (root t0) (split_topic p)) as [r rm] eqn:ER. cbn [fst root] in *.
          split; [|rewrite Hr; destruct (strs_eq_dec [] (split_topic p)) as [E|E]; [symmetry in E; apply split_topic_nonempty in E; contradiction|apply H0]].
          (* the root's own pattern field is never written *)
          clear Hr. destruct (split_topic p) as [|s rest]; cbn [remove_segs] in ER; [inversion ER; subst; apply H0|].
          destruct (child (root t0) s) as [c|]; [|inversion ER; subst; apply H0].
          destruct rest.
          + destruct (N.eqb (refs c) 0); [inversion ER; subst; apply H0|].
            destruct (N.ltb 0 (N.pred (refs c))); inversion ER; subst; [apply H0|rewrite pat_at_pop_nil; apply H0].
          + destruct (remove_segs c (s0 :: rest)). inversion ER; subst. rewrite pat_at_pop_nil. apply H0. }
      apply G. split; reflexivity. }
    destruct (root_shape ops) as [RP RR]. fold t in RP, RR.
    destruct (root t) as [k p r]. cbn [kids pat refs] in *. subst. reflexivity.
  - unfold trie_len. rewrite HS. destruct L as [|x L]; [reflexivity|].
    assert (F : (0 < refcount ops 0 x)%N) by (apply HL; left; reflexivity). rewrite HZ in F. lia.
Qed.

Theorem trie_len_counts : forall ops,
  exists L, NoDup L /\ (forall p, In p L <-> (0 < refcount ops 0 p)%N)
            /\ trie_len (trie_exec trie_empty ops) = N.of_nat (length L).
Proof.
  intros ops. destruct (trie_inv_exec ops trie_empty _ trie_inv_empty) as (_ & _ & L & [ND HL] & HS).
  exists L. auto.
Qed.
