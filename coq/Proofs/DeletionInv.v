(* C15: the invariant of the deletion model and its preservation by every operation. *)
From Coq Require Import List NArith Bool Lia.
Import ListNotations.
From AnySync Require Import Model.Deletion Proofs.DeletionBase.
Open Scope N_scope.

(* ------------------------------------------------------------------ field/view rewriting *)
Lemma fv_1 : forall (j : N) (s : state), forall v : list entry, has_chg j (with_ents v s) = has_chg j s.
Proof. reflexivity. Qed.
#[export] Hint Rewrite fv_1 : flds.
Lemma fv_2 : forall (j : N) (s : state), forall v : list entry, mem j (with_ents v s) = mem j s.
Proof. reflexivity. Qed.
#[export] Hint Rewrite fv_2 : flds.
Lemma fv_3 : forall (j : N) (s : state), forall v : list (N * list N), status j (with_chg v s) = status j s.
Proof. reflexivity. Qed.
#[export] Hint Rewrite fv_3 : flds.
Lemma fv_4 : forall (j : N) (s : state), forall v : list (N * list N), has_entry j (with_chg v s) = has_entry j s.
Proof. reflexivity. Qed.
#[export] Hint Rewrite fv_4 : flds.
Lemma fv_5 : forall (j : N) (s : state), forall v : list (N * list N), get j (with_chg v s) = get j s.
Proof. reflexivity. Qed.
#[export] Hint Rewrite fv_5 : flds.
Lemma fv_6 : forall (j : N) (s : state), forall v : list (N * list N), mem j (with_chg v s) = mem j s.
Proof. reflexivity. Qed.
#[export] Hint Rewrite fv_6 : flds.
Lemma fv_7 : forall (j : N) (s : state), forall v : list N, status j (with_idx v s) = status j s.
Proof. reflexivity. Qed.
#[export] Hint Rewrite fv_7 : flds.
Lemma fv_8 : forall (j : N) (s : state), forall v : list N, has_entry j (with_idx v s) = has_entry j s.
Proof. reflexivity. Qed.
#[export] Hint Rewrite fv_8 : flds.
Lemma fv_9 : forall (j : N) (s : state), forall v : list N, get j (with_idx v s) = get j s.
Proof. reflexivity. Qed.
#[export] Hint Rewrite fv_9 : flds.
Lemma fv_10 : forall (j : N) (s : state), forall v : list N, has_chg j (with_idx v s) = has_chg j s.
Proof. reflexivity. Qed.
#[export] Hint Rewrite fv_10 : flds.
Lemma fv_11 : forall (j : N) (s : state), forall v : list N, mem j (with_idx v s) = mem j s.
Proof. reflexivity. Qed.
#[export] Hint Rewrite fv_11 : flds.
Lemma fv_12 : forall (j : N) (s : state), forall v : list N, status j (with_mq v s) = status j s.
Proof. reflexivity. Qed.
#[export] Hint Rewrite fv_12 : flds.
Lemma fv_13 : forall (j : N) (s : state), forall v : list N, has_entry j (with_mq v s) = has_entry j s.
Proof. reflexivity. Qed.
#[export] Hint Rewrite fv_13 : flds.
Lemma fv_14 : forall (j : N) (s : state), forall v : list N, get j (with_mq v s) = get j s.
Proof. reflexivity. Qed.
#[export] Hint Rewrite fv_14 : flds.
Lemma fv_15 : forall (j : N) (s : state), forall v : list N, has_chg j (with_mq v s) = has_chg j s.
Proof. reflexivity. Qed.
#[export] Hint Rewrite fv_15 : flds.
Lemma fv_16 : forall (j : N) (s : state), forall v : list N, status j (with_md v s) = status j s.
Proof. reflexivity. Qed.
#[export] Hint Rewrite fv_16 : flds.
Lemma fv_17 : forall (j : N) (s : state), forall v : list N, has_entry j (with_md v s) = has_entry j s.
Proof. reflexivity. Qed.
#[export] Hint Rewrite fv_17 : flds.
Lemma fv_18 : forall (j : N) (s : state), forall v : list N, get j (with_md v s) = get j s.
Proof. reflexivity. Qed.
#[export] Hint Rewrite fv_18 : flds.
Lemma fv_19 : forall (j : N) (s : state), forall v : list N, has_chg j (with_md v s) = has_chg j s.
Proof. reflexivity. Qed.
#[export] Hint Rewrite fv_19 : flds.
Lemma fv_20 : forall (j : N) (s : state), forall v : list entry, status j (with_hist v s) = status j s.
Proof. reflexivity. Qed.
#[export] Hint Rewrite fv_20 : flds.
Lemma fv_21 : forall (j : N) (s : state), forall v : list entry, has_entry j (with_hist v s) = has_entry j s.
Proof. reflexivity. Qed.
#[export] Hint Rewrite fv_21 : flds.
Lemma fv_22 : forall (j : N) (s : state), forall v : list entry, get j (with_hist v s) = get j s.
Proof. reflexivity. Qed.
#[export] Hint Rewrite fv_22 : flds.
Lemma fv_23 : forall (j : N) (s : state), forall v : list entry, has_chg j (with_hist v s) = has_chg j s.
Proof. reflexivity. Qed.
#[export] Hint Rewrite fv_23 : flds.
Lemma fv_24 : forall (j : N) (s : state), forall v : list entry, mem j (with_hist v s) = mem j s.
Proof. reflexivity. Qed.
#[export] Hint Rewrite fv_24 : flds.
Lemma fv_25 : forall (j : N) (s : state), forall v : list (list N), status j (with_slog v s) = status j s.
Proof. reflexivity. Qed.
#[export] Hint Rewrite fv_25 : flds.
Lemma fv_26 : forall (j : N) (s : state), forall v : list (list N), has_entry j (with_slog v s) = has_entry j s.
Proof. reflexivity. Qed.
#[export] Hint Rewrite fv_26 : flds.
Lemma fv_27 : forall (j : N) (s : state), forall v : list (list N), get j (with_slog v s) = get j s.
Proof. reflexivity. Qed.
#[export] Hint Rewrite fv_27 : flds.
Lemma fv_28 : forall (j : N) (s : state), forall v : list (list N), has_chg j (with_slog v s) = has_chg j s.
Proof. reflexivity. Qed.
#[export] Hint Rewrite fv_28 : flds.
Lemma fv_29 : forall (j : N) (s : state), forall v : list (list N), mem j (with_slog v s) = mem j s.
Proof. reflexivity. Qed.
#[export] Hint Rewrite fv_29 : flds.
Lemma fv_30 : forall (j : N) (s : state), forall v : list N, status j (with_sset v s) = status j s.
Proof. reflexivity. Qed.
#[export] Hint Rewrite fv_30 : flds.
Lemma fv_31 : forall (j : N) (s : state), forall v : list N, has_entry j (with_sset v s) = has_entry j s.
Proof. reflexivity. Qed.
#[export] Hint Rewrite fv_31 : flds.
Lemma fv_32 : forall (j : N) (s : state), forall v : list N, get j (with_sset v s) = get j s.
Proof. reflexivity. Qed.
#[export] Hint Rewrite fv_32 : flds.
Lemma fv_33 : forall (j : N) (s : state), forall v : list N, has_chg j (with_sset v s) = has_chg j s.
Proof. reflexivity. Qed.
#[export] Hint Rewrite fv_33 : flds.
Lemma fv_34 : forall (j : N) (s : state), forall v : list N, mem j (with_sset v s) = mem j s.
Proof. reflexivity. Qed.
#[export] Hint Rewrite fv_34 : flds.
Lemma fv_35 : forall (s : state), forall v : list entry, ents (with_ents v s) = v.
Proof. reflexivity. Qed.
#[export] Hint Rewrite fv_35 : flds.
Lemma fv_36 : forall (s : state), forall v : list entry, chg (with_ents v s) = chg s.
Proof. reflexivity. Qed.
#[export] Hint Rewrite fv_36 : flds.
Lemma fv_37 : forall (s : state), forall v : list entry, idx (with_ents v s) = idx s.
Proof. reflexivity. Qed.
#[export] Hint Rewrite fv_37 : flds.
Lemma fv_38 : forall (s : state), forall v : list entry, mq (with_ents v s) = mq s.
Proof. reflexivity. Qed.
#[export] Hint Rewrite fv_38 : flds.
Lemma fv_39 : forall (s : state), forall v : list entry, md (with_ents v s) = md s.
Proof. reflexivity. Qed.
#[export] Hint Rewrite fv_39 : flds.
Lemma fv_40 : forall (s : state), forall v : list entry, hist (with_ents v s) = hist s.
Proof. reflexivity. Qed.
#[export] Hint Rewrite fv_40 : flds.
Lemma fv_41 : forall (s : state), forall v : list entry, slog (with_ents v s) = slog s.
Proof. reflexivity. Qed.
#[export] Hint Rewrite fv_41 : flds.
Lemma fv_42 : forall (s : state), forall v : list entry, sset (with_ents v s) = sset s.
Proof. reflexivity. Qed.
#[export] Hint Rewrite fv_42 : flds.
Lemma fv_43 : forall (s : state), forall v : list (N * list N), ents (with_chg v s) = ents s.
Proof. reflexivity. Qed.
#[export] Hint Rewrite fv_43 : flds.
Lemma fv_44 : forall (s : state), forall v : list (N * list N), chg (with_chg v s) = v.
Proof. reflexivity. Qed.
#[export] Hint Rewrite fv_44 : flds.
Lemma fv_45 : forall (s : state), forall v : list (N * list N), idx (with_chg v s) = idx s.
Proof. reflexivity. Qed.
#[export] Hint Rewrite fv_45 : flds.
Lemma fv_46 : forall (s : state), forall v : list (N * list N), mq (with_chg v s) = mq s.
Proof. reflexivity. Qed.
#[export] Hint Rewrite fv_46 : flds.
Lemma fv_47 : forall (s : state), forall v : list (N * list N), md (with_chg v s) = md s.
Proof. reflexivity. Qed.
#[export] Hint Rewrite fv_47 : flds.
Lemma fv_48 : forall (s : state), forall v : list (N * list N), hist (with_chg v s) = hist s.
Proof. reflexivity. Qed.
#[export] Hint Rewrite fv_48 : flds.
Lemma fv_49 : forall (s : state), forall v : list (N * list N), slog (with_chg v s) = slog s.
Proof. reflexivity. Qed.
#[export] Hint Rewrite fv_49 : flds.
Lemma fv_50 : forall (s : state), forall v : list (N * list N), sset (with_chg v s) = sset s.
Proof. reflexivity. Qed.
#[export] Hint Rewrite fv_50 : flds.
Lemma fv_51 : forall (s : state), forall v : list N, ents (with_idx v s) = ents s.
Proof. reflexivity. Qed.
#[export] Hint Rewrite fv_51 : flds.
Lemma fv_52 : forall (s : state), forall v : list N, chg (with_idx v s) = chg s.
Proof. reflexivity. Qed.
#[export] Hint Rewrite fv_52 : flds.
Lemma fv_53 : forall (s : state), forall v : list N, idx (with_idx v s) = v.
Proof. reflexivity. Qed.
#[export] Hint Rewrite fv_53 : flds.
Lemma fv_54 : forall (s : state), forall v : list N, mq (with_idx v s) = mq s.
Proof. reflexivity. Qed.
#[export] Hint Rewrite fv_54 : flds.
Lemma fv_55 : forall (s : state), forall v : list N, md (with_idx v s) = md s.
Proof. reflexivity. Qed.
#[export] Hint Rewrite fv_55 : flds.
Lemma fv_56 : forall (s : state), forall v : list N, hist (with_idx v s) = hist s.
Proof. reflexivity. Qed.
#[export] Hint Rewrite fv_56 : flds.
Lemma fv_57 : forall (s : state), forall v : list N, slog (with_idx v s) = slog s.
Proof. reflexivity. Qed.
#[export] Hint Rewrite fv_57 : flds.
Lemma fv_58 : forall (s : state), forall v : list N, sset (with_idx v s) = sset s.
Proof. reflexivity. Qed.
#[export] Hint Rewrite fv_58 : flds.
Lemma fv_59 : forall (s : state), forall v : list N, ents (with_mq v s) = ents s.
Proof. reflexivity. Qed.
#[export] Hint Rewrite fv_59 : flds.
Lemma fv_60 : forall (s : state), forall v : list N, chg (with_mq v s) = chg s.
Proof. reflexivity. Qed.
#[export] Hint Rewrite fv_60 : flds.
Lemma fv_61 : forall (s : state), forall v : list N, idx (with_mq v s) = idx s.
Proof. reflexivity. Qed.
#[export] Hint Rewrite fv_61 : flds.
Lemma fv_62 : forall (s : state), forall v : list N, mq (with_mq v s) = v.
Proof. reflexivity. Qed.
#[export] Hint Rewrite fv_62 : flds.
Lemma fv_63 : forall (s : state), forall v : list N, md (with_mq v s) = md s.
Proof. reflexivity. Qed.
#[export] Hint Rewrite fv_63 : flds.
Lemma fv_64 : forall (s : state), forall v : list N, hist (with_mq v s) = hist s.
Proof. reflexivity. Qed.
#[export] Hint Rewrite fv_64 : flds.
Lemma fv_65 : forall (s : state), forall v : list N, slog (with_mq v s) = slog s.
Proof. reflexivity. Qed.
#[export] Hint Rewrite fv_65 : flds.
Lemma fv_66 : forall (s : state), forall v : list N, sset (with_mq v s) = sset s.
Proof. reflexivity. Qed.
#[export] Hint Rewrite fv_66 : flds.
Lemma fv_67 : forall (s : state), forall v : list N, ents (with_md v s) = ents s.
Proof. reflexivity. Qed.
#[export] Hint Rewrite fv_67 : flds.
Lemma fv_68 : forall (s : state), forall v : list N, chg (with_md v s) = chg s.
Proof. reflexivity. Qed.
#[export] Hint Rewrite fv_68 : flds.
Lemma fv_69 : forall (s : state), forall v : list N, idx (with_md v s) = idx s.
Proof. reflexivity. Qed.
#[export] Hint Rewrite fv_69 : flds.
Lemma fv_70 : forall (s : state), forall v : list N, mq (with_md v s) = mq s.
Proof. reflexivity. Qed.
#[export] Hint Rewrite fv_70 : flds.
Lemma fv_71 : forall (s : state), forall v : list N, md (with_md v s) = v.
Proof. reflexivity. Qed.
#[export] Hint Rewrite fv_71 : flds.
Lemma fv_72 : forall (s : state), forall v : list N, hist (with_md v s) = hist s.
Proof. reflexivity. Qed.
#[export] Hint Rewrite fv_72 : flds.
Lemma fv_73 : forall (s : state), forall v : list N, slog (with_md v s) = slog s.
Proof. reflexivity. Qed.
#[export] Hint Rewrite fv_73 : flds.
Lemma fv_74 : forall (s : state), forall v : list N, sset (with_md v s) = sset s.
Proof. reflexivity. Qed.
#[export] Hint Rewrite fv_74 : flds.
Lemma fv_75 : forall (s : state), forall v : list entry, ents (with_hist v s) = ents s.
Proof. reflexivity. Qed.
#[export] Hint Rewrite fv_75 : flds.
Lemma fv_76 : forall (s : state), forall v : list entry, chg (with_hist v s) = chg s.
Proof. reflexivity. Qed.
#[export] Hint Rewrite fv_76 : flds.
Lemma fv_77 : forall (s : state), forall v : list entry, idx (with_hist v s) = idx s.
Proof. reflexivity. Qed.
#[export] Hint Rewrite fv_77 : flds.
Lemma fv_78 : forall (s : state), forall v : list entry, mq (with_hist v s) = mq s.
Proof. reflexivity. Qed.
#[export] Hint Rewrite fv_78 : flds.
Lemma fv_79 : forall (s : state), forall v : list entry, md (with_hist v s) = md s.
Proof. reflexivity. Qed.
#[export] Hint Rewrite fv_79 : flds.
Lemma fv_80 : forall (s : state), forall v : list entry, hist (with_hist v s) = v.
Proof. reflexivity. Qed.
#[export] Hint Rewrite fv_80 : flds.
Lemma fv_81 : forall (s : state), forall v : list entry, slog (with_hist v s) = slog s.
Proof. reflexivity. Qed.
#[export] Hint Rewrite fv_81 : flds.
Lemma fv_82 : forall (s : state), forall v : list entry, sset (with_hist v s) = sset s.
Proof. reflexivity. Qed.
#[export] Hint Rewrite fv_82 : flds.
Lemma fv_83 : forall (s : state), forall v : list (list N), ents (with_slog v s) = ents s.
Proof. reflexivity. Qed.
#[export] Hint Rewrite fv_83 : flds.
Lemma fv_84 : forall (s : state), forall v : list (list N), chg (with_slog v s) = chg s.
Proof. reflexivity. Qed.
#[export] Hint Rewrite fv_84 : flds.
Lemma fv_85 : forall (s : state), forall v : list (list N), idx (with_slog v s) = idx s.
Proof. reflexivity. Qed.
#[export] Hint Rewrite fv_85 : flds.
Lemma fv_86 : forall (s : state), forall v : list (list N), mq (with_slog v s) = mq s.
Proof. reflexivity. Qed.
#[export] Hint Rewrite fv_86 : flds.
Lemma fv_87 : forall (s : state), forall v : list (list N), md (with_slog v s) = md s.
Proof. reflexivity. Qed.
#[export] Hint Rewrite fv_87 : flds.
Lemma fv_88 : forall (s : state), forall v : list (list N), hist (with_slog v s) = hist s.
Proof. reflexivity. Qed.
#[export] Hint Rewrite fv_88 : flds.
Lemma fv_89 : forall (s : state), forall v : list (list N), slog (with_slog v s) = v.
Proof. reflexivity. Qed.
#[export] Hint Rewrite fv_89 : flds.
Lemma fv_90 : forall (s : state), forall v : list (list N), sset (with_slog v s) = sset s.
Proof. reflexivity. Qed.
#[export] Hint Rewrite fv_90 : flds.
Lemma fv_91 : forall (s : state), forall v : list N, ents (with_sset v s) = ents s.
Proof. reflexivity. Qed.
#[export] Hint Rewrite fv_91 : flds.
Lemma fv_92 : forall (s : state), forall v : list N, chg (with_sset v s) = chg s.
Proof. reflexivity. Qed.
#[export] Hint Rewrite fv_92 : flds.
Lemma fv_93 : forall (s : state), forall v : list N, idx (with_sset v s) = idx s.
Proof. reflexivity. Qed.
#[export] Hint Rewrite fv_93 : flds.
Lemma fv_94 : forall (s : state), forall v : list N, mq (with_sset v s) = mq s.
Proof. reflexivity. Qed.
#[export] Hint Rewrite fv_94 : flds.
Lemma fv_95 : forall (s : state), forall v : list N, md (with_sset v s) = md s.
Proof. reflexivity. Qed.
#[export] Hint Rewrite fv_95 : flds.
Lemma fv_96 : forall (s : state), forall v : list N, hist (with_sset v s) = hist s.
Proof. reflexivity. Qed.
#[export] Hint Rewrite fv_96 : flds.
Lemma fv_97 : forall (s : state), forall v : list N, slog (with_sset v s) = slog s.
Proof. reflexivity. Qed.
#[export] Hint Rewrite fv_97 : flds.
Lemma fv_98 : forall (s : state), forall v : list N, sset (with_sset v s) = v.
Proof. reflexivity. Qed.
#[export] Hint Rewrite fv_98 : flds.

(* ------------------------------------------------------------------ the invariant *)
Record Inv (s : state) : Prop := mkInv {
  i_nodup : NoDup (map e_id (ents s));
  i_st : forall i, status i s <= 2;
  (* fully deleted ids are exactly the ids the deletion state holds as deleted *)
  i_md : forall i, memb i (md s) = true <-> status i s = 2;
  i_mq : forall i, memb i (mq s) = true -> status i s = 1;
  (* the advertised index contains no tombstoned id *)
  i_idx : forall i, memb i (idx s) = true -> status i s = 0;
  (* every notification that could be re-delivered late is harmless: it belongs to an existing entry, and if
     it would add its id to the index while the id is tombstoned, the deletion state knows the id *)
  i_hist : forall e, In e (hist s) -> has_entry (e_id e) s = true /\
           (e_status e = 0 -> e_heads e <> [e_id e] -> status (e_id e) s <> 0 -> mem (e_id e) s = true);
  (* an untombstoned entry has its tree stored; stored changes belong to an entry that is not fully deleted *)
  i_live : forall i, has_entry i s = true -> status i s = 0 -> has_chg i s = true;
  i_chg : forall i, has_chg i s = true -> has_entry i s = true /\ status i s <> 2
}.

Lemma inv_init : Inv init.
Proof.
  constructor; cbn; intros; try discriminate; try contradiction; try constructor; try lia; try (split; discriminate).
Qed.

Lemma mem_false : forall i s, mem i s = false -> memb i (mq s) = false /\ memb i (md s) = false.
Proof. intros i s. unfold mem. now rewrite orb_false_iff. Qed.

(* ------------------------------------------------------------------ A1: deletionstate.Add, one id *)
Lemma st_add_one_inv : forall s i, Inv s -> Inv (st_add_one s i).
Proof.
  intros s i HI. unfold st_add_one. destruct (mem i s) eqn:M; [exact HI|].
  assert (Hid : e_id (set_status 1 (get i s)) = i) by apply get_id.
  destruct (mem_false _ _ M) as [Mq Md].
  assert (Hn2 : status i s <> 2).
  { intros C. apply (i_md s HI) in C. congruence. }
  pose proof (i_st s HI i) as Hle.
  set (s1 := upd i (set_status 1) s).
  assert (Hst : forall j, status j s1 = if j =? i then 1 else status j s)
    by (intros j; unfold s1; now rewrite (upd_status i _ s Hid j)).
  assert (Hmod : status i s = 0 -> set_status 1 (get i s) <> get i s).
  { intros E C. unfold status in E. rewrite <- C in E. discriminate. }
  constructor.
  - autorewrite with flds. apply (upd_nodup i _ s), (i_nodup s HI).
  - intros j. autorewrite with flds. rewrite Hst. destruct (j =? i); [lia | apply HI].
  - intros j. autorewrite with flds. unfold s1. rewrite (upd_md i _ s). fold s1. rewrite Hst.
    destruct (N.eqb_spec j i) as [Ej|Hne]; [subst j|apply HI]. rewrite Md. split; discriminate.
  - intros j Hj. autorewrite with flds in *. unfold s1 in Hj. rewrite (upd_mq i _ s), memb_sadd, orb_true_iff in Hj. rewrite Hst.
    destruct (N.eqb_spec j i) as [Ej|Hne]; [reflexivity|]. destruct Hj as [Hj|Hj]; [discriminate | now apply HI].
  - intros j Hj. autorewrite with flds in *. rewrite Hst. unfold s1 in Hj. destruct (N.eqb_spec j i) as [Ej|Hne]; [subst j|].
    + exfalso. assert (H0 := Hj). apply (upd_idx_in i _ s Hid) in H0. destruct H0 as [H0|[_ [H0 _]]]; [|discriminate].
      apply (i_idx s HI) in H0. rewrite (upd_idx_out i _ s Hid) in Hj; [discriminate | discriminate | now apply Hmod].
    + apply (upd_idx_in i _ s Hid) in Hj. destruct Hj as [Hj|[Hj _]]; [now apply HI | contradiction].
  - intros e He. autorewrite with flds in *. unfold s1 in He. apply (upd_hist_in i _ s) in He. destruct He as [He|[-> Hm]].
    + destruct (i_hist s HI e He) as [H1 H2]. split.
      * apply (upd_has_entry i _ s Hid). now left.
      * intros E1 E2. rewrite Hst. unfold mem. cbn [mq md with_mq].
        unfold s1. rewrite (upd_mq i _ s), (upd_md i _ s), memb_sadd.
        destruct (N.eqb_spec (e_id e) i) as [Ei|Ei]; [reflexivity|]. intros E3. cbn [orb]. now apply H2.
    + split; [|discriminate]. rewrite Hid. apply (upd_has_entry i _ s Hid). now right.
  - intros j Hj H0. autorewrite with flds in *. unfold s1. rewrite (upd_has_chg i _ s). rewrite Hst in H0.
    destruct (N.eqb_spec j i) as [Ej|Hne]; [discriminate|].
    unfold s1 in Hj. apply (upd_has_entry i _ s Hid) in Hj. destruct Hj as [Hj|[Hj _]]; [now apply HI | contradiction].
  - intros j Hj. autorewrite with flds in *. unfold s1 in Hj. rewrite (upd_has_chg i _ s) in Hj. destruct (i_chg s HI _ Hj) as [H1 H2]. split.
    + apply (upd_has_entry i _ s Hid). now left.
    + rewrite Hst. destruct (j =? i); [discriminate | exact H2].
Qed.

(* ------------------------------------------------------------------ what every operation guarantees (monotonicity) *)
Definition Ext (s s' : state) : Prop :=
  (forall j, status j s <= status j s') /\
  (forall j, has_entry j s = true -> has_entry j s' = true) /\
  (forall j, has_chg j s' = true -> has_chg j s = true \/ has_entry j s = false \/ status j s = 0).

Lemma ext_refl : forall s, Ext s s.
Proof. intros s. repeat split; intros; auto; lia. Qed.

Lemma ext_trans : forall a b c, Ext a b -> Ext b c -> Ext a c.
Proof.
  intros a b c [A1 [A2 A3]] [B1 [B2 B3]]. repeat split.
  - intros j. specialize (A1 j). specialize (B1 j). lia.
  - intros j H. auto.
  - intros j H. destruct (B3 j H) as [H1|[H1|H1]]; [auto | |].
    + right. left. destruct (has_entry j a) eqn:E; [|reflexivity]. apply A2 in E. congruence.
    + right. right. specialize (A1 j). lia.
Qed.

Lemma st_add_one_ext : forall s i, Inv s -> Ext s (st_add_one s i).
Proof.
  intros s i HI. unfold st_add_one. destruct (mem i s) eqn:M; [apply ext_refl|].
  assert (Hid : e_id (set_status 1 (get i s)) = i) by apply get_id.
  destruct (mem_false _ _ M) as [Mq Md].
  assert (Hn2 : status i s <> 2) by (intros C; apply (i_md s HI) in C; congruence).
  pose proof (i_st s HI i) as Hle.
  repeat split.
  - intros j. autorewrite with flds. rewrite (upd_status i _ s Hid j).
    destruct (N.eqb_spec j i) as [Ej|Hne]; [subst j; cbn [e_status set_status]; lia | lia].
  - intros j Hj. autorewrite with flds. apply (upd_has_entry i _ s Hid). now left.
  - intros j Hj. autorewrite with flds in Hj. rewrite (upd_has_chg i _ s) in Hj. now left.
Qed.

(* ------------------------------------------------------------------ A2: tree deleted + deletionstate.Delete *)
Definition drop_tree (i : N) (s : state) : state :=
  st_delete i (if has_storage i s then with_chg (del_c i (chg s)) s else s).

Lemma delete_one_some : forall fail i s s', delete_one fail i s = Some s' -> s' = drop_tree i s.
Proof. intros fail i s s'. unfold delete_one, drop_tree. destruct (memb i fail); [discriminate|]. now intros [= <-]. Qed.

Lemma drop_tree_step : forall s i, Inv s -> Inv (drop_tree i s) /\ Ext s (drop_tree i s).
Proof.
  intros s i HI. unfold drop_tree.
  set (s0 := if has_storage i s then with_chg (del_c i (chg s)) s else s).
  assert (Hc0 : forall j, has_chg j s0 = if j =? i then false else has_chg j s).
  { intros j. unfold s0. destruct (has_storage i s) eqn:Hs.
    - unfold has_chg. cbn [chg with_chg]. rewrite find_del_c, N.eqb_sym. now destruct (j =? i).
    - destruct (N.eqb_spec j i) as [Ej|Hne]; [subst j|reflexivity].
      destruct (has_chg i s) eqn:Hc; [|reflexivity]. destruct (i_chg s HI i Hc) as [He _].
      unfold has_storage in Hs. rewrite He, Hc in Hs. discriminate. }
  assert (He0 : ents s0 = ents s) by (unfold s0; now destruct (has_storage i s)).
  assert (Hq0 : mq s0 = mq s) by (unfold s0; now destruct (has_storage i s)).
  assert (Hd0 : md s0 = md s) by (unfold s0; now destruct (has_storage i s)).
  assert (Hi0 : idx s0 = idx s) by (unfold s0; now destruct (has_storage i s)).
  assert (Hh0 : hist s0 = hist s) by (unfold s0; now destruct (has_storage i s)).
  unfold st_delete.
  set (s1 := with_md (sadd i (md s0)) (with_mq (srem i (mq s0)) s0)).
  assert (Hg1 : forall j, get j s1 = get j s) by (intros j; unfold get; cbn [ents s1 with_md with_mq]; now rewrite He0).
  assert (Hid : e_id (set_status 2 (get i s1)) = i) by (rewrite Hg1; apply get_id).
  set (s' := upd i (set_status 2) s1).
  assert (Hst : forall j, status j s' = if j =? i then 2 else status j s).
  { intros j. unfold s'. rewrite (upd_status i _ s1 Hid j). unfold status. rewrite !Hg1. now destruct (j =? i). }
  assert (Hhe : forall j, has_entry j s = true -> has_entry j s' = true).
  { intros j Hj. apply (upd_has_entry i _ s1 Hid). left. unfold has_entry in *. cbn [ents s1 with_md with_mq]. now rewrite He0. }
  assert (Hhe' : forall j, j <> i -> has_entry j s' = true -> has_entry j s = true).
  { intros j Hne Hj. apply (upd_has_entry i _ s1 Hid) in Hj. destruct Hj as [Hj|[Hj _]]; [|contradiction].
    unfold has_entry in *. cbn [ents s1 with_md with_mq] in Hj. now rewrite He0 in Hj. }
  assert (Hmq : mq s' = srem i (mq s)) by (unfold s'; rewrite (upd_mq i _ s1); cbn [mq s1 with_md with_mq]; now rewrite Hq0).
  assert (Hmd : md s' = sadd i (md s)) by (unfold s'; rewrite (upd_md i _ s1); cbn [md s1 with_md with_mq]; now rewrite Hd0).
  assert (Hch : forall j, has_chg j s' = if j =? i then false else has_chg j s).
  { intros j. unfold s'. rewrite (upd_has_chg i _ s1). rewrite <- Hc0. reflexivity. }
  assert (Hix : forall j, memb j (idx s') = true -> memb j (idx s) = true /\ j <> i).
  { intros j Hj. assert (H0 := Hj). unfold s' in H0. apply (upd_idx_in i _ s1 Hid) in H0.
    destruct H0 as [H0|[_ [H0 _]]]; [|discriminate]. cbn [idx s1 with_md with_mq] in H0. rewrite Hi0 in H0.
    split; [exact H0|]. intros Ej. subst j. pose proof (i_idx s HI i H0) as Hz.
    unfold s' in Hj. rewrite (upd_idx_out i _ s1 Hid) in Hj; [discriminate | discriminate |].
    intros C. rewrite Hg1 in C. unfold status in Hz. rewrite <- C in Hz. discriminate. }
  split.
  - constructor.
    + apply (upd_nodup i _ s1). cbn [ents s1 with_md with_mq]. rewrite He0. apply HI.
    + intros j. rewrite Hst. destruct (j =? i); [lia | apply HI].
    + intros j. rewrite Hmd, Hst, memb_sadd. destruct (N.eqb_spec j i) as [Ej|Hne]; cbn [orb]; [tauto | apply HI].
    + intros j Hj. rewrite Hmq, memb_srem, andb_true_iff in Hj. destruct Hj as [H1 H2]. rewrite Hst.
      destruct (N.eqb_spec j i) as [Ej|Hne]; [discriminate | now apply HI].
    + intros j Hj. destruct (Hix j Hj) as [H1 H2]. rewrite Hst. destruct (N.eqb_spec j i); [contradiction | now apply HI].
    + intros e He. unfold s' in He. apply (upd_hist_in i _ s1) in He. cbn [hist s1 with_md with_mq] in He. rewrite Hh0 in He.
      destruct He as [He|[-> Hm]].
      * destruct (i_hist s HI e He) as [H1 H2]. split; [now apply Hhe|].
        intros E1 E2. rewrite Hst. unfold mem. rewrite Hmq, Hmd, memb_srem, memb_sadd.
        destruct (N.eqb_spec (e_id e) i) as [Ei|Ei]; cbn [negb andb orb]; [reflexivity|].
        intros E3. now apply H2.
      * split; [|discriminate]. rewrite Hid. apply (upd_has_entry i _ s1 Hid). now right.
    + intros j Hj H0. rewrite Hst in H0. rewrite Hch. destruct (N.eqb_spec j i) as [Ej|Hne]; [discriminate|].
      apply HI; [now apply Hhe' | exact H0].
    + intros j Hj. rewrite Hch in Hj. destruct (N.eqb_spec j i) as [Ej|Hne]; [discriminate|].
      destruct (i_chg s HI j Hj) as [H1 H2]. split; [now apply Hhe|]. rewrite Hst.
      destruct (N.eqb_spec j i); [contradiction | exact H2].
  - repeat split.
    + intros j. rewrite Hst. pose proof (i_st s HI j). destruct (j =? i); lia.
    + exact Hhe.
    + intros j Hj. rewrite Hch in Hj. destruct (j =? i); [discriminate | now left].
Qed.

(* ------------------------------------------------------------------ A3: CreateStorageTx *)
(* queueing a just-created late child: durable status 1, the in-memory deletion state is not told *)
Lemma late_queue_step : forall s i, Inv s -> status i s = 0 -> has_entry i s = true ->
  (forall e, In e (hist s) -> e_id e = i -> e_status e = 0 -> e_heads e = [i]) ->
  Inv (upd i (set_status 1) s) /\ Ext s (upd i (set_status 1) s) /\ status i (upd i (set_status 1) s) = 1.
Proof.
  intros s i HI Hz Hen Hh.
  assert (Hid : e_id (set_status 1 (get i s)) = i) by apply get_id.
  set (s' := upd i (set_status 1) s).
  assert (Hst : forall j, status j s' = if j =? i then 1 else status j s)
    by (intros j; unfold s'; now rewrite (upd_status i _ s Hid j)).
  assert (Hmod : set_status 1 (get i s) <> get i s).
  { intros C. unfold status in Hz. rewrite <- C in Hz. discriminate. }
  assert (Hhe : forall j, has_entry j s' = true <-> has_entry j s = true).
  { intros j. unfold s'. rewrite (upd_has_entry i _ s Hid j). split; [intros [H|[-> _]]; auto | auto]. }
  split; [|split].
  - constructor.
    + apply (upd_nodup i _ s), HI.
    + intros j. rewrite Hst. destruct (j =? i); [lia | apply HI].
    + intros j. unfold s'. rewrite (upd_md i _ s). fold s'. rewrite Hst.
      destruct (N.eqb_spec j i) as [Ej|Hne]; [subst j|apply HI].
      split; [|discriminate]. intros H. apply (i_md s HI) in H. congruence.
    + intros j Hj. unfold s' in Hj. rewrite (upd_mq i _ s) in Hj. rewrite Hst.
      destruct (N.eqb_spec j i) as [Ej|Hne]; [reflexivity | now apply HI].
    + intros j Hj. rewrite Hst. assert (H0 := Hj). unfold s' in H0. apply (upd_idx_in i _ s Hid) in H0.
      destruct H0 as [H0|[_ [H0 _]]]; [|discriminate].
      destruct (N.eqb_spec j i) as [Ej|Hne]; [subst j|now apply HI].
      unfold s' in Hj. rewrite (upd_idx_out i _ s Hid) in Hj; [discriminate | discriminate | exact Hmod].
    + intros e He. unfold s' in He. apply (upd_hist_in i _ s) in He. destruct He as [He|[-> _]].
      * destruct (i_hist s HI e He) as [H1 H2]. split; [now apply Hhe|].
        intros E1 E2. rewrite Hst. unfold s'. rewrite (upd_mem i _ s).
        destruct (N.eqb_spec (e_id e) i) as [Ei|Ei]; [|now apply H2].
        exfalso. apply E2. rewrite Ei. now apply Hh.
      * split; [|discriminate]. rewrite Hid. now apply Hhe.
    + intros j Hj H0. rewrite Hst in H0. unfold s'. rewrite (upd_has_chg i _ s).
      destruct (N.eqb_spec j i) as [Ej|Hne]; [discriminate|]. apply HI; [now apply Hhe | exact H0].
    + intros j Hj. unfold s' in Hj. rewrite (upd_has_chg i _ s) in Hj. destruct (i_chg s HI j Hj) as [H1 H2].
      split; [now apply Hhe|]. rewrite Hst. destruct (j =? i); [discriminate | exact H2].
  - repeat split.
    + intros j. rewrite Hst. destruct (N.eqb_spec j i) as [Ej|Hne]; [subst j; lia | lia].
    + intros j Hj. now apply Hhe.
    + intros j Hj. unfold s' in Hj. rewrite (upd_has_chg i _ s) in Hj. now left.
  - rewrite Hst, N.eqb_refl. reflexivity.
Qed.

Lemma tomb_false_fresh : forall s i, Inv s -> tomb i s = false -> has_chg i s = false -> has_entry i s = false.
Proof.
  intros s i HI T C. destruct (has_entry i s) eqn:E; [|reflexivity].
  unfold tomb in T. rewrite E in T. cbn [andb] in T. apply negb_false_iff, N.eqb_eq in T.
  rewrite (i_live s HI i E T) in C. discriminate.
Qed.

(* the first part of CreateStorageTx: root change inserted, heads entry written *)
Lemma create_root_step : forall s i p d, Inv s -> has_entry i s = false -> has_chg i s = false ->
  let s2 := upd i (set_created i p d) (with_chg (put_c i [i] (chg s)) s) in
  Inv s2 /\ Ext s s2 /\ status i s2 = 0 /\ has_entry i s2 = true /\ has_chg i s2 = true /\
  (forall j, j <> i -> get j s2 = get j s) /\
  (forall e, In e (hist s2) -> e_id e = i -> e_status e = 0 -> e_heads e = [i]).
Proof.
  intros s i p d HI Hne Hnc s2.
  set (s1 := with_chg (put_c i [i] (chg s)) s) in *.
  assert (Hg1 : forall j, get j s1 = get j s) by reflexivity.
  assert (Hb : get i s = blank i).
  { unfold get. unfold has_entry in Hne. destruct (find_e i (ents s)); [discriminate|reflexivity]. }
  assert (Hz : status i s = 0) by now apply status_no_entry.
  set (new := set_created i p d (get i s1)).
  assert (Hid : e_id (set_created i p d (get i s1)) = i) by reflexivity.
  assert (Hmod : new <> get i s1).
  { unfold new. rewrite Hg1, Hb. intros C. apply (f_equal e_heads) in C. discriminate. }
  assert (Hns : e_status new = 0) by (unfold new; rewrite Hg1, Hb; reflexivity).
  assert (Hnh : e_heads new = [i]) by reflexivity.
  assert (Hgt : forall j, get j s2 = if j =? i then new else get j s).
  { intros j. unfold s2. rewrite (upd_get i _ s1 Hid j). reflexivity. }
  assert (Hst : forall j, status j s2 = status j s).
  { intros j. unfold status. rewrite Hgt. destruct (N.eqb_spec j i) as [Ej|Hn]; [subst j|reflexivity].
    rewrite Hns. symmetry. exact Hz. }
  assert (Hhe : forall j, has_entry j s2 = true <-> has_entry j s = true \/ j = i).
  { intros j. unfold s2. rewrite (upd_has_entry i _ s1 Hid j). fold new. split; intros [H|H]; auto. tauto. }
  assert (Hch : forall j, has_chg j s2 = (i =? j) || has_chg j s).
  { intros j. unfold s2. rewrite (upd_has_chg i _ s1). unfold has_chg. cbn [chg s1 with_chg]. rewrite find_put_c.
    now destruct (i =? j). }
  assert (Hix : forall j, memb j (idx s2) = true -> memb j (idx s) = true).
  { intros j Hj. unfold s2 in Hj. apply (upd_idx_in i _ s1 Hid) in Hj. destruct Hj as [Hj|[_ [_ [_ Hj]]]]; [exact Hj|].
    fold new in Hj. rewrite Hnh in Hj. contradiction. }
  assert (Hhi : forall e, In e (hist s2) -> In e (hist s) \/ e = new).
  { intros e He. unfold s2 in He. apply (upd_hist_in i _ s1) in He. destruct He as [He|[He _]]; auto. }
  split; [|split; [|split; [|split; [|split; [|split]]]]].
  - constructor.
    + apply (upd_nodup i _ s1), HI.
    + intros j. rewrite Hst. apply HI.
    + intros j. unfold s2. rewrite (upd_md i _ s1). fold s2. rewrite Hst. apply HI.
    + intros j Hj. unfold s2 in Hj. rewrite (upd_mq i _ s1) in Hj. rewrite Hst. now apply HI.
    + intros j Hj. rewrite Hst. apply HI. now apply Hix.
    + intros e He. destruct (Hhi e He) as [H|H].
      * destruct (i_hist s HI e H) as [H1 H2]. split; [apply Hhe; now left|].
        rewrite Hst. unfold s2. rewrite (upd_mem i _ s1). exact H2.
      * subst e. split; [apply Hhe; right; exact Hid|]. intros _ C. exfalso. apply C. rewrite Hnh. reflexivity.
    + intros j Hj H0. rewrite Hch. rewrite Hst in H0. destruct (N.eqb_spec i j) as [Ej|Hn]; [reflexivity|].
      apply Hhe in Hj. destruct Hj as [Hj|Hj]; [|congruence]. cbn [orb]. now apply HI.
    + intros j Hj. rewrite Hch in Hj. rewrite Hst. destruct (N.eqb_spec i j) as [Ej|Hn].
      * subst j. split; [apply Hhe; now right | rewrite Hz; discriminate].
      * cbn [orb] in Hj. destruct (i_chg s HI j Hj) as [H1 H2]. split; [apply Hhe; now left | exact H2].
  - repeat split.
    + intros j. rewrite Hst. lia.
    + intros j Hj. apply Hhe. now left.
    + intros j Hj. rewrite Hch in Hj. destruct (N.eqb_spec i j) as [Ej|Hn]; [subst j; right; now left | now left].
  - rewrite Hst. exact Hz.
  - apply Hhe. now right.
  - rewrite Hch, N.eqb_refl. reflexivity.
  - intros j Hn. rewrite Hgt. destruct (N.eqb_spec j i); [contradiction|reflexivity].
  - intros e He Ei _. destruct (Hhi e He) as [H|H]; [|now subst e].
    destruct (i_hist s HI e H) as [H1 _]. rewrite Ei in H1. congruence.
Qed.

Lemma has_entry_get : forall j s s', get j s' = get j s -> (has_entry j s' = true <-> has_entry j s = true) -> status j s' = status j s.
Proof. intros j s s' H _. unfold status. now rewrite H. Qed.

Lemma create_step : forall s i p d s', Inv s -> create_storage true i p d s = (s', OOk) ->
  Inv s' /\ Ext s s' /\ has_storage i s' = true /\ has_entry i s = false /\
  (p <> 0 -> tomb p s = true -> status i s' = 1).
Proof.
  intros s i p d s' HI H. unfold create_storage in H. cbn [andb] in H.
  destruct (tomb i s) eqn:T; [discriminate|]. destruct (has_chg i s) eqn:C; [discriminate|].
  pose proof (tomb_false_fresh s i HI T C) as Hne.
  destruct (create_root_step s i p d HI Hne C) as [I2 [E2 [Z2 [He2 [Hc2 [G2 Hh2]]]]]].
  set (s1 := with_chg (put_c i [i] (chg s)) s) in *.
  set (s2 := upd i (set_created i p d) s1) in *.
  assert (Hst2 : has_storage i s2 = true) by (unfold has_storage; now rewrite He2, Hc2).
  destruct (N.eqb_spec p 0) as [P0|P0].
  - inversion H; subst s'. split; [exact I2|]. split; [exact E2|]. split; [exact Hst2|]. split; [exact Hne|].
    intros C0. contradiction.
  - destruct (has_entry p s1) eqn:Hp1; cbn [negb] in H; [|discriminate].
    destruct (e_derived (get p s1) =? 2); [discriminate|].
    assert (Hpi : p <> i).
    { intros Ep. subst p. change (has_entry i s1) with (has_entry i s) in Hp1. congruence. }
    assert (Hsp : status p s2 = status p s) by (unfold status; now rewrite (G2 p Hpi)).
    destruct (has_entry p s2 && (1 <=? status p s2)) eqn:L; inversion H; subst s'.
    + destruct (late_queue_step s2 i I2 Z2 He2 Hh2) as [I3 [E3 S3]].
      split; [exact I3|]. split; [eapply ext_trans; eauto|]. split.
      * unfold has_storage. destruct E3 as [_ [E3 _]]. rewrite (E3 i He2). cbn [andb].
        assert (Hid : e_id (set_status 1 (get i s2)) = i) by apply get_id.
        now rewrite (upd_has_chg i _ s2).
      * split; [exact Hne|]. intros _ _. exact S3.
    + split; [exact I2|]. split; [exact E2|]. split; [exact Hst2|]. split; [exact Hne|].
      intros _ Tp. exfalso. unfold tomb in Tp. apply andb_true_iff in Tp. destruct Tp as [Tp1 Tp2].
      destruct E2 as [_ [E2 _]]. rewrite (E2 p Tp1) in L. cbn [andb] in L. rewrite Hsp in L.
      apply negb_true_iff, N.eqb_neq in Tp2. apply N.leb_gt in L. lia.
Qed.

(* ------------------------------------------------------------------ A4: storage.AddAll *)
Lemma add_change_step : forall s i h, Inv s -> has_storage i s = true -> Inv (add_change i h s) /\ Ext s (add_change i h s).
Proof.
  intros s i h HI Hs. unfold add_change.
  set (cur := match find_c i (chg s) with Some l => l | None => [] end).
  set (s1 := with_chg (put_c i (cur ++ [h]) (chg s)) s).
  apply andb_true_iff in Hs. destruct Hs as [Hen Hc].
  assert (Hg1 : forall j, get j s1 = get j s) by reflexivity.
  assert (Hid : e_id (set_heads [h] (get i s1)) = i) by (rewrite Hg1; apply get_id).
  set (s' := upd i (set_heads [h]) s1).
  assert (Hst : forall j, status j s' = status j s).
  { intros j. unfold s'. rewrite (upd_status i _ s1 Hid j). destruct (N.eqb_spec j i) as [Ej|Hn]; [subst j|reflexivity].
    rewrite Hg1. reflexivity. }
  assert (Hhe : forall j, has_entry j s' = true <-> has_entry j s = true).
  { intros j. unfold s'. rewrite (upd_has_entry i _ s1 Hid j). change (has_entry j s1) with (has_entry j s).
    split; [intros [H|[-> _]]; auto | auto]. }
  assert (Hch : forall j, has_chg j s' = has_chg j s).
  { intros j. unfold s'. rewrite (upd_has_chg i _ s1). unfold has_chg. cbn [chg s1 with_chg]. rewrite find_put_c.
    destruct (N.eqb_spec i j) as [Ej|Hn]; [subst j|reflexivity]. unfold has_chg in Hc. now rewrite Hc. }
  split.
  - constructor.
    + apply (upd_nodup i _ s1), HI.
    + intros j. rewrite Hst. apply HI.
    + intros j. unfold s'. rewrite (upd_md i _ s1). fold s'. rewrite Hst. apply HI.
    + intros j Hj. unfold s' in Hj. rewrite (upd_mq i _ s1) in Hj. rewrite Hst. now apply HI.
    + intros j Hj. rewrite Hst. unfold s' in Hj. apply (upd_idx_in i _ s1 Hid) in Hj.
      destruct Hj as [Hj|[-> [Hj _]]]; [now apply HI|]. rewrite Hg1 in Hj. exact Hj.
    + intros e He. unfold s' in He. apply (upd_hist_in i _ s1) in He. destruct He as [He|[-> _]].
      * destruct (i_hist s HI e He) as [H1 H2]. split; [now apply Hhe|].
        rewrite Hst. unfold s'. rewrite (upd_mem i _ s1). exact H2.
      * rewrite Hid. split; [now apply Hhe|]. intros E1 _ E3. exfalso. apply E3. rewrite Hst.
        rewrite Hg1 in E1. exact E1.
    + intros j Hj H0. rewrite Hch. rewrite Hst in H0. apply HI; [now apply Hhe | exact H0].
    + intros j Hj. rewrite Hch in Hj. rewrite Hst. destruct (i_chg s HI j Hj) as [H1 H2]. split; [now apply Hhe | exact H2].
  - repeat split.
    + intros j. rewrite Hst. lia.
    + intros j Hj. now apply Hhe.
    + intros j Hj. rewrite Hch in Hj. now left.
Qed.

(* ------------------------------------------------------------------ A5: late re-delivery of a past notification *)
Lemma stale_step : forall s e, Inv s -> In e (hist s) -> Inv (apply_update e s) /\ Ext s (apply_update e s).
Proof.
  intros s e HI He.
  assert (Hg : forall j, get j (apply_update e s) = get j s) by (intros j; unfold get; now rewrite au_ents).
  assert (Hst : forall j, status j (apply_update e s) = status j s) by (intros j; unfold status; now rewrite Hg).
  assert (Hhe : forall j, has_entry j (apply_update e s) = has_entry j s) by (intros j; unfold has_entry; now rewrite au_ents).
  assert (Hch : forall j, has_chg j (apply_update e s) = has_chg j s) by (intros j; unfold has_chg; now rewrite au_chg).
  assert (Hme : forall j, mem j (apply_update e s) = mem j s) by (intros j; unfold mem; now rewrite au_mq, au_md).
  split.
  - constructor.
    + rewrite au_ents. apply HI.
    + intros j. rewrite Hst. apply HI.
    + intros j. rewrite au_md, Hst. apply HI.
    + intros j. rewrite au_mq, Hst. apply HI.
    + intros j Hj. rewrite Hst. apply au_idx_in in Hj. destruct Hj as [Hj|[-> [E1 [E2 E3]]]]; [now apply HI|].
      destruct (i_hist s HI e He) as [_ H2]. destruct (N.eq_dec (status (e_id e) s) 0) as [Z|Z]; [exact Z|].
      rewrite (H2 E1 E3 Z) in E2. discriminate.
    + intros x Hx. rewrite au_hist in Hx. rewrite Hhe, Hst, Hme. now apply HI.
    + intros j. rewrite Hhe, Hst, Hch. apply HI.
    + intros j. rewrite Hhe, Hst, Hch. apply HI.
  - repeat split.
    + intros j. rewrite Hst. lia.
    + intros j. now rewrite Hhe.
    + intros j. rewrite Hch. now left.
Qed.

(* ------------------------------------------------------------------ A6: start-up *)
Lemma memb_ids_with_status : forall s v i, NoDup (map e_id (ents s)) ->
  (memb i (ids_with_status v s) = true <-> has_entry i s = true /\ status i s = v).
Proof.
  intros s v i Hn. unfold ids_with_status. rewrite memb_In, in_map_iff. split.
  - intros [e [Ei He]]. apply filter_In in He. destruct He as [He Hv]. apply N.eqb_eq in Hv.
    pose proof (find_e_nodup_In _ e Hn He) as Hf. rewrite Ei in Hf.
    unfold has_entry, status, get. now rewrite Hf.
  - intros [He Hv]. unfold has_entry in He. unfold status, get in Hv. destruct (find_e i (ents s)) as [e|] eqn:Hf; [|discriminate].
    exists e. split; [eapply find_e_id; eauto|]. apply filter_In. split; [eapply find_e_In; eauto | now apply N.eqb_eq].
Qed.

Definition Quiet (s : state) : Prop := idx s = [] /\ hist s = [].
(* the in-memory deletion state knows every tombstoned id *)
Definition Mirror (s : state) : Prop := forall i, status i s <> 0 -> mem i s = true.

Lemma orphan_one_step : forall s c, Inv s -> Quiet s -> Mirror s ->
  Inv (orphan_one s c) /\ Quiet (orphan_one s c) /\ Mirror (orphan_one s c) /\ Ext s (orphan_one s c) /\
  ents (orphan_one s c) = (if status c s =? 0 then put_e (set_status 1 (get c s)) (ents s) else ents s) /\
  md (orphan_one s c) = md s /\ chg (orphan_one s c) = chg s.
Proof.
  intros s c HI [Q1 Q2] HM. unfold orphan_one. destruct (N.eqb_spec (status c s) 0) as [Z|Z].
  2:{ split; [exact HI|]. split; [split; assumption|]. split; [exact HM|]. split; [apply ext_refl|]. repeat split. }
  set (new := set_status 1 (get c s)).
  set (s' := with_mq (sadd c (mq s)) (with_ents (put_e new (ents s)) s)).
  assert (Hid : e_id new = c) by apply get_id.
  assert (Hgt : forall j, get j s' = if j =? c then new else get j s).
  { intros j. unfold get. cbn [ents s' with_mq with_ents]. rewrite find_put_e, Hid, N.eqb_sym.
    destruct (N.eqb_spec j c) as [Ej|Hn]; [subst j|]; reflexivity. }
  assert (Hst : forall j, status j s' = if j =? c then 1 else status j s).
  { intros j. unfold status. rewrite Hgt. now destruct (j =? c). }
  assert (Hhe : forall j, has_entry j s' = true <-> has_entry j s = true \/ j = c).
  { intros j. unfold has_entry. cbn [ents s' with_mq with_ents]. rewrite find_put_e, Hid.
    destruct (N.eqb_spec c j) as [Ej|Hn]; [subst j; tauto|]. split; [auto | intros [H|H]; [auto|congruence]]. }
  assert (Hnm : memb c (md s) = false).
  { destruct (memb c (md s)) eqn:E; [|reflexivity]. apply (i_md s HI) in E. congruence. }
  split; [|split; [|split; [|split]]].
  - constructor.
    + cbn [ents s' with_mq with_ents]. apply nodup_put_e, HI.
    + intros j. rewrite Hst. destruct (j =? c); [lia | apply HI].
    + intros j. change (md s') with (md s). rewrite Hst. destruct (N.eqb_spec j c) as [Ej|Hn]; [subst j|apply HI].
      rewrite Hnm. split; discriminate.
    + intros j Hj. change (mq s') with (sadd c (mq s)) in Hj. rewrite memb_sadd, orb_true_iff in Hj. rewrite Hst.
      destruct (N.eqb_spec j c) as [Ej|Hn]; [reflexivity|]. destruct Hj as [Hj|Hj]; [discriminate | now apply HI].
    + intros j Hj. change (idx s') with (idx s) in Hj. rewrite Q1 in Hj. discriminate.
    + intros e He. change (hist s') with (hist s) in He. rewrite Q2 in He. contradiction.
    + intros j Hj H0. change (has_chg j s') with (has_chg j s). rewrite Hst in H0.
      destruct (N.eqb_spec j c) as [Ej|Hn]; [discriminate|]. apply Hhe in Hj. destruct Hj as [Hj|Hj]; [|contradiction].
      now apply HI.
    + intros j Hj. change (has_chg j s') with (has_chg j s) in Hj. destruct (i_chg s HI j Hj) as [H1 H2].
      split; [apply Hhe; now left|]. rewrite Hst. destruct (j =? c); [discriminate | exact H2].
  - split; [exact Q1 | exact Q2].
  - intros j Hj. rewrite Hst in Hj. unfold mem. change (mq s') with (sadd c (mq s)). change (md s') with (md s).
    rewrite memb_sadd. destruct (N.eqb_spec j c) as [Ej|Hn]; [reflexivity|]. cbn [orb]. now apply HM.
  - repeat split.
    + intros j. rewrite Hst. destruct (N.eqb_spec j c) as [Ej|Hn]; [subst j|]; lia.
    + intros j Hj. apply Hhe. now left.
    + intros j Hj. now left.
  - repeat split.
Qed.

Definition Started (s : state) : Prop := Inv s /\ Quiet s /\ Mirror s.

Lemma orphan_children_step : forall l s, Started s ->
  Started (fold_left orphan_one l s) /\ Ext s (fold_left orphan_one l s) /\ md (fold_left orphan_one l s) = md s
  /\ chg (fold_left orphan_one l s) = chg s.
Proof.
  induction l as [|c r IH]; intros s [HI [HQ HM]]; cbn [fold_left].
  - split; [split; [exact HI|split; assumption]|]. split; [apply ext_refl|]. split; reflexivity.
  - destruct (orphan_one_step s c HI HQ HM) as [I1 [Q1 [M1 [E1 [_ [D1 C1]]]]]].
    destruct (IH (orphan_one s c) (conj I1 (conj Q1 M1))) as [S2 [E2 [D2 C2]]].
    split; [exact S2|]. split; [eapply ext_trans; eauto|]. split; congruence.
Qed.

Lemma orphan_parents_step : forall ps s, Started s ->
  Started (fold_left (fun s p => fold_left orphan_one (children_of p s) s) ps s)
  /\ Ext s (fold_left (fun s p => fold_left orphan_one (children_of p s) s) ps s)
  /\ chg (fold_left (fun s p => fold_left orphan_one (children_of p s) s) ps s) = chg s.
Proof.
  induction ps as [|p r IH]; intros s HS; cbn [fold_left].
  - split; [exact HS|]. split; [apply ext_refl | reflexivity].
  - destruct (orphan_children_step (children_of p s) s HS) as [S1 [E1 [_ C1]]].
    destruct (IH _ S1) as [S2 [E2 C2]]. split; [exact S2|]. split; [eapply ext_trans; eauto | congruence].
Qed.

Lemma restart_step : forall s, Inv s ->
  Inv (restart s) /\ Ext s (restart s) /\ Mirror (restart s) /\ hist (restart s) = [] /\ chg (restart s) = chg s.
Proof.
  intros s HI. unfold restart.
  set (s0 := mkS (ents s) (chg s) [] (ids_with_status 1 s) (ids_with_status 2 s) [] (slog s) []).
  assert (S0 : Started s0).
  { split; [|split].
    - constructor; try (cbn; intros; discriminate); try (cbn; intros; contradiction).
      + apply HI.
      + intros j. apply (i_st s HI).
      + intros j. change (md s0) with (ids_with_status 2 s). rewrite (memb_ids_with_status s 2 j (i_nodup s HI)).
        change (status j s0) with (status j s). split; [tauto|]. intros H. split; [|exact H].
        destruct (has_entry j s) eqn:E; [reflexivity|]. rewrite (status_no_entry _ _ E) in H. discriminate.
      + intros j Hj. change (mq s0) with (ids_with_status 1 s) in Hj. apply (memb_ids_with_status s 1 j (i_nodup s HI)) in Hj. apply Hj.
      + intros j. apply (i_live s HI).
      + intros j. apply (i_chg s HI).
    - split; reflexivity.
    - intros j Hj. change (status j s0) with (status j s) in Hj. unfold mem. cbn [mq md s0].
      assert (He : has_entry j s = true).
      { destruct (has_entry j s) eqn:E; [reflexivity|]. rewrite (status_no_entry _ _ E) in Hj. contradiction. }
      pose proof (i_st s HI j) as Hle.
      assert (Hc : status j s = 1 \/ status j s = 2) by lia.
      destruct Hc as [Hc|Hc].
      + rewrite (proj2 (memb_ids_with_status s 1 j (i_nodup s HI)) (conj He Hc)). reflexivity.
      + rewrite (proj2 (memb_ids_with_status s 2 j (i_nodup s HI)) (conj He Hc)). apply orb_true_r. }
  assert (E0 : Ext s s0) by (repeat split; intros; auto; [change (status j s0) with (status j s); lia]).
  unfold orphan_scan.
  destruct (orphan_parents_step (md s0) s0 S0) as [[I1 [[Q1 Q1'] M1]] [E1 C1]].
  set (s1 := fold_left (fun s p => fold_left orphan_one (children_of p s) s) (md s0) s0) in *.
  split; [|split; [|split; [|split]]].
  - constructor; try (intros j; autorewrite with flds; apply I1).
    + autorewrite with flds. apply I1.
    + intros j Hj. autorewrite with flds in *. unfold filldiff in Hj. apply memb_In, in_map_iff in Hj.
      destruct Hj as [e [Ei He]]. apply filter_In in He. destruct He as [He Hv]. apply andb_true_iff in Hv. destruct Hv as [Hv _].
      apply N.eqb_eq in Hv. pose proof (find_e_nodup_In _ e (i_nodup s1 I1) He) as Hf. rewrite Ei in Hf.
      unfold status, get. now rewrite Hf.
  - eapply ext_trans; [exact E0|]. destruct E1 as [A [B C]]. repeat split; intros j; autorewrite with flds; auto.
  - intros j. autorewrite with flds. apply M1.
  - autorewrite with flds. exact Q1'.
  - autorewrite with flds. exact C1.
Qed.

(* ------------------------------------------------------------------ composite operations *)
Lemma st_add_step : forall ids s, Inv s -> Inv (st_add ids s) /\ Ext s (st_add ids s).
Proof.
  unfold st_add. induction ids as [|i r IH]; intros s HI; cbn [fold_left].
  - split; [exact HI | apply ext_refl].
  - destruct (IH (st_add_one s i) (st_add_one_inv s i HI)) as [I2 E2].
    split; [exact I2|]. eapply ext_trans; [apply st_add_one_ext; exact HI | exact E2].
Qed.

Lemma settings_fields_step : forall s v w, Inv s -> Inv (with_sset v (with_slog w s)) /\ Ext s (with_sset v (with_slog w s)).
Proof.
  intros s v w HI. split.
  - constructor; try (intros j; autorewrite with flds; apply HI). autorewrite with flds. apply HI.
  - repeat split; intros j; autorewrite with flds; auto. lia.
Qed.

Lemma do_settings_step : forall ids s, Inv s -> Inv (do_settings ids s) /\ Ext s (do_settings ids s).
Proof.
  intros ids s HI. unfold do_settings.
  destruct (settings_fields_step s (sunion (sset s) ids) (slog s ++ [ids]) HI) as [I1 E1].
  destruct (st_add_step (sunion (sset s) ids) (with_sset (sunion (sset s) ids) (with_slog (slog s ++ [ids]) s)) I1) as [I2 E2].
  split; [exact I2 | eapply ext_trans; [exact E1 | exact E2]].
Qed.

Lemma worker_children_step : forall k fail cs s n, Inv s ->
  Inv (fst (worker_children k fail cs (s, n))) /\ Ext s (fst (worker_children k fail cs (s, n))).
Proof.
  induction cs as [|c r IH]; intros s n HI; cbn [worker_children fst].
  - split; [exact HI | apply ext_refl].
  - destruct (cancelled k n); [split; [exact HI | apply ext_refl]|].
    destruct (2 <=? status c s); [apply IH; exact HI|].
    destruct (delete_one fail c s) as [s'|] eqn:D; [|apply IH; exact HI].
    apply delete_one_some in D. subst s'. destruct (drop_tree_step s c HI) as [I1 E1].
    destruct (IH (drop_tree c s) (N.succ n) I1) as [I2 E2]. split; [exact I2 | eapply ext_trans; eauto].
Qed.

Lemma worker_loop_step : forall k fail order s n, Inv s ->
  Inv (fst (worker_loop k fail order (s, n))) /\ Ext s (fst (worker_loop k fail order (s, n))).
Proof.
  induction order as [|i r IH]; intros s n HI; cbn [worker_loop fst].
  - split; [exact HI | apply ext_refl].
  - destruct (cancelled k n); [split; [exact HI | apply ext_refl]|].
    destruct (delete_one fail i s) as [s'|] eqn:D; [|apply IH; exact HI].
    apply delete_one_some in D. subst s'. destruct (drop_tree_step s i HI) as [I1 E1].
    destruct (worker_children_step k fail (children_of i (drop_tree i s)) (drop_tree i s) (N.succ n) I1) as [I2 E2].
    destruct (worker_children k fail (children_of i (drop_tree i s)) (drop_tree i s, N.succ n)) as [s2 n2] eqn:W.
    cbn [fst] in I2, E2. destruct (IH s2 n2 I2) as [I3 E3].
    split; [exact I3 | eapply ext_trans; [exact E1 | eapply ext_trans; eauto]].
Qed.

Lemma worker_step : forall order k fail s, Inv s -> Inv (worker order k fail s) /\ Ext s (worker order k fail s).
Proof. intros order k fail s HI. unfold worker. apply worker_loop_step. exact HI. Qed.

Lemma create_storage_err : forall fixed i p d s s' o, create_storage fixed i p d s = (s', o) -> o <> OOk -> s' = s.
Proof.
  intros fixed i p d s s' o H Ho. unfold create_storage in H.
  destruct (fixed && tomb i s); [now inversion H|]. destruct (has_chg i s); [now inversion H|].
  destruct (p =? 0).
  - inversion H; subst. contradiction.
  - destruct (negb (has_entry p (with_chg (put_c i [i] (chg s)) s))); [now inversion H|].
    destruct (e_derived (get p (with_chg (put_c i [i] (chg s)) s)) =? 2); [now inversion H|].
    inversion H; subst. contradiction.
Qed.

Lemma out_ok_dec : forall o : out, {o = OOk} + {o <> OOk}.
Proof. intros o. destruct o; try (right; discriminate). now left. Qed.

Lemma create_any_step : forall s i p d s' o, Inv s -> create_storage true i p d s = (s', o) -> Inv s' /\ Ext s s'.
Proof.
  intros s i p d s' o HI H. destruct (out_ok_dec o) as [->|Ho].
  - destruct (create_step s i p d s' HI H) as [I1 [E1 _]]. auto.
  - apply create_storage_err in H; [|exact Ho]. subst s'. split; [exact HI | apply ext_refl].
Qed.

Lemma fetch_finish_step : forall s i p d h s' o, Inv s -> fetch_finish true i p d h s = (s', o) -> Inv s' /\ Ext s s'.
Proof.
  intros s i p d h s' o HI H. unfold fetch_finish in H.
  destruct (create_storage true i p d s) as [s1 o1] eqn:C.
  destruct (out_ok_dec o1) as [->|Ho].
  - inversion H; subst s' o. destruct (create_step s i p d s1 HI C) as [I1 [E1 [S1 _]]].
    destruct (add_change_step s1 i h I1 S1) as [I2 E2]. split; [exact I2 | eapply ext_trans; eauto].
  - assert (s' = s) by (destruct o1; try (now inversion H); contradiction). subst s'.
    split; [exact HI | apply ext_refl].
Qed.

Lemma inject_step : forall del i order s, Inv s -> Inv (inject del i order s) /\ Ext s (inject del i order s).
Proof.
  intros del i order s HI. unfold inject. destruct (del =? 0); [split; [exact HI | apply ext_refl]|].
  destruct (do_settings_step [i] s HI) as [I1 E1]. destruct (del =? 1); [split; assumption|].
  destruct (worker_step order never [] _ I1) as [I2 E2]. split; [exact I2 | eapply ext_trans; eauto].
Qed.

Lemma inject_at_step : forall k stage del i order s,
  Inv s -> Inv (inject_at k stage del i order s) /\ Ext s (inject_at k stage del i order s).
Proof.
  intros k stage del i order s HI. unfold inject_at. destruct (stage =? k); [now apply inject_step|].
  split; [exact HI | apply ext_refl].
Qed.

Theorem step_inv : forall s o, Inv s -> Inv (fst (step true s o)) /\ Ext s (fst (step true s o)).
Proof.
  intros s o HI. assert (R : Inv s /\ Ext s s) by (split; [exact HI | apply ext_refl]).
  destruct o as [i p d|i p d h rem|i p d h order|i p d h stage del order|i p d stage del order|i h|n|ids| |order k fail|order k fail sfail| ];
    cbn [step].
  - unfold do_put. destruct (tomb i s); [exact R|].
    destruct (create_storage true i p d s) as [s' o] eqn:C. cbn [fst]. eapply create_any_step; eauto.
  - destruct (has_storage i s); [exact R|]. destruct (tomb i s); [exact R|]. destruct (negb rem); [exact R|].
    destruct (fetch_finish true i p d h s) as [s' o] eqn:C. cbn [fst]. eapply fetch_finish_step; eauto.
  - destruct (has_storage i s); [exact R|]. destruct (tomb i s); [exact R|].
    destruct (do_settings_step [i] s HI) as [I1 E1].
    destruct (worker_step order never [] _ I1) as [I2 E2].
    destruct (fetch_finish true i p d h (worker order never [] (do_settings [i] s))) as [s' o] eqn:C. cbn [fst].
    destruct (fetch_finish_step _ i p d h s' o I2 C) as [I3 E3].
    split; [exact I3 | eapply ext_trans; [exact E1 | eapply ext_trans; eauto]].
  - unfold fetch_staged. destruct (has_storage i s); [exact R|].
    destruct (inject_at_step 0 stage del i order s HI) as [I0 E0].
    set (s0 := inject_at 0 stage del i order s) in *.
    destruct (tomb i s0); [split; assumption|].
    assert (H1 : Inv (if mid_stage stage then inject del i order s0 else s0)
                 /\ Ext s0 (if mid_stage stage then inject del i order s0 else s0)).
    { destruct (mid_stage stage); [now apply inject_step | split; [exact I0 | apply ext_refl]]. }
    destruct H1 as [I1 E1]. set (s1 := if mid_stage stage then inject del i order s0 else s0) in *.
    destruct (fetch_finish true i p d h s1) as [s2 o] eqn:C. cbn [fst].
    destruct (fetch_finish_step _ i p d h s2 o I1 C) as [I2 E2].
    destruct (inject_at_step 5 stage del i order s2 I2) as [I3 E3].
    split; [exact I3 | eapply ext_trans; [exact E0 | eapply ext_trans; [exact E1 | eapply ext_trans; eauto]]].
  - unfold put_staged.
    destruct (inject_at_step 0 stage del i order s HI) as [I0 E0].
    set (s0 := inject_at 0 stage del i order s) in *.
    destruct (tomb i s0); [split; assumption|].
    destruct (inject_at_step 1 stage del i order s0 I0) as [I1 E1].
    set (s1 := inject_at 1 stage del i order s0) in *.
    destruct (create_storage true i p d s1) as [s2 o] eqn:C. cbn [fst].
    destruct (create_any_step _ i p d s2 o I1 C) as [I2 E2].
    destruct (inject_at_step 2 stage del i order s2 I2) as [I3 E3].
    split; [exact I3 | eapply ext_trans; [exact E0 | eapply ext_trans; [exact E1 | eapply ext_trans; eauto]]].
  - destruct (has_storage i s) eqn:Hs; [|exact R]. cbn [fst]. now apply add_change_step.
  - destruct (nth_error (hist s) n) as [e|] eqn:E; [|exact R]. cbn [fst]. apply stale_step; [exact HI|].
    eapply nth_error_In; eauto.
  - cbn [fst]. now apply do_settings_step.
  - cbn [fst]. destruct (settings_fields_step s (fold_left sunion (slog s) []) (slog s) HI) as [I1 E1].
    assert (Hs : with_sset (fold_left sunion (slog s) []) (with_slog (slog s) s) = with_sset (fold_left sunion (slog s) []) s)
      by (destruct s; reflexivity).
    rewrite Hs in I1, E1. destruct (st_add_step (fold_left sunion (slog s) []) (with_sset (fold_left sunion (slog s) []) s) I1) as [I2 E2].
    split; [exact I2 | eapply ext_trans; [exact E1 | exact E2]].
  - cbn [fst]. now apply worker_step.
  - cbn [fst]. unfold worker_s. now apply worker_step.
  - cbn [fst]. destruct (restart_step s HI) as [I1 [E1 _]]. auto.
Qed.

Theorem run_inv : forall ops s, Inv s -> Inv (run true ops s) /\ Ext s (run true ops s).
Proof.
  unfold run. induction ops as [|o r IH]; intros s HI; cbn [fold_left].
  - split; [exact HI | apply ext_refl].
  - destruct (step_inv s o HI) as [I1 E1]. destruct (IH _ I1) as [I2 E2]. split; [exact I2 | eapply ext_trans; eauto].
Qed.
