(* Proofs/TreeAuthMain.v — C02: the two halves put together (what [accept] checks against the receiver's ACL view,
   and what that view's answer means in terms of the ACL log's true history). *)
From Coq Require Import List NArith Bool Arith Lia.
Import ListNotations.
From AnySync Require Import Model.TreeAuth Proofs.AclBase Proofs.TreeAuth Proofs.TreeAuthAcl.
Open Scope N_scope.

Lemma can_write_none : can_write pNone = false.
Proof. reflexivity. Qed.

(* a change that became part of the tree (other than the unsigned root of a derived tree) was signed by an identity
   that REALLY held write permission in the ACL state folded up to the record the change cites *)
Theorem accepted_author_could_write : forall me owner root ws sts n v t batch t' added c,
  acl_states me owner root ws = Some sts -> NoDup (acl_ids root ws) ->
  view_at (acl_ids root ws) sts n = Some v ->
  accept v t batch = (t', ROk added) ->
  In c (at_att t') -> ~ In c (at_att t) -> is_derived_root t' (rc_id c) = false ->
  rc_cid_ok c = true /\ rc_canon c = true /\ rc_sig_ok c = true /\
  has_head (av_ids v) (rc_head c) = true /\
  exists p, truth_at (acl_ids root ws) sts (rc_head c) (rc_ident c) = Some p /\ can_write p = true.
Proof.
  intros me owner root ws sts n v t batch t' added c HS ND HV HA Hc Hn Hd.
  destruct (accept_sound _ _ _ _ _ HA c Hc) as [Hold|(_ & _ & Hs)]; [contradiction|].
  destruct Hs as (Hcid & Hcan & _ & [Hder|(Hsig & Hhead & (p & Hp & Hw) & _)]); [congruence|].
  repeat split; auto.
  unfold perm_at in Hp. rewrite Hhead in Hp. cbn in Hp.
  destruct (mget (rc_ident c) (accounts (av_state v))) as [x|] eqn:Ex; [|discriminate].
  inversion Hp; subst p; clear Hp.
  assert (Eacc : acc_of (av_state v) (rc_ident c) = x) by (unfold acc_of; rewrite Ex; reflexivity).
  pose proof (closest_sound me owner root ws sts n v HS ND HV (rc_head c) (rc_ident c) Hhead) as Hcl.
  rewrite Eacc in Hcl. destruct Hcl as [Hcl|Hcl].
  - rewrite Hcl in Hw. discriminate.
  - eexists. split; [exact Hcl | exact Hw].
Qed.
