(* Proofs/TreeSyncSnapshot.v — C01, part 3: the SNAPSHOT DISCIPLINE of honest object trees as an invariant of every
   trace of Model/TreeSync.v (arbitrary deliveries included: a delivered message can only name changes, and the
   universe holds only changes created by LocalAdd).

   Universe invariant [ginv]: creation order (previous ids and snapshot base exist before the change), every change
   other than the tree root has previous ids, cites a snapshot, and each of its previous ids has that snapshot on its
   snapshot chain (the creator's heads were attached in a tree rooted at it).
   Replica invariant [rinv]: stored set causally closed, in-memory root stored and a snapshot, and
     (D)  every stored change is an ancestor of the in-memory root or has the root on its snapshot chain.
   Consequences: the in-memory view is exactly the stored changes with the root on their chain ([view_char]); for every
   snapshot s on the replica's snapshot path every stored change is an ancestor of s or has s on its chain
   ([discipline]) — the snapshot discipline of DESIGN.md. *)
From Coq Require Import List NArith Bool Arith Lia.
Import ListNotations.
From AnySync Require Import Lib.Dag Model.Dfs Model.Tree Model.LoadIter Model.TreeSync Proofs.DfsBase
  Proofs.TreeSyncClosure Proofs.TreeSyncConverge.

(* ---------------------------------------------------------------- ancestors and snapshot chains *)

(* [anc G x y]: x is y or an ancestor of y through previous ids *)
Inductive anc (G : list change) (x : N) : N -> Prop :=
| anc_refl : anc G x x
| anc_step : forall y c p, find_change G y = Some c -> In p (cprev c) -> anc G x p -> anc G x y.

(* [onchain G s x]: s is x or lies on the snapshot chain x -> csnap x -> csnap (csnap x) -> ... *)
Inductive onchain (G : list change) (s : N) : N -> Prop :=
| oc_refl : onchain G s s
| oc_step : forall x c, find_change G x = Some c -> onchain G s (csnap c) -> onchain G s x.

Lemma anc_trans : forall G x y z, anc G x y -> anc G y z -> anc G x z.
Proof.
  intros G x y z Hxy Hyz. induction Hyz as [|z c p Hc Hp Hyp IH]; [exact Hxy|].
  eapply anc_step; eassumption.
Qed.

Lemma onchain_trans : forall G s t x, onchain G s t -> onchain G t x -> onchain G s x.
Proof.
  intros G s t x Hst Htx. induction Htx as [|x c Hc Htc IH]; [exact Hst|].
  eapply oc_step; eassumption.
Qed.

Lemma anc_app : forall G l x y, anc G x y -> anc (G ++ l) x y.
Proof.
  intros G l x y H. induction H as [|y c p Hc Hp Hxp IH]; [apply anc_refl|].
  eapply anc_step; [apply find_change_app; exact Hc | exact Hp | exact IH].
Qed.

Lemma onchain_app : forall G l s x, onchain G s x -> onchain (G ++ l) s x.
Proof.
  intros G l s x H. induction H as [|x c Hc Hsc IH]; [apply oc_refl|].
  eapply oc_step; [apply find_change_app; exact Hc | exact IH].
Qed.

Lemma closed_anc : forall G A x y, closed G A -> In y A -> anc G x y -> In x A.
Proof.
  intros G A x y Hcl Hy H. induction H as [|y c p Hc Hp Hxp IH]; [exact Hy|].
  apply IH. destruct (Hcl y Hy) as [c' [Hc' Hpr]]. rewrite Hc in Hc'. inversion Hc'; subst c'. apply Hpr. exact Hp.
Qed.

Lemma closed_ids : forall G A x, closed G A -> In x A -> In x (ids G).
Proof.
  intros G A x Hcl Hx. destruct (Hcl x Hx) as [c [Hc _]]. apply find_change_sound in Hc. destruct Hc as [Hin <-].
  unfold ids. apply in_map. exact Hin.
Qed.

Lemma ids_find : forall G i, In i (ids G) -> exists c, find_change G i = Some c.
Proof.
  induction G as [|a G IH]; intros i Hi; [destruct Hi|]. cbn [find_change].
  destruct (N.eqb (cid a) i) eqn:E; [exists a; reflexivity|].
  destruct Hi as [Hi|Hi]; [apply N.eqb_neq in E; contradiction | apply IH; exact Hi].
Qed.

Lemma find_ids : forall G i c, find_change G i = Some c -> In i (ids G).
Proof.
  intros G i c H. apply find_change_sound in H. destruct H as [Hin <-]. unfold ids. apply in_map. exact Hin.
Qed.

(* ---------------------------------------------------------------- creation order *)

Fixpoint pos (G : list change) (i : N) : nat :=
  match G with
  | [] => 0
  | c :: r => if N.eqb (cid c) i then 0 else S (pos r i)
  end.

Lemma pos_in : forall pre l i, In i (ids pre) -> pos (pre ++ l) i = pos pre i /\ pos pre i < length pre.
Proof.
  induction pre as [|a pre IH]; intros l i Hi; [destruct Hi|]. cbn [app pos length].
  destruct (N.eqb (cid a) i) eqn:E; [split; [reflexivity | lia]|].
  destruct Hi as [Hi|Hi]; [apply N.eqb_neq in E; contradiction|].
  destruct (IH l i Hi) as [H1 H2]. split; [rewrite H1; reflexivity | lia].
Qed.

Lemma pos_at : forall pre c post, ~ In (cid c) (ids pre) -> pos (pre ++ c :: post) (cid c) = length pre.
Proof.
  induction pre as [|a pre IH]; intros c post Hn; cbn [app pos length].
  - rewrite N.eqb_refl. reflexivity.
  - destruct (N.eqb (cid a) (cid c)) eqn:E.
    + apply N.eqb_eq in E. exfalso. apply Hn. left. exact E.
    + rewrite IH; [reflexivity|]. intro H. apply Hn. right. exact H.
Qed.

Definition gord (G : list change) : Prop :=
  forall pre c post, G = pre ++ c :: post ->
    forall p, In p (csnap c :: cprev c) -> In p (ids G) -> In p (ids pre).

Definition groot (G : list change) : N := match G with c :: _ => cid c | [] => 0%N end.

Record ginv (G : list change) : Prop := mkGI {
  g_nodup : NoDup (ids G);
  g_nozero : ~ In 0%N (ids G);
  g_ord : gord G;
  g_prev : forall c p, In c G -> In p (cprev c) -> In p (ids G) /\ onchain G (csnap c) p;
  g_snap : forall c, In c G -> cprev c <> [] -> exists s, find_change G (csnap c) = Some s /\ cissnap s = true;
  g_root : forall c, In c G -> cprev c = [] -> csnap c = 0%N /\ cissnap c = true /\ cid c = groot G;
  g_hd : exists c r, G = c :: r /\ cprev c = []
}.

Lemma ids_app : forall a b, ids (a ++ b) = ids a ++ ids b.
Proof. intros. unfold ids. apply map_app. Qed.

Lemma split_nodup : forall pre c post, NoDup (ids (pre ++ c :: post)) -> ~ In (cid c) (ids pre) /\ ~ In (cid c) (ids post).
Proof.
  intros pre c post H. rewrite ids_app in H. cbn [ids map] in H. apply NoDup_remove_2 in H.
  split; intro Hx; apply H; apply in_or_app; [left | right]; exact Hx.
Qed.

Lemma pos_lt : forall G c p, ginv G -> In c G -> In p (csnap c :: cprev c) -> In p (ids G) -> pos G p < pos G (cid c).
Proof.
  intros G c p HG Hc Hp Hin. apply in_split in Hc. destruct Hc as [pre [post E]].
  pose proof (g_ord G HG pre c post E p Hp Hin) as Hpre.
  pose proof (g_nodup G HG) as Hnd. rewrite E in Hnd. destruct (split_nodup _ _ _ Hnd) as [Hn _].
  rewrite E. rewrite (pos_at pre c post Hn). destruct (pos_in pre (c :: post) p Hpre) as [H1 H2]. rewrite H1. exact H2.
Qed.

Lemma creation_ind : forall G (P : N -> Prop), ginv G ->
  (forall c, In c G -> (forall p, In p (csnap c :: cprev c) -> In p (ids G) -> P p) -> P (cid c)) ->
  forall i, In i (ids G) -> P i.
Proof.
  intros G P HG Hstep.
  assert (H : forall n i, pos G i < n -> In i (ids G) -> P i).
  { induction n as [|n IH]; intros i Hlt Hi; [lia|].
    unfold ids in Hi. apply in_map_iff in Hi. destruct Hi as [c [<- Hc]].
    apply Hstep; [exact Hc|]. intros p Hp Hin. apply IH; [|exact Hin].
    pose proof (pos_lt G c p HG Hc Hp Hin). lia. }
  intros i Hi. apply (H (S (pos G i))); [lia | exact Hi].
Qed.

Lemma ginv_find : forall G c, ginv G -> In c G -> find_change G (cid c) = Some c.
Proof. intros G c HG Hc. apply find_change_unique; [apply g_nodup; exact HG | exact Hc]. Qed.

Lemma find_in : forall G i c, find_change G i = Some c -> In c G /\ cid c = i.
Proof. intros. apply find_change_sound. assumption. Qed.

(* the snapshot base of a change with previous ids is a known change, hence not 0 *)
Lemma snap_known : forall G c, ginv G -> In c G -> cprev c <> [] -> In (csnap c) (ids G).
Proof.
  intros G c HG Hc Hp. destruct (g_snap G HG c Hc Hp) as [s [Hs _]]. eapply find_ids; exact Hs.
Qed.

Lemma onchain_zero : forall G s, ginv G -> onchain G s 0%N -> s = 0%N.
Proof.
  intros G s HG H. inversion H as [|x c Hc _]; [reflexivity|]. subst x.
  exfalso. apply (g_nozero G HG). eapply find_ids; exact Hc.
Qed.

(* chain elements are ancestors *)
Lemma onchain_anc : forall G, ginv G -> forall x, In x (ids G) -> forall s, In s (ids G) -> onchain G s x -> anc G s x.
Proof.
  intros G HG. apply (creation_ind G (fun x => forall s, In s (ids G) -> onchain G s x -> anc G s x) HG).
  intros c Hc IH s Hs Hon. inversion Hon as [|x c' Hc' Hsc]; [apply anc_refl|]. subst x.
  rewrite (ginv_find G c HG Hc) in Hc'. inversion Hc'; subst c'.
  destruct (cprev c) as [|p ps] eqn:Ep.
  - exfalso. destruct (g_root G HG c Hc Ep) as [H0 _]. rewrite H0 in Hsc.
    apply onchain_zero in Hsc; [|exact HG]. subst s. exact (g_nozero G HG Hs).
  - assert (Hne : cprev c <> []) by (rewrite Ep; discriminate).
    pose proof (snap_known G c HG Hc Hne) as Hsk.
    assert (H1 : anc G s (csnap c)) by (apply IH; [left; reflexivity | exact Hsk | exact Hs | exact Hsc]).
    assert (Hpin : In p (cprev c)) by (rewrite Ep; left; reflexivity).
    destruct (g_prev G HG c p Hc Hpin) as [Hpg Hpc].
    assert (H2 : anc G (csnap c) p) by (apply IH; [right; try rewrite Ep; left; reflexivity | exact Hpg | exact Hsk | exact Hpc]).
    eapply anc_trans; [exact H1|]. eapply anc_step; [apply ginv_find; eassumption | exact Hpin | exact H2].
Qed.

(* walking down from a change h that has s on its chain: every ancestor of h has s on its chain or is an ancestor of s *)
Lemma walk_down : forall G s h x, ginv G -> onchain G s h -> anc G x h -> onchain G s x \/ anc G x s.
Proof.
  intros G s h x HG Hon Hanc. induction Hanc as [|h c p Hc Hp Hxp IH]; [left; exact Hon|].
  inversion Hon as [|h' c' Hc' Hsc].
  - subst s. right. eapply anc_step; eassumption.
  - subst h'. rewrite Hc in Hc'. inversion Hc'; subst c'.
    apply IH. destruct (find_in _ _ _ Hc) as [Hin _].
    destruct (g_prev G HG c p Hin Hp) as [_ Hpc]. eapply onchain_trans; eassumption.
Qed.

(* a proper chain element is a snapshot *)
Lemma onchain_snap : forall G s x, ginv G -> In s (ids G) -> onchain G s x ->
  s = x \/ exists sc, find_change G s = Some sc /\ cissnap sc = true.
Proof.
  intros G s x HG Hs H. induction H as [|x c Hc Hsc IH]; [left; reflexivity|].
  right. destruct IH as [E|E]; [|exact E].
  destruct (find_in _ _ _ Hc) as [Hin _].
  destruct (cprev c) as [|p ps] eqn:Ep.
  - exfalso. destruct (g_root G HG c Hin Ep) as [H0 _]. rewrite E, H0 in Hs. exact (g_nozero G HG Hs).
  - rewrite E. apply (g_snap G HG c Hin). rewrite Ep. discriminate.
Qed.

Lemma anc_pos : forall G x y, ginv G -> In x (ids G) -> anc G x y -> x = y \/ pos G x < pos G y.
Proof.
  intros G x y HG Hx H. induction H as [|y c p Hc Hp Hxp IH]; [left; reflexivity|].
  right. destruct (find_in _ _ _ Hc) as [Hin Hid].
  destruct (g_prev G HG c p Hin Hp) as [Hpg _].
  assert (Hlt : pos G p < pos G (cid c)) by (apply pos_lt; [exact HG | exact Hin | right; exact Hp | exact Hpg]).
  rewrite Hid in Hlt. destruct IH as [E|E]; [subst p; exact Hlt | lia].
Qed.

(* ---------------------------------------------------------------- the attach pass, again *)

Lemma attach_in : forall cand L v i, In i (fold_left (attach_one cand) L v) -> In i v \/ In i (ids L).
Proof.
  intros cand L. induction L as [|c L IH]; intros v i H; [left; exact H|].
  cbn [fold_left] in H. apply IH in H. destruct H as [H|H]; [|right; right; exact H].
  unfold attach_one in H. destruct (mem (cid c) v); [left; exact H|].
  destruct (mem (cid c) cand && all_in (cprev c) v && mem (csnap c) v); [|left; exact H].
  destruct H as [<-|H]; [right; left; reflexivity | left; exact H].
Qed.

Lemma attach_mono : forall cand L v, incl v (fold_left (attach_one cand) L v).
Proof.
  intros cand L v. destruct (attach_pass_spec L cand L v (fun c H => H)) as [H _]. exact H.
Qed.

(* one pass in creation order reaches the closure: an offered change whose previous ids and snapshot base end up
   attached is attached *)
Lemma attach_pass_closed : forall G cand v c, ginv G -> In c G -> In (cid c) cand ->
  (forall p, In p (csnap c :: cprev c) -> In p (attach_pass G cand v)) ->
  In (cid c) (attach_pass G cand v).
Proof.
  intros G cand v c HG Hc Hcand Hdeps. unfold attach_pass in *.
  apply in_split in Hc. destruct Hc as [pre [post E]].
  pose proof (g_nodup G HG) as Hnd. rewrite E in Hnd.
  rewrite E in Hdeps |- *. rewrite fold_left_app in Hdeps |- *. cbn [fold_left] in Hdeps |- *.
  set (v1 := fold_left (attach_one cand) pre v) in *.
  assert (Hin1 : forall p, In p (csnap c :: cprev c) -> In p v1).
  { intros p Hp. pose proof (Hdeps p Hp) as H. apply attach_in in H. destruct H as [H|H].
    - unfold attach_one in H. destruct (mem (cid c) v1); [exact H|].
      destruct (mem (cid c) cand && all_in (cprev c) v1 && mem (csnap c) v1); [|exact H].
      destruct H as [H|H]; [|exact H].
      (* p = cid c: impossible, a dependency occurs earlier *)
      exfalso. assert (Hpg : In p (ids G)) by (rewrite E, ids_app; apply in_or_app; right; left; exact H).
      pose proof (g_ord G HG pre c post E p Hp Hpg) as Hpre. destruct (split_nodup _ _ _ Hnd) as [Hn _].
      rewrite <- H in Hpre. exact (Hn Hpre).
    - exfalso. assert (Hpg : In p (ids G)) by (rewrite E, ids_app; apply in_or_app; right; right; exact H).
      pose proof (g_ord G HG pre c post E p Hp Hpg) as Hpre.
      rewrite ids_app in Hnd. apply NoDup_remove_1 in Hnd.
      assert (Hd : NoDup (ids pre ++ ids post)) by exact Hnd.
      clear - Hd Hpre H. induction (ids pre) as [|a l IH]; [destruct Hpre|].
      cbn [app] in Hd. inversion Hd as [|a' l' Ha Hd']; subst. destruct Hpre as [->|Hpre].
      + apply Ha. apply in_or_app. right. exact H.
      + apply IH; assumption. }
  apply attach_mono. unfold attach_one. destruct (mem (cid c) v1) eqn:E1; [apply mem_In; exact E1|].
  assert (Ea : all_in (cprev c) v1 = true).
  { unfold all_in. apply forallb_forall. intros p Hp. apply mem_In. apply Hin1. right. exact Hp. }
  assert (Es : mem (csnap c) v1 = true) by (apply mem_In; apply Hin1; left; reflexivity).
  assert (Ec : mem (cid c) cand = true) by (apply mem_In; exact Hcand).
  rewrite Ea, Es, Ec. left. reflexivity.
Qed.

(* everything attached on top of changes that have s on their chain has s on its chain *)
Lemma attach_onchain : forall G cand v s, ginv G ->
  (forall x, In x v -> onchain G s x) -> (forall x, In x v -> In x (ids G)) ->
  forall x, In x (attach_pass G cand v) -> onchain G s x.
Proof.
  intros G cand v s HG Hv Hvg.
  destruct (attach_pass_spec G cand G v (fun c H => H)) as [_ Hspec]. fold (attach_pass G cand v) in Hspec.
  assert (Hg : forall x, In x (attach_pass G cand v) -> In x (ids G)).
  { intros x Hx. destruct (Hspec x Hx) as [H|[_ [c [Hc [Hid _]]]]]; [apply Hvg; exact H|].
    subst x. unfold ids. apply in_map. exact Hc. }
  assert (H : forall x, In x (ids G) -> In x (attach_pass G cand v) -> onchain G s x).
  { apply (creation_ind G (fun x => In x (attach_pass G cand v) -> onchain G s x) HG).
    intros c Hc IH Hx. destruct (Hspec (cid c) Hx) as [H|[_ [c' [Hc' [Hid [_ Hsn]]]]]]; [apply Hv; exact H|].
    assert (c' = c).
    { pose proof (ginv_find G c' HG Hc') as F1. pose proof (ginv_find G c HG Hc) as F2. rewrite Hid in F1. congruence. }
    subst c'. eapply oc_step; [apply ginv_find; eassumption|].
    apply IH; [left; reflexivity | apply Hg; exact Hsn | exact Hsn]. }
  intros x Hx. apply H; [apply Hg; exact Hx | exact Hx].
Qed.

(* completeness of the attach pass on top of a tree loaded at s: if A (stored) and U ⊇ A are causally closed and every
   member of U outside A is offered, every member of U with s on its chain gets attached *)
Lemma attach_complete_chain : forall G A U cand s, ginv G ->
  closed G A -> closed G U -> incl A U -> In s A ->
  (forall x, In x U -> ~ In x A -> In x cand) ->
  forall x, In x U -> onchain G s x -> In x (attach_pass G cand (mview G A s)).
Proof.
  intros G A U cand s HG HclA HclU HAU Hs Hoff.
  assert (Hsg : In s (ids G)) by (exact (closed_ids G A s HclA Hs)).
  (* first the stored part: the loaded view *)
  assert (Hview : forall x, In x (ids G) -> In x A -> onchain G s x -> In x (mview G A s)).
  { apply (creation_ind G (fun x => In x A -> onchain G s x -> In x (mview G A s)) HG).
    intros c Hc IH HxA Hon. unfold mview.
    inversion Hon as [|x c' Hc' Hsc]; [apply attach_mono; left; reflexivity|]. subst x.
    rewrite (ginv_find G c HG Hc) in Hc'. inversion Hc'; subst c'.
    destruct (HclA (cid c) HxA) as [c2 [Hc2 HprA]]. rewrite (ginv_find G c HG Hc) in Hc2. inversion Hc2; subst c2.
    assert (Hne : cprev c <> []).
    { intro Ep. destruct (g_root G HG c Hc Ep) as [H0 _]. rewrite H0 in Hsc. apply onchain_zero in Hsc; [|exact HG].
      subst s. exact (g_nozero G HG Hsg). }
    pose proof (snap_known G c HG Hc Hne) as Hsk.
    assert (HsnA : In (csnap c) A).
    { apply (closed_anc G A (csnap c) (cid c) HclA HxA).
      destruct (cprev c) as [|p ps] eqn:Ep; [contradiction|].
      assert (Hpin : In p (cprev c)) by (rewrite Ep; left; reflexivity).
      destruct (g_prev G HG c p Hc Hpin) as [Hpg Hpc].
      eapply anc_step; [apply ginv_find; eassumption | exact Hpin |].
      apply onchain_anc; assumption. }
    apply attach_pass_closed; [exact HG | exact Hc | exact HxA |].
    intros p [<-|Hp].
    - apply IH; [left; reflexivity | exact Hsk | exact HsnA | exact Hsc].
    - destruct (g_prev G HG c p Hc Hp) as [Hpg Hpc].
      apply IH; [right; exact Hp | exact Hpg | apply HprA; exact Hp | eapply onchain_trans; eassumption]. }
  assert (H : forall x, In x (ids G) -> In x U -> onchain G s x -> In x (attach_pass G cand (mview G A s))).
  { apply (creation_ind G (fun x => In x U -> onchain G s x -> In x (attach_pass G cand (mview G A s))) HG).
    intros c Hc IH HxU Hon.
    destruct (In_dec_N (cid c) A) as [HxA|HxA].
    { apply attach_mono. apply Hview; [unfold ids; apply in_map; exact Hc | exact HxA | exact Hon]. }
    inversion Hon as [|x c' Hc' Hsc]; [exfalso; apply HxA; congruence|]. subst x.
    rewrite (ginv_find G c HG Hc) in Hc'. inversion Hc'; subst c'.
    destruct (HclU (cid c) HxU) as [c2 [Hc2 HprU]]. rewrite (ginv_find G c HG Hc) in Hc2. inversion Hc2; subst c2.
    assert (Hne : cprev c <> []).
    { intro Ep. destruct (g_root G HG c Hc Ep) as [H0 _]. rewrite H0 in Hsc. apply onchain_zero in Hsc; [|exact HG].
      subst s. exact (g_nozero G HG Hsg). }
    pose proof (snap_known G c HG Hc Hne) as Hsk.
    assert (HsnU : In (csnap c) U).
    { apply (closed_anc G U (csnap c) (cid c) HclU HxU).
      destruct (cprev c) as [|p ps] eqn:Ep; [contradiction|].
      assert (Hpin : In p (cprev c)) by (rewrite Ep; left; reflexivity).
      destruct (g_prev G HG c p Hc Hpin) as [Hpg Hpc].
      eapply anc_step; [apply ginv_find; eassumption | exact Hpin |].
      apply onchain_anc; assumption. }
    apply attach_pass_closed; [exact HG | exact Hc | apply Hoff; assumption |].
    intros p [<-|Hp].
    - apply IH; [left; reflexivity | exact Hsk | exact HsnU | exact Hsc].
    - destruct (g_prev G HG c p Hc Hp) as [Hpg Hpc].
      apply IH; [right; exact Hp | exact Hpg | apply HprU; exact Hp | eapply onchain_trans; eassumption]. }
  intros x HxU Hon. apply H; [eapply closed_ids; eassumption | exact HxU | exact Hon].
Qed.

(* the in-memory view of a causally closed store loaded at a stored change s: the stored changes with s on their chain *)
Lemma view_char : forall G A s x, ginv G -> closed G A -> In s A ->
  (In x (mview G A s) <-> In x A /\ onchain G s x).
Proof.
  intros G A s x HG Hcl Hs. split.
  - intros Hx. split.
    + apply mview_incl in Hx. destruct Hx as [->|Hx]; assumption.
    + unfold mview in Hx. revert x Hx. apply attach_onchain; [exact HG | |].
      * intros y [<-|[]]. apply oc_refl.
      * intros y [<-|[]]. eapply closed_ids; eassumption.
  - intros [HxA Hon].
    assert (H : In x (attach_pass G [] (mview G A s))).
    { apply (attach_complete_chain G A A [] s HG Hcl Hcl (incl_refl A) Hs); [|exact HxA | exact Hon].
      intros y Hy Hn. contradiction. }
    unfold attach_pass in H. apply attach_in in H. destruct H as [H|H]; [exact H|].
    (* nothing is offered: the second pass attaches nothing *)
    clear - H HxA Hon HG Hcl Hs.
    assert (Hno : forall L v, fold_left (attach_one []) L v = v).
    { induction L as [|c L IH]; intros v; [reflexivity|]. cbn [fold_left]. rewrite <- (IH v) at 2. f_equal.
      unfold attach_one. destruct (mem (cid c) v); [reflexivity|]. reflexivity. }
    pose proof (attach_complete_chain G A A [] s HG Hcl Hcl (incl_refl A) Hs (fun y _ Hn => False_ind _ (Hn ltac:(assumption)))) as H2.
    specialize (H2 x HxA Hon). unfold attach_pass in H2. rewrite Hno in H2. exact H2.
Qed.

(* ---------------------------------------------------------------- heads of a finite set *)

Lemma find_all_in : forall G l c, In c (find_all G l) -> In c G /\ In (cid c) l.
Proof.
  induction l as [|i r IH]; intros c H; [destruct H|]. cbn [find_all] in H.
  destruct (find_change G i) as [c0|] eqn:E.
  - destruct H as [<-|H].
    + apply find_change_sound in E. destruct E as [E1 E2]. split; [exact E1 | left; symmetry; exact E2].
    + destruct (IH c H) as [H1 H2]. split; [exact H1 | right; exact H2].
  - destruct (IH c H) as [H1 H2]. split; [exact H1 | right; exact H2].
Qed.

Lemma find_all_ids_in : forall G l x, In x l -> In x (ids G) -> In x (ids (find_all G l)).
Proof.
  induction l as [|i r IH]; intros x Hx Hg; [destruct Hx|]. cbn [find_all].
  destruct Hx as [->|Hx].
  - destruct (ids_find G x Hg) as [c Hc]. rewrite Hc. cbn [ids map]. left. apply find_change_sound in Hc. tauto.
  - destruct (find_change G i); [right|]; apply IH; assumption.
Qed.

Lemma heads_in_spec : forall G v h, In h (heads_in G v) <->
  In h (ids (find_all G v)) /\ children_occ (find_all G v) h = [].
Proof.
  intros G v h. unfold heads_in, heads_of. rewrite isort_In, filter_In.
  split; intros [H1 H2]; (split; [exact H1|]); destruct (children_occ (find_all G v) h); congruence.
Qed.

(* every member of a finite set of known changes is below some head of the set *)
Lemma below_head : forall G v, ginv G -> (forall x, In x v -> In x (ids G)) ->
  forall x, In x v -> exists h, In h (heads_in G v) /\ anc G x h.
Proof.
  intros G v HG Hvg.
  assert (H : forall n x, length G - pos G x < n -> In x v -> exists h, In h (heads_in G v) /\ anc G x h).
  { induction n as [|n IH]; intros x Hlt Hx; [lia|].
    destruct (children_occ (find_all G v) x) as [|y ys] eqn:Ech.
    - exists x. split; [|apply anc_refl]. apply heads_in_spec. split; [|exact Ech].
      apply find_all_ids_in; [exact Hx | apply Hvg; exact Hx].
    - assert (Hy : In y (children_occ (find_all G v) x)) by (rewrite Ech; left; reflexivity).
      apply children_occ_In in Hy. destruct Hy as [c [Hc [Hid Hp]]].
      destruct (find_all_in G v c Hc) as [HcG Hcv]. rewrite Hid in Hcv.
      assert (Hxg : In x (ids G)) by (apply Hvg; exact Hx).
      assert (Hpl : pos G x < pos G (cid c)) by (apply pos_lt; [exact HG | exact HcG | right; exact Hp | exact Hxg]).
      assert (Hyl : pos G y < length G).
      { assert (Hyg : In y (ids G)) by (apply Hvg; exact Hcv).
        destruct (pos_in G [] y Hyg) as [E1 E2]. rewrite app_nil_r in E1. exact E2. }
      rewrite Hid in Hpl.
      destruct (IH y ltac:(lia) Hcv) as [h [Hh Hyh]]. exists h. split; [exact Hh|].
      eapply anc_trans; [|exact Hyh]. eapply anc_step; [rewrite <- Hid; apply ginv_find; eassumption | exact Hp | apply anc_refl]. }
  intros x Hx. apply (H (S (length G - pos G x))); [lia | exact Hx].
Qed.

(* ---------------------------------------------------------------- the replica invariant *)

Definition is_snap (G : list change) (i : N) : Prop := exists s, find_change G i = Some s /\ cissnap s = true.

Definition rinv (G : list change) (r : replica) : Prop :=
  closed G (r_have r) /\ In (r_root r) (r_have r) /\ is_snap G (r_root r)
  /\ forall x, In x (r_have r) -> anc G x (r_root r) \/ onchain G (r_root r) x.

Definition sinv (w : world) : Prop := ginv (wG w) /\ Forall (rinv (wG w)) (w_reps w).

Lemma sinv_winv : forall w, sinv w -> winv w.
Proof.
  intros w [HG Hf]. split; [apply g_nodup; exact HG|].
  eapply Forall_impl; [|exact Hf]. intros r [H1 [H2 _]]. split; assumption.
Qed.

Lemma rinv_view : forall G r x, ginv G -> rinv G r ->
  (In x (rep_view G r) <-> In x (r_have r) /\ onchain G (r_root r) x).
Proof. intros G r x HG [Hcl [Hr _]]. unfold rep_view. apply view_char; assumption. Qed.

(* the snapshot discipline: for a snapshot s on the replica's chain every stored change has s on its chain or is an
   ancestor of s *)
Lemma discipline : forall G r s x, ginv G -> rinv G r -> onchain G s (r_root r) -> In x (r_have r) ->
  onchain G s x \/ anc G x s.
Proof.
  intros G r s x HG [_ [_ [_ HD]]] Hs Hx. destruct (HD x Hx) as [H|H].
  - eapply walk_down; eassumption.
  - left. eapply onchain_trans; eassumption.
Qed.

Lemma have_below_head : forall G r x, ginv G -> rinv G r -> In x (r_have r) ->
  exists h, In h (rep_heads G r) /\ anc G x h.
Proof.
  intros G r x HG Hr Hx. pose proof Hr as [Hcl [Hroot [_ HD]]].
  assert (Hvg : forall y, In y (rep_view G r) -> In y (ids G)).
  { intros y Hy. apply (rinv_view G r y HG Hr) in Hy. eapply closed_ids; [exact Hcl | exact (proj1 Hy)]. }
  assert (Hrv : In (r_root r) (rep_view G r)) by (apply (rinv_view G r _ HG Hr); split; [exact Hroot | apply oc_refl]).
  unfold rep_heads. destruct (HD x Hx) as [H|H].
  - destruct (below_head G _ HG Hvg _ Hrv) as [h [Hh Hah]]. exists h. split; [exact Hh | eapply anc_trans; eassumption].
  - apply (below_head G _ HG Hvg). apply (rinv_view G r x HG Hr). split; assumption.
Qed.

(* establishing (D) for a new root *)
Lemma new_root_D : forall G (A : list N) root', ginv G ->
  (forall x, In x A -> exists h, anc G x h /\ onchain G root' h) ->
  forall x, In x A -> anc G x root' \/ onchain G root' x.
Proof.
  intros G A root' HG H x Hx. destruct (H x Hx) as [h [Hah Hoh]].
  destruct (walk_down G root' h x HG Hoh Hah) as [H1|H1]; [right | left]; exact H1.
Qed.

(* ---------------------------------------------------------------- reduce_root picks a common chain element of the heads *)

Lemma chain_to_root_nth : forall fuel G v root cur path d,
  chain_to_root fuel G v root cur = Some path ->
  (forall j, j < length path -> onchain G (nth j path d) cur)
  /\ (forall i j, i <= j -> j < length path -> onchain G (nth j path d) (nth i path d)).
Proof.
  induction fuel as [|f IH]; intros G v root cur path d H; cbn [chain_to_root] in H.
  - destruct (N.eqb cur root); [|discriminate]. inversion H; subst path. cbn [length].
    split; [intros j Hj | intros i j Hij Hj]; (assert (j = 0) by lia; subst j).
    + apply oc_refl.
    + assert (i = 0) by lia. subst i. apply oc_refl.
  - destruct (N.eqb cur root).
    + inversion H; subst path. cbn [length].
      split; [intros j Hj | intros i j Hij Hj]; (assert (j = 0) by lia; subst j).
      * apply oc_refl.
      * assert (i = 0) by lia. subst i. apply oc_refl.
    + destruct (mem cur v); [|discriminate]. destruct (find_change G cur) as [c|] eqn:Ec; [|discriminate].
      destruct (chain_to_root f G v root (csnap c)) as [q|] eqn:Eq; [|discriminate]. cbn [option_map] in H.
      inversion H; subst path. destruct (IH _ _ _ _ _ d Eq) as [I1 I2]. cbn [length]. split.
      * intros [|j] Hj; cbn [nth]; [apply oc_refl|]. eapply oc_step; [exact Ec|]. apply I1. lia.
      * intros [|i] [|j] Hij Hj; cbn [nth]; try lia; [apply oc_refl | | apply I2; lia].
        eapply oc_step; [exact Ec|]. apply I1. lia.
Qed.

Lemma index_of_nth : forall t l n k d, index_of t l n = Some k -> n <= k /\ k - n < length l /\ nth (k - n) l d = t.
Proof.
  intros t l. induction l as [|a r IH]; intros n k d H; cbn [index_of] in H; [discriminate|].
  destruct (N.eqb a t) eqn:E.
  - inversion H; subst k. apply N.eqb_eq in E. replace (n - n) with 0 by lia. cbn [nth length]. split; [lia | split; [lia | exact E]].
  - destruct (IH _ _ d H) as [H1 [H2 H3]]. cbn [length]. split; [lia | split; [lia|]].
    replace (k - n) with (S (k - S n)) by lia. cbn [nth]. exact H3.
Qed.

Lemma meet_at_chain : forall fuel G v path cur k,
  meet_at fuel G v path cur = Some k -> exists t, index_of t path 0 = Some k /\ onchain G t cur.
Proof.
  induction fuel as [|f IH]; intros G v path cur k H; cbn [meet_at] in H.
  - destruct (mem cur v); [|discriminate]. destruct (index_of cur path 0) as [k0|] eqn:E; [|discriminate].
    inversion H; subst k0. exists cur. split; [exact E | apply oc_refl].
  - destruct (mem cur v); [|discriminate]. destruct (index_of cur path 0) as [k0|] eqn:E.
    + inversion H; subst k0. exists cur. split; [exact E | apply oc_refl].
    + destruct (find_change G cur) as [c|] eqn:Ec; [|discriminate].
      destruct (IH _ _ _ _ _ H) as [t [H1 H2]]. exists t. split; [exact H1 | eapply oc_step; eassumption].
Qed.

Lemma max_meet_at_chain : forall fuel G v path hs mx k,
  max_meet_at fuel G v path hs mx = Some k ->
  mx <= k /\ (k = mx \/ k < length path)
  /\ forall h, In h hs -> exists kh t, kh <= k /\ index_of t path 0 = Some kh /\ onchain G t h.
Proof.
  intros fuel G v path hs. induction hs as [|h r IH]; intros mx k H; cbn [max_meet_at] in H.
  - inversion H; subst k. split; [lia | split; [left; reflexivity | intros h []]].
  - destruct (find_change G h) as [hc|] eqn:Eh; [|discriminate].
    destruct (meet_at fuel G v path (csnap hc)) as [k0|] eqn:Em; [|discriminate].
    destruct (IH _ _ H) as [H1 [H2 H3]].
    destruct (meet_at_chain _ _ _ _ _ _ Em) as [t [Ht1 Ht2]].
    destruct (index_of_nth _ _ _ _ 0%N Ht1) as [_ [Hlen _]].
    split; [lia | split].
    + destruct H2 as [H2|H2]; [|right; exact H2]. destruct (Nat.max_spec mx k0) as [[_ Emax]|[_ Emax]]; rewrite Emax in H2.
      * right. lia.
      * left. exact H2.
    + intros h' [<-|Hh'].
      * exists k0, t. split; [lia | split; [exact Ht1 | eapply oc_step; eassumption]].
      * apply H3. exact Hh'.
Qed.

Lemma reduce_root_chain : forall G v hs root, ginv G -> (forall x, In x v -> In x (ids G)) -> incl hs v ->
  let r' := reduce_root G v hs root in
  r' = root \/ (In r' v /\ is_snap G r' /\ forall h, In h hs -> onchain G r' h).
Proof.
  intros G v hs root HG Hvg Hhs r'. unfold r', reduce_root.
  destruct hs as [|h0 rest]; [left; reflexivity|].
  destruct (find_change G h0) as [fh|] eqn:Efh; [|left; reflexivity].
  destruct (find_in _ _ _ Efh) as [Hfh Hfid].
  assert (Hsnapfh : In (csnap fh) (ids G) -> is_snap G (csnap fh)).
  { intros Hin. apply (g_snap G HG fh Hfh). intro Ep. destruct (g_root G HG fh Hfh Ep) as [H0 _].
    rewrite H0 in Hin. exact (g_nozero G HG Hin). }
  destruct (cissnap fh && is_nil rest) eqn:E1.
  { right. apply andb_true_iff in E1. destruct E1 as [E1 E2]. destruct rest; [|discriminate].
    split; [apply Hhs; left; reflexivity|]. split; [exists fh; split; assumption|].
    intros h [<-|[]]. apply oc_refl. }
  destruct (mem (csnap fh) v) eqn:Ev; [|left; reflexivity]. apply mem_In in Ev.
  destruct (is_nil rest) eqn:E2.
  { right. destruct rest; [|discriminate]. split; [exact Ev|]. split; [apply Hsnapfh; apply Hvg; exact Ev|].
    intros h [<-|[]]. eapply oc_step; [exact Efh | apply oc_refl]. }
  destruct (chain_to_root (S (length G)) G v root (csnap fh)) as [path|] eqn:Ep; [|left; reflexivity].
  destruct (max_meet_at (S (length G)) G v path rest 0) as [k|] eqn:Ek; [|left; reflexivity].
  destruct (Nat.lt_ge_cases k (length path)) as [Hk|Hk]; [|left; apply nth_overflow; exact Hk].
  destruct (chain_to_root_nth _ _ _ _ _ _ root Ep) as [C1 C2].
  destruct (max_meet_at_chain _ _ _ _ _ _ _ Ek) as [_ [_ M3]].
  assert (Hin : In (nth k path root) path) by (apply nth_In; exact Hk).
  destruct (chain_to_root_in _ _ _ _ _ _ Ep _ Hin) as [Hr|Hv]; [left; exact Hr|].
  right. split; [exact Hv|]. split.
  - pose proof (C1 k Hk) as Hon.
    destruct (onchain_snap G _ _ HG (Hvg _ Hv) Hon) as [E|E]; [|exact E].
    rewrite E. apply Hsnapfh. apply Hvg. exact Ev.
  - intros h [<-|Hh].
    + eapply oc_step; [exact Efh | apply C1; exact Hk].
    + destruct (M3 h Hh) as [kh [t [Hle [Hidx Hon]]]].
      destruct (index_of_nth _ _ _ _ root Hidx) as [_ [Hlt Hnth]]. rewrite Nat.sub_0_r in Hlt, Hnth.
      eapply onchain_trans; [|exact Hon]. rewrite <- Hnth. apply C2; [exact Hle | exact Hk].
Qed.

(* ---------------------------------------------------------------- snapshot paths and the common snapshot *)

Lemma find_find_all : forall G A i c, find_change (find_all G A) i = Some c -> find_change G i = Some c.
Proof.
  intros G A. induction A as [|j A IH]; intros i c H; [discriminate|]. cbn [find_all] in H.
  destruct (find_change G j) as [cj|] eqn:Ej; [|apply IH; exact H].
  cbn [find_change] in H. destruct (N.eqb (cid cj) i) eqn:E; [|apply IH; exact H].
  inversion H; subst cj. apply N.eqb_eq in E. destruct (find_in _ _ _ Ej) as [_ Hid]. congruence.
Qed.

Lemma find_all_find : forall G A i c, In i A -> find_change G i = Some c -> find_change (find_all G A) i = Some c.
Proof.
  intros G A. induction A as [|j A IH]; intros i c Hi H; [destruct Hi|]. cbn [find_all].
  destruct (find_change G j) as [cj|] eqn:Ej.
  - cbn [find_change]. destruct (find_in _ _ _ Ej) as [_ Hid]. rewrite Hid.
    destruct (N.eqb j i) eqn:E; [apply N.eqb_eq in E; congruence|].
    destruct Hi as [Hi|Hi]; [apply N.eqb_neq in E; contradiction | apply IH; assumption].
  - destruct Hi as [Hi|Hi]; [congruence | apply IH; assumption].
Qed.

Lemma path_loop_chain : forall fuel G A i P, path_loop fuel (find_all G A) i = Some P ->
  forall s, In s P -> onchain G s i /\ In s (ids G).
Proof.
  induction fuel as [|f IH]; intros G A i P H s Hs; cbn [path_loop] in H.
  - destruct (N.eqb i 0); [|discriminate]. inversion H; subst P. destruct Hs.
  - destruct (N.eqb i 0); [inversion H; subst P; destruct Hs|].
    destruct (find_change (find_all G A) i) as [c|] eqn:Ec; [|discriminate]. apply find_find_all in Ec.
    destruct (path_loop f (find_all G A) (csnap c)) as [Q|] eqn:EQ; [|discriminate]. cbn [option_map] in H.
    inversion H; subst P. destruct Hs as [<-|Hs].
    + split; [apply oc_refl | eapply find_ids; exact Ec].
    + destruct (IH _ _ _ _ EQ s Hs) as [H1 H2]. split; [eapply oc_step; eassumption | exact H2].
Qed.

Lemma rep_path_chain : forall G r P s, rep_path G r = Some P -> In s P -> onchain G s (r_root r) /\ In s (ids G).
Proof. intros G r P s H Hs. unfold rep_path in H. eapply path_loop_chain; eassumption. Qed.

Lemma drop_to_spec : forall x l l', drop_to x l = Some l' -> exists t, l' = x :: t /\ incl l' l.
Proof.
  intros x l. induction l as [|a r IH]; intros l' H; cbn [drop_to] in H; [discriminate|].
  destruct (N.eqb a x) eqn:E.
  - inversion H; subst l'. apply N.eqb_eq in E. subst a. exists r. split; [reflexivity | apply incl_refl].
  - destruct (IH _ H) as [t [H1 H2]]. exists t. split; [exact H1 | apply incl_tl; exact H2].
Qed.

Lemma find_start_spec : forall ro rt ro' rt', find_start ro rt = Some (ro', rt') ->
  exists a x y, ro' = a :: x /\ rt' = a :: y /\ incl ro' ro /\ incl rt' rt.
Proof.
  induction ro as [|a r IH]; intros rt ro' rt' H; cbn [find_start] in H; [discriminate|].
  destruct (drop_to a rt) as [l|] eqn:E.
  - inversion H; subst ro' rt'. destruct (drop_to_spec _ _ _ E) as [t [H1 H2]].
    exists a, r, t. split; [reflexivity | split; [exact H1 | split; [apply incl_refl | exact H2]]].
  - destruct (IH _ _ _ H) as [a' [x [y [H1 [H2 [H3 H4]]]]]]. exists a', x, y.
    split; [exact H1 | split; [exact H2 | split; [apply incl_tl; exact H3 | exact H4]]].
Qed.

Lemma common_walk_in : forall ro rt lst, common_walk lst ro rt = lst \/ (In (common_walk lst ro rt) ro /\ In (common_walk lst ro rt) rt).
Proof.
  induction ro as [|a r IH]; intros rt lst; cbn [common_walk]; [left; reflexivity|].
  destruct rt as [|b rt']; [left; reflexivity|]. destruct (N.eqb a b) eqn:E; [|left; reflexivity].
  apply N.eqb_eq in E. subst b. right. destruct (IH rt' a) as [H|[H1 H2]].
  - rewrite H. split; left; reflexivity.
  - split; right; assumption.
Qed.

Lemma common_snapshot_in : forall P Q b, common_snapshot P Q = Some b -> In b P /\ In b Q.
Proof.
  intros P Q b H. unfold common_snapshot in H. destruct (find_start (rev P) (rev Q)) as [[ro rt]|] eqn:E; [|discriminate].
  inversion H; subst b. destruct (find_start_spec _ _ _ _ E) as [a [x [y [H1 [H2 [H3 H4]]]]]]. subst ro rt.
  cbn [common_walk]. rewrite N.eqb_refl.
  assert (Hx : In (common_walk a x y) (a :: x) /\ In (common_walk a x y) (a :: y)).
  { destruct (common_walk_in x y a) as [Hw|[Hw1 Hw2]]; [rewrite Hw; split; left; reflexivity | split; right; assumption]. }
  destruct Hx as [Hx1 Hx2]. split; apply in_rev; [apply H3 | apply H4]; assumption.
Qed.

(* ---------------------------------------------------------------- apply preserves the replica invariant *)

Lemma list_eqb_true : forall a b, list_eqb a b = true -> a = b.
Proof.
  induction a as [|x a IH]; intros [|y b] H; cbn [list_eqb] in H; try discriminate; [reflexivity|].
  apply andb_true_iff in H. destruct H as [H1 H2]. apply N.eqb_eq in H1. subst y. f_equal. apply IH. exact H2.
Qed.

Lemma same_set_In : forall a b x, same_set a b = true -> (In x a <-> In x b).
Proof.
  intros a b x H. unfold same_set in H. apply list_eqb_true in H.
  rewrite <- (isort_In x a), <- (isort_In x b), H. reflexivity.
Qed.

Lemma apply_rinv : forall G r batch path r' res,
  ginv G -> rinv G r -> apply G r batch path = (r', res) -> rinv G r'.
Proof.
  intros G r batch path r' res HG Hr H. pose proof Hr as [Hcl [Hroot [Hsn HD]]].
  pose proof (g_nodup G HG) as Hnd.
  unfold apply in H.
  set (v := rep_view G r) in *. set (newc := dedup (minus batch v) []) in *.
  destruct (find_all G newc) as [|nc0 ncs] eqn:Enew; [inversion H; subst; exact Hr|].
  destruct (need_rb G v (r_root r) (ids (filter cissnap (nc0 :: ncs))) (nc0 :: ncs)) as [[|]|] eqn:Erb;
    [| |inversion H; subst; exact Hr].
  - (* rebuild from storage *)
    destruct path as [|p0 pr]; [inversion H; subst; exact Hr|].
    destruct (rep_path G r) as [ourPath|] eqn:Epath; [|inversion H; subst; exact Hr].
    destruct (common_snapshot ourPath (p0 :: pr)) as [base|] eqn:Ecs; [|inversion H; subst; exact Hr].
    destruct (mem base (r_have r)) eqn:Eb; cbn [negb] in H; [|inversion H; subst; exact Hr].
    apply mem_In in Eb.
    destruct (common_snapshot_in _ _ _ Ecs) as [Hbp _].
    destruct (rep_path_chain G r ourPath base Epath Hbp) as [Hbon Hbg].
    assert (Hv0 : incl (mview G (r_have r) base) (r_have r)).
    { intros x Hx. apply mview_incl in Hx. destruct Hx as [->|Hx]; assumption. }
    destruct (attach_grow_closed G (minus newc (r_have r)) _ _ Hnd Hcl Hv0) as [Hc' Hv1].
    set (v0 := mview G (r_have r) base) in *.
    set (v1 := attach_pass G (minus newc (r_have r)) v0) in *.
    assert (Hv1on : forall x, In x v1 -> onchain G base x).
    { apply attach_onchain; [exact HG | |].
      - intros x Hx. apply (view_char G (r_have r) base x HG Hcl Eb) in Hx. exact (proj2 Hx).
      - intros x Hx. eapply closed_ids; [exact Hcl | apply Hv0; exact Hx]. }
    assert (Hv1g : forall x, In x v1 -> In x (ids G)).
    { intros x Hx. eapply closed_ids; [exact Hc' | apply Hv1; exact Hx]. }
    assert (Hbsnap : is_snap G base).
    { destruct (onchain_snap G base (r_root r) HG Hbg Hbon) as [E|E]; [rewrite E; exact Hsn | exact E]. }
    injection H as Hr' Hres. subst r' res. unfold rinv. cbn [r_have r_root].
    split; [exact Hc'|].
    destruct (same_set (heads_in G v) (heads_in G v1) && mem (r_root r) v1 && negb (N.eqb base (r_root r))) eqn:Ekeep.
    + (* the old root is kept *)
      apply andb_true_iff in Ekeep. destruct Ekeep as [Ekeep _]. apply andb_true_iff in Ekeep. destruct Ekeep as [Esame _].
      split; [apply grow_r; exact Hroot|]. split; [exact Hsn|].
      intros x Hx. apply grow_In in Hx. destruct Hx as [Hx|Hx]; [|apply HD; exact Hx].
      apply minus_In in Hx. destruct Hx as [Hx _].
      destruct (below_head G v1 HG Hv1g x Hx) as [h [Hh Hah]].
      apply (same_set_In _ _ h Esame) in Hh. apply heads_in_incl in Hh.
      apply (rinv_view G r h HG Hr) in Hh. destruct Hh as [_ Hoh].
      destruct (walk_down G _ h x HG Hoh Hah) as [H1|H1]; [right | left]; exact H1.
    + split; [apply grow_r; exact Eb|]. split; [exact Hbsnap|].
      intros x Hx. apply grow_In in Hx. destruct Hx as [Hx|Hx].
      * apply minus_In in Hx. right. apply Hv1on. exact (proj1 Hx).
      * destruct (discipline G r base x HG Hr Hbon Hx) as [H1|H1]; [right | left]; exact H1.
  - (* normal path *)
    assert (Hv : incl v (r_have r)) by (apply rep_view_incl; exact Hroot).
    destruct (attach_grow_closed G newc v _ Hnd Hcl Hv) as [Hc' Hv1].
    destruct (minus (attach_pass G newc v) v) as [|a0 ar] eqn:Eadd; [inversion H; subst; exact Hr|].
    rewrite <- Eadd in H, Hc', Hv1.
    set (v1 := attach_pass G newc v) in *.
    assert (Hvv1 : incl v v1) by (apply attach_mono).
    assert (Hv1on : forall x, In x v1 -> onchain G (r_root r) x).
    { apply attach_onchain; [exact HG | |].
      - intros x Hx. apply (rinv_view G r x HG Hr) in Hx. exact (proj2 Hx).
      - intros x Hx. eapply closed_ids; [exact Hcl | apply Hv; exact Hx]. }
    assert (Hv1g : forall x, In x v1 -> In x (ids G)).
    { intros x Hx. eapply closed_ids; [exact Hc' | apply Hv1; exact Hx]. }
    assert (Hbelow : forall x, In x (minus (minus v1 v) (r_have r) ++ r_have r) -> exists h, In h (heads_in G v1) /\ anc G x h).
    { intros x Hx. apply grow_In in Hx.
      assert (Hy : exists y, In y v1 /\ anc G x y).
      { destruct Hx as [Hx|Hx].
        - apply minus_In in Hx. exists x. split; [exact (proj1 Hx) | apply anc_refl].
        - destruct (HD x Hx) as [H1|H1].
          + exists (r_root r). split; [|exact H1]. apply Hvv1. apply (rinv_view G r _ HG Hr). split; [exact Hroot | apply oc_refl].
          + exists x. split; [|apply anc_refl]. apply Hvv1. apply (rinv_view G r _ HG Hr). split; assumption. }
      destruct Hy as [y [Hy Hxy]]. destruct (below_head G v1 HG Hv1g y Hy) as [h [Hh Hyh]].
      exists h. split; [exact Hh | eapply anc_trans; eassumption]. }
    injection H as Hr' Hres. subst r' res. unfold rinv. cbn [r_have r_root].
    split; [exact Hc'|].
    assert (Hhs : incl (heads_in G v1) v1) by (intros h Hh; apply heads_in_incl in Hh; exact Hh).
    destruct (reduce_root_chain G v1 (heads_in G v1) (r_root r) HG Hv1g Hhs) as [E|[E1 [E2 E3]]].
    + rewrite E. split; [apply grow_r; exact Hroot|]. split; [exact Hsn|].
      apply new_root_D; [exact HG|]. intros x Hx. destruct (Hbelow x Hx) as [h [Hh Hxh]].
      exists h. split; [exact Hxh | apply Hv1on; apply Hhs; exact Hh].
    + split; [apply Hv1; exact E1|]. split; [exact E2|].
      apply new_root_D; [exact HG|]. intros x Hx. destruct (Hbelow x Hx) as [h [Hh Hxh]].
      exists h. split; [exact Hxh | apply E3; exact Hh].
Qed.

(* ---------------------------------------------------------------- steps *)

Lemma is_snap_app : forall G l i, is_snap G i -> is_snap (G ++ l) i.
Proof. intros G l i [s [H1 H2]]. exists s. split; [apply find_change_app; exact H1 | exact H2]. Qed.

Lemma rinv_app : forall G l r, rinv G r -> rinv (G ++ l) r.
Proof.
  intros G l r [H1 [H2 [H3 H4]]]. split; [apply closed_app; exact H1|]. split; [exact H2|].
  split; [apply is_snap_app; exact H3|]. intros x Hx. destruct (H4 x Hx) as [H|H]; [left; apply anc_app | right; apply onchain_app]; exact H.
Qed.

Lemma groot_app : forall G l, G <> [] -> groot (G ++ l) = groot G.
Proof. intros [|a G] l H; [contradiction | reflexivity]. Qed.

Lemma ginv_snoc : forall G c, ginv G ->
  ~ In (cid c) (ids G) -> cid c <> 0%N -> cprev c <> [] ->
  (forall p, In p (cprev c) -> In p (ids G) /\ onchain G (csnap c) p) ->
  is_snap G (csnap c) ->
  ginv (G ++ [c]).
Proof.
  intros G c HG Hfresh Hnz Hne Hprev Hsn.
  destruct (g_hd G HG) as [c0 [r0 [EG Hc0]]].
  assert (HGne : G <> []) by (rewrite EG; discriminate).
  assert (Hsg : In (csnap c) (ids G)) by (destruct Hsn as [s [Hs _]]; eapply find_ids; exact Hs).
  constructor.
  - rewrite ids_app. cbn [ids map]. apply NoDup_app_single; [apply g_nodup; exact HG | exact Hfresh].
  - rewrite ids_app. intro H. apply in_app_or in H. destruct H as [H|[H|[]]]; [exact (g_nozero G HG H) | congruence].
  - intros pre c1 post E p Hp Hin.
    destruct post as [|q post'] using rev_ind.
    + apply app_inj_tail in E. destruct E as [E1 E2]. subst pre c1.
      destruct Hp as [<-|Hp]; [exact Hsg | exact (proj1 (Hprev p Hp))].
    + clear IHpost'. rewrite app_comm_cons, app_assoc in E. apply app_inj_tail in E. destruct E as [E1 E2]. subst q.
      assert (Hc1 : In c1 G) by (rewrite E1; apply in_or_app; right; left; reflexivity).
      assert (HpG : In p (ids G)).
      { destruct Hp as [<-|Hp]; [|exact (proj1 (g_prev G HG c1 p Hc1 Hp))].
        destruct (cprev c1) as [|p1 ps] eqn:Ep.
        - exfalso. destruct (g_root G HG c1 Hc1 Ep) as [H0 _]. rewrite H0 in Hin.
          rewrite ids_app in Hin. apply in_app_or in Hin. destruct Hin as [Hin|[Hin|[]]]; [exact (g_nozero G HG Hin) | congruence].
        - apply (snap_known G c1 HG Hc1). rewrite Ep. discriminate. }
      exact (g_ord G HG pre c1 post' E1 p Hp HpG).
  - intros c1 p Hc1 Hp. apply in_app_or in Hc1. rewrite ids_app. destruct Hc1 as [Hc1|[<-|[]]].
    + destruct (g_prev G HG c1 p Hc1 Hp) as [H1 H2]. split; [apply in_or_app; left; exact H1 | apply onchain_app; exact H2].
    + destruct (Hprev p Hp) as [H1 H2]. split; [apply in_or_app; left; exact H1 | apply onchain_app; exact H2].
  - intros c1 Hc1 Hp1. apply in_app_or in Hc1. destruct Hc1 as [Hc1|[<-|[]]].
    + destruct (g_snap G HG c1 Hc1 Hp1) as [s [H1 H2]]. exists s. split; [apply find_change_app; exact H1 | exact H2].
    + apply is_snap_app. exact Hsn.
  - intros c1 Hc1 Hp1. rewrite (groot_app G [c] HGne). apply in_app_or in Hc1. destruct Hc1 as [Hc1|[<-|[]]].
    + exact (g_root G HG c1 Hc1 Hp1).
    + contradiction.
  - exists c0, (r0 ++ [c]). split; [rewrite EG; reflexivity | exact Hc0].
Qed.

Lemma add_from_peer_rinv : forall G n me from r heads chs path r' em res,
  ginv G -> rinv G r -> add_from_peer G n me from r heads chs path = (r', em, res) -> rinv G r'.
Proof.
  intros G n me from r heads chs path r' em res HG Hr H. unfold add_from_peer in H.
  destruct (has_heads G r heads); [inversion H; subst; exact Hr|].
  destruct (apply G r chs path) as [r1 a] eqn:Ea.
  pose proof (apply_rinv _ _ _ _ _ _ HG Hr Ea) as Hr1.
  destruct a; inversion H; subst; assumption.
Qed.

Lemma get_rep_rinv : forall w i, sinv w -> i < length (w_reps w) -> rinv (wG w) (get_rep w i).
Proof.
  intros w i [_ Hf] Hi. unfold get_rep. rewrite Forall_forall in Hf. apply Hf. apply nth_In. exact Hi.
Qed.

Lemma rep_heads_nonempty : forall G r, ginv G -> rinv G r -> rep_heads G r <> [].
Proof.
  intros G r HG Hr E. destruct (have_below_head G r (r_root r) HG Hr (proj1 (proj2 Hr))) as [h [Hh _]].
  rewrite E in Hh. destruct Hh.
Qed.

Lemma step_sinv : forall nb w l w' em, sinv w -> step nb w l = (w', em) -> sinv w'.
Proof.
  intros nb w l w' em Hw H. unfold step in H. destruct l as [i isSnap id size | i from m | i p].
  - (* LocalAdd *)
    destruct (Nat.ltb i (length (w_reps w)) && negb (has_change (wG w) id) && negb (N.eqb id 0)) eqn:Eg;
      [|inversion H; subst; exact Hw].
    apply andb_true_iff in Eg. destruct Eg as [Eg Enz]. apply andb_true_iff in Eg. destruct Eg as [Ei Efresh].
    apply Nat.ltb_lt in Ei. apply negb_true_iff in Efresh. apply negb_true_iff in Enz. apply N.eqb_neq in Enz.
    pose proof (get_rep_rinv w i Hw Ei) as Hr. destruct Hw as [HG Hf].
    set (G := wG w) in *. set (r := get_rep w i) in *.
    pose proof Hr as [Hcl [Hroot [Hsn HD]]].
    set (c := mkChange id (rep_heads G r) (r_root r) isSnap) in *.
    set (r' := mkRep (id :: r_have r) (if isSnap then id else r_root r)) in *.
    assert (HG' : wG (mkW (w_uni w ++ [mkSE c size]) (set_nth i r' (w_reps w))) = G ++ [c]).
    { unfold wG. cbn [w_uni]. rewrite map_app. reflexivity. }
    assert (Hfr : ~ In id (ids G)).
    { intro Hin. apply mem_In in Hin. unfold has_change in Efresh. congruence. }
    assert (Hheads : forall p, In p (rep_heads G r) -> In p (r_have r) /\ onchain G (r_root r) p).
    { intros p Hp. unfold rep_heads in Hp. apply heads_in_incl in Hp. apply (rinv_view G r p HG Hr). exact Hp. }
    assert (HGc : ginv (G ++ [c])).
    { apply ginv_snoc; cbn [cid cprev csnap c]; try assumption.
      - apply rep_heads_nonempty; assumption.
      - intros p Hp. destruct (Hheads p Hp) as [H1 H2]. split; [eapply closed_ids; eassumption | exact H2]. }
    assert (Hfc : find_change (G ++ [c]) id = Some c) by (change id with (cid c) at 1; apply find_change_fresh; exact Efresh).
    inversion H; subst w' em; clear H. split; rewrite HG'; [exact HGc|]. cbn [w_reps].
    apply Forall_set_nth; [eapply Forall_impl; [|exact Hf]; intros a Ha; apply rinv_app; exact Ha|].
    pose proof (rinv_app G [c] r Hr) as [Hcl' [_ [Hsn' HD']]].
    unfold rinv, r'. cbn [r_have r_root]. split; [|split; [|split]].
    + intros x [<-|Hx].
      * exists c. split; [exact Hfc|]. cbn [cprev c]. intros p Hp. right. exact (proj1 (Hheads p Hp)).
      * destruct (Hcl' x Hx) as [c0 [Hc0 Hp0]]. exists c0. split; [exact Hc0|]. intros p Hp. right. apply Hp0. exact Hp.
    + destruct isSnap; [left; reflexivity | right; exact Hroot].
    + destruct isSnap; [exists c; split; [exact Hfc | reflexivity] | exact Hsn'].
    + intros x [<-|Hx].
      * right. destruct isSnap; [apply oc_refl|]. eapply oc_step; [exact Hfc | cbn [csnap c]; apply oc_refl].
      * destruct isSnap; [|apply HD'; exact Hx].
        left. destruct (have_below_head G r x HG Hr Hx) as [h [Hh Hxh]].
        eapply anc_step; [exact Hfc | cbn [cprev c]; exact Hh | apply anc_app; exact Hxh].
  - (* Deliver *)
    destruct (Nat.ltb i (length (w_reps w))) eqn:Ei; [|inversion H; subst; exact Hw].
    apply Nat.ltb_lt in Ei. pose proof (get_rep_rinv w i Hw Ei) as Hr. destruct Hw as [HG Hf].
    assert (Hset : forall r', rinv (wG w) r' -> sinv (set_rep w i r')).
    { intros r' Hr'. split; [exact HG|]. unfold set_rep, wG. cbn [w_uni w_reps]. apply Forall_set_nth; assumption. }
    destruct m as [hs chs p | hs p | hs chs p].
    + destruct (handle_head (wG w) (length (w_reps w)) i from (get_rep w i) hs chs p) as [r' em0] eqn:Eh.
      inversion H; subst w' em; clear H. apply Hset. unfold handle_head in Eh. destruct chs as [|c0 cr].
      * destruct (has_heads _ _ _); inversion Eh; subst; exact Hr.
      * destruct (add_from_peer _ _ _ _ _ _ (c0 :: cr) _) as [[r1 em1] res] eqn:Ea.
        pose proof (add_from_peer_rinv _ _ _ _ _ _ _ _ _ _ _ HG Hr Ea) as H1.
        destruct res as [rh|]; [destruct (same_set rh hs)|]; inversion Eh; subst; exact H1.
    + inversion H; subst w' em. split; assumption.
    + destruct (handle_resp (wG w) (length (w_reps w)) i from (get_rep w i) hs chs p) as [r' em0] eqn:Eh.
      inversion H; subst w' em; clear H. apply Hset. unfold handle_resp in Eh. destruct chs as [|c0 cr].
      * inversion Eh; subst. exact Hr.
      * destruct (add_from_peer _ _ _ _ _ _ (c0 :: cr) _) as [[r1 em1] res] eqn:Ea.
        pose proof (add_from_peer_rinv _ _ _ _ _ _ _ _ _ _ _ HG Hr Ea) as H1. inversion Eh; subst. exact H1.
  - destruct (Nat.ltb i (length (w_reps w))); inversion H; subst; exact Hw.
Qed.

Lemma run_sinv : forall nb ls w, sinv w -> sinv (run nb w ls).
Proof.
  intros nb ls. induction ls as [|l ls IH]; intros w Hw; [exact Hw|].
  change (run nb w (l :: ls)) with (run nb (fst (step nb w l)) ls). apply IH.
  destruct (step nb w l) as [w' em] eqn:E. cbn [fst]. eapply step_sinv; eassumption.
Qed.

(* the tree root of an honest tree: no previous ids, no snapshot base, a snapshot, a proper id *)
Definition honest_root (root : change) : Prop :=
  cprev root = [] /\ csnap root = 0%N /\ cissnap root = true /\ cid root <> 0%N.

Lemma init_sinv : forall n root size, honest_root root -> sinv (init_world n root size).
Proof.
  intros n root size [Hp [Hs [Hi Hz]]]. unfold sinv, init_world, wG. cbn [w_uni w_reps map se_ch].
  assert (Hfind : find_change [root] (cid root) = Some root) by (cbn [find_change]; rewrite N.eqb_refl; reflexivity).
  split.
  - constructor; cbn [ids map].
    + constructor; [intros []|constructor].
    + intros [H|[]]. congruence.
    + intros pre c post E p Hp' Hin. destruct pre as [|a pre].
      * cbn [app] in E. inversion E; subst c post. destruct Hin as [Hin|[]]. subst p.
        destruct Hp' as [Hp'|Hp']; [congruence | rewrite Hp in Hp'; destruct Hp'].
      * cbn [app] in E. inversion E as [[E1 E2]]. destruct pre; discriminate.
    + intros c p [<-|[]] Hp'. rewrite Hp in Hp'. destruct Hp'.
    + intros c [<-|[]] Hne. contradiction.
    + intros c [<-|[]] _. split; [exact Hs | split; [exact Hi | reflexivity]].
    + exists root, []. split; [reflexivity | exact Hp].
  - apply Forall_forall. intros r Hr. apply repeat_spec in Hr. subst r. unfold rinv. cbn [r_have r_root].
    split; [|split; [left; reflexivity | split; [exists root; split; assumption|]]].
    + intros i [<-|[]]. exists root. split; [exact Hfind|]. rewrite Hp. intros p [].
    + intros x [<-|[]]. left. apply anc_refl.
Qed.

(* the snapshot discipline holds in every reachable state, whatever is delivered *)
Theorem snapshot_discipline_all_traces : forall nb n root size ls,
  honest_root root ->
  let w := run nb (init_world n root size) ls in
  forall r, In r (w_reps w) ->
    (forall x, In x (r_have r) -> anc (wG w) x (r_root r) \/ onchain (wG w) (r_root r) x)
    /\ (forall P s x, rep_path (wG w) r = Some P -> In s P -> In x (r_have r) -> onchain (wG w) s x \/ anc (wG w) x s)
    /\ (forall x, In x (rep_view (wG w) r) <-> In x (r_have r) /\ onchain (wG w) (r_root r) x).
Proof.
  intros nb n root size ls Hroot w r Hr.
  pose proof (run_sinv nb ls _ (init_sinv n root size Hroot)) as [HG Hf]. fold w in HG, Hf.
  rewrite Forall_forall in Hf. pose proof (Hf r Hr) as Hri.
  split; [exact (proj2 (proj2 (proj2 Hri)))|]. split.
  - intros P s x HP Hs Hx. destruct (rep_path_chain _ _ _ _ HP Hs) as [Hon _].
    eapply discipline; eassumption.
  - intros x. apply rinv_view; assumption.
Qed.
