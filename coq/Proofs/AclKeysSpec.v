(* C05 — the repaired property predicate only ENLARGES the allowed sets of the first version: whatever
   [spec_C05_legacy] accepts, [spec_C05] accepts. *)
From Coq Require Import List NArith Bool Lia.
Import ListNotations.
From AnySync Require Import Model.Acl Model.AclKeys Proofs.AclBase.
Open Scope N_scope.

Lemma dedup_In : forall x l, In x (dedup l) <-> In x l.
Proof.
  intros x l. induction l as [|y r IH]; cbn [dedup]; [tauto|].
  destruct (memN y r) eqn:E.
  - rewrite IH. split; [now right|]. intros [->|H]; [now apply memN_In|exact H].
  - cbn [In]. rewrite IH. tauto.
Qed.

Definition amap_le (m1 m2 : amap) : Prop := forall k x, In x (aget k m1) -> In x (aget k m2).

Lemma aget_add_allow : forall k gs m k' x,
  In x (aget k' (add_allow k gs m)) <-> (if k' =? k then In x (aget k m) \/ In x gs else In x (aget k' m)).
Proof.
  intros k gs m k' x. unfold add_allow, aget at 1. rewrite mget_mset.
  destruct (N.eqb_spec k' k) as [->|Hne].
  - rewrite dedup_In, in_app_iff. tauto.
  - reflexivity.
Qed.

Lemma amap_le_refl : forall m, amap_le m m.
Proof. intros m k x H. exact H. Qed.

Lemma amap_le_trans : forall a b c, amap_le a b -> amap_le b c -> amap_le a c.
Proof. intros a b c H1 H2 k x H. apply H2, H1, H. Qed.

Lemma add_allow_mono : forall k gs m1 m2, amap_le m1 m2 -> amap_le (add_allow k gs m1) (add_allow k gs m2).
Proof.
  intros k gs m1 m2 H k' x. rewrite !aget_add_allow. destruct (k' =? k).
  - intros [Hx|Hx]; [left; now apply H|now right].
  - apply H.
Qed.

Lemma add_allow_incr : forall k gs m, amap_le m (add_allow k gs m).
Proof.
  intros k gs m k' x Hx. rewrite aget_add_allow. destruct (N.eqb_spec k' k) as [->|_]; [now left|exact Hx].
Qed.

Lemma fold_allow_mono : forall (gs : list rid) l m1 m2,
  amap_le m1 m2 -> amap_le (fold_left (fun m a => add_allow a gs m) l m1) (fold_left (fun m a => add_allow a gs m) l m2).
Proof.
  intros gs l. induction l as [|a l IH]; intros m1 m2 H; cbn [fold_left]; [exact H|].
  apply IH. now apply add_allow_mono.
Qed.

Lemma fold_allow_incr : forall (gs : list rid) l m, amap_le m (fold_left (fun m a => add_allow a gs m) l m).
Proof.
  intros gs l. induction l as [|a l IH]; intros m; cbn [fold_left]; [apply amap_le_refl|].
  eapply amap_le_trans; [apply add_allow_incr|apply IH].
Qed.

Lemma admit_allow_incr : forall gb ga cs rot m, amap_le m (admit_allow gb ga rot cs m).
Proof.
  intros gb ga cs. induction cs as [|ck rest IH]; intros rot m; cbn [admit_allow]; [apply amap_le_refl|].
  eapply amap_le_trans; [apply fold_allow_incr|apply IH].
Qed.

Lemma subsetN_mono : forall a b c, subsetN a b = true -> (forall x, In x b -> In x c) -> subsetN a c = true.
Proof.
  intros a b c H Hbc. unfold subsetN in *. rewrite forallb_forall in *. intros x Hx.
  apply memN_In, Hbc, memN_In, H, Hx.
Qed.

Lemma acct_ok_mono : forall gens log a1 a2 o,
  amap_le a1 a2 -> acct_ok gens log a1 o = true -> acct_ok gens log a2 o = true.
Proof.
  intros gens log a1 a2 o Hle. unfold acct_ok.
  set (P := if negb (o_perm o =? pNone) then _ else true).
  intros H. repeat (apply andb_true_iff in H; destruct H as [H ?]).
  repeat (apply andb_true_iff; split); try assumption.
  - eapply subsetN_mono; [eassumption|apply Hle].
  - destruct (o_view o); [|reflexivity]. eapply subsetN_mono; [eassumption|apply Hle].
  - destruct (o_view_nv o); [|reflexivity]. eapply subsetN_mono; [eassumption|apply Hle].
Qed.

Lemma spec_steps_mono : forall steps g l a1 a2 ai mem op ik,
  amap_le a1 a2 ->
  spec_steps_gen false (mkS g l a1 ai mem op ik) steps = true ->
  spec_steps_gen true (mkS g l a2 ai mem op ik) steps = true.
Proof.
  induction steps as [|st rest IH]; intros g l a1 a2 ai mem op ik Hle; cbn [spec_steps_gen]; [reflexivity|].
  unfold spec_step_gen. cbn [s_gens s_log s_allow s_allow_inv s_members s_open s_invkeys].
  destruct (negb (st_ok st)).
  - cbn [andb]. now apply IH.
  - intros H. apply andb_true_iff in H. destruct H as [Hok Hrest].
    apply andb_true_iff. split.
    + repeat (apply andb_true_iff in Hok; destruct Hok as [Hok ?]).
      repeat (apply andb_true_iff; split); try assumption.
      rewrite forallb_forall in *. intros o Ho. eapply acct_ok_mono; [|apply Hok, Ho].
      eapply amap_le_trans; [apply fold_allow_mono, Hle|apply admit_allow_incr].
    + eapply IH; [|exact Hrest].
      eapply amap_le_trans; [apply fold_allow_mono, Hle|apply admit_allow_incr].
Qed.

Theorem spec_legacy_implies_spec : forall owner root steps,
  spec_C05_legacy owner root steps = true -> spec_C05 owner root steps = true.
Proof.
  intros owner root steps H. unfold spec_C05, spec_steps, spec_C05_legacy, sinit in *.
  eapply spec_steps_mono; [apply amap_le_refl|exact H].
Qed.
