(* C05 — the repairs of the property predicate only ENLARGE the allowed sets: whatever [spec_C05_legacy] (record
   boundaries only) accepts, [spec_C05_v2] (content boundaries for admitted identities) accepts, and whatever that
   accepts, [spec_C05] (content boundaries for every key recipient, accounts and invite keys) accepts. *)
From Coq Require Import List NArith Bool Lia.
Import ListNotations.
From AnySync Require Import Model.Acl Model.AclKeys Proofs.AclBase.
Open Scope N_scope.

Lemma dedup_In : forall x l, In x (dedup l) <-> In x l.
Proof.
  intros x l. induction l as [|y r IH]; cbn [dedup]; [tauto|].
  destruct (memN y r) eqn:E.
  - rewrite IH. split; [now right|]. intros [->|H]; [now apply memN_In|exact H].
  - cbn [In]. rewrite IH. tauto.
Qed.

Definition amap_le (m1 m2 : amap) : Prop := forall k x, In x (aget k m1) -> In x (aget k m2).

Lemma aget_add_allow : forall k gs m k' x,
  In x (aget k' (add_allow k gs m)) <-> (if k' =? k then In x (aget k m) \/ In x gs else In x (aget k' m)).
Proof.
  intros k gs m k' x. unfold add_allow, aget at 1. rewrite mget_mset.
  destruct (N.eqb_spec k' k) as [->|Hne].
  - rewrite dedup_In, in_app_iff. tauto.
  - reflexivity.
Qed.

Lemma amap_le_refl : forall m, amap_le m m.
Proof. intros m k x H. exact H. Qed.

Lemma amap_le_trans : forall a b c, amap_le a b -> amap_le b c -> amap_le a c.
Proof. intros a b c H1 H2 k x H. apply H2, H1, H. Qed.

Lemma add_allow_mono : forall k gs m1 m2, amap_le m1 m2 -> amap_le (add_allow k gs m1) (add_allow k gs m2).
Proof.
  intros k gs m1 m2 H k' x. rewrite !aget_add_allow. destruct (k' =? k).
  - intros [Hx|Hx]; [left; now apply H|now right].
  - apply H.
Qed.

Lemma add_allow_incr : forall k gs m, amap_le m (add_allow k gs m).
Proof.
  intros k gs m k' x Hx. rewrite aget_add_allow. destruct (N.eqb_spec k' k) as [->|_]; [now left|exact Hx].
Qed.

Lemma fold_allow_mono : forall (gs : list rid) l m1 m2,
  amap_le m1 m2 -> amap_le (fold_left (fun m a => add_allow a gs m) l m1) (fold_left (fun m a => add_allow a gs m) l m2).
Proof.
  intros gs l. induction l as [|a l IH]; intros m1 m2 H; cbn [fold_left]; [exact H|].
  apply IH. now apply add_allow_mono.
Qed.

Lemma fold_allow_incr : forall (gs : list rid) l m, amap_le m (fold_left (fun m a => add_allow a gs m) l m).
Proof.
  intros gs l. induction l as [|a l IH]; intros m; cbn [fold_left]; [apply amap_le_refl|].
  eapply amap_le_trans; [apply add_allow_incr|apply IH].
Qed.

Lemma fold_allow_In : forall (gs : list rid) l m k x,
  In x (aget k (fold_left (fun m a => add_allow a gs m) l m)) <-> In x (aget k m) \/ (In k l /\ In x gs).
Proof.
  intros gs l. induction l as [|a l IH]; intros m k x; cbn [fold_left In]; [tauto|].
  rewrite IH, aget_add_allow. destruct (N.eqb_spec k a) as [->|Hne]; [tauto|].
  split; [intros [H|[H1 H2]]; tauto|]. intros [H|[[H1|H1] H2]]; [tauto| |tauto]. now contradiction Hne.
Qed.

Lemma fold_allow_sub : forall (gs : list rid) l1 l2 m1 m2,
  (forall x, In x l1 -> In x l2) -> amap_le m1 m2 ->
  amap_le (fold_left (fun m a => add_allow a gs m) l1 m1) (fold_left (fun m a => add_allow a gs m) l2 m2).
Proof.
  intros gs l1 l2 m1 m2 Hl Hm k x. rewrite !fold_allow_In. intros [H|[H1 H2]]; [left; now apply Hm|right; split; [now apply Hl|exact H2]].
Qed.

Lemma admit_allow_incr : forall recv gb ga cs rot m, amap_le m (admit_allow recv gb ga rot cs m).
Proof.
  intros recv gb ga cs. induction cs as [|ck rest IH]; intros rot m; cbn [admit_allow]; [apply amap_le_refl|].
  eapply amap_le_trans; [apply fold_allow_incr|apply IH].
Qed.

Lemma admit_allow_mono : forall (recv1 recv2 : content -> list N) gb ga cs rot m1 m2,
  (forall c x, In x (recv1 c) -> In x (recv2 c)) -> amap_le m1 m2 ->
  amap_le (admit_allow recv1 gb ga rot cs m1) (admit_allow recv2 gb ga rot cs m2).
Proof.
  intros recv1 recv2 gb ga cs. induction cs as [|ck rest IH]; intros rot m1 m2 Hr Hm; cbn [admit_allow]; [exact Hm|].
  apply IH; [exact Hr|]. apply fold_allow_sub; [apply Hr|exact Hm].
Qed.

Lemma subsetN_mono : forall a b c, subsetN a b = true -> (forall x, In x b -> In x c) -> subsetN a c = true.
Proof.
  intros a b c H Hbc. unfold subsetN in *. rewrite forallb_forall in *. intros x Hx.
  apply memN_In, Hbc, memN_In, H, Hx.
Qed.

Lemma acct_ok_mono : forall gens log a1 a2 o,
  amap_le a1 a2 -> acct_ok gens log a1 o = true -> acct_ok gens log a2 o = true.
Proof.
  intros gens log a1 a2 o Hle. unfold acct_ok.
  set (P := if negb (o_perm o =? pNone) then _ else true).
  intros H. repeat (apply andb_true_iff in H; destruct H as [H ?]).
  repeat (apply andb_true_iff; split); try assumption.
  - eapply subsetN_mono; [eassumption|apply Hle].
  - destruct (o_view o); [|reflexivity]. eapply subsetN_mono; [eassumption|apply Hle].
  - destruct (o_view_nv o); [|reflexivity]. eapply subsetN_mono; [eassumption|apply Hle].
Qed.

(* one version of the predicate is at most as strict as another *)
Definition lvl_le (cl1 : bool) (r1 : content -> list N) (cl2 : bool) (r2 : content -> list N) : Prop :=
  if cl1 then cl2 = true /\ (forall c x, In x (r1 c) -> In x (r2 c)) else True.

Lemma allow_of_le : forall cl1 r1 cl2 r2 gb ga cs m1 m2, lvl_le cl1 r1 cl2 r2 -> amap_le m1 m2 ->
  amap_le (if cl1 then admit_allow r1 gb ga false cs m1 else m1) (if cl2 then admit_allow r2 gb ga false cs m2 else m2).
Proof.
  intros cl1 r1 cl2 r2 gb ga cs m1 m2 Hl Hm. destruct cl1; cbn in Hl.
  - destruct Hl as [-> Hr]. now apply admit_allow_mono.
  - destruct cl2; [|exact Hm]. eapply amap_le_trans; [exact Hm|apply admit_allow_incr].
Qed.

Lemma spec_steps_mono : forall cl1 r1 ri1 cl2 r2 ri2, lvl_le cl1 r1 cl2 r2 -> lvl_le cl1 ri1 cl2 ri2 ->
  forall steps g l a1 a2 ai1 ai2 mem op ik,
  amap_le a1 a2 -> amap_le ai1 ai2 ->
  spec_steps_gen cl1 r1 ri1 (mkS g l a1 ai1 mem op ik) steps = true ->
  spec_steps_gen cl2 r2 ri2 (mkS g l a2 ai2 mem op ik) steps = true.
Proof.
  intros cl1 r1 ri1 cl2 r2 ri2 Hl Hli.
  induction steps as [|st rest IH]; intros g l a1 a2 ai1 ai2 mem op ik Hle Hlei; cbn [spec_steps_gen]; [reflexivity|].
  unfold spec_step_gen. cbn [s_gens s_log s_allow s_allow_inv s_members s_open s_invkeys].
  destruct (negb (st_ok st)).
  - cbn [andb]. now apply IH.
  - intros H. apply andb_true_iff in H. destruct H as [Hok Hrest].
    match type of Hrest with spec_steps_gen _ _ _ (mkS ?g' ?l' ?A1 ?AI1 _ _ _) _ = true => set (A1' := A1) in *; set (AI1' := AI1) in * end.
    match goal with |- context [mkS _ _ ?A2 ?AI2 _ _ _] => set (A2' := A2); set (AI2' := AI2) end.
    assert (HA : amap_le A1' A2') by (apply allow_of_le; [exact Hl|now apply fold_allow_mono]).
    assert (HAI : amap_le AI1' AI2') by (apply allow_of_le; [exact Hli|now apply fold_allow_mono]).
    apply andb_true_iff. split.
    + repeat (apply andb_true_iff in Hok; destruct Hok as [Hok ?]).
      repeat (apply andb_true_iff; split); try assumption.
      * rewrite forallb_forall in *. intros o Ho. eapply acct_ok_mono; [exact HA|apply Hok, Ho].
      * match goal with Hk : forallb _ (dedup _) = true |- _ => rename Hk into Hinv end.
        rewrite forallb_forall in *. intros k Hk. eapply subsetN_mono; [apply Hinv, Hk|apply HAI].
    + eapply IH; [exact HA|exact HAI|exact Hrest].
Qed.

Lemma admits_key_receivers : forall c x, In x (admits c) -> In x (key_receivers c).
Proof.
  intros c x H. unfold key_receivers. destruct c; cbn [admits] in H; try contradiction; cbn [is_rot]; exact H.
Qed.

Theorem spec_legacy_implies_v2 : forall owner root steps,
  spec_C05_legacy owner root steps = true -> spec_C05_v2 owner root steps = true.
Proof.
  intros owner root steps H. unfold spec_C05_v2, spec_C05_legacy, sinit in *.
  eapply (spec_steps_mono false admits (fun _ => []) true admits (fun _ => []));
    [exact I|exact I|apply amap_le_refl|apply amap_le_refl|exact H].
Qed.

Theorem spec_v2_implies_spec : forall owner root steps,
  spec_C05_v2 owner root steps = true -> spec_C05 owner root steps = true.
Proof.
  intros owner root steps H. unfold spec_C05, spec_steps, spec_C05_v2, sinit in *.
  eapply (spec_steps_mono true admits (fun _ => []) true key_receivers inv_receivers);
    [split; [reflexivity|apply admits_key_receivers]|split; [reflexivity|intros c x []]|apply amap_le_refl|apply amap_le_refl|exact H].
Qed.

Theorem spec_legacy_implies_spec : forall owner root steps,
  spec_C05_legacy owner root steps = true -> spec_C05 owner root steps = true.
Proof. intros owner root steps H. now apply spec_v2_implies_spec, spec_legacy_implies_v2. Qed.
