(* Proofs/LoadIterMid.v — the response iterator while the responder's storage grows (Model/LoadIterMid.v), property C09.

   Main result [respond_mid_invisible]: if every store found by a NextBatch call, restricted to the ids cached by
   load, is exactly the range cached by load (the store only GREW by changes with other ids, anywhere in the order),
   then the streamed batches — changes and announced heads — are those of the undisturbed response
   [respond sigma0 ...]: changes stored meanwhile are invisible.  Hence every theorem about [respond] (exact content,
   size bound, progress, completeness w.r.t. what was held at request time, order, heads) holds for [respond_mid]. *)
From Coq Require Import List NArith Bool Arith Lia.
Import ListNotations.
From AnySync Require Import Lib.Dag Model.Dfs Model.Tree Model.LoadIter Model.LoadIterMid Proofs.DfsBase Proofs.LoadIter Proofs.LoadIterHeads.

(* ---------------------------------------------------------------- list facts *)

Lemma from_id_filter_cached : forall cache x s,
  mem x cache = true ->
  filter (cached cache) (from_id x s) = from_id x (filter (cached cache) s).
Proof.
  intros cache x s Hx. induction s as [|e r IH]; cbn [from_id filter]; [reflexivity|].
  destruct (N.eqb (se_id e) x) eqn:Ee.
  - assert (Hc : cached cache e = true) by (unfold cached; apply N.eqb_eq in Ee; rewrite Ee; exact Hx).
    cbn [filter]. rewrite Hc. cbn [from_id]. rewrite Ee. reflexivity.
  - destruct (cached cache e) eqn:Ec.
    + cbn [from_id]. rewrite Ee. exact IH.
    + exact IH.
Qed.

Lemma from_id_app_fresh : forall x pre e r,
  se_id e = x -> ~ In x (map se_id pre) -> from_id x (pre ++ e :: r) = e :: r.
Proof.
  intros x pre e r He. induction pre as [|a p IH]; intros Hn; cbn [app from_id].
  - rewrite He, N.eqb_refl. reflexivity.
  - destruct (N.eqb (se_id a) x) eqn:Ea.
    + exfalso. apply Hn. left. apply N.eqb_eq. exact Ea.
    + apply IH. intros Hin. apply Hn. right. exact Hin.
Qed.

Lemma filter_cached_all : forall l, filter (cached (map se_id l)) l = l.
Proof.
  intros l. assert (H : forall l', (forall e, In e l' -> In (se_id e) (map se_id l)) -> filter (cached (map se_id l)) l' = l').
  { induction l' as [|a r IH]; intros Hin; cbn [filter]; [reflexivity|].
    assert (Hc : cached (map se_id l) a = true) by (unfold cached; apply mem_In; apply Hin; left; reflexivity).
    rewrite Hc. f_equal. apply IH. intros e He. apply Hin. right. exact He. }
  apply H. intros e He. apply in_map. exact He.
Qed.

(* ---------------------------------------------------------------- one scan: uncached entries are invisible *)

Lemma scan_c_filter : forall cache ms rem rest batch heads cur b hs rest' ex,
  scan_c cache ms rem rest batch heads cur = (b, hs, rest', ex) ->
  scan ms rem (filter (cached cache) rest) batch heads cur = (b, hs, filter (cached cache) rest', ex)
  /\ (ex = false -> exists e r, rest' = e :: r /\ cached cache e = true).
Proof.
  intros cache ms rem rest. induction rest as [|e r IH]; intros batch heads cur b hs rest' ex Hs; cbn [scan_c] in Hs.
  - inversion Hs; subst. cbn [filter scan]. split; [reflexivity | intros Hf; discriminate].
  - destruct (cached cache e) eqn:Ec; cbn [negb] in Hs.
    + cbn [filter]. rewrite Ec. cbn [scan].
      destruct (mem (se_id e) rem) eqn:Erem.
      * apply IH. exact Hs.
      * destruct (N.leb ms (cur + se_size e) && negb match batch with [] => true | _ :: _ => false end) eqn:Estop.
        -- inversion Hs; subst. cbn [filter]. rewrite Ec. split; [reflexivity|].
           intros _. exists e, r. split; [reflexivity | exact Ec].
        -- apply IH. exact Hs.
    + cbn [filter]. rewrite Ec. apply IH. exact Hs.
Qed.

(* ---------------------------------------------------------------- the stream *)

(* the iterator over the growing store (l) and the undisturbed iterator (l0) correspond *)
Definition mid_rel (cache : list N) (view : list sentry) (l l0 : liter) : Prop :=
  li_removed l = li_removed l0 /\ li_lastHeads l = li_lastHeads l0 /\ li_exhausted l = li_exhausted l0
  /\ filter (cached cache) (li_rest l) = li_rest l0
  /\ (exists pre, view = pre ++ li_rest l0)
  /\ (li_exhausted l = false -> match li_rest l with [] => True | e :: _ => cached cache e = true end).

Lemma NoDup_app_head_fresh : forall (pre : list sentry) e r,
  NoDup (map se_id (pre ++ e :: r)) -> ~ In (se_id e) (map se_id pre).
Proof.
  intros pre e r. induction pre as [|a p IH]; cbn [app map]; intros Hnd; [intros []|].
  inversion Hnd as [|x xs Hx Hr]; subst. intros [Ha|Hin].
  - apply Hx. rewrite Ha. rewrite map_app. apply in_or_app. right. left. reflexivity.
  - exact (IH Hr Hin).
Qed.

Lemma relocate_rel : forall cache view s l l0,
  NoDup (map se_id view) ->
  filter (cached cache) s = view ->
  mid_rel cache view l l0 -> mid_rel cache view (relocate s l) l0.
Proof.
  intros cache view s l l0 Hnd Hs [Hr [Hh [He [Hf [[pre Hpre] Hc]]]]].
  unfold relocate. destruct (li_exhausted l) eqn:Eex.
  - unfold mid_rel. rewrite Eex. repeat split; try assumption. exists pre. exact Hpre.
  - destruct (li_rest l) as [|e r] eqn:Er.
    + unfold mid_rel. rewrite Eex, Er. repeat split; try assumption. exists pre. exact Hpre.
    + specialize (Hc eq_refl). cbn [filter] in Hf. rewrite Hc in Hf.
      unfold mid_rel. cbn [li_removed li_lastHeads li_exhausted li_rest].
      split; [exact Hr|]. split; [exact Hh|]. split; [exact He|].
      split.
      * rewrite from_id_filter_cached by exact Hc. rewrite Hs, Hpre, <- Hf.
        apply from_id_app_fresh; [reflexivity|].
        apply (NoDup_app_head_fresh pre e (filter (cached cache) r)). rewrite Hf, <- Hpre. exact Hnd.
      * split; [exists pre; exact Hpre|]. intros _.
        (* the relocated rest starts with e or is empty *)
        destruct (from_id (se_id e) s) as [|e' r'] eqn:Efrom; [exact I|].
        assert (Hid : se_id e' = se_id e).
        { clear - Efrom. induction s as [|a t IH]; cbn [from_id] in Efrom; [discriminate|].
          destruct (N.eqb (se_id a) (se_id e)) eqn:Ea; [inversion Efrom; subst; apply N.eqb_eq; exact Ea | apply IH; exact Efrom]. }
        unfold cached in *. rewrite Hid. exact Hc.
Qed.

Lemma stream_mid_eq : forall cache view st ms,
  NoDup (map se_id view) ->
  (forall k, filter (cached cache) (st k) = view) ->
  forall fuel k l l0, mid_rel cache view l l0 ->
  stream_mid st cache fuel k ms l = stream next_batch fuel ms l0.
Proof.
  intros cache view st ms Hnd Hst. induction fuel as [|f IH]; intros k l l0 Hrel; [reflexivity|].
  cbn [stream_mid stream].
  pose proof (relocate_rel cache view (st k) l l0 Hnd (Hst k) Hrel) as Hrel1.
  destruct Hrel1 as [Hr [Hh [He [Hf [[pre Hpre] Hc]]]]].
  unfold next_batch_c, next_batch. rewrite <- He.
  destruct (li_exhausted (relocate (st k) l)) eqn:Eex; [cbn [b_changes]; reflexivity|].
  destruct (scan_c cache ms (li_removed (relocate (st k) l)) (li_rest (relocate (st k) l)) [] (li_lastHeads (relocate (st k) l)) 0)
    as [[[b hs] rest'] ex] eqn:Es.
  destruct (scan_c_filter _ _ _ _ _ _ _ _ _ _ _ Es) as [Hscan Hhd].
  rewrite Hf, Hr, Hh in Hscan. rewrite Hscan. cbn [b_changes].
  destruct b as [|e0 b0]; [reflexivity|]. f_equal.
  apply IH. unfold mid_rel. cbn [li_removed li_lastHeads li_exhausted li_rest].
  split; [exact Hr|]. split; [reflexivity|]. split; [reflexivity|]. split; [reflexivity|].
  split.
  - assert (Hb0 : bounded ms []) by (right; cbn; lia).
    destruct (scan_spec _ _ _ _ _ _ _ _ _ _ Hscan eq_refl Hb0) as [_ [[used [Hu _]] _]].
    exists (pre ++ used). rewrite Hpre, Hu, app_assoc. reflexivity.
  - intros Hex. destruct (Hhd Hex) as [e [r [Hre Hce]]]. rewrite Hre. exact Hce.
Qed.

(* Changes stored while the response is streamed are invisible: same batches, same announced heads. *)
Theorem respond_mid_invisible : forall sigma0 st ourPath theirPath theirHeads ms,
  (forall cs, choose_snapshot ourPath theirPath = Some cs ->
     NoDup (map se_id (from_id cs sigma0)) /\
     forall k, filter (cached (map se_id (from_id cs sigma0))) (st k) = from_id cs sigma0) ->
  respond_mid sigma0 st ourPath theirPath theirHeads ms = respond sigma0 ourPath theirPath theirHeads ms.
Proof.
  intros sigma0 st ourPath theirPath theirHeads ms H. unfold respond_mid, respond.
  destruct (choose_snapshot ourPath theirPath) as [cs|]; [|reflexivity].
  destruct (H cs eq_refl) as [Hnd Hst]. f_equal.
  cbn zeta. unfold load at 1. cbn [li_rest].
  apply (stream_mid_eq _ (from_id cs sigma0) st ms Hnd Hst).
  unfold mid_rel, load. cbn [li_removed li_lastHeads li_exhausted li_rest].
  repeat split; try reflexivity.
  - apply filter_cached_all.
  - exists []. reflexivity.
  - intros _. destruct (from_id cs sigma0) as [|e r] eqn:E; [exact I|].
    unfold cached. apply mem_In. left. reflexivity.
Qed.

(* Consequence in the property's words: whatever is stored meanwhile, the batches are exactly what the responder held
   at request time from the common snapshot on minus the requester's part, every batch is non-empty and is below the
   limit or a single change, and the stream ends with nothing left. *)
Theorem respond_mid_exact : forall sigma0 st ourPath theirPath theirHeads ms bs,
  (forall cs, choose_snapshot ourPath theirPath = Some cs ->
     NoDup (map se_id (from_id cs sigma0)) /\
     forall k, filter (cached (map se_id (from_id cs sigma0))) (st k) = from_id cs sigma0) ->
  respond_mid sigma0 st ourPath theirPath theirHeads ms = Some bs ->
  exists cs, choose_snapshot ourPath theirPath = Some cs
    /\ concat (map b_changes bs) = nonrem (removed_of sigma0 cs theirHeads) (from_id cs sigma0)
    /\ Forall (fun b => ((total_size (b_changes b) < ms)%N \/ (length (b_changes b) <= 1)%nat) /\ b_changes b <> []) bs.
Proof.
  intros sigma0 st ourPath theirPath theirHeads ms bs H Hr.
  rewrite (respond_mid_invisible _ _ _ _ _ _ H) in Hr. exact (respond_exact _ _ _ _ _ _ Hr).
Qed.

(* completeness w.r.t. the request-time store, for a causally closed requester set containing its heads *)
Theorem respond_mid_complete : forall sigma0 st ourPath theirPath theirHeads ms bs (haveB : N -> Prop),
  (forall cs, choose_snapshot ourPath theirPath = Some cs ->
     NoDup (map se_id (from_id cs sigma0)) /\
     forall k, filter (cached (map se_id (from_id cs sigma0))) (st k) = from_id cs sigma0) ->
  respond_mid sigma0 st ourPath theirPath theirHeads ms = Some bs ->
  (forall cs c p, choose_snapshot ourPath theirPath = Some cs ->
     In c (map se_ch (from_id cs sigma0)) -> haveB (cid c) -> In p (cprev c) -> haveB p) ->
  (forall h, In h theirHeads -> haveB h) ->
  exists cs, choose_snapshot ourPath theirPath = Some cs /\
    forall e, In e (from_id cs sigma0) -> ~ haveB (se_id e) -> In e (concat (map b_changes bs)).
Proof.
  intros sigma0 st ourPath theirPath theirHeads ms bs haveB H Hr Hcl Hh.
  rewrite (respond_mid_invisible _ _ _ _ _ _ H) in Hr. exact (respond_complete _ _ _ _ _ _ haveB Hr Hcl Hh).
Qed.

(* announced heads: under the hypotheses of respond_heads_childless on the REQUEST-TIME range, the response over a growing
   store is a heads_trace of that range: every batch announces the childless members of the request-time prefix
   processed so far, the last batch the responder's request-time heads of the range *)
Theorem respond_mid_heads_childless : forall sigma0 st ourPath theirPath theirHeads ms bs cs,
  (forall k, filter (cached (map se_id (from_id cs sigma0))) (st k) = from_id cs sigma0) ->
  respond_mid sigma0 st ourPath theirPath theirHeads ms = Some bs ->
  choose_snapshot ourPath theirPath = Some cs ->
  NoDup (map se_id (from_id cs sigma0)) -> lin_ext (from_id cs sigma0) ->
  (forall e, In e (from_id cs sigma0) -> ~ In (se_id e) (cprev (se_ch e))) ->
  heads_trace (removed_of sigma0 cs theirHeads) (from_id cs sigma0) [] bs.
Proof.
  intros sigma0 st ourPath theirPath theirHeads ms bs cs Hst Hr Hcs Hnd Hlin Hself.
  rewrite (respond_mid_invisible sigma0 st ourPath theirPath theirHeads ms) in Hr.
  - exact (respond_heads_childless _ _ _ _ _ _ _ Hr Hcs Hnd Hlin Hself).
  - intros cs' Hcs'. rewrite Hcs in Hcs'. inversion Hcs'; subst cs'. split; [exact Hnd | exact Hst].
Qed.
