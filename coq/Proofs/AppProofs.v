(* Proofs about Model/App.v (property C20). *)
From Coq Require Import List NArith Bool Arith Lia FinFun.
Import ListNotations.
From AnySync Require Import Model.App.

Definition rat (cs : list comp) (i : nat) : bool :=
  match nth_error cs i with Some c => runnable c | None => false end.

Lemma runnable_idx_unfold cs n : runnable_idx cs n = filter (rat cs) (seq 0 n).
Proof. reflexivity. Qed.

Lemma runnable_idx_S cs k :
  runnable_idx cs (S k) = runnable_idx cs k ++ (if rat cs k then [k] else []).
Proof.
  rewrite !runnable_idx_unfold, seq_S, filter_app. cbn [filter plus]. destruct (rat cs k); reflexivity.
Qed.

Lemma close_services_spec cs n :
  close_services cs n = map EClose (rev (runnable_idx cs n)).
Proof.
  induction n as [|k IH]; [reflexivity|].
  cbn [close_services]. rewrite IH, runnable_idx_S, rev_app_distr, map_app.
  unfold rat. destruct (nth_error cs k) as [c|]; [destruct (runnable c)|]; reflexivity.
Qed.

(* find_idx facts *)
Lemma find_idx_ge p cs i j : find_idx p cs i = Some j -> i <= j.
Proof.
  revert i; induction cs as [|c r IH]; intros i H; [discriminate|].
  cbn in H. destruct (p c); [injection H; lia|]. apply IH in H. lia.
Qed.

Lemma find_idx_shift p cs i : find_idx p cs i = option_map (fun k => k + i) (find_idx p cs 0).
Proof.
  revert i; induction cs as [|c r IH]; intros i; [reflexivity|].
  cbn. destruct (p c); [reflexivity|].
  rewrite (IH (S i)), (IH 1). destruct (find_idx p r 0); cbn; [f_equal; lia|reflexivity].
Qed.

(* [find_idx p cs i = Some j]: j is the position (offset i) of the first element satisfying p *)
Lemma find_idx_some p cs i j :
  find_idx p cs i = Some j ->
  exists pre c post, cs = pre ++ c :: post /\ j = i + length pre /\ p c = true /\ forallb (fun x => negb (p x)) pre = true.
Proof.
  revert i; induction cs as [|c r IH]; intros i H; [discriminate|].
  cbn in H. destruct (p c) eqn:Hp.
  - injection H as <-. exists [], c, r. cbn. repeat split; auto; lia.
  - apply IH in H as (pre & c' & post & -> & -> & Hc & Hpre).
    exists (c :: pre), c', post. cbn. rewrite Hp. repeat split; auto; lia.
Qed.

Lemma find_idx_none p cs i : find_idx p cs i = None -> forallb (fun x => negb (p x)) cs = true.
Proof.
  revert i; induction cs as [|c r IH]; intros i H; [reflexivity|].
  cbn in H |- *. destruct (p c); [discriminate|]. cbn. eauto.
Qed.

Lemma nth_error_app_mid {A} (pre : list A) c post : nth_error (pre ++ c :: post) (length pre) = Some c.
Proof. rewrite nth_error_app2 by lia. rewrite Nat.sub_diag. reflexivity. Qed.

(* ---- init loop ---- *)
Lemma init_loop_spec all pre rest :
  all = pre ++ rest ->
  init_loop all rest (length pre) =
    match find_idx init_fails rest (length pre) with
    | Some j => (map EInit (seq (length pre) (S j - length pre)) ++ close_services all (S j), Some j)
    | None => (map EInit (seq (length pre) (length rest)), None)
    end.
Proof.
  revert pre; induction rest as [|c r IH]; intros pre Hall; [reflexivity|].
  cbn [init_loop find_idx]. destruct (init_fails c) eqn:Hc.
  - replace (S (length pre) - length pre) with 1 by lia. reflexivity.
  - specialize (IH (pre ++ [c])). rewrite app_length in IH. cbn [length] in IH.
    replace (length pre + 1) with (S (length pre)) in IH by lia.
    rewrite IH by (rewrite <- app_assoc; exact Hall).
    destruct (find_idx init_fails r (S (length pre))) as [j|] eqn:Hf.
    + apply find_idx_ge in Hf.
      replace (S j - length pre) with (S (S j - S (length pre))) by lia.
      reflexivity.
    + reflexivity.
Qed.

(* ---- run loop ---- *)
Lemma filter_seq_rat_cons all pre c r m :
  all = pre ++ c :: r ->
  filter (rat all) (seq (length pre) (S m)) =
    (if runnable c then [length pre] else []) ++ filter (rat all) (seq (S (length pre)) m).
Proof.
  intros ->. cbn [seq filter]. unfold rat at 1. rewrite nth_error_app_mid.
  destruct (runnable c); reflexivity.
Qed.

Lemma run_loop_spec all pre rest :
  all = pre ++ rest ->
  run_loop all rest (length pre) =
    match find_idx (fun c => runnable c && run_fails c) rest (length pre) with
    | Some j => (map ERun (filter (rat all) (seq (length pre) (S j - length pre)))
                   ++ close_services all (S j), Some j)
    | None => (map ERun (filter (rat all) (seq (length pre) (length rest))), None)
    end.
Proof.
  revert pre; induction rest as [|c r IH]; intros pre Hall; [reflexivity|].
  cbn [run_loop find_idx].
  specialize (IH (pre ++ [c])). rewrite app_length in IH. cbn [length] in IH.
  replace (length pre + 1) with (S (length pre)) in IH by lia.
  assert (Hall' : all = (pre ++ [c]) ++ r) by (rewrite <- app_assoc; exact Hall).
  destruct (runnable c) eqn:Hr; cbn [andb].
  - destruct (run_fails c) eqn:Hf.
    + replace (S (length pre) - length pre) with 1 by lia.
      rewrite (filter_seq_rat_cons all pre c r 0 Hall), Hr. reflexivity.
    + rewrite IH by exact Hall'.
      destruct (find_idx _ r (S (length pre))) as [j|] eqn:Hfi.
      * apply find_idx_ge in Hfi.
        replace (S j - length pre) with (S (S j - S (length pre))) by lia.
        rewrite (filter_seq_rat_cons all pre c r _ Hall), Hr. reflexivity.
      * cbn [length]. rewrite (filter_seq_rat_cons all pre c r _ Hall), Hr. reflexivity.
  - rewrite IH by exact Hall'.
    destruct (find_idx _ r (S (length pre))) as [j|] eqn:Hfi.
    + apply find_idx_ge in Hfi.
      replace (S j - length pre) with (S (S j - S (length pre))) by lia.
      rewrite (filter_seq_rat_cons all pre c r _ Hall), Hr. reflexivity.
    + cbn [length]. rewrite (filter_seq_rat_cons all pre c r _ Hall), Hr. reflexivity.
Qed.

(* ---- the model's Start is the declarative specification ---- *)
Theorem start_eq_spec cs : start cs = spec_start cs.
Proof.
  unfold start, spec_start, first_init_fail, first_run_fail.
  pose proof (init_loop_spec cs [] cs eq_refl) as Hi. cbn [length] in Hi. rewrite Hi.
  destruct (find_idx init_fails cs 0) as [i|].
  - rewrite Nat.sub_0_r, close_services_spec. reflexivity.
  - pose proof (run_loop_spec cs [] cs eq_refl) as Hr. cbn [length] in Hr. rewrite Hr.
    destruct (find_idx _ cs 0) as [j|].
    + rewrite Nat.sub_0_r, close_services_spec, <- runnable_idx_unfold. reflexivity.
    + rewrite <- runnable_idx_unfold. reflexivity.
Qed.

(* ---- Close ---- *)
Definition cat (cs : list comp) (i : nat) : bool :=
  match nth_error cs i with Some c => close_fails c | None => false end.

Lemma close_loop_spec cs n :
  close_loop cs n =
    (map EClose (rev (runnable_idx cs n)), filter (cat cs) (rev (runnable_idx cs n))).
Proof.
  induction n as [|k IH]; [reflexivity|].
  cbn [close_loop]. rewrite IH, runnable_idx_S, rev_app_distr.
  unfold rat, cat at 2. destruct (nth_error cs k) as [c|] eqn:Hn; [|reflexivity].
  destruct (runnable c); [|reflexivity].
  cbn [rev app map filter]. unfold cat at 2. rewrite Hn. destruct (close_fails c); reflexivity.
Qed.

Theorem close_eq_spec cs : close cs = spec_close cs.
Proof. unfold close, spec_close. rewrite close_loop_spec. reflexivity. Qed.

(* ---- lookup ---- *)
Lemma find_idx_existsb p cs i : existsb p cs = false -> find_idx p cs i = None.
Proof.
  revert i; induction cs as [|c r IH]; intros i H; [reflexivity|].
  cbn in H |- *. destruct (p c); [discriminate|]. cbn in H. auto.
Qed.

Lemma find_idx_existsb_true p cs i : existsb p cs = true -> exists j, find_idx p cs i = Some j.
Proof.
  revert i; induction cs as [|c r IH]; intros i H; [discriminate|].
  cbn in H |- *. destruct (p c); [eauto|]. cbn in H. auto.
Qed.

Theorem lookup_eq_spec p chain lvl : lookup p chain lvl = spec_lookup p chain lvl.
Proof.
  revert lvl; induction chain as [|cs ps IH]; intros lvl; [reflexivity|].
  cbn [lookup spec_lookup]. destruct (existsb p cs) eqn:He.
  - destruct (find_idx_existsb_true p cs 0 He) as [j ->]. reflexivity.
  - rewrite (find_idx_existsb p cs 0 He). apply IH.
Qed.

(* ---------------------------------------------------------------------------------------------
   Property-language corollaries (stated over the declarative spec, transported by the equalities). *)

Lemma runnable_idx_sorted cs n : forall a b l1 l2 l3,
  runnable_idx cs n = l1 ++ a :: l2 ++ b :: l3 -> a < b.
Proof.
  rewrite runnable_idx_unfold.
  assert (G : forall s m (l1 l2 l3 : list nat) a b,
             filter (rat cs) (seq s m) = l1 ++ a :: l2 ++ b :: l3 -> a < b).
  { intros s m; revert s; induction m as [|m IH]; intros s l1 l2 l3 a b H.
    - cbn in H. destruct l1; discriminate.
    - cbn [seq filter] in H. destruct (rat cs s).
      + destruct l1 as [|x l1]; cbn in H.
        * injection H as <- H.
          assert (In b (filter (rat cs) (seq (S s) m))) by (rewrite H; apply in_or_app; right; left; reflexivity).
          apply filter_In in H0 as [H0 _]. apply in_seq in H0. lia.
        * injection H as _ H. eapply IH; eauto.
      + eapply IH; eauto. }
  intros; eapply G; eauto.
Qed.

(* position of an event in a list *)
Definition before {A} (x y : A) (l : list A) : Prop :=
  exists l1 l2 l3, l = l1 ++ x :: l2 ++ y :: l3.

(* C20: on shutdown, for i < j both runnable, Close j happens before Close i; exactly the runnable ones are closed. *)
Theorem close_reverse_order cs i j :
  i < j -> In (EClose i) (fst (close cs)) -> In (EClose j) (fst (close cs)) ->
  before (EClose j) (EClose i) (fst (close cs)).
Proof.
  rewrite close_eq_spec. unfold spec_close. cbn [fst].
  set (R := runnable_idx cs (length cs)).
  intros Hij Hi Hj.
  apply in_map_iff in Hi as (i' & [= ->] & Hi). apply in_map_iff in Hj as (j' & [= ->] & Hj).
  apply in_rev in Hi. apply in_rev in Hj.
  (* split R around i then j *)
  apply in_split in Hi as (l1 & l2 & HR).
  assert (Hj' : In j l1 \/ In j l2).
  { rewrite HR in Hj. apply in_app_or in Hj as [|[|]]; auto. lia. }
  destruct Hj' as [Hj'|Hj'].
  - apply in_split in Hj' as (m1 & m2 & ->).
    exfalso. assert (j < i); [|lia].
    eapply (runnable_idx_sorted cs (length cs) j i m1 m2 l2). fold R. rewrite HR, <- app_assoc. reflexivity.
  - apply in_split in Hj' as (m1 & m2 & ->).
    exists (map EClose (rev m2)), (map EClose (rev m1)), (map EClose (rev l1)).
    rewrite HR. change (i :: m1 ++ j :: m2) with ([i] ++ m1 ++ [j] ++ m2).
    rewrite !rev_app_distr, !map_app. cbn [rev map app]. rewrite <- !app_assoc. reflexivity.
Qed.

Theorem close_exactly_runnable cs i :
  In (EClose i) (fst (close cs)) <-> (exists c, nth_error cs i = Some c /\ runnable c = true).
Proof.
  rewrite close_eq_spec. unfold spec_close. cbn [fst]. rewrite in_map_iff. split.
  - intros (i' & [= ->] & H). apply in_rev in H. rewrite runnable_idx_unfold in H.
    apply filter_In in H as [_ H]. unfold rat in H. destruct (nth_error cs i) as [c|]; [eauto|discriminate].
  - intros (c & Hn & Hr). exists i. split; [reflexivity|]. apply -> in_rev.
    rewrite runnable_idx_unfold. apply filter_In. split.
    + apply in_seq. assert (i < length cs) by (apply nth_error_Some; congruence). lia.
    + unfold rat. rewrite Hn. exact Hr.
Qed.

Theorem close_no_other_events cs e : In e (fst (close cs)) -> exists i, e = EClose i.
Proof.
  rewrite close_eq_spec. unfold spec_close. cbn [fst]. rewrite in_map_iff. intros (i & <- & _). eauto.
Qed.

Theorem close_each_once cs : NoDup (fst (close cs)).
Proof.
  rewrite close_eq_spec. unfold spec_close. cbn [fst].
  apply Injective_map_NoDup; [intros a b [=]; auto|].
  apply NoDup_rev. rewrite runnable_idx_unfold. apply NoDup_filter, seq_NoDup.
Qed.

(* C20: a successful Start initialises everything in order, then runs the runnable ones in order, closes nothing. *)
Theorem start_ok cs :
  first_init_fail cs = None -> first_run_fail cs = None ->
  start cs = (map EInit (seq 0 (length cs)) ++ map ERun (runnable_idx cs (length cs)), StartOk).
Proof. intros H1 H2. rewrite start_eq_spec. unfold spec_start. rewrite H1, H2. reflexivity. Qed.

(* C20: no use before init — whatever happens, every Run event is preceded by Init of ALL components. *)
Theorem no_run_before_all_init cs k :
  In (ERun k) (fst (start cs)) ->
  exists tail, fst (start cs) = map EInit (seq 0 (length cs)) ++ tail /\
               (forall j, ~ In (EInit j) tail).
Proof.
  rewrite start_eq_spec. unfold spec_start.
  destruct (first_init_fail cs) as [i|].
  - cbn [fst]. intros H. exfalso. apply in_app_or in H as [H|H]; apply in_map_iff in H as (? & [=] & _).
  - destruct (first_run_fail cs) as [i|]; cbn [fst]; intros _.
    + eexists; split; [reflexivity|]. intros j H.
      apply in_app_or in H as [H|H]; apply in_map_iff in H as (? & [=] & _).
    + eexists; split; [reflexivity|]. intros j H. apply in_map_iff in H as (? & [=] & _).
Qed.

(* C20: failure of Init at i: error reported, nothing after i initialised, nothing run, and exactly the
   runnable components among the first i+1 closed, in reverse order. *)
Theorem init_failure cs i :
  first_init_fail cs = Some i ->
  start cs = (map EInit (seq 0 (S i)) ++ map EClose (rev (runnable_idx cs (S i))), ErrInit i).
Proof. intros H. rewrite start_eq_spec. unfold spec_start. rewrite H. reflexivity. Qed.

Theorem run_failure cs i :
  first_init_fail cs = None -> first_run_fail cs = Some i ->
  start cs = (map EInit (seq 0 (length cs)) ++ map ERun (runnable_idx cs (S i))
                ++ map EClose (rev (runnable_idx cs (S i))), ErrRun i).
Proof. intros H1 H2. rewrite start_eq_spec. unfold spec_start. rewrite H1, H2. reflexivity. Qed.

(* first_init_fail really is "the first component whose Init fails" *)
Theorem first_init_fail_char cs i :
  first_init_fail cs = Some i <->
  (exists c, nth_error cs i = Some c /\ init_fails c = true) /\
  (forall j c, j < i -> nth_error cs j = Some c -> init_fails c = false).
Proof.
  unfold first_init_fail. split.
  - intros H. apply find_idx_some in H as (pre & c & post & -> & -> & Hc & Hpre). cbn [plus]. split.
    + exists c. split; [apply nth_error_app_mid|exact Hc].
    + intros j c' Hj Hn. rewrite nth_error_app1 in Hn by exact Hj.
      rewrite forallb_forall in Hpre. apply nth_error_In in Hn. apply Hpre in Hn.
      destruct (init_fails c'); [discriminate|reflexivity].
  - intros [(c & Hn & Hc) Hlt].
    destruct (find_idx init_fails cs 0) as [k|] eqn:Hf.
    + apply find_idx_some in Hf as (pre & c' & post & -> & -> & Hc' & Hpre). cbn [plus] in *.
      destruct (Nat.lt_trichotomy (length pre) i) as [Hlt'|[<-|Hgt]]; [|reflexivity|].
      * specialize (Hlt (length pre) c' Hlt' (nth_error_app_mid _ _ _)). congruence.
      * rewrite nth_error_app1 in Hn by exact Hgt. rewrite forallb_forall in Hpre.
        apply nth_error_In in Hn. apply Hpre in Hn. rewrite Hc in Hn. discriminate.
    + apply find_idx_none in Hf. rewrite forallb_forall in Hf. apply nth_error_In in Hn.
      apply Hf in Hn. rewrite Hc in Hn. discriminate.
Qed.

(* lookup: child first.  The result is in the first level that has any match, and is the first match there. *)
Theorem lookup_child_first p chain lvl i :
  lookup p chain 0 = Some (lvl, i) ->
  (exists cs c, nth_error chain lvl = Some cs /\ nth_error cs i = Some c /\ p c = true /\
     (forall j c', j < i -> nth_error cs j = Some c' -> p c' = false)) /\
  (forall l cs, l < lvl -> nth_error chain l = Some cs -> existsb p cs = false).
Proof.
  assert (G : forall chain base lvl i, lookup p chain base = Some (lvl, i) ->
     base <= lvl /\
     (exists cs c, nth_error chain (lvl - base) = Some cs /\ nth_error cs i = Some c /\ p c = true /\
        (forall j c', j < i -> nth_error cs j = Some c' -> p c' = false)) /\
     (forall l cs, l < lvl - base -> nth_error chain l = Some cs -> existsb p cs = false)).
  { clear. induction chain as [|cs ps IH]; intros base lvl i H; [discriminate|].
    cbn [lookup] in H. destruct (find_idx p cs 0) as [k|] eqn:Hf.
    - injection H as <- <-. rewrite Nat.sub_diag. split; [lia|]. split; [|intros l ? Hl; lia].
      apply find_idx_some in Hf as (pre & c & post & -> & -> & Hc & Hpre). cbn [plus].
      exists (pre ++ c :: post), c. cbn [nth_error]. repeat split; auto using nth_error_app_mid.
      intros j c' Hj Hn. rewrite nth_error_app1 in Hn by exact Hj. rewrite forallb_forall in Hpre.
      apply nth_error_In in Hn. apply Hpre in Hn. destruct (p c'); [discriminate|reflexivity].
    - apply IH in H as (Hle & (cs' & c & Hn & Hrest) & Hbefore).
      split; [lia|]. replace (lvl - base) with (S (lvl - S base)) by lia. split.
      + exists cs', c. cbn [nth_error]. auto.
      + intros l cs0 Hl Hn0. destruct l as [|l]; cbn [nth_error] in Hn0.
        * injection Hn0 as <-. apply find_idx_none in Hf.
          destruct (existsb p cs) eqn:He; [|reflexivity].
          apply existsb_exists in He as (x & Hx & Hpx). rewrite forallb_forall in Hf. apply Hf in Hx.
          rewrite Hpx in Hx. discriminate.
        * apply (Hbefore l); [lia|exact Hn0]. }
  intros H. apply G in H as (_ & H1 & H2). rewrite Nat.sub_0_r in *. split; assumption.
Qed.

Theorem lookup_none p chain : lookup p chain 0 = None <-> forall cs, In cs chain -> existsb p cs = false.
Proof.
  generalize 0. induction chain as [|cs ps IH]; intros base.
  - cbn. split; [intros _ ? []|reflexivity].
  - cbn [lookup]. destruct (find_idx p cs 0) as [k|] eqn:Hf.
    + split; [discriminate|]. intros H. specialize (H cs (or_introl eq_refl)).
      rewrite (find_idx_existsb _ _ _ H) in Hf. discriminate.
    + rewrite IH. split.
      * intros H cs0 [<-|Hin]; [|auto]. apply find_idx_none in Hf.
        destruct (existsb p cs) eqn:He; [|reflexivity].
        apply existsb_exists in He as (x & Hx & Hpx). rewrite forallb_forall in Hf. apply Hf in Hx.
        rewrite Hpx in Hx. discriminate.
      * intros H cs0 Hin. apply H. right. exact Hin.
Qed.

(* executable spec predicate accepts the model's output *)
Lemma list_eqb_refl {A} (eqb : A -> A -> bool) (l : list A) :
  (forall a, eqb a a = true) -> list_eqb eqb l l = true.
Proof. intros H; induction l; cbn; [reflexivity|]. rewrite H, IHl. reflexivity. Qed.

Lemma event_eqb_refl e : event_eqb e e = true.
Proof. destruct e; cbn; apply Nat.eqb_refl. Qed.

Theorem model_meets_spec_start cs : spec_C20_start cs (start cs) = true.
Proof.
  unfold spec_C20_start. rewrite start_eq_spec. destruct (spec_start cs) as [ev r]. cbn [fst snd].
  rewrite (list_eqb_refl _ _ event_eqb_refl). destruct r; cbn; auto using Nat.eqb_refl.
Qed.

Theorem model_meets_spec_close cs : spec_C20_close cs (close cs) = true.
Proof.
  unfold spec_C20_close. rewrite close_eq_spec. destruct (spec_close cs) as [ev r]. cbn [fst snd].
  rewrite (list_eqb_refl _ _ event_eqb_refl), (list_eqb_refl _ _ Nat.eqb_refl). reflexivity.
Qed.

Theorem model_meets_spec_lookup p chain : spec_C20_lookup p chain (lookup p chain 0) = true.
Proof.
  unfold spec_C20_lookup. rewrite lookup_eq_spec. destruct (spec_lookup p chain 0) as [[a b]|]; cbn;
    [rewrite !Nat.eqb_refl|]; reflexivity.
Qed.

(* ---- histories of registrations and lookups ---- *)
Theorem run_lops_eq_spec ops : forall chain, run_lops chain ops = spec_run_lops chain ops.
Proof.
  induction ops as [|[l c|l bk key] r IH]; intros chain; cbn [run_lops spec_run_lops]; [reflexivity|apply IH|].
  rewrite lookup_eq_spec, IH. reflexivity.
Qed.

Lemma opt_list_eqb_refl l : opt_list_eqb l l = true.
Proof.
  induction l as [|[[a b]|] r IH]; cbn; [reflexivity| |exact IH]. rewrite !Nat.eqb_refl. exact IH.
Qed.

Theorem model_meets_spec_lops depth ops : spec_C20_lops depth ops (run_lops (repeat [] depth) ops) = true.
Proof. unfold spec_C20_lops. rewrite run_lops_eq_spec. apply opt_list_eqb_refl. Qed.

(* a lookup made after a registration sees it: registering a shadowing component in the asking container
   changes the answer at once *)
Lemma reg_at_skipn_same chain l c : (l < length chain)%nat ->
  exists cs rest, skipn l chain = cs :: rest /\ skipn l (reg_at chain l c) = (cs ++ [c]) :: rest.
Proof.
  revert l; induction chain as [|x r IH]; intros l Hl; [cbn in Hl; lia|].
  destruct l as [|l]; cbn [skipn reg_at]; [eauto|]. apply IH. cbn in Hl. lia.
Qed.

Theorem lookup_sees_local_registration chain l c key bk :
  (l < length chain)%nat -> look_pred bk key c = true ->
  (forall cs rest, skipn l chain = cs :: rest -> existsb (look_pred bk key) cs = false) ->
  exists i, lookup (look_pred bk key) (skipn l (reg_at chain l c)) l = Some (l, i).
Proof.
  intros Hl Hc Hnone. destruct (reg_at_skipn_same chain l c Hl) as (cs & rest & E1 & E2).
  rewrite E2. cbn [lookup]. specialize (Hnone cs rest E1).
  assert (Hf : forall n, find_idx (look_pred bk key) (cs ++ [c]) n = Some (n + length cs)%nat).
  { clear -Hc Hnone. induction cs as [|x r IH]; intros n; cbn.
    - rewrite Hc. f_equal. lia.
    - cbn in Hnone. apply orb_false_iff in Hnone as [Hx Hr]. rewrite Hx, (IH Hr). f_equal. lia. }
  rewrite Hf. eauto.
Qed.
