(* C08 at the DiffManager layer: the index a live DiffManager holds after any history of head-entry updates is
   the index FillDiff builds from the resulting head storage (restart at any point), hence equal Hash() and equal
   StateStorage hash — under the per-update condition [update_ok]; the readable condition [update_wf] implies it;
   the condition is necessary (violating it makes the two indexes differ at once). *)
From Coq Require Import List NArith Bool Lia.
Import ListNotations.
From AnySync Require Import Model.Ldiff Model.HeadIndex Proofs.LdiffContents Proofs.LdiffTree Proofs.HeadIndexBase.
Open Scope N_scope.

Section Main.
  Variable H : N -> N.
  Variable HD : list N -> N.
  Hypothesis H64 : forall id, H id <= U64MAX.
  Variables (df th : N).
  Hypothesis Hdf : 2 <= df.
  Hypothesis Hdf64 : df <= U64MAX.

  Notation elem_of := (elem_of H HD).
  Notation fill_elems := (fill_elems H HD).
  Notation fill_ops := (fill_ops H HD).
  Notation fill_index := (fill_index H HD df th).
  Notation world := (world).
  Notation wstep := (wstep H HD df th).
  Notation wrun := (wrun H HD df th).
  Notation wstart := (wstart H HD df th).
  Notation wfill := (wfill H HD df th).

  (* ---------------------------------------------------------------- FillDiff builds exactly the included entries *)
  Lemma fill_index_contents s x : uniq_store s -> (In x (contents (fill_index s)) <-> In x (fill_elems s)).
  Proof.
    intros Hu. unfold HeadIndex.fill_index, HeadIndex.fill_ops.
    pose proof (fill_elems_nodup H HD s Hu) as Hn.
    destruct (fill_elems s) as [|a r] eqn:He.
    - cbn. tauto.
    - unfold run_ops. cbn [fold_left step]. rewrite (contents_set_many df th (a :: r) _ x Hn). cbn [empty_index contents].
      split; [intros [Hx|[[] _]]; exact Hx|intros Hx; left; exact Hx].
  Qed.

  (* ---------------------------------------------------------------- the invariant *)
  Record J (w : world) : Prop := {
    j_uniq : uniq_store (w_store w);
    j_hist : w_ix w = run_ops df th (w_ops w);
    j_ops : Forall (op_ok H) (w_ops w);
    j_hash : w_hash w = top_hash (w_ix w);
    j_cont : forall x, In x (contents (w_ix w)) <-> In x (fill_elems (w_store w))
  }.

  Lemma J_wfill i : uniq_store (i_store i) -> J (wfill i).
  Proof.
    intros Hu. constructor; cbn.
    - exact Hu.
    - reflexivity.
    - apply fill_ops_ok, H64.
    - reflexivity.
    - intros x. apply fill_index_contents, Hu.
  Qed.

  Lemma w_i_step w ev : w_i (wstep w ev) = istep (w_i w) ev.
  Proof.
    unfold HeadIndex.wstep. destruct ev as [u|id|sil]; try reflexivity.
    destruct (live_action (w_ds w) u); reflexivity.
  Qed.

  Lemma live_remove_not_included ds u id : live_action ds u = LRemove id -> included_fill u = false /\ id = e_id u.
  Proof.
    unfold live_action, del_status, included_fill, fill_visible.
    destruct (e_del u) as [d|]; cbn.
    - destruct (d =? 0); cbn; [destruct (mem (e_id u) ds); [|destruct (root_only u)]; discriminate|].
      intros Hq. inversion Hq. auto.
    - destruct (mem (e_id u) ds); [|destruct (root_only u)]; discriminate.
  Qed.

  Lemma J_step w ev : J w -> event_ok (w_i w) ev = true -> J (wstep w ev).
  Proof.
    intros [Hu Hh Ho Hs Hc] Hok. destruct ev as [u|id|sil].
    - (* UpdateEntry + UpdateHeads *)
      cbn [event_ok] in Hok. unfold update_ok in Hok. unfold HeadIndex.wstep.
      change (i_ds (w_i w)) with (w_ds w) in Hok.
      destruct (live_action (w_ds w) u) as [id| |] eqn:Hact.
      + apply live_remove_not_included in Hact as [Hni ->].
        constructor; cbn [w_store w_i w_ix w_hash w_ops istep i_store].
        * apply uniq_put, Hu.
        * rewrite run_ops_snoc, <- Hh. reflexivity.
        * apply Forall_app. split; [exact Ho|constructor; [exact I|constructor]].
        * reflexivity.
        * intros x. rewrite contents_remove, in_fill_put, Hc, Hni. split.
          -- intros Hx. right. exact Hx.
          -- intros [[Hf _]|Hx]; [discriminate Hf|exact Hx].
      + constructor; cbn [w_store w_i w_ix w_hash w_ops istep i_store]; try assumption.
        * apply uniq_put, Hu.
        * intros x. rewrite Hc. symmetry. apply fill_put_same; assumption.
      + constructor; cbn [w_store w_i w_ix w_hash w_ops istep i_store].
        * apply uniq_put, Hu.
        * rewrite run_ops_snoc, <- Hh. reflexivity.
        * apply Forall_app. split; [exact Ho|]. constructor; [|constructor].
          constructor; [apply elem_of_ok, H64|constructor].
        * reflexivity.
        * intros x. unfold set_many. cbn [fold_left]. rewrite contents_set_one, in_fill_put, Hc, Hok.
          cbn [eid HeadIndex.elem_of]. split.
          -- intros [Hx|Hx]; [left; auto|right; exact Hx].
          -- intros [[_ Hx]|Hx]; [left; exact Hx|right; exact Hx].
    - constructor; cbn; assumption.
    - unfold HeadIndex.wstep. apply J_wfill. cbn [istep i_store]. apply uniq_put_all, Hu.
  Qed.

  Lemma hist_ok_app evs1 : forall i evs2,
    hist_ok i (evs1 ++ evs2) = hist_ok i evs1 && hist_ok (irun i evs1) evs2.
  Proof.
    induction evs1 as [|ev r IH]; intros i evs2; cbn [app hist_ok irun fold_left]; [reflexivity|].
    rewrite IH, andb_assoc. reflexivity.
  Qed.

  Lemma w_i_run evs : forall w, w_i (wrun w evs) = irun (w_i w) evs.
  Proof.
    unfold HeadIndex.wrun, irun. induction evs as [|ev r IH]; intros w; cbn [fold_left]; [reflexivity|].
    rewrite IH, w_i_step. reflexivity.
  Qed.

  Lemma J_run evs : forall w, J w -> hist_ok (w_i w) evs = true -> J (wrun w evs).
  Proof.
    unfold HeadIndex.wrun. induction evs as [|ev r IH]; intros w Hj Hok; cbn [fold_left]; [exact Hj|].
    cbn [hist_ok] in Hok. apply andb_true_iff in Hok as [Hev Hr].
    apply IH; [apply J_step; assumption|rewrite w_i_step; exact Hr].
  Qed.

  (* the live index is the index FillDiff builds from the storage as it is now *)
  Lemma J_live_is_fill w : J w -> w_ix w = fill_index (w_store w).
  Proof.
    intros [Hu Hh Ho _ Hc]. rewrite Hh. unfold HeadIndex.fill_index.
    apply (same_entries_same_index df th Hdf Hdf64 H); [exact Ho|apply fill_ops_ok, H64|].
    intros x. rewrite <- Hh, Hc. symmetry. apply fill_index_contents, Hu.
  Qed.

  (* MAIN: after any history satisfying the condition, at every point of it *)
  Theorem live_equals_restart s0 evs :
    uniq_store s0 -> hist_ok (istart s0) evs = true ->
    forall k,
      let w := wrun (wstart s0) (firstn k evs) in
      w_ix w = fill_index (w_store w)
      /\ top_hash (w_ix w) = top_hash (fill_index (w_store w))
      /\ w_hash w = top_hash (fill_index (w_store w))
      /\ w_ix w = run_ops df th (w_ops w)
      /\ w_store w = i_store (irun (istart s0) (firstn k evs)).
  Proof.
    intros Hu Hok k w.
    assert (Hj : J w).
    { apply J_run; [apply J_wfill, Hu|].
      rewrite <- (firstn_skipn k evs), hist_ok_app in Hok. apply andb_true_iff in Hok. apply Hok. }
    pose proof (J_live_is_fill w Hj) as Heq.
    split; [exact Heq|split; [rewrite <- Heq; reflexivity|split; [rewrite (j_hash w Hj), <- Heq; reflexivity|split; [apply Hj|]]]].
    unfold w, w_store. rewrite w_i_run. reflexivity.
  Qed.

  (* the ids and range answers agree as well (they are functions of the index) *)
  Corollary live_equals_restart_ranges s0 evs :
    uniq_store s0 -> hist_ok (istart s0) evs = true ->
    let w := wrun (wstart s0) evs in
    map eid (contents (w_ix w)) = map eid (contents (fill_index (w_store w)))
    /\ forall from to we, get_range (w_ix w) from to we = get_range (fill_index (w_store w)) from to we.
  Proof.
    intros Hu Hok w. pose proof (live_equals_restart s0 evs Hu Hok (length evs)) as Hm.
    rewrite firstn_all in Hm. cbv zeta in Hm. destruct Hm as (Heq & _). fold w in Heq.
    rewrite <- Heq. split; reflexivity.
  Qed.

  (* ---------------------------------------------------------------- the readable condition implies the exact one *)
  Lemma update_wf_ok i u : update_wf i u = true -> update_ok i u = true.
  Proof.
    unfold update_wf, update_ok, live_action, del_status, included_fill, fill_visible, fill_skips.
    destruct (e_del u) as [d|] eqn:Hd.
    - intros Hw. rewrite Hw. reflexivity.
    - cbn. intros Hw. apply andb_true_iff in Hw as [Hds Hr]. apply negb_true_iff in Hds. rewrite Hds.
      destruct (root_only u); [exact Hr|]. apply negb_true_iff in Hr. rewrite Hr. reflexivity.
  Qed.

  Lemma hist_wf_ok evs : forall i, hist_wf i evs = true -> hist_ok i evs = true.
  Proof.
    induction evs as [|ev r IH]; intros i Hw; cbn [hist_wf hist_ok] in *; [reflexivity|].
    apply andb_true_iff in Hw as [He Hr]. apply andb_true_iff. split; [|apply IH, Hr].
    destruct ev as [u| |]; cbn [event_wf event_ok] in *; [apply update_wf_ok, He|reflexivity|reflexivity].
  Qed.

  (* ---------------------------------------------------------------- necessity *)
  (* If live == restart holds before an update that violates the condition, it fails right after it:
     the two indexes hold different element sets (for an injective head digest).  *)
  Theorem update_ok_necessary w u :
    (forall a b, HD a = HD b -> a = b) ->
    J w -> update_ok (w_i w) u = false ->
    let w' := wstep w (EvUpd u) in
    ~ (forall x, In x (contents (w_ix w')) <-> In x (contents (fill_index (w_store w')))).
  Proof.
    intros Hinj [Hu Hh Ho Hs Hc] Hbad w' Hsame.
    assert (Hu' : uniq_store (w_store w')).
    { unfold w', w_store. rewrite w_i_step. cbn [istep i_store]. apply uniq_put, Hu. }
    assert (Hst : w_store w' = put u (w_store w)).
    { unfold w', w_store. rewrite w_i_step. reflexivity. }
    assert (Hsame' : forall x, In x (contents (w_ix w')) <-> In x (fill_elems (put u (w_store w)))).
    { intros x. rewrite (Hsame x), (fill_index_contents _ x Hu'), Hst. reflexivity. }
    clear Hsame. unfold update_ok in Hbad. change (i_ds (w_i w)) with (w_ds w) in Hbad.
    unfold w', HeadIndex.wstep in Hsame'.
    destruct (live_action (w_ds w) u) as [id| |] eqn:Hact; [discriminate Hbad| |].
    - (* ignored live, but FillDiff's view of the id changes *)
      cbn [w_ix] in Hsame'. unfold contrib_of in Hbad. change (i_store (w_i w)) with (w_store w) in Hbad.
      assert (Hfe : forall x, In x (fill_elems (w_store w)) <-> In x (fill_elems (put u (w_store w))))
        by (intros x; rewrite <- Hc; apply Hsame').
      unfold contrib in Hbad.
      destruct (included_fill u) eqn:Hiu.
      + (* FillDiff now has elem_of u; it must have been there before *)
        assert (Hin : In (elem_of u) (fill_elems (w_store w))).
        { apply Hfe, in_fill_put. left. auto. }
        apply in_fill_elems in Hin as (e & Hin & Hie & Hxe).
        assert (Hid : e_id e = e_id u) by (inversion Hxe; reflexivity).
        rewrite <- Hid, (lookup_in _ e Hu Hin), Hie in Hbad. cbn [ocontrib_eqb] in Hbad.
        assert (Hhe : e_heads u = e_heads e) by (apply Hinj; inversion Hxe; reflexivity).
        rewrite Hhe in Hbad.
        assert (Hrefl : forall l, nl_eqb l l = true)
          by (induction l as [|a r IHr]; cbn [nl_eqb]; [reflexivity|rewrite N.eqb_refl; exact IHr]).
        rewrite Hrefl in Hbad. discriminate Hbad.
      + destruct (lookup (e_id u) (w_store w)) as [e0|] eqn:Hl; [|discriminate Hbad].
        destruct (included_fill e0) eqn:Hi0; [|discriminate Hbad].
        apply lookup_some in Hl as [Hin0 Hid0].
        assert (Hin : In (elem_of e0) (fill_elems (put u (w_store w)))).
        { apply Hfe, in_fill_elems. exists e0. auto. }
        apply in_fill_put in Hin as [[Hf _]|[_ Hne]]; [rewrite Hiu in Hf; discriminate Hf|]. apply Hne. exact Hid0.
    - (* set live, but FillDiff does not include it *)
      cbn [w_ix] in Hsame'.
      assert (Hin : In (elem_of u) (fill_elems (put u (w_store w)))).
      { apply Hsame'. unfold set_many. cbn [fold_left]. apply contents_set_one. left. reflexivity. }
      apply in_fill_put in Hin as [[Hf _]|[_ Hne]]; [cbv beta iota in Hbad; rewrite Hf in Hbad; discriminate Hbad|].
      apply Hne. reflexivity.
  Qed.
  (* ---------------------------------------------------------------- the model meets spec_C08_restart *)
  Lemma nlist_eqb_refl l : nlist_eqb l l = true.
  Proof. induction l as [|a r IH]; cbn [nlist_eqb]; [reflexivity|rewrite N.eqb_refl; exact IH]. Qed.

  Theorem model_meets_spec_restart (tok : digest -> N) s0 evs :
    uniq_store s0 -> hist_ok (istart s0) evs = true ->
    forall k,
      let w := wrun (wstart s0) (firstn k evs) in
      spec_C08_restart (tok (top_hash (w_ix w))) (tok (top_hash (fill_index (w_store w)))) (tok (w_hash w))
                       (map eid (contents (w_ix w))) (map eid (contents (fill_index (w_store w)))) = true.
  Proof.
    intros Hu Hok k w. destruct (live_equals_restart s0 evs Hu Hok k) as (Heq & _ & Hst & _). fold w in Heq, Hst.
    unfold spec_C08_restart, same_ids. rewrite Hst, <- Heq, !N.eqb_refl, nlist_eqb_refl. reflexivity.
  Qed.
End Main.
