(* Proofs about the lifecycle histories of Model/App.v (property C20): Register / Start / Close in any
   order on one container, with registrations attempted while a Start is executing. *)
From Coq Require Import List NArith Bool Arith Lia.
Import ListNotations.
From AnySync Require Import Model.App Proofs.AppProofs.

(* ---- the init-before-run discipline ---- *)
Lemma ordered_from_inits l : forall inited rest,
  ordered_from inited false (map EInit l ++ rest) = ordered_from (rev l ++ inited) false rest.
Proof.
  induction l as [|i l IH]; intros inited rest; [reflexivity|].
  cbn [map app ordered_from negb andb]. rewrite IH. cbn [rev]. rewrite <- app_assoc. reflexivity.
Qed.

Lemma ordered_from_closes l inited b : ordered_from inited b (map EClose l) = true.
Proof. induction l as [|i l IH]; [reflexivity|]. exact IH. Qed.

Lemma existsb_eqb_in i l : In i l -> existsb (Nat.eqb i) l = true.
Proof. intros H. apply existsb_exists. exists i. split; [exact H|apply Nat.eqb_refl]. Qed.

Lemma ordered_from_runs l : forall inited b closes,
  (forall i, In i l -> In i inited) ->
  ordered_from inited b (map ERun l ++ map EClose closes) = true.
Proof.
  induction l as [|i l IH]; intros inited b closes Hin.
  - apply ordered_from_closes.
  - cbn [map app ordered_from]. rewrite (existsb_eqb_in i inited) by (apply Hin; left; reflexivity).
    cbn [andb]. apply IH. intros j Hj. apply Hin. right. exact Hj.
Qed.

Lemma runnable_idx_in cs n i : In i (runnable_idx cs n) -> In i (seq 0 n).
Proof. unfold runnable_idx. intros H. apply filter_In in H. exact (proj1 H). Qed.

Lemma runnable_idx_mono cs n m i : n <= m -> In i (runnable_idx cs n) -> In i (seq 0 m).
Proof. intros Hle H. apply runnable_idx_in in H. apply in_seq in H. apply in_seq. lia. Qed.

Lemma find_idx_lt p cs j : find_idx p cs 0 = Some j -> j < length cs.
Proof. intros H. apply find_idx_some in H. destruct H as (pre & c & post & -> & Hl & _). rewrite app_length. cbn. lia. Qed.

Theorem ordered_start cs : ordered (fst (start cs)) = true.
Proof.
  rewrite start_eq_spec. unfold spec_start, ordered.
  destruct (first_init_fail cs) as [i|] eqn:Hi.
  - cbn [fst]. rewrite ordered_from_inits. apply ordered_from_closes.
  - destruct (first_run_fail cs) as [i|] eqn:Hr; cbn [fst].
    + rewrite ordered_from_inits. apply ordered_from_runs.
      intros j Hj. rewrite app_nil_r. apply in_rev. rewrite rev_involutive.
      apply (runnable_idx_mono cs (S i) (length cs)); [|exact Hj].
      unfold first_run_fail in Hr. apply find_idx_lt in Hr. lia.
    + rewrite ordered_from_inits.
      rewrite <- (app_nil_r (map ERun _)). change (@nil event) with (map EClose []).
      apply ordered_from_runs.
      intros j Hj. rewrite app_nil_r. apply in_rev. rewrite rev_involutive.
      apply (runnable_idx_in cs). exact Hj.
Qed.

(* what [ordered] says, in the property's words *)
Lemma ordered_from_sound ev : forall inited b pre i post,
  ordered_from inited b ev = true -> ev = pre ++ ERun i :: post ->
  (In (EInit i) pre \/ In i inited) /\ (forall j, ~ In (EInit j) post).
Proof.
  induction ev as [|e ev IH]; intros inited b pre i post Ho He.
  - destruct pre; discriminate.
  - destruct pre as [|e' pre]; cbn [app] in He; injection He as He1 Hev; subst e.
    + (* the run is the head *)
      cbn [ordered_from] in Ho. apply andb_prop in Ho as [Hex Ho]. split.
      * right. apply existsb_exists in Hex as (x & Hx & Hxe). apply Nat.eqb_eq in Hxe. rewrite Hxe. exact Hx.
      * subst ev.
        (* after a run, [running] stays true: no init can follow *)
        assert (G : forall l inited, ordered_from inited true l = true -> forall j, ~ In (EInit j) l).
        { induction l as [|x l IHl]; intros ind H j Hj; [exact Hj|].
          destruct x as [k|k|k]; cbn [ordered_from] in H.
          - cbn in H. discriminate.
          - apply andb_prop in H as [_ H]. destruct Hj as [Hj|Hj]; [discriminate|]. exact (IHl _ H j Hj).
          - destruct Hj as [Hj|Hj]; [discriminate|]. exact (IHl _ H j Hj). }
        exact (G _ _ Ho).
    + destruct e' as [k|k|k]; cbn [ordered_from] in Ho.
      * apply andb_prop in Ho as [_ Ho].
        destruct (IH _ _ _ _ _ Ho Hev) as [[H|H] H2]; (split; [|exact H2]).
        -- left. right. exact H.
        -- destruct H as [H|H]; [left; left; subst; reflexivity | right; exact H].
      * apply andb_prop in Ho as [_ Ho].
        destruct (IH _ _ _ _ _ Ho Hev) as [[H|H] H2]; (split; [|exact H2]); [left; right; exact H | right; exact H].
      * destruct (IH _ _ _ _ _ Ho Hev) as [[H|H] H2]; (split; [|exact H2]); [left; right; exact H | right; exact H].
Qed.

Theorem ordered_sound ev pre i post :
  ordered ev = true -> ev = pre ++ ERun i :: post ->
  In (EInit i) pre /\ (forall j, ~ In (EInit j) post).
Proof.
  intros Ho He. destruct (ordered_from_sound ev [] false pre i post Ho He) as [[H|[]] H2]. split; assumption.
Qed.

(* every event of a Start concerns a component registered before it began *)
Theorem start_events_registered cs e : In e (fst (start cs)) -> event_idx e < length cs.
Proof.
  rewrite start_eq_spec. unfold spec_start.
  assert (Hseq : forall m x, m <= length cs -> In x (seq 0 m) -> x < length cs).
  { intros m x Hm Hx. apply in_seq in Hx. lia. }
  assert (Hrun : forall m x, m <= length cs -> In x (runnable_idx cs m) -> x < length cs).
  { intros m x Hm Hx. apply runnable_idx_in in Hx. eauto. }
  destruct (first_init_fail cs) as [i|] eqn:Hi.
  - unfold first_init_fail in Hi. apply find_idx_lt in Hi. cbn [fst]. intros H.
    apply in_app_or in H as [H|H]; apply in_map_iff in H as (x & <- & Hx); cbn [event_idx].
    + apply (Hseq (S i)); [lia|exact Hx].
    + apply in_rev in Hx. apply (Hrun (S i)); [lia|exact Hx].
  - destruct (first_run_fail cs) as [i|] eqn:Hr; cbn [fst]; intros H.
    + unfold first_run_fail in Hr. apply find_idx_lt in Hr.
      apply in_app_or in H as [H|H]; [|apply in_app_or in H as [H|H]];
        apply in_map_iff in H as (x & <- & Hx); cbn [event_idx].
      * apply (Hseq (length cs)); [lia|exact Hx].
      * apply (Hrun (S i)); [lia|exact Hx].
      * apply in_rev in Hx. apply (Hrun (S i)); [lia|exact Hx].
    + apply in_app_or in H as [H|H]; apply in_map_iff in H as (x & <- & Hx); cbn [event_idx].
      * apply (Hseq (length cs)); [lia|exact Hx].
      * apply (Hrun (length cs)); [lia|exact Hx].
Qed.

Lemma filter_all_true {A} (p : A -> bool) l : (forall x, In x l -> p x = true) -> filter p l = l.
Proof.
  induction l as [|a l IH]; intros H; [reflexivity|]. cbn [filter].
  rewrite (H a) by (left; reflexivity). f_equal. apply IH. intros x Hx. apply H. right. exact Hx.
Qed.

Theorem model_meets_spec_start_late cs : spec_C20_start_late cs (start cs) = true.
Proof.
  unfold spec_C20_start_late. rewrite ordered_start, andb_true_r.
  rewrite filter_all_true.
  - rewrite <- surjective_pairing. apply model_meets_spec_start.
  - intros e He. apply Nat.ltb_lt. apply start_events_registered. exact He.
Qed.

Theorem model_meets_spec_hops ops : forall cs, spec_C20_hops cs ops (run_hops cs ops) = true.
Proof.
  induction ops as [|o ops IH]; intros cs; [reflexivity|].
  destruct o as [c|late|]; cbn [run_hops].
  - cbn [spec_C20_hops]. apply IH.
  - pose proof (model_meets_spec_start_late cs) as Hs.
    destruct (start cs) as [ev res]. cbn [spec_C20_hops]. rewrite Hs. cbn [andb]. apply IH.
  - pose proof (model_meets_spec_close cs) as Hc.
    destruct (close cs) as [ev errs]. cbn [spec_C20_hops]. rewrite Hc. cbn [andb]. apply IH.
Qed.

(* a registration attempted during a Start is inert for that Start: it neither initialises nor runs (nor
   closes) the late component, whatever the trigger point *)
Theorem late_registration_inert cs late ops ev res rest :
  run_hops cs (HStart late :: ops) = (ev, res) :: rest ->
  (ev, res) = (fst (start cs), HRStart (snd (start cs))) /\
  (forall e, In e ev -> event_idx e < length cs) /\
  rest = run_hops (after_start cs ev late) ops.
Proof.
  cbn [run_hops]. destruct (start cs) as [ev' res'] eqn:Hs. intros H. injection H as <- <- <-.
  split; [reflexivity|]. split; [|reflexivity].
  intros e He. apply start_events_registered. rewrite Hs. exact He.
Qed.

(* and it is registered afterwards exactly when the call it was attempted from was made *)
Theorem late_registration_lands cs ph k c :
  after_start cs (fst (start cs)) (Some (ph, k, c)) =
  if reached (fst (start cs)) ph k then cs ++ [c] else cs.
Proof. reflexivity. Qed.
