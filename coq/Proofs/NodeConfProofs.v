(* Proofs about Model/NodeConf.v (property C18). *)
From Coq Require Import List NArith ZArith Bool Arith Lia Permutation.
Import ListNotations.
From AnySync Require Import Model.Chash Model.NodeConf Proofs.ChashProofs Proofs.ChashTotal.

(* ---------------------------------------------------------------- ReplKey *)
Lemma take_until_dot_nodot : forall s, memN DOT s = false -> take_until_dot s = s.
Proof.
  induction s as [|c r IH]; intro Hnd; [reflexivity|].
  cbn [take_until_dot]. unfold memN in Hnd. cbn [existsb] in Hnd.
  apply orb_false_elim in Hnd. destruct Hnd as [Hc Hr].
  rewrite N.eqb_sym in Hc. rewrite Hc. f_equal. apply IH. exact Hr.
Qed.

Lemma take_until_dot_app : forall a b, memN DOT a = false -> take_until_dot (a ++ DOT :: b) = a.
Proof.
  induction a as [|c r IH]; intros b Hnd.
  - cbn. reflexivity.
  - cbn [app take_until_dot]. unfold memN in Hnd. cbn [existsb] in Hnd.
    apply orb_false_elim in Hnd. destruct Hnd as [Hc Hr].
    rewrite N.eqb_sym in Hc. rewrite Hc. f_equal. apply IH. exact Hr.
Qed.

Lemma memN_rev : forall x l, memN x (rev l) = memN x l.
Proof.
  intros x l. unfold memN. destruct (existsb (N.eqb x) l) eqn:He.
  - apply existsb_exists in He. destruct He as [y [Hin Hy]].
    apply existsb_exists. exists y. split; [apply in_rev; rewrite rev_involutive; exact Hin|exact Hy].
  - destruct (existsb (N.eqb x) (rev l)) eqn:He2; [|reflexivity].
    apply existsb_exists in He2. destruct He2 as [y [Hin Hy]].
    apply in_rev in Hin. assert (Ht : existsb (N.eqb x) l = true) by (apply existsb_exists; exists y; auto).
    congruence.
Qed.

(* no '.' in the id: the whole id is the key *)
Lemma repl_key_nodot : forall s, memN DOT s = false -> repl_key s = s.
Proof.
  intros s Hnd. unfold repl_key. rewrite take_until_dot_nodot by (rewrite memN_rev; exact Hnd).
  apply rev_involutive.
Qed.

(* the key is the text after the LAST '.', whatever precedes it *)
Lemma repl_key_suffix : forall pre suf, memN DOT suf = false -> repl_key (pre ++ DOT :: suf) = suf.
Proof.
  intros pre suf Hnd. unfold repl_key.
  rewrite rev_app_distr. cbn [rev]. rewrite <- app_assoc. cbn [app].
  rewrite take_until_dot_app by (rewrite memN_rev; exact Hnd).
  apply rev_involutive.
Qed.

Lemma repl_key_prefix_irrelevant : forall pre1 pre2 suf, memN DOT suf = false ->
  repl_key (pre1 ++ DOT :: suf) = repl_key (pre2 ++ DOT :: suf) /\ repl_key (pre1 ++ DOT :: suf) = repl_key suf.
Proof.
  intros pre1 pre2 suf Hnd. rewrite !repl_key_suffix by exact Hnd. rewrite repl_key_nodot by exact Hnd. auto.
Qed.

(* ---------------------------------------------------------------- boolean helpers of the specification *)
Lemma memN_true : forall x l, memN x l = true <-> In x l.
Proof.
  intros x l. unfold memN. rewrite existsb_exists. split.
  - intros [y [Hin Hy]]. apply N.eqb_eq in Hy. now subst.
  - intro Hin. exists x. split; [exact Hin|apply N.eqb_refl].
Qed.

Lemma memN_false : forall x l, memN x l = false <-> ~ In x l.
Proof.
  intros x l. rewrite <- memN_true. destruct (memN x l); split; intro H; congruence.
Qed.

Lemma list_eqb_N_eq : forall a b, list_eqb N.eqb a b = true <-> a = b.
Proof.
  induction a as [|x a IH]; intros [|y b]; cbn [list_eqb]; split; intro H; try reflexivity; try discriminate.
  - apply andb_true_iff in H. destruct H as [Hxy Hab]. apply N.eqb_eq in Hxy. apply IH in Hab. now subst.
  - injection H as -> ->. rewrite N.eqb_refl. cbn. now apply IH.
Qed.

Lemma nodupb_true : forall l, nodupb l = true <-> NoDup l.
Proof.
  induction l as [|x r IH]; cbn [nodupb]; split; intro H; try reflexivity; try constructor.
  - apply andb_true_iff in H. destruct H as [Hx _]. apply negb_true_iff in Hx. now apply memN_false in Hx.
  - apply andb_true_iff in H. destruct H as [_ Hr]. now apply IH.
  - inversion H as [|x' r' Hx Hr]; subst. apply andb_true_iff. split; [|now apply IH].
    apply negb_true_iff. now apply memN_false.
Qed.

Lemma subsetb_true : forall a b, subsetb a b = true <-> (forall x, In x a -> In x b).
Proof.
  intros a b. unfold subsetb. rewrite forallb_forall. split; intros H x Hx.
  - apply memN_true. now apply H.
  - apply memN_true. now apply H.
Qed.

Lemma set_eqb_true : forall a b, set_eqb a b = true <-> (forall x, In x a <-> In x b).
Proof.
  intros a b. unfold set_eqb. rewrite andb_true_iff, !subsetb_true. split.
  - intros [H1 H2] x. split; auto.
  - intro H. split; intros x Hx; now apply H.
Qed.

Lemma count_distinct_nodup : forall l, count_distinct l = length (nodup N.eq_dec l).
Proof.
  induction l as [|x r IH]; [reflexivity|]. cbn [count_distinct nodup].
  destruct (in_dec N.eq_dec x r) as [Hin|Hnin].
  - apply memN_true in Hin. now rewrite Hin.
  - apply memN_false in Hnin. rewrite Hnin. cbn [length]. now rewrite IH.
Qed.

Lemma ends_with_app : forall pre suf, ends_with (pre ++ suf) suf = true.
Proof.
  induction pre as [|c pre IH]; intro suf.
  - cbn [app]. destruct suf as [|c r]; cbn [ends_with].
    + reflexivity.
    + assert (He : list_eqb N.eqb (c :: r) (c :: r) = true) by now apply list_eqb_N_eq.
      now rewrite He.
  - cbn [app ends_with]. rewrite IH. apply orb_true_r.
Qed.

Lemma last_dot_split : forall s, memN DOT s = true ->
  exists pre suf, s = pre ++ DOT :: suf /\ memN DOT suf = false.
Proof.
  induction s as [|c r IH]; intro Hd; [discriminate|].
  destruct (memN DOT r) eqn:Hr.
  - destruct (IH eq_refl) as [pre [suf [Heq Hs]]]. exists (c :: pre), suf. split; [now rewrite Heq|exact Hs].
  - unfold memN in Hd, Hr. cbn [existsb] in Hd. rewrite Hr in Hd. rewrite orb_false_r in Hd.
    apply N.eqb_eq in Hd. subst c. exists [], r. split; [reflexivity|exact Hr].
Qed.

(* the model's ReplKey meets the declarative description used by spec_C18 *)
Lemma spec_replkey_repl_key : forall s, spec_replkey s (repl_key s) = true.
Proof.
  intro s. unfold spec_replkey. destruct (memN DOT s) eqn:Hd.
  - destruct (last_dot_split s Hd) as [pre [suf [Heq Hs]]]. subst s.
    rewrite repl_key_suffix by exact Hs. rewrite Hs. cbn [negb andb].
    rewrite ends_with_app. apply orb_true_r.
  - rewrite repl_key_nodot by exact Hd. rewrite Hd. cbn [negb andb].
    assert (He : list_eqb N.eqb s s = true) by now apply list_eqb_N_eq. now rewrite He.
Qed.

Lemma is_sync_node_true : forall cfg p, is_sync_node cfg p = true <-> In p (tree_ids cfg).
Proof.
  intros cfg p. unfold is_sync_node, tree_ids. rewrite existsb_exists, in_map_iff. split.
  - intros [n [Hin Hn]]. apply andb_true_iff in Hn. destruct Hn as [Hid Ht]. apply N.eqb_eq in Hid.
    exists n. split; [exact Hid|]. apply filter_In. split; [exact Hin|exact Ht].
  - intros [n [Hid Hin]]. apply filter_In in Hin. destruct Hin as [Hin Ht].
    exists n. split; [exact Hin|]. apply andb_true_iff. split; [now apply N.eqb_eq|exact Ht].
Qed.

Lemma sync_node_count_eq : forall cfg, sync_node_count cfg = member_count (tree_ids cfg).
Proof. intro cfg. unfold sync_node_count, member_count. apply count_distinct_nodup. Qed.

(* ---------------------------------------------------------------- self filtering *)
Lemma filter_ne_length_in : forall (p : N) (m : list N), NoDup m -> In p m ->
  S (length (filter (fun x => negb (x =? p)%N) m)) = length m.
Proof.
  intros p m. induction m as [|a r IH]; intros Hnd Hin; [destruct Hin|].
  inversion Hnd as [|a' r' Ha Hr]; subst. cbn [filter].
  destruct (N.eqb_spec a p) as [Heq|Hne].
  - subst a. cbn [negb length]. f_equal.
    assert (Hall : forall x, In x r -> negb (x =? p)%N = true).
    { intros x Hx. apply negb_true_iff. apply N.eqb_neq. intro Hxp. subst x. contradiction. }
    clear -Hall. induction r as [|b r IH]; [reflexivity|]. cbn [filter].
    rewrite (Hall b) by (left; reflexivity). cbn [length]. f_equal. apply IH. intros x Hx. apply Hall. now right.
  - cbn [negb length]. f_equal. apply IH; [exact Hr|]. destruct Hin as [Hin|Hin]; [congruence|exact Hin].
Qed.

Lemma filter_ne_notin : forall (p : N) (m : list N), ~ In p m -> filter (fun x => negb (x =? p)%N) m = m.
Proof.
  intros p m. induction m as [|a r IH]; intro Hnin; [reflexivity|]. cbn [filter].
  destruct (N.eqb_spec a p) as [Heq|Hne].
  - subst a. exfalso. apply Hnin. now left.
  - cbn [negb]. f_equal. apply IH. intro Hin. apply Hnin. now right.
Qed.

Section NodeConfProofs.
  Variable PH : list N.
  Variable VH : N -> list N.
  Variable KH : list N -> N.

  Local Notation table := (table PH VH).
  Local Notation members_in := (members_in PH KH).
  Local Notation node_ids_in := (node_ids_in PH KH).
  Local Notation is_responsible_in := (is_responsible_in PH KH).
  Local Notation partition := (partition PH KH).

  (* ---------------- the table is a function of the multiset / set of tree-node ids ---------------- *)
  Theorem table_perm : forall cfg1 cfg2, Permutation (tree_ids cfg1) (tree_ids cfg2) -> table cfg1 = table cfg2.
  Proof. intros cfg1 cfg2 Hp. unfold NodeConf.table. now apply distribute_perm. Qed.

  Theorem table_set : forall cfg1 cfg2,
    NoDup (tree_ids cfg1) -> NoDup (tree_ids cfg2) ->
    (forall p, In p (tree_ids cfg1) <-> In p (tree_ids cfg2)) ->
    table cfg1 = table cfg2.
  Proof. intros cfg1 cfg2 H1 H2 Hs. unfold NodeConf.table. now apply distribute_set. Qed.

  (* ---------------- self rules (for any table) ---------------- *)
  Lemma is_responsible_iff : forall t p s, is_responsible_in t p s = true <-> In p (members_in t s).
  Proof.
    intros t p s. unfold NodeConf.is_responsible_in. rewrite existsb_exists. split.
    - intros [m [Hin Hm]]. apply N.eqb_eq in Hm. now subst.
    - intro Hin. exists p. split; [exact Hin|apply N.eqb_refl].
  Qed.

  Lemma node_ids_iff : forall t p s x, In x (node_ids_in t p s) <-> In x (members_in t s) /\ x <> p.
  Proof.
    intros t p s x. unfold NodeConf.node_ids_in. rewrite filter_In. rewrite negb_true_iff, N.eqb_neq. reflexivity.
  Qed.

  (* the set a participant's answers stand for is exactly the member set of the partition, whoever asks *)
  Lemma resp_set_iff : forall t p s x,
    In x (resp_set (model_obs PH KH t p s)) <-> In x (members_in t s).
  Proof.
    intros t p s x. unfold resp_set, model_obs. cbn [o_resp o_self o_nodeids].
    rewrite in_app_iff, node_ids_iff. destruct (is_responsible_in t p s) eqn:Hr.
    - apply is_responsible_iff in Hr. cbn [In]. split.
      + intros [[Hx|[]]|[Hx _]]; [now subst|exact Hx].
      + intro Hx. destruct (N.eq_dec x p) as [->|Hne]; [left; now left|right; now split].
    - assert (Hnin : ~ In p (members_in t s)) by (rewrite <- is_responsible_iff; congruence).
      cbn [In]. split.
      + intros [[]|[Hx _]]. exact Hx.
      + intro Hx. right. split; [exact Hx|]. intro Heq. subst x. contradiction.
  Qed.

  Theorem agreement_in : forall t p q s x,
    In x (resp_set (model_obs PH KH t p s)) <-> In x (resp_set (model_obs PH KH t q s)).
  Proof. intros t p q s x. now rewrite !resp_set_iff. Qed.

  (* ---------------- shape of the member set ---------------- *)
  Hypothesis VH_nonempty : forall m, VH m <> [].
  Hypothesis PH_nonempty : PH <> [].

  Lemma partition_lt : forall s, (N.to_nat (partition s) < length PH)%nat.
  Proof.
    intro s. unfold NodeConf.partition, partition_of_hash.
    assert (Hpos : N.of_nat (length PH) <> 0%N).
    { destruct PH as [|a r]; [congruence|]. cbn [length]. lia. }
    pose proof (N.mod_lt (KH (repl_key s)) _ Hpos) as Hlt. lia.
  Qed.

  Theorem members_shape : forall cfg t s, table cfg = Ok t ->
    NoDup (members_in t s) /\ (forall x, In x (members_in t s) -> In x (tree_ids cfg)) /\
    length (members_in t s) = Nat.min REPLICATION_FACTOR (member_count (tree_ids cfg)).
  Proof.
    intros cfg t s Ht. unfold NodeConf.table in Ht. apply distribute_shape in Ht; [|intros m _; apply VH_nonempty].
    destruct Ht as [Hlen Hall]. rewrite Forall_forall in Hall. apply Hall.
    unfold NodeConf.members_in. apply nth_In. rewrite Hlen. apply partition_lt.
  Qed.

  (* a client (or any participant that is not a tree node) gets the whole member set *)
  Theorem client_gets_all : forall cfg t p s, table cfg = Ok t -> ~ In p (tree_ids cfg) ->
    node_ids_in t p s = members_in t s /\ is_responsible_in t p s = false.
  Proof.
    intros cfg t p s Ht Hp. destruct (members_shape cfg t s Ht) as [_ [Hsub _]].
    assert (Hnin : ~ In p (members_in t s)) by (intro Hin; apply Hp; now apply Hsub).
    split.
    - unfold NodeConf.node_ids_in. now apply filter_ne_notin.
    - destruct (is_responsible_in t p s) eqn:Hr; [|reflexivity]. apply is_responsible_iff in Hr. contradiction.
  Qed.

  (* the ring walk always terminates within the model's fuel *)
  Theorem table_total : forall cfg, exists t, table cfg = Ok t.
  Proof. intro cfg. unfold NodeConf.table. apply distribute_total. intros m _. apply VH_nonempty. Qed.

  (* The property in one statement, on the top-level functions: for every configuration and space id there is ONE
     member set M - min(rf, n) pairwise-distinct sync nodes - such that every participant p whatsoever gets
     NodeIds = M minus p and IsResponsible = (p in M). *)
  Theorem participants_agree : forall cfg s, exists M,
    members PH VH KH cfg s = Ok M /\
    NoDup M /\ (forall x, In x M -> In x (tree_ids cfg)) /\
    length M = Nat.min REPLICATION_FACTOR (member_count (tree_ids cfg)) /\
    forall p, node_ids PH VH KH cfg p s = Ok (filter (fun m => negb (m =? p)%N) M) /\
              exists b, is_responsible PH VH KH cfg p s = Ok b /\ (b = true <-> In p M).
  Proof.
    intros cfg s. destruct (table_total cfg) as [t Ht]. exists (members_in t s).
    destruct (members_shape cfg t s Ht) as [Hnd [Hsub Hlen]].
    unfold members, node_ids, is_responsible. rewrite Ht. repeat split; auto.
    exists (is_responsible_in t p s). split; [reflexivity|apply is_responsible_iff].
  Qed.

  (* ---------------- the model meets spec_C18 ---------------- *)
  Lemma spec_one_model : forall cfg t p s, table cfg = Ok t ->
    spec_one cfg REPLICATION_FACTOR (model_obs PH KH t p s) = true.
  Proof.
    intros cfg t p s Ht. destruct (members_shape cfg t s Ht) as [Hnd [Hsub Hlen]].
    unfold spec_one. rewrite !andb_true_iff. repeat split.
    - cbn [model_obs o_space o_replkey]. apply spec_replkey_repl_key.
    - cbn [model_obs o_self o_nodeids]. apply negb_true_iff. apply memN_false.
      rewrite node_ids_iff. intros [_ Hne]. congruence.
    - apply nodupb_true. unfold resp_set, model_obs. cbn [o_resp o_self o_nodeids].
      assert (Hnf : NoDup (node_ids_in t p s)) by (unfold NodeConf.node_ids_in; now apply NoDup_filter).
      destruct (is_responsible_in t p s); [|exact Hnf]. cbn [app]. constructor; [|exact Hnf].
      rewrite node_ids_iff. intros [_ Hne]. congruence.
    - apply forallb_forall. intros x Hx. apply is_sync_node_true. apply Hsub. now apply resp_set_iff in Hx.
    - apply Nat.eqb_eq. rewrite sync_node_count_eq, <- Hlen.
      unfold resp_set, model_obs. cbn [o_resp o_self o_nodeids]. unfold NodeConf.node_ids_in.
      destruct (is_responsible_in t p s) eqn:Hr.
      + apply is_responsible_iff in Hr. cbn [app length]. now apply filter_ne_length_in.
      + assert (Hnin : ~ In p (members_in t s)) by (rewrite <- is_responsible_iff; congruence).
        cbn [app]. now rewrite filter_ne_notin.
  Qed.

  Lemma spec_pair_model : forall t p1 s1 p2 s2,
    spec_pair (model_obs PH KH t p1 s1) (model_obs PH KH t p2 s2) = true.
  Proof.
    intros t p1 s1 p2 s2. unfold spec_pair.
    destruct (list_eqb N.eqb (o_replkey (model_obs PH KH t p1 s1)) (o_replkey (model_obs PH KH t p2 s2))) eqn:Hk;
      [|reflexivity].
    cbn [model_obs o_replkey] in Hk. apply list_eqb_N_eq in Hk.
    assert (Hpart : partition s1 = partition s2) by (unfold NodeConf.partition; now rewrite Hk).
    apply andb_true_iff. split.
    - apply set_eqb_true. intro x. rewrite !resp_set_iff. unfold NodeConf.members_in. now rewrite Hpart.
    - cbn [model_obs o_part]. rewrite Hpart. apply N.eqb_refl.
  Qed.

  (* whatever participants ask whatever space ids: the model's answers satisfy the property predicate *)
  Theorem model_meets_spec : forall cfg t (qs : list (N * list N)), table cfg = Ok t ->
    spec_C18 cfg REPLICATION_FACTOR (map (fun q => model_obs PH KH t (fst q) (snd q)) qs) = true.
  Proof.
    intros cfg t qs Ht. unfold spec_C18. apply andb_true_iff. split.
    - apply forallb_forall. intros o Ho. apply in_map_iff in Ho. destruct Ho as [q [<- _]].
      now apply spec_one_model.
    - apply forallb_forall. intros o1 Ho1. apply forallb_forall. intros o2 Ho2.
      apply in_map_iff in Ho1. destruct Ho1 as [q1 [<- _]].
      apply in_map_iff in Ho2. destruct Ho2 as [q2 [<- _]].
      apply spec_pair_model.
  Qed.
End NodeConfProofs.

(* ---------------------------------------------------------------- configuration histories *)
(* configuration ids identify configurations (the premise under which "the same configuration" is meaningful) *)
Definition ids_identify (l : list conf) : Prop :=
  forall a b, In a l -> In b l -> c_id a = c_id b -> a = b.

Lemma last_cons_default : forall (A : Type) (r : list A) (u d : A), last (u :: r) d = last r u.
Proof.
  intros A r. induction r as [|a r' IH]; intros u d; [reflexivity|].
  change (last (u :: a :: r') d) with (last (a :: r') d). rewrite (IH a d). rewrite (IH a u). reflexivity.
Qed.

Lemma set_last_ident : forall cur c, (c_id cur = c_id c -> cur = c) -> set_last cur c = c.
Proof.
  intros cur c Hid. unfold set_last. destruct (c_id cur =? c_id c)%N eqn:He; [|reflexivity].
  apply N.eqb_eq in He. exact (Hid He).
Qed.

(* the state after ANY history is the LAST configuration delivered: nothing of the earlier ones survives *)
Theorem run_history_last : forall ups init, ids_identify (init :: ups) -> run_history init ups = last ups init.
Proof.
  induction ups as [|u r IH]; intros init Hids; [reflexivity|].
  unfold run_history. cbn [fold_left]. fold (run_history (set_last init u) r).
  rewrite set_last_ident.
  - rewrite last_cons_default. apply IH. intros a b Ha Hb. apply Hids; right; assumption.
  - intro He. apply Hids; [left; reflexivity|right; left; reflexivity|exact He].
Qed.

(* two participants with different histories that end in the same configuration give the same answers *)
Theorem history_independent : forall PH VH KH i1 u1 i2 u2,
  ids_identify (i1 :: u1) -> ids_identify (i2 :: u2) -> last u1 i1 = last u2 i2 ->
  table PH VH (c_nodes (run_history i1 u1)) = table PH VH (c_nodes (run_history i2 u2)) /\
  forall p s,
    members PH VH KH (c_nodes (run_history i1 u1)) s = members PH VH KH (c_nodes (run_history i2 u2)) s /\
    node_ids PH VH KH (c_nodes (run_history i1 u1)) p s = node_ids PH VH KH (c_nodes (run_history i2 u2)) p s /\
    is_responsible PH VH KH (c_nodes (run_history i1 u1)) p s
      = is_responsible PH VH KH (c_nodes (run_history i2 u2)) p s.
Proof.
  intros PH VH KH i1 u1 i2 u2 H1 H2 Hl.
  rewrite (run_history_last u1 i1 H1), (run_history_last u2 i2 H2), Hl. repeat split.
Qed.

(* ---------------------------------------------------------------- service lives: starts, restarts, the store *)
(* --- the account id stamped on the active nodeConf is the participant's own, whatever its life *)
Definition svc_wf (self : N) (s : service) : Prop :=
  s_account s = self /\ exists nc, s_last s = Some nc /\ nc_account nc = self.

Lemma svc_set_last_account : forall s c, s_account (svc_set_last s c) = s_account s.
Proof.
  intros s c. unfold svc_set_last. destruct (s_last s) as [nc|]; [|reflexivity].
  destruct (c_id (nc_conf nc) =? c_id c)%N; reflexivity.
Qed.

Lemma svc_set_last_store : forall s c, s_store (svc_set_last s c) = s_store s.
Proof.
  intros s c. unfold svc_set_last. destruct (s_last s) as [nc|]; [|reflexivity].
  destruct (c_id (nc_conf nc) =? c_id c)%N; reflexivity.
Qed.

(* a service whose account id is [self] and whose nodeConf (if any) carries [self] keeps that under setLast *)
Lemma svc_set_last_wf : forall self s c,
  s_account s = self ->
  (forall nc, s_last s = Some nc -> nc_account nc = self) ->
  svc_wf self (svc_set_last s c).
Proof.
  intros self s c Hacc Hnc. split; [now rewrite svc_set_last_account|].
  unfold svc_set_last. destruct (s_last s) as [nc|] eqn:Hl.
  - destruct (c_id (nc_conf nc) =? c_id c)%N.
    + exists nc. split; [exact Hl|now apply Hnc].
    + eexists. split; [reflexivity|exact Hacc].
  - eexists. split; [reflexivity|exact Hacc].
Qed.

Lemma svc_save_and_set_wf : forall self s c, svc_wf self s -> svc_wf self (svc_save_and_set s c).
Proof.
  intros self s c [Hacc [nc [Hl Hnc]]]. unfold svc_save_and_set. apply svc_set_last_wf.
  - exact Hacc.
  - cbn [s_last]. intros nc' Hl'. rewrite Hl in Hl'. injection Hl' as <-. exact Hnc.
Qed.

Lemma svc_init_wf : forall self store app, svc_wf self (svc_init self store app).
Proof.
  intros self store app. unfold svc_init. destruct store as [st|].
  - destruct (merge_coord (c_nodes app) (c_nodes st)) as [nodes' must].
    destruct must.
    + apply svc_set_last_wf.
      * unfold svc_save_and_set. now rewrite svc_set_last_account.
      * intros nc Hl. unfold svc_save_and_set, svc_set_last in Hl. cbn [s_last s_account s_store] in Hl.
        injection Hl as <-. reflexivity.
    + apply svc_set_last_wf; [reflexivity|]. cbn [s_last]. discriminate.
  - apply svc_set_last_wf; [reflexivity|]. cbn [s_last]. discriminate.
Qed.

Lemma svc_step_wf : forall self s e, svc_wf self s -> svc_wf self (svc_step s e).
Proof.
  intros self s e Hwf. destruct e as [app|c]; cbn [svc_step].
  - destruct Hwf as [-> _]. apply svc_init_wf.
  - now apply svc_save_and_set_wf.
Qed.

Theorem life_wf : forall self store0 app0 evs, svc_wf self (life self store0 app0 evs).
Proof.
  intros self store0 app0 evs. unfold life.
  assert (Hgen : forall s, svc_wf self s -> svc_wf self (fold_left svc_step evs s)).
  { induction evs as [|e r IH]; intros s Hs; [exact Hs|]. cbn [fold_left]. apply IH. now apply svc_step_wf. }
  apply Hgen. apply svc_init_wf.
Qed.

(* after ANY life (first start with any store content, then any updates and restarts) the service answers for the
   participant itself *)
Theorem life_self : forall self store0 app0 evs, svc_self (life self store0 app0 evs) = self.
Proof.
  intros self store0 app0 evs. destruct (life_wf self store0 app0 evs) as [_ [nc [Hl Hnc]]].
  unfold svc_self. now rewrite Hl.
Qed.

Theorem life_answers : forall PH VH KH self store0 app0 evs space,
  svc_node_ids PH VH KH (life self store0 app0 evs) space
    = node_ids PH VH KH (c_nodes (svc_conf (life self store0 app0 evs))) self space /\
  svc_is_responsible PH VH KH (life self store0 app0 evs) space
    = is_responsible PH VH KH (c_nodes (svc_conf (life self store0 app0 evs))) self space.
Proof.
  intros. unfold svc_node_ids, svc_is_responsible. rewrite life_self. split; reflexivity.
Qed.

(* --- what a (re)start leaves active *)
Theorem svc_init_fresh : forall self app,
  svc_conf (svc_init self None app) = app /\ s_store (svc_init self None app) = None.
Proof. intros self app. split; reflexivity. Qed.

Theorem svc_init_stored : forall self st app,
  snd (merge_coord (c_nodes app) (c_nodes st)) = false ->
  svc_conf (svc_init self (Some st) app) = st /\ s_store (svc_init self (Some st) app) = Some st.
Proof.
  intros self st app Hm. unfold svc_init.
  destruct (merge_coord (c_nodes app) (c_nodes st)) as [nodes' must]. cbn [snd] in Hm. subst must.
  split; reflexivity.
Qed.

Theorem svc_init_merged : forall self st app,
  snd (merge_coord (c_nodes app) (c_nodes st)) = true ->
  let m := mkConf MERGED_ID (fst (merge_coord (c_nodes app) (c_nodes st))) in
  svc_conf (svc_init self (Some st) app) = m /\ s_store (svc_init self (Some st) app) = Some m.
Proof.
  intros self st app Hm. unfold svc_init.
  destruct (merge_coord (c_nodes app) (c_nodes st)) as [nodes' must]. cbn [snd] in Hm. subst must.
  cbn [fst]. unfold svc_save_and_set, svc_set_last, svc_conf.
  cbn [s_last s_account s_store nc_conf c_id]. rewrite N.eqb_refl. cbn [s_last s_store nc_conf]. split; reflexivity.
Qed.

(* --- mergeCoordinatorAddrs and the sync-node list *)
Definition id_types (ns : list node) : list (N * list N) := map (fun n => (n_id n, n_types n)) ns.

Lemma tree_ids_id_types : forall a b, id_types a = id_types b -> tree_ids a = tree_ids b.
Proof.
  induction a as [|x a IH]; intros b H; destruct b as [|y b]; try discriminate; [reflexivity|].
  cbn [id_types map] in H. injection H as Hid Hty Hr. unfold tree_ids in *. cbn [filter].
  unfold has_type at 1 3. rewrite Hty. fold (has_type T_TREE y).
  destruct (has_type T_TREE y); cbn [map]; [rewrite Hid; f_equal|]; now apply IH.
Qed.

Lemma upd_last_id_types : forall id f ns,
  (forall n, n_id (f n) = n_id n /\ n_types (f n) = n_types n) ->
  id_types (fst (upd_last id f ns)) = id_types ns.
Proof.
  intros id f ns Hf. unfold id_types. induction ns as [|n r IH]; [reflexivity|].
  cbn [upd_last]. destruct (upd_last id f r) as [r' done]. cbn [fst] in IH.
  destruct done; cbn [fst map]; [now rewrite IH|].
  destruct (is_coord n && (n_id n =? id)%N); cbn [fst map].
  - destruct (Hf n) as [-> ->]. now rewrite IH.
  - now rewrite IH.
Qed.

Definition unknown_to (st : list node) (a : node) : bool :=
  match last_coord (n_id a) st with None => true | Some _ => false end.

Lemma tree_ids_app : forall a b, tree_ids (a ++ b) = tree_ids a ++ tree_ids b.
Proof. intros a b. unfold tree_ids. now rewrite filter_app, map_app. Qed.

Lemma merge_fold_tree_ids : forall st0 entries acc,
  tree_ids (fst (fold_left (merge_step st0) entries acc))
  = tree_ids (fst acc) ++ tree_ids (filter (unknown_to st0) entries).
Proof.
  intros st0 entries. induction entries as [|a r IH]; intros acc.
  - cbn [fold_left filter]. unfold tree_ids at 3. cbn [filter map]. now rewrite app_nil_r.
  - cbn [fold_left filter]. rewrite IH. unfold merge_step, unknown_to.
    destruct (last_coord (n_id a) st0) as [sn|].
    + destruct (filter (fun x => negb (memN x (n_addrs sn))) (n_addrs a)) as [|m ms]; [reflexivity|].
      cbn [fst]. f_equal. apply tree_ids_id_types. apply upd_last_id_types.
      intro n. split; reflexivity.
    + cbn [fst]. fold (unknown_to st0).
      change (a :: filter (unknown_to st0) r) with ([a] ++ filter (unknown_to st0) r).
      rewrite !tree_ids_app, app_assoc. reflexivity.
Qed.

(* the sync nodes after the merge: those of the stored configuration, then those app-configuration coordinators
   (one entry per peer id) that the stored configuration does not know as coordinators and that are ALSO sync nodes *)
Theorem merge_coord_tree_ids : forall app st,
  tree_ids (fst (merge_coord app st))
  = tree_ids st ++ tree_ids (filter (unknown_to st) (coord_entries app)).
Proof. intros app st. unfold merge_coord. now rewrite merge_fold_tree_ids. Qed.

Lemma merge_fold_unchanged : forall st0 entries acc,
  snd (fold_left (merge_step st0) entries acc) = false ->
  fold_left (merge_step st0) entries acc = acc.
Proof.
  intros st0 entries. induction entries as [|a r IH]; intros acc H; [reflexivity|].
  cbn [fold_left] in *.
  assert (Hmono : forall es x, snd x = true -> snd (fold_left (merge_step st0) es x) = true).
  { induction es as [|e es IHes]; intros x Hx; [exact Hx|]. cbn [fold_left]. apply IHes.
    unfold merge_step. destruct (last_coord (n_id e) st0) as [sn|]; [|reflexivity].
    destruct (filter (fun y => negb (memN y (n_addrs sn))) (n_addrs e)); [exact Hx|reflexivity]. }
  assert (Hstep : merge_step st0 acc a = acc).
  { unfold merge_step in *. destruct (last_coord (n_id a) st0) as [sn|].
    - destruct (filter (fun y => negb (memN y (n_addrs sn))) (n_addrs a)); [reflexivity|].
      rewrite Hmono in H by reflexivity. discriminate.
    - rewrite Hmono in H by reflexivity. discriminate. }
  rewrite Hstep in *. now apply IH.
Qed.

(* mustRewriteLocalConfig = false: the stored configuration is untouched *)
Theorem merge_coord_unchanged : forall app st,
  snd (merge_coord app st) = false -> fst (merge_coord app st) = st.
Proof. intros app st H. unfold merge_coord in *. now rewrite merge_fold_unchanged. Qed.

(* --- a second restart with the same app configuration finds nothing to merge *)
Lemma coord_entries_in : forall ns x, In x (coord_entries ns) -> In x ns /\ is_coord x = true.
Proof.
  induction ns as [|n r IH]; intros x H; [contradiction|]. cbn [coord_entries] in H.
  destruct (is_coord n) eqn:Hc; cbn [andb] in H.
  - destruct (negb (existsb (fun m => is_coord m && (n_id m =? n_id n)%N) r)).
    + destruct H as [<-|H]; [split; [now left|exact Hc]|]. destruct (IH x H). split; [now right|assumption].
    + destruct (IH x H). split; [now right|assumption].
  - destruct (IH x H). split; [now right|assumption].
Qed.

Lemma coord_entries_nodup : forall ns, NoDup (map n_id (coord_entries ns)).
Proof.
  induction ns as [|n r IH]; [constructor|]. cbn [coord_entries].
  destruct (is_coord n && negb (existsb (fun m => is_coord m && (n_id m =? n_id n)%N) r)) eqn:H; [|exact IH].
  apply andb_true_iff in H. destruct H as [_ H]. apply negb_true_iff in H.
  cbn [map]. constructor; [|exact IH]. intro Hin. apply in_map_iff in Hin. destruct Hin as [x [Hid Hx]].
  apply coord_entries_in in Hx. destruct Hx as [Hxr Hxc].
  assert (Ht : existsb (fun m => is_coord m && (n_id m =? n_id n)%N) r = true).
  { apply existsb_exists. exists x. split; [exact Hxr|]. rewrite Hxc, Hid. cbn [andb]. apply N.eqb_refl. }
  congruence.
Qed.

Lemma last_coord_snoc : forall id ns a,
  last_coord id (ns ++ [a]) = if is_coord a && (n_id a =? id)%N then Some a else last_coord id ns.
Proof.
  intros id ns a. induction ns as [|n r IH].
  - cbn [app last_coord]. reflexivity.
  - cbn [app last_coord]. rewrite IH. destruct (is_coord a && (n_id a =? id)%N); reflexivity.
Qed.

Lemma last_coord_upd_same : forall id f ns,
  (forall n, n_id (f n) = n_id n /\ n_types (f n) = n_types n) ->
  last_coord id (fst (upd_last id f ns)) = option_map f (last_coord id ns)
  /\ snd (upd_last id f ns) = match last_coord id ns with Some _ => true | None => false end.
Proof.
  intros id f ns Hf. induction ns as [|n r [IH1 IH2]]; [split; reflexivity|].
  cbn [upd_last last_coord]. destruct (upd_last id f r) as [r' done]. cbn [fst snd] in IH1, IH2.
  destruct (last_coord id r) as [m|]; subst done.
  - cbn [fst snd last_coord]. rewrite IH1. split; reflexivity.
  - destruct (is_coord n && (n_id n =? id)%N) eqn:Hn; cbn [fst snd last_coord]; rewrite IH1; cbn [option_map].
    + assert (Hfn : is_coord (f n) && (n_id (f n) =? id)%N = true).
      { destruct (Hf n) as [Hi Ht]. unfold is_coord, has_type in *. now rewrite Hi, Ht. }
      rewrite Hfn. split; reflexivity.
    + rewrite Hn. split; reflexivity.
Qed.

Lemma last_coord_upd_other : forall id id' f ns,
  (forall n, n_id (f n) = n_id n /\ n_types (f n) = n_types n) -> id' <> id ->
  last_coord id' (fst (upd_last id f ns)) = last_coord id' ns.
Proof.
  intros id id' f ns Hf Hne. induction ns as [|n r IH]; [reflexivity|].
  cbn [upd_last last_coord]. destruct (upd_last id f r) as [r' done]. cbn [fst] in IH.
  destruct done; [cbn [fst last_coord]; rewrite IH; reflexivity|].
  destruct (is_coord n && (n_id n =? id)%N) eqn:Hn; cbn [fst last_coord]; rewrite IH; [|reflexivity].
  destruct (last_coord id' r); [reflexivity|].
  apply andb_true_iff in Hn. destruct Hn as [_ Hn]. apply N.eqb_eq in Hn.
  destruct (Hf n) as [Hi Ht]. unfold is_coord, has_type in *. rewrite Hi, Ht.
  assert (H1 : (n_id n =? id')%N = false) by (apply N.eqb_neq; congruence).
  rewrite H1, !andb_false_r. reflexivity.
Qed.

Definition add_addrs_if (miss : list N) (x : node) : node :=
  match miss with [] => x | _ => add_addrs miss x end.

Lemma option_map_id : forall (A : Type) (o : option A), option_map (fun x => x) o = o.
Proof. intros A [x|]; reflexivity. Qed.

Lemma merge_step_last_coord : forall st0 acc e id,
  is_coord e = true ->
  last_coord id (fst (merge_step st0 acc e)) =
    if (n_id e =? id)%N
    then match last_coord id st0 with
         | None => Some e
         | Some sn => option_map (add_addrs_if (filter (fun x => negb (memN x (n_addrs sn))) (n_addrs e)))
                                 (last_coord id (fst acc))
         end
    else last_coord id (fst acc).
Proof.
  intros st0 acc e id He. unfold merge_step.
  assert (Hf : forall miss n, n_id (add_addrs miss n) = n_id n /\ n_types (add_addrs miss n) = n_types n)
    by (intros; split; reflexivity).
  destruct (n_id e =? id)%N eqn:Hid.
  - apply N.eqb_eq in Hid. subst id. destruct (last_coord (n_id e) st0) as [sn|].
    + destruct (filter (fun x => negb (memN x (n_addrs sn))) (n_addrs e)) as [|m ms] eqn:Hm.
      * cbn [add_addrs_if]. unfold add_addrs_if. now rewrite option_map_id.
      * cbn [fst]. destruct (last_coord_upd_same (n_id e) (add_addrs (m :: ms)) (fst acc) (Hf (m :: ms))) as [-> _].
        reflexivity.
    + cbn [fst]. rewrite last_coord_snoc, He, N.eqb_refl. reflexivity.
  - apply N.eqb_neq in Hid. destruct (last_coord (n_id e) st0) as [sn|].
    + destruct (filter (fun x => negb (memN x (n_addrs sn))) (n_addrs e)) as [|m ms]; [reflexivity|].
      cbn [fst]. apply last_coord_upd_other; [apply Hf|congruence].
    + cbn [fst]. rewrite last_coord_snoc, He. cbn [andb].
      assert (H1 : (n_id e =? id)%N = false) by now apply N.eqb_neq. now rewrite H1.
Qed.

Lemma merge_fold_last_coord : forall st0 es,
  NoDup (map n_id es) -> (forall a, In a es -> is_coord a = true) ->
  forall acc a, In a es ->
  last_coord (n_id a) (fst (fold_left (merge_step st0) es acc)) =
    match last_coord (n_id a) st0 with
    | None => Some a
    | Some sn => option_map (add_addrs_if (filter (fun x => negb (memN x (n_addrs sn))) (n_addrs a)))
                            (last_coord (n_id a) (fst acc))
    end.
Proof.
  intros st0 es. induction es as [|e r IH]; intros Hnd Hc acc a Hin; [contradiction|].
  cbn [map] in Hnd. inversion Hnd as [|x l Hnotin Hnd']. subst x l.
  assert (Hce : is_coord e = true) by (apply Hc; now left).
  (* entries after e do not touch e's id *)
  assert (Hrest : forall es' acc' id, (forall b, In b es' -> is_coord b = true) -> ~ In id (map n_id es') ->
            last_coord id (fst (fold_left (merge_step st0) es' acc')) = last_coord id (fst acc')).
  { induction es' as [|b es' IH']; intros acc' id Hc' Hni; [reflexivity|].
    cbn [fold_left]. rewrite IH'.
    - rewrite merge_step_last_coord by (apply Hc'; now left).
      destruct (n_id b =? id)%N eqn:Hb; [|reflexivity].
      apply N.eqb_eq in Hb. exfalso. apply Hni. cbn [map]. now left.
    - intros b' Hb'. apply Hc'. now right.
    - intro Hi. apply Hni. cbn [map]. now right. }
  cbn [fold_left]. destruct Hin as [<-|Hin].
  - rewrite Hrest; [|intros b Hb; apply Hc; now right|exact Hnotin].
    rewrite merge_step_last_coord by exact Hce. now rewrite N.eqb_refl.
  - rewrite (IH Hnd' (fun b Hb => Hc b (or_intror Hb)) _ a Hin).
    destruct (last_coord (n_id a) st0) as [sn|]; [|reflexivity].
    rewrite merge_step_last_coord by exact Hce.
    assert (Hne : (n_id e =? n_id a)%N = false).
    { apply N.eqb_neq. intro Heq. apply Hnotin. rewrite Heq. now apply in_map. }
    now rewrite Hne.
Qed.

Lemma filter_covered : forall (have want : list N),
  (forall x, In x want -> In x have) -> filter (fun x => negb (memN x have)) want = [].
Proof.
  intros have want H. induction want as [|w r IH]; [reflexivity|]. cbn [filter].
  assert (Hw : memN w have = true) by (apply memN_true; apply H; now left).
  rewrite Hw. cbn [negb]. apply IH. intros x Hx. apply H. now right.
Qed.

Theorem merge_coord_idempotent : forall app st,
  merge_coord app (fst (merge_coord app st)) = (fst (merge_coord app st), false).
Proof.
  intros app st. set (merged := fst (merge_coord app st)).
  assert (Hstep : forall a, In a (coord_entries app) -> forall acc, merge_step merged acc a = acc).
  { intros a Ha acc. unfold merge_step.
    assert (Hl := merge_fold_last_coord st (coord_entries app) (coord_entries_nodup app)
                    (fun b Hb => proj2 (coord_entries_in app b Hb)) (st, false) a Ha).
    fold (merge_coord app st) in Hl. fold merged in Hl. rewrite Hl. cbn [fst].
    destruct (last_coord (n_id a) st) as [sn|].
    - cbn [option_map]. set (miss := filter (fun x => negb (memN x (n_addrs sn))) (n_addrs a)).
      rewrite filter_covered; [reflexivity|].
      intros x Hx. unfold add_addrs_if. destruct miss as [|m ms] eqn:Hm.
      + destruct (memN x (n_addrs sn)) eqn:Hmem; [now apply memN_true|].
        assert (Hin : In x miss) by (unfold miss; apply filter_In; split; [exact Hx|now rewrite Hmem]).
        rewrite Hm in Hin. contradiction.
      + cbn [add_addrs n_addrs]. apply in_or_app.
        destruct (memN x (n_addrs sn)) eqn:Hmem; [left; now apply memN_true|].
        right. rewrite <- Hm. unfold miss. apply filter_In. split; [exact Hx|now rewrite Hmem].
    - rewrite filter_covered; [reflexivity|]. intros x Hx. exact Hx. }
  unfold merge_coord at 1. fold merged.
  assert (Hfold : forall es acc, (forall a, In a es -> In a (coord_entries app)) ->
                    fold_left (merge_step merged) es acc = acc).
  { induction es as [|e r IH]; intros acc Hsub; [reflexivity|]. cbn [fold_left].
    rewrite Hstep by (apply Hsub; now left). apply IH. intros a Ha. apply Hsub. now right. }
  apply Hfold. intros a Ha. exact Ha.
Qed.

(* restarting once more with the same app configuration changes nothing: what the first restart saved already
   contains every coordinator node / address of the app configuration *)
Theorem restart_again_stable : forall self self' st app,
  let s1 := svc_init self (Some st) app in
  svc_conf (svc_init self' (s_store s1) app) = svc_conf s1 /\ s_store (svc_init self' (s_store s1) app) = s_store s1.
Proof.
  intros self self' st app s1. unfold s1.
  destruct (snd (merge_coord (c_nodes app) (c_nodes st))) eqn:Hm.
  - destruct (svc_init_merged self st app Hm) as [Hc Hs]. cbv zeta in Hc, Hs. rewrite Hc, Hs.
    apply svc_init_stored. cbn [c_nodes]. now rewrite merge_coord_idempotent.
  - destruct (svc_init_stored self st app Hm) as [Hc Hs]. rewrite Hc, Hs. now apply svc_init_stored.
Qed.

(* --- updates delivered to a running service: the configuration part behaves as run_history *)
Lemma svc_save_and_set_conf : forall self s c, svc_wf self s ->
  svc_conf (svc_save_and_set s c) = set_last (svc_conf s) c /\ s_store (svc_save_and_set s c) = Some c.
Proof.
  intros self s c [_ [nc [Hl _]]]. unfold svc_save_and_set. rewrite svc_set_last_store. cbn [s_store].
  split; [|reflexivity]. unfold svc_set_last, svc_conf, set_last. cbn [s_last]. rewrite Hl.
  destruct (c_id (nc_conf nc) =? c_id c)%N; reflexivity.
Qed.

Lemma fold_updates_conf : forall self us s, svc_wf self s ->
  svc_conf (fold_left svc_step (map EUpd us) s) = run_history (svc_conf s) us.
Proof.
  intros self us. induction us as [|u r IH]; intros s Hs; [reflexivity|].
  cbn [map fold_left svc_step]. rewrite IH by now apply svc_save_and_set_wf.
  destruct (svc_save_and_set_conf self s u Hs) as [-> _]. reflexivity.
Qed.

(* the last session decides: whatever happened before the last (re)start only matters through what the store holds *)
Theorem life_last_session : forall self store0 app0 evs a us,
  let before := life self store0 app0 evs in
  svc_conf (life self store0 app0 (evs ++ EStart a :: map EUpd us))
  = run_history (svc_conf (svc_init self (s_store before) a)) us.
Proof.
  intros self store0 app0 evs a us before. unfold life. rewrite fold_left_app. cbn [fold_left svc_step].
  fold (life self store0 app0 evs). fold before.
  destruct (life_wf self store0 app0 evs) as [Hacc _]. fold before in Hacc. rewrite Hacc.
  apply (fold_updates_conf self). apply svc_init_wf.
Qed.

Theorem life_first_session : forall self store0 app0 us,
  svc_conf (life self store0 app0 (map EUpd us)) = run_history (svc_conf (svc_init self store0 app0)) us.
Proof. intros. unfold life. apply (fold_updates_conf self). apply svc_init_wf. Qed.

(* --- agreement of participants with arbitrary lives *)
Section LifeAgreement.
  Variable PH : list N.
  Variable VH : N -> list N.
  Variable KH : list N -> N.
  Hypothesis VH_nonempty : forall m, VH m <> [].
  Hypothesis PH_nonempty : PH <> [].

  (* Any two participants p, q, each after ANY life (any store content at the first start, any app configurations,
     any updates, any restarts), whose active configurations have the same sync nodes (in particular: the same
     configuration): one member set M serves both - NodeIds = M minus self, IsResponsible = (self in M). *)
  Theorem lives_agree : forall p sp ap ep q sq aq eq_ s,
    let Lp := life p sp ap ep in
    let Lq := life q sq aq eq_ in
    Permutation (tree_ids (c_nodes (svc_conf Lp))) (tree_ids (c_nodes (svc_conf Lq))) ->
    exists M,
      NoDup M /\ (forall x, In x M -> In x (tree_ids (c_nodes (svc_conf Lp)))) /\
      length M = Nat.min REPLICATION_FACTOR (member_count (tree_ids (c_nodes (svc_conf Lp)))) /\
      svc_node_ids PH VH KH Lp s = Ok (filter (fun m => negb (m =? p)%N) M) /\
      svc_node_ids PH VH KH Lq s = Ok (filter (fun m => negb (m =? q)%N) M) /\
      (exists b, svc_is_responsible PH VH KH Lp s = Ok b /\ (b = true <-> In p M)) /\
      (exists b, svc_is_responsible PH VH KH Lq s = Ok b /\ (b = true <-> In q M)).
  Proof.
    intros p sp ap ep q sq aq eq_ s Lp Lq Hperm.
    destruct (participants_agree PH VH KH VH_nonempty PH_nonempty (c_nodes (svc_conf Lp)) s)
      as [M [_ [Hnd [Hsub [Hlen Hall]]]]].
    exists M. split; [exact Hnd|]. split; [exact Hsub|]. split; [exact Hlen|].
    assert (Ht : table PH VH (c_nodes (svc_conf Lq)) = table PH VH (c_nodes (svc_conf Lp)))
      by (symmetry; now apply table_perm).
    unfold svc_node_ids, svc_is_responsible. unfold Lp at 2 4, Lq at 2 4. rewrite !life_self.
    fold Lp. fold Lq.
    assert (Hq1 : node_ids PH VH KH (c_nodes (svc_conf Lq)) q s = node_ids PH VH KH (c_nodes (svc_conf Lp)) q s)
      by (unfold node_ids; now rewrite Ht).
    assert (Hq2 : is_responsible PH VH KH (c_nodes (svc_conf Lq)) q s
                  = is_responsible PH VH KH (c_nodes (svc_conf Lp)) q s)
      by (unfold is_responsible; now rewrite Ht).
    rewrite Hq1, Hq2.
    destruct (Hall p) as [Hnp Hrp]. destruct (Hall q) as [Hnq Hrq].
    repeat split; assumption.
  Qed.

  (* the answers the correspondence runner computes for participants with lives (identity = the account id stamped on
     the life's nodeConf) satisfy the property predicate *)
  Theorem life_model_meets_spec : forall cfg t (qs : list ((N * option conf * conf * list event) * list N)),
    table PH VH cfg = Ok t ->
    spec_C18 cfg REPLICATION_FACTOR
      (map (fun q => let '(self, st, app, evs) := fst q in
                     model_obs PH KH t (svc_self (life self st app evs)) (snd q)) qs) = true.
  Proof.
    intros cfg t qs Ht.
    rewrite (map_ext _ (fun q => model_obs PH KH t (fst ((fun q => (fst (fst (fst (fst q))), snd q)) q))
                                           (snd ((fun q => (fst (fst (fst (fst q))), snd q)) q)))).
    - rewrite <- (map_map (fun q => (fst (fst (fst (fst q))), snd q))
                          (fun q => model_obs PH KH t (fst q) (snd q))).
      exact (model_meets_spec PH VH KH VH_nonempty PH_nonempty cfg t _ Ht).
    - intros [[[[self st] app] evs] sp]. cbn [fst snd]. now rewrite life_self.
  Qed.
End LifeAgreement.
