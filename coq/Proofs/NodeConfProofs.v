(* Proofs about Model/NodeConf.v (property C18). *)
From Coq Require Import List NArith ZArith Bool Arith Lia Permutation.
Import ListNotations.
From AnySync Require Import Model.Chash Model.NodeConf Proofs.ChashProofs Proofs.ChashTotal.

(* ---------------------------------------------------------------- ReplKey *)
Lemma take_until_dot_nodot : forall s, memN DOT s = false -> take_until_dot s = s.
Proof.
  induction s as [|c r IH]; intro Hnd; [reflexivity|].
  cbn [take_until_dot]. unfold memN in Hnd. cbn [existsb] in Hnd.
  apply orb_false_elim in Hnd. destruct Hnd as [Hc Hr].
  rewrite N.eqb_sym in Hc. rewrite Hc. f_equal. apply IH. exact Hr.
Qed.

Lemma take_until_dot_app : forall a b, memN DOT a = false -> take_until_dot (a ++ DOT :: b) = a.
Proof.
  induction a as [|c r IH]; intros b Hnd.
  - cbn. reflexivity.
  - cbn [app take_until_dot]. unfold memN in Hnd. cbn [existsb] in Hnd.
    apply orb_false_elim in Hnd. destruct Hnd as [Hc Hr].
    rewrite N.eqb_sym in Hc. rewrite Hc. f_equal. apply IH. exact Hr.
Qed.

Lemma memN_rev : forall x l, memN x (rev l) = memN x l.
Proof.
  intros x l. unfold memN. destruct (existsb (N.eqb x) l) eqn:He.
  - apply existsb_exists in He. destruct He as [y [Hin Hy]].
    apply existsb_exists. exists y. split; [apply in_rev; rewrite rev_involutive; exact Hin|exact Hy].
  - destruct (existsb (N.eqb x) (rev l)) eqn:He2; [|reflexivity].
    apply existsb_exists in He2. destruct He2 as [y [Hin Hy]].
    apply in_rev in Hin. assert (Ht : existsb (N.eqb x) l = true) by (apply existsb_exists; exists y; auto).
    congruence.
Qed.

(* no '.' in the id: the whole id is the key *)
Lemma repl_key_nodot : forall s, memN DOT s = false -> repl_key s = s.
Proof.
  intros s Hnd. unfold repl_key. rewrite take_until_dot_nodot by (rewrite memN_rev; exact Hnd).
  apply rev_involutive.
Qed.

(* the key is the text after the LAST '.', whatever precedes it *)
Lemma repl_key_suffix : forall pre suf, memN DOT suf = false -> repl_key (pre ++ DOT :: suf) = suf.
Proof.
  intros pre suf Hnd. unfold repl_key.
  rewrite rev_app_distr. cbn [rev]. rewrite <- app_assoc. cbn [app].
  rewrite take_until_dot_app by (rewrite memN_rev; exact Hnd).
  apply rev_involutive.
Qed.

Lemma repl_key_prefix_irrelevant : forall pre1 pre2 suf, memN DOT suf = false ->
  repl_key (pre1 ++ DOT :: suf) = repl_key (pre2 ++ DOT :: suf) /\ repl_key (pre1 ++ DOT :: suf) = repl_key suf.
Proof.
  intros pre1 pre2 suf Hnd. rewrite !repl_key_suffix by exact Hnd. rewrite repl_key_nodot by exact Hnd. auto.
Qed.

(* ---------------------------------------------------------------- boolean helpers of the specification *)
Lemma memN_true : forall x l, memN x l = true <-> In x l.
Proof.
  intros x l. unfold memN. rewrite existsb_exists. split.
  - intros [y [Hin Hy]]. apply N.eqb_eq in Hy. now subst.
  - intro Hin. exists x. split; [exact Hin|apply N.eqb_refl].
Qed.

Lemma memN_false : forall x l, memN x l = false <-> ~ In x l.
Proof.
  intros x l. rewrite <- memN_true. destruct (memN x l); split; intro H; congruence.
Qed.

Lemma list_eqb_N_eq : forall a b, list_eqb N.eqb a b = true <-> a = b.
Proof.
  induction a as [|x a IH]; intros [|y b]; cbn [list_eqb]; split; intro H; try reflexivity; try discriminate.
  - apply andb_true_iff in H. destruct H as [Hxy Hab]. apply N.eqb_eq in Hxy. apply IH in Hab. now subst.
  - injection H as -> ->. rewrite N.eqb_refl. cbn. now apply IH.
Qed.

Lemma nodupb_true : forall l, nodupb l = true <-> NoDup l.
Proof.
  induction l as [|x r IH]; cbn [nodupb]; split; intro H; try reflexivity; try constructor.
  - apply andb_true_iff in H. destruct H as [Hx _]. apply negb_true_iff in Hx. now apply memN_false in Hx.
  - apply andb_true_iff in H. destruct H as [_ Hr]. now apply IH.
  - inversion H as [|x' r' Hx Hr]; subst. apply andb_true_iff. split; [|now apply IH].
    apply negb_true_iff. now apply memN_false.
Qed.

Lemma subsetb_true : forall a b, subsetb a b = true <-> (forall x, In x a -> In x b).
Proof.
  intros a b. unfold subsetb. rewrite forallb_forall. split; intros H x Hx.
  - apply memN_true. now apply H.
  - apply memN_true. now apply H.
Qed.

Lemma set_eqb_true : forall a b, set_eqb a b = true <-> (forall x, In x a <-> In x b).
Proof.
  intros a b. unfold set_eqb. rewrite andb_true_iff, !subsetb_true. split.
  - intros [H1 H2] x. split; auto.
  - intro H. split; intros x Hx; now apply H.
Qed.

Lemma count_distinct_nodup : forall l, count_distinct l = length (nodup N.eq_dec l).
Proof.
  induction l as [|x r IH]; [reflexivity|]. cbn [count_distinct nodup].
  destruct (in_dec N.eq_dec x r) as [Hin|Hnin].
  - apply memN_true in Hin. now rewrite Hin.
  - apply memN_false in Hnin. rewrite Hnin. cbn [length]. now rewrite IH.
Qed.

Lemma ends_with_app : forall pre suf, ends_with (pre ++ suf) suf = true.
Proof.
  induction pre as [|c pre IH]; intro suf.
  - cbn [app]. destruct suf as [|c r]; cbn [ends_with].
    + reflexivity.
    + assert (He : list_eqb N.eqb (c :: r) (c :: r) = true) by now apply list_eqb_N_eq.
      now rewrite He.
  - cbn [app ends_with]. rewrite IH. apply orb_true_r.
Qed.

Lemma last_dot_split : forall s, memN DOT s = true ->
  exists pre suf, s = pre ++ DOT :: suf /\ memN DOT suf = false.
Proof.
  induction s as [|c r IH]; intro Hd; [discriminate|].
  destruct (memN DOT r) eqn:Hr.
  - destruct (IH eq_refl) as [pre [suf [Heq Hs]]]. exists (c :: pre), suf. split; [now rewrite Heq|exact Hs].
  - unfold memN in Hd, Hr. cbn [existsb] in Hd. rewrite Hr in Hd. rewrite orb_false_r in Hd.
    apply N.eqb_eq in Hd. subst c. exists [], r. split; [reflexivity|exact Hr].
Qed.

(* the model's ReplKey meets the declarative description used by spec_C18 *)
Lemma spec_replkey_repl_key : forall s, spec_replkey s (repl_key s) = true.
Proof.
  intro s. unfold spec_replkey. destruct (memN DOT s) eqn:Hd.
  - destruct (last_dot_split s Hd) as [pre [suf [Heq Hs]]]. subst s.
    rewrite repl_key_suffix by exact Hs. rewrite Hs. cbn [negb andb].
    rewrite ends_with_app. apply orb_true_r.
  - rewrite repl_key_nodot by exact Hd. rewrite Hd. cbn [negb andb].
    assert (He : list_eqb N.eqb s s = true) by now apply list_eqb_N_eq. now rewrite He.
Qed.

Lemma is_sync_node_true : forall cfg p, is_sync_node cfg p = true <-> In p (tree_ids cfg).
Proof.
  intros cfg p. unfold is_sync_node, tree_ids. rewrite existsb_exists, in_map_iff. split.
  - intros [n [Hin Hn]]. apply andb_true_iff in Hn. destruct Hn as [Hid Ht]. apply N.eqb_eq in Hid.
    exists n. split; [exact Hid|]. apply filter_In. split; [exact Hin|exact Ht].
  - intros [n [Hid Hin]]. apply filter_In in Hin. destruct Hin as [Hin Ht].
    exists n. split; [exact Hin|]. apply andb_true_iff. split; [now apply N.eqb_eq|exact Ht].
Qed.

Lemma sync_node_count_eq : forall cfg, sync_node_count cfg = member_count (tree_ids cfg).
Proof. intro cfg. unfold sync_node_count, member_count. apply count_distinct_nodup. Qed.

(* ---------------------------------------------------------------- self filtering *)
Lemma filter_ne_length_in : forall (p : N) (m : list N), NoDup m -> In p m ->
  S (length (filter (fun x => negb (x =? p)%N) m)) = length m.
Proof.
  intros p m. induction m as [|a r IH]; intros Hnd Hin; [destruct Hin|].
  inversion Hnd as [|a' r' Ha Hr]; subst. cbn [filter].
  destruct (N.eqb_spec a p) as [Heq|Hne].
  - subst a. cbn [negb length]. f_equal.
    assert (Hall : forall x, In x r -> negb (x =? p)%N = true).
    { intros x Hx. apply negb_true_iff. apply N.eqb_neq. intro Hxp. subst x. contradiction. }
    clear -Hall. induction r as [|b r IH]; [reflexivity|]. cbn [filter].
    rewrite (Hall b) by (left; reflexivity). cbn [length]. f_equal. apply IH. intros x Hx. apply Hall. now right.
  - cbn [negb length]. f_equal. apply IH; [exact Hr|]. destruct Hin as [Hin|Hin]; [congruence|exact Hin].
Qed.

Lemma filter_ne_notin : forall (p : N) (m : list N), ~ In p m -> filter (fun x => negb (x =? p)%N) m = m.
Proof.
  intros p m. induction m as [|a r IH]; intro Hnin; [reflexivity|]. cbn [filter].
  destruct (N.eqb_spec a p) as [Heq|Hne].
  - subst a. exfalso. apply Hnin. now left.
  - cbn [negb]. f_equal. apply IH. intro Hin. apply Hnin. now right.
Qed.

Section NodeConfProofs.
  Variable PH : list N.
  Variable VH : N -> list N.
  Variable KH : list N -> N.

  Local Notation table := (table PH VH).
  Local Notation members_in := (members_in PH KH).
  Local Notation node_ids_in := (node_ids_in PH KH).
  Local Notation is_responsible_in := (is_responsible_in PH KH).
  Local Notation partition := (partition PH KH).

  (* ---------------- the table is a function of the multiset / set of tree-node ids ---------------- *)
  Theorem table_perm : forall cfg1 cfg2, Permutation (tree_ids cfg1) (tree_ids cfg2) -> table cfg1 = table cfg2.
  Proof. intros cfg1 cfg2 Hp. unfold NodeConf.table. now apply distribute_perm. Qed.

  Theorem table_set : forall cfg1 cfg2,
    NoDup (tree_ids cfg1) -> NoDup (tree_ids cfg2) ->
    (forall p, In p (tree_ids cfg1) <-> In p (tree_ids cfg2)) ->
    table cfg1 = table cfg2.
  Proof. intros cfg1 cfg2 H1 H2 Hs. unfold NodeConf.table. now apply distribute_set. Qed.

  (* ---------------- self rules (for any table) ---------------- *)
  Lemma is_responsible_iff : forall t p s, is_responsible_in t p s = true <-> In p (members_in t s).
  Proof.
    intros t p s. unfold NodeConf.is_responsible_in. rewrite existsb_exists. split.
    - intros [m [Hin Hm]]. apply N.eqb_eq in Hm. now subst.
    - intro Hin. exists p. split; [exact Hin|apply N.eqb_refl].
  Qed.

  Lemma node_ids_iff : forall t p s x, In x (node_ids_in t p s) <-> In x (members_in t s) /\ x <> p.
  Proof.
    intros t p s x. unfold NodeConf.node_ids_in. rewrite filter_In. rewrite negb_true_iff, N.eqb_neq. reflexivity.
  Qed.

  (* the set a participant's answers stand for is exactly the member set of the partition, whoever asks *)
  Lemma resp_set_iff : forall t p s x,
    In x (resp_set (model_obs PH KH t p s)) <-> In x (members_in t s).
  Proof.
    intros t p s x. unfold resp_set, model_obs. cbn [o_resp o_self o_nodeids].
    rewrite in_app_iff, node_ids_iff. destruct (is_responsible_in t p s) eqn:Hr.
    - apply is_responsible_iff in Hr. cbn [In]. split.
      + intros [[Hx|[]]|[Hx _]]; [now subst|exact Hx].
      + intro Hx. destruct (N.eq_dec x p) as [->|Hne]; [left; now left|right; now split].
    - assert (Hnin : ~ In p (members_in t s)) by (rewrite <- is_responsible_iff; congruence).
      cbn [In]. split.
      + intros [[]|[Hx _]]. exact Hx.
      + intro Hx. right. split; [exact Hx|]. intro Heq. subst x. contradiction.
  Qed.

  Theorem agreement_in : forall t p q s x,
    In x (resp_set (model_obs PH KH t p s)) <-> In x (resp_set (model_obs PH KH t q s)).
  Proof. intros t p q s x. now rewrite !resp_set_iff. Qed.

  (* ---------------- shape of the member set ---------------- *)
  Hypothesis VH_nonempty : forall m, VH m <> [].
  Hypothesis PH_nonempty : PH <> [].

  Lemma partition_lt : forall s, (N.to_nat (partition s) < length PH)%nat.
  Proof.
    intro s. unfold NodeConf.partition, partition_of_hash.
    assert (Hpos : N.of_nat (length PH) <> 0%N).
    { destruct PH as [|a r]; [congruence|]. cbn [length]. lia. }
    pose proof (N.mod_lt (KH (repl_key s)) _ Hpos) as Hlt. lia.
  Qed.

  Theorem members_shape : forall cfg t s, table cfg = Ok t ->
    NoDup (members_in t s) /\ (forall x, In x (members_in t s) -> In x (tree_ids cfg)) /\
    length (members_in t s) = Nat.min REPLICATION_FACTOR (member_count (tree_ids cfg)).
  Proof.
    intros cfg t s Ht. unfold NodeConf.table in Ht. apply distribute_shape in Ht; [|intros m _; apply VH_nonempty].
    destruct Ht as [Hlen Hall]. rewrite Forall_forall in Hall. apply Hall.
    unfold NodeConf.members_in. apply nth_In. rewrite Hlen. apply partition_lt.
  Qed.

  (* a client (or any participant that is not a tree node) gets the whole member set *)
  Theorem client_gets_all : forall cfg t p s, table cfg = Ok t -> ~ In p (tree_ids cfg) ->
    node_ids_in t p s = members_in t s /\ is_responsible_in t p s = false.
  Proof.
    intros cfg t p s Ht Hp. destruct (members_shape cfg t s Ht) as [_ [Hsub _]].
    assert (Hnin : ~ In p (members_in t s)) by (intro Hin; apply Hp; now apply Hsub).
    split.
    - unfold NodeConf.node_ids_in. now apply filter_ne_notin.
    - destruct (is_responsible_in t p s) eqn:Hr; [|reflexivity]. apply is_responsible_iff in Hr. contradiction.
  Qed.

  (* the ring walk always terminates within the model's fuel *)
  Theorem table_total : forall cfg, exists t, table cfg = Ok t.
  Proof. intro cfg. unfold NodeConf.table. apply distribute_total. intros m _. apply VH_nonempty. Qed.

  (* The property in one statement, on the top-level functions: for every configuration and space id there is ONE
     member set M - min(rf, n) pairwise-distinct sync nodes - such that every participant p whatsoever gets
     NodeIds = M minus p and IsResponsible = (p in M). *)
  Theorem participants_agree : forall cfg s, exists M,
    members PH VH KH cfg s = Ok M /\
    NoDup M /\ (forall x, In x M -> In x (tree_ids cfg)) /\
    length M = Nat.min REPLICATION_FACTOR (member_count (tree_ids cfg)) /\
    forall p, node_ids PH VH KH cfg p s = Ok (filter (fun m => negb (m =? p)%N) M) /\
              exists b, is_responsible PH VH KH cfg p s = Ok b /\ (b = true <-> In p M).
  Proof.
    intros cfg s. destruct (table_total cfg) as [t Ht]. exists (members_in t s).
    destruct (members_shape cfg t s Ht) as [Hnd [Hsub Hlen]].
    unfold members, node_ids, is_responsible. rewrite Ht. repeat split; auto.
    exists (is_responsible_in t p s). split; [reflexivity|apply is_responsible_iff].
  Qed.

  (* ---------------- the model meets spec_C18 ---------------- *)
  Lemma spec_one_model : forall cfg t p s, table cfg = Ok t ->
    spec_one cfg REPLICATION_FACTOR (model_obs PH KH t p s) = true.
  Proof.
    intros cfg t p s Ht. destruct (members_shape cfg t s Ht) as [Hnd [Hsub Hlen]].
    unfold spec_one. rewrite !andb_true_iff. repeat split.
    - cbn [model_obs o_space o_replkey]. apply spec_replkey_repl_key.
    - cbn [model_obs o_self o_nodeids]. apply negb_true_iff. apply memN_false.
      rewrite node_ids_iff. intros [_ Hne]. congruence.
    - apply nodupb_true. unfold resp_set, model_obs. cbn [o_resp o_self o_nodeids].
      assert (Hnf : NoDup (node_ids_in t p s)) by (unfold NodeConf.node_ids_in; now apply NoDup_filter).
      destruct (is_responsible_in t p s); [|exact Hnf]. cbn [app]. constructor; [|exact Hnf].
      rewrite node_ids_iff. intros [_ Hne]. congruence.
    - apply forallb_forall. intros x Hx. apply is_sync_node_true. apply Hsub. now apply resp_set_iff in Hx.
    - apply Nat.eqb_eq. rewrite sync_node_count_eq, <- Hlen.
      unfold resp_set, model_obs. cbn [o_resp o_self o_nodeids]. unfold NodeConf.node_ids_in.
      destruct (is_responsible_in t p s) eqn:Hr.
      + apply is_responsible_iff in Hr. cbn [app length]. now apply filter_ne_length_in.
      + assert (Hnin : ~ In p (members_in t s)) by (rewrite <- is_responsible_iff; congruence).
        cbn [app]. now rewrite filter_ne_notin.
  Qed.

  Lemma spec_pair_model : forall t p1 s1 p2 s2,
    spec_pair (model_obs PH KH t p1 s1) (model_obs PH KH t p2 s2) = true.
  Proof.
    intros t p1 s1 p2 s2. unfold spec_pair.
    destruct (list_eqb N.eqb (o_replkey (model_obs PH KH t p1 s1)) (o_replkey (model_obs PH KH t p2 s2))) eqn:Hk;
      [|reflexivity].
    cbn [model_obs o_replkey] in Hk. apply list_eqb_N_eq in Hk.
    assert (Hpart : partition s1 = partition s2) by (unfold NodeConf.partition; now rewrite Hk).
    apply andb_true_iff. split.
    - apply set_eqb_true. intro x. rewrite !resp_set_iff. unfold NodeConf.members_in. now rewrite Hpart.
    - cbn [model_obs o_part]. rewrite Hpart. apply N.eqb_refl.
  Qed.

  (* whatever participants ask whatever space ids: the model's answers satisfy the property predicate *)
  Theorem model_meets_spec : forall cfg t (qs : list (N * list N)), table cfg = Ok t ->
    spec_C18 cfg REPLICATION_FACTOR (map (fun q => model_obs PH KH t (fst q) (snd q)) qs) = true.
  Proof.
    intros cfg t qs Ht. unfold spec_C18. apply andb_true_iff. split.
    - apply forallb_forall. intros o Ho. apply in_map_iff in Ho. destruct Ho as [q [<- _]].
      now apply spec_one_model.
    - apply forallb_forall. intros o1 Ho1. apply forallb_forall. intros o2 Ho2.
      apply in_map_iff in Ho1. destruct Ho1 as [q1 [<- _]].
      apply in_map_iff in Ho2. destruct Ho2 as [q2 [<- _]].
      apply spec_pair_model.
  Qed.
End NodeConfProofs.

(* ---------------------------------------------------------------- configuration histories *)
(* configuration ids identify configurations (the premise under which "the same configuration" is meaningful) *)
Definition ids_identify (l : list conf) : Prop :=
  forall a b, In a l -> In b l -> c_id a = c_id b -> a = b.

Lemma last_cons_default : forall (A : Type) (r : list A) (u d : A), last (u :: r) d = last r u.
Proof.
  intros A r. induction r as [|a r' IH]; intros u d; [reflexivity|].
  change (last (u :: a :: r') d) with (last (a :: r') d). rewrite (IH a d). rewrite (IH a u). reflexivity.
Qed.

Lemma set_last_ident : forall cur c, (c_id cur = c_id c -> cur = c) -> set_last cur c = c.
Proof.
  intros cur c Hid. unfold set_last. destruct (c_id cur =? c_id c)%N eqn:He; [|reflexivity].
  apply N.eqb_eq in He. exact (Hid He).
Qed.

(* the state after ANY history is the LAST configuration delivered: nothing of the earlier ones survives *)
Theorem run_history_last : forall ups init, ids_identify (init :: ups) -> run_history init ups = last ups init.
Proof.
  induction ups as [|u r IH]; intros init Hids; [reflexivity|].
  unfold run_history. cbn [fold_left]. fold (run_history (set_last init u) r).
  rewrite set_last_ident.
  - rewrite last_cons_default. apply IH. intros a b Ha Hb. apply Hids; right; assumption.
  - intro He. apply Hids; [left; reflexivity|right; left; reflexivity|exact He].
Qed.

(* two participants with different histories that end in the same configuration give the same answers *)
Theorem history_independent : forall PH VH KH i1 u1 i2 u2,
  ids_identify (i1 :: u1) -> ids_identify (i2 :: u2) -> last u1 i1 = last u2 i2 ->
  table PH VH (c_nodes (run_history i1 u1)) = table PH VH (c_nodes (run_history i2 u2)) /\
  forall p s,
    members PH VH KH (c_nodes (run_history i1 u1)) s = members PH VH KH (c_nodes (run_history i2 u2)) s /\
    node_ids PH VH KH (c_nodes (run_history i1 u1)) p s = node_ids PH VH KH (c_nodes (run_history i2 u2)) p s /\
    is_responsible PH VH KH (c_nodes (run_history i1 u1)) p s
      = is_responsible PH VH KH (c_nodes (run_history i2 u2)) p s.
Proof.
  intros PH VH KH i1 u1 i2 u2 H1 H2 Hl.
  rewrite (run_history_last u1 i1 H1), (run_history_last u2 i2 H2), Hl. repeat split.
Qed.
