(* The transition system of Model/OCache.v satisfies the trace predicate spec_C16: a simulation between
   model states and the states of the monitor automaton that spec_C16 runs over the emitted events. *)
From Coq Require Import List NArith Bool Lia.
Import ListNotations.
From AnySync Require Import Model.OCache Proofs.OCacheProofs.
Open Scope N_scope.

(* ------------------------------------------------------------------------------------------------
   Which program counters belong to which call, and what they know *)

Definition rk_typ (k : rk) (c : call) : Prop :=
  match k with
  | KRemove => match c with CRemove _ | CRemoveSame _ _ => True | _ => False end
  | KClose _ => c = CClose
  end.
Definition tk_typ (k : tk) (c : call) : Prop :=
  match k with
  | KTry => match c with CTryRemove _ => True | _ => False end
  | KGC _ => c = CGC
  end.
Definition rk_closed (s : state) (k : rk) : Prop :=
  match k with KRemove => True | KClose _ => closed s = true end.

(* entry r belongs to id, and if it holds an instance, that instance was not closed before clock st *)
Definition bound_ok (s : state) (m : mon) (st id r : N) : Prop :=
  exists e, heap s r = Some e /\ e_id e = id /\
    forall n ce, e_value e = Some n -> m_cend m n = Some ce -> st < ce.

Definition pc_ok (s : state) (m : mon) (c : call) (st : N) (p : pc) : Prop :=
  match p with
  | Idle => False
  | PDead => True
  | PRet r =>
      ret_shape c r = true /\
      match c, r with
      | CGet id, RVal n | CPick id, RVal n =>
          (exists stt, m_inst m n = Some (id, stt)) /\ (forall ce, m_cend m n = Some ce -> st < ce)
      | CAdd _ _, _ => False
      | CClose, RNil => closed s = true
      | _, _ => True
      end
  | GLook id _ | GBlock id _ _ _ | GLoadStart id _ _ | GInLoad id _ _ => c = CGet id
  | GWaitClose id r _ _ | GWaitLoad id r _ => c = CGet id /\ bound_ok s m st id r
  | PkLook id => c = CPick id
  | PkWaitLoad r => exists id, c = CPick id /\ bound_ok s m st id r
  | AddDo id n => c = CAdd id n
  | RmLook id => c = CRemove id
  | RsLook id n => c = CRemoveSame id n
  | RmWaitLoad _ k | RmSetClosing _ k | RmBlock _ _ k | RmInClose _ _ k => rk_typ k c /\ rk_closed s k
  | TrLook id => c = CTryRemove id
  | TrSetClosing _ k | TrInTry _ _ k => tk_typ k c
  | GcScan | GcNext _ => c = CGC
  | ClDo => c = CClose
  | ClNext _ => c = CClose /\ closed s = true
  end.

Definition ostat (p : pc) (t : N) : istat :=
  match p with RmInClose _ _ _ => IInClose t | _ => IInTry t end.

Definition inst_rel (s : state) (m : mon) (r : N) (e : entry) (n : N) : Prop :=
  match e_state e with
  | SLoading => False
  | SActive => m_inst m n = Some (e_id e, ILive)
  | SClosing => exists t, owner (threads s t) = Some (r, n) /\ m_inst m n = Some (e_id e, ostat (threads s t) t)
  | SClosed => m_inst m n = Some (e_id e, IClosed)
  end.

(* entries the shutting-down Close() still has to visit *)
Definition cl_refs (p : pc) : list N :=
  match p with
  | ClNext l => l
  | RmWaitLoad r (KClose l) | RmSetClosing r (KClose l) | RmBlock r _ (KClose l) | RmInClose r _ (KClose l) => r :: l
  | _ => []
  end.

(* program counters that are entered and left only by event-producing steps *)
Definition quiet_pc (p : pc) : bool :=
  match p with
  | Idle | AddDo _ _ | GInLoad _ _ _ | RmInClose _ _ _ | TrInTry _ _ _ => false
  | _ => true
  end.

Record Sim (s : state) (m : mon) : Prop := mkSim {
  s_calls : forall t, match m_call m t with
                      | None => threads s t = Idle
                      | Some (c, st) => pc_ok s m c st (threads s t) /\ st <= m_clock m
                      end;
  s_inst  : forall r e n, heap s r = Some e -> e_value e = Some n -> inst_rel s m r e n;
  s_inj   : forall r1 e1 r2 e2 n, heap s r1 = Some e1 -> heap s r2 = Some e2 ->
              e_value e1 = Some n -> e_value e2 = Some n -> r1 = r2;
  s_fresh : forall n x, m_inst m n = Some x -> n < ninst s;
  s_add   : forall t id n, threads s t = AddDo id n ->
              n < ninst s /\ m_inst m n = None /\ (forall t' id', threads s t' = AddDo id' n -> t' = t);
  s_live  : forall id n, m_live m id = Some n ->
              exists r e, data s id = Some r /\ heap s r = Some e /\ e_value e = Some n;
  s_load  : forall id t, m_load m id = Some t <-> exists r rt, threads s t = GInLoad id r rt;
  s_cend  : forall n ce, m_cend m n = Some ce -> exists id, m_inst m n = Some (id, IClosed);
  s_back  : forall n x, m_inst m n = Some x -> exists r e, heap s r = Some e /\ e_value e = Some n;
  s_all   : forall n, In n (m_all m) -> m_inst m n <> None;
  s_closed: m_closeret m = true -> closed s = true;
  s_cl    : closed s = true -> forall id r, data s id = Some r -> exists t, In r (cl_refs (threads s t));
  s_count : exists L, NoDup L /\ (forall t, In t L <-> m_call m t <> None) /\ m_ncalls m = N.of_nat (length L)
}.

Lemma sim_init : Sim init mon0.
Proof.
  constructor; simpl.
  - intros t. reflexivity.
  - intros; discriminate.
  - intros; discriminate.
  - intros; discriminate.
  - intros; discriminate.
  - intros; discriminate.
  - intros id t. split; [discriminate | intros [r [rt H]]; discriminate].
  - intros; discriminate.
  - intros; discriminate.
  - intros; contradiction.
  - intros; discriminate.
  - intros; discriminate.
  - exists []. split; [constructor|]. split; [| reflexivity].
    intros t. split; [intros H; contradiction | intros H; exfalso; apply H; reflexivity].
Qed.

(* every instance held by an entry is known to the monitor under the entry's id *)
Lemma inst_rel_id : forall s m r e n, inst_rel s m r e n -> exists stt, m_inst m n = Some (e_id e, stt).
Proof.
  intros s m r e n H. unfold inst_rel in H. destruct (e_state e); try contradiction; eauto.
  destruct H as [t [_ H]]. eauto.
Qed.

(* the call record of a thread that is not idle *)
Lemma call_of : forall s m t, Sim s m -> threads s t <> Idle ->
  exists c st, m_call m t = Some (c, st) /\ pc_ok s m c st (threads s t) /\ st <= m_clock m.
Proof.
  intros s m t S H. pose proof (s_calls _ _ S t) as X. destruct (m_call m t) as [[c st]|]; [eauto | contradiction].
Qed.

(* ------------------------------------------------------------------------------------------------
   Monotone changes keep what the other threads know *)
Record ext (s : state) (m : mon) (s' : state) (m' : mon) : Prop := mkExt {
  x_heap : forall r e, heap s r = Some e ->
             exists e', heap s' r = Some e' /\ e_id e' = e_id e /\
               (forall n, e_value e' = Some n -> e_value e = Some n \/ m_cend m' n = None);
  x_inst : forall n id stt, m_inst m n = Some (id, stt) -> exists stt', m_inst m' n = Some (id, stt');
  x_cend : forall n ce, m_cend m' n = Some ce -> m_cend m n = Some ce \/ m_clock m < ce;
  x_closed : closed s = true -> closed s' = true
}.

Lemma bound_ok_ext : forall s m s' m' st id r,
  ext s m s' m' -> st <= m_clock m -> bound_ok s m st id r -> bound_ok s' m' st id r.
Proof.
  intros s m s' m' st id r X Hst [e [Hr [Hid Hb]]].
  destruct (x_heap _ _ _ _ X _ _ Hr) as [e' [Hr' [Hid' Hv]]].
  exists e'. repeat split; auto; try congruence.
  intros n ce Hn Hce. destruct (Hv _ Hn) as [Hold|Hnone]; [| congruence].
  destruct (x_cend _ _ _ _ X _ _ Hce) as [Hc|Hc]; [eapply Hb; eauto | lia].
Qed.

Lemma pc_ok_ext : forall s m s' m' c st p,
  ext s m s' m' -> st <= m_clock m -> pc_ok s m c st p -> pc_ok s' m' c st p.
Proof.
  intros s m s' m' c st p X Hst H.
  pose proof (x_closed _ _ _ _ X) as Hcl.
  destruct p; simpl in *; auto;
    try (destruct H as [H1 H2]; split; auto; eapply bound_ok_ext; eauto; fail);
    try (destruct H as [id [H1 H2]]; exists id; split; auto; eapply bound_ok_ext; eauto; fail);
    try (destruct H as [H1 H2]; split; auto; destruct k; simpl in *; auto; fail);
    try (destruct H as [H1 H2]; split; auto; fail).
  (* PRet *)
  destruct H as [H1 H2]. split; auto.
  destruct c; auto; destruct r; auto.
  - destruct H2 as [[stt A] B]. split.
    + destruct (x_inst _ _ _ _ X _ _ _ A) as [stt' A']. eauto.
    + intros ce Hce. destruct (x_cend _ _ _ _ X _ _ Hce) as [Hc|Hc]; [eauto | lia].
  - destruct H2 as [[stt A] B]. split.
    + destruct (x_inst _ _ _ _ X _ _ _ A) as [stt' A']. eauto.
    + intros ce Hce. destruct (x_cend _ _ _ _ X _ _ Hce) as [Hc|Hc]; [eauto | lia].
Qed.

Lemma ext_refl : forall s m, ext s m s m.
Proof.
  intros s m. constructor; auto.
  - intros r e H. exists e. repeat split; auto.
  - intros n id stt H. eauto.
Qed.

Lemma quiet_owner : forall p, quiet_pc p = true -> owner p = None.
Proof. destruct p; simpl; intros; auto; discriminate. Qed.

(* pc_ok and inst_rel do not look at the program counters / the trace / the instance counter *)
Lemma pc_ok_same : forall s s' m c st p,
  heap s' = heap s -> closed s' = closed s -> pc_ok s m c st p -> pc_ok s' m c st p.
Proof.
  intros s s' m c st p Hh Hc H.
  unfold pc_ok, bound_ok, rk_closed in *. rewrite Hh, Hc. exact H.
Qed.

Lemma inst_rel_other : forall s m t p' r e n,
  owner (threads s t) = None -> owner p' = None ->
  inst_rel s m r e n -> inst_rel (set_pc s t p') m r e n.
Proof.
  intros s m t p' r e n H1 H2 H. unfold inst_rel in *. destruct (e_state e); auto.
  destruct H as [t1 [A B]]. exists t1. simpl. unfold upd.
  destruct (N.eqb_spec t1 t); [subst; congruence | auto].
Qed.

(* a silent step that only changes the program counter of thread t *)
Lemma sim_tau_pc : forall s m t c st p',
  Sim s m -> m_call m t = Some (c, st) ->
  quiet_pc (threads s t) = true -> quiet_pc p' = true ->
  pc_ok s m c st p' ->
  (closed s = true -> forall id r, data s id = Some r -> In r (cl_refs (threads s t)) -> In r (cl_refs p')) ->
  Sim (set_pc s t p') m.
Proof.
  intros s m t c st p' S Hc Hq Hq' Hok Hcl. destruct S.
  constructor; simpl; auto.
  - intros t0. unfold upd. destruct (N.eqb_spec t0 t).
    + subst. rewrite Hc. split; [exact Hok|]. specialize (s_calls0 t). rewrite Hc in s_calls0. apply s_calls0.
    + exact (s_calls0 t0).
  - intros r e n Hr Hv. apply inst_rel_other; auto using quiet_owner.
  - intros t0 id n. unfold upd. destruct (N.eqb_spec t0 t).
    + intros H. rewrite H in Hq'. discriminate.
    + intros H. destruct (s_add0 _ _ _ H) as [A [B C]]. repeat split; auto.
      intros t' id'. destruct (N.eqb_spec t' t); [intros H'; rewrite H' in Hq'; discriminate | eauto].
  - intros id t0. unfold upd. split.
    + intros H. apply s_load0 in H. destruct H as [r [rt H]]. destruct (N.eqb_spec t0 t).
      * subst. rewrite H in Hq. discriminate.
      * eauto.
    + intros [r [rt H]]. destruct (N.eqb_spec t0 t).
      * rewrite H in Hq'. discriminate.
      * apply s_load0. eauto.
  - intros Hx id r Hd. destruct (s_cl0 Hx _ _ Hd) as [t1 Hin]. destruct (N.eq_dec t1 t).
    + subst. exists t. unfold upd. rewrite N.eqb_refl. eauto.
    + exists t1. unfold upd. destruct (N.eqb_spec t1 t); [contradiction | auto].
Qed.

Lemma seqN_In : forall n a x, In x (seqN a n) <-> a <= x < a + N.of_nat n.
Proof.
  induction n as [|n IH]; intros a x; simpl seqN.
  - simpl. split; [contradiction | lia].
  - simpl In. rewrite IH. lia.
Qed.

Lemma snapshot_complete : forall s id r, Inv s -> data s id = Some r -> In r (snapshot s (fun _ => true)).
Proof.
  intros s id r I Hd. destruct (i_data _ I _ _ Hd) as [e [Hr [Hid _]]].
  unfold snapshot. apply filter_In. split.
  - apply seqN_In. pose proof (i_heap _ I _ _ Hr). lia.
  - unfold in_map. rewrite Hr. rewrite Hid, Hd. rewrite N.eqb_refl. reflexivity.
Qed.

(* Get inserts a loading placeholder (no instance in it yet) *)
Lemma sim_alloc_loading : forall s m id,
  Inv s -> Sim s m -> data s id = None -> closed s = false -> Sim (alloc s (new_loading id)) m.
Proof.
  intros s m id I S Hd Hc.
  assert (Hfresh : forall r e, heap s r = Some e -> r <> hsize s).
  { intros r e Hr Heq. apply (i_heap _ I) in Hr. lia. }
  assert (X : ext s m (alloc s (new_loading id)) m).
  { constructor; simpl; auto.
    - intros r e Hr. exists e. unfold upd. destruct (N.eqb_spec r (hsize s)); [exfalso; eapply Hfresh; eauto|].
      repeat split; auto.
    - intros n id0 stt H. eauto. }
  destruct S. constructor; simpl; auto.
  - intros t. specialize (s_calls0 t). destruct (m_call m t) as [[c st]|]; auto.
    destruct s_calls0 as [A B]. split; auto. eapply pc_ok_ext; eauto.
  - intros r e n. unfold upd. destruct (N.eqb_spec r (hsize s)); intros Hr Hv.
    + inversion Hr; subst e. discriminate.
    + exact (s_inst0 _ _ _ Hr Hv).
  - intros r1 e1 r2 e2 n. unfold upd.
    destruct (N.eqb_spec r1 (hsize s)); destruct (N.eqb_spec r2 (hsize s)); intros H1 H2 V1 V2;
      try (inversion H1; subst e1; discriminate); try (inversion H2; subst e2; discriminate); eauto.
  - intros id0 n Hl. destruct (s_live0 _ _ Hl) as [r [e [A [B C]]]]. unfold upd.
    destruct (N.eqb_spec id0 id); [subst; congruence|].
    exists r, e. destruct (N.eqb_spec r (hsize s)); [exfalso; eapply Hfresh; eauto | auto].
  - intros n x Hn. destruct (s_back0 _ _ Hn) as [r [e [A B]]]. exists r, e. unfold upd.
    destruct (N.eqb_spec r (hsize s)); [exfalso; eapply Hfresh; eauto | auto].
  - intros Hx. congruence.
Qed.

(* Close marks the cache closed and takes the list of all entries *)
Lemma sim_close_start : forall s m t st,
  Inv s -> Sim s m -> threads s t = ClDo -> m_call m t = Some (CClose, st) ->
  Sim (set_pc (set_closed_cancel s) t (ClNext (snapshot s (fun _ => true)))) m.
Proof.
  intros s m t st I S Hpc Hc.
  assert (X : ext s m (set_closed_cancel s) m).
  { constructor; simpl; auto.
    - intros r e Hr. rewrite Hr. simpl. exists (set_cancelled e). repeat split; auto.
    - intros n id0 stt H. eauto. }
  destruct S. constructor; simpl; auto.
  - intros t0. unfold upd. destruct (N.eqb_spec t0 t).
    + subst. rewrite Hc. simpl. specialize (s_calls0 t). rewrite Hc in s_calls0. destruct s_calls0. auto.
    + specialize (s_calls0 t0). destruct (m_call m t0) as [[c0 st0]|]; auto.
      destruct s_calls0 as [A B]. split; auto.
      eapply pc_ok_same; [| | eapply pc_ok_ext; eauto]; reflexivity.
  - intros r e n Hr Hv. destruct (heap s r) as [e0|] eqn:E; simpl in Hr; inversion Hr; subst e.
    pose proof (s_inst0 _ _ _ E Hv) as R.
    apply (inst_rel_other (set_closed_cancel s) m t); [simpl; rewrite Hpc; reflexivity | reflexivity |].
    exact R.
  - intros r1 e1 r2 e2 n H1 H2 V1 V2.
    destruct (heap s r1) as [a|] eqn:E1; simpl in H1; inversion H1; subst e1.
    destruct (heap s r2) as [b|] eqn:E2; simpl in H2; inversion H2; subst e2. eauto.
  - intros t0 id n. unfold upd. destruct (N.eqb_spec t0 t); [discriminate|].
    intros H. destruct (s_add0 _ _ _ H) as [A [B C]]. repeat split; auto.
    intros t' id'. destruct (N.eqb_spec t' t); [discriminate | eauto].
  - intros id0 n Hl. destruct (s_live0 _ _ Hl) as [r [e [A [B C]]]]. exists r, (set_cancelled e).
    rewrite B. simpl. auto.
  - intros id0 t0. unfold upd. split.
    + intros H. apply s_load0 in H. destruct H as [r [rt H]]. destruct (N.eqb_spec t0 t); [congruence | eauto].
    + intros [r [rt H]]. destruct (N.eqb_spec t0 t); [discriminate | apply s_load0; eauto].
  - intros n x Hn. destruct (s_back0 _ _ Hn) as [r [e [A B]]]. exists r, (set_cancelled e). rewrite A. simpl. auto.
  - intros _ id0 r Hd. exists t. unfold upd. rewrite N.eqb_refl. simpl. eapply snapshot_complete; eauto.
Qed.

(* ------------------------------------------------------------------------------------------------
   Event steps *)

Lemma sim_bump : forall s m, Sim s m -> Sim (bump_inst s) m.
Proof.
  intros s m S. destruct S. constructor; simpl; auto.
  - intros n x H. apply s_fresh0 in H. lia.
  - intros t id n H. destruct (s_add0 _ _ _ H) as [A [B C]]. repeat split; auto. lia.
Qed.

Lemma idle_no_call : forall s m t, Sim s m -> threads s t = Idle -> m_call m t = None.
Proof.
  intros s m t S H. pose proof (s_calls _ _ S t) as X. destruct (m_call m t) as [[c st]|]; auto.
  destruct X as [X _]. rewrite H in X. contradiction.
Qed.

Definition mon_call (m : mon) (t : N) (c : call) : mon :=
  mkMon (m_inst m) (m_live m) (m_load m) (upd (m_call m) t (Some (c, m_clock m + 1))) (m_cend m)
        (m_clock m + 1) (m_ncalls m + 1) (m_closeret m) (m_all m).

Lemma mon_step_call : forall m t c, m_call m t = None -> mon_step m (ECall t c) = Some (mon_call m t c).
Proof. intros m t c H. unfold mon_step. simpl. rewrite H. reflexivity. Qed.

(* an API call starts on an idle thread *)
Lemma sim_call : forall s m t c p0,
  Sim s m -> threads s t = Idle ->
  owner p0 = None -> (forall id r rt, p0 <> GInLoad id r rt) -> cl_refs p0 = [] ->
  (forall id n, p0 = AddDo id n -> n < ninst s /\ m_inst m n = None /\ forall t' id', threads s t' <> AddDo id' n) ->
  (forall st, pc_ok s (mon_call m t c) c st p0) ->
  Sim (set_pc s t p0) (mon_call m t c).
Proof.
  intros s m t c p0 S Hidle Hown Hnl Hcl Hadd Hok.
  pose proof (idle_no_call _ _ _ S Hidle) as Hnc.
  assert (X : ext s m s (mon_call m t c)).
  { constructor; simpl; auto.
    - intros r e Hr. exists e. repeat split; auto.
    - intros n id stt H. eauto. }
  destruct S. constructor; simpl; auto.
  - intros t0. unfold upd. destruct (N.eqb_spec t0 t).
    + split; [apply Hok | apply N.le_refl].
    + specialize (s_calls0 t0). destruct (m_call m t0) as [[c0 st0]|]; auto.
      destruct s_calls0 as [A B]. split; [| lia].
      eapply pc_ok_same; [| | eapply pc_ok_ext; eauto]; reflexivity.
  - intros r e n Hr Hv. apply inst_rel_other; [rewrite Hidle; reflexivity | exact Hown |].
    exact (s_inst0 _ _ _ Hr Hv).
  - intros t0 id n. unfold upd. destruct (N.eqb_spec t0 t).
    + subst t0. intros H. destruct (Hadd _ _ H) as [A [B C]]. repeat split; auto.
      intros t' id'. destruct (N.eqb_spec t' t) as [E|E]; [intros _; exact E | intros H'; exfalso; exact (C _ _ H')].
    + intros H. destruct (s_add0 _ _ _ H) as [A [B C]]. repeat split; auto.
      intros t' id'. destruct (N.eqb_spec t' t); [| eauto].
      intros H'. destruct (Hadd _ _ H') as [_ [_ C']]. exfalso. exact (C' _ _ H).
  - intros id t0. unfold upd. split.
    + intros H. apply s_load0 in H. destruct H as [r [rt H]]. destruct (N.eqb_spec t0 t); [congruence | eauto].
    + intros [r [rt H]]. destruct (N.eqb_spec t0 t); [exfalso; eapply Hnl; eauto | apply s_load0; eauto].
  - intros Hx id r Hd. destruct (s_cl0 Hx _ _ Hd) as [t1 Hin]. exists t1. unfold upd.
    destruct (N.eqb_spec t1 t); [subst; rewrite Hidle in Hin; contradiction | auto].
  - destruct s_count0 as [L [ND [HL HN]]]. exists (t :: L). split; [|split].
    + constructor; auto. intros Hin. apply HL in Hin. contradiction.
    + intros t0. unfold upd. simpl. destruct (N.eqb_spec t0 t).
      * subst. split; [discriminate | auto].
      * rewrite <- HL. split; [intros [E|E]; [congruence | auto] | auto].
    + simpl length. rewrite HN. lia.
Qed.

Definition mon_ret (m : mon) (t : N) (cr : bool) : mon :=
  mkMon (m_inst m) (m_live m) (m_load m) (upd (m_call m) t None) (m_cend m) (m_clock m + 1)
        (m_ncalls m - 1) (m_closeret m || cr) (m_all m).

Lemma count_remove : forall (f : N -> option (call * N)) L t n,
  NoDup L -> (forall x, In x L <-> f x <> None) -> f t <> None -> n = N.of_nat (length L) ->
  exists L', NoDup L' /\ (forall x, In x L' <-> upd f t None x <> None) /\ n - 1 = N.of_nat (length L').
Proof.
  intros f L t n ND HL Ht HN. assert (Hin : In t L) by (apply HL; auto).
  destruct (in_split _ _ Hin) as [l1 [l2 E]]. subst L.
  exists (l1 ++ l2). split; [eapply NoDup_remove_1; eauto | split].
  - intros x. unfold upd. destruct (N.eqb_spec x t).
    + subst. split; [| intros H; contradiction].
      intros H. exfalso. eapply NoDup_remove_2; eauto.
    + rewrite <- HL. rewrite !in_app_iff. simpl. split; [tauto | intros [H|[H|H]]; auto; congruence].
  - rewrite app_length in HN. simpl in HN. rewrite app_length. lia.
Qed.

(* the bookkeeping of a return: thread t becomes idle *)
Lemma sim_ret_core : forall s m t c st cr,
  Sim s m -> m_call m t = Some (c, st) ->
  owner (threads s t) = None -> cl_refs (threads s t) = [] ->
  (forall id r rt, threads s t <> GInLoad id r rt) ->
  (cr = true -> closed s = true) ->
  Sim (set_pc s t Idle) (mon_ret m t cr).
Proof.
  intros s m t c st cr S Hc Hown Hclr Hnl Hcr.
  assert (X : ext s m s (mon_ret m t cr)).
  { constructor; simpl; auto.
    - intros r0 e Hr. exists e. repeat split; auto.
    - intros n id stt H. eauto. }
  destruct S. constructor; simpl; auto.
  - intros t0. unfold upd. destruct (N.eqb_spec t0 t); auto.
    specialize (s_calls0 t0). destruct (m_call m t0) as [[c0 st0]|]; auto.
    destruct s_calls0 as [A B]. split; [| lia].
    eapply pc_ok_same; [| | eapply pc_ok_ext; eauto]; reflexivity.
  - intros r0 e n Hr Hv. apply inst_rel_other; [exact Hown | reflexivity |].
    exact (s_inst0 _ _ _ Hr Hv).
  - intros t0 id n. unfold upd. destruct (N.eqb_spec t0 t); [discriminate|].
    intros H. destruct (s_add0 _ _ _ H) as [A [B C]]. repeat split; auto.
    intros t' id'. destruct (N.eqb_spec t' t); [discriminate | eauto].
  - intros id t0. unfold upd. split.
    + intros H. apply s_load0 in H. destruct H as [r0 [rt H]].
      destruct (N.eqb_spec t0 t); [subst; exfalso; eapply Hnl; eauto | eauto].
    + intros [r0 [rt H]]. destruct (N.eqb_spec t0 t); [discriminate | apply s_load0; eauto].
  - intros H. apply orb_true_iff in H. destruct H as [H|H]; auto.
  - intros Hx id r0 Hd. destruct (s_cl0 Hx _ _ Hd) as [t1 Hin]. exists t1. unfold upd.
    destruct (N.eqb_spec t1 t); [subst; rewrite Hclr in Hin; contradiction | auto].
  - destruct s_count0 as [L [ND [HL HN]]].
    eapply count_remove; eauto. rewrite Hc. discriminate.
Qed.

(* a thread that is about to return (PRet r) returns *)
Lemma sim_ret : forall s m t r,
  Sim s m -> threads s t = PRet r ->
  exists m', mon_step m (ERet t r) = Some m' /\ Sim (set_pc s t Idle) m'.
Proof.
  intros s m t r S Hpc.
  destruct (call_of _ _ t S) as [c [st [Hc [Hok Hst]]]]; [rewrite Hpc; discriminate|].
  rewrite Hpc in Hok. simpl in Hok. destruct Hok as [Hshape Hsem].
  set (cr := match c, r with CClose, RNil => true | _, _ => false end).
  assert (Hstep : mon_step m (ERet t r) = Some (mon_ret m t cr)).
  { unfold mon_step. simpl. rewrite Hc. rewrite Hshape. simpl.
    destruct c; destruct r; simpl in *; try discriminate; try contradiction; try reflexivity.
    - destruct Hsem as [[stt A] B]. rewrite A. rewrite N.eqb_refl. simpl.
      destruct (m_cend m n) as [ce|] eqn:E; [| reflexivity].
      specialize (B _ eq_refl). apply N.ltb_lt in B. rewrite B. reflexivity.
    - destruct Hsem as [[stt A] B]. rewrite A. rewrite N.eqb_refl. simpl.
      destruct (m_cend m n) as [ce|] eqn:E; [| reflexivity].
      specialize (B _ eq_refl). apply N.ltb_lt in B. rewrite B. reflexivity. }
  exists (mon_ret m t cr). split; auto.
  apply (sim_ret_core s m t c st cr S Hc).
  - rewrite Hpc. reflexivity.
  - rewrite Hpc. reflexivity.
  - rewrite Hpc. intros; discriminate.
  - intros H. unfold cr in H. destruct c; try discriminate. destruct r; try discriminate. simpl in Hsem. exact Hsem.
Qed.

Lemma inst_rel_eq : forall s s' m m' r e n,
  threads s' = threads s -> m_inst m' n = m_inst m n -> inst_rel s m r e n -> inst_rel s' m' r e n.
Proof. intros s s' m m' r e n Ht Hm H. unfold inst_rel in *. rewrite Ht, Hm. exact H. Qed.

Definition mon_mk_create (m : mon) (id n : N) : mon :=
  mkMon (upd (m_inst m) n (Some (id, ILive))) (upd (m_live m) id (Some n)) (m_load m) (m_call m) (m_cend m)
        (m_clock m) (m_ncalls m) (m_closeret m) (n :: m_all m).

Lemma mon_create_eq : forall m id n,
  m_inst m n = None -> m_live m id = None -> mon_create m id n = Some (mon_mk_create m id n).
Proof. intros m id n H1 H2. unfold mon_create. rewrite H1, H2. reflexivity. Qed.

Lemma live_none : forall s m id, Sim s m -> data s id = None -> m_live m id = None.
Proof.
  intros s m id S Hd. destruct (m_live m id) as [n|] eqn:E; auto.
  destruct (s_live _ _ S _ _ E) as [r [e [A _]]]. congruence.
Qed.

(* Add puts a new active entry holding the fresh instance n into the map *)
Lemma sim_create_active : forall s m id n,
  Inv s -> Sim s m -> data s id = None -> closed s = false ->
  n < ninst s -> m_inst m n = None -> (forall t' id', threads s t' <> AddDo id' n) ->
  Sim (alloc s (new_active id n)) (mon_mk_create m id n).
Proof.
  intros s m id n I S Hd Hc Hn Hin Hna.
  assert (Hfresh : forall r e, heap s r = Some e -> r <> hsize s).
  { intros r e Hr Heq. apply (i_heap _ I) in Hr. lia. }
  assert (Hval : forall r e, heap s r = Some e -> e_value e <> Some n).
  { intros r e Hr Hv. destruct (inst_rel_id _ _ _ _ _ (s_inst _ _ S _ _ _ Hr Hv)) as [stt A]. congruence. }
  assert (Hother : forall n0 x, m_inst m n0 = Some x -> (n0 =? n) = false).
  { intros n0 x H. apply N.eqb_neq. intros E. subst. congruence. }
  assert (X : ext s m (alloc s (new_active id n)) (mon_mk_create m id n)).
  { constructor; simpl; auto.
    - intros r e Hr. exists e. unfold upd. destruct (N.eqb_spec r (hsize s)); [exfalso; eapply Hfresh; eauto|].
      repeat split; auto.
    - intros n0 id0 stt H. unfold upd. rewrite (Hother _ _ H). eauto. }
  destruct S. constructor; simpl; auto.
  - intros t. specialize (s_calls0 t). destruct (m_call m t) as [[c st]|]; auto.
    destruct s_calls0 as [A B]. split; auto. eapply pc_ok_ext; eauto.
  - intros r e n0. unfold upd at 1. destruct (N.eqb_spec r (hsize s)); intros Hr Hv.
    + inversion Hr; subst e. simpl in Hv. inversion Hv; subst n0.
      unfold inst_rel. simpl. unfold upd. rewrite N.eqb_refl. reflexivity.
    + pose proof (s_inst0 _ _ _ Hr Hv) as R. destruct (inst_rel_id _ _ _ _ _ R) as [stt A].
      eapply inst_rel_eq; [reflexivity | | exact R]. simpl. unfold upd. rewrite (Hother _ _ A). reflexivity.
  - intros r1 e1 r2 e2 n0. unfold upd.
    destruct (N.eqb_spec r1 (hsize s)); destruct (N.eqb_spec r2 (hsize s)); intros H1 H2 V1 V2; subst; auto.
    + inversion H1; subst e1. simpl in V1. inversion V1; subst n0. exfalso. eapply Hval; eauto.
    + inversion H2; subst e2. simpl in V2. inversion V2; subst n0. exfalso. eapply Hval; eauto.
    + eauto.
  - intros n0 x. unfold upd. destruct (N.eqb_spec n0 n); [subst; auto | eauto].
  - intros t id0 n0 H. destruct (s_add0 _ _ _ H) as [A [B C]]. repeat split; auto.
    unfold upd. destruct (N.eqb_spec n0 n); [subst; exfalso; eapply Hna; eauto | auto].
  - intros id0 n0. unfold upd. destruct (N.eqb_spec id0 id).
    + intros H. inversion H; subst. exists (hsize s), (new_active id n0). rewrite !N.eqb_refl. auto.
    + intros H. destruct (s_live0 _ _ H) as [r [e [A [B C]]]]. exists r, e.
      destruct (N.eqb_spec r (hsize s)); [exfalso; eapply Hfresh; eauto | auto].
  - intros n0 ce H. destruct (s_cend0 _ _ H) as [id0 A]. exists id0. unfold upd. rewrite (Hother _ _ A). auto.
  - intros n0 x. unfold upd. destruct (N.eqb_spec n0 n).
    + intros _. subst. exists (hsize s), (new_active id n). rewrite N.eqb_refl. auto.
    + intros H. destruct (s_back0 _ _ H) as [r [e [A B]]]. exists r, e.
      destruct (N.eqb_spec r (hsize s)); [exfalso; eapply Hfresh; eauto | auto].
  - intros n0 [H|H]; unfold upd.
    + subst. rewrite N.eqb_refl. discriminate.
    + destruct (N.eqb_spec n0 n); [discriminate | auto].
  - intros Hx. congruence.
Qed.

(* Add: one lock region, then the return *)
Lemma sim_add_fail : forall s m t id n r,
  Sim s m -> threads s t = AddDo id n -> (r = RErrClosed \/ r = RErrExists) ->
  exists m', mon_step m (ERet t r) = Some m' /\ Sim (set_pc s t Idle) m'.
Proof.
  intros s m t id n r S Hpc Hr.
  destruct (call_of _ _ t S) as [c [st [Hc [Hok Hst]]]]; [rewrite Hpc; discriminate|].
  rewrite Hpc in Hok. simpl in Hok. subst c.
  exists (mon_ret m t false). split.
  - unfold mon_step. simpl. rewrite Hc. destruct Hr; subst r; reflexivity.
  - apply (sim_ret_core s m t (CAdd id n) st false S Hc); try (rewrite Hpc; reflexivity).
    + rewrite Hpc. intros; discriminate.
    + discriminate.
Qed.

Lemma sim_add_ok : forall s m t id n,
  Inv s -> Sim s m -> threads s t = AddDo id n -> data s id = None -> closed s = false ->
  exists m', mon_step m (ERet t RNil) = Some m' /\ Sim (set_pc (alloc s (new_active id n)) t Idle) m'.
Proof.
  intros s m t id n I S Hpc Hd Hcl.
  destruct (call_of _ _ t S) as [c [st [Hc [Hok Hst]]]]; [rewrite Hpc; discriminate|].
  rewrite Hpc in Hok. simpl in Hok. subst c.
  destruct (s_add _ _ S _ _ _ Hpc) as [Hn [Hin Huniq]].
  pose proof (live_none _ _ _ S Hd) as Hlive.
  exists (mon_mk_create (mon_ret m t false) id n). split.
  - unfold mon_step. simpl. rewrite Hc. simpl.
    apply (mon_create_eq (mon_ret m t false) id n); assumption.
  - assert (S1 : Sim (set_pc s t Idle) (mon_ret m t false)).
    { apply (sim_ret_core s m t (CAdd id n) st false S Hc); try (rewrite Hpc; reflexivity).
      + rewrite Hpc. intros; discriminate.
      + discriminate. }
    change (Sim (alloc (set_pc s t Idle) (new_active id n)) (mon_mk_create (mon_ret m t false) id n)).
    apply sim_create_active; auto.
    + apply inv_set_pc_plain; auto.
    + intros t' id'. simpl. unfold upd. destruct (N.eqb_spec t' t); [discriminate|].
      intros H. apply n0. eapply Huniq; eauto.
Qed.

(* setCancel: a change of the entry that neither the property nor the monitor looks at *)
Lemma sim_cancelset : forall s m r e,
  Sim s m -> heap s r = Some e -> Sim (set_entry s r (set_cancelset e)) m.
Proof.
  intros s m r e S Hr.
  assert (Hsame : forall r0 e0', upd (heap s) r (Some (set_cancelset e)) r0 = Some e0' ->
            exists e0, heap s r0 = Some e0 /\ e_value e0' = e_value e0 /\ e_id e0' = e_id e0 /\ e_state e0' = e_state e0).
  { intros r0 e0'. unfold upd. destruct (N.eqb_spec r0 r); intros H.
    - inversion H; subst. exists e. auto.
    - exists e0'. auto. }
  assert (X : ext s m (set_entry s r (set_cancelset e)) m).
  { constructor; simpl; auto.
    - intros r0 e0 H0. unfold upd. destruct (N.eqb_spec r0 r).
      + subst. rewrite Hr in H0. inversion H0; subst e0. exists (set_cancelset e). repeat split; auto.
      + exists e0. repeat split; auto.
    - intros n id stt H. eauto. }
  destruct S. constructor; simpl; auto.
  - intros t. specialize (s_calls0 t). destruct (m_call m t) as [[c st]|]; auto.
    destruct s_calls0 as [A B]. split; auto. eapply pc_ok_ext; eauto.
  - intros r0 e0' n H Hv. destruct (Hsame _ _ H) as [e0 [A [B [C D]]]].
    rewrite B in Hv. pose proof (s_inst0 _ _ _ A Hv) as R.
    unfold inst_rel in *. rewrite D, C. exact R.
  - intros r1 e1 r2 e2 n H1 H2 V1 V2.
    destruct (Hsame _ _ H1) as [a [A1 [B1 _]]]. destruct (Hsame _ _ H2) as [b [A2 [B2 _]]].
    rewrite B1 in V1. rewrite B2 in V2. eauto.
  - intros id n H. destruct (s_live0 _ _ H) as [r0 [e0 [A [B C]]]]. exists r0. unfold upd.
    destruct (N.eqb_spec r0 r).
    + subst. rewrite Hr in B. inversion B; subst e0. exists (set_cancelset e). auto.
    + exists e0. auto.
  - intros n x H. destruct (s_back0 _ _ H) as [r0 [e0 [A B]]]. exists r0. unfold upd.
    destruct (N.eqb_spec r0 r).
    + subst. rewrite Hr in A. inversion A; subst e0. exists (set_cancelset e). auto.
    + exists e0. auto.
Qed.

Definition mon_load (m : mon) (id : N) (v : option N) : mon :=
  mkMon (m_inst m) (m_live m) (upd (m_load m) id v) (m_call m) (m_cend m) (m_clock m + 1) (m_ncalls m)
        (m_closeret m) (m_all m).

(* facts about the entry a thread is loading *)
Lemma loader_view : forall s m t r id e,
  Inv s -> Sim s m -> heap s r = Some e -> loader (threads s t) = Some (r, id) ->
  e_id e = id /\ e_value e = None /\ data s id = Some r /\ m_live m id = None /\
  (forall t', m_load m id = Some t' -> exists r' rt', threads s t' = GInLoad id r' rt' /\ t' = t).
Proof.
  intros s m t r id e I S Hr Hld.
  destruct (loader_facts _ _ _ _ _ I Hr Hld) as [Hnd [Hid [Hst [Hnf Hno]]]].
  assert (Hv : e_value e = None).
  { pose proof (i_shape _ I _ _ Hr) as [S1 _]. destruct (S1 Hst); auto. }
  assert (Hd : data s id = Some r).
  { subst id. eapply i_present; eauto. left. exact Hnd. }
  repeat split; auto.
  - destruct (m_live m id) as [n|] eqn:E; auto.
    destruct (s_live _ _ S _ _ E) as [r' [e' [A [B C]]]].
    assert (r' = r) by congruence. subst r'. rewrite Hr in B. inversion B; subst e'. congruence.
  - intros t' Hl. apply (s_load _ _ S) in Hl. destruct Hl as [r' [rt' Hpc']].
    exists r', rt'. split; auto.
    destruct (i_loader _ I t' r' id) as [e' [Hr' [Hnd' Hid']]]; [rewrite Hpc'; reflexivity|].
    assert (Hd' : data s id = Some r').
    { rewrite <- Hid'. eapply i_present; eauto. left. exact Hnd'. }
    assert (r' = r) by congruence. subst r'.
    eapply (i_loader1 _ I t' t r id id); [rewrite Hpc'; reflexivity | exact Hld].
Qed.

(* load start *)
Lemma sim_load_start : forall s m t id r rt e,
  Inv s -> Sim s m -> threads s t = GLoadStart id r rt -> heap s r = Some e ->
  exists m', mon_step m (ELoadStart t id) = Some m' /\
             Sim (set_pc (set_entry s r (set_cancelset e)) t (GInLoad id r rt)) m'.
Proof.
  intros s m t id r rt e I S Hpc Hr.
  destruct (call_of _ _ t S) as [c [st [Hc [Hok Hst]]]]; [rewrite Hpc; discriminate|].
  rewrite Hpc in Hok. simpl in Hok. subst c.
  destruct (loader_view s m t r id e I S Hr) as [Hid [Hv [Hd [Hlive Hload]]]]; [rewrite Hpc; reflexivity|].
  assert (Hnoload : m_load m id = None).
  { destruct (m_load m id) as [t'|] eqn:E; auto.
    destruct (Hload _ eq_refl) as [r' [rt' [A B]]]. subst t'. congruence. }
  exists (mon_load m id (Some t)). split.
  - unfold mon_step. simpl. rewrite Hlive, Hnoload. reflexivity.
  - pose proof (sim_cancelset _ _ _ _ S Hr) as S1.
    set (s1 := set_entry s r (set_cancelset e)) in *.
    assert (X : ext s1 m s1 (mon_load m id (Some t))).
    { constructor; simpl; auto.
      - intros r0 e0 H0. exists e0. repeat split; auto.
      - intros n id0 stt H. eauto. }
    destruct S1. constructor; simpl; auto.
    + intros t0. unfold upd. destruct (N.eqb_spec t0 t).
      * subst. rewrite Hc. simpl. split; [reflexivity | lia].
      * specialize (s_calls0 t0). destruct (m_call m t0) as [[c0 st0]|]; auto.
        destruct s_calls0 as [A B]. split; [| lia].
        eapply pc_ok_same; [| | eapply pc_ok_ext; eauto]; reflexivity.
    + intros r0 e0 n H Hv0. apply (inst_rel_other s1 (mon_load m id (Some t)) t);
        [simpl; rewrite Hpc; reflexivity | reflexivity |].
      eapply inst_rel_eq; [reflexivity | | exact (s_inst0 _ _ _ H Hv0)]. reflexivity.
    + intros t0 id0 n. unfold upd. destruct (N.eqb_spec t0 t); [discriminate|].
      intros H. destruct (s_add0 _ _ _ H) as [A [B C]]. repeat split; auto.
      intros t' id'. destruct (N.eqb_spec t' t); [discriminate | eauto].
    + intros id0 t0. unfold upd. destruct (N.eqb_spec id0 id).
      * subst id0. split.
        -- intros H. inversion H; subst t0. rewrite N.eqb_refl. eauto.
        -- intros [r' [rt' H]]. destruct (N.eqb_spec t0 t); [subst; reflexivity|].
           exfalso. assert (Hl : m_load m id = Some t0) by (apply s_load0; eauto). congruence.
      * split.
        -- intros H. apply s_load0 in H. destruct H as [r' [rt' H]].
           destruct (N.eqb_spec t0 t); [subst; unfold s1 in H; simpl in H; congruence | eauto].
        -- intros [r' [rt' H]]. destruct (N.eqb_spec t0 t); [inversion H; subst; contradiction | apply s_load0; eauto].
    + intros Hx id0 r0 Hd0. destruct (s_cl0 Hx _ _ Hd0) as [t1 Hin]. exists t1. unfold upd.
      destruct (N.eqb_spec t1 t); [subst; simpl in Hin; rewrite Hpc in Hin; contradiction | auto].
Qed.

(* load end, success: the fresh instance n is published *)
Lemma sim_load_ok : forall s m t id r rt e n,
  Inv s -> Sim s m -> threads s t = GInLoad id r rt -> heap s r = Some e -> n = ninst s ->
  exists m', mon_step m (ELoadEnd t id (Some n)) = Some m' /\
             Sim (set_pc (bump_inst (set_entry s r (publish_ok e n))) t (PRet (RVal n))) m'.
Proof.
  intros s m t id r rt e n I S Hpc Hr Hn0.
  assert (Hn : n <= ninst s /\ ninst s <= n) by lia. clear Hn0.
  destruct (call_of _ _ t S) as [c [st [Hc [Hok Hst]]]]; [rewrite Hpc; discriminate|].
  rewrite Hpc in Hok. simpl in Hok. subst c.
  destruct (loader_view s m t r id e I S Hr) as [Hid [Hv [Hd [Hlive Hload]]]]; [rewrite Hpc; reflexivity|].
  assert (Hl : m_load m id = Some t) by (apply (s_load _ _ S); eauto).
  assert (Hin : m_inst m n = None).
  { destruct (m_inst m n) eqn:E; auto. apply (s_fresh _ _ S) in E. lia. }
  assert (Hce : m_cend m n = None).
  { destruct (m_cend m n) eqn:E; auto. destruct (s_cend _ _ S _ _ E) as [i A]. congruence. }
  assert (Hother : forall n0 x, m_inst m n0 = Some x -> (n0 =? n) = false).
  { intros n0 x H. apply N.eqb_neq. intros E. subst n0. congruence. }
  assert (Hval : forall r0 e0, heap s r0 = Some e0 -> e_value e0 <> Some n).
  { intros r0 e0 H0 Hv0. destruct (inst_rel_id _ _ _ _ _ (s_inst _ _ S _ _ _ H0 Hv0)) as [stt A]. congruence. }
  set (m' := mon_mk_create (mon_load m id None) id n).
  exists m'. split.
  - unfold mon_step. simpl. rewrite Hl. rewrite N.eqb_refl.
    apply (mon_create_eq (mon_load m id None) id n); assumption.
  - set (s' := set_pc (bump_inst (set_entry s r (publish_ok e n))) t (PRet (RVal n))).
    assert (X : ext s m s' m').
    { constructor; simpl; auto.
      - intros r0 e0 H0. unfold upd. destruct (N.eqb_spec r0 r).
        + subst r0. rewrite Hr in H0. inversion H0; subst e0. exists (publish_ok e n). repeat split; auto.
          simpl. intros n0 E. inversion E; subst n0. right. exact Hce.
        + exists e0. repeat split; auto.
      - intros n0 id0 stt H. unfold upd. rewrite (Hother _ _ H). eauto. }
    destruct S. constructor; simpl; auto.
    + intros t0. unfold upd at 1 2. destruct (N.eqb_spec t0 t).
      * subst. rewrite Hc. simpl. split; [| lia]. split; [reflexivity|]. split.
        -- unfold upd. rewrite N.eqb_refl. eauto.
        -- intros ce E. congruence.
      * specialize (s_calls0 t0). destruct (m_call m t0) as [[c0 st0]|]; auto.
        destruct s_calls0 as [A B]. split; [| lia]. eapply pc_ok_ext; eauto.
    + intros r0 e0 n0. unfold upd at 1. destruct (N.eqb_spec r0 r); intros H0 Hv0.
      * inversion H0; subst e0. simpl in Hv0. inversion Hv0; subst n0.
        unfold inst_rel. simpl. unfold upd. rewrite N.eqb_refl. rewrite Hid. reflexivity.
      * pose proof (s_inst0 _ _ _ H0 Hv0) as R. destruct (inst_rel_id _ _ _ _ _ R) as [stt A].
        apply (inst_rel_other (bump_inst (set_entry s r (publish_ok e n))) m' t);
          [simpl; rewrite Hpc; reflexivity | reflexivity |].
        eapply inst_rel_eq; [reflexivity | | exact R]. simpl. unfold upd. rewrite (Hother _ _ A). reflexivity.
    + intros r1 e1 r2 e2 n0. unfold upd.
      destruct (N.eqb_spec r1 r); destruct (N.eqb_spec r2 r); intros H1 H2 V1 V2; subst; auto.
      * inversion H1; subst e1. simpl in V1. inversion V1; subst n0. exfalso. eapply Hval; eauto.
      * inversion H2; subst e2. simpl in V2. inversion V2; subst n0. exfalso. eapply Hval; eauto.
      * eauto.
    + intros n0 x. unfold upd. destruct (N.eqb_spec n0 n); [intros _; lia | intros H; apply s_fresh0 in H; lia].
    + intros t0 id0 n0. unfold upd at 1. destruct (N.eqb_spec t0 t); [discriminate|].
      intros H. destruct (s_add0 _ _ _ H) as [A [B C]]. repeat split; [lia | |].
      * unfold upd. destruct (N.eqb_spec n0 n); [lia | auto].
      * intros t' id'. unfold upd. destruct (N.eqb_spec t' t); [discriminate | eauto].
    + intros id0 n0. unfold upd at 1. destruct (N.eqb_spec id0 id).
      * intros H. inversion H; subst n0 id0. exists r, (publish_ok e n). unfold upd. rewrite N.eqb_refl. auto.
      * intros H. destruct (s_live0 _ _ H) as [r0 [e0 [A [B C]]]]. exists r0, e0. unfold upd.
        destruct (N.eqb_spec r0 r); [subst; rewrite Hr in B; inversion B; subst; congruence | auto].
    + intros id0 t0. unfold upd. destruct (N.eqb_spec id0 id).
      * subst id0. split; [discriminate|]. intros [r' [rt' H]].
        destruct (N.eqb_spec t0 t); [discriminate|].
        exfalso. assert (m_load m id = Some t0) by (apply s_load0; eauto). congruence.
      * split.
        -- intros H. apply s_load0 in H. destruct H as [r' [rt' H]].
           destruct (N.eqb_spec t0 t); [subst; congruence | eauto].
        -- intros [r' [rt' H]]. destruct (N.eqb_spec t0 t); [discriminate | apply s_load0; eauto].
    + intros n0 ce H. destruct (s_cend0 _ _ H) as [id0 A]. exists id0. unfold upd. rewrite (Hother _ _ A). auto.
    + intros n0 x. unfold upd at 1. destruct (N.eqb_spec n0 n).
      * intros _. subst. exists r, (publish_ok e n). unfold upd. rewrite N.eqb_refl. auto.
      * intros H. destruct (s_back0 _ _ H) as [r0 [e0 [A B]]]. exists r0, e0. unfold upd.
        destruct (N.eqb_spec r0 r); [subst; rewrite Hr in A; inversion A; subst; congruence | auto].
    + intros n0 [H|H]; unfold upd.
      * subst. rewrite N.eqb_refl. discriminate.
      * destruct (N.eqb_spec n0 n); [discriminate | auto].
    + intros Hx id0 r0 Hd0. destruct (s_cl0 Hx _ _ Hd0) as [t1 Hin1]. exists t1. unfold upd.
      destruct (N.eqb_spec t1 t); [subst; rewrite Hpc in Hin1; contradiction | auto].
Qed.

(* load end, failure: the placeholder leaves the map; the loader retries or reports the error *)
Lemma sim_load_err : forall s m t id r rt e p',
  Inv s -> Sim s m -> threads s t = GInLoad id r rt -> heap s r = Some e ->
  ((exists rt', p' = GLook id rt') \/ p' = PRet RErrLoad) ->
  exists m', mon_step m (ELoadEnd t id None) = Some m' /\
             Sim (set_pc (set_data (set_entry s r (publish_err e)) id None) t p') m'.
Proof.
  intros s m t id r rt e p' I S Hpc Hr Hp'.
  destruct (call_of _ _ t S) as [c [st [Hc [Hok Hst]]]]; [rewrite Hpc; discriminate|].
  rewrite Hpc in Hok. simpl in Hok. subst c.
  destruct (loader_view s m t r id e I S Hr) as [Hid [Hv [Hd [Hlive Hload]]]]; [rewrite Hpc; reflexivity|].
  assert (Hl : m_load m id = Some t) by (apply (s_load _ _ S); eauto).
  assert (Hq : owner p' = None /\ cl_refs p' = [] /\ (forall a b c, p' <> GInLoad a b c) /\ (forall a b, p' <> AddDo a b)).
  { destruct Hp' as [[rt' E]|E]; subst p'; repeat split; intros; discriminate. }
  destruct Hq as [Hq1 [Hq2 [Hq3 Hq4]]].
  set (m' := mon_load m id None).
  exists m'. split.
  - unfold mon_step. simpl. rewrite Hl. rewrite N.eqb_refl. reflexivity.
  - set (s1 := set_data (set_entry s r (publish_err e)) id None).
    assert (X : ext s m s1 m').
    { constructor; simpl; auto.
      - intros r0 e0 H0. unfold upd. destruct (N.eqb_spec r0 r).
        + subst r0. rewrite Hr in H0. inversion H0; subst e0. exists (publish_err e). repeat split; auto.
          simpl. intros n0 E. discriminate.
        + exists e0. repeat split; auto.
      - intros n0 id0 stt H. eauto. }
    destruct S. constructor; simpl; auto.
    + intros t0. unfold upd at 1 2. destruct (N.eqb_spec t0 t).
      * subst. rewrite Hc. split; [| lia].
        destruct Hp' as [[rt' E]|E]; subst p'; simpl; auto.
      * specialize (s_calls0 t0). destruct (m_call m t0) as [[c0 st0]|]; auto.
        destruct s_calls0 as [A B]. split; [| lia].
        eapply pc_ok_same; [| | eapply pc_ok_ext; eauto]; reflexivity.
    + intros r0 e0 n0. unfold upd at 1. destruct (N.eqb_spec r0 r); intros H0 Hv0.
      * inversion H0; subst e0. simpl in Hv0. discriminate.
      * pose proof (s_inst0 _ _ _ H0 Hv0) as R.
        apply (inst_rel_other s1 m' t); [simpl; rewrite Hpc; reflexivity | exact Hq1 |].
        eapply inst_rel_eq; [reflexivity | | exact R]. reflexivity.
    + intros r1 e1 r2 e2 n0. unfold upd.
      destruct (N.eqb_spec r1 r); destruct (N.eqb_spec r2 r); intros H1 H2 V1 V2; subst; auto.
      * inversion H1; subst e1. simpl in V1. discriminate.
      * inversion H2; subst e2. simpl in V2. discriminate.
      * eauto.
    + intros t0 id0 n0. unfold upd at 1. destruct (N.eqb_spec t0 t); [intros H; exfalso; eapply Hq4; eauto|].
      intros H. destruct (s_add0 _ _ _ H) as [A [B C]]. repeat split; auto.
      intros t' id'. unfold upd. destruct (N.eqb_spec t' t); [intros H'; exfalso; eapply Hq4; eauto | eauto].
    + intros id0 n0 H. destruct (s_live0 _ _ H) as [r0 [e0 [A [B C]]]]. exists r0, e0. unfold upd.
      destruct (N.eqb_spec id0 id); [subst; congruence|].
      destruct (N.eqb_spec r0 r); [subst; rewrite Hr in B; inversion B; subst; congruence | auto].
    + intros id0 t0. unfold upd. destruct (N.eqb_spec id0 id).
      * subst id0. split; [discriminate|]. intros [r' [rt' H]].
        destruct (N.eqb_spec t0 t); [exfalso; eapply Hq3; eauto|].
        exfalso. assert (m_load m id = Some t0) by (apply s_load0; eauto). congruence.
      * split.
        -- intros H. apply s_load0 in H. destruct H as [r' [rt' H]].
           destruct (N.eqb_spec t0 t); [subst; congruence | eauto].
        -- intros [r' [rt' H]]. destruct (N.eqb_spec t0 t); [exfalso; eapply Hq3; eauto | apply s_load0; eauto].
    + intros n0 x H. destruct (s_back0 _ _ H) as [r0 [e0 [A B]]]. exists r0, e0. unfold upd.
      destruct (N.eqb_spec r0 r); [subst; rewrite Hr in A; inversion A; subst; congruence | auto].
    + intros Hx id0 r0. unfold upd at 1. destruct (N.eqb_spec id0 id); [discriminate|]. intros Hd0.
      destruct (s_cl0 Hx _ _ Hd0) as [t1 Hin1]. exists t1. unfold upd.
      destruct (N.eqb_spec t1 t); [subst; rewrite Hpc in Hin1; contradiction | auto].
Qed.

Definition mon_stat (m : mon) (n id : N) (st : istat) : mon :=
  mkMon (upd (m_inst m) n (Some (id, st))) (m_live m) (m_load m) (m_call m) (m_cend m) (m_clock m + 1)
        (m_ncalls m) (m_closeret m) (m_all m).

(* an entry modification that keeps id and value *)
Lemma heap_upd_same : forall (s : state) r e e' r0 e0',
  heap s r = Some e -> e_value e' = e_value e -> e_id e' = e_id e ->
  upd (heap s) r (Some e') r0 = Some e0' ->
  exists e0, heap s r0 = Some e0 /\ e_value e0' = e_value e0 /\ e_id e0' = e_id e0 /\
             (r0 <> r -> e0' = e0) /\ (r0 = r -> e0' = e' /\ e0 = e).
Proof.
  intros s r e e' r0 e0' Hr Hv Hid. unfold upd. destruct (N.eqb_spec r0 r); intros H.
  - inversion H; subst. exists e. repeat split; auto; try contradiction.
  - exists e0'. repeat split; auto; try contradiction.
Qed.

(* setClosing succeeds and Close / TryClose of the instance is entered *)
Lemma sim_acquire : forall s m t c st r e n p' ev,
  Inv s -> Sim s m -> heap s r = Some e -> e_state e = SActive -> e_value e = Some n ->
  m_call m t = Some (c, st) -> quiet_pc (threads s t) = true ->
  owner p' = Some (r, n) -> (forall s2 m2, closed s2 = closed s -> pc_ok s2 m2 c st p') ->
  cl_refs p' = cl_refs (threads s t) ->
  ((ev = ECloseEntry t n /\ ostat p' t = IInClose t) \/ (ev = ETryEntry t n /\ ostat p' t = IInTry t)) ->
  exists m', mon_step m ev = Some m' /\ Sim (set_pc (set_entry s r (set_closing e)) t p') m'.
Proof.
  intros s m t c st r e n p' ev I S Hr Hst Hv Hc Hq Hown Hok Hclr Hev.
  pose proof (s_inst _ _ S _ _ _ Hr Hv) as R0. unfold inst_rel in R0. rewrite Hst in R0.
  assert (Hp' : (forall a b c, p' <> GInLoad a b c) /\ (forall a b, p' <> AddDo a b)).
  { split; intros; intros E; subst p'; discriminate. }
  destruct Hp' as [Hq3 Hq4].
  assert (Hother : forall r0 e0 n0, heap s r0 = Some e0 -> e_value e0 = Some n0 -> r0 <> r -> (n0 =? n) = false).
  { intros r0 e0 n0 H0 V0 Hne. apply N.eqb_neq. intros E. subst n0. apply Hne. eapply (s_inj _ _ S); eauto. }
  set (m' := mon_stat m n (e_id e) (ostat p' t)).
  exists m'. split.
  - destruct Hev as [[E1 E2]|[E1 E2]]; subst ev; unfold mon_step; simpl; rewrite R0; unfold m'; rewrite E2; reflexivity.
  - set (s1 := set_entry s r (set_closing e)).
    assert (X : ext s m s1 m').
    { constructor; simpl; auto.
      - intros r0 e0 H0. unfold upd. destruct (N.eqb_spec r0 r).
        + subst r0. rewrite Hr in H0. inversion H0; subst e0. exists (set_closing e). repeat split; auto.
        + exists e0. repeat split; auto.
      - intros n0 id0 stt H. unfold upd. destruct (N.eqb_spec n0 n); [subst; rewrite R0 in H; inversion H; eauto | eauto]. }
    destruct S. constructor; simpl; auto.
    + intros t0. unfold upd at 1 2. destruct (N.eqb_spec t0 t).
      * subst. rewrite Hc. split; [apply Hok; reflexivity | ].
        specialize (s_calls0 t). rewrite Hc in s_calls0. destruct s_calls0. lia.
      * specialize (s_calls0 t0). destruct (m_call m t0) as [[c0 st0]|]; auto.
        destruct s_calls0 as [A B]. split; [| lia].
        eapply pc_ok_same; [| | eapply pc_ok_ext; eauto]; reflexivity.
    + intros r0 e0' n0 H0 Hv0.
      destruct (heap_upd_same s r e (set_closing e) r0 e0' Hr eq_refl eq_refl H0) as [e0 [A [B [C [D1 D2]]]]].
      destruct (N.eq_dec r0 r) as [E|E].
      * destruct (D2 E) as [E1 E2]. subst r0 e0' e0. simpl in Hv0. rewrite Hv in Hv0. inversion Hv0; subst n0.
        unfold inst_rel. simpl. exists t. unfold upd. rewrite !N.eqb_refl. auto.
      * rewrite (D1 E) in *. pose proof (s_inst0 _ _ _ A Hv0) as R. unfold inst_rel in *.
        destruct (e_state e0); auto; simpl; unfold upd; rewrite (Hother _ _ _ A Hv0 E); auto.
        destruct R as [t1 [O1 O2]]. exists t1. destruct (N.eqb_spec t1 t); [| auto].
        subst t1. rewrite (quiet_owner _ Hq) in O1. discriminate.
    + intros r1 e1 r2 e2 n0 H1 H2 V1 V2.
      destruct (heap_upd_same s r e (set_closing e) r1 e1 Hr eq_refl eq_refl H1) as [a [A1 [B1 _]]].
      destruct (heap_upd_same s r e (set_closing e) r2 e2 Hr eq_refl eq_refl H2) as [b [A2 [B2 _]]].
      rewrite B1 in V1. rewrite B2 in V2. eauto.
    + intros n0 x. unfold upd. destruct (N.eqb_spec n0 n); [subst; intros _; eapply s_fresh0; eauto | eauto].
    + intros t0 id0 n0. unfold upd at 1. destruct (N.eqb_spec t0 t); [intros H; exfalso; eapply Hq4; eauto|].
      intros H. destruct (s_add0 _ _ _ H) as [A [B C]]. repeat split; auto.
      * unfold upd. destruct (N.eqb_spec n0 n); [subst; congruence | auto].
      * intros t' id'. unfold upd. destruct (N.eqb_spec t' t); [intros H'; exfalso; eapply Hq4; eauto | eauto].
    + intros id0 n0 H. destruct (s_live0 _ _ H) as [r0 [e0 [A [B C]]]]. exists r0. unfold upd.
      destruct (N.eqb_spec r0 r).
      * subst. rewrite Hr in B. inversion B; subst e0. exists (set_closing e). auto.
      * exists e0. auto.
    + intros id0 t0. unfold upd. split.
      * intros H. apply s_load0 in H. destruct H as [r' [rt' H]].
        destruct (N.eqb_spec t0 t); [subst; rewrite H in Hq; discriminate | eauto].
      * intros [r' [rt' H]]. destruct (N.eqb_spec t0 t); [exfalso; eapply Hq3; eauto | apply s_load0; eauto].
    + intros n0 ce H. destruct (s_cend0 _ _ H) as [id0 A]. exists id0. unfold upd.
      destruct (N.eqb_spec n0 n); [subst; congruence | auto].
    + intros n0 x. unfold upd at 1. intros H.
      assert (Hex : exists x0, m_inst m n0 = Some x0).
      { destruct (N.eqb_spec n0 n); [subst; eauto | eauto]. }
      destruct Hex as [x0 Hx0]. destruct (s_back0 _ _ Hx0) as [r0 [e0 [A B]]]. exists r0. unfold upd.
      destruct (N.eqb_spec r0 r).
      * subst. rewrite Hr in A. inversion A; subst e0. exists (set_closing e). auto.
      * exists e0. auto.
    + intros n0 H. unfold upd. destruct (N.eqb_spec n0 n); [discriminate | auto].
    + intros Hx id0 r0 Hd0. destruct (s_cl0 Hx _ _ Hd0) as [t1 Hin1]. exists t1. unfold upd.
      destruct (N.eqb_spec t1 t); [subst; rewrite Hclr; exact Hin1 | auto].
Qed.

Definition mon_close (m : mon) (n id : N) : mon :=
  mkMon (upd (m_inst m) n (Some (id, IClosed))) (upd (m_live m) id None) (m_load m) (m_call m)
        (upd (m_cend m) n (Some (m_clock m + 1))) (m_clock m + 1) (m_ncalls m) (m_closeret m) (m_all m).

(* what the owner of a closing entry knows *)
Lemma owner_view : forall s m t r n e,
  Inv s -> Sim s m -> heap s r = Some e -> owner (threads s t) = Some (r, n) ->
  e_state e = SClosing /\ e_value e = Some n /\ m_inst m n = Some (e_id e, ostat (threads s t) t) /\
  data s (e_id e) = Some r.
Proof.
  intros s m t r n e I S Hr Hown.
  destruct (i_owner _ I _ _ _ Hown) as [e0 [A [Hst Hv]]]. rewrite Hr in A. inversion A; subst e0.
  pose proof (s_inst _ _ S _ _ _ Hr Hv) as R. unfold inst_rel in R. rewrite Hst in R.
  destruct R as [t1 [O1 O2]]. assert (t1 = t) by (eapply (i_owner1 _ I); eauto). subst t1.
  repeat split; auto. eapply i_present; eauto. right. right. exact Hst.
Qed.

(* Close() returned / TryClose() returned true: entry closed and deleted *)
Lemma sim_release_closed : forall s m t c st r e n p' ev,
  Inv s -> Sim s m -> heap s r = Some e -> owner (threads s t) = Some (r, n) ->
  m_call m t = Some (c, st) ->
  owner p' = None -> (forall a b c0, p' <> GInLoad a b c0) -> (forall a b, p' <> AddDo a b) ->
  (forall s2 m2, closed s2 = closed s -> pc_ok s2 m2 c st p') ->
  (forall x, In x (cl_refs (threads s t)) -> x = r \/ In x (cl_refs p')) ->
  ((ev = ECloseExit t n /\ ostat (threads s t) t = IInClose t) \/
   (ev = ETryExit t n true /\ ostat (threads s t) t = IInTry t)) ->
  exists m', mon_step m ev = Some m' /\
             Sim (set_pc (set_data (set_entry s r (set_state e SClosed)) (e_id e) None) t p') m'.
Proof.
  intros s m t c st r e n p' ev I S Hr Hown Hc Hq1 Hq3 Hq4 Hok Hclr Hev.
  destruct (owner_view _ _ _ _ _ _ I S Hr Hown) as [Hst [Hv [R0 Hd]]].
  assert (Hother : forall r0 e0 n0, heap s r0 = Some e0 -> e_value e0 = Some n0 -> r0 <> r -> (n0 =? n) = false).
  { intros r0 e0 n0 H0 V0 Hne. apply N.eqb_neq. intros E. subst n0. apply Hne. eapply (s_inj _ _ S); eauto. }
  assert (Hnl : forall a b c0, threads s t <> GInLoad a b c0).
  { intros a b c0 E. rewrite E in Hown. discriminate. }
  set (m' := mon_close m n (e_id e)).
  exists m'. split.
  - destruct Hev as [[E1 E2]|[E1 E2]]; subst ev; unfold mon_step; simpl; rewrite R0; rewrite E2;
      rewrite N.eqb_refl; reflexivity.
  - set (e1 := set_state e SClosed).
    set (s1 := set_data (set_entry s r e1) (e_id e) None).
    assert (X : ext s m s1 m').
    { constructor; simpl; auto.
      - intros r0 e0 H0. unfold upd. destruct (N.eqb_spec r0 r).
        + subst r0. rewrite Hr in H0. inversion H0; subst e0. exists e1. repeat split; auto.
        + exists e0. repeat split; auto.
      - intros n0 id0 stt H. unfold upd. destruct (N.eqb_spec n0 n); [subst; rewrite R0 in H; inversion H; eauto | eauto].
      - intros n0 ce. unfold upd. destruct (N.eqb_spec n0 n); intros H; [inversion H; right; lia | auto]. }
    destruct S. constructor; simpl; auto.
    + intros t0. unfold upd at 1 2. destruct (N.eqb_spec t0 t).
      * subst. rewrite Hc. split; [apply Hok; reflexivity | ].
        specialize (s_calls0 t). rewrite Hc in s_calls0. destruct s_calls0. lia.
      * specialize (s_calls0 t0). destruct (m_call m t0) as [[c0 st0]|]; auto.
        destruct s_calls0 as [A B]. split; [| lia].
        eapply pc_ok_same; [| | eapply pc_ok_ext; eauto]; reflexivity.
    + intros r0 e0' n0 H0 Hv0.
      destruct (heap_upd_same s r e e1 r0 e0' Hr eq_refl eq_refl H0) as [e0 [A [B [C [D1 D2]]]]].
      destruct (N.eq_dec r0 r) as [E|E].
      * destruct (D2 E) as [E1 E2]. subst r0 e0' e0. simpl in Hv0. rewrite Hv in Hv0. inversion Hv0; subst n0.
        unfold inst_rel. simpl. unfold upd. rewrite N.eqb_refl. reflexivity.
      * rewrite (D1 E) in *. pose proof (s_inst0 _ _ _ A Hv0) as R. unfold inst_rel in *.
        destruct (e_state e0); auto; simpl; unfold upd; rewrite (Hother _ _ _ A Hv0 E); auto.
        destruct R as [t1 [O1 O2]]. exists t1. destruct (N.eqb_spec t1 t); [| auto].
        subst t1. rewrite Hown in O1. exfalso. apply E. congruence.
    + intros r1 e1' r2 e2 n0 H1 H2 V1 V2.
      destruct (heap_upd_same s r e e1 r1 e1' Hr eq_refl eq_refl H1) as [a [A1 [B1 _]]].
      destruct (heap_upd_same s r e e1 r2 e2 Hr eq_refl eq_refl H2) as [b [A2 [B2 _]]].
      rewrite B1 in V1. rewrite B2 in V2. eauto.
    + intros n0 x. unfold upd. destruct (N.eqb_spec n0 n); [subst; intros _; eapply s_fresh0; eauto | eauto].
    + intros t0 id0 n0. unfold upd at 1. destruct (N.eqb_spec t0 t); [intros H; exfalso; eapply Hq4; eauto|].
      intros H. destruct (s_add0 _ _ _ H) as [A [B C]]. repeat split; auto.
      * unfold upd. destruct (N.eqb_spec n0 n); [subst; congruence | auto].
      * intros t' id'. unfold upd. destruct (N.eqb_spec t' t); [intros H'; exfalso; eapply Hq4; eauto | eauto].
    + intros id0 n0. unfold upd at 1. destruct (N.eqb_spec id0 (e_id e)); [discriminate|]. intros H.
      destruct (s_live0 _ _ H) as [r0 [e0 [A [B C]]]]. exists r0. unfold upd.
      destruct (N.eqb_spec id0 (e_id e)); [contradiction|].
      destruct (N.eqb_spec r0 r).
      * subst. exfalso. destruct (i_data _ I _ _ A) as [e2 [A2 [B2 _]]]. rewrite Hr in A2. inversion A2; subst. contradiction.
      * exists e0. auto.
    + intros id0 t0. unfold upd. split.
      * intros H. apply s_load0 in H. destruct H as [r' [rt' H]].
        destruct (N.eqb_spec t0 t); [subst; exfalso; eapply Hnl; eauto | eauto].
      * intros [r' [rt' H]]. destruct (N.eqb_spec t0 t); [exfalso; eapply Hq3; eauto | apply s_load0; eauto].
    + intros n0 ce. unfold upd. destruct (N.eqb_spec n0 n); [intros _; eauto|].
      intros H. destruct (s_cend0 _ _ H) as [id0 A]. eauto.
    + intros n0 x. unfold upd at 1. intros H.
      assert (Hex : exists x0, m_inst m n0 = Some x0).
      { destruct (N.eqb_spec n0 n); [subst; eauto | eauto]. }
      destruct Hex as [x0 Hx0]. destruct (s_back0 _ _ Hx0) as [r0 [e0 [A B]]]. exists r0. unfold upd.
      destruct (N.eqb_spec r0 r).
      * subst. rewrite Hr in A. inversion A; subst e0. exists e1. auto.
      * exists e0. auto.
    + intros n0 H. unfold upd. destruct (N.eqb_spec n0 n); [discriminate | auto].
    + intros Hx id0 r0. unfold upd at 1. destruct (N.eqb_spec id0 (e_id e)); [discriminate|]. intros Hd0.
      destruct (s_cl0 Hx _ _ Hd0) as [t1 Hin1]. destruct (N.eq_dec t1 t) as [E|E].
      * subst t1. destruct (Hclr _ Hin1) as [E1|E1].
        -- subst r0. exfalso. destruct (i_data _ I _ _ Hd0) as [e2 [A2 [B2 _]]]. rewrite Hr in A2. inversion A2; subst. contradiction.
        -- exists t. unfold upd. rewrite N.eqb_refl. exact E1.
      * exists t1. unfold upd. destruct (N.eqb_spec t1 t); [contradiction | auto].
Qed.

(* TryClose() returned false: the entry goes back to active *)
Lemma sim_release_active : forall s m t c st r e n p',
  Inv s -> Sim s m -> heap s r = Some e -> owner (threads s t) = Some (r, n) ->
  ostat (threads s t) t = IInTry t -> cl_refs (threads s t) = [] ->
  m_call m t = Some (c, st) ->
  owner p' = None -> (forall a b c0, p' <> GInLoad a b c0) -> (forall a b, p' <> AddDo a b) ->
  (forall s2 m2, closed s2 = closed s -> pc_ok s2 m2 c st p') ->
  exists m', mon_step m (ETryExit t n false) = Some m' /\
             Sim (set_pc (set_entry s r (set_state e SActive)) t p') m'.
Proof.
  intros s m t c st r e n p' I S Hr Hown Host Hclr Hc Hq1 Hq3 Hq4 Hok.
  destruct (owner_view _ _ _ _ _ _ I S Hr Hown) as [Hst [Hv [R0 Hd]]].
  assert (Hother : forall r0 e0 n0, heap s r0 = Some e0 -> e_value e0 = Some n0 -> r0 <> r -> (n0 =? n) = false).
  { intros r0 e0 n0 H0 V0 Hne. apply N.eqb_neq. intros E. subst n0. apply Hne. eapply (s_inj _ _ S); eauto. }
  assert (Hnl : forall a b c0, threads s t <> GInLoad a b c0).
  { intros a b c0 E. rewrite E in Hown. discriminate. }
  set (m' := mon_stat m n (e_id e) ILive).
  exists m'. split.
  - unfold mon_step; simpl; rewrite R0; rewrite Host; rewrite N.eqb_refl; reflexivity.
  - set (e1 := set_state e SActive).
    set (s1 := set_entry s r e1).
    assert (X : ext s m s1 m').
    { constructor; simpl; auto.
      - intros r0 e0 H0. unfold upd. destruct (N.eqb_spec r0 r).
        + subst r0. rewrite Hr in H0. inversion H0; subst e0. exists e1. repeat split; auto.
        + exists e0. repeat split; auto.
      - intros n0 id0 stt H. unfold upd. destruct (N.eqb_spec n0 n); [subst; rewrite R0 in H; inversion H; eauto | eauto]. }
    destruct S. constructor; simpl; auto.
    + intros t0. unfold upd at 1 2. destruct (N.eqb_spec t0 t).
      * subst. rewrite Hc. split; [apply Hok; reflexivity | ].
        specialize (s_calls0 t). rewrite Hc in s_calls0. destruct s_calls0. lia.
      * specialize (s_calls0 t0). destruct (m_call m t0) as [[c0 st0]|]; auto.
        destruct s_calls0 as [A B]. split; [| lia].
        eapply pc_ok_same; [| | eapply pc_ok_ext; eauto]; reflexivity.
    + intros r0 e0' n0 H0 Hv0.
      destruct (heap_upd_same s r e e1 r0 e0' Hr eq_refl eq_refl H0) as [e0 [A [B [C [D1 D2]]]]].
      destruct (N.eq_dec r0 r) as [E|E].
      * destruct (D2 E) as [E1 E2]. subst r0 e0' e0. simpl in Hv0. rewrite Hv in Hv0. inversion Hv0; subst n0.
        unfold inst_rel. simpl. unfold upd. rewrite N.eqb_refl. reflexivity.
      * rewrite (D1 E) in *. pose proof (s_inst0 _ _ _ A Hv0) as R. unfold inst_rel in *.
        destruct (e_state e0); auto; simpl; unfold upd; rewrite (Hother _ _ _ A Hv0 E); auto.
        destruct R as [t1 [O1 O2]]. exists t1. destruct (N.eqb_spec t1 t); [| auto].
        subst t1. rewrite Hown in O1. exfalso. apply E. congruence.
    + intros r1 e1' r2 e2 n0 H1 H2 V1 V2.
      destruct (heap_upd_same s r e e1 r1 e1' Hr eq_refl eq_refl H1) as [a [A1 [B1 _]]].
      destruct (heap_upd_same s r e e1 r2 e2 Hr eq_refl eq_refl H2) as [b [A2 [B2 _]]].
      rewrite B1 in V1. rewrite B2 in V2. eauto.
    + intros n0 x. unfold upd. destruct (N.eqb_spec n0 n); [subst; intros _; eapply s_fresh0; eauto | eauto].
    + intros t0 id0 n0. unfold upd at 1. destruct (N.eqb_spec t0 t); [intros H; exfalso; eapply Hq4; eauto|].
      intros H. destruct (s_add0 _ _ _ H) as [A [B C]]. repeat split; auto.
      * unfold upd. destruct (N.eqb_spec n0 n); [subst; congruence | auto].
      * intros t' id'. unfold upd. destruct (N.eqb_spec t' t); [intros H'; exfalso; eapply Hq4; eauto | eauto].
    + intros id0 n0 H. destruct (s_live0 _ _ H) as [r0 [e0 [A [B C]]]]. exists r0. unfold upd.
      destruct (N.eqb_spec r0 r).
      * subst. rewrite Hr in B. inversion B; subst e0. exists e1. auto.
      * exists e0. auto.
    + intros id0 t0. unfold upd. split.
      * intros H. apply s_load0 in H. destruct H as [r' [rt' H]].
        destruct (N.eqb_spec t0 t); [subst; exfalso; eapply Hnl; eauto | eauto].
      * intros [r' [rt' H]]. destruct (N.eqb_spec t0 t); [exfalso; eapply Hq3; eauto | apply s_load0; eauto].
    + intros n0 ce H. destruct (s_cend0 _ _ H) as [id0 A]. exists id0. unfold upd.
      destruct (N.eqb_spec n0 n); [subst; rewrite R0 in A; inversion A; rewrite Host in *; discriminate | auto].
    + intros n0 x. unfold upd at 1. intros H.
      assert (Hex : exists x0, m_inst m n0 = Some x0).
      { destruct (N.eqb_spec n0 n); [subst; eauto | eauto]. }
      destruct Hex as [x0 Hx0]. destruct (s_back0 _ _ Hx0) as [r0 [e0 [A B]]]. exists r0. unfold upd.
      destruct (N.eqb_spec r0 r).
      * subst. rewrite Hr in A. inversion A; subst e0. exists e1. auto.
      * exists e0. auto.
    + intros n0 H. unfold upd. destruct (N.eqb_spec n0 n); [discriminate | auto].
    + intros Hx id0 r0 Hd0. destruct (s_cl0 Hx _ _ Hd0) as [t1 Hin1]. exists t1. unfold upd.
      destruct (N.eqb_spec t1 t); [subst; rewrite Hclr in Hin1; contradiction | auto].
Qed.

(* ------------------------------------------------------------------------------------------------
   The step function preserves the simulation *)

Lemma bound_ok_mapped : forall s m st id r, Inv s -> Sim s m -> data s id = Some r -> bound_ok s m st id r.
Proof.
  intros s m st id r I S Hd. destruct (i_data _ I _ _ Hd) as [e [Hr [Hid [Hnc Hnf]]]].
  exists e. repeat split; auto. intros n ce Hv Hce. exfalso.
  destruct (s_cend _ _ S _ _ Hce) as [id0 A].
  pose proof (s_inst _ _ S _ _ _ Hr Hv) as R. unfold inst_rel in R.
  destruct (e_state e); try contradiction; try congruence.
  destruct R as [t1 [_ B]]. rewrite A in B. inversion B. destruct (threads s t1); discriminate.
Qed.

Lemma In_remove1_or : forall x r l, In x l -> x = r \/ In x (remove1 r l).
Proof.
  induction l as [|y l IH]; simpl; intros H; [contradiction|].
  destruct (N.eqb_spec y r).
  - destruct H as [H|H]; [left; congruence | right; auto].
  - destruct H as [H|H]; [right; left; auto|]. destruct (IH H); [left; auto | right; right; auto].
Qed.

(* the value of a successfully loaded entry, as seen through a binding *)
Lemma bound_ret : forall s m st id r e n,
  Sim s m -> bound_ok s m st id r -> heap s r = Some e -> e_value e = Some n ->
  (exists stt, m_inst m n = Some (id, stt)) /\ (forall ce, m_cend m n = Some ce -> st < ce).
Proof.
  intros s m st id r e n S [e0 [A [B C]]] Hr Hv. rewrite Hr in A. inversion A; subst e0.
  split; [| eauto]. destruct (inst_rel_id _ _ _ _ _ (s_inst _ _ S _ _ _ Hr Hv)) as [stt X].
  exists stt. congruence.
Qed.

Lemma loaded_value : forall s r e, Inv s -> heap s r = Some e -> e_loaddone e = true -> e_failed e = false ->
  e_value e <> None.
Proof.
  intros s r e I Hr Hd Hf. apply shape_nonloading_loaded; [eapply i_shape; eauto|].
  apply shape_loaded_not_loading; [eapply i_shape; eauto | split; auto].
Qed.

Ltac tau_pc S Hc Epc Hok :=
  apply (sim_tau_pc _ _ _ _ _ _ S Hc);
  [ rewrite Epc; reflexivity | reflexivity
  | repeat match goal with
           | H : _ /\ _ |- _ => destruct H
           | H : exists _, _ |- _ => destruct H
           end; subst; simpl; auto
  | rewrite Epc; simpl; intros; try contradiction; auto ].

Lemma step_core_sim : forall s m t a s' ev,
  Inv s -> Sim s m -> step_core fixed s t a = Some (s', ev) ->
  match ev with
  | None => Sim s' m
  | Some e => exists m', mon_step m e = Some m' /\ Sim s' m'
  end.
Proof.
  intros s m t a s' ev I S H. unfold step_core in H.
  destruct (threads s t) eqn:Epc; destruct a; try discriminate H;
  break_step H; inversion H; subst; clear H;
  try (destruct (call_of s m t S) as [c [st [Hc [Hok Hst]]]]; [rewrite Epc; discriminate|];
       rewrite Epc in Hok; simpl in Hok);
  try solve [tau_pc S Hc Epc Hok];
  (* API call start *)
  try (match goal with
       | Hn : (?n =? ninst s) = true |- exists m', mon_step m (ECall t (CAdd ?id ?n)) = Some m' /\ _ =>
           apply N.eqb_eq in Hn;
           exists (mon_call m t (CAdd id n)); split; [apply mon_step_call; eapply idle_no_call; eauto |];
           apply (sim_call (bump_inst s)); [apply sim_bump; exact S | exact Epc | reflexivity | intros; discriminate
                                           | reflexivity | | intros; reflexivity];
           intros id0 n0 E; inversion E; subst id0 n0; simpl; repeat split; [lia | |];
           [ destruct (m_inst m n) eqn:E1; auto; apply (s_fresh _ _ S) in E1; lia
           | intros t' id' E2; destruct (s_add _ _ S _ _ _ E2) as [A _]; lia ]
       | |- exists m', mon_step m (ECall t ?c) = Some m' /\ Sim (set_pc s t ?p0) m' =>
           exists (mon_call m t c); split; [apply mon_step_call; eapply idle_no_call; eauto |];
           apply sim_call; auto; [intros; discriminate | intros ? ? E; discriminate | intros; reflexivity]
       end);
  (* returns *)
  try (match goal with
       | |- exists m', mon_step m (ERet t _) = Some m' /\ Sim (set_pc s t Idle) m' =>
           first [ eapply sim_ret; eassumption | eapply sim_add_fail; [eassumption | eassumption | auto] ]
       | |- exists m', mon_step m (ERet t RNil) = Some m' /\ Sim (set_pc (alloc s _) t Idle) m' =>
           eapply sim_add_ok; eauto;
           match goal with H : (_ && closed s) = false |- _ => simpl in H; exact H end
       end);
  (* Get *)
  try (match goal with
       | Hd : data s ?id = Some ?r |- Sim (set_pc s t (GWaitClose ?id ?r false _)) m =>
           apply (sim_tau_pc _ _ _ _ _ _ S Hc);
           [rewrite Epc; reflexivity | reflexivity
           | simpl; split; [auto | eapply bound_ok_mapped; eauto]
           | rewrite Epc; simpl; intros; contradiction]
       | |- Sim (set_pc (alloc s (new_loading ?id)) t _) m =>
           assert (S1 : Sim (alloc s (new_loading id)) m) by (apply sim_alloc_loading; auto);
           apply (sim_tau_pc _ _ _ _ _ _ S1 Hc);
           [simpl; rewrite Epc; reflexivity | reflexivity
           | simpl; split; [auto | exists (new_loading id); simpl; unfold upd; rewrite N.eqb_refl;
                                   repeat split; auto; intros; discriminate]
           | simpl; rewrite Epc; simpl; intros; contradiction]
       | |- exists m', mon_step m (ELoadStart t _) = Some m' /\ _ => eapply sim_load_start; eauto
       | |- exists m', mon_step m (ELoadEnd t _ (Some _)) = Some m' /\ _ =>
           eapply sim_load_ok; eauto; apply N.eqb_eq; auto
       | |- exists m', mon_step m (ELoadEnd t _ None) = Some m' /\ _ =>
           eapply sim_load_err; eauto; unfold after_failed; destruct (_ && _); [left; eauto | right; reflexivity]
       | |- Sim (set_pc s t (after_failed _ _ _)) m =>
           unfold after_failed; destruct (_ && _); tau_pc S Hc Epc Hok
       end);
  (* values read after a finished load *)
  try (match goal with
       | Hr : heap s ?r = Some ?e, Hv : e_value ?e = Some ?n |- Sim (set_pc s t (PRet (RVal ?n))) m =>
           apply (sim_tau_pc _ _ _ _ _ _ S Hc);
           [rewrite Epc; reflexivity | reflexivity
           | repeat match goal with
                    | H : _ /\ _ |- _ => destruct H
                    | H : exists _, _ |- _ => destruct H
                    end; subst; simpl; split; [reflexivity | eapply bound_ret; eauto]
           | rewrite Epc; simpl; intros; contradiction]
       | Hr : heap s ?r = Some ?e, Hv : e_value ?e = None |- Sim (set_pc s t (PRet RNilNil)) m =>
           exfalso; eapply (loaded_value s r e); eauto
       | Hd : data s ?id = Some ?r |- Sim (set_pc s t (PkWaitLoad ?r)) m =>
           apply (sim_tau_pc _ _ _ _ _ _ S Hc);
           [rewrite Epc; reflexivity | reflexivity
           | simpl; exists id; split; [auto | eapply bound_ok_mapped; eauto]
           | rewrite Epc; simpl; intros; contradiction]
       end);
  (* Close: start, and picking the next entry *)
  try (match goal with
       | |- Sim (set_pc (set_closed_cancel s) t _) m => subst c; eapply sim_close_start; eauto
       | Hm : mem ?r (?n :: ?l) = true |- Sim (set_pc s t (RmWaitLoad ?r (KClose _))) m =>
           apply (sim_tau_pc _ _ _ _ _ _ S Hc);
           [rewrite Epc; reflexivity | reflexivity
           | destruct Hok; subst; simpl; auto
           | rewrite Epc; simpl; intros _ id0 x _ Hx;
             destruct (In_remove1_or x r (n :: l) Hx) as [E|E]; [left; auto | right; exact E]]
       end);
  (* knowledge about the entry being closed *)
  try (match goal with
       | Hr : heap s ?r = Some ?e |- _ =>
           match type of Epc with
           | _ = RmSetClosing r _ => idtac | _ = TrSetClosing r _ => idtac
           end;
           destruct (loaded_facts s t r e I Hr) as [Lk [Hns [Hvn Hnl]]]; [rewrite Epc; simpl; auto|];
           assert (Hact : e_state e = SClosing \/ e_state e = SClosed \/ e_state e = SActive)
             by (destruct (e_state e); auto; congruence)
       end);
  try (match goal with |- Sim (set_pc (set_panic _) _ _) _ => exfalso; congruence end);
  (* leaving removeCtx / the try-close path without closing *)
  try (match goal with
       | Hr : heap s ?r = Some ?e |- Sim (set_pc s t (rk_done ?k ?res)) m =>
           destruct Hok as [Hty Hcl]; destruct k as [|l]; simpl in *;
           apply (sim_tau_pc _ _ _ _ _ _ S Hc);
           [ rewrite Epc; reflexivity | reflexivity
           | simpl; destruct c; simpl in *; try contradiction; auto
           | rewrite Epc; simpl; intros; contradiction
           | rewrite Epc; reflexivity | reflexivity
           | simpl; auto
           | rewrite Epc; simpl; intros _ id0 x Hd [E|E];
             [ subst x; exfalso; destruct (i_data _ I _ _ Hd) as [e2 [A2 [_ [B2 C2]]]];
               rewrite Hr in A2; inversion A2; subst; congruence
             | exact E ] ]
       | |- Sim (set_pc s t (tk_done ?k ?res)) m =>
           destruct k as [|l]; simpl in *;
           apply (sim_tau_pc _ _ _ _ _ _ S Hc);
           [ rewrite Epc; reflexivity | reflexivity
           | simpl; destruct c; simpl in *; try contradiction; auto
           | rewrite Epc; simpl; intros; contradiction
           | rewrite Epc; reflexivity | reflexivity
           | simpl; auto
           | rewrite Epc; simpl; intros; contradiction ]
       end);
  (* setClosing succeeds *)
  try (match goal with
       | Hr : heap s ?r = Some ?e, Hv : e_value ?e = Some ?n
         |- exists m', mon_step m (ECloseEntry t ?n) = Some m' /\ Sim (set_pc _ t ?p') m' =>
           assert (Hact' : e_state e = SActive) by (destruct Hact as [X|[X|X]]; congruence);
           apply (sim_acquire s m t c st r e n p' _ I S Hr Hact' Hv Hc);
           [ rewrite Epc; reflexivity | reflexivity
           | intros s2 m2 Hcl; simpl; destruct Hok as [A B]; split; [exact A | destruct k; simpl in *; congruence]
           | rewrite Epc; reflexivity
           | left; split; reflexivity ]
       | Hr : heap s ?r = Some ?e, Hv : e_value ?e = Some ?n
         |- exists m', mon_step m (ETryEntry t ?n) = Some m' /\ Sim (set_pc _ t ?p') m' =>
           assert (Hact' : e_state e = SActive) by (destruct Hact as [X|[X|X]]; congruence);
           apply (sim_acquire s m t c st r e n p' _ I S Hr Hact' Hv Hc);
           [ rewrite Epc; reflexivity | reflexivity
           | intros s2 m2 Hcl; simpl; exact Hok
           | rewrite Epc; reflexivity
           | right; split; reflexivity ]
       end);
  (* the closer is done *)
  try (match goal with
       | Hr : heap s ?r = Some ?e
         |- exists m', mon_step m (ECloseExit t ?n) = Some m' /\ Sim (set_pc _ t (rk_done ?k _)) m' =>
           destruct Hok as [Hty Hcl]; destruct k as [|l]; simpl rk_done;
           apply (sim_release_closed s m t c st r e n _ _ I S Hr);
           [ rewrite Epc; reflexivity | exact Hc | reflexivity | intros; discriminate | intros; discriminate
           | intros; simpl; destruct c; simpl in *; try contradiction; auto
           | rewrite Epc; simpl; intros; contradiction
           | left; split; [reflexivity | rewrite Epc; reflexivity]
           | rewrite Epc; reflexivity | exact Hc | reflexivity | intros; discriminate | intros; discriminate
           | intros s2 m2 E; simpl in *; split; [auto | congruence]
           | rewrite Epc; simpl; intros x [E|E]; [left; auto | right; exact E]
           | left; split; [reflexivity | rewrite Epc; reflexivity] ]
       | Hr : heap s ?r = Some ?e
         |- exists m', mon_step m (ETryExit t ?n true) = Some m' /\ Sim (set_pc _ t (tk_done ?k _)) m' =>
           destruct k as [|l]; simpl tk_done;
           apply (sim_release_closed s m t c st r e n _ _ I S Hr);
           [ rewrite Epc; reflexivity | exact Hc | reflexivity | intros; discriminate | intros; discriminate
           | intros; simpl; destruct c; simpl in *; try contradiction; auto
           | rewrite Epc; simpl; intros; contradiction
           | right; split; [reflexivity | rewrite Epc; reflexivity]
           | rewrite Epc; reflexivity | exact Hc | reflexivity | intros; discriminate | intros; discriminate
           | intros s2 m2 E; simpl in *; auto
           | rewrite Epc; simpl; intros; contradiction
           | right; split; [reflexivity | rewrite Epc; reflexivity] ]
       | Hr : heap s ?r = Some ?e
         |- exists m', mon_step m (ETryExit t ?n false) = Some m' /\ Sim (set_pc _ t (tk_done ?k _)) m' =>
           destruct k as [|l]; simpl tk_done;
           apply (sim_release_active s m t c st r e n _ I S Hr);
           [ rewrite Epc; reflexivity | rewrite Epc; reflexivity | rewrite Epc; reflexivity | exact Hc
           | reflexivity | intros; discriminate | intros; discriminate
           | intros; simpl; destruct c; simpl in *; try contradiction; auto
           | rewrite Epc; reflexivity | rewrite Epc; reflexivity | rewrite Epc; reflexivity | exact Hc
           | reflexivity | intros; discriminate | intros; discriminate
           | intros s2 m2 E; simpl in *; auto ]
       end).
Qed.

(* ------------------------------------------------------------------------------------------------
   Every trace of the model is accepted by the monitor, and the final check holds *)

Lemma mon_run_app : forall l1 l2 m,
  mon_run m (l1 ++ l2) = match mon_run m l1 with Some m1 => mon_run m1 l2 | None => None end.
Proof.
  induction l1 as [|e l1 IH]; simpl; intros l2 m; auto.
  destruct (mon_step m e); auto.
Qed.

Definition Good (s : state) : Prop :=
  Inv s /\ exists m, mon_run mon0 (obs s) = Some m /\ Sim s m.

Lemma good_init : Good init.
Proof. split; [apply init_inv | exists mon0; split; [reflexivity | apply sim_init]]. Qed.

Lemma sim_emit : forall s m e, Sim s m -> Sim (emit s e) m.
Proof. intros s m e S. destruct S. constructor; auto. Qed.

Lemma step_good : forall s l s', Good s -> step fixed s l = Some s' -> Good s'.
Proof.
  intros s l s' [I [m [Hm S]]] H. split; [eapply step_inv; eauto|].
  unfold step in H. destruct (step_core fixed s (fst l) (snd l)) as [[s1 [e|]]|] eqn:E; inversion H; subst.
  - pose proof (step_core_sim _ _ _ _ _ _ I S E) as X. simpl in X. destruct X as [m' [A B]].
    exists m'. split; [| apply sim_emit; exact B].
    unfold obs. simpl. rewrite mon_run_app. unfold obs in Hm.
    assert (T : trace s1 = trace s).
    { clear -E. unfold step_core in E.
      destruct (threads s (fst l)); destruct (snd l); try discriminate E;
      break_step E; inversion E; subst; reflexivity. }
    rewrite T, Hm. simpl. rewrite A. reflexivity.
  - pose proof (step_core_sim _ _ _ _ _ _ I S E) as X. simpl in X.
    exists m. split; auto.
    assert (T : trace s' = trace s).
    { clear -E. unfold step_core in E.
      destruct (threads s (fst l)); destruct (snd l); try discriminate E;
      break_step E; inversion E; subst; reflexivity. }
    unfold obs. rewrite T. exact Hm.
Qed.

Lemma run_good : forall ls s s', Good s -> run fixed s ls = Some s' -> Good s'.
Proof.
  induction ls as [|l ls IH]; simpl; intros s s' G H.
  - inversion H; subst; auto.
  - destruct (step fixed s l) eqn:E; [|discriminate]. eapply IH; [eapply step_good; eauto | eauto].
Qed.

Lemma sim_final : forall s m, Inv s -> Sim s m -> final_ok m = true.
Proof.
  intros s m I S. unfold final_ok.
  destruct (m_closeret m) eqn:Hc; simpl; auto.
  destruct (N.eqb_spec (m_ncalls m) 0) as [Hn|Hn]; auto.
  apply forallb_forall. intros n Hin.
  assert (Hidle : forall t, threads s t = Idle).
  { intros t. destruct (s_count _ _ S) as [L [ND [HL HN]]].
    rewrite Hn in HN. destruct L as [|x L]; [| simpl in HN; lia].
    pose proof (s_calls _ _ S t) as X. destruct (m_call m t) eqn:E; auto.
    exfalso. apply (HL t). rewrite E. discriminate. }
  pose proof (s_all _ _ S _ Hin) as Hne. destruct (m_inst m n) as [[id stt]|] eqn:E; [| congruence].
  destruct (s_back _ _ S _ _ E) as [r [e [Hr Hv]]].
  pose proof (s_inst _ _ S _ _ _ Hr Hv) as R. unfold inst_rel in R. unfold inst_closed.
  destruct (e_state e) eqn:Es; try contradiction.
  - exfalso. assert (Hd : data s (e_id e) = Some r) by (eapply i_present; eauto; right; left; exact Es).
    destruct (s_cl _ _ S (s_closed _ _ S Hc) _ _ Hd) as [t Ht]. rewrite Hidle in Ht. contradiction.
  - exfalso. destruct R as [t [O _]]. rewrite Hidle in O. discriminate.
  - rewrite E in R. inversion R; subst. rewrite E. reflexivity.
Qed.

Theorem model_satisfies_spec : forall ls s, run fixed init ls = Some s -> spec_C16 (obs s) = true.
Proof.
  intros ls s H. destruct (run_good _ _ _ good_init H) as [I [m [Hm S]]].
  unfold spec_C16. rewrite Hm. eapply sim_final; eauto.
Qed.

Theorem model_monitor : forall ls s, run fixed init ls = Some s ->
  exists m, mon_run mon0 (obs s) = Some m /\ Sim s m /\ Inv s.
Proof. intros ls s H. destruct (run_good _ _ _ good_init H) as [I [m [Hm S]]]. eauto. Qed.
