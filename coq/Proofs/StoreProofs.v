(* Proofs for property C10, part 1: the transaction bracket (P1, P2), crash atomicity (P3) and
   realignment of the live objects after an injected error (P4).  Model: Model/Store.v. *)
From AnySync Require Import Model.Store.
From Coq Require Import List NArith Bool Arith Lia ZifyBool ZifyNat ZifyN.
Import ListNotations.
Open Scope N_scope.

(* ------------------------------------------------------------------ P1: the bracket *)

Lemma exec_step_inv : forall d s c r s',
  length (open s) = S d -> closes_at_end d (c :: r) = true -> exec s c = Some s' ->
  r = [] \/ (committed s' = committed s /\ exists d', length (open s') = S d' /\ closes_at_end d' r = true).
Proof.
  intros d s c r s' Hlen Hcl He.
  destruct c as [| | |k docs|id h sn dl|tree]; cbn in Hcl, He.
  - right. inversion He; subst s'; clear He. cbn. split; [reflexivity|].
    exists (S d). split; [now rewrite Hlen | exact Hcl].
  - destruct d as [|d].
    + destruct r as [|c' r']; [now left | discriminate Hcl].
    + right. destruct (open s) as [|t [|t2 r2]] eqn:Ho; cbn in Hlen; try discriminate.
      inversion He; subst s'; clear He. cbn. split; [reflexivity|].
      exists d. split; [lia | exact Hcl].
  - destruct d as [|d]; [discriminate Hcl|].
    right. destruct (open s) as [|t r2] eqn:Ho; cbn in Hlen; try discriminate.
    inversion He; subst s'; clear He. cbn. split; [reflexivity|].
    exists d. split; [lia | exact Hcl].
  - right. destruct (ins_all (view s) k docs) as [t|]; [|discriminate].
    inversion He; subst s'; clear He. unfold set_view.
    destruct (open s) as [|t0 r0] eqn:Ho; cbn in Hlen; try discriminate. cbn.
    split; [reflexivity|]. exists d. split; [lia | exact Hcl].
  - right. inversion He; subst s'; clear He. unfold set_view.
    destruct (open s) as [|t0 r0] eqn:Ho; cbn in Hlen; try discriminate. cbn.
    split; [reflexivity|]. exists d. split; [lia | exact Hcl].
  - right. inversion He; subst s'; clear He. unfold set_view.
    destruct (open s) as [|t0 r0] eqn:Ho; cbn in Hlen; try discriminate. cbn.
    split; [reflexivity|]. exists d. split; [lia | exact Hcl].
Qed.

Lemma prefix_committed : forall l d s k,
  length (open s) = S d -> closes_at_end d l = true -> (k < length l)%nat ->
  committed (fst (exec_all s (firstn k l))) = committed s.
Proof.
  induction l as [|c r IH]; intros d s k Hlen Hcl Hk.
  - cbn in Hk. lia.
  - destruct k as [|k]; [reflexivity|].
    cbn [firstn exec_all]. destruct (exec s c) as [s'|] eqn:He; [|reflexivity].
    destruct (exec_step_inv _ _ _ _ _ Hlen Hcl He) as [Hr | [Hc [d' [Hl' Hcl']]]].
    + subst r. cbn in Hk. lia.
    + rewrite <- Hc. apply IH with d'; auto. cbn in Hk. lia.
Qed.

(* a call of the bracket returned an error: nothing was committed *)
Lemma failed_committed : forall l d s,
  length (open s) = S d -> closes_at_end d l = true -> snd (exec_all s l) = false ->
  committed (fst (exec_all s l)) = committed s.
Proof.
  induction l as [|c r IH]; intros d s Hlen Hcl Hf.
  - reflexivity.
  - cbn [exec_all] in *. destruct (exec s c) as [s'|] eqn:He; [|reflexivity].
    destruct (exec_step_inv _ _ _ _ _ Hlen Hcl He) as [Hr | [Hc [d' [Hl' Hcl']]]].
    + subst r. cbn in Hf. discriminate.
    + rewrite <- Hc. apply IH with d'; auto.
Qed.

Lemma one_tx_crash_pre : forall t l k,
  one_tx l = true -> (k < length l)%nat -> ref_disk t (firstn k l) = t.
Proof.
  intros t l k Hone Hk. unfold ref_disk.
  destruct l as [|c r]; [cbn in Hk; lia|].
  destruct k as [|k]; [reflexivity|].
  destruct c as [| | |kk docs|id h sn dl|tree]; cbn in Hone;
    try (destruct r as [|c2 r2]; [cbn in Hk; lia | discriminate Hone]).
  cbn [firstn exec_all exec]. cbn in Hk.
  change t with (committed (mkStore (committed (fresh t)) (view (fresh t) :: open (fresh t)))) at 2.
  apply prefix_committed with O; [reflexivity | exact Hone | lia].
Qed.

Lemma one_tx_failed_pre : forall t l,
  one_tx l = true -> snd (exec_all (fresh t) l) = false -> committed (fst (exec_all (fresh t) l)) = t.
Proof.
  intros t l Hone Hf.
  destruct l as [|c r]; [reflexivity|].
  destruct c as [| | |kk docs|id h sn dl|tree]; cbn in Hone;
    try (destruct r as [|c2 r2]; [|discriminate Hone]).
  - cbn [exec_all exec] in *.
    change t with (committed (mkStore (committed (fresh t)) (view (fresh t) :: open (fresh t)))) at 2.
    apply failed_committed with O; [reflexivity | exact Hone | exact Hf].
  - discriminate Hone.
  - discriminate Hone.
  - cbn [exec_all] in *. destruct (exec (fresh t) (CInsert kk docs)) as [s'|]; [discriminate Hf | reflexivity].
  - cbn in Hf. discriminate Hf.
  - cbn in Hf. discriminate Hf.
Qed.

(* ------------------------------------------------------------------ P2: every operation is one transaction *)

Lemma closes_map_insert : forall tree d batch rest,
  closes_at_end d (map (fun c => CInsert KChanges [chg_doc tree c]) batch ++ rest) = closes_at_end d rest.
Proof.
  intros tree d batch rest. induction batch as [|c r IH]; [reflexivity|].
  cbn [map app closes_at_end]. exact IH.
Qed.

Lemma one_tx_tree_add : forall tl tree batch heads snap,
  one_tx (tree_add_calls tl tree batch heads snap) = true.
Proof.
  intros tl tree batch heads snap. unfold tree_add_calls, add_all_calls, create_calls.
  destruct (tl_defer tl) as [ord|].
  - cbn [app one_tx closes_at_end]. rewrite <- app_assoc. rewrite closes_map_insert. reflexivity.
  - cbn [app one_tx closes_at_end]. rewrite closes_map_insert. reflexivity.
Qed.

Lemma script_one_tx : forall w o, one_tx (script w o) = true.
Proof.
  intros w o. unfold script, prep.
  destruct o as [space acl settings ord|root ord|root ord|tree id ord is_snap|tree batch heads snap|id|tree status|tree].
  - reflexivity.
  - reflexivity.
  - destruct (get (w_store w) KChanges root); reflexivity.
  - destruct (tget (w_trees w) tree) as [tl|]; [apply one_tx_tree_add | reflexivity].
  - destruct (tget (w_trees w) tree) as [tl|]; [apply one_tx_tree_add | reflexivity].
  - destruct (existsb (N.eqb id) (w_acl w)); reflexivity.
  - reflexivity.
  - destruct (tget (w_trees w) tree) as [tl|]; reflexivity.
Qed.

(* ------------------------------------------------------------------ P3: crash atomicity *)

Lemma firstn_ge_all : forall (A : Type) (l : list A) k, (length l <= k)%nat -> firstn k l = l.
Proof. intros A l k Hk. apply firstn_all2. exact Hk. Qed.

Theorem crash_pre_or_post : forall w o k,
  crash w o k = w_store w \/ (crash w o k = post w o /\ (length (script w o) <= k)%nat).
Proof.
  intros w o k. unfold crash.
  destruct (Nat.lt_ge_cases k (length (script w o))) as [Hlt|Hge].
  - left. apply one_tx_crash_pre; [apply script_one_tx | exact Hlt].
  - rewrite (firstn_ge_all _ _ _ Hge). pose proof (script_one_tx w o) as Hone.
    unfold post, run, ref_disk. unfold script in *.
    destruct (prep w o) as [[l [trees' acl']]|]; [|left; reflexivity].
    destruct (exec_all (fresh (w_store w)) l) as [s ok] eqn:He.
    destruct ok.
    + right. split; [reflexivity | exact Hge].
    + left. pose proof (one_tx_failed_pre (w_store w) l Hone) as Hf.
      rewrite He in Hf. cbn in Hf. cbn. apply Hf. reflexivity.
Qed.

(* when a call of the fault-free run itself fails, nothing changes either *)
Lemma run_failed_store : forall w o, snd (run w o) = false -> w_store (fst (run w o)) = w_store w.
Proof.
  intros w o Hf. unfold run in *.
  destruct (prep w o) as [[l [trees' acl']]|]; [|reflexivity].
  destruct (exec_all (fresh (w_store w)) l) as [s ok].
  destruct ok; [discriminate Hf|]. destruct (recover w o) as [tr ac]. reflexivity.
Qed.

Theorem fault_durable : forall w o k,
  (1 <= k <= length (script w o))%nat -> w_store (fst (fault w o k)) = w_store w.
Proof.
  intros w o k Hk. pose proof (script_one_tx w o) as Hone.
  unfold fault. unfold script in *.
  destruct (prep w o) as [[l [trees' acl']]|]; [|reflexivity].
  destruct (recover w o) as [tr ac]. cbn [fst w_store].
  apply (one_tx_crash_pre (w_store w) l (pred k) Hone). lia.
Qed.

(* ------------------------------------------------------------------ P4: realignment *)

Lemma list_N_eqb_eq : forall a b, list_N_eqb a b = true -> a = b.
Proof.
  unfold list_N_eqb. induction a as [|x a IH]; intros b Hab; destruct b as [|y b]; cbn in Hab; try discriminate.
  - reflexivity.
  - apply andb_prop in Hab. destruct Hab as [Hlen Hall].
    apply andb_prop in Hall. destruct Hall as [Hxy Hall].
    apply N.eqb_eq in Hxy. subst y. f_equal. apply IH. now rewrite Hlen, Hall.
Qed.

Lemma list_N_eqb_refl : forall a, list_N_eqb a a = true.
Proof.
  unfold list_N_eqb. induction a as [|x a IH]; [reflexivity|].
  cbn. rewrite N.eqb_refl. cbn. exact IH.
Qed.

Lemma tget_In : forall l id x, tget l id = Some x -> In (id, x) l.
Proof.
  induction l as [|[i y] r IH]; intros id x Hg; cbn in Hg; [discriminate|].
  destruct (i =? id) eqn:Hi.
  - apply N.eqb_eq in Hi. inversion Hg; subst. now left.
  - right. apply IH. exact Hg.
Qed.

Lemma tput_same : forall l id x, tget l id = Some x -> tput l id x = l.
Proof.
  induction l as [|[i y] r IH]; intros id x Hg; cbn in Hg; [discriminate|].
  cbn. destruct (i =? id) eqn:Hi.
  - inversion Hg; subst. reflexivity.
  - f_equal. apply IH. exact Hg.
Qed.

Lemma consistent_tree : forall w tree tl,
  consistent w = true -> tget (w_trees w) tree = Some tl -> tree_consistent (w_store w) (tree, tl) = true.
Proof.
  intros w tree tl Hc Hg. unfold consistent in Hc. apply andb_prop in Hc. destruct Hc as [Hall _].
  rewrite forallb_forall in Hall. apply Hall. apply tget_In. exact Hg.
Qed.

Lemma recover_consistent : forall w o, consistent w = true -> recover w o = (w_trees w, w_acl w).
Proof.
  intros w o Hc.
  assert (Hadd : forall tree,
    match tget (w_trees w) tree with
    | Some tl =>
        match tl_defer tl with
        | Some ord => (tput (w_trees w) tree (mkTL [tree] tree (Some ord)), w_acl w)
        | None => match rebuild_tree (w_store w) tree with
                  | Some tl' => (tput (w_trees w) tree tl', w_acl w)
                  | None => (w_trees w, w_acl w)
                  end
        end
    | None => (w_trees w, w_acl w)
    end = (w_trees w, w_acl w)).
  { intros tree. destruct (tget (w_trees w) tree) as [tl|] eqn:Hg; [|reflexivity].
    pose proof (consistent_tree w tree tl Hc Hg) as Ht. unfold tree_consistent in Ht.
    destruct tl as [hs rt df]. cbn [tl_defer tl_heads tl_root] in *.
    destruct df as [ord|].
    - apply andb_prop in Ht. destruct Ht as [Ht Hr]. apply andb_prop in Ht. destruct Ht as [_ Hh].
      apply list_N_eqb_eq in Hh. apply N.eqb_eq in Hr. subst hs rt.
      rewrite (tput_same _ _ _ Hg). reflexivity.
    - unfold rebuild_tree. destruct (get (w_store w) KHeads tree) as [[a s|h s dl|a b c0 d0|a b]|]; try discriminate Ht.
      apply andb_prop in Ht. destruct Ht as [Hh Hr].
      apply list_N_eqb_eq in Hh. apply N.eqb_eq in Hr. subst h s.
      destruct (get (w_store w) KChanges tree); [|reflexivity].
      rewrite (tput_same _ _ _ Hg). reflexivity. }
  destruct o; cbn [recover]; try reflexivity; apply Hadd.
Qed.

Theorem fault_realigned : forall w o k,
  consistent w = true -> (1 <= k <= length (script w o))%nat -> fst (fault w o k) = w.
Proof.
  intros w o k Hc Hk. pose proof (fault_durable w o k Hk) as Hd.
  unfold fault in *. destruct (prep w o) as [[l [trees' acl']]|]; [|reflexivity].
  rewrite (recover_consistent w o Hc) in *. cbn [fst w_store] in *. rewrite Hd.
  destruct w; reflexivity.
Qed.

Corollary fault_retry : forall w o k,
  consistent w = true -> (1 <= k <= length (script w o))%nat -> run (fst (fault w o k)) o = run w o.
Proof. intros w o k Hc Hk. rewrite (fault_realigned w o k Hc Hk). reflexivity. Qed.

(* ================================================================== generic table lemmas (base for P5-P7) *)

Lemma coll_eqb_eq : forall a b, coll_eqb a b = true -> a = b.
Proof. intros a b H; destruct a, b; cbn in H; try discriminate; reflexivity. Qed.

Lemma coll_eqb_refl : forall a, coll_eqb a a = true.
Proof. destruct a; reflexivity. Qed.

Lemma coll_eqb_sym : forall a b, coll_eqb a b = coll_eqb b a.
Proof. destruct a, b; reflexivity. Qed.

Lemma key_eqb_eq : forall c id c' id' d, key_eqb c id (c', id', d) = true -> c = c' /\ id = id'.
Proof.
  intros c id c' id' d H. cbn in H. apply andb_prop in H. destruct H as [Hc Hi].
  apply coll_eqb_eq in Hc. apply N.eqb_eq in Hi. auto.
Qed.

Lemma key_eqb_refl : forall c id d, key_eqb c id (c, id, d) = true.
Proof. intros c id d. cbn. now rewrite coll_eqb_refl, N.eqb_refl. Qed.

Lemma key_eqb_sym : forall c id c' id' d d', key_eqb c id (c', id', d) = key_eqb c' id' (c, id, d').
Proof. intros c id c' id' d d'. cbn. now rewrite coll_eqb_sym, N.eqb_sym. Qed.

Lemma get_app : forall a b c id,
  get (a ++ b) c id = match get a c id with Some d => Some d | None => get b c id end.
Proof.
  induction a as [|e a IH]; intros b c id; [reflexivity|].
  cbn. destruct (key_eqb c id e); [reflexivity | apply IH].
Qed.

Lemma get_In : forall t c id d, get t c id = Some d -> In (c, id, d) t.
Proof.
  induction t as [|[[c' id'] d'] r IH]; intros c id d Hg; [discriminate|].
  cbn [get] in Hg. destruct (key_eqb c id (c', id', d')) eqn:Hk.
  - apply key_eqb_eq in Hk. destruct Hk; subst. cbn in Hg. inversion Hg; subst. now left.
  - right. now apply IH.
Qed.

Lemma get_None_key : forall t c id e, get t c id = None -> In e t -> key_eqb c id e = false.
Proof.
  induction t as [|e0 r IH]; intros c id e Hg Hin; [destruct Hin|].
  cbn [get] in Hg. destruct (key_eqb c id e0) eqn:Hk; [discriminate|].
  destruct Hin as [He|Hin]; [now subst | now apply IH].
Qed.

Lemma In_get_uniq : forall t c id d, uniq t = true -> In (c, id, d) t -> get t c id = Some d.
Proof.
  induction t as [|e r IH]; intros c id d Hu Hin; [destruct Hin|].
  cbn [uniq] in Hu. apply andb_prop in Hu. destruct Hu as [Hh Hu].
  destruct Hin as [He|Hin].
  - subst e. cbn [get]. now rewrite key_eqb_refl.
  - cbn [get]. destruct (key_eqb c id e) eqn:Hk.
    + destruct e as [[c' id'] d']. apply key_eqb_eq in Hk. destruct Hk; subst c' id'. cbn [fst snd] in Hh.
      rewrite (IH _ _ _ Hu Hin) in Hh. discriminate.
    + now apply IH.
Qed.

Lemma get_put_same : forall t c id d, get (put t c id d) c id = Some d.
Proof.
  induction t as [|e r IH]; intros c id d; cbn [put get].
  - now rewrite key_eqb_refl.
  - destruct (key_eqb c id e) eqn:Hk; cbn [get].
    + now rewrite key_eqb_refl.
    + rewrite Hk. apply IH.
Qed.

Lemma get_put_other : forall t c id d c' id',
  coll_eqb c' c && (id' =? id) = false -> get (put t c id d) c' id' = get t c' id'.
Proof.
  induction t as [|e r IH]; intros c id d c' id' Hne; cbn [put get].
  - unfold key_eqb. now rewrite Hne.
  - destruct (key_eqb c id e) eqn:Hk; cbn [get].
    + destruct e as [[c0 id0] d0]. apply key_eqb_eq in Hk. destruct Hk; subst c0 id0.
      unfold key_eqb. now rewrite Hne.
    + destruct (key_eqb c' id' e); [reflexivity | now apply IH].
Qed.

Lemma put_None : forall t c id d, get t c id = None -> put t c id d = t ++ [(c, id, d)].
Proof.
  induction t as [|e r IH]; intros c id d Hg; [reflexivity|].
  cbn [get] in Hg. cbn [put app]. destruct (key_eqb c id e); [discriminate|].
  f_equal. now apply IH.
Qed.

Lemma In_put : forall t c id d e, In e (put t c id d) -> e = (c, id, d) \/ In e t.
Proof.
  induction t as [|e0 r IH]; intros c id d e Hin; cbn [put] in Hin.
  - destruct Hin as [He|[]]; now left.
  - destruct (key_eqb c id e0).
    + destruct Hin as [He|Hin]; [now left | right; now right].
    + destruct Hin as [He|Hin]; [right; now left|].
      destruct (IH _ _ _ _ Hin) as [H1|H1]; [now left | right; now right].
Qed.

Lemma In_put_uniq : forall t c id d e, uniq t = true -> In e (put t c id d) ->
  e = (c, id, d) \/ (In e t /\ key_eqb c id e = false).
Proof.
  induction t as [|e0 r IH]; intros c id d e Hu Hin; cbn [put] in Hin.
  - destruct Hin as [He|[]]; now left.
  - cbn [uniq] in Hu. apply andb_prop in Hu. destruct Hu as [Hh Hu].
    destruct (key_eqb c id e0) eqn:Hk.
    + destruct Hin as [He|Hin]; [now left|]. right. split; [now right|].
      destruct e0 as [[c0 id0] d0]. apply key_eqb_eq in Hk. destruct Hk; subst c0 id0. cbn [fst snd] in Hh.
      destruct (get r c id) eqn:Hg; [discriminate|]. now apply (get_None_key r).
    + destruct Hin as [He|Hin]; [subst e0; right; split; [now left | exact Hk]|].
      destruct (IH _ _ _ _ Hu Hin) as [H1|[H1 H2]]; [now left | right; split; [now right | exact H2]].
Qed.

Lemma uniq_put : forall t c id d, uniq t = true -> uniq (put t c id d) = true.
Proof.
  induction t as [|e r IH]; intros c id d Hu; [reflexivity|].
  cbn [uniq] in Hu. apply andb_prop in Hu. destruct Hu as [Hh Hu].
  cbn [put]. destruct (key_eqb c id e) eqn:Hk.
  - destruct e as [[c0 id0] d0]. apply key_eqb_eq in Hk. destruct Hk; subst c0 id0.
    cbn [uniq fst snd] in *. now rewrite Hu, andb_true_r.
  - cbn [uniq]. rewrite (IH _ _ _ Hu), andb_true_r.
    destruct e as [[c0 id0] d0]. cbn [fst snd] in *. rewrite get_put_other; [exact Hh|].
    rewrite (key_eqb_sym c id c0 id0 d0 d) in Hk. exact Hk.
Qed.

Lemma uniq_app1 : forall t c id d, uniq t = true -> get t c id = None -> uniq (t ++ [(c, id, d)]) = true.
Proof.
  intros t c id d Hu Hg. rewrite <- (put_None _ _ _ d Hg). now apply uniq_put.
Qed.

(* ------------------------------------------------------------------ acl_id *)

Definition nostate (l : table) : bool := forallb (fun e => negb (coll_eqb (fst (fst e)) KState)) l.

Lemma acl_id_nostate : forall l, nostate l = true -> acl_id l = 0.
Proof.
  induction l as [|[[c i] d] r IH]; intros Hn; [reflexivity|].
  cbn in Hn. apply andb_prop in Hn. destruct Hn as [Hc Hn].
  destruct c; cbn in Hc; try discriminate; cbn [acl_id]; now apply IH.
Qed.

Lemma acl_id_app : forall a b, nostate b = true -> acl_id (a ++ b) = acl_id a.
Proof.
  induction a as [|[[c i] d] r IH]; intros b Hn; [now apply acl_id_nostate|].
  destruct c; destruct d; cbn [app acl_id]; try reflexivity; now apply IH.
Qed.

Lemma acl_id_put : forall t c id d, coll_eqb c KState = false -> acl_id (put t c id d) = acl_id t.
Proof.
  induction t as [|[[c0 i0] d0] r IH]; intros c id d Hc.
  - destruct c; cbn in Hc; try discriminate; reflexivity.
  - cbn [put]. destruct (key_eqb c id (c0, i0, d0)) eqn:Hk.
    + apply key_eqb_eq in Hk. destruct Hk; subst c0 i0.
      destruct c; cbn in Hc; try discriminate; reflexivity.
    + destruct c0; destruct d0; cbn [acl_id]; try reflexivity; now apply IH.
Qed.

(* ------------------------------------------------------------------ extension of a table *)

Definition ext (t t' : table) : Prop :=
  (forall x d, get t KChanges x = Some d -> get t' KChanges x = Some d) /\
  (forall x d, get t KAcl x = Some d -> get t' KAcl x = Some d) /\
  (forall id, has_heads t id = true -> has_heads t' id = true) /\
  acl_id t' = acl_id t.

Lemma ext_refl : forall t, ext t t.
Proof. intros t. repeat split; auto. Qed.

Lemma ext_trans : forall a b c, ext a b -> ext b c -> ext a c.
Proof.
  intros a b c [H1 [H2 [H3 H4]]] [G1 [G2 [G3 G4]]]. repeat split; auto. congruence.
Qed.

Lemma ext_app : forall t l, nostate l = true -> ext t (t ++ l).
Proof.
  intros t l Hn. repeat split.
  - intros x d Hg. rewrite get_app, Hg. reflexivity.
  - intros x d Hg. rewrite get_app, Hg. reflexivity.
  - intros id. unfold has_heads. rewrite get_app. destruct (get t KHeads id); [auto | discriminate].
  - now apply acl_id_app.
Qed.

Lemma ext_put_heads : forall t id h s d, ext t (put t KHeads id (DHeads h s d)).
Proof.
  intros t id h s d. repeat split.
  - intros x d0 Hg. rewrite get_put_other; [exact Hg | reflexivity].
  - intros x d0 Hg. rewrite get_put_other; [exact Hg | reflexivity].
  - intros x Hh. unfold has_heads in *. destruct (N.eq_dec x id) as [He|Hne].
    + subst x. now rewrite get_put_same.
    + rewrite get_put_other; [exact Hh|]. cbn. now apply N.eqb_neq.
  - now apply acl_id_put.
Qed.

Lemma chg_in_ext : forall t t' tree x b, ext t t' -> chg_in t tree x b = true -> chg_in t' tree x b = true.
Proof.
  intros t t' tree x b [H1 _] Hc. unfold chg_in in *.
  destruct (get t KChanges x) as [d|] eqn:Hg; [|discriminate]. now rewrite (H1 _ _ Hg).
Qed.

Lemma rec_ord_ext : forall t t' x o, ext t t' -> rec_ord t x = Some o -> rec_ord t' x = Some o.
Proof.
  intros t t' x o [_ [H2 _]] Hr. unfold rec_ord in *.
  destruct (get t KAcl x) as [d|] eqn:Hg; [|discriminate]. now rewrite (H2 _ _ Hg).
Qed.

Lemma forallb_chg_in_ext : forall t t' tree b l, ext t t' ->
  forallb (fun p => chg_in t tree p b) l = true -> forallb (fun p => chg_in t' tree p b) l = true.
Proof.
  intros t t' tree b l He Hf. rewrite forallb_forall in *. intros p Hp. apply (chg_in_ext t); auto.
Qed.

(* an old entry stays well-formed in an extension that adds no ACL record *)
Lemma entry_ok_mono : forall t t' e, ext t t' ->
  (forall e', In e' t' -> In e' t \/ coll_eqb (fst (fst e')) KAcl = false) ->
  entry_ok t e = true -> entry_ok t' e = true.
Proof.
  intros t t' e He Hacl Hok. pose proof He as [_ [_ [Hhh Hid]]].
  destruct e as [[c id] d]. destruct c; destruct d as [a s|hs sn dl|tree prevs snap ord|p o];
    cbn [entry_ok] in *; try discriminate.
  - apply andb_prop in Hok. destruct Hok as [Hok H3]. apply andb_prop in Hok. destruct Hok as [H1 H2].
    now rewrite (Hhh _ H1), (Hhh _ H2), H3.
  - rewrite Hid. destruct (id =? acl_id t).
    + destruct hs as [|h [|h2 hr]]; try discriminate.
      destruct (rec_ord t h) as [o|] eqn:Hr; [|discriminate]. rewrite (rec_ord_ext _ _ _ _ He Hr).
      rewrite forallb_forall in *. intros e' Hin. destruct (Hacl _ Hin) as [Hold|Hna]; [now apply Hok|].
      destruct e' as [[c' i'] d']. destruct c'; cbn in Hna; try discriminate; reflexivity.
    + destruct (dl =? 0); [|reflexivity].
      apply andb_prop in Hok. destruct Hok as [Hok H4]. apply andb_prop in Hok. destruct Hok as [Hok H3].
      apply andb_prop in Hok. destruct Hok as [H1 H2].
      rewrite (chg_in_ext _ _ _ _ _ He H1), H2, (forallb_chg_in_ext _ _ _ _ _ He H3), (chg_in_ext _ _ _ _ _ He H4).
      reflexivity.
  - apply andb_prop in Hok. destruct Hok as [Hok H3]. apply andb_prop in Hok. destruct Hok as [H1 H2].
    rewrite (Hhh _ H1), (forallb_chg_in_ext _ _ _ _ _ He H2). cbn [andb].
    destruct (id =? tree); [exact H3 | now apply (chg_in_ext t)].
  - rewrite Hid. destruct (o =? 1); [exact Hok|].
    destruct (rec_ord t p) as [o'|] eqn:Hr; [|discriminate]. now rewrite (rec_ord_ext _ _ _ _ He Hr).
Qed.

(* any old entry other than the ACL heads entry stays well-formed in any extension *)
Lemma entry_ok_mono_nah : forall t t' e, ext t t' -> key_eqb KHeads (acl_id t) e = false ->
  entry_ok t e = true -> entry_ok t' e = true.
Proof.
  intros t t' e He Hk Hok. pose proof He as [_ [_ [Hhh Hid]]].
  destruct e as [[c id] d]. destruct c; destruct d as [a s|hs sn dl|tree prevs snap ord|p o];
    cbn [entry_ok] in *; try discriminate.
  - apply andb_prop in Hok. destruct Hok as [Hok H3]. apply andb_prop in Hok. destruct Hok as [H1 H2].
    now rewrite (Hhh _ H1), (Hhh _ H2), H3.
  - rewrite Hid. cbn in Hk. rewrite N.eqb_sym in Hk. rewrite Hk in *.
    destruct (dl =? 0); [|reflexivity].
    apply andb_prop in Hok. destruct Hok as [Hok H4]. apply andb_prop in Hok. destruct Hok as [Hok H3].
    apply andb_prop in Hok. destruct Hok as [H1 H2].
    rewrite (chg_in_ext _ _ _ _ _ He H1), H2, (forallb_chg_in_ext _ _ _ _ _ He H3), (chg_in_ext _ _ _ _ _ He H4).
    reflexivity.
  - apply andb_prop in Hok. destruct Hok as [Hok H3]. apply andb_prop in Hok. destruct Hok as [H1 H2].
    rewrite (Hhh _ H1), (forallb_chg_in_ext _ _ _ _ _ He H2). cbn [andb].
    destruct (id =? tree); [exact H3 | now apply (chg_in_ext t)].
  - rewrite Hid. destruct (o =? 1); [exact Hok|].
    destruct (rec_ord t p) as [o'|] eqn:Hr; [|discriminate]. now rewrite (rec_ord_ext _ _ _ _ He Hr).
Qed.

Lemma inv_In : forall t e, inv_b t = true -> In e t -> entry_ok t e = true.
Proof. intros t e Hi Hin. unfold inv_b in Hi. rewrite forallb_forall in Hi. now apply Hi. Qed.

Lemma inv_intro : forall t, (forall e, In e t -> entry_ok t e = true) -> inv_b t = true.
Proof. intros t H. unfold inv_b. rewrite forallb_forall. exact H. Qed.

(* table-level closed forms of the scripts *)
Definition chg_entry (tree : N) (c : chg) : entry := (KChanges, c_id c, DChange tree (c_prevs c) (c_snap c) (c_ord c)).

Definition create_tab (t : table) (root ord : N) : table :=
  t ++ [(KChanges, root, DChange root [] 0 ord); (KHeads, root, DHeads [root] root 0)].

Definition add_tab (t : table) (tree : N) (batch : list chg) (heads : list N) (snap del : N) : table :=
  put (t ++ map (chg_entry tree) batch) KHeads tree (DHeads heads snap del).

(* the ids of a batch can be inserted one after the other *)
Fixpoint ins_fresh (t : table) (tree : N) (batch : list chg) : bool :=
  match batch with
  | [] => true
  | c :: r => match get t KChanges (c_id c) with
              | None => ins_fresh (t ++ [chg_entry tree c]) tree r
              | Some _ => false
              end
  end.

