(* Proofs about Model/StreamPool.v (property C19), part 4: history-level clauses of spec_C19.
   queue.Close() / pool.removeStream are irreversible per stream object in every schedule ([run_heap_mono]); hence over
   any harness-level history the observer sees the drpc Close() of a stream at most once and its removal at most once
   ([model_hist_once_ok]) — the "Close() once, removal once" clauses of [obs_ok].
   Last section: the MsgSend entry / return log ([spec_events]: one writer per stream) holds of every history of the
   model ([model_hist_events_ok]), via a per-label lemma that is valid for every label sequence ([run_events_alt]). *)
From Coq Require Import List NArith Bool Lia Arith.
Import ListNotations.
From AnySync Require Import Model.StreamPool Proofs.StreamPoolProofs Proofs.StreamPoolIndex Proofs.StreamPoolSpec.
Open Scope N_scope.

(* ------------------------------------------------------------------ flags never go back, objects never disappear *)
Definition ge (x y : stream) : Prop :=
  (st_qclosed x = true -> st_qclosed y = true) /\ (st_removed x = true -> st_removed y = true).

Definition heap_mono (h h' : heap) : Prop :=
  forall sid x, hget sid h = Some x -> exists y, hget sid h' = Some y /\ ge x y.

Lemma ge_refl : forall x, ge x x.
Proof. intros x. split; auto. Qed.

Lemma heap_mono_refl : forall h, heap_mono h h.
Proof. intros h sid x H. exists x. split; [exact H | apply ge_refl]. Qed.

Lemma heap_mono_trans : forall a b c, heap_mono a b -> heap_mono b c -> heap_mono a c.
Proof.
  intros a b c H1 H2 sid x Hx. destruct (H1 sid x Hx) as (y & Hy & [G1 G2]).
  destruct (H2 sid y Hy) as (z & Hz & [G3 G4]). exists z. split; [exact Hz|]. split; auto.
Qed.

Lemma heap_mono_hset : forall h sid x y, hget sid h = Some x -> ge x y -> heap_mono h (hset sid y h).
Proof.
  intros h sid x y Hx Hg sid' x' Hx'. destruct (N.eq_dec sid' sid) as [->|Hne].
  - rewrite hget_hset_same. exists y. split; [reflexivity|]. congruence.
  - rewrite hget_hset_other by exact Hne. exists x'. split; [exact Hx' | apply ge_refl].
Qed.

Lemma heap_mono_hset_new : forall h sid y, hget sid h = None -> heap_mono h (hset sid y h).
Proof.
  intros h sid y Hn sid' x' Hx'. destruct (N.eq_dec sid' sid) as [->|Hne]; [congruence|].
  rewrite hget_hset_other by exact Hne. exists x'. split; [exact Hx' | apply ge_refl].
Qed.

Lemma ge_write : forall st m, ge st (fst (write_stream st m)).
Proof.
  intros st m. unfold write_stream. destruct (st_qclosed st) eqn:E; [apply ge_refl|].
  destruct (st_cap st <=? N.of_nat (length (st_queue st))); [apply ge_refl|]. split; cbn; intros; congruence.
Qed.
Lemma ge_take : forall st, ge st (fst (take st)).
Proof.
  intros st. unfold take. destruct (st_wdone st); [apply ge_refl|]. destruct (st_inflight st); [apply ge_refl|].
  destruct (st_queue st); [|split; cbn; intros; congruence]. destruct (st_qclosed st) eqn:E; [|apply ge_refl]. split; cbn; intros; congruence.
Qed.
Lemma ge_send_ok : forall st, ge st (send_ok st).
Proof. intros st. unfold send_ok. destruct (st_inflight st); [split; cbn; intros; congruence | apply ge_refl]. Qed.
Lemma ge_send_fail : forall st, ge st (send_fail st).
Proof. intros st. unfold send_fail. destruct (st_inflight st); [split; cbn; intros; congruence | apply ge_refl]. Qed.
Lemma ge_read_err : forall st, ge st (read_err st).
Proof. intros st. split; cbn; intros; congruence. Qed.
Lemma ge_close_queue : forall st, ge st (close_queue st).
Proof. intros st. unfold close_queue. destruct (st_closing st && negb (st_qclosed st)); [split; cbn; intros; congruence | apply ge_refl]. Qed.
Lemma ge_mark_removed : forall st, ge st (mark_removed st).
Proof. intros st. split; cbn; intros; congruence. Qed.
Lemma ge_set_tags : forall st t, ge st (set_tags st t).
Proof. intros st t. split; cbn; intros; congruence. Qed.

Lemma upd_stream_mono : forall s sid f, (forall st, ge st (f st)) -> heap_mono (objs s) (objs (upd_stream s sid f)).
Proof.
  intros s sid f Hf. unfold upd_stream. destruct (hget sid (objs s)) as [st|] eqn:E; [|apply heap_mono_refl].
  cbn. eapply heap_mono_hset; eauto.
Qed.

Lemma fresh_id : forall s, idx_inv s -> hget (last_id s + 1) (objs s) = None.
Proof.
  intros s Hi. destruct (hget (last_id s + 1) (objs s)) as [st|] eqn:E; [|reflexivity].
  pose proof (ii_fresh s Hi _ _ E). lia.
Qed.

Lemma add_stream_mono : forall s p c t g, idx_inv s -> heap_mono (objs s) (objs (fst (add_stream s p c t g))).
Proof. intros s p c t g Hi. unfold add_stream. cbn. apply heap_mono_hset_new. apply fresh_id; exact Hi. Qed.

Theorem step_heap_mono : forall s l, idx_inv s -> heap_mono (objs s) (objs (step s l)).
Proof.
  intros s l Hi. unfold step, step_out. destruct (fatal s || panicked s); [apply heap_mono_refl|].
  destruct l; cbn [fst].
  - pose proof (add_stream_mono s peer cap tags cgate Hi) as H.
    destruct (add_stream s peer cap tags cgate); cbn [fst] in *; exact H.
  - rewrite objs_start_caller. apply heap_mono_refl.
  - rewrite objs_start_caller. apply heap_mono_refl.
  - unfold do_write. destruct (cget cid (callers s)) as [p|]; [|apply heap_mono_refl].
    destruct (next_target (p_groups p)) as [[[sid g] rest]|]; [|apply heap_mono_refl].
    destruct (hget sid (objs s)) as [st|] eqn:E; [|apply heap_mono_refl].
    pose proof (ge_write st (p_msg p)) as Hg. destruct (write_stream st (p_msg p)) as [st' r]. cbn [fst] in *.
    cbn. eapply heap_mono_hset; eauto.
  - unfold add_tags. destruct (negb (memN sid (pool_ids s))); [apply heap_mono_refl|].
    destruct (hget sid (objs s)) as [st|] eqn:E; [|apply heap_mono_refl].
    destruct (add_new_tags (st_tags st) tags) as [cur' newt]. cbn.
    eapply heap_mono_hset; eauto using ge_set_tags.
  - unfold remove_tags. destruct (negb (memN sid (pool_ids s))); [apply heap_mono_refl|].
    destruct (hget sid (objs s)) as [st|] eqn:E; [|apply heap_mono_refl].
    destruct (idx_remove_all _ _ sid); cbn; eapply heap_mono_hset; eauto using ge_set_tags.
  - destruct (all_in_pool s (streams_of s tags)); apply heap_mono_refl.
  - destruct (hget sid (objs s)) as [st|] eqn:E; [|apply heap_mono_refl].
    pose proof (ge_take st) as Hg. destruct (take st) as [st' o]. cbn [fst] in *. cbn.
    eapply heap_mono_hset; eauto.
  - apply upd_stream_mono, ge_send_ok.
  - apply upd_stream_mono, ge_send_fail.
  - apply upd_stream_mono, ge_read_err.
  - apply upd_stream_mono, ge_close_queue.
  - unfold remove_stream. destruct (hget sid (objs s)) as [st|] eqn:E; [|apply heap_mono_refl].
    destruct (st_qclosed st && negb (st_removed st)); [|apply heap_mono_refl].
    destruct (negb (memN sid (pool_ids s))); [apply heap_mono_refl|].
    destruct (idx_remove (by_peer s) (st_peer st) sid); [|apply heap_mono_refl].
    destruct (idx_remove_all (by_tag s) (st_tags st) sid); [|apply heap_mono_refl].
    cbn. eapply heap_mono_hset; eauto using ge_mark_removed.
  - unfold send_enqueue. destruct (_ && _); apply heap_mono_refl.
  - unfold dial_take. destruct (running s <? dial_workers (cfg s)); [|apply heap_mono_refl].
    destruct (dialq s) as [|[[c m] ps] q]; apply heap_mono_refl.
  - unfold dial_peer. destruct (cget cid (callers s)) as [p|]; [|apply heap_mono_refl].
    destruct (next_target (p_groups p)); [apply heap_mono_refl|].
    destruct (p_peers p) as [|peer rest]; [apply heap_mono_refl|].
    destruct (mget peer (by_peer s)) as [|x g].
    + destruct opn as [[[cap tags] cg]|]; [|apply heap_mono_refl].
      pose proof (add_stream_mono s peer cap tags cg Hi) as H.
      destruct (add_stream s peer cap tags cg) as [s1 sid]; cbn [fst] in *.
      rewrite objs_start_caller. exact H.
    + cbn [fst]. rewrite objs_start_caller. apply heap_mono_refl.
  - unfold dial_done. destruct (cget cid (callers s)) as [p|]; [|apply heap_mono_refl].
    destruct (next_target (p_groups p)); [apply heap_mono_refl|]. destruct (p_peers p); [|apply heap_mono_refl].
    destruct (p_mode p); try apply heap_mono_refl. destruct (0 <? running s); apply heap_mono_refl.
Qed.

Theorem run_heap_mono : forall tr s, idx_inv s -> heap_mono (objs s) (objs (run s tr)).
Proof.
  induction tr as [|l tr IH]; intros s Hi; cbn [run fold_left]; [apply heap_mono_refl|].
  eapply heap_mono_trans; [apply step_heap_mono; exact Hi|]. apply IH. apply step_idx_inv; exact Hi.
Qed.

(* ------------------------------------------------------------------ Close() once, removal once: the observer's clauses *)
Definition obs_once_ok (st : ost) (o : obs) : bool :=
  forallb (fun sid => negb (memN sid (os_closed st))) (o_closed o)
  && forallb (fun st' => match aget (fst st') (os_removed st) with None => true | Some _ => false end) (o_removed o).

Fixpoint spec_once_from (st : ost) (i : N) (l : list obs) : bool :=
  match l with
  | [] => true
  | o :: r => obs_once_ok st o && spec_once_from (obs_next st i o) (N.succ i) r
  end.

(* it really is a part of the property predicate *)
Lemma spec_from_once : forall l st i, spec_from st i l = true -> spec_once_from st i l = true.
Proof.
  induction l as [|o l IH]; intros st i H; cbn [spec_from spec_once_from] in *; [reflexivity|].
  apply andb_true_iff in H. destruct H as (H1 & H2). apply andb_true_iff. split; [|apply IH; exact H2].
  unfold obs_ok in H1. unfold obs_once_ok.
  repeat (apply andb_true_iff in H1; destruct H1 as (H1 & ?)).
  apply andb_true_iff. split; assumption.
Qed.

(* what the observer has recorded is true of the state *)
Definition ost_inv (st : ost) (s : state) : Prop :=
  (forall sid, In sid (os_closed st) -> exists x, hget sid (objs s) = Some x /\ st_qclosed x = true) /\
  (forall sid j, aget sid (os_removed st) = Some j -> exists x, hget sid (objs s) = Some x /\ st_removed x = true).

Lemma flag_diff_spec : forall f a b ids sid, In sid (flag_diff f a b ids) ->
  (exists y, hget sid (objs b) = Some y /\ f y = true) /\
  (forall x, hget sid (objs a) = Some x -> f x = false).
Proof.
  intros f a b ids sid H. unfold flag_diff in H. apply filter_In in H. destruct H as [_ H].
  destruct (hget sid (objs b)) as [y|]; [|discriminate]. apply andb_true_iff in H. destruct H as [H1 H2].
  split; [exists y; auto|]. intros x Hx. rewrite Hx in H2. apply negb_true_iff in H2. exact H2.
Qed.

Lemma aget_app : forall k l1 l2, aget k (l1 ++ l2) = match aget k l1 with Some v => Some v | None => aget k l2 end.
Proof.
  intros k l1 l2. induction l1 as [|[k' v] r IH]; cbn; [reflexivity|]. destruct (k =? k'); [reflexivity | exact IH].
Qed.

Lemma aget_map_in : forall (A : Type) k (i : N) (l : list (N * A)) v,
  aget k (map (fun rm => (fst rm, i)) l) = Some v -> In k (map fst l).
Proof.
  intros A k i l v. induction l as [|[k' x] r IH]; cbn; [discriminate|].
  destruct (N.eqb_spec k k') as [->|Hne]; [intros _; now left | intros H; right; now apply IH].
Qed.

Lemma run_op_once : forall s i op st, good s -> ost_inv st s ->
  obs_once_ok st (snd (run_op s i op)) = true /\
  ost_inv (obs_next st i (snd (run_op s i op))) (fst (run_op s i op)).
Proof.
  intros s i op st [Ho Hi] [Hc Hr].
  pose proof (run_heap_mono (expand s i op) s Hi) as Hm.
  unfold run_op. cbn [fst snd]. set (s' := run s (expand s i op)) in *.
  unfold obs_once_ok, obs_next. cbn [o_closed o_removed o_takes os_closed os_removed].
  split.
  - apply andb_true_iff. split.
    + apply forallb_forall. intros sid Hin. apply negb_true_iff. apply not_true_iff_false. intros Hmem.
      apply flag_diff_spec in Hin. destruct Hin as [_ Hn].
      assert (Hin' : In sid (os_closed st)).
      { clear - Hmem. unfold memN in Hmem. apply existsb_exists in Hmem. destruct Hmem as (y & Hy & E).
        apply N.eqb_eq in E. subst. exact Hy. }
      destruct (Hc sid Hin') as (x & Hx & Hq). rewrite (Hn x Hx) in Hq. discriminate.
    + apply forallb_forall. intros [sid tg] Hin. cbn [fst].
      apply in_map_iff in Hin. destruct Hin as (sid0 & Heq & Hin). injection Heq as -> _.
      apply flag_diff_spec in Hin. destruct Hin as [_ Hn].
      destruct (aget sid (os_removed st)) as [j|] eqn:E; [|reflexivity].
      destruct (Hr sid j E) as (x & Hx & Hq). rewrite (Hn x Hx) in Hq. discriminate.
  - split.
    + intros sid Hin. cbn [os_closed] in Hin. apply in_app_or in Hin. destruct Hin as [Hin|Hin].
      * apply flag_diff_spec in Hin. exact (proj1 Hin).
      * destruct (Hc sid Hin) as (x & Hx & Hq). destruct (Hm sid x Hx) as (y & Hy & [G1 _]). exists y. auto.
    + intros sid j Hj. cbn [os_removed] in Hj. rewrite aget_app in Hj.
      destruct (aget sid (map (fun rm : N * list N => (fst rm, i)) _)) as [v|] eqn:E.
      * apply aget_map_in in E. rewrite map_map in E. cbn [fst] in E. rewrite map_id in E.
        apply flag_diff_spec in E. exact (proj1 E).
      * destruct (Hr sid j Hj) as (x & Hx & Hq). destruct (Hm sid x Hx) as (y & Hy & [_ G2]). exists y. auto.
Qed.

Lemma run_hist_once : forall ops s i st, good s -> ost_inv st s -> spec_once_from st i (run_hist s i ops) = true.
Proof.
  induction ops as [|op ops IH]; intros s i st Hg Hinv; cbn [run_hist]; [reflexivity|].
  pose proof (run_op_once s i op st Hg Hinv) as [H1 H2]. pose proof (good_run_op s i op Hg) as Hg'.
  destruct (run_op s i op) as [s' o]; cbn [fst snd] in *. cbn [spec_once_from]. rewrite H1. cbn [andb].
  apply IH; assumption.
Qed.

(* over every harness-level history of the model the observer sees Close() of a stream at most once and its removal
   at most once *)
Theorem model_hist_once_ok : forall c ops, spec_once_from (mkOst [] [] []) 0 (model_hist c ops) = true.
Proof.
  intros c ops. apply run_hist_once; [apply good_init|]. split; cbn.
  - intros sid [].
  - intros sid j H. discriminate.
Qed.

Theorem spec_implies_once : forall ops observed,
  spec_C19 ops observed = true -> spec_once_from (mkOst [] [] []) 0 observed = true.
Proof.
  intros ops observed H. unfold spec_C19 in H. apply andb_true_iff in H. destruct H as (H & _).
  apply andb_true_iff in H. destruct H as (_ & H).
  exact (spec_from_once _ _ _ H).
Qed.

Theorem flags_irreversible : forall c tr tr' sid x,
  hget sid (objs (run (init c) tr)) = Some x ->
  exists y, hget sid (objs (run (run (init c) tr) tr')) = Some y /\
            (st_qclosed x = true -> st_qclosed y = true) /\ (st_removed x = true -> st_removed y = true).
Proof. intros c tr tr' sid x H. exact (run_heap_mono tr' _ (reachable_idx_inv c tr) sid x H). Qed.

(* ================================================================== MsgSend entry / return log: one writer per stream
   ([spec_events], the third conjunct of [spec_C19]) holds of every history of the model *)

Lemma alt_run_app : forall a b cur,
  alt_run cur (a ++ b) = match alt_run cur a with Some c => alt_run c b | None => None end.
Proof.
  induction a as [|[m e] a IH]; intros b cur; cbn [app alt_run]; [reflexivity|].
  destruct e; destruct cur as [m0|]; try reflexivity; try apply IH.
  destruct (m0 =? m); [apply IH|reflexivity].
Qed.

Lemma events_of_app : forall sid a b, events_of sid (a ++ b) = events_of sid a ++ events_of sid b.
Proof. intros sid a b. unfold events_of. rewrite filter_app, map_app. reflexivity. Qed.

Lemma events_of_cons : forall sid (x : ev) l,
  events_of sid (x :: l) = (if fst x =? sid then [snd x] else []) ++ events_of sid l.
Proof. intros sid x l. unfold events_of. cbn [filter]. destruct (fst x =? sid); reflexivity. Qed.

Lemma events_of_single : forall sid k (e : N * bool), events_of sid [(k, e)] = if k =? sid then [e] else [].
Proof. intros sid k e. unfold events_of. cbn [filter fst]. destruct (k =? sid); reflexivity. Qed.

(* the stable sort by stream id does not change the log of any single stream *)
Lemma events_of_insK : forall sid (x : ev) l, events_of sid (insK x l) = events_of sid (x :: l).
Proof.
  intros sid x l. induction l as [|y r IH]; cbn [insK]; [reflexivity|].
  destruct (fst x <=? fst y) eqn:Ele; [reflexivity|].
  rewrite (events_of_cons sid y), IH, !events_of_cons.
  destruct (fst x =? sid) eqn:Ex; destruct (fst y =? sid) eqn:Ey; cbn [app]; try reflexivity.
  apply N.eqb_eq in Ex. apply N.eqb_eq in Ey. apply N.leb_gt in Ele. lia.
Qed.

Lemma events_of_sortK : forall sid (l : list ev), events_of sid (sortK l) = events_of sid l.
Proof.
  intros sid l. induction l as [|x l IH]; [reflexivity|].
  unfold sortK in *. cbn [fold_right]. rewrite events_of_insK, !events_of_cons, IH. reflexivity.
Qed.

(* ---- the message in flight of a stream, read off the heap *)
Definition hinfl (h : heap) (sid : N) : option N :=
  match hget sid h with Some st => st_inflight st | None => None end.

Lemma infl_hinfl : forall s sid, infl s sid = hinfl (objs s) sid.
Proof. reflexivity. Qed.

Lemma hinfl_hset_keep : forall h k st st' sid,
  hget k h = Some st -> st_inflight st' = st_inflight st -> hinfl (hset k st' h) sid = hinfl h sid.
Proof.
  intros h k st st' sid Hk Hi. unfold hinfl. rewrite hget_hset.
  destruct (sid =? k) eqn:E; [|reflexivity]. apply N.eqb_eq in E; subst sid. rewrite Hk. exact Hi.
Qed.

Lemma hinfl_hset_new : forall h k st' sid,
  hget k h = None -> st_inflight st' = None -> hinfl (hset k st' h) sid = hinfl h sid.
Proof.
  intros h k st' sid Hk Hi. unfold hinfl. rewrite hget_hset.
  destruct (sid =? k) eqn:E; [|reflexivity]. apply N.eqb_eq in E; subst sid. rewrite Hk. exact Hi.
Qed.

Lemma hinfl_upd_stream_keep : forall s k f sid,
  (forall st, st_inflight (f st) = st_inflight st) -> hinfl (objs (upd_stream s k f)) sid = hinfl (objs s) sid.
Proof.
  intros s k f sid Hf. unfold upd_stream. destruct (hget k (objs s)) as [st|] eqn:E; [|reflexivity].
  cbn. eapply hinfl_hset_keep; eauto.
Qed.

Lemma hinfl_add_stream : forall s p c t g sid, idx_inv s ->
  hinfl (objs (fst (add_stream s p c t g))) sid = hinfl (objs s) sid.
Proof.
  intros s p c t g sid Hi. unfold add_stream. cbn. apply hinfl_hset_new; [apply fresh_id; exact Hi|reflexivity].
Qed.

Lemma write_stream_infl : forall st m, st_inflight (fst (write_stream st m)) = st_inflight st.
Proof.
  intros st m. unfold write_stream. destruct (st_qclosed st); [reflexivity|].
  destruct (st_cap st <=? N.of_nat (length (st_queue st))); reflexivity.
Qed.

(* WaitOne hands out a message only to an idle writer, and then that message is in flight *)
Lemma take_infl : forall st,
  match snd (take st) with
  | Some m => st_inflight st = None /\ st_inflight (fst (take st)) = Some m
  | None => st_inflight (fst (take st)) = st_inflight st
  end.
Proof.
  intros st. unfold take. destruct (st_wdone st); [reflexivity|].
  destruct (st_inflight st) as [m0|] eqn:Ei; [cbn; exact Ei|].
  destruct (st_queue st) as [|m q]; [|cbn; split; reflexivity].
  destruct (st_qclosed st); cbn; [reflexivity|exact Ei].
Qed.

Lemma close_queue_infl : forall st, st_inflight (close_queue st) = st_inflight st.
Proof. intros st. unfold close_queue. destruct (st_closing st && negb (st_qclosed st)); reflexivity. Qed.

Ltac keep_infl := cbn [events_of filter map alt_run]; f_equal; symmetry.

(* one label: the events it produces for stream [sid] lead from the message in flight before to the one after *)
Lemma step_events_alt : forall s l sid, idx_inv s ->
  alt_run (infl s sid) (events_of sid (label_events s l)) = Some (infl (step s l) sid).
Proof.
  intros s l sid Hi. rewrite !infl_hinfl. unfold label_events, step, step_out.
  destruct (fatal s || panicked s); [reflexivity|].
  destruct l; cbn [fst].
  - keep_infl. apply hinfl_add_stream; exact Hi.
  - keep_infl. rewrite objs_start_caller. reflexivity.
  - keep_infl. rewrite objs_start_caller. reflexivity.
  - keep_infl. unfold do_write. destruct (cget cid (callers s)) as [p|]; [|reflexivity].
    destruct (next_target (p_groups p)) as [[[k g] rest]|]; [|reflexivity].
    destruct (hget k (objs s)) as [st|] eqn:E; [|reflexivity].
    pose proof (write_stream_infl st (p_msg p)) as Hw. destruct (write_stream st (p_msg p)) as [st' r]. cbn [fst] in *.
    cbn. eapply hinfl_hset_keep; eauto.
  - keep_infl. unfold add_tags. destruct (negb (memN sid0 (pool_ids s))); [reflexivity|].
    destruct (hget sid0 (objs s)) as [st|] eqn:E; [|reflexivity].
    destruct (add_new_tags (st_tags st) tags) as [cur' newt]. cbn.
    eapply hinfl_hset_keep; eauto.
  - keep_infl. unfold remove_tags. destruct (negb (memN sid0 (pool_ids s))); [reflexivity|].
    destruct (hget sid0 (objs s)) as [st|] eqn:E; [|reflexivity].
    destruct (idx_remove_all _ _ sid0); cbn; eapply hinfl_hset_keep; eauto.
  - keep_infl. destruct (all_in_pool s (streams_of s tags)); reflexivity.
  - (* LTake *)
    destruct (hget sid0 (objs s)) as [st|] eqn:E; [|reflexivity].
    pose proof (take_infl st) as Ht. destruct (take st) as [st' o]. cbn [fst snd] in *.
    destruct (N.eq_dec sid sid0) as [->|Hne].
    + destruct o as [m|].
      * destruct Ht as (H0 & H1). rewrite events_of_single, N.eqb_refl. cbn [alt_run].
        unfold hinfl. cbn [objs upd_objs]. rewrite hget_hset_same, E, H0, H1. reflexivity.
      * cbn [events_of filter map alt_run]. f_equal. symmetry. cbn. eapply hinfl_hset_keep; eauto.
    + assert (Hk : hinfl (objs (upd_objs s (hset sid0 st' (objs s)))) sid = hinfl (objs s) sid).
      { unfold hinfl. cbn. rewrite hget_hset_other; auto. }
      rewrite Hk. destruct o as [m|]; [|reflexivity].
      rewrite events_of_single. apply N.eqb_neq in Hne. rewrite N.eqb_sym in Hne. rewrite Hne. reflexivity.
  - (* LSendOk *)
    unfold infl, upd_stream. destruct (hget sid0 (objs s)) as [st|] eqn:E; [|reflexivity].
    destruct (N.eq_dec sid sid0) as [->|Hne].
    + unfold hinfl. cbn [objs upd_objs]. rewrite hget_hset_same, E. unfold send_ok.
      destruct (st_inflight st) as [m|] eqn:Ei.
      * rewrite events_of_single, N.eqb_refl. cbn [alt_run]. rewrite N.eqb_refl. reflexivity.
      * cbn. rewrite Ei. reflexivity.
    + assert (Hk : forall f, hinfl (objs (upd_objs s (hset sid0 (f st) (objs s)))) sid = hinfl (objs s) sid).
      { intros f. unfold hinfl. cbn. rewrite hget_hset_other; auto. }
      rewrite Hk. destruct (st_inflight st) as [m|]; [|reflexivity].
      rewrite events_of_single. apply N.eqb_neq in Hne. rewrite N.eqb_sym in Hne. rewrite Hne. reflexivity.
  - (* LSendFail *)
    unfold infl, upd_stream. destruct (hget sid0 (objs s)) as [st|] eqn:E; [|reflexivity].
    destruct (N.eq_dec sid sid0) as [->|Hne].
    + unfold hinfl. cbn [objs upd_objs]. rewrite hget_hset_same, E. unfold send_fail.
      destruct (st_inflight st) as [m|] eqn:Ei.
      * rewrite events_of_single, N.eqb_refl. cbn [alt_run]. rewrite N.eqb_refl. reflexivity.
      * cbn. rewrite Ei. reflexivity.
    + assert (Hk : forall f, hinfl (objs (upd_objs s (hset sid0 (f st) (objs s)))) sid = hinfl (objs s) sid).
      { intros f. unfold hinfl. cbn. rewrite hget_hset_other; auto. }
      rewrite Hk. destruct (st_inflight st) as [m|]; [|reflexivity].
      rewrite events_of_single. apply N.eqb_neq in Hne. rewrite N.eqb_sym in Hne. rewrite Hne. reflexivity.
  - keep_infl. apply hinfl_upd_stream_keep. reflexivity.
  - keep_infl. apply hinfl_upd_stream_keep. apply close_queue_infl.
  - keep_infl. unfold remove_stream. destruct (hget sid0 (objs s)) as [st|] eqn:E; [|reflexivity].
    destruct (st_qclosed st && negb (st_removed st)); [|reflexivity].
    destruct (negb (memN sid0 (pool_ids s))); [reflexivity|].
    destruct (idx_remove (by_peer s) (st_peer st) sid0); [|reflexivity].
    destruct (idx_remove_all (by_tag s) (st_tags st) sid0); [|reflexivity].
    cbn. eapply hinfl_hset_keep; eauto.
  - keep_infl. unfold send_enqueue. destruct (_ && _); reflexivity.
  - keep_infl. unfold dial_take. destruct (running s <? dial_workers (cfg s)); [|reflexivity].
    destruct (dialq s) as [|[[c m] ps] q]; reflexivity.
  - keep_infl. unfold dial_peer. destruct (cget cid (callers s)) as [p|]; [|reflexivity].
    destruct (next_target (p_groups p)); [reflexivity|].
    destruct (p_peers p) as [|peer rest]; [reflexivity|].
    destruct (mget peer (by_peer s)) as [|x g].
    + destruct opn as [[[cap tags] cg]|]; [|reflexivity].
      pose proof (hinfl_add_stream s peer cap tags cg sid Hi) as H.
      destruct (add_stream s peer cap tags cg) as [s1 k]; cbn [fst] in *.
      rewrite objs_start_caller. exact H.
    + cbn [fst]. rewrite objs_start_caller. reflexivity.
  - keep_infl. unfold dial_done. destruct (cget cid (callers s)) as [p|]; [|reflexivity].
    destruct (next_target (p_groups p)); [reflexivity|]. destruct (p_peers p); [|reflexivity].
    destruct (p_mode p); try reflexivity. destruct (0 <? running s); reflexivity.
Qed.

(* every label sequence (every schedule) *)
Theorem run_events_alt : forall ls s sid, idx_inv s ->
  alt_run (infl s sid) (events_of sid (run_events s ls)) = Some (infl (run s ls) sid).
Proof.
  induction ls as [|l ls IH]; intros s sid Hi; cbn [run_events run fold_left]; [reflexivity|].
  rewrite events_of_app, alt_run_app, (step_events_alt s l sid Hi).
  apply IH. apply step_idx_inv; exact Hi.
Qed.

Lemma run_hist_events_alt : forall ops s i sid, idx_inv s ->
  exists c, alt_run (infl s sid) (events_of sid (flat_map o_events (run_hist s i ops))) = Some c.
Proof.
  induction ops as [|op ops IH]; intros s i sid Hi; cbn [run_hist]; [eexists; reflexivity|].
  unfold run_op. cbn [flat_map o_events].
  rewrite events_of_app, alt_run_app, events_of_sortK, (run_events_alt _ s sid Hi).
  apply IH. apply run_idx_inv; exact Hi.
Qed.

Lemma pairs_eqb_refl : forall l, pairs_eqb l l = true.
Proof. induction l as [|x l IH]; cbn [pairs_eqb]; [reflexivity|]. rewrite !N.eqb_refl, IH. reflexivity. Qed.

Lemma run_hist_takes_entries : forall ops s i,
  forallb (fun o => pairs_eqb (entries (o_events o)) (o_takes o)) (run_hist s i ops) = true.
Proof.
  induction ops as [|op ops IH]; intros s i; cbn [run_hist]; [reflexivity|].
  unfold run_op. cbn [forallb o_events o_takes]. rewrite pairs_eqb_refl. apply IH.
Qed.

Theorem model_hist_events_ok : forall c ops, spec_events (model_hist c ops) = true.
Proof.
  intros c ops. unfold spec_events, model_hist. rewrite run_hist_takes_entries. cbn [andb].
  apply forallb_forall. intros sid _. unfold stream_events_ok.
  destruct (run_hist_events_alt ops (init c) 0 sid (init_idx_inv c)) as (cur & H).
  change (infl (init c) sid) with (@None N) in H. rewrite H. reflexivity.
Qed.

Theorem spec_implies_events : forall ops observed, spec_C19 ops observed = true -> spec_events observed = true.
Proof. intros ops observed H. unfold spec_C19 in H. apply andb_true_iff in H. destruct H as (_ & H). exact H. Qed.

(* what the clause means: after every prefix of a stream's MsgSend log the number of calls entered and not yet
   returned is 0 or 1 *)
Definition count_ev (b : bool) (l : list (N * bool)) : nat := length (filter (fun e => Bool.eqb (snd e) b) l).
Definition olen (o : option N) : nat := match o with Some _ => 1%nat | None => 0%nat end.

Lemma alt_run_balance : forall l cur c, alt_run cur l = Some c ->
  (olen cur + count_ev true l = count_ev false l + olen c)%nat.
Proof.
  induction l as [|[m e] l IH]; intros cur c H; cbn [alt_run] in H.
  - inversion H; subst. cbn. lia.
  - destruct e; destruct cur as [m0|]; try discriminate.
    + apply IH in H. unfold count_ev in *. cbn in *. lia.
    + destruct (m0 =? m); [|discriminate]. apply IH in H. unfold count_ev in *. cbn in *. lia.
Qed.

Theorem events_at_most_one_in_flight : forall observed sid pre post,
  spec_events observed = true ->
  events_of sid (flat_map o_events observed) = pre ++ post ->
  (count_ev true pre = count_ev false pre \/ count_ev true pre = S (count_ev false pre))%nat.
Proof.
  intros observed sid pre post H Hsplit. unfold spec_events in H. apply andb_true_iff in H. destruct H as (_ & H).
  destruct pre as [|e0 pre']; [left; reflexivity|].
  assert (Hin : In sid (map fst (flat_map o_events observed))).
  { assert (Hx : In e0 (events_of sid (flat_map o_events observed))) by (rewrite Hsplit; left; reflexivity).
    unfold events_of in Hx. apply in_map_iff in Hx. destruct Hx as (x & Hx1 & Hx2). apply filter_In in Hx2.
    destruct Hx2 as (Hx2 & Hx3). apply N.eqb_eq in Hx3. apply in_map_iff. exists x. split; assumption. }
  rewrite forallb_forall in H. specialize (H sid Hin). unfold stream_events_ok in H. rewrite Hsplit, alt_run_app in H.
  destruct (alt_run None (e0 :: pre')) as [c|] eqn:E; [|discriminate].
  apply alt_run_balance in E. cbn [olen] in E. destruct c; cbn [olen] in E; [right|left]; lia.
Qed.
