(* Proofs/TreeSyncSpec.v — C01: every reachable model state passes the per-replica conjunct of spec_C01. *)
From Coq Require Import List NArith Bool Arith Lia.
Import ListNotations.
From AnySync Require Import Lib.Dag Model.Dfs Model.Tree Model.LoadIter Model.TreeSync Proofs.DfsBase
  Proofs.TreeSyncClosure.

Lemma subset_b_incl : forall a b, incl a b -> subset_b a b = true.
Proof.
  intros a b H. unfold subset_b. apply forallb_forall. intros x Hx. apply mem_In. apply H. exact Hx.
Qed.

Lemma closed_b_true : forall G have, closed G have -> closed_b G have = true.
Proof.
  intros G have H. unfold closed_b. apply forallb_forall. intros i Hi.
  destruct (H i Hi) as [c [Hc Hp]]. rewrite Hc. apply subset_b_incl. exact Hp.
Qed.

(* what the model shows of a state: every replica's (stored ids, heads) *)
Definition observe (w : world) : list (list N * list N) :=
  map (fun r => (r_have r, rep_heads (wG w) r)) (w_reps w).

Theorem reachable_reps_ok : forall nb n root size ls,
  cprev root = [] ->
  let w := run nb (init_world n root size) ls in
  forallb (rep_ok (wG w)) (observe w) = true.
Proof.
  intros nb n root size ls Hp w. apply forallb_forall. intros o Ho. unfold observe in Ho.
  apply in_map_iff in Ho. destruct Ho as [r [<- Hr]].
  destruct (causal_closure_all_traces nb n root size ls Hp r Hr) as [Hcl [Hh _]].
  unfold rep_ok. cbn [fst snd]. fold w in Hcl, Hh. rewrite (closed_b_true _ _ Hcl), (subset_b_incl _ _ Hh). reflexivity.
Qed.
