(* Proofs/DfsStable.v — growth never reorders (C06), at the level of the canonical order:

   order_stable:        adding changes Nw to a change set S (new ids, not cited by S) and presenting the union, then
                        leaving out the new changes, gives exactly the order of S — the old changes keep their
                        relative order, whatever is added below them;
   order_append_prefix: if moreover every new change that is presented is a Next-descendant of the LAST change of the
                        old order (= lastIteratedHeadId: what Tree.Add tests before it answers Append) and the union is
                        acyclic, the old order is a PREFIX of the new one and the rest is new.

   Proof of the first: a stuttering simulation between the stack machine on the union and the machine on S — steps
   that handle a new change do not change the projection of (stack, visited, branchesFinished, result) to old
   changes, steps that handle an old change are mirrored by one step of the old machine.
   Proof of the second: in the new result the old order ends with last0, everything new is reachable from last0 and
   therefore LATER than last0 (Proofs/DfsTopo.v), everything old other than last0 is earlier. *)
From Coq Require Import List NArith Bool Arith Lia.
Import ListNotations.
From AnySync Require Import Lib.Dag Model.Dfs Proofs.DfsBase Proofs.DfsTopo.

(* ---------------------------------------------------------------- list helpers *)

Lemma filter_comm : forall (A : Type) (f g : A -> bool) l, filter f (filter g l) = filter g (filter f l).
Proof.
  intros A f g l. induction l as [|a r IH]; [reflexivity|]. cbn [filter].
  destruct (g a) eqn:Eg; destruct (f a) eqn:Ef; cbn [filter]; rewrite ?Eg, ?Ef, IH; reflexivity.
Qed.

Lemma filter_rev' : forall (A : Type) (f : A -> bool) l, filter f (rev l) = rev (filter f l).
Proof.
  intros A f l. induction l as [|a r IH]; [reflexivity|]. cbn [rev filter]. rewrite filter_app, IH. cbn [filter].
  destruct (f a); cbn [rev]; [reflexivity | rewrite app_nil_r; reflexivity].
Qed.

Lemma filter_all : forall (A : Type) (f : A -> bool) l, (forall x, In x l -> f x = true) -> filter f l = l.
Proof.
  intros A f l H. induction l as [|a r IH]; [reflexivity|]. cbn [filter]. rewrite (H a (or_introl eq_refl)).
  rewrite IH; [reflexivity|]. intros x Hx. apply H. right. exact Hx.
Qed.

Lemma filter_none : forall (A : Type) (f : A -> bool) l, (forall x, In x l -> f x = false) -> filter f l = [].
Proof.
  intros A f l H. induction l as [|a r IH]; [reflexivity|]. cbn [filter]. rewrite (H a (or_introl eq_refl)).
  apply IH. intros x Hx. apply H. right. exact Hx.
Qed.

Lemma filter_nil_all : forall (A : Type) (f : A -> bool) l, filter f l = [] -> forall x, In x l -> f x = false.
Proof.
  intros A f l. induction l as [|a r IH]; intros H x Hx; [destruct Hx|]. cbn [filter] in H.
  destruct (f a) eqn:E; [discriminate|]. destruct Hx as [Hx|Hx]; [subst x; exact E | apply IH; assumption].
Qed.

(* ---------------------------------------------------------------- sortedness of isort; filter commutes with isort *)

Fixpoint sorted (l : list N) : Prop :=
  match l with
  | [] => True
  | a :: r => (forall y, In y r -> (a <= y)%N) /\ sorted r
  end.

Lemma insert_sorted_sorted : forall x l, sorted l -> sorted (insert_sorted x l).
Proof.
  intros x l. induction l as [|a r IH]; intros Hs; cbn [insert_sorted].
  - cbn. split; [intros y []| exact I].
  - destruct Hs as [Ha Hr]. destruct (N.leb_spec x a) as [Hxa|Hxa].
    + cbn [sorted]. split; [|split; [exact Ha | exact Hr]].
      intros y [Hy|Hy]; [subst y; exact Hxa | pose proof (Ha y Hy); lia].
    + cbn [sorted]. split; [|apply IH; exact Hr].
      intros y Hy. apply insert_sorted_In in Hy. destruct Hy as [Hy|Hy]; [subst y; lia | apply Ha; exact Hy].
Qed.

Lemma isort_sorted : forall l, sorted (isort l).
Proof.
  induction l as [|a r IH]; [exact I|]. unfold isort in *. cbn [fold_right]. apply insert_sorted_sorted. exact IH.
Qed.

Lemma insert_sorted_front : forall x l, (forall y, In y l -> (x <= y)%N) -> insert_sorted x l = x :: l.
Proof.
  intros x l H. destruct l as [|a r]; [reflexivity|]. cbn [insert_sorted].
  assert (Hxa : (x <= a)%N) by (apply H; left; reflexivity). apply N.leb_le in Hxa. rewrite Hxa. reflexivity.
Qed.

Lemma filter_insert_sorted : forall (f : N -> bool) x l, sorted l ->
  filter f (insert_sorted x l) = if f x then insert_sorted x (filter f l) else filter f l.
Proof.
  intros f x l. induction l as [|a r IH]; intros Hs.
  - cbn [insert_sorted filter]. destruct (f x); reflexivity.
  - destruct Hs as [Ha Hr]. cbn [insert_sorted]. destruct (N.leb_spec x a) as [Hxa|Hxa].
    + cbn [filter]. destruct (f x) eqn:Ex; [|reflexivity].
      symmetry. change (if f a then a :: filter f r else filter f r) with (filter f (a :: r)).
      apply insert_sorted_front. intros y Hy. apply filter_In in Hy. destruct Hy as [Hy _].
      destruct Hy as [Hy|Hy]; [subst y; exact Hxa | pose proof (Ha y Hy); lia].
    + cbn [filter]. rewrite (IH Hr). destruct (f a) eqn:Ea; destruct (f x) eqn:Ex; try reflexivity.
      cbn [insert_sorted]. assert (Hl : N.leb x a = false) by (apply N.leb_gt; exact Hxa). rewrite Hl. reflexivity.
Qed.

Lemma filter_isort : forall (f : N -> bool) l, filter f (isort l) = isort (filter f l).
Proof.
  intros f l. induction l as [|a r IH]; [reflexivity|].
  change (isort (a :: r)) with (insert_sorted a (isort r)).
  rewrite (filter_insert_sorted f a (isort r) (isort_sorted r)), IH. cbn [filter].
  destruct (f a); reflexivity.
Qed.

(* ---------------------------------------------------------------- the simulation *)

Section Sim.
  Variable nxo nxn : N -> list N.
  Variable old : N -> bool.
  Hypothesis old_nx : forall p, old p = true -> filter old (nxn p) = nxo p.
  Hypothesis new_nx : forall y z, old y = false -> In z (nxn y) -> old z = false.

  Record sim (sn so : dstate) : Prop := mkSim {
    sim_stack : filter old (d_stack sn) = d_stack so;
    sim_vis   : filter old (d_vis sn) = d_vis so;
    sim_bf    : filter old (d_bf sn) = d_bf so;
    sim_res   : filter old (d_res sn) = d_res so
  }.

  Lemma mem_filter_old : forall x l, old x = true -> mem x (filter old l) = mem x l.
  Proof.
    intros x l Hx. induction l as [|a r IH]; [reflexivity|]. cbn [filter].
    destruct (old a) eqn:Ea; cbn [mem existsb]; fold (mem x r); fold (mem x (filter old r)).
    - rewrite IH. reflexivity.
    - rewrite IH. destruct (N.eqb x a) eqn:E; [|reflexivity]. apply N.eqb_eq in E. subst a. congruence.
  Qed.

  Lemma filter_neq_new : forall ch l, old ch = false ->
    filter old (filter (fun i => negb (N.eqb i ch)) l) = filter old l.
  Proof.
    intros ch l Hch. rewrite filter_comm. apply filter_all. intros x Hx. apply filter_In in Hx. destruct Hx as [_ Hx].
    destruct (N.eqb x ch) eqn:E; [|reflexivity]. apply N.eqb_eq in E. subst x. congruence.
  Qed.

  Lemma sim_step_new : forall sn so ch st,
    sim sn so -> d_stack sn = ch :: st -> old ch = false -> sim (dfs_step nxn sn) so.
  Proof.
    intros sn so ch st [Hs Hv Hb Hr] Hst Hch. unfold dfs_step. rewrite Hst.
    rewrite Hst in Hs. cbn [filter] in Hs. rewrite Hch in Hs.
    destruct (mem ch (d_bf sn)).
    - constructor; cbn [d_stack d_vis d_bf d_res]; try assumption.
      + rewrite filter_neq_new; assumption.
      + cbn [filter]. rewrite Hch. exact Hr.
    - destruct (mem ch (d_vis sn)).
      + constructor; cbn [d_stack d_vis d_bf d_res]; assumption.
      + constructor; cbn [d_stack d_vis d_bf d_res]; try assumption.
        * rewrite filter_app. cbn [filter]. rewrite Hch. rewrite filter_none; [exact Hs|].
          intros x Hx. apply in_rev in Hx. apply filter_In in Hx. destruct Hx as [Hx _]. apply (new_nx ch x Hch Hx).
        * cbn [filter]. rewrite Hch. exact Hv.
        * cbn [filter]. rewrite Hch. exact Hb.
  Qed.

  Lemma sim_step_old : forall sn so ch st,
    sim sn so -> d_stack sn = ch :: st -> old ch = true ->
    exists st', d_stack so = ch :: st' /\ sim (dfs_step nxn sn) (dfs_step nxo so).
  Proof.
    intros sn so ch st [Hs Hv Hb Hr] Hst Hch.
    rewrite Hst in Hs. cbn [filter] in Hs. rewrite Hch in Hs.
    exists (filter old st). split; [symmetry; exact Hs|].
    unfold dfs_step. rewrite Hst, <- Hs.
    rewrite <- Hb, <- Hv. rewrite !(mem_filter_old ch _ Hch).
    destruct (mem ch (d_bf sn)).
    - constructor; cbn [d_stack d_vis d_bf d_res]; try reflexivity.
      + apply filter_comm.
      + cbn [filter]. rewrite Hch, Hr. reflexivity.
    - destruct (mem ch (d_vis sn)).
      + constructor; cbn [d_stack d_vis d_bf d_res]; try reflexivity. exact Hr.
      + constructor; cbn [d_stack d_vis d_bf d_res].
        * rewrite filter_app. cbn [filter]. rewrite Hch. f_equal.
          rewrite filter_rev'. f_equal. rewrite filter_comm, (old_nx ch Hch).
          apply filter_ext_in. intros i Hi.
          assert (Hio : old i = true).
          { rewrite <- (old_nx ch Hch) in Hi. apply filter_In in Hi. tauto. }
          f_equal. cbn [mem existsb]. fold (mem i (d_vis sn)). fold (mem i (filter old (d_vis sn))).
          rewrite (mem_filter_old i _ Hio). reflexivity.
        * cbn [filter]. rewrite Hch. reflexivity.
        * cbn [filter]. rewrite Hch. reflexivity.
        * exact Hr.
  Qed.

  Lemma dfs_loop_sim : forall fn sn ln,
    dfs_loop nxn fn sn = Some ln ->
    forall so fo lo, sim sn so -> dfs_loop nxo fo so = Some lo -> filter old ln = lo.
  Proof.
    induction fn as [|f IH]; intros sn ln Hn so fo lo Hsim Ho; cbn [dfs_loop] in Hn.
    - destruct (d_stack sn) eqn:En; [|discriminate]. inversion Hn; subst ln.
      destruct Hsim as [Hs _ _ Hr]. rewrite En in Hs. cbn [filter] in Hs.
      destruct fo; cbn [dfs_loop] in Ho; rewrite <- Hs in Ho; inversion Ho; subst lo; exact Hr.
    - destruct (d_stack sn) as [|ch st] eqn:En.
      + inversion Hn; subst ln.
        destruct Hsim as [Hs _ _ Hr]. rewrite En in Hs. cbn [filter] in Hs.
        destruct fo; cbn [dfs_loop] in Ho; rewrite <- Hs in Ho; inversion Ho; subst lo; exact Hr.
      + destruct (old ch) eqn:Ech.
        * destruct (sim_step_old sn so ch st Hsim En Ech) as [st' [Hso Hsim']].
          destruct fo as [|fo']; cbn [dfs_loop] in Ho; rewrite Hso in Ho; [discriminate|].
          apply (IH _ _ Hn _ fo' lo Hsim' Ho).
        * apply (IH _ _ Hn so fo lo (sim_step_new sn so ch st Hsim En Ech) Ho).
  Qed.
End Sim.

(* ---------------------------------------------------------------- growth never reorders *)

Lemma view_app : forall S1 S2 root, view (S1 ++ S2) root = view S1 root ++ view S2 root.
Proof. intros. unfold view. apply filter_app. Qed.

Lemma view_In : forall S root c, In c (view S root) -> In c S.
Proof. intros S root c H. unfold view in H. apply filter_In in H. tauto. Qed.

Definition not_new (Nw : list change) (i : N) : bool := negb (has_change Nw i).

Lemma not_new_false : forall Nw i, not_new Nw i = false <-> In i (ids Nw).
Proof.
  intros Nw i. unfold not_new, has_change. rewrite negb_false_iff. apply mem_In.
Qed.

Lemma not_new_true : forall Nw i, not_new Nw i = true <-> ~ In i (ids Nw).
Proof.
  intros Nw i. unfold not_new, has_change. rewrite negb_true_iff. apply mem_false_In.
Qed.

Section Grow.
  Variable S Nw : list change.
  Variable root : N.
  Hypothesis ids_disjoint : forall c, In c S -> ~ In (cid c) (ids Nw).
  Hypothesis old_cites_old : forall c p, In c (view S root) -> In p (cprev c) -> ~ In p (ids Nw).
  Hypothesis root_old : ~ In root (ids Nw).

  Let nxo := next_of (view S root).
  Let nxn := next_of (view (S ++ Nw) root).
  Let old := not_new Nw.

  Lemma grow_old_nx : forall p, filter old (nxn p) = nxo p.
  Proof.
    intros p. unfold nxn, nxo, next_of. rewrite filter_isort. f_equal.
    rewrite view_app. unfold children_occ. rewrite flat_map_app, filter_app.
    fold (children_occ (view S root) p). fold (children_occ (view Nw root) p).
    rewrite filter_all, filter_none; [apply app_nil_r | |].
    - intros y Hy. apply children_occ_In in Hy. destruct Hy as [c [Hc [Hy _]]]. subst y.
      apply not_new_false. unfold ids. apply in_map. apply (view_In _ _ _ Hc).
    - intros y Hy. apply children_occ_In in Hy. destruct Hy as [c [Hc [Hy _]]]. subst y.
      apply not_new_true. apply ids_disjoint. apply (view_In _ _ _ Hc).
  Qed.

  Lemma grow_new_nx : forall y z, old y = false -> In z (nxn y) -> old z = false.
  Proof.
    intros y z Hy Hz. apply not_new_false in Hy. unfold nxn in Hz. apply next_of_In in Hz.
    destruct Hz as [c [Hc [Hz Hp]]]. subst z. rewrite view_app in Hc. apply in_app_or in Hc. destruct Hc as [Hc|Hc].
    - exfalso. exact (old_cites_old c y Hc Hp Hy).
    - apply not_new_false. unfold ids. apply in_map. apply (view_In _ _ _ Hc).
  Qed.

  Theorem order_stable : filter (not_new Nw) (order (S ++ Nw) root) = order S root.
  Proof.
    pose proof (order_opt_order (S ++ Nw) root) as Hn. pose proof (order_opt_order S root) as Ho.
    unfold order_opt in Hn, Ho.
    eapply (dfs_loop_sim nxo nxn old (fun p _ => grow_old_nx p) grow_new_nx _ _ _ Hn (dfs_init root)); [|exact Ho].
    unfold dfs_init. constructor; cbn [d_stack d_vis d_bf d_res filter]; try reflexivity.
    assert (Hr : old root = true) by (apply not_new_true; exact root_old). rewrite Hr. reflexivity.
  Qed.

  (* ---- Append: the old order is a prefix ---- *)

  Inductive reach (nx : N -> list N) : N -> N -> Prop :=
  | reach_one : forall p y, In y (nx p) -> reach nx p y
  | reach_step : forall p z y, In z (nx p) -> reach nx z y -> reach nx p y.

  Lemma later_reach : forall nx res, later_children nx res ->
    forall p y, reach nx p y -> forall l1 l2, res = l1 ++ p :: l2 -> In y l2.
  Proof.
    intros nx res Hlat p y Hr. induction Hr as [p y Hy | p z y Hz Hr IH]; intros l1 l2 Heq.
    - apply (Hlat l1 p l2 Heq y Hy).
    - pose proof (Hlat l1 p l2 Heq z Hz) as Hzl. apply in_split in Hzl. destruct Hzl as [a [b Hl2]].
      assert (Heq' : res = (l1 ++ p :: a) ++ z :: b) by (rewrite Heq, Hl2, <- app_assoc; reflexivity).
      pose proof (IH _ _ Heq') as Hyb. rewrite Hl2. apply in_or_app. right. right. exact Hyb.
  Qed.

  Variable rk : N -> nat.
  Hypothesis acyclic : acyclic_by rk (view (S ++ Nw) root).

  Theorem order_append_prefix : forall A0 last0,
    order S root = A0 ++ [last0] ->
    (forall y, In y (order (S ++ Nw) root) -> In y (ids Nw) -> reach nxn last0 y) ->
    exists B, order (S ++ Nw) root = order S root ++ B /\ forall b, In b B -> In b (ids Nw).
  Proof.
    intros A0 last0 Hlast Hreach.
    pose proof order_stable as Hst.
    pose proof (order_opt_order (S ++ Nw) root) as Hn. unfold order_opt in Hn.
    assert (Hedge : forall p y, In y (nxn p) -> rk p < rk y).
    { intros p y Hy. unfold nxn in Hy. apply next_of_In in Hy. destruct Hy as [c [Hc [Hy Hp]]]. subst y. apply (acyclic c p Hc Hp). }
    destruct (dfs_loop_topo nxn rk Hedge _ _ _ (topo_inv_init _ _ root) Hn) as [Hnd Hlat].
    set (resn := order (S ++ Nw) root) in *.
    assert (Hl0 : In last0 resn /\ old last0 = true).
    { assert (H : In last0 (filter (not_new Nw) resn)) by (rewrite Hst, Hlast; apply in_or_app; right; left; reflexivity).
      apply filter_In in H. exact H. }
    destruct Hl0 as [Hl0 Hl0old]. apply in_split in Hl0. destruct Hl0 as [A [B HAB]].
    assert (HndAB : NoDup (A ++ last0 :: B)) by (rewrite <- HAB; exact Hnd).
    assert (HA : filter (not_new Nw) A = A).
    { apply filter_all. intros x Hx. destruct (not_new Nw x) eqn:E; [reflexivity|]. exfalso.
      apply not_new_false in E.
      assert (Hxr : In x resn) by (rewrite HAB; apply in_or_app; left; exact Hx).
      pose proof (later_reach nxn resn Hlat last0 x (Hreach x Hxr E) A B HAB) as HxB.
      apply NoDup_remove_2 in HndAB. apply in_split in Hx. destruct Hx as [a1 [a2 Ha]]. subst A.
      clear HndAB. rewrite HAB in Hnd. rewrite <- app_assoc in Hnd. cbn [app] in Hnd.
      apply NoDup_remove_2 in Hnd. apply Hnd. apply in_or_app. right. apply in_or_app. right. right. exact HxB. }
    assert (HlB : ~ In last0 B).
    { apply NoDup_remove_2 in HndAB. intro H. apply HndAB. apply in_or_app. right. exact H. }
    assert (Hproj : A ++ last0 :: filter (not_new Nw) B = A0 ++ [last0]).
    { rewrite <- Hlast, <- Hst, HAB, filter_app, HA. cbn [filter]. fold old. rewrite Hl0old. reflexivity. }
    assert (HB : filter (not_new Nw) B = []).
    { destruct (filter (not_new Nw) B) as [|x X] eqn:EB; [reflexivity|]. exfalso.
      assert (Hne : x :: X <> []) by discriminate.
      rewrite (app_removelast_last 0%N Hne) in Hproj.
      replace (A ++ last0 :: removelast (x :: X) ++ [last (x :: X) 0%N])
        with ((A ++ last0 :: removelast (x :: X)) ++ [last (x :: X) 0%N]) in Hproj
        by (rewrite <- app_assoc; reflexivity).
      apply app_inj_tail in Hproj. destruct Hproj as [_ Hl].
      assert (Hin : In (last (x :: X) 0%N) (x :: X)).
      { rewrite (app_removelast_last 0%N Hne) at 2. apply in_or_app. right. left. reflexivity. }
      rewrite Hl, <- EB in Hin. apply filter_In in Hin. destruct Hin as [Hin _]. exact (HlB Hin). }
    exists B. split.
    - rewrite HB in Hproj. rewrite Hlast, <- Hproj, HAB, <- app_assoc. reflexivity.
    - intros b Hb. apply not_new_false. apply (filter_nil_all _ _ _ HB b Hb).
  Qed.
End Grow.

(* the same for any listing of the grown set (the order is a function of the set) *)
Corollary order_stable_perm : forall S Nw S' root,
  Permutation.Permutation S' (S ++ Nw) ->
  (forall c, In c S -> ~ In (cid c) (ids Nw)) ->
  (forall c p, In c (view S root) -> In p (cprev c) -> ~ In p (ids Nw)) ->
  ~ In root (ids Nw) ->
  filter (not_new Nw) (order S' root) = order S root.
Proof.
  intros S Nw S' root HP H1 H2 H3. rewrite (order_perm S' (S ++ Nw) root HP). apply order_stable; assumption.
Qed.
