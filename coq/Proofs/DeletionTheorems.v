(* C15: the property-level statements, derived from the invariant (Proofs/DeletionInv.v). *)
From Coq Require Import List NArith Bool Lia.
Import ListNotations.
From AnySync Require Import Model.Deletion Proofs.DeletionBase Proofs.DeletionInv.
Open Scope N_scope.

Lemma run_app : forall fixed a b s, run fixed (a ++ b) s = run fixed b (run fixed a s).
Proof. intros. unfold run. apply fold_left_app. Qed.

Lemma reach_inv : forall ops, Inv (run true ops init).
Proof. intros ops. apply run_inv, inv_init. Qed.

Lemma tomb_spec : forall i s, tomb i s = true <-> has_entry i s = true /\ status i s <> 0.
Proof. intros i s. unfold tomb. rewrite andb_true_iff, negb_true_iff, N.eqb_neq. tauto. Qed.

Lemma status_pos_tomb : forall i s, status i s <> 0 -> tomb i s = true.
Proof.
  intros i s H. apply tomb_spec. split; [|exact H].
  destruct (has_entry i s) eqn:E; [reflexivity|]. rewrite (status_no_entry _ _ E) in H. contradiction.
Qed.

(* durable status never decreases, whatever happens next (incl. restarts, worker runs cancelled at any point) *)
Theorem status_monotone : forall ops1 ops2 i,
  status i (run true ops1 init) <= status i (run true (ops1 ++ ops2) init).
Proof.
  intros ops1 ops2 i. rewrite run_app. destruct (run_inv ops2 _ (reach_inv ops1)) as [_ [H _]]. apply H.
Qed.

Theorem status_range : forall ops i, status i (run true ops init) <= 2.
Proof. intros ops i. apply (i_st _ (reach_inv ops)). Qed.

Theorem tombstone_permanent : forall ops1 ops2 i,
  tomb i (run true ops1 init) = true -> tomb i (run true (ops1 ++ ops2) init) = true.
Proof.
  intros ops1 ops2 i H. apply status_pos_tomb. apply tomb_spec in H. destruct H as [_ H].
  pose proof (status_monotone ops1 ops2 i). lia.
Qed.

(* put / fetch of a tombstoned id: "already deleted", nothing changes (a queued tree that is still stored is
   served locally, again without any change) *)
Theorem put_tombstoned : forall s i p d, tomb i s = true -> step true s (OpPut i p d) = (s, OErrDeleted).
Proof. intros s i p d H. cbn [step]. unfold do_put. now rewrite H. Qed.

Theorem fetch_tombstoned : forall s i p d h rem, tomb i s = true ->
  step true s (OpFetch i p d h rem) = (s, if has_storage i s then OLocal else OErrDeleted).
Proof. intros s i p d h rem H. cbn [step]. rewrite H. now destruct (has_storage i s). Qed.

Theorem fetch_race_tombstoned : forall s i p d h order, tomb i s = true ->
  step true s (OpFetchRace i p d h order) = (s, if has_storage i s then OLocal else OErrDeleted).
Proof. intros s i p d h order H. cbn [step]. rewrite H. now destruct (has_storage i s). Qed.

Lemma st_add_one_chg : forall s i, chg (st_add_one s i) = chg s.
Proof.
  intros s i. unfold st_add_one. destruct (mem i s); [reflexivity|]. autorewrite with flds. apply upd_chg.
Qed.

Lemma st_add_chg : forall ids s, chg (st_add ids s) = chg s.
Proof.
  unfold st_add. induction ids as [|x r IH]; intros s; cbn [fold_left]; [reflexivity|].
  rewrite IH. apply st_add_one_chg.
Qed.

Lemma st_add_one_marks : forall s i, Inv s -> status i (st_add_one s i) <> 0.
Proof.
  intros s i HI. unfold st_add_one. destruct (mem i s) eqn:M.
  - unfold mem in M. apply orb_true_iff in M. destruct M as [M|M].
    + rewrite (i_mq s HI i M). discriminate.
    + apply (i_md s HI i) in M. rewrite M. discriminate.
  - autorewrite with flds. rewrite (upd_status i (set_status 1) s (get_id i s) i), N.eqb_refl. discriminate.
Qed.

Lemma st_add_marks : forall ids s i, Inv s -> memb i ids = true -> status i (st_add ids s) <> 0.
Proof.
  induction ids as [|x r IH]; intros s i HI Hin; [discriminate|].
  change (st_add (x :: r) s) with (st_add r (st_add_one s x)).
  cbn [memb] in Hin. apply orb_true_iff in Hin. destruct Hin as [Hx|Hr].
  - apply N.eqb_eq in Hx. subst x. pose proof (st_add_one_marks s i HI) as H1.
    destruct (st_add_step r _ (st_add_one_inv s i HI)) as [_ [Hm _]]. specialize (Hm i). lia.
  - apply IH; [apply st_add_one_inv; exact HI | exact Hr].
Qed.

(* the deletion recorded DURING the remote round trip of a fetch is honoured as well: the arriving tree is
   refused and nothing is stored (this is what fixes/C15-create-storage-tombstone.patch repairs) *)
Theorem fetch_race_never_stores : forall ops i p d h order,
  let s := run true ops init in
  has_storage i s = false ->
  has_chg i (fst (step true s (OpFetchRace i p d h order))) = false.
Proof.
  intros ops i p d h order s Hs. pose proof (reach_inv ops) as HI. fold s in HI.
  assert (C : has_chg i s = false).
  { destruct (has_chg i s) eqn:C; [|reflexivity]. destruct (i_chg s HI i C) as [He _].
    unfold has_storage in Hs. rewrite He, C in Hs. discriminate. }
  cbn [step]. rewrite Hs. destruct (tomb i s) eqn:T; [exact C|].
  set (s1 := do_settings [i] s). set (s2 := worker order never [] s1).
  destruct (do_settings_step [i] s HI) as [I1 E1]. fold s1 in I1, E1.
  destruct (worker_step order never [] s1 I1) as [I2 E2]. fold s2 in I2, E2.
  assert (Hq : status i s1 <> 0).
  { unfold s1, do_settings. apply st_add_marks; [apply settings_fields_step; exact HI|].
    unfold sunion. cbn [fold_left]. rewrite memb_sadd, N.eqb_refl. reflexivity. }
  assert (C1 : has_chg i s1 = false).
  { unfold has_chg, s1, do_settings. rewrite st_add_chg. exact C. }
  assert (T2 : tomb i s2 = true).
  { apply status_pos_tomb. destruct E2 as [Hm _]. specialize (Hm i). lia. }
  assert (C2 : has_chg i s2 = false).
  { destruct (has_chg i s2) eqn:C2; [|reflexivity]. destruct E2 as [_ [_ E2]].
    destruct (E2 i C2) as [H|[H|H]]; [congruence| |contradiction].
    rewrite (status_no_entry _ _ H) in Hq. contradiction. }
  unfold fetch_finish, create_storage. cbn [andb]. rewrite T2. exact C2.
Qed.

(* ---- the deletion recorded at ANY stage of a fetch / put before the creating transaction commits *)
Lemma inject_tombs : forall del i order s, Inv s -> del <> 0 -> tomb i (inject del i order s) = true.
Proof.
  intros del i order s HI Hd. unfold inject. apply N.eqb_neq in Hd. rewrite Hd.
  destruct (do_settings_step [i] s HI) as [I1 E1].
  assert (Hq : status i (do_settings [i] s) <> 0).
  { unfold do_settings. apply st_add_marks; [apply settings_fields_step; exact HI|].
    unfold sunion. cbn [fold_left]. rewrite memb_sadd, N.eqb_refl. reflexivity. }
  destruct (del =? 1); [now apply status_pos_tomb|].
  destruct (worker_step order never [] _ I1) as [I2 E2].
  apply status_pos_tomb. destruct E2 as [Hm _]. specialize (Hm i). lia.
Qed.

Lemma inject_no_chg : forall del i order s, Inv s -> has_chg i s = false -> del <> 0 ->
  has_chg i (inject del i order s) = false.
Proof.
  intros del i order s HI C Hd. unfold inject. apply N.eqb_neq in Hd. rewrite Hd.
  destruct (do_settings_step [i] s HI) as [I1 E1].
  assert (Hq : status i (do_settings [i] s) <> 0).
  { unfold do_settings. apply st_add_marks; [apply settings_fields_step; exact HI|].
    unfold sunion. cbn [fold_left]. rewrite memb_sadd, N.eqb_refl. reflexivity. }
  assert (C1 : has_chg i (do_settings [i] s) = false).
  { unfold has_chg, do_settings. rewrite st_add_chg. exact C. }
  destruct (del =? 1); [exact C1|].
  destruct (worker_step order never [] _ I1) as [I2 E2].
  destruct (has_chg i (worker order never [] (do_settings [i] s))) eqn:C2; [|reflexivity].
  destruct E2 as [_ [_ E2]]. destruct (E2 i C2) as [H|[H|H]]; [congruence| |contradiction].
  rewrite (status_no_entry _ _ H) in Hq. contradiction.
Qed.

(* Whatever the stage (0..4: after the local lookup, before the request, response in flight, deferred storage handed
   out / validation, entry of the first AddAll) and however it is recorded (queued only, or worker run as well): the
   fetch fails as already deleted and the state is exactly the one the recorded deletion alone produces - nothing of
   the fetched tree is stored.  In particular the outcome is THE SAME for all these stages. *)
Theorem fetch_staged_before_commit : forall s i p d h stage del order,
  Inv s -> has_storage i s = false -> tomb i s = false -> del <> 0 -> stage <= 4 ->
  step true s (OpFetchStaged i p d h stage del order) = (inject del i order s, OErrDeleted).
Proof.
  intros s i p d h stage del order HI Hs T Hd Hst. cbn [step]. unfold fetch_staged. rewrite Hs.
  pose proof (inject_tombs del i order s HI Hd) as TI.
  unfold inject_at, mid_stage. destruct (stage =? 0) eqn:E0.
  - rewrite TI. reflexivity.
  - rewrite T. apply N.eqb_neq in E0.
    assert (L1 : (1 <=? stage) = true) by (apply N.leb_le; lia).
    assert (L4 : (stage <=? 4) = true) by (apply N.leb_le; lia).
    assert (E5 : (stage =? 5) = false) by (apply N.eqb_neq; lia).
    rewrite L1, L4. cbn [andb]. unfold fetch_finish, create_storage. cbn [andb]. rewrite TI, E5. reflexivity.
Qed.

Theorem fetch_staged_never_stores : forall ops i p d h stage del order,
  let s := run true ops init in
  has_storage i s = false -> del <> 0 -> stage <= 4 ->
  has_chg i (fst (step true s (OpFetchStaged i p d h stage del order))) = false
  /\ snd (step true s (OpFetchStaged i p d h stage del order)) = OErrDeleted.
Proof.
  intros ops i p d h stage del order s Hs Hd Hst. pose proof (reach_inv ops) as HI. fold s in HI.
  assert (C : has_chg i s = false).
  { destruct (has_chg i s) eqn:C; [|reflexivity]. destruct (i_chg s HI i C) as [He _].
    unfold has_storage in Hs. rewrite He, C in Hs. discriminate. }
  destruct (tomb i s) eqn:T.
  - (* already tombstoned before: stage 0 still records, the others fail at the tombstone check *)
    cbn [step]. unfold fetch_staged. rewrite Hs. unfold inject_at. destruct (stage =? 0).
    + rewrite (inject_tombs del i order s HI Hd). cbn [fst snd]. split; [|reflexivity].
      now apply inject_no_chg.
    + rewrite T. cbn [fst snd]. split; [exact C | reflexivity].
  - rewrite (fetch_staged_before_commit s i p d h stage del order HI Hs T Hd Hst). cbn [fst snd].
    split; [now apply inject_no_chg | reflexivity].
Qed.

(* stage 5 (after the first AddAll returned): an ordinary fetch, followed by an ordinary deletion of a stored tree *)
Theorem fetch_staged_after_commit : forall s i p d h del order,
  has_storage i s = false -> tomb i s = false ->
  step true s (OpFetchStaged i p d h 5 del order)
  = (let s' := inject del i order (fst (step true s (OpFetch i p d h true))) in
     (s', opened i s' (snd (step true s (OpFetch i p d h true))))).
Proof.
  intros s i p d h del order Hs T. cbn [step]. unfold fetch_staged, inject_at, mid_stage. rewrite Hs.
  cbn [N.eqb Pos.eqb N.leb N.compare Pos.compare Pos.compare_cont andb negb]. rewrite T.
  destruct (fetch_finish true i p d h s) as [s2 o]. reflexivity.
Qed.

(* PutSyncTree: a deletion recorded before its tombstone check or between the check and the creating transaction *)
Theorem put_staged_before_commit : forall s i p d stage del order,
  Inv s -> tomb i s = false -> del <> 0 -> stage <= 1 ->
  step true s (OpPutStaged i p d stage del order) = (inject del i order s, OErrDeleted).
Proof.
  intros s i p d stage del order HI T Hd Hst. cbn [step]. unfold put_staged.
  pose proof (inject_tombs del i order s HI Hd) as TI.
  unfold inject_at. destruct (stage =? 0) eqn:E0.
  - rewrite TI. reflexivity.
  - rewrite T. apply N.eqb_neq in E0.
    assert (E1 : (stage =? 1) = true) by (apply N.eqb_eq; lia).
    assert (E2 : (stage =? 2) = false) by (apply N.eqb_neq; lia).
    rewrite E1. unfold create_storage. cbn [andb]. rewrite TI, E2. reflexivity.
Qed.

(* once tombstoned and not stored, never stored again *)
Theorem no_resurrection : forall ops1 ops2 i,
  tomb i (run true ops1 init) = true -> has_chg i (run true ops1 init) = false ->
  has_chg i (run true (ops1 ++ ops2) init) = false.
Proof.
  intros ops1 ops2 i T C. rewrite run_app. destruct (run_inv ops2 _ (reach_inv ops1)) as [_ [_ [_ H]]].
  destruct (has_chg i (run true ops2 (run true ops1 init))) eqn:E; [|reflexivity].
  apply tomb_spec in T. destruct T as [T1 T2]. destruct (H i E) as [H1|[H1|H1]]; congruence.
Qed.

(* a fully deleted id has nothing stored, at any time *)
Theorem deleted_nothing_stored : forall ops i, status i (run true ops init) = 2 -> has_chg i (run true ops init) = false.
Proof.
  intros ops i H. destruct (has_chg i (run true ops init)) eqn:E; [|reflexivity].
  destruct (i_chg _ (reach_inv ops) i E) as [_ H2]. contradiction.
Qed.

(* the advertised index never contains a tombstoned id — after every operation of every history, including late
   re-delivery of any earlier head-storage notification *)
Theorem index_excludes : forall ops i, status i (run true ops init) <> 0 -> memb i (idx (run true ops init)) = false.
Proof.
  intros ops i H. destruct (memb i (idx (run true ops init))) eqn:E; [|reflexivity].
  apply (i_idx _ (reach_inv ops)) in E. contradiction.
Qed.

Theorem index_never_reenters : forall ops1 ops2 i,
  status i (run true ops1 init) <> 0 -> memb i (idx (run true (ops1 ++ ops2) init)) = false.
Proof.
  intros ops1 ops2 i H. apply index_excludes. pose proof (status_monotone ops1 ops2 i). lia.
Qed.

(* in-memory deletion state is sound w.r.t. the durable tombstones, and complete right after a restart *)
Theorem memory_sound : forall ops i, mem i (run true ops init) = true -> status i (run true ops init) <> 0.
Proof.
  intros ops i H. unfold mem in H. apply orb_true_iff in H. destruct H as [H|H].
  - rewrite (i_mq _ (reach_inv ops) i H). discriminate.
  - apply (i_md _ (reach_inv ops) i) in H. rewrite H. discriminate.
Qed.

Theorem restart_stable : forall ops i,
  let s := run true ops init in
  status i s <= status i (restart s) /\
  (has_chg i (restart s) = has_chg i s) /\
  (mem i (restart s) = true <-> status i (restart s) <> 0) /\
  (memb i (idx (restart s)) = true -> status i (restart s) = 0).
Proof.
  intros ops i s. pose proof (reach_inv ops) as HI. fold s in HI.
  destruct (restart_step s HI) as [I1 [[E1 _] [M1 [_ C1]]]]. split; [apply E1|]. split; [|split].
  - unfold has_chg. now rewrite C1.
  - split; [|apply M1]. intros H. unfold mem in H. apply orb_true_iff in H. destruct H as [H|H].
    + rewrite (i_mq _ I1 i H). discriminate.
    + apply (i_md _ I1 i) in H. rewrite H. discriminate.
  - apply (i_idx _ I1).
Qed.

(* a child created (put or fetched) while its parent is tombstoned is queued in the same transaction *)
Theorem late_child_put : forall ops i p d s',
  let s := run true ops init in
  step true s (OpPut i p d) = (s', OOk) -> p <> 0 -> tomb p s = true -> status i s' = 1.
Proof.
  intros ops i p d s' s H Hp T. pose proof (reach_inv ops) as HI. fold s in HI. cbn [step] in H. unfold do_put in H.
  destruct (tomb i s); [discriminate|]. destruct (create_step s i p d s' HI H) as [_ [_ [_ [_ L]]]]. now apply L.
Qed.

Lemma add_change_status : forall s i h j, status j (add_change i h s) = status j s.
Proof.
  intros s i h j. unfold add_change.
  set (s1 := with_chg _ s).
  assert (Hid : e_id (set_heads [h] (get i s1)) = i) by apply get_id.
  rewrite (upd_status i _ s1 Hid j). destruct (N.eqb_spec j i) as [Ej|Hn]; [subst j|]; reflexivity.
Qed.

Theorem late_child_fetch : forall ops i p d h s',
  let s := run true ops init in
  step true s (OpFetch i p d h true) = (s', OOk) -> p <> 0 -> tomb p s = true -> status i s' = 1.
Proof.
  intros ops i p d h s' s H Hp T. pose proof (reach_inv ops) as HI. fold s in HI. cbn [step] in H.
  destruct (has_storage i s); [discriminate|]. destruct (tomb i s); [discriminate|]. cbn [negb] in H.
  unfold fetch_finish in H. destruct (create_storage true i p d s) as [s1 o1] eqn:C.
  destruct o1; try discriminate. inversion H; subst s'.
  rewrite add_change_status. destruct (create_step s i p d s1 HI C) as [_ [_ [_ [_ L]]]]. now apply L.
Qed.

(* ------------------------------------------------------------------ the code as found (fixed = false) *)
(* a deletion recorded during the round trip of a remote fetch is overridden: the id ends up fully deleted AND stored *)
Definition legacy_witness : list op := [OpFetchRace 1 0 false 1001 [1]].

Lemma legacy_resurrects :
  status 1 (run false legacy_witness init) = 2 /\ has_chg 1 (run false legacy_witness init) = true.
Proof. vm_compute. split; reflexivity. Qed.

(* and a re-created child of a tombstoned parent: the deletion state holds it as deleted (durable status was 2
   when the worker finished), yet its durable status is written back to "queued" and its tree is stored *)
Definition legacy_witness2 : list op :=
  [OpPut 2 0 false; OpSettings [2]; OpFetchRace 1 2 false 1001 [2; 1]].

Lemma legacy_status_regresses :
  memb 1 (md (run false legacy_witness2 init)) = true /\ status 1 (run false legacy_witness2 init) = 1 /\
  has_chg 1 (run false legacy_witness2 init) = true.
Proof. vm_compute. repeat split; reflexivity. Qed.

(* the repaired model on the same histories *)
Lemma fixed_on_witnesses :
  has_chg 1 (run true legacy_witness init) = false /\ status 1 (run true legacy_witness init) = 2 /\
  has_chg 1 (run true legacy_witness2 init) = false /\ status 1 (run true legacy_witness2 init) = 2.
Proof. vm_compute. repeat split; reflexivity. Qed.
