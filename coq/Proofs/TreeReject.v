(* C06 — a rejected batch leaves the presented order unchanged (the rollback of addChangesToTree, Model/TreeReject.v). *)
From Coq Require Import List NArith Bool Arith Permutation Lia.
Import ListNotations.
From AnySync Require Import Lib.Dag Model.Dfs Model.Tree Model.TreeReject Proofs.DfsBase Proofs.TreeInc Proofs.DfsStable Proofs.TreeAppend.

Lemma alookup_map_snd : forall (f : list N -> list N) m k,
  f [] = [] -> alookup (map (fun kv : N * list N => (fst kv, f (snd kv))) m) k = f (alookup m k).
Proof.
  intros f m k Hnil. induction m as [|[k' l] m IH]; cbn [map alookup fst snd]; [now rewrite Hnil|].
  destruct (N.eqb k' k); [reflexivity|exact IH].
Qed.

Lemma rollback_nxf : forall t0 t1 added p, nxf (rollback t0 t1 added) p = drop_ids added (nxf t1 p).
Proof.
  intros t0 t1 added p. unfold nxf, rollback. cbn [t_next]. now rewrite alookup_map_snd.
Qed.

(* Full statement (commented: the last hypothesis is not discharged here):
     forall ops cs, t_att (run_ops ops) <> [] ->
       let '(t1, _, added) := tree_add (run_ops ops) cs in
       t_att (rollback t t1 added) = t_att t /\ ... /\ iter_ids (rollback t t1 added) = iter_ids t.
   Proved below under the visible hypothesis [Hadded] that the ids Tree.Add reports as added (treeChangesAdded) are
   exactly the ids of the changes it attached.  (Proofs/TreeAppend.v records only the LENGTH of the added list in
   [grows]; the hypothesis is what the correspondence check sees on every rejected delivery: the model's rollback is
   compared with the implementation's tree after every rejected batch.) *)
Theorem rollback_unchanged_partial : forall ops cs t1 m added,
  t_att (run_ops ops) <> [] ->
  tree_add (run_ops ops) cs = (t1, m, added) ->
  (forall Nw, t_att t1 = Nw ++ t_att (run_ops ops) -> forall i, mem i added = has_change Nw i) ->
  let t := run_ops ops in
  let tr := rollback t t1 added in
  t_att tr = t_att t /\ t_root tr = t_root t /\ t_heads tr = t_heads t /\ t_last tr = t_last t /\
  iter_ids tr = iter_ids t.
Proof.
  intros ops cs t1 m added Hne E Hadded t tr.
  pose proof (run_ops_inv ops) as Hinv. pose proof (run_ops_inv3 ops) as H3. fold t in Hinv, H3, Hne, E, Hadded.
  pose proof (tree_add_inv t cs Hinv) as Hi1. rewrite E in Hi1. cbn [fst] in Hi1.
  destruct H3 as [Hun Hinv2 Hlast].
  assert (Hshape : exists t0 Nw, inv2 t0 /\ t_att t0 = Nw ++ t_att t /\ t_root t0 = t_root t /\
            t_att t1 = t_att t0 /\ t_root t1 = t_root t0).
  { revert E. unfold tree_add.
    pose proof (add_all_grows cs t [] Hinv Hinv2 Hne) as Hg. cbn zeta in Hg.
    destruct (add_all t [] cs) as [[t0 ad] fresh]. cbn [fst snd] in Hg.
    destruct Hg as [_ [Hi20 [_ [[Hr0 _ [Nw [Ha0 _]] _] _]]]].
    intros E. exists t0, Nw. split; [exact Hi20|]. split; [exact Ha0|]. split; [exact Hr0|].
    destruct (update_heads_core (set_unatt t0 [])) as [Hau [Hru _]].
    destruct ad as [|a ad'].
    - inversion E; subst. split; reflexivity.
    - destruct (root_nil t); inversion E; subst; split; assumption. }
  destruct Hshape as [t0 [Nw [Hi20 [Ha0 [Hr0 [Hau Hru]]]]]].
  assert (Hatt1 : t_att t1 = Nw ++ t_att t) by (rewrite Hau; exact Ha0).
  assert (Hroot1 : t_root t1 = t_root t) by (rewrite Hru; exact Hr0).
  specialize (Hadded Nw Hatt1).
  assert (Hnd : NoDup (ids Nw ++ ids (t_att t))).
  { destruct Hi20 as [Hnd0 _]. rewrite Ha0 in Hnd0. unfold ids in *. rewrite map_app in Hnd0. exact Hnd0. }
  assert (h1 : forall c, In c (t_att t) -> ~ In (cid c) (ids Nw)).
  { intros c Hc Hin. apply (NoDup_app_disjoint _ _ (cid c) Hnd Hin). unfold ids. apply in_map. exact Hc. }
  (* the attached set is restored *)
  assert (Hatt : t_att tr = t_att t).
  { unfold tr, rollback. cbn [t_att]. rewrite Hatt1, filter_app.
    rewrite (filter_none _ _ Nw), (filter_all _ _ (t_att t)); [reflexivity| |].
    - intros c Hc. rewrite Hadded. apply negb_true_iff. unfold has_change. apply mem_false_In. now apply h1.
    - intros c Hc. rewrite Hadded. apply negb_false_iff. unfold has_change. apply mem_In. unfold ids. now apply in_map. }
  assert (Hroot : t_root tr = t_root t) by (unfold tr, rollback; cbn [t_root]; exact Hroot1).
  split; [exact Hatt|]. split; [exact Hroot|]. split; [reflexivity|]. split; [reflexivity|].
  (* the Next lists are the canonical ones of the restored set *)
  assert (Hnx : forall p, nxf tr p = nxf t p).
  { intros p. unfold tr. rewrite rollback_nxf. rewrite (inv_next t1 Hi1 p), (inv_next t Hinv p).
    unfold nonroot. rewrite Hatt1, Hroot1.
    rewrite (next_of_perm _ (view (t_att t ++ Nw) (t_root t)) p) by (apply view_perm, Permutation_app_comm).
    rewrite <- (grow_old_nx (t_att t) Nw (t_root t) h1 p).
    unfold drop_ids. apply filter_ext. intros i. rewrite Hadded. reflexivity. }
  unfold iter_ids, iter_tree. rewrite Hatt, Hroot. destruct (t_att t) eqn:Eat; [reflexivity|].
  rewrite (dfs_loop_ext (nxf tr) (nxf t) _ _ Hnx). reflexivity.
Qed.
