(* Proofs/TreeAuth.v — tree side of C02: what [accept] lets in, what a rejection leaves behind, mutants. *)
From Coq Require Import List NArith Bool Arith Lia.
Import ListNotations.
From AnySync Require Import Model.TreeAuth Proofs.AclBase.
From AnySync Require Model.Dfs.
Open Scope N_scope.

(* ------------------------------------------------------------------------------------------ small list facts *)
Lemma find_rc_In : forall S i c, find_rc S i = Some c -> In c S /\ rc_id c = i.
Proof.
  induction S as [|x S IH]; cbn; intros i c H; [discriminate|].
  destruct (rc_id x =? i) eqn:E.
  - inversion H; subst. apply N.eqb_eq in E. auto.
  - destruct (IH _ _ H). auto.
Qed.

Lemma has_rc_false : forall S i, has_rc S i = false -> forall c, In c S -> rc_id c <> i.
Proof.
  unfold has_rc. induction S as [|x S IH]; cbn; intros i H c Hc; [contradiction|].
  destruct (rc_id x =? i) eqn:E; [discriminate|].
  destruct Hc as [->|Hc]; [apply N.eqb_neq; exact E | apply IH; assumption].
Qed.

Lemma has_rc_true : forall S i, has_rc S i = true <-> exists c, In c S /\ rc_id c = i.
Proof.
  unfold has_rc. intros S i; split.
  - destruct (find_rc S i) eqn:E; [|discriminate]. intros _. exists r. apply find_rc_In; exact E.
  - intros [c [Hc Hi]]. destruct (find_rc S i) eqn:E; [reflexivity|].
    exfalso. revert E. induction S as [|x S IH]; cbn; [contradiction|].
    destruct Hc as [->|Hc]; [rewrite Hi, N.eqb_refl; discriminate|].
    destruct (rc_id x =? i); [discriminate | auto].
Qed.

Lemma has_rc_app : forall A B i, has_rc (A ++ B) i = has_rc A i || has_rc B i.
Proof.
  unfold has_rc. induction A as [|x A IH]; cbn; intros B i; [reflexivity|].
  destruct (rc_id x =? i); [reflexivity | apply IH].
Qed.

Lemma dedup_subset : forall cs seen c, In c (dedup seen cs) -> In c cs.
Proof.
  induction cs as [|x cs IH]; cbn; intros seen c H; [contradiction|].
  destruct (memN (rc_id x) seen).
  - right. eapply IH; eauto.
  - destruct H as [->|H]; [auto | right; eapply IH; eauto].
Qed.

Lemma settle_subset : forall fuel att pend c, In c (settle fuel att pend) -> In c pend.
Proof.
  induction fuel as [|f IH]; intros att pend c H; [cbn in H; contradiction|].
  cbn [settle] in H.
  destruct (filter (attachable att) pend) as [|r0 l0] eqn:E; [cbn in H; contradiction|].
  apply in_app_or in H. destruct H as [H|H].
  - rewrite <- E in H. apply filter_In in H. tauto.
  - apply IH in H. apply filter_In in H. tauto.
Qed.

(* every settled change had all its previous ids attached at the end *)
Lemma attachable_mono : forall att extra c, attachable att c = true -> attachable (extra ++ att) c = true.
Proof.
  unfold attachable. intros att extra c H. rewrite forallb_forall in *. intros p Hp.
  rewrite has_rc_app, (H p Hp). apply orb_true_r.
Qed.

Lemma settle_closed : forall fuel att pend c,
  In c (settle fuel att pend) -> attachable (rev (settle fuel att pend) ++ att) c = true.
Proof.
  induction fuel as [|f IH]; intros att pend c H; [cbn in H; contradiction|].
  cbn [settle] in *.
  destruct (filter (attachable att) pend) as [|r0 l0] eqn:E; [cbn in H; contradiction|].
  rewrite rev_app_distr, <- app_assoc.
  apply in_app_or in H. destruct H as [H|H].
  - rewrite <- E in H. apply filter_In in H. destruct H as [_ H].
    apply attachable_mono. apply attachable_mono. exact H.
  - apply IH in H. exact H.
Qed.

(* ------------------------------------------------------------------------------------------ Next lists *)
Lemma nlookup_nupdate : forall m p g k,
  nlookup (nupdate m p g) k = if p =? k then g (nlookup m k) else nlookup m k.
Proof.
  induction m as [|[k' v] m IH]; cbn; intros p g k.
  - destruct (p =? k); reflexivity.
  - destruct (k' =? p) eqn:E.
    + apply N.eqb_eq in E; subst. cbn. destruct (p =? k); reflexivity.
    + cbn. destruct (k' =? k) eqn:E2.
      * apply N.eqb_eq in E2; subst. rewrite N.eqb_sym, E. reflexivity.
      * apply IH.
Qed.

Lemma nlookup_map : forall (f : list N -> list N) m k, f [] = [] ->
  nlookup (map (fun kv => (fst kv, f (snd kv))) m) k = f (nlookup m k).
Proof.
  intros f m k Hf. induction m as [|[k' v] m IH]; cbn; [symmetry; exact Hf|].
  destruct (k' =? k); [reflexivity | exact IH].
Qed.

Lemma In_insert_sorted : forall x y l, In x (insert_sorted y l) <-> x = y \/ In x l.
Proof.
  intros x y l. induction l as [|z l IH]; cbn.
  - intuition congruence.
  - destruct (y <=? z); cbn; [intuition congruence|].
    rewrite IH. intuition congruence.
Qed.

Lemma filter_insert_sorted_out : forall (P : N -> bool) x l, P x = false ->
  filter P (insert_sorted x l) = filter P l.
Proof.
  intros P x l Hx. induction l as [|z l IH]; cbn; [rewrite Hx; reflexivity|].
  destruct (x <=? z); cbn; [rewrite Hx; reflexivity|].
  rewrite IH. reflexivity.
Qed.

Lemma link_lookup_filter : forall (P : N -> bool) c nx k, P (rc_id c) = false ->
  filter P (nlookup (link nx c) k) = filter P (nlookup nx k).
Proof.
  intros P c nx k Hc. unfold link. generalize (rc_prev c) as ps. intros ps. revert nx.
  induction ps as [|p ps IH]; cbn; intros nx; [reflexivity|].
  rewrite IH, nlookup_nupdate. destruct (p =? k); [|reflexivity].
  unfold ins_sorted. apply filter_insert_sorted_out; exact Hc.
Qed.

Lemma link_all_lookup_filter : forall (P : N -> bool) cs nx k,
  (forall c, In c cs -> P (rc_id c) = false) ->
  filter P (nlookup (link_all nx cs) k) = filter P (nlookup nx k).
Proof.
  intros P cs. unfold link_all. induction cs as [|c cs IH]; cbn; intros nx k H; [reflexivity|].
  rewrite IH by auto. apply link_lookup_filter. auto.
Qed.

Lemma link_In : forall c nx k x, In x (nlookup (link nx c) k) -> x = rc_id c \/ In x (nlookup nx k).
Proof.
  intros c nx k x. unfold link. generalize (rc_prev c) as ps. intros ps. revert nx.
  induction ps as [|p ps IH]; cbn; intros nx H; [auto|].
  apply IH in H. destruct H as [H|H]; [auto|].
  rewrite nlookup_nupdate in H. destruct (p =? k); [|auto].
  unfold ins_sorted in H. apply In_insert_sorted in H. tauto.
Qed.

Lemma link_all_In : forall cs nx k x,
  In x (nlookup (link_all nx cs) k) -> In x (rc_ids cs) \/ In x (nlookup nx k).
Proof.
  unfold link_all. induction cs as [|c cs IH]; cbn; intros nx k x H; [auto|].
  apply IH in H. destruct H as [H|H]; [auto|].
  apply link_In in H. destruct H as [H|H]; auto.
Qed.

Lemma filter_all_true : forall (P : N -> bool) l, (forall x, In x l -> P x = true) -> filter P l = l.
Proof.
  intros P l. induction l as [|x l IH]; cbn; intros H; [reflexivity|].
  rewrite (H x) by auto. f_equal. apply IH. auto.
Qed.

(* iteration only looks at the Next lists through [nlookup] *)
Lemma dfs_loop_ext : forall (f g : N -> list N), (forall x, f x = g x) ->
  forall fuel s, Dfs.dfs_loop f fuel s = Dfs.dfs_loop g fuel s.
Proof.
  intros f g H. induction fuel as [|n IH]; intros s; cbn.
  - reflexivity.
  - destruct (Dfs.d_stack s) eqn:E; [reflexivity|].
    assert (Hs : Dfs.dfs_step f s = Dfs.dfs_step g s).
    { unfold Dfs.dfs_step. rewrite E. rewrite H. reflexivity. }
    rewrite Hs. apply IH.
Qed.

Lemma iter_seq_ext : forall t1 t2, at_root t1 = at_root t2 -> at_att t1 = at_att t2 ->
  (forall k, nlookup (at_next t1) k = nlookup (at_next t2) k) -> iter_seq t1 = iter_seq t2.
Proof.
  intros t1 t2 Hr Ha Hn. unfold iter_seq, iter_with. rewrite Hr, Ha, (dfs_loop_ext _ _ Hn). reflexivity.
Qed.

(* ------------------------------------------------------------------------------------------ well-formed trees *)
Record wf (t : atree) : Prop := mkWf {
  wf_root : has_rc (at_att t) (at_root t) = true;
  wf_next : forall k x, In x (nlookup (at_next t) k) -> has_rc (at_att t) x = true
}.

(* the shape of a successful / failed call *)
Definition news_of (t : atree) (batch : list rawchange) : list rawchange :=
  filter (fun c => negb (has_rc (at_att t) (rc_id c))) batch.
Definition added_of_call (t : atree) (batch : list rawchange) : list rawchange :=
  settle (S (length (news_of t batch))) (at_att t) (dedup [] (news_of t batch)).

Lemma added_in_news : forall t batch c, In c (added_of_call t batch) -> In c (news_of t batch).
Proof. intros t batch c H. apply settle_subset in H. apply dedup_subset in H. exact H. Qed.

Lemma added_fresh : forall t batch c, In c (added_of_call t batch) -> has_rc (at_att t) (rc_id c) = false.
Proof.
  intros t batch c H. apply added_in_news in H. apply filter_In in H. destruct H as [_ H].
  apply negb_true_iff in H. exact H.
Qed.

Definition nilc (l : list rawchange) : bool := match l with [] => true | _ => false end.

Lemma accept_unfold : forall a t batch,
  accept a t batch =
  let news := news_of t batch in
  let ad := added_of_call t batch in
  let att1 := rev ad ++ at_att t in
  let nx1 := link_all (at_next t) ad in
  if negb (forallb (unmarshal_ok t) news) then (t, RErr EUnmarshal)
  else if nilc news then (t, ROk [])
  else if negb (forallb (fun c => rc_snap c =? at_root t) news) then (t, RUnmodelled)
  else if nilc ad then (t, ROk [])
  else if forallb (validate_change a t att1) ad then
    (mkAT (at_root t) (at_derived t) att1 nx1 (sort_N (heads_in_order (at_root t) att1 nx1))
          (List.last (heads_in_order (at_root t) att1 nx1) 0) (rev (rc_ids ad) ++ at_stored t), ROk (rc_ids ad))
  else (rollback t att1 nx1 ad, RErr EInvalid).
Proof.
  intros a t batch. unfold accept, added_of_call, news_of. cbn zeta.
  destruct (negb (forallb (unmarshal_ok t) _)); [reflexivity|].
  destruct (filter _ batch) as [|n0 ns] eqn:EN; [reflexivity|]. cbn [nilc].
  destruct (negb (forallb _ (n0 :: ns))); [reflexivity|].
  destruct (settle _ _ _) as [|c0 cs]; reflexivity.
Qed.

Lemma nilc_false : forall l, nilc l = false -> l <> [].
Proof. intros [|x l] H; [discriminate | discriminate]. Qed.

Lemma accept_ok_shape : forall a t batch t' added,
  accept a t batch = (t', ROk added) ->
  (t' = t /\ added = []) \/
  (let ad := added_of_call t batch in
   added = rc_ids ad /\ ad <> [] /\
   forallb (unmarshal_ok t) (news_of t batch) = true /\
   forallb (validate_change a t (rev ad ++ at_att t)) ad = true /\
   at_att t' = rev ad ++ at_att t /\ at_next t' = link_all (at_next t) ad /\
   at_root t' = at_root t /\ at_derived t' = at_derived t /\
   at_stored t' = rev (rc_ids ad) ++ at_stored t).
Proof.
  intros a t batch t' added. rewrite accept_unfold. cbn zeta.
  destruct (forallb (unmarshal_ok t) (news_of t batch)) eqn:EU; cbn [negb]; [|discriminate].
  destruct (nilc (news_of t batch)); [intros H; inversion H; auto|].
  destruct (negb (forallb _ (news_of t batch))); [discriminate|].
  destruct (nilc (added_of_call t batch)) eqn:EA; [intros H; inversion H; auto|].
  destruct (forallb (validate_change a t _) (added_of_call t batch)) eqn:EV; [|discriminate].
  intros H; inversion H; subst; clear H. right. cbn.
  repeat split; auto. apply nilc_false; exact EA.
Qed.

Lemma accept_err_shape : forall a t batch t' e,
  accept a t batch = (t', RErr e) ->
  t' = t \/
  (let ad := added_of_call t batch in
   e = EInvalid /\ t' = rollback t (rev ad ++ at_att t) (link_all (at_next t) ad) ad).
Proof.
  intros a t batch t' e. rewrite accept_unfold. cbn zeta.
  destruct (negb (forallb (unmarshal_ok t) (news_of t batch))); [intros H; inversion H; auto|].
  destruct (nilc (news_of t batch)); [discriminate|].
  destruct (negb (forallb _ (news_of t batch))); [discriminate|].
  destruct (nilc (added_of_call t batch)); [discriminate|].
  destruct (forallb (validate_change a t _) (added_of_call t batch)); [discriminate|].
  intros H; inversion H; subst. right. cbn. auto.
Qed.

Lemma accept_unmodelled_same : forall a t batch t', accept a t batch = (t', RUnmodelled) -> t' = t.
Proof.
  intros a t batch t'. rewrite accept_unfold. cbn zeta.
  destruct (negb (forallb (unmarshal_ok t) (news_of t batch))); [discriminate|].
  destruct (nilc (news_of t batch)); [discriminate|].
  destruct (negb (forallb _ (news_of t batch))); [intros H; inversion H; reflexivity|].
  destruct (nilc (added_of_call t batch)); [discriminate|].
  destruct (forallb (validate_change a t _) (added_of_call t batch)); discriminate.
Qed.

(* ------------------------------------------------------------------------------------------ (1) soundness *)

(* what the property demands of a change that is part of the tree, in terms of the receiver's ACL view *)
Definition sound_change (a : aclv) (t' : atree) (c : rawchange) : Prop :=
  rc_cid_ok c = true /\ rc_canon c = true /\ rc_decodes c = true /\
  (is_derived_root t' (rc_id c) = true \/
   (rc_sig_ok c = true /\
    has_head (av_ids a) (rc_head c) = true /\
    (exists p, perm_at a (rc_head c) (rc_ident c) = Some p /\ can_write p = true) /\
    (rc_id c <> at_root t' ->
     forall pid, In pid (rc_prev c) ->
       exists pc, find_rc (at_att t') pid = Some pc /\
         (is_derived_root t' (rc_id pc) = true \/
          (has_head (av_ids a) (rc_head pc) = true /\
           (idx0 (av_ids a) (rc_head pc) <= idx0 (av_ids a) (rc_head c))%nat))))).

Lemma perm_at_has_head : forall a r w p, perm_at a r w = Some p -> has_head (av_ids a) r = true.
Proof.
  unfold perm_at. intros a r w p H. destruct (has_head (av_ids a) r); [reflexivity | discriminate].
Qed.

Lemma checks_sound : forall a t att c,
  unmarshal_ok t c = true -> validate_change a t att c = true ->
  forall t', at_root t' = at_root t -> at_derived t' = at_derived t -> at_att t' = att ->
  sound_change a t' c.
Proof.
  intros a t att c HU HV t' Hr Hd Ha.
  unfold unmarshal_ok in HU. repeat rewrite andb_true_iff in HU. destruct HU as [[[Hc Hdec] Hcan] Hs].
  unfold sound_change. repeat split; auto.
  assert (Eq : forall i, is_derived_root t' i = is_derived_root t i).
  { intros i. unfold is_derived_root. rewrite Hr, Hd. reflexivity. }
  rewrite Eq. unfold validate_change in HV.
  destruct (is_derived_root t (rc_id c)) eqn:ED; [left; reflexivity|]. right.
  cbn in Hs. destruct (perm_at a (rc_head c) (rc_ident c)) as [p|] eqn:EP; [|discriminate].
  apply andb_true_iff in HV. destruct HV as [Hw Hp].
  split; [exact Hs|]. split; [eapply perm_at_has_head; eauto|]. split; [exists p; auto|].
  intros Hne pid Hin. rewrite Hr in Hne. apply N.eqb_neq in Hne. rewrite Hne in Hp.
  rewrite forallb_forall in Hp. specialize (Hp pid Hin). unfold prev_ok in Hp. rewrite Ha.
  destruct (find_rc att pid) as [pc|]; [|discriminate]. exists pc. split; [reflexivity|].
  rewrite Eq. destruct (is_derived_root t (rc_id pc)); [left; reflexivity|]. right.
  rewrite orb_false_r in Hp. apply orb_true_iff in Hp. destruct Hp as [Hp|Hp].
  - apply N.eqb_eq in Hp. rewrite Hp. split; [eapply perm_at_has_head; eauto | lia].
  - unfold is_after in Hp.
    destruct (has_head (av_ids a) (rc_head c) && has_head (av_ids a) (rc_head pc)) eqn:EH; [|discriminate].
    apply andb_true_iff in EH. destruct EH as [_ EH]. split; [exact EH|].
    unfold is_after_nc in Hp. apply Nat.leb_le in Hp. exact Hp.
Qed.

(* (1) every change that is attached after a successful call and was not attached before came with the batch,
   passed Unmarshall(verify) and passed validateChange against the receiver's ACL *)
Theorem accept_sound : forall a t batch t' added,
  accept a t batch = (t', ROk added) ->
  forall c, In c (at_att t') -> In c (at_att t) \/ (In c batch /\ In (rc_id c) added /\ sound_change a t' c).
Proof.
  intros a t batch t' added H c Hc. apply accept_ok_shape in H. destruct H as [[-> _]|H]; [left; exact Hc|].
  cbn in H. destruct H as (Had & _ & HU & HV & Hatt & _ & Hr & Hd & _).
  rewrite Hatt in Hc. apply in_app_or in Hc. destruct Hc as [Hc|Hc]; [|left; exact Hc]. right.
  apply in_rev in Hc. pose proof (added_in_news _ _ _ Hc) as Hn.
  split; [apply filter_In in Hn; tauto|]. split; [rewrite Had; apply in_map; exact Hc|].
  rewrite forallb_forall in HU, HV.
  eapply checks_sound; eauto.
Qed.

(* the stored set grows by exactly the announced ids; the announced ids are exactly the newly attached ones *)
Theorem accept_stored : forall a t batch t' added,
  accept a t batch = (t', ROk added) ->
  at_stored t' = rev added ++ at_stored t /\ rc_ids (at_att t') = rev added ++ rc_ids (at_att t).
Proof.
  intros a t batch t' added H. apply accept_ok_shape in H. destruct H as [[-> ->]|H]; [auto|].
  cbn in H. destruct H as (-> & _ & _ & _ & Hatt & _ & _ & _ & Hst).
  split; [exact Hst|]. rewrite Hatt. unfold rc_ids. rewrite map_app, map_rev. reflexivity.
Qed.

(* ------------------------------------------------------------------------------------------ (4) rejection is a no-op *)

Lemma rollback_att : forall t ad,
  (forall c, In c ad -> has_rc (at_att t) (rc_id c) = false) ->
  filter (fun c => negb (memN (rc_id c) (rc_ids ad))) (rev ad ++ at_att t) = at_att t.
Proof.
  intros t ad Hf. rewrite filter_app.
  assert (E1 : filter (fun c => negb (memN (rc_id c) (rc_ids ad))) (rev ad) = []).
  { assert (G : forall l, (forall c, In c l -> In c ad) ->
                 filter (fun c => negb (memN (rc_id c) (rc_ids ad))) l = []).
    { induction l as [|x l IH]; cbn; intros Hl; [reflexivity|].
      assert (Hm : memN (rc_id x) (rc_ids ad) = true).
      { apply memN_In. apply in_map. apply Hl. auto. }
      rewrite Hm. cbn. apply IH. auto. }
    apply G. intros c Hc. apply in_rev. exact Hc. }
  rewrite E1. cbn.
  assert (G : forall l, (forall x, In x l -> In x (at_att t)) ->
            filter (fun c => negb (memN (rc_id c) (rc_ids ad))) l = l).
  { induction l as [|x l IH]; cbn; intros Hl; [reflexivity|].
    assert (Hm : memN (rc_id x) (rc_ids ad) = false).
    { apply memN_false. intros Hin. apply in_map_iff in Hin. destruct Hin as [c [Hid Hc]].
      pose proof (has_rc_false _ _ (Hf c Hc) x (Hl x (or_introl eq_refl))) as Hne. congruence. }
    rewrite Hm. cbn. f_equal. apply IH. auto. }
  apply G. auto.
Qed.

Theorem reject_noop : forall a t batch t' e,
  wf t ->
  accept a t batch = (t', RErr e) ->
  at_att t' = at_att t /\ (forall k, nlookup (at_next t') k = nlookup (at_next t) k) /\
  at_heads t' = at_heads t /\ at_last t' = at_last t /\ at_stored t' = at_stored t /\
  at_root t' = at_root t /\ at_derived t' = at_derived t /\ iter_seq t' = iter_seq t.
Proof.
  intros a t batch t' e W H. apply accept_err_shape in H. destruct H as [->|H]; [repeat split; auto|].
  cbn in H. destruct H as [_ ->]. set (ad := added_of_call t batch).
  assert (Hatt : at_att (rollback t (rev ad ++ at_att t) (link_all (at_next t) ad) ad) = at_att t).
  { cbn [at_att rollback]. apply rollback_att. intros c Hc. eapply added_fresh; eauto. }
  assert (Hnx : forall k, nlookup (at_next (rollback t (rev ad ++ at_att t) (link_all (at_next t) ad) ad)) k
                          = nlookup (at_next t) k).
  { intros k. cbn [at_next rollback].
    rewrite (nlookup_map (filter (fun i => negb (memN i (rc_ids ad))))) by reflexivity.
    rewrite link_all_lookup_filter.
    - apply filter_all_true. intros x Hx. apply negb_true_iff. apply memN_false. intros Hin.
      apply in_map_iff in Hin. destruct Hin as [c [Hid Hc]].
      pose proof (wf_next t W k x Hx) as Hh. apply has_rc_true in Hh. destruct Hh as [y [Hy Hyid]].
      pose proof (has_rc_false _ _ (added_fresh _ _ _ Hc) y Hy). congruence.
    - intros c Hc. apply negb_false_iff. apply memN_In. apply in_map. exact Hc. }
  pose proof (iter_seq_ext (rollback t (rev ad ++ at_att t) (link_all (at_next t) ad) ad) t eq_refl Hatt Hnx) as Hit.
  repeat split; auto.
Qed.

(* ------------------------------------------------------------------------------------------ wf is an invariant *)
Theorem build_wf : forall a root derived t, build a root derived = Some t -> wf t.
Proof.
  intros a root derived t. unfold build.
  destruct (_ && _ && _); [|discriminate]. intros H; inversion H; subst; clear H.
  constructor; cbn.
  - unfold has_rc. cbn. rewrite N.eqb_refl. reflexivity.
  - intros k x [].
Qed.

Theorem accept_wf : forall a t batch t' r, wf t -> accept a t batch = (t', r) -> wf t'.
Proof.
  intros a t batch t' r W H. destruct r as [added|e|].
  - apply accept_ok_shape in H. destruct H as [[-> _]|H]; [exact W|].
    cbn in H. destruct H as (_ & _ & _ & _ & Hatt & Hnx & Hr & _ & _).
    constructor.
    + rewrite Hatt, Hr, has_rc_app, (wf_root t W). apply orb_true_r.
    + intros k x Hx. rewrite Hnx in Hx. rewrite Hatt, has_rc_app.
      apply link_all_In in Hx. destruct Hx as [Hx|Hx].
      * apply orb_true_iff. left. apply has_rc_true. apply in_map_iff in Hx. destruct Hx as [c [Hid Hc]].
        exists c. split; [apply in_rev in Hc; exact Hc | exact Hid].
      * rewrite (wf_next t W k x Hx). apply orb_true_r.
  - pose proof (reject_noop _ _ _ _ _ W H) as (Ha & Hn & _ & _ & _ & Hr & _ & _).
    constructor.
    + rewrite Ha, Hr. apply (wf_root t W).
    + intros k x Hx. rewrite Hn in Hx. rewrite Ha. apply (wf_next t W k x Hx).
  - apply accept_unmodelled_same in H. subst. exact W.
Qed.

(* ------------------------------------------------------------------------------------------ (3) mutants *)

(* a delivered change that is not attached yet and fails Unmarshall(verify) fails the whole batch, wherever it sits,
   and nothing is touched *)
Theorem bad_change_rejects_batch : forall a t batch c,
  In c batch -> has_rc (at_att t) (rc_id c) = false -> unmarshal_ok t c = false ->
  accept a t batch = (t, RErr EUnmarshal).
Proof.
  intros a t batch c Hin Hf Hu. unfold accept.
  assert (E : forallb (unmarshal_ok t) (filter (fun c0 => negb (has_rc (at_att t) (rc_id c0))) batch) = false).
  { apply not_true_iff_false. intros HT. rewrite forallb_forall in HT.
    specialize (HT c). rewrite Hu in HT. assert (false = true); [|discriminate]. apply HT.
    apply filter_In. split; [exact Hin | rewrite Hf; reflexivity]. }
  rewrite E. reflexivity.
Qed.

(* in the term algebra the only deliverable terms that pass Unmarshall(verify) are the honest ones *)
Lemma sym_unmarshal_honest : forall t d,
  is_derived_root t (dl_num d) = false ->
  unmarshal_ok t (to_raw d) = true ->
  d = honest (dl_num d) (wr_payload (dl_wire d)).
Proof.
  intros t [i n [p s pad]] Hd H. unfold unmarshal_ok, to_raw in H. cbn in *.
  rewrite Hd in H. cbn in H. repeat rewrite andb_true_iff in H. destruct H as [[[Hc _] Hp] Hs].
  unfold sym_cid_ok in Hc. cbn in Hc. destruct (id_eq_dec i (Cid (mkWire p s pad))) as [->|]; [|discriminate].
  unfold sym_sig_ok in Hs. cbn in Hs. destruct (sig_eq_dec s (Sig (p_ident p) p)) as [->|]; [|discriminate].
  apply N.eqb_eq in Hp. subst. reflexivity.
Qed.

(* any alteration of an honest change — of its payload (data, claimed identity, ACL head, parents, snapshot base, ...),
   of its signature, of the bytes around them, or of its id — that keeps the original signature or the original id
   (that is: anything short of a fresh honest change signed by the identity it names) is rejected with the whole batch *)
Theorem mutation_rejected : forall a t batch num p d',
  wf t ->
  let d := honest num p in
  (dl_id d' <> dl_id d \/ dl_wire d' <> dl_wire d) ->
  (wr_sig (dl_wire d') = wr_sig (dl_wire d) \/ dl_id d' = dl_id d) ->
  has_rc (at_att t) (dl_num d') = false ->
  In (to_raw d') batch ->
  accept a t batch = (t, RErr EUnmarshal).
Proof.
  intros a t batch num p d' W d Hdiff Hkeep Hfresh Hin.
  apply (bad_change_rejects_batch a t batch (to_raw d')); auto.
  apply not_true_iff_false. intros HU.
  assert (Hnr : is_derived_root t (dl_num d') = false).
  { unfold is_derived_root. destruct (dl_num d' =? at_root t) eqn:E; [|apply andb_false_r].
    apply N.eqb_eq in E. rewrite E in Hfresh. rewrite (wf_root t W) in Hfresh. discriminate. }
  pose proof (sym_unmarshal_honest t d' Hnr HU) as Hh.
  destruct d' as [i' n' [p' s' pad']]. unfold honest in Hh. cbn in *. inversion Hh; subst; clear Hh.
  destruct Hkeep as [Hk|Hk].
  - inversion Hk; subst. destruct Hdiff as [Hd|Hd]; apply Hd; reflexivity.
  - inversion Hk; subst. destruct Hdiff as [Hd|Hd]; apply Hd; reflexivity.
Qed.

(* the code before fixes/C02-canonical-rawchange.patch: a padded copy of an honest change (same payload, same
   signature, id recomputed over the padded bytes) passes Unmarshall(verify) *)
Lemma legacy_padding_passes : forall t num num' p pad,
  p_ident p <> 0 -> pad <> 0 ->
  let w := mkWire p (Sig (p_ident p) p) pad in
  unmarshal_ok_legacy t (to_raw (mkDelivered (Cid w) num' w)) = true /\
  unmarshal_ok t (to_raw (mkDelivered (Cid w) num' w)) = false /\
  to_raw (mkDelivered (Cid w) num' w) <> to_raw (honest num p).
Proof.
  intros t num num' p pad Hi Hp w.
  assert (Hc : sym_cid_ok (mkDelivered (Cid w) num' w) = true).
  { unfold sym_cid_ok. cbn [dl_id dl_wire]. destruct (id_eq_dec (Cid w) (Cid w)); [reflexivity|congruence]. }
  assert (Hs : sym_sig_ok (mkDelivered (Cid w) num' w) = true).
  { unfold sym_sig_ok. subst w. cbn [dl_wire wr_sig wr_payload].
    destruct (sig_eq_dec (Sig (p_ident p) p) (Sig (p_ident p) p)); [reflexivity|congruence]. }
  unfold unmarshal_ok_legacy, unmarshal_ok, to_raw.
  cbn [rc_cid_ok rc_decodes rc_canon rc_sig_ok rc_id dl_num dl_wire]. rewrite Hc, Hs.
  subst w. cbn [wr_payload wr_pad].
  apply N.eqb_neq in Hi. apply N.eqb_neq in Hp. rewrite Hi, Hp. cbn [negb andb].
  split; [rewrite orb_true_r; reflexivity|].
  split; [reflexivity|].
  unfold honest. cbn [dl_num dl_wire wr_payload wr_pad]. intros E. inversion E.
Qed.
