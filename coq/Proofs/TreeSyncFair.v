(* Proofs/TreeSyncFair.v — C01: executable recognisers for [exchange] / [fair] with explicit split points, proved sound;
   used by the non-vacuity examples of Properties/C01.v (concrete traces are checked by vm_compute). *)
From Coq Require Import List NArith Bool Arith Lia.
Import ListNotations.
From AnySync Require Import Lib.Dag Model.Dfs Model.Tree Model.LoadIter Model.TreeSync Proofs.DfsBase
  Proofs.TreeSyncClosure Proofs.TreeSyncConverge Proofs.TreeSyncSnapshot Proofs.TreeSyncExchange.

Definition msg_eqb (a b : msg) : bool :=
  match a, b with
  | MHead h c p, MHead h' c' p' => list_eqb h h' && list_eqb c c' && list_eqb p p'
  | MReq h p, MReq h' p' => list_eqb h h' && list_eqb p p'
  | MResp h c p, MResp h' c' p' => list_eqb h h' && list_eqb c c' && list_eqb p p'
  | _, _ => false
  end.

Definition label_eqb (a b : label) : bool :=
  match a, b with
  | LocalAdd r s i z, LocalAdd r' s' i' z' => Nat.eqb r r' && Bool.eqb s s' && N.eqb i i' && N.eqb z z'
  | Deliver r f m, Deliver r' f' m' => Nat.eqb r r' && Nat.eqb f f' && msg_eqb m m'
  | SyncWithPeer r p, SyncWithPeer r' p' => Nat.eqb r r' && Nat.eqb p p'
  | _, _ => false
  end.

Lemma msg_eqb_eq : forall a b, msg_eqb a b = true -> a = b.
Proof.
  intros [h c p|h p|h c p] [h' c' p'|h' p'|h' c' p'] H; cbn [msg_eqb] in H; try discriminate;
    repeat (apply andb_true_iff in H; destruct H as [H ?]);
    repeat match goal with E : list_eqb _ _ = true |- _ => apply list_eqb_true in E end; subst; reflexivity.
Qed.

Lemma label_eqb_eq : forall a b, label_eqb a b = true -> a = b.
Proof.
  intros [r s i z|r f m|r p] [r' s' i' z'|r' f' m'|r' p'] H; cbn [label_eqb] in H; try discriminate;
    repeat (apply andb_true_iff in H; destruct H as [H ?]);
    repeat match goal with
           | E : Nat.eqb _ _ = true |- _ => apply Nat.eqb_eq in E
           | E : N.eqb _ _ = true |- _ => apply N.eqb_eq in E
           | E : Bool.eqb _ _ = true |- _ => apply Bool.eqb_prop in E
           | E : msg_eqb _ _ = true |- _ => apply msg_eqb_eq in E
           end; subst; reflexivity.
Qed.

Fixpoint skip_to (d : label) (ls : list label) : option (list label) :=
  match ls with
  | [] => None
  | l :: t => if label_eqb l d then Some t else skip_to d t
  end.

Lemma skip_to_split : forall d ls t, skip_to d ls = Some t -> exists l1, ls = l1 ++ d :: t.
Proof.
  intros d ls. induction ls as [|l r IH]; intros t H; cbn [skip_to] in H; [discriminate|].
  destruct (label_eqb l d) eqn:E.
  - inversion H; subst t. apply label_eqb_eq in E. subst l. exists []. reflexivity.
  - destruct (IH t H) as [l1 E1]. exists (l :: l1). rewrite E1. reflexivity.
Qed.

Fixpoint in_order_b (ds ls : list label) : bool :=
  match ds with
  | [] => true
  | d :: r => match skip_to d ls with Some t => in_order_b r t | None => false end
  end.

Lemma in_order_b_sound : forall ds ls, in_order_b ds ls = true -> in_order ds ls.
Proof.
  induction ds as [|d r IH]; intros ls H; cbn [in_order_b in_order] in *; [exact I|].
  destruct (skip_to d ls) as [t|] eqn:E; [|discriminate]. destruct (skip_to_split _ _ _ E) as [l1 E1].
  exists l1, t. split; [exact E1 | apply IH; exact H].
Qed.

(* the exchange i -> j with the SyncWithPeer label at index k0, the request delivered k1 labels later and the
   counter-request (if j emits one) delivered k3 labels after that *)
Definition exchange_at (nb : N -> liter -> batch * liter) (w : world) (ls : list label) (i j k0 k1 k3 : nat) : bool :=
  let l0 := firstn k0 ls in
  match skipn k0 ls with
  | s :: rest1 =>
      let l1 := firstn k1 rest1 in
      match skipn k1 rest1 with
      | d :: l2 =>
          let w0 := run nb w l0 in
          let req := full_request (wG w0) (get_rep w0 i) in
          let w1 := run nb w0 (SyncWithPeer i j :: l1) in
          let em := snd (step nb w1 (Deliver j i req)) in
          label_eqb s (SyncWithPeer i j) && label_eqb d (Deliver j i req)
          && in_order_b (resp_labels i j em) l2
          && forallb (fun e =>
               match e with
               | (a, MReq h pa) =>
                   if Nat.eqb a i then
                     let l3 := firstn k3 l2 in
                     match skipn k3 l2 with
                     | d3 :: l4 =>
                         label_eqb d3 (Deliver i j (MReq h pa))
                         && in_order_b (resp_labels j i (snd (step nb (run nb w1 (Deliver j i req :: l3)) (Deliver i j (MReq h pa))))) l4
                     | [] => false
                     end
                   else true
               | _ => true
               end) em
      | [] => false
      end
  | [] => false
  end.

Lemma exchange_at_sound : forall nb w ls i j k0 k1 k3,
  exchange_at nb w ls i j k0 k1 k3 = true -> exchange nb w ls i j.
Proof.
  intros nb w ls i j k0 k1 k3 H. unfold exchange_at in H.
  destruct (skipn k0 ls) as [|s rest1] eqn:E0; [discriminate|].
  destruct (skipn k1 rest1) as [|d l2] eqn:E1; [discriminate|].
  cbv zeta in H. apply andb_true_iff in H. destruct H as [H Hfa]. apply andb_true_iff in H. destruct H as [H Hio].
  apply andb_true_iff in H. destruct H as [Hs Hd]. apply label_eqb_eq in Hs. apply label_eqb_eq in Hd. subst s d.
  exists (firstn k0 ls), (firstn k1 rest1), l2. cbv zeta. split; [|split].
  - rewrite <- (firstn_skipn k0 ls) at 1. rewrite E0. f_equal. f_equal.
    rewrite <- (firstn_skipn k1 rest1) at 1. rewrite E1. reflexivity.
  - apply in_order_b_sound. exact Hio.
  - intros h pa Hin. rewrite forallb_forall in Hfa. specialize (Hfa _ Hin). cbn beta iota in Hfa. rewrite Nat.eqb_refl in Hfa.
    destruct (skipn k3 l2) as [|d3 l4] eqn:E3; [discriminate|].
    apply andb_true_iff in Hfa. destruct Hfa as [H3 H4]. apply label_eqb_eq in H3. subst d3.
    exists (firstn k3 l2), l4. split; [rewrite <- (firstn_skipn k3 l2) at 1; rewrite E3; reflexivity|].
    apply in_order_b_sound. exact H4.
Qed.

(* a schedule of exchanges: (i, j, k0, k1, k3) *)
Definition fair_by (nb : N -> liter -> batch * liter) (w : world) (ls : list label) (sched : list (nat * nat * nat * nat * nat)) : bool :=
  let n := length (w_reps w) in
  forallb (fun i => forallb (fun j =>
      Nat.eqb i j
      || existsb (fun s => match s with (a, b, k0, k1, k3) =>
            ((Nat.eqb a i && Nat.eqb b j) || (Nat.eqb a j && Nat.eqb b i)) && exchange_at nb w ls a b k0 k1 k3 end) sched)
    (seq 0 n)) (seq 0 n).

Lemma fair_by_sound : forall nb w ls sched, fair_by nb w ls sched = true -> fair nb w ls.
Proof.
  intros nb w ls sched H i j Hi Hj Hij. unfold fair_by in H. rewrite forallb_forall in H.
  assert (Hsi : In i (seq 0 (length (w_reps w)))) by (apply in_seq; lia).
  assert (Hsj : In j (seq 0 (length (w_reps w)))) by (apply in_seq; lia).
  specialize (H i Hsi). rewrite forallb_forall in H. specialize (H j Hsj).
  apply orb_true_iff in H. destruct H as [H|H]; [apply Nat.eqb_eq in H; contradiction|].
  apply existsb_exists in H. destruct H as [[[[[a b] k0] k1] k3] [_ H]].
  apply andb_true_iff in H. destruct H as [Hab Hex]. apply exchange_at_sound in Hex.
  apply orb_true_iff in Hab. destruct Hab as [Hab|Hab]; apply andb_true_iff in Hab; destruct Hab as [Ha Hb];
    apply Nat.eqb_eq in Ha; apply Nat.eqb_eq in Hb; subst a b; [left | right]; exact Hex.
Qed.

Definition noadd_b (ls : list label) : bool := forallb (fun l => negb (is_add l)) ls.

Lemma noadd_b_sound : forall ls, noadd_b ls = true -> noadd ls.
Proof. intros ls H. exact H. Qed.
