(* Proofs for property C10, part 3: preservation of live/storage agreement (P6), sequences of operations,
   and: the model's prediction satisfies the observed-behaviour spec (P7).
   Model: Model/Store.v; base: Proofs/StoreProofs.v, Proofs/StoreInv.v. *)
From AnySync Require Import Model.Store Proofs.StoreProofs Proofs.StoreInv.
From Coq Require Import List NArith Bool Arith Lia ZifyBool ZifyNat ZifyN.
Import ListNotations.
Open Scope N_scope.

(* ================================================================== consistency, table level *)

(* ------------------------------------------------------------------ live-tree list helpers *)

Lemma tget_tput_same : forall l i x, tget (tput l i x) i = Some x.
Proof.
  induction l as [|[j y] r IH]; intros i x; cbn [tput tget].
  - now rewrite N.eqb_refl.
  - destruct (j =? i) eqn:Hj; cbn [tget]; rewrite Hj; [reflexivity | apply IH].
Qed.

Lemma tget_tput_other : forall l i x j, i <> j -> tget (tput l i x) j = tget l j.
Proof.
  induction l as [|[k y] r IH]; intros i x j Hne; cbn [tput tget].
  - apply N.eqb_neq in Hne. now rewrite Hne.
  - destruct (k =? i) eqn:Hk; cbn [tget].
    + apply N.eqb_eq in Hk. subst k. apply N.eqb_neq in Hne. now rewrite Hne.
    + destruct (k =? j); [reflexivity | now apply IH].
Qed.

Lemma tput_tput : forall l i x y, tput (tput l i x) i y = tput l i y.
Proof.
  induction l as [|[k z] r IH]; intros i x y; cbn [tput].
  - now rewrite N.eqb_refl.
  - destruct (k =? i) eqn:Hk; cbn [tput]; rewrite Hk; [reflexivity | now rewrite IH].
Qed.

Lemma tget_None_In : forall l i p, tget l i = None -> In p l -> (fst p =? i) = false.
Proof.
  induction l as [|[k z] r IH]; intros i p Hg Hin; [destruct Hin|].
  cbn [tget] in Hg. destruct (k =? i) eqn:Hk; [discriminate|].
  destruct Hin as [He|Hin]; [subst p; exact Hk | now apply IH].
Qed.

Lemma In_tget_some : forall l i x, In (i, x) l -> exists y, tget l i = Some y.
Proof.
  intros l i x Hin. destruct (tget l i) as [y|] eqn:Hg; [now exists y|].
  pose proof (tget_None_In l i (i, x) Hg Hin) as Hf. cbn [fst] in Hf.
  rewrite N.eqb_refl in Hf. discriminate.
Qed.

Lemma tuniq_tput : forall l i x, tuniq l = true -> tuniq (tput l i x) = true.
Proof.
  induction l as [|[k z] r IH]; intros i x Hu; [reflexivity|].
  cbn [tuniq] in Hu. apply andb_prop in Hu. destruct Hu as [Hh Hu].
  cbn [tput]. destruct (k =? i) eqn:Hk; cbn [tuniq].
  - now rewrite Hh, Hu.
  - rewrite (IH _ _ Hu), andb_true_r. rewrite tget_tput_other; [exact Hh|].
    apply N.eqb_neq in Hk. congruence.
Qed.

Lemma tget_tdel_None : forall l i k, tget l k = None -> tget (tdel l i) k = None.
Proof.
  induction l as [|[j z] r IH]; intros i k Hg; [reflexivity|].
  cbn [tget] in Hg. destruct (j =? k) eqn:Hj; [discriminate|].
  unfold tdel. cbn [filter fst]. destruct (negb (j =? i)); cbn [tget].
  - rewrite Hj. now apply IH.
  - now apply IH.
Qed.

Lemma tuniq_tdel : forall l i, tuniq l = true -> tuniq (tdel l i) = true.
Proof.
  induction l as [|[k z] r IH]; intros i Hu; [reflexivity|].
  cbn [tuniq] in Hu. apply andb_prop in Hu. destruct Hu as [Hh Hu].
  unfold tdel. cbn [filter fst]. destruct (negb (k =? i)).
  - cbn [tuniq]. fold (tdel r i). rewrite (IH _ Hu), andb_true_r.
    destruct (tget r k) eqn:Hg; [discriminate|]. now rewrite (tget_tdel_None _ _ _ Hg).
  - now apply IH.
Qed.

Lemma In_tput : forall l i x p, tuniq l = true -> In p (tput l i x) ->
  p = (i, x) \/ (In p l /\ (fst p =? i) = false).
Proof.
  induction l as [|[k z] r IH]; intros i x p Hu Hin; cbn [tput] in Hin.
  - destruct Hin as [He|[]]; now left.
  - cbn [tuniq] in Hu. apply andb_prop in Hu. destruct Hu as [Hh Hu].
    destruct (k =? i) eqn:Hk.
    + apply N.eqb_eq in Hk. subst k. destruct Hin as [He|Hin]; [now left|].
      right. split; [now right|]. destruct (tget r i) eqn:Hg; [discriminate|].
      now apply (tget_None_In r).
    + destruct Hin as [He|Hin]; [subst p; right; split; [now left | exact Hk]|].
      destruct (IH _ _ _ Hu Hin) as [H1|[H1 H2]]; [now left | right; split; [now right | exact H2]].
Qed.

Lemma In_tput_weak : forall l i x p, In p (tput l i x) -> p = (i, x) \/ In p l.
Proof.
  induction l as [|[k z] r IH]; intros i x p Hin; cbn [tput] in Hin.
  - destruct Hin as [He|[]]; now left.
  - destruct (k =? i) eqn:Hk.
    + destruct Hin as [He|Hin]; [left|right; now right].
      apply N.eqb_eq in Hk. now subst.
    + destruct Hin as [He|Hin]; [right; now left|].
      destruct (IH _ _ _ Hin) as [H1|H1]; [now left | right; now right].
Qed.

Lemma In_tget : forall l i x, tuniq l = true -> In (i, x) l -> tget l i = Some x.
Proof.
  induction l as [|[k z] r IH]; intros i x Hu Hin; [destruct Hin|].
  cbn [tuniq] in Hu. apply andb_prop in Hu. destruct Hu as [Hh Hu].
  cbn [tget]. destruct Hin as [He|Hin].
  - inversion He; subst. now rewrite N.eqb_refl.
  - destruct (k =? i) eqn:Hk; [|now apply IH].
    apply N.eqb_eq in Hk. subst k. destruct (tget r i) eqn:Hg; [discriminate|].
    pose proof (tget_None_In r i (i, x) Hg Hin) as Hf. cbn [fst] in Hf.
    rewrite N.eqb_refl in Hf. discriminate.
Qed.

Lemma In_tdel : forall l i p, In p (tdel l i) -> In p l /\ (fst p =? i) = false.
Proof.
  intros l i p Hin. unfold tdel in Hin. apply filter_In in Hin. destruct Hin as [Hin Hn].
  split; [exact Hin|]. now apply negb_true_iff in Hn.
Qed.

(* ------------------------------------------------------------------ table helpers *)

Lemma get_None_intro : forall t c i, (forall e, In e t -> key_eqb c i e = false) -> get t c i = None.
Proof.
  induction t as [|e r IH]; intros c i H; [reflexivity|].
  cbn [get]. rewrite (H e (or_introl eq_refl)). apply IH. intros e' Hin. apply H. now right.
Qed.

Definition tkf (i : N) (e : entry) : bool :=
  match e with (KChanges, j, _) => j =? i | (KHeads, j, _) => j =? i | _ => false end.

Lemma tkf_false : forall i e,
  tkf i e = false <-> (key_eqb KChanges i e = false /\ key_eqb KHeads i e = false).
Proof.
  intros i [[c j] d]. unfold tkf, key_eqb. rewrite (N.eqb_sym i j).
  destruct c; cbn [coll_eqb andb]; intuition auto.
Qed.

Lemma is_nil_filter : forall (A : Type) (f : A -> bool) (l : list A),
  is_nil (filter f l) = true <-> (forall e, In e l -> f e = false).
Proof.
  intros A f. induction l as [|x r IH]; cbn [filter].
  - split; [intros _ e [] | reflexivity].
  - destruct (f x) eqn:Hx; cbn [is_nil].
    + split; [discriminate|]. intros H. rewrite (H x (or_introl eq_refl)) in Hx. discriminate.
    + rewrite IH. split.
      * intros H e [He|Hin]; [now subst | now apply H].
      * intros H e Hin. apply H. now right.
Qed.

Lemma nokeys_iff : forall t i,
  is_nil (filter (tkf i) t) = true <-> (get t KChanges i = None /\ get t KHeads i = None).
Proof.
  intros t i. rewrite is_nil_filter. split.
  - intros H. split; apply get_None_intro; intros e Hin; apply (tkf_false i e); now apply H.
  - intros [H1 H2] e Hin. apply tkf_false. split; [now apply (get_None_key t) | now apply (get_None_key t)].
Qed.

Lemma no_keys_filter_nil : forall t i, get t KChanges i = None -> get t KHeads i = None ->
  is_nil (filter (fun e => match e with (KChanges, j, _) => j =? i | (KHeads, j, _) => j =? i | _ => false end) t) = true.
Proof. intros t i H1 H2. apply (nokeys_iff t i). now split. Qed.

Lemma deferred_no_keys : forall t tree tl o,
  tree_consistent t (tree, tl) = true -> tl_defer tl = Some o ->
  get t KChanges tree = None /\ get t KHeads tree = None.
Proof.
  intros t tree tl o Hc Hd. unfold tree_consistent in Hc. rewrite Hd in Hc.
  apply andb_prop in Hc. destruct Hc as [Hc _]. apply andb_prop in Hc. destruct Hc as [Hc _].
  now apply (nokeys_iff t tree).
Qed.

(* ------------------------------------------------------------------ preservation: generic forms *)

Lemma tc_pres : forall t t' tree tl,
  tree_consistent t (tree, tl) = true ->
  get t' KHeads tree = get t KHeads tree ->
  (get t KChanges tree = None -> get t' KChanges tree = None) ->
  tree_consistent t' (tree, tl) = true.
Proof.
  intros t t' tree tl Hc Hh Hch. unfold tree_consistent in *.
  destruct (tl_defer tl) as [o|].
  - apply andb_prop in Hc. destruct Hc as [Hc H3]. apply andb_prop in Hc. destruct Hc as [H1 H2].
    rewrite H2, H3, !andb_true_r. apply (nokeys_iff t' tree). apply (nokeys_iff t tree) in H1.
    destruct H1 as [Ha Hb]. split; [now apply Hch | now rewrite Hh].
  - now rewrite Hh.
Qed.

Lemma tc_new : forall t tree h s d,
  get t KHeads tree = Some (DHeads h s d) -> tree_consistent t (tree, mkTL h s None) = true.
Proof.
  intros t tree h s d Hg. unfold tree_consistent. cbn [tl_defer tl_heads tl_root]. rewrite Hg.
  now rewrite list_N_eqb_refl, N.eqb_refl.
Qed.

Lemma acl_consistent_cons : forall t recs, is_nil recs = false ->
  acl_consistent t recs =
  match get t KHeads (acl_id t) with
  | Some (DHeads [h] _ _) =>
      (h =? last_or0 recs)
      && match rec_ord t h with Some o => o =? N.of_nat (length recs) | None => false end
      && forallb (fun e => match e with (KAcl, i, _) => existsb (N.eqb i) recs | _ => true end) t
  | _ => false
  end.
Proof. intros t recs Hn. destruct recs as [|x r]; [discriminate | reflexivity]. Qed.

Lemma acl_consistent_inv : forall t recs, is_nil recs = false -> acl_consistent t recs = true ->
  exists h s d, get t KHeads (acl_id t) = Some (DHeads [h] s d) /\ h = last_or0 recs /\ rec_ord t h = Some (N.of_nat (length recs)) /\ (forall i dd, In (KAcl, i, dd) t -> existsb (N.eqb i) recs = true).
Proof.
  intros t recs Hn Hc. rewrite (acl_consistent_cons _ _ Hn) in Hc.
  destruct (get t KHeads (acl_id t)) as [[a s|hs s d|a b c0 d0|a b]|]; try discriminate Hc.
  destruct hs as [|h [|h2 hr]]; try discriminate Hc.
  apply andb_prop in Hc. destruct Hc as [Hc H3]. apply andb_prop in Hc. destruct Hc as [H1 H2].
  exists h, s, d. split; [reflexivity|]. apply N.eqb_eq in H1. split; [exact H1|].
  destruct (rec_ord t h) as [o|]; [|discriminate]. apply N.eqb_eq in H2. split; [now subst o|].
  intros i dd Hin. rewrite forallb_forall in H3. exact (H3 _ Hin).
Qed.

Lemma acl_consistent_intro : forall t recs h s d, is_nil recs = false ->
  get t KHeads (acl_id t) = Some (DHeads [h] s d) -> h = last_or0 recs ->
  rec_ord t h = Some (N.of_nat (length recs)) ->
  (forall i dd, In (KAcl, i, dd) t -> existsb (N.eqb i) recs = true) ->
  acl_consistent t recs = true.
Proof.
  intros t recs h s d Hn Hg Hl Hr Hall. rewrite (acl_consistent_cons _ _ Hn), Hg, Hr.
  subst h. rewrite !N.eqb_refl. cbn [andb]. apply forallb_forall. intros [[c i] dd] Hin.
  destruct c; try reflexivity. now apply (Hall i dd).
Qed.

Lemma ac_pres : forall t t' acl, is_nil acl = false -> acl_consistent t acl = true ->
  acl_id t' = acl_id t ->
  get t' KHeads (acl_id t) = get t KHeads (acl_id t) ->
  (forall x, get t KAcl x <> None -> get t' KAcl x = get t KAcl x) ->
  (forall i d, In (KAcl, i, d) t' -> In (KAcl, i, d) t) ->
  acl_consistent t' acl = true.
Proof.
  intros t t' acl Hn Hc Hid Hh Hacl Hin.
  destruct (acl_consistent_inv _ _ Hn Hc) as [h [s [d [Hg [Hl [Hr Hall]]]]]].
  apply (acl_consistent_intro t' acl h s d Hn).
  - now rewrite Hid, Hh.
  - exact Hl.
  - unfold rec_ord in *. rewrite Hacl; [exact Hr|]. destruct (get t KAcl h); [discriminate | discriminate].
  - intros i dd Hi. apply (Hall i dd). now apply Hin.
Qed.

Lemma consistent_split : forall t trees acl, consistent (mkW t trees acl) = true ->
  (forall p, In p trees -> tree_consistent t p = true) /\ acl_consistent t acl = true.
Proof.
  intros t trees acl Hc. unfold consistent in Hc. cbn [w_store w_trees w_acl] in Hc.
  apply andb_prop in Hc. destruct Hc as [H1 H2]. rewrite forallb_forall in H1. now split.
Qed.

Lemma consistent_intro : forall t trees acl,
  (forall p, In p trees -> tree_consistent t p = true) -> acl_consistent t acl = true ->
  consistent (mkW t trees acl) = true.
Proof.
  intros t trees acl H1 H2. unfold consistent. cbn [w_store w_trees w_acl].
  rewrite H2, andb_true_r. now apply forallb_forall.
Qed.

(* ------------------------------------------------------------------ 9, 10 *)

Lemma acl_heads_of_consistent : forall t trees acl,
  consistent (mkW t trees acl) = true -> is_nil acl = false ->
  exists h s d, get t KHeads (acl_id t) = Some (DHeads [h] s d) /\ h = last_or0 acl /\             rec_ord t h = Some (N.of_nat (length acl)).
Proof.
  intros t trees acl Hc Hn. destruct (consistent_split _ _ _ Hc) as [_ Ha].
  destruct (acl_consistent_inv _ _ Hn Ha) as [h [s [d [Hg [Hl [Hr _]]]]]].
  exists h, s, d. auto.
Qed.

Lemma consistent_empty_acl : forall t trees acl,
  consistent (mkW t trees acl) = true -> is_nil acl = true -> t = [].
Proof.
  intros t trees acl Hc Hn. destruct (consistent_split _ _ _ Hc) as [_ Ha].
  destruct acl as [|x r]; [|discriminate]. cbn in Ha. destruct t; [reflexivity | discriminate].
Qed.

Lemma consistent_empty_store : forall t trees acl,
  consistent (mkW t trees acl) = true -> t = [] -> acl = [].
Proof.
  intros t trees acl Hc Ht. subst t. destruct (consistent_split _ _ _ Hc) as [_ Ha].
  destruct acl as [|x r]; [reflexivity | discriminate].
Qed.

Lemma consistent_empty_store_nil : forall t trees acl,
  consistent (mkW t trees acl) = true -> t = [] -> is_nil acl = true.
Proof.
  intros t trees acl Hc Ht. now rewrite (consistent_empty_store _ _ _ Hc Ht).
Qed.

(* ------------------------------------------------------------------ 2: mark deleted *)

Lemma cons_mark_deleted : forall t trees acl tree h s d status,
  consistent (mkW t trees acl) = true -> get t KHeads tree = Some (DHeads h s d) -> (tree =? acl_id t) = false ->
  consistent (mkW (put t KHeads tree (DHeads h s status)) trees acl) = true.
Proof.
  intros t trees acl tree h s d status Hc Hg Hne.
  destruct (consistent_split _ _ _ Hc) as [Ht Ha]. apply consistent_intro.
  - intros [i tl] Hin. pose proof (Ht _ Hin) as Hp. destruct (N.eq_dec i tree) as [He|Hn].
    + subst i. unfold tree_consistent in *. destruct (tl_defer tl) as [o|] eqn:Hd.
      * apply andb_prop in Hp. destruct Hp as [Hp _]. apply andb_prop in Hp. destruct Hp as [Hp _].
        apply (nokeys_iff t tree) in Hp. destruct Hp as [_ Hp]. rewrite Hp in Hg. discriminate.
      * rewrite get_put_same. rewrite Hg in Hp. exact Hp.
    + apply (tc_pres t); [exact Hp | | ].
      * apply get_put_other. cbn [coll_eqb andb]. now apply N.eqb_neq.
      * intros Hch. rewrite get_put_other; [exact Hch | reflexivity].
  - destruct (is_nil acl) eqn:Hn.
    + destruct acl as [|x r]; [|discriminate Hn]. cbn in Ha. destruct t; [discriminate Hg | discriminate Ha].
    + apply (ac_pres t); auto.
      * now apply acl_id_put.
      * apply get_put_other. cbn [coll_eqb andb]. now rewrite N.eqb_sym.
      * intros x0 _. apply get_put_other. reflexivity.
      * intros i dd Hin. apply In_put in Hin. destruct Hin as [He|Hin]; [discriminate He | exact Hin].
Qed.

(* ------------------------------------------------------------------ 1: deferred open *)

Lemma cons_deferred_open : forall t trees acl root ord,
  consistent (mkW t trees acl) = true -> tuniq trees = true ->
  get t KChanges root = None -> get t KHeads root = None ->
  consistent (mkW t (tput trees root (mkTL [root] root (Some ord))) acl) = true /\
  tuniq (tput trees root (mkTL [root] root (Some ord))) = true.
Proof.
  intros t trees acl root ord Hc Hu H1 H2. split; [|now apply tuniq_tput].
  destruct (consistent_split _ _ _ Hc) as [Ht Ha]. apply consistent_intro; [|exact Ha].
  intros p Hin. apply In_tput_weak in Hin. destruct Hin as [He|Hin]; [|now apply Ht].
  subst p. unfold tree_consistent. cbn [tl_defer tl_heads tl_root].
  rewrite (no_keys_filter_nil t root H1 H2), list_N_eqb_refl, N.eqb_refl. reflexivity.
Qed.

(* ------------------------------------------------------------------ 3: delete tree *)

Lemma del_tree_cons : forall e r tree,
  del_tree (e :: r) tree = if negb (in_tree tree e) then e :: del_tree r tree else del_tree r tree.
Proof. reflexivity. Qed.

Lemma get_del_tree_other : forall t tree c i,
  coll_eqb c KChanges = false -> get (del_tree t tree) c i = get t c i.
Proof.
  induction t as [|[[c0 i0] d0] r IH]; intros tree c i Hc; [reflexivity|].
  rewrite del_tree_cons.
  destruct (in_tree tree (c0, i0, d0)) eqn:Hin; cbn [negb].
  - cbn [get]. rewrite (IH _ _ _ Hc). destruct c0; cbn in Hin; try discriminate.
    unfold key_eqb. rewrite Hc. reflexivity.
  - cbn [get]. now rewrite (IH _ _ _ Hc).
Qed.

Lemma get_del_tree_None : forall t tree c i, get t c i = None -> get (del_tree t tree) c i = None.
Proof.
  intros t tree c i Hg. apply get_None_intro. intros e Hin. unfold del_tree in Hin.
  apply filter_In in Hin. destruct Hin as [Hin _]. now apply (get_None_key t).
Qed.



Lemma cons_delete_tree : forall t trees acl tree,
  consistent (mkW t trees acl) = true -> tuniq trees = true ->
  consistent (mkW (del_tree t tree) (tdel trees tree) acl) = true /\ tuniq (tdel trees tree) = true.
Proof.
  intros t trees acl tree Hc Hu. split; [|now apply tuniq_tdel].
  destruct (consistent_split _ _ _ Hc) as [Ht Ha]. apply consistent_intro.
  - intros [i tl] Hin. apply In_tdel in Hin. destruct Hin as [Hin _].
    apply (tc_pres t); [now apply Ht | now apply get_del_tree_other | now apply get_del_tree_None].
  - destruct (is_nil acl) eqn:Hn.
    + destruct acl as [|x r]; [|discriminate Hn]. cbn in Ha. destruct t; [reflexivity | discriminate Ha].
    + apply (ac_pres t); auto.
      * apply acl_id_del_tree.
      * now apply get_del_tree_other.
      * intros x _. now apply get_del_tree_other.
      * intros i dd Hin. unfold del_tree in Hin. apply filter_In in Hin. tauto.
Qed.

(* ------------------------------------------------------------------ 4: tree create *)

(* as tc_pres, the KChanges clause only for a tree whose creation is deferred *)
Lemma tc_pres_d : forall t t' tree tl,
  tree_consistent t (tree, tl) = true ->
  get t' KHeads tree = get t KHeads tree ->
  (forall o, tl_defer tl = Some o -> get t KChanges tree = None -> get t' KChanges tree = None) ->
  tree_consistent t' (tree, tl) = true.
Proof.
  intros t t' tree tl Hc Hh Hch. unfold tree_consistent in *.
  destruct (tl_defer tl) as [o|].
  - apply andb_prop in Hc. destruct Hc as [Hc H3]. apply andb_prop in Hc. destruct Hc as [H1 H2].
    rewrite H2, H3, !andb_true_r. apply (nokeys_iff t' tree). apply (nokeys_iff t tree) in H1.
    destruct H1 as [Ha Hb]. split; [now apply (Hch o) | now rewrite Hh].
  - now rewrite Hh.
Qed.

Lemma get_app_none : forall a b c i, get b c i = None -> get (a ++ b) c i = get a c i.
Proof. intros a b c i Hb. rewrite get_app, Hb. now destruct (get a c i). Qed.

Lemma cons_tree_create : forall t trees acl root ord,
  consistent (mkW t trees acl) = true -> tuniq trees = true -> is_nil acl = false ->
  get t KChanges root = None -> get t KHeads root = None -> (root =? acl_id t) = false ->
  consistent (mkW (create_tab t root ord) (tput trees root (mkTL [root] root None)) acl) = true /\
  tuniq (tput trees root (mkTL [root] root None)) = true.
Proof.
  intros t trees acl root ord Hc Hu Hn H1 H2 Hne. split; [|now apply tuniq_tput].
  destruct (consistent_split _ _ _ Hc) as [Ht Ha]. unfold create_tab. apply consistent_intro.
  - intros p Hin. apply (In_tput _ _ _ _ Hu) in Hin. destruct Hin as [He|[Hin Hf]].
    + subst p. apply (tc_new _ _ _ _ 0). rewrite get_app, H2.
      cbn [get key_eqb coll_eqb andb snd]. rewrite N.eqb_refl. reflexivity.
    + destruct p as [i tl]. cbn [fst] in Hf. apply (tc_pres t); [now apply Ht | | ].
      * apply get_app_none. cbn [get key_eqb coll_eqb andb snd]. rewrite Hf. reflexivity.
      * intros Hch. rewrite get_app, Hch. cbn [get key_eqb coll_eqb andb snd]. rewrite Hf. reflexivity.
  - apply (ac_pres t); auto.
    + apply acl_id_app. reflexivity.
    + apply get_app_none. cbn [get key_eqb coll_eqb andb snd]. rewrite N.eqb_sym in Hne. rewrite Hne. reflexivity.
    + intros x _. apply get_app_none. reflexivity.
    + intros i dd Hin. apply in_app_or in Hin.
      destruct Hin as [Hin|[He|[He|[]]]]; [exact Hin | discriminate He | discriminate He].
Qed.

(* ------------------------------------------------------------------ 5: add *)

Lemma get_map_chg_other : forall tree batch c i,
  coll_eqb c KChanges = false -> get (map (chg_entry tree) batch) c i = None.
Proof.
  intros tree batch c i Hc. apply get_None_intro. intros e Hin. apply in_map_iff in Hin.
  destruct Hin as [x [He _]]. subst e. unfold chg_entry, key_eqb. now rewrite Hc.
Qed.

Lemma get_map_chg_None : forall tree batch i,
  (forall c, In c batch -> c_id c <> i) -> get (map (chg_entry tree) batch) KChanges i = None.
Proof.
  intros tree batch i H. apply get_None_intro. intros e Hin. apply in_map_iff in Hin.
  destruct Hin as [x [He Hx]]. subst e. unfold chg_entry, key_eqb. cbn [coll_eqb andb].
  apply N.eqb_neq. intros Heq. now apply (H x Hx).
Qed.

Lemma nostate_map_chg : forall tree batch, nostate (map (chg_entry tree) batch) = true.
Proof. intros tree batch. induction batch as [|c r IH]; [reflexivity | exact IH]. Qed.

Lemma cons_add : forall t trees acl tree tl batch heads snap h s d,
  consistent (mkW t trees acl) = true -> tuniq trees = true -> is_nil acl = false ->
  tget trees tree = Some tl -> tl_defer tl = None -> get t KHeads tree = Some (DHeads h s d) ->
  (tree =? acl_id t) = false ->
  forallb (fun c => not_deferred (mkW t trees acl) (c_id c)) batch = true ->
  consistent (mkW (add_tab t tree batch heads snap d) (tput trees tree (mkTL heads snap None)) acl) = true /\
  tuniq (tput trees tree (mkTL heads snap None)) = true.
Proof.
  intros t trees acl tree tl batch heads snap h s d Hc Hu Hn Hg Hd Hh Hne Hb.
  split; [|now apply tuniq_tput].
  destruct (consistent_split _ _ _ Hc) as [Ht Ha]. unfold add_tab. apply consistent_intro.
  - intros p Hin. apply (In_tput _ _ _ _ Hu) in Hin. destruct Hin as [He|[Hin Hf]].
    + subst p. apply (tc_new _ _ _ _ d). apply get_put_same.
    + destruct p as [i tli]. cbn [fst] in Hf. apply (tc_pres_d t); [now apply Ht | | ].
      * rewrite get_put_other; [|cbn [coll_eqb andb]; exact Hf].
        apply get_app_none. now apply get_map_chg_other.
      * intros o Hdi Hch. rewrite get_put_other; [|reflexivity]. rewrite get_app, Hch.
        apply get_map_chg_None. intros c Hcin Heq.
        rewrite forallb_forall in Hb. pose proof (Hb c Hcin) as Hnd.
        unfold not_deferred in Hnd. cbn [w_trees] in Hnd.
        rewrite Heq, (In_tget _ _ _ Hu Hin), Hdi in Hnd. discriminate Hnd.
  - apply (ac_pres t); auto.
    + rewrite acl_id_put by reflexivity. apply acl_id_app. apply nostate_map_chg.
    + rewrite get_put_other; [|cbn [coll_eqb andb]; now rewrite N.eqb_sym].
      apply get_app_none. now apply get_map_chg_other.
    + intros x _. rewrite get_put_other; [|reflexivity]. apply get_app_none. now apply get_map_chg_other.
    + intros i dd Hin. apply In_put in Hin. destruct Hin as [He|Hin]; [discriminate He|].
      apply in_app_or in Hin. destruct Hin as [Hin|Hin]; [exact Hin|].
      apply in_map_iff in Hin. destruct Hin as [c [He _]]. discriminate He.
Qed.

(* ------------------------------------------------------------------ 6: add on a deferred tree *)

Lemma cons_add_deferred : forall t trees acl tree tl batch heads snap ord,
  consistent (mkW t trees acl) = true -> tuniq trees = true -> is_nil acl = false ->
  tget trees tree = Some tl -> tl_defer tl = Some ord -> (tree =? acl_id t) = false ->
  forallb (fun c => not_deferred (mkW t trees acl) (c_id c)) batch = true ->
  consistent (mkW (add_tab (create_tab t tree ord) tree batch heads snap 0)
                  (tput trees tree (mkTL heads snap None)) acl) = true /\
  tuniq (tput trees tree (mkTL heads snap None)) = true.
Proof.
  intros t trees acl tree tl batch heads snap ord Hc Hu Hn Hg Hd Hne Hb.
  pose proof (consistent_tree (mkW t trees acl) tree tl Hc Hg) as Htc. cbn [w_store] in Htc.
  destruct (deferred_no_keys _ _ _ _ Htc Hd) as [K1 K2].
  destruct (cons_tree_create t trees acl tree ord Hc Hu Hn K1 K2 Hne) as [Hc1 Hu1].
  rewrite <- (tput_tput trees tree (mkTL [tree] tree None) (mkTL heads snap None)).
  apply (cons_add (create_tab t tree ord) _ acl tree (mkTL [tree] tree None) batch heads snap [tree] tree 0); auto.
  - apply tget_tput_same.
  - unfold create_tab. rewrite get_app, K2. cbn [get key_eqb coll_eqb andb snd]. now rewrite N.eqb_refl.
  - unfold create_tab. rewrite acl_id_app; [exact Hne | reflexivity].
  - rewrite forallb_forall in *. intros c Hcin. pose proof (Hb c Hcin) as Hnd.
    unfold not_deferred in *. cbn [w_trees] in *.
    destruct (N.eq_dec tree (c_id c)) as [He|Hne2].
    + rewrite <- He, tget_tput_same. reflexivity.
    + rewrite tget_tput_other; [exact Hnd | exact Hne2].
Qed.

(* ------------------------------------------------------------------ 7: ACL add *)

Lemma cons_acl_add : forall t trees acl id h s d,
  consistent (mkW t trees acl) = true -> is_nil acl = false -> existsb (N.eqb id) acl = false ->
  get t KAcl id = None -> tget trees (acl_id t) = None -> tuniq trees = true ->
  get t KHeads (acl_id t) = Some (DHeads h s d) ->
  consistent (mkW (put (t ++ [(KAcl, id, DRecord (last_or0 acl) (N.of_nat (length acl) + 1))])
                       KHeads (acl_id t) (DHeads [id] s d)) trees (acl ++ [id])) = true.
Proof.
  intros t trees acl id h s d Hc Hn Hex Hga Htg Hu Hh.
  destruct (consistent_split _ _ _ Hc) as [Ht Ha].
  set (nr := (KAcl, id, DRecord (last_or0 acl) (N.of_nat (length acl) + 1))).
  assert (Hid : acl_id (put (t ++ [nr]) KHeads (acl_id t) (DHeads [id] s d)) = acl_id t).
  { rewrite acl_id_put by reflexivity. apply acl_id_app. reflexivity. }
  apply consistent_intro.
  - intros [i tl] Hin. pose proof (tget_None_In _ _ _ Htg Hin) as Hf. cbn [fst] in Hf.
    apply (tc_pres t); [now apply Ht | | ].
    + rewrite get_put_other; [|cbn [coll_eqb andb]; exact Hf]. apply get_app_none. reflexivity.
    + intros Hch. rewrite get_put_other; [|reflexivity]. rewrite get_app, Hch. reflexivity.
  - destruct (acl_consistent_inv _ _ Hn Ha) as [h0 [s0 [d0 [Hg0 [Hl [Hr Hall]]]]]].
    apply (acl_consistent_intro _ _ id s d).
    + destruct acl; reflexivity.
    + rewrite Hid. apply get_put_same.
    + unfold last_or0. now rewrite last_last.
    + unfold rec_ord. rewrite get_put_other; [|reflexivity]. rewrite get_app, Hga. unfold nr.
      cbn [get key_eqb coll_eqb andb snd]. rewrite N.eqb_refl. f_equal.
      rewrite app_length. cbn [length]. lia.
    + intros i dd Hin. apply In_put in Hin. destruct Hin as [He|Hin]; [discriminate He|].
      rewrite existsb_app. apply in_app_or in Hin. destruct Hin as [Hin|[He|[]]].
      * rewrite (Hall _ _ Hin). reflexivity.
      * unfold nr in He. inversion He; subst. cbn [existsb]. rewrite N.eqb_refl. apply orb_true_r.
Qed.

(* ------------------------------------------------------------------ 8: space create *)

Lemma cons_space_create : forall space acl settings ord,
  (acl =? settings) = false -> (acl =? 0) = false ->
  consistent (mkW [(KState, space, DState acl settings); (KAcl, acl, DRecord 0 1); (KHeads, acl, DHeads [acl] 0 0);
                   (KChanges, settings, DChange settings [] 0 ord); (KHeads, settings, DHeads [settings] settings 0)]
                  [] [acl]) = true.
Proof.
  intros space acl settings ord Hne Hn0. apply consistent_intro; [intros p []|].
  apply (acl_consistent_intro _ _ acl 0 0); try reflexivity.
  - cbn [acl_id get key_eqb coll_eqb andb snd]. now rewrite N.eqb_refl.
  - unfold rec_ord. cbn [get key_eqb coll_eqb andb snd]. now rewrite N.eqb_refl.
  - intros i dd Hin. cbn [In] in Hin.
    destruct Hin as [He|[He|[He|[He|[He|[]]]]]]; try discriminate He.
    inversion He; subst. cbn [existsb]. now rewrite N.eqb_refl.
Qed.

(* ================================================================== spec: reflexivity of the comparisons *)


(* ------------------------------------------------------------------ list_N_eqb *)

Lemma list_N_eqb_nil : list_N_eqb [] [] = true.
Proof. reflexivity. Qed.

Lemma list_N_eqb_cons : forall x y a b,
  list_N_eqb (x :: a) (y :: b) = (x =? y) && list_N_eqb a b.
Proof.
  intros x y a b. unfold list_N_eqb.
  cbn [length combine forallb fst snd Nat.eqb].
  destruct (Nat.eqb (length a) (length b)); destruct (x =? y); reflexivity.
Qed.
(* ------------------------------------------------------------------ doc_eqb *)

Lemma doc_eqb_noord_refl : forall d, doc_eqb_noord d d = true.
Proof.
  intros d. destruct d as [a s|h s dl|t p s o|p o]; cbn [doc_eqb_noord];
    rewrite ?N.eqb_refl, ?list_N_eqb_refl; reflexivity.
Qed.

Lemma doc_eqb_refl : forall d, doc_eqb d d = true.
Proof.
  intros d. unfold doc_eqb. rewrite doc_eqb_noord_refl.
  destruct d as [a s|h s dl|t p s o|p o]; cbn [andb]; rewrite ?N.eqb_refl; reflexivity.
Qed.

(* ------------------------------------------------------------------ entry_eqb *)

Lemma entry_eqb_refl : forall e, entry_eqb e e = true.
Proof.
  intros e. destruct e as [[c i] d]. unfold entry_eqb.
  rewrite coll_eqb_refl, N.eqb_refl, doc_eqb_refl. reflexivity.
Qed.

(* ------------------------------------------------------------------ tables *)

Lemma table_sub_incl : forall a b, (forall e, In e a -> In e b) -> table_sub a b = true.
Proof.
  intros a b Hincl. unfold table_sub. apply forallb_forall. intros e He.
  apply existsb_exists. exists e. split; [apply Hincl; exact He | apply entry_eqb_refl].
Qed.

Lemma table_sub_refl : forall t, table_sub t t = true.
Proof. intros t. apply table_sub_incl. intros e He. exact He. Qed.

Lemma table_eqb_refl : forall t, table_eqb t t = true.
Proof.
  intros t. unfold table_eqb. rewrite table_sub_refl, Nat.eqb_refl. reflexivity.
Qed.

(* ------------------------------------------------------------------ sorted_eqb *)

Lemma existsb_Neqb_In : forall x l, In x l -> existsb (N.eqb x) l = true.
Proof.
  intros x l Hin. apply existsb_exists. exists x. split; [exact Hin | apply N.eqb_refl].
Qed.

Lemma sorted_eqb_refl : forall l, sorted_eqb l l = true.
Proof.
  intros l. unfold sorted_eqb.
  assert (H : forallb (fun x => existsb (N.eqb x) l) l = true).
  { apply forallb_forall. intros x Hx. apply existsb_Neqb_In. exact Hx. }
  rewrite H. reflexivity.
Qed.

(* ------------------------------------------------------------------ reopen_ok *)

Definition reopen_of (e : entry) : list (N * option (list N)) :=
  match e with
  | (KHeads, id, DHeads hs _ dl) => if dl =? 0 then [(id, Some hs)] else []
  | _ => []
  end.

Lemma model_image_reopen : forall t, im_reopen (model_image t) = flat_map reopen_of t.
Proof. intros t. reflexivity. Qed.

Lemma reopen_ok_gen : forall t t' : table,
  (forall e, In e t -> In e t') ->
  reopen_ok (mkImg t (flat_map reopen_of t')) = true.
Proof.
  intros t t' Hincl. unfold reopen_ok. cbn [im_table im_reopen].
  apply forallb_forall. intros e He.
  destruct e as [[c id] d].
  destruct c; try reflexivity.
  destruct d as [a s|hs s dl|tr p s o|p o]; try reflexivity.
  destruct (dl =? 0) eqn:Hdl; [|reflexivity].
  apply existsb_exists. exists (id, Some hs). split.
  - apply in_flat_map. exists (KHeads, id, DHeads hs s dl). split.
    + apply Hincl. exact He.
    + cbn [reopen_of]. rewrite Hdl. left. reflexivity.
  - cbn [fst snd]. rewrite N.eqb_refl, list_N_eqb_refl. reflexivity.
Qed.

Lemma reopen_ok_model_image : forall t, reopen_ok (model_image t) = true.
Proof.
  intros t. unfold model_image. apply (reopen_ok_gen t t). intros e He. exact He.
Qed.

(* ------------------------------------------------------------------ call_eqb *)

Lemma list_eqb_refl : forall (A : Type) (f : A -> A -> bool),
  (forall x, f x x = true) -> forall l, list_eqb f l l = true.
Proof.
  intros A f Hf l. induction l as [|x r IH].
  - reflexivity.
  - cbn [list_eqb]. rewrite Hf, IH. reflexivity.
Qed.

Lemma opt_eqb_refl : forall (A : Type) (f : A -> A -> bool),
  (forall x, f x x = true) -> forall o, opt_eqb f o o = true.
Proof.
  intros A f Hf o. destruct o as [x|]; [apply Hf | reflexivity].
Qed.

Lemma call_eqb_refl : forall c, call_eqb c c = true.
Proof.
  intros c. destruct c as [| | |k docs|id h s d|tr]; cbn [call_eqb]; try reflexivity.
  - rewrite coll_eqb_refl. cbn [andb]. apply list_eqb_refl.
    intros x. rewrite N.eqb_refl, doc_eqb_noord_refl. reflexivity.
  - rewrite N.eqb_refl.
    rewrite (opt_eqb_refl _ list_N_eqb list_N_eqb_refl).
    rewrite !(opt_eqb_refl _ N.eqb N.eqb_refl). reflexivity.
  - apply N.eqb_refl.
Qed.

Lemma list_call_eqb_refl : forall l, list_eqb call_eqb l l = true.
Proof. intros l. apply list_eqb_refl. exact call_eqb_refl. Qed.

(* ------------------------------------------------------------------ strip *)

Lemma strip_map_OCall : forall l, strip (map OCall l) = l.
Proof.
  intros l. induction l as [|c r IH].
  - reflexivity.
  - unfold strip in *. cbn [map flat_map app]. rewrite IH. reflexivity.
Qed.

(* ------------------------------------------------------------------ lengths *)

Lemma length_map_seq : forall (f : nat -> image) a n, length (map f (seq a n)) = n.
Proof. intros f a n. rewrite map_length, seq_length. reflexivity. Qed.

Lemma length_map_seq_gen : forall (A : Type) (f : nat -> A) a n, length (map f (seq a n)) = n.
Proof. intros A f a n. rewrite map_length, seq_length. reflexivity. Qed.

Lemma length_map_OCall : forall l : list call, length (map OCall l) = length l.
Proof. intros l. apply map_length. Qed.

(* ------------------------------------------------------------------ live heads = stored heads *)




Lemma get_heads_None_existsb : forall t i, get t KHeads i = None ->
  existsb (fun e : entry => match e with (KHeads, j, _) => j =? i | _ => false end) t = false.
Proof.
  induction t as [|[[c j] d] r IH]; intros i Hg; [reflexivity|].
  cbn [get] in Hg. destruct (key_eqb KHeads i (c, j, d)) eqn:Hk; [discriminate|].
  cbn [existsb]. rewrite (IH _ Hg), orb_false_r.
  destruct c; try reflexivity. cbn in Hk. now rewrite N.eqb_sym.
Qed.

Definition live_stored_ok (live stored : list N) (obj : N) (pre : table) : bool :=
  sorted_eqb live stored
  || (is_nil stored && list_N_eqb live [obj]
      && negb (existsb (fun e : entry => match e with (KHeads, i, _) => i =? obj | _ => false end) pre)).

Lemma tree_live_stored : forall w tree tl,
  consistent w = true -> tget (w_trees w) tree = Some tl ->
  live_stored_ok (tl_heads tl)
                 (match get (w_store w) KHeads tree with Some (DHeads h _ _) => h | _ => [] end)
                 tree (w_store w) = true.
Proof.
  intros w tree tl Hc Hg. pose proof (consistent_tree w tree tl Hc Hg) as Ht.
  unfold tree_consistent in Ht. unfold live_stored_ok.
  destruct (tl_defer tl) as [ord|].
  - apply andb_prop in Ht. destruct Ht as [Ht Hr]. apply andb_prop in Ht. destruct Ht as [Hnil Hh].
    destruct (deferred_nokeys3 _ _ Hnil) as [_ [H2 H3]]. rewrite H2, H3, Hh. cbn. apply orb_true_r.
  - destruct (get (w_store w) KHeads tree) as [[a s|h s dl|a b c0 d0|a b]|]; try discriminate Ht.
    apply andb_prop in Ht. destruct Ht as [Hh _]. apply list_N_eqb_eq in Hh. subst h.
    now rewrite sorted_eqb_refl.
Qed.

Lemma live_stored : forall w o,
  consistent w = true -> op_wf w o = true -> op_live w o = true -> prep w o <> None ->
  live_stored_ok (live_heads w o) (stored_heads (w_store w) o) (obj_of (w_store w) o) (w_store w) = true.
Proof.
  intros w o Hc Hwf Hlive Hprep.
  assert (Htree : forall tree, tget (w_trees w) tree <> None ->
            live_stored_ok (match tget (w_trees w) tree with Some tl => tl_heads tl | None => [] end)
                           (match get (w_store w) KHeads tree with Some (DHeads h _ _) => h | _ => [] end)
                           tree (w_store w) = true).
  { intros tree Hne. destruct (tget (w_trees w) tree) as [tl|] eqn:Hg; [|congruence].
    now apply tree_live_stored. }
  destruct o as [space acl settings ord|root ord|root ord|tree id ord is_snap|tree batch heads snap|id|tree status|tree];
    unfold stored_heads; cbn [live_heads obj_of op_wf op_live prep] in *.
  - (* space create: nothing stored, nothing live *)
    destruct (w_store w) as [|e r] eqn:Ht; [|discriminate Hwf].
    unfold consistent in Hc. rewrite Ht in Hc. apply andb_prop in Hc. destruct Hc as [_ Ha].
    unfold acl_consistent in Ha. destruct (w_acl w) as [|x l]; [reflexivity | discriminate Ha].
  - destruct (tget (w_trees w) root) as [tl|] eqn:Hg.
    + apply (tree_live_stored w root tl Hc Hg).
    + apply andb_prop in Hwf. destruct Hwf as [_ Hwf].
      destruct (get (w_store w) KChanges root); [discriminate|].
      destruct (get (w_store w) KHeads root); [discriminate|]. reflexivity.
  - apply andb_prop in Hwf. destruct Hwf as [_ Hwf].
    destruct (get (w_store w) KHeads root); [discriminate|].
    destruct (tget (w_trees w) root); [discriminate|]. reflexivity.
  - apply Htree. intros Hn. first [rewrite Hn in Hprep; congruence | rewrite Hn in Hlive; discriminate].
  - apply Htree. intros Hn. first [rewrite Hn in Hprep; congruence | rewrite Hn in Hlive; discriminate].
  - (* acl add *)
    apply andb_prop in Hwf. destruct Hwf as [Hwf _]. apply andb_prop in Hwf. destruct Hwf as [_ Hne].
    unfold consistent in Hc. apply andb_prop in Hc. destruct Hc as [_ Ha]. unfold acl_consistent in Ha.
    destruct (w_acl w) as [|x l] eqn:Hl; [discriminate Hne|].
    destruct (get (w_store w) KHeads (acl_id (w_store w))) as [[a s|h s dl|a b c0 d0|a b]|]; try discriminate Ha.
    destruct h as [|h0 [|h1 hr]]; try discriminate Ha.
    apply andb_prop in Ha. destruct Ha as [Ha _]. apply andb_prop in Ha. destruct Ha as [Hh _].
    apply N.eqb_eq in Hh. subst h0. unfold live_stored_ok. now rewrite sorted_eqb_refl.
  - apply Htree. intros Hn. first [rewrite Hn in Hprep; congruence | rewrite Hn in Hlive; discriminate].
  - apply Htree. intros Hn. first [rewrite Hn in Hprep; congruence | rewrite Hn in Hlive; discriminate].
Qed.

(* ------------------------------------------------------------------ P7 from its parts *)

Lemma spec_bracket_model : forall w o, spec_bracket (model_obs w o) = true.
Proof.
  intros w o. unfold model_obs, spec_bracket. destruct (run w o) as [w' ok]. cbn [o_calls].
  rewrite strip_map_OCall. apply script_one_tx.
Qed.

Lemma model_image_table : forall t, im_table (model_image t) = t.
Proof. reflexivity. Qed.

Lemma spec_images_model : forall w o,
  inv_b (w_store w) = true -> inv_b (post w o) = true ->
  forallb (fun im => (table_eqb (im_table im) (w_store w) || table_eqb (im_table im) (post w o))
                     && inv_b (im_table im) && reopen_ok im)
          (map (fun k => model_image (crash w o k)) (seq 0 (S (length (script w o))))) = true.
Proof.
  intros w o Hpre Hpost. rewrite forallb_forall. intros im Him.
  apply in_map_iff in Him. destruct Him as [k [Him _]]. subst im.
  rewrite reopen_ok_model_image, model_image_table, andb_true_r.
  destruct (crash_pre_or_post w o k) as [Hc|[Hc _]]; rewrite Hc.
  - now rewrite table_eqb_refl, Hpre.
  - now rewrite table_eqb_refl, orb_true_r, Hpost.
Qed.

Theorem spec_C10_of_parts : forall w o,
  inv_b (w_store w) = true -> consistent w = true -> op_wf w o = true -> op_live w o = true ->
  inv_b (post w o) = true ->
  (prep w o <> None -> snd (run w o) = true) ->
  spec_C10 (model_obs w o) = true.
Proof.
  intros w o Hinv Hc Hwf Hlive Hpost Hok.
  pose proof (spec_bracket_model w o) as Hbr. pose proof (spec_images_model w o Hinv Hpost) as Him.
  pose proof (live_stored w o Hc Hwf Hlive) as Hls.
  unfold model_obs in *. unfold post in *. destruct (run w o) as [w' ok] eqn:Hrun. cbn [fst snd] in *.
  unfold spec_C10. cbn [o_ok]. destruct ok.
  - rewrite Hbr. unfold spec_images. cbn [o_images o_pre o_post o_calls o_faults]. rewrite Him. cbn [andb].
    rewrite !map_length, !seq_length, !Nat.eqb_refl, !andb_true_r.
    rewrite forallb_forall. intros f Hf. apply in_map_iff in Hf. destruct Hf as [k [Hf Hk]]. subst f.
    apply in_seq in Hk.
    assert (Hk' : (1 <= k <= length (script w o))%nat) by lia.
    assert (Hprep : prep w o <> None).
    { unfold script in Hk'. destruct (prep w o); [discriminate | cbn in Hk'; lia]. }
    unfold model_fault. pose proof (fault_realigned w o k Hc Hk') as Hre.
    destruct (fault w o k) as [w1 b1]. cbn [fst] in Hre. subst w1. rewrite Hrun.
    unfold spec_fault. cbn [f_err f_live f_stored f_table f_retry_ok f_live2 f_final o_obj o_pre o_post o_live].
    rewrite model_image_table, reopen_ok_model_image, !table_eqb_refl, sorted_eqb_refl, Hpost.
    specialize (Hls Hprep). unfold live_stored_ok in Hls. rewrite !andb_true_r. cbn [andb]. exact Hls.
  - cbn [o_calls o_post o_pre].
    destruct (prep w o) as [p|] eqn:Hp.
    + assert (Hne : Some p <> None) by discriminate. specialize (Hok Hne). discriminate Hok.
    + unfold script. rewrite Hp. cbn [map is_nil andb].
      unfold run in Hrun. rewrite Hp in Hrun. inversion Hrun; subst w'. apply table_eqb_refl.
Qed.

(* ================================================================== P7 *)

Theorem model_satisfies_spec : forall w o,
  inv_b (w_store w) = true -> uniq (w_store w) = true -> consistent w = true ->
  op_wf w o = true -> op_live w o = true ->
  spec_C10 (model_obs w o) = true.
Proof.
  intros w o Hinv Hu Hc Hwf Hlive.
  apply spec_C10_of_parts; auto.
  - now apply inv_preserved.
  - now apply run_ok.
Qed.

(* without [op_live]: marking a tree deleted that is not open *)
Example spec_needs_live :
  let t := [(KAcl, 0, DRecord 0 1); (KHeads, 0, DHeads [0] 0 0);
            (KChanges, 5, DChange 5 [] 0 1); (KHeads, 5, DHeads [5] 5 0)] in
  let w := mkW t [] [0] in
  inv_b t = true /\ uniq t = true /\ consistent w = true /\ op_wf w (OMarkDeleted 5 1) = true
  /\ spec_C10 (model_obs w (OMarkDeleted 5 1)) = false.
Proof. vm_compute. repeat split. Qed.

(* ================================================================== P6: consistency is preserved *)

(* [consistent] alone is not preserved; each of the following needs one clause of [op_wf2] / [tuniq] *)
Definition cex_t : table :=
  [(KAcl, 0, DRecord 0 1); (KHeads, 0, DHeads [0] 0 0); (KChanges, 5, DChange 5 [] 0 1); (KHeads, 5, DHeads [5] 5 0)].
Definition cex_chk (w : world) (o : op) : bool :=
  inv_b (w_store w) && uniq (w_store w) && consistent w && op_wf w o && snd (run w o)
  && negb (consistent (fst (run w o))).

Example cons_needs_not_deferred :   (* a new change carries the id of a tree whose creation is deferred *)
  cex_chk (mkW cex_t [(5, mkTL [5] 5 None); (9, mkTL [9] 9 (Some 1))] [0]) (ORemoteAdd 5 [mkChg 9 [5] 5 2] [9] 5) = true.
Proof. vm_compute. reflexivity. Qed.
Example cons_needs_space :          (* a tree is created before any space exists *)
  cex_chk (mkW [] [] []) (OTreeCreate 5 1) = true.
Proof. vm_compute. reflexivity. Qed.
Example cons_needs_tuniq :          (* the same tree twice in the live list *)
  cex_chk (mkW cex_t [(5, mkTL [5] 5 None); (5, mkTL [5] 5 None)] [0]) (ORemoteAdd 5 [mkChg 7 [5] 5 2] [7] 5) = true.
Proof. vm_compute. reflexivity. Qed.
Example cons_needs_no_acl_tree :    (* a live tree carries the ACL's id *)
  cex_chk (mkW cex_t [(0, mkTL [0] 0 None)] [0]) (OAclAdd 3) = true.
Proof. vm_compute. reflexivity. Qed.
Example cons_needs_no_trees_at_space_create :
  cex_chk (mkW [] [(7, mkTL [7] 7 (Some 1))] []) (OSpaceCreate 1 2 7 1) = true.
Proof. vm_compute. reflexivity. Qed.

Definition cstep (w : world) (o : op) : Prop :=
  consistent (fst (run w o)) = true /\ tuniq (w_trees (fst (run w o))) = true.

Lemma cstep_of_run : forall w o W b, run w o = (W, b) ->
  consistent W = true /\ tuniq (w_trees W) = true -> cstep w o.
Proof. intros w o W b Hrun H. unfold cstep. rewrite Hrun. exact H. Qed.

Lemma cstep_of_prep_None : forall w o, consistent w = true -> tuniq (w_trees w) = true -> prep w o = None -> cstep w o.
Proof. intros w o Hc Hu Hp. apply (cstep_of_run w o w false (run_prep_None _ _ Hp)). auto. Qed.

Lemma cstep_remote : forall w tree batch heads snap,
  consistent w = true -> tuniq (w_trees w) = true ->
  op_wf w (ORemoteAdd tree batch heads snap) = true -> op_wf2 w (ORemoteAdd tree batch heads snap) = true ->
  cstep w (ORemoteAdd tree batch heads snap).
Proof.
  intros w tree batch heads snap Hc Hu Hwf Hwf2.
  destruct (tget (w_trees w) tree) as [tl|] eqn:Hg.
  2:{ apply cstep_of_prep_None; auto. cbn [prep]. now rewrite Hg. }
  cbn [op_wf op_wf2] in Hwf, Hwf2. rewrite Hg in Hwf.
  apply andb_prop in Hwf2. destruct Hwf2 as [Hne Hnd]. apply negb_true_iff in Hne.
  pose proof (consistent_tree w tree tl Hc Hg) as Ht. unfold tree_consistent in Ht.
  destruct w as [t trees acl]. cbn [w_store w_trees w_acl] in *.
  destruct (tl_defer tl) as [ord|] eqn:Hd.
  - apply andb_prop in Ht. destruct Ht as [Ht _]. apply andb_prop in Ht. destruct Ht as [Hnil _].
    destruct (deferred_nokeys3 _ _ Hnil) as [Hk1 [Hk2 _]].
    rewrite Hk2 in Hwf. rewrite andb_true_r in Hwf.
    apply andb_prop in Hwf. destruct Hwf as [Hwf _]. apply andb_prop in Hwf. destruct Hwf as [Hwf _].
    apply andb_prop in Hwf. destruct Hwf as [Hwf Hbatch]. apply andb_prop in Hwf. destruct Hwf as [Hacl _].
    apply negb_true_iff in Hacl.
    assert (Hcong : forall x, get (t ++ [(KChanges, tree, DChange tree [] 0 ord)]) KChanges x
                              = get (create_tab t tree ord) KChanges x).
    { intros x. unfold create_tab. rewrite !get_app. destruct (get t KChanges x); [reflexivity|].
      cbn. destruct (x =? tree); reflexivity. }
    rewrite (batch_ok_get_congr _ _ _ _ _ Hcong) in Hbatch.
    pose proof (run_remote_add_deferred (mkW t trees acl) tree batch heads snap tl ord Hg Hd Hk1 Hk2
                  (batch_ok_ins_fresh _ _ _ Hbatch)) as Hrun.
    cbn [w_store w_trees w_acl] in Hrun.
    apply (cstep_of_run _ _ _ _ Hrun). cbn [w_trees].
    apply (cons_add_deferred t trees acl tree tl batch heads snap ord Hc Hu Hne Hg Hd Hacl Hnd).
  - destruct (get t KHeads tree) as [[a s|h s d|a b c0 d0|a b]|] eqn:Hh; try discriminate Ht.
    apply andb_prop in Hwf. destruct Hwf as [Hwf _].
    apply andb_prop in Hwf. destruct Hwf as [Hwf _]. apply andb_prop in Hwf. destruct Hwf as [Hwf _].
    apply andb_prop in Hwf. destruct Hwf as [Hwf Hbatch]. apply andb_prop in Hwf. destruct Hwf as [Hacl _].
    apply negb_true_iff in Hacl.
    pose proof (run_remote_add (mkW t trees acl) tree batch heads snap tl h s d Hg Hd Hh
                  (batch_ok_ins_fresh _ _ _ Hbatch)) as Hrun.
    cbn [w_store w_trees w_acl] in Hrun.
    apply (cstep_of_run _ _ _ _ Hrun). cbn [w_trees].
    apply (cons_add t trees acl tree tl batch heads snap h s d Hc Hu Hne Hg Hd Hh Hacl Hnd).
Qed.

Theorem consistent_step : forall w o,
  consistent w = true -> tuniq (w_trees w) = true -> op_wf w o = true -> op_wf2 w o = true -> cstep w o.
Proof.
  intros w o Hc Hu Hwf Hwf2.
  destruct o as [space acl0 settings ord|root ord|root ord|tree id ord is_snap|tree batch heads snap|id|tree status|tree].
  - (* space create *)
    cbn [op_wf op_wf2] in Hwf, Hwf2.
    apply andb_prop in Hwf. destruct Hwf as [Hwf Has]. apply andb_prop in Hwf. destruct Hwf as [Hwf _].
    apply andb_prop in Hwf. destruct Hwf as [Hnil Ha].
    apply negb_true_iff in Has. apply negb_true_iff in Ha.
    destruct w as [t trees acl]. cbn [w_store w_trees w_acl] in *.
    destruct t as [|e r]; [|discriminate Hnil]. destruct trees as [|p l]; [|discriminate Hwf2].
    pose proof (run_space_create (mkW [] [] acl) space acl0 settings ord eq_refl Has) as Hrun.
    cbn [w_store w_trees w_acl] in Hrun.
    apply (cstep_of_run _ _ _ _ Hrun). split; [|reflexivity].
    apply (cons_space_create space acl0 settings ord Has Ha).
  - (* tree create *)
    cbn [op_wf op_wf2] in Hwf, Hwf2. apply negb_true_iff in Hwf2.
    apply andb_prop in Hwf. destruct Hwf as [Hwf Hget]. apply andb_prop in Hwf. destruct Hwf as [_ Hacl].
    apply negb_true_iff in Hacl.
    destruct w as [t trees acl]. cbn [w_store w_trees w_acl] in *.
    destruct (get t KChanges root) eqn:Hk1; [discriminate Hget|].
    destruct (get t KHeads root) eqn:Hk2; [discriminate Hget|].
    pose proof (run_tree_create (mkW t trees acl) root ord Hk1 Hk2) as Hrun.
    cbn [w_store w_trees w_acl] in Hrun.
    apply (cstep_of_run _ _ _ _ Hrun). cbn [w_trees].
    apply (cons_tree_create t trees acl root ord Hc Hu Hwf2 Hk1 Hk2 Hacl).
  - (* deferred open *)
    destruct (get (w_store w) KChanges root) eqn:Hk1.
    + apply cstep_of_prep_None; auto. cbn [prep]. now rewrite Hk1.
    + cbn [op_wf] in Hwf. apply andb_prop in Hwf. destruct Hwf as [_ Hget].
      destruct w as [t trees acl]. cbn [w_store w_trees w_acl] in *.
      destruct (get t KHeads root) eqn:Hk2; [discriminate Hget|].
      pose proof (run_deferred_open (mkW t trees acl) root ord Hk1) as Hrun.
      cbn [w_store w_trees w_acl] in Hrun.
      apply (cstep_of_run _ _ _ _ Hrun). cbn [w_trees].
      apply (cons_deferred_open t trees acl root ord Hc Hu Hk1 Hk2).
  - (* local add *)
    destruct (tget (w_trees w) tree) as [tl|] eqn:Hg.
    2:{ apply cstep_of_prep_None; auto. cbn [prep]. now rewrite Hg. }
    assert (Hwf2' : op_wf2 w (ORemoteAdd tree [mkChg id (tl_heads tl) (tl_root tl) ord] [id]
                                (if is_snap then id else tl_root tl)) = true).
    { cbn [op_wf2 forallb c_id] in *. now rewrite andb_true_r. }
    pose proof (cstep_remote w tree _ _ _ Hc Hu (op_wf_local_remote w tree id ord is_snap tl Hg Hwf) Hwf2') as Hr.
    unfold cstep in *. rewrite (run_local_is_remote w tree id ord is_snap tl Hg). exact Hr.
  - now apply cstep_remote.
  - (* acl add *)
    destruct (existsb (N.eqb id) (w_acl w)) eqn:Hex.
    + apply cstep_of_prep_None; auto. cbn [prep]. now rewrite Hex.
    + cbn [op_wf op_wf2] in Hwf, Hwf2.
      apply andb_prop in Hwf. destruct Hwf as [Hwf Hget]. apply andb_prop in Hwf. destruct Hwf as [_ Hne].
      apply negb_true_iff in Hne.
      destruct (acl_heads_cons w Hc Hne) as [h [s [d [Hh _]]]].
      destruct w as [t trees acl]. cbn [w_store w_trees w_acl] in *.
      destruct (get t KAcl id) eqn:Hk; [discriminate Hget|].
      destruct (tget trees (acl_id t)) eqn:Hta; [discriminate Hwf2|].
      pose proof (run_acl_add (mkW t trees acl) id [h] s d Hex Hk Hh) as Hrun.
      cbn [w_store w_trees w_acl] in Hrun.
      apply (cstep_of_run _ _ _ _ Hrun). cbn [w_trees]. split; [|exact Hu].
      apply (cons_acl_add t trees acl id [h] s d Hc Hne Hex Hk Hta Hu Hh).
  - (* mark deleted *)
    cbn [op_wf] in Hwf.
    apply andb_prop in Hwf. destruct Hwf as [Hwf Hhh]. apply andb_prop in Hwf. destruct Hwf as [_ Hacl].
    apply negb_true_iff in Hacl. unfold has_heads in Hhh.
    destruct w as [t trees acl]. cbn [w_store w_trees w_acl] in *.
    destruct (get t KHeads tree) as [[a s|h s d|a b c0 d0|a b]|] eqn:Hh; try discriminate Hhh.
    pose proof (run_mark_deleted (mkW t trees acl) tree status h s d Hh) as Hrun.
    cbn [w_store w_trees w_acl] in Hrun.
    apply (cstep_of_run _ _ _ _ Hrun). cbn [w_trees]. split; [|exact Hu].
    apply (cons_mark_deleted t trees acl tree h s d status Hc Hh Hacl).
  - (* delete tree *)
    destruct (tget (w_trees w) tree) as [tl|] eqn:Hg.
    2:{ apply cstep_of_prep_None; auto. cbn [prep]. now rewrite Hg. }
    destruct w as [t trees acl]. cbn [w_store w_trees w_acl] in *.
    pose proof (run_delete_tree (mkW t trees acl) tree tl Hg) as Hrun.
    cbn [w_store w_trees w_acl] in Hrun.
    apply (cstep_of_run _ _ _ _ Hrun). cbn [w_trees].
    apply (cons_delete_tree t trees acl tree Hc Hu).
Qed.

(* P6, first statement (with the hypotheses the counterexamples above show to be necessary) *)
Theorem consistent_preserved : forall w o,
  consistent w = true -> tuniq (w_trees w) = true -> op_wf w o = true -> op_wf2 w o = true ->
  consistent (fst (run w o)) = true.
Proof. intros w o Hc Hu Hwf Hwf2. now destruct (consistent_step w o Hc Hu Hwf Hwf2). Qed.

Theorem tuniq_preserved : forall w o,
  consistent w = true -> tuniq (w_trees w) = true -> op_wf w o = true -> op_wf2 w o = true ->
  tuniq (w_trees (fst (run w o))) = true.
Proof. intros w o Hc Hu Hwf Hwf2. now destruct (consistent_step w o Hc Hu Hwf Hwf2). Qed.

(* ================================================================== sequences of operations *)

Definition good (w : world) : Prop :=
  inv_b (w_store w) = true /\ uniq (w_store w) = true /\ consistent w = true /\ tuniq (w_trees w) = true.

Lemma good_empty : good (mkW [] [] []).
Proof. repeat split. Qed.

Theorem good_step : forall w o, good w -> op_wf w o = true -> op_wf2 w o = true -> good (fst (run w o)).
Proof.
  intros w o [Hinv [Hu [Hc Htu]]] Hwf Hwf2.
  destruct (consistent_step w o Hc Htu Hwf Hwf2) as [Hc' Htu'].
  repeat split; auto.
  - apply (inv_preserved w o Hinv Hu Hc Hwf).
  - apply (uniq_preserved w o Hinv Hu Hc Hwf).
Qed.

Theorem good_seq : forall ops w, good w -> wf_seq w ops = true -> good (run_seq w ops).
Proof.
  induction ops as [|o r IH]; intros w Hg Hwf; [exact Hg|].
  cbn [wf_seq run_seq] in *. apply andb_prop in Hwf. destruct Hwf as [Hwf Hr].
  apply andb_prop in Hwf. destruct Hwf as [H1 H2]. apply IH; [now apply good_step | exact Hr].
Qed.

Lemma wf_seq_firstn : forall ops w k, wf_seq w ops = true -> wf_seq w (firstn k ops) = true.
Proof.
  induction ops as [|o r IH]; intros w k Hwf; [now destruct k|].
  destruct k as [|k]; [reflexivity|]. cbn [firstn wf_seq] in *.
  apply andb_prop in Hwf. destruct Hwf as [Hwf Hr]. rewrite Hwf. cbn [andb]. now apply IH.
Qed.

(* every world reached along a well-formed sequence is good; in particular from the empty world *)
Theorem good_reached : forall ops w k, good w -> wf_seq w ops = true -> good (run_seq w (firstn k ops)).
Proof. intros ops w k Hg Hwf. apply good_seq; [exact Hg | now apply wf_seq_firstn]. Qed.

Corollary good_from_empty : forall ops k,
  wf_seq (mkW [] [] []) ops = true -> good (run_seq (mkW [] [] []) (firstn k ops)).
Proof. intros ops k Hwf. apply good_reached; [apply good_empty | exact Hwf]. Qed.

(* every step of a well-formed sequence satisfies the observed-behaviour spec *)
Theorem spec_along_seq : forall ops w k o,
  good w -> wf_seq w ops = true -> nth_error ops k = Some o ->
  op_live (run_seq w (firstn k ops)) o = true ->
  spec_C10 (model_obs (run_seq w (firstn k ops)) o) = true.
Proof.
  induction ops as [|o0 r IH]; intros w k o Hg Hwf Hn Hl; [destruct k; discriminate Hn|].
  cbn [wf_seq] in Hwf. apply andb_prop in Hwf. destruct Hwf as [Hwf Hr].
  apply andb_prop in Hwf. destruct Hwf as [H1 H2].
  destruct k as [|k].
  - cbn in Hn. inversion Hn; subst o0. cbn [firstn run_seq] in *.
    destruct Hg as [Hinv [Hu [Hc _]]]. now apply model_satisfies_spec.
  - cbn [nth_error firstn run_seq] in *. apply IH; auto. now apply good_step.
Qed.
(* ================================================================== non-vacuity *)

Definition demo_ops : list op :=
  [OSpaceCreate 1 2 3 1; OTreeCreate 10 1; OLocalAdd 10 11 2 false; ODeferredOpen 20 1;
   ORemoteAdd 20 [mkChg 21 [20] 20 2; mkChg 22 [21] 20 3] [22] 20; OAclAdd 4;
   OLocalAdd 10 12 3 true; OMarkDeleted 10 1; ODeleteTree 10].

Example demo_wf : wf_seq (mkW [] [] []) demo_ops = true.
Proof. vm_compute. reflexivity. Qed.

Example demo_all_succeed_and_live :
  forallb (fun k => match nth_error demo_ops k with
                    | Some o => let w := run_seq (mkW [] [] []) (firstn k demo_ops) in
                                snd (run w o) && op_live w o && spec_C10 (model_obs w o)
                    | None => false end) (seq 0 (length demo_ops)) = true.
Proof. vm_compute. reflexivity. Qed.
