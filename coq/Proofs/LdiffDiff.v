(* C07: the Diff / CompareDiff round loop terminates and reports exactly the differing ids. *)
From Coq Require Import List NArith Bool Arith Lia ZifyBool ZifyN ZifyNat Sorting.Sorted Sorting.Permutation.
Import ListNotations.
From AnySync Require Import Model.Ldiff Proofs.LdiffRanges Proofs.LdiffContents Proofs.LdiffTree Proofs.LdiffQuery.
Open Scope N_scope.
Local Opaque FUEL.

(* ------------------------------------------------------------------ generic shape of the two compare functions *)
Definition cls := option N -> N * N -> list (tag * N).

Definition gcmp (fa fb : cls) (my other : list (N * N)) : list (tag * N) :=
  flat_map (fun p => fa (assoc (fst p) other) p) my ++ flat_map (fun p => fb (assoc (fst p) my) p) other.

Definition faE : cls := fun o p =>
  match o with None => [(TRemoved, fst p)] | Some h' => if h' =? snd p then [] else [(TChanged, fst p)] end.
Definition faG : cls := fun o p =>
  match o with
  | None => [(TRemoved, fst p)]
  | Some h' => if h' =? snd p then [] else if snd p <? h' then [(TTheirChanged, fst p)] else [(TChanged, fst p)]
  end.
Definition fbN : cls := fun o p => match o with None => [(TNew, fst p)] | Some _ => [] end.

Lemma cmp_equal_gcmp : cmp_equal = gcmp faE fbN.
Proof. reflexivity. Qed.
Lemma cmp_greater_gcmp : cmp_greater = gcmp faG fbN.
Proof. reflexivity. Qed.

Lemma digest_eqb_eq : forall a b, digest_eqb a b = true -> a = b.
Proof.
  fix IH 1. intros a b. destruct a as [|l1|l1], b as [|l2|l2]; cbn; try discriminate; try reflexivity.
  - intros Hl. f_equal. revert l2 Hl. induction l1 as [|[a1 a2] r1 IHl]; intros [|[b1 b2] r2]; try discriminate; try reflexivity.
    intros Hl. apply andb_true_iff in Hl as [H1 H2]. apply andb_true_iff in H1 as [Ha Hb].
    apply N.eqb_eq in Ha, Hb. subst. f_equal. apply IHl, H2.
  - intros Hl. f_equal. revert l2 Hl. induction l1 as [|d1 r1 IHl]; intros [|d2 r2]; try discriminate; try reflexivity.
    intros Hl. apply andb_true_iff in Hl as [H1 H2]. f_equal; [apply IH, H1|apply IHl, H2].
Qed.

Lemma flat_map_ext_in {A B} (f g : A -> list B) l : (forall x, In x l -> f x = g x) -> flat_map f l = flat_map g l.
Proof.
  induction l as [|x r IH]; intros Hfg; [reflexivity|]. cbn. rewrite (Hfg x (or_introl eq_refl)).
  f_equal. apply IH. intros y Hy. apply Hfg. right. exact Hy.
Qed.

Lemma assoc_in_nodup l p : NoDup (map fst l) -> In p l -> assoc (fst p) l = Some (snd p).
Proof.
  induction l as [|[i h] r IH]; intros Hn Hin; [destruct Hin|].
  cbn [map fst] in Hn. apply NoDup_cons_iff in Hn as [Hni Hn]. cbn [assoc].
  destruct Hin as [<-|Hin]; cbn [fst snd]; [rewrite N.eqb_refl; reflexivity|].
  destruct (N.eqb_spec i (fst p)) as [E|E]; [|apply IH; assumption].
  exfalso. apply Hni. rewrite E. apply in_map, Hin.
Qed.

Lemma nodup_pairs_range a b l : uniq_ids l -> NoDup (map fst (pairs (in_range a b l))).
Proof.
  unfold uniq_ids, pairs, in_range. rewrite map_map. cbn [fst].
  induction l as [|x r IH]; intros Hn; cbn [filter map]; [constructor|].
  cbn [map] in Hn. apply NoDup_cons_iff in Hn as [Hni Hn].
  destruct (in_rangeb a b x); cbn [map]; [|apply IH, Hn].
  constructor; [|apply IH, Hn]. intros Hin. apply Hni.
  apply in_map_iff in Hin as (y & Hy & Hin). apply filter_In in Hin as [Hin _]. rewrite <- Hy. apply in_map, Hin.
Qed.

Section Diff.
  Variables (df th : N).
  Hypothesis Hdf : 2 <= df.
  Hypothesis Hdf64 : df <= U64MAX.
  Variable H : N -> N.
  Variables (L R : list elem).
  Hypothesis HsL : ssorted L.
  Hypothesis HsR : ssorted R.
  Hypothesis HbL : bounded L.
  Hypothesis HbR : bounded R.
  Hypothesis HhL : hashed H L.
  Hypothesis HhR : hashed H R.
  Hypothesis HuL : uniq_ids L.
  Hypothesis HuR : uniq_ids R.
  Variables (fa fb : cls).
  Hypothesis Hfa : forall p, fa (Some (snd p)) p = [].
  Hypothesis Hfb : forall h p, fb (Some h) p = [].

  Let my := fresh df th L.
  Let cmp := gcmp fa fb.

  (* exact difference restricted to the hash range [a,b], classified against the WHOLE other side *)
  Definition D (a b : N) : list (tag * N) :=
    flat_map (fun p => fa (assoc (fst p) (pairs R)) p) (pairs (in_range a b L))
    ++ flat_map (fun p => fb (assoc (fst p) (pairs L)) p) (pairs (in_range a b R)).

  Definition Ditem (it : item) : list (tag * N) := let '(a, b, _) := it in D a b.

  Lemma flat_map_nil_all {A B} (g : A -> list B) l : (forall x, In x l -> g x = []) -> flat_map g l = [].
  Proof.
    induction l as [|x r IH]; intros Hg; [reflexivity|]. cbn. rewrite (Hg x (or_introl eq_refl)).
    apply IH. intros y Hy. apply Hg. right. exact Hy.
  Qed.

  Lemma assoc_filter (P : elem -> bool) id l :
    (forall x, In x l -> eid x = id -> P x = true) -> assoc id (pairs (filter P l)) = assoc id (pairs l).
  Proof.
    induction l as [|x r IH]; intros Hp; [reflexivity|]. cbn [filter].
    assert (IH' := IH (fun y Hy => Hp y (or_intror Hy))).
    destruct (P x) eqn:Px; cbn [pairs map assoc].
    - change (map (fun e => (eid e, ehead e)) ?l) with (pairs l). rewrite IH'. reflexivity.
    - change (map (fun e => (eid e, ehead e)) ?l) with (pairs l).
      destruct (N.eqb_spec (eid x) id) as [E|E]; [|exact IH'].
      rewrite (Hp x (or_introl eq_refl) E) in Px. discriminate.
  Qed.

  Lemma in_pairs_range p a b l : In p (pairs (in_range a b l)) ->
    exists e, In e l /\ in_rangeb a b e = true /\ p = (eid e, ehead e).
  Proof.
    intros Hin. apply in_map_iff in Hin as (e & <- & Hin). apply filter_In in Hin as [Hin Hr]. eauto.
  Qed.

  (* restricting the other side to the same range does not change the classification *)
  Lemma assoc_range_other l1 l2 a b p :
    hashed H l1 -> hashed H l2 -> In p (pairs (in_range a b l1)) ->
    assoc (fst p) (pairs (in_range a b l2)) = assoc (fst p) (pairs l2).
  Proof.
    intros H1 H2 Hin. apply in_pairs_range in Hin as (e & He & Hr & ->). cbn [fst].
    apply assoc_filter. intros x Hx Hid. unfold in_rangeb in *. rewrite (H2 x Hx), Hid, <- (H1 e He). exact Hr.
  Qed.

  Lemma gcmp_range a b : cmp (pairs (in_range a b L)) (pairs (in_range a b R)) = D a b.
  Proof.
    unfold cmp, gcmp, D. f_equal; apply flat_map_ext_in; intros p Hp.
    - rewrite (assoc_range_other L R a b p HhL HhR Hp). reflexivity.
    - rewrite (assoc_range_other R L a b p HhR HhL Hp). reflexivity.
  Qed.

  Lemma gcmp_same l : NoDup (map fst l) -> gcmp fa fb l l = [].
  Proof.
    intros Hn. unfold gcmp.
    assert (E1 : flat_map (fun p => fa (assoc (fst p) l) p) l = []).
    { apply flat_map_nil_all. intros p Hp. rewrite (assoc_in_nodup l p Hn Hp). apply Hfa. }
    assert (E2 : flat_map (fun p => fb (assoc (fst p) l) p) l = []).
    { apply flat_map_nil_all. intros p Hp. rewrite (assoc_in_nodup l p Hn Hp). apply Hfb. }
    rewrite E1, E2. reflexivity.
  Qed.

  (* ---- additivity over the children of a range ---- *)
  Lemma flat_map_concat {A B} (g : A -> list B) ls : flat_map g (concat ls) = concat (map (flat_map g) ls).
  Proof. induction ls as [|l r IH]; [reflexivity|]. cbn. rewrite flat_map_app, IH. reflexivity. Qed.

  Lemma perm_concat_app {A B} (f g : A -> list B) l :
    Permutation (concat (map f l) ++ concat (map g l)) (concat (map (fun x => f x ++ g x) l)).
  Proof.
    induction l as [|x r IH]; [constructor|]. cbn [map concat].
    rewrite <- app_assoc. rewrite <- app_assoc. apply Permutation_app_head.
    rewrite app_assoc. rewrite (Permutation_app_comm (concat (map f r)) (g x)). rewrite <- app_assoc.
    apply Permutation_app_head. exact IH.
  Qed.

  Lemma D_children a b : a <= b -> can_divide df a b = true ->
    Permutation (D a b) (concat (map (fun r => D (fst r) (snd r)) (gen_tuple_ranges df a b))).
  Proof.
    intros Hab Hcd. unfold D at 1.
    rewrite (children_partition df Hdf Hdf64 L a b HsL Hab Hcd), (children_partition df Hdf Hdf64 R a b HsR Hab Hcd).
    rewrite !pairs_concat, !flat_map_concat, !map_map.
    apply (perm_concat_app
             (fun r => flat_map (fun p => fa (assoc (fst p) (pairs R)) p) (pairs (in_range (fst r) (snd r) L)))
             (fun r => flat_map (fun p => fb (assoc (fst p) (pairs L)) p) (pairs (in_range (fst r) (snd r) R)))).
  Qed.

  (* ---------------------------------------------------------------- one range item *)
  Variable other : remote.
  Hypothesis Hother : forall a b we, other a b we = get_range (fresh df th R) a b we.

  Definition item_size (it : item) : N := let '(a, b, _) := it in b - a + 1.
  Definition item_wf (it : item) : Prop := let '(a, b, _) := it in a <= b.
  Definition item_flag (it : item) : bool := let '(_, _, we) := it in we.

  Lemma compare_item a b we rep nxt :
    a <= b ->
    compare_results df th cmp my (a, b, we) (get_range my a b we) (other a b we) = (rep, nxt) ->
    Permutation (D a b) (rep ++ flat_map Ditem nxt)
    /\ Forall item_wf nxt
    /\ (we = true -> nxt = [])
    /\ (forall it, In it nxt -> item_flag it = false ->
                   can_divide df a b = true /\ 2 * item_size it <= (b - a + 1) + 1).
  Proof.
    intros Hab. unfold compare_results. rewrite Hother.
    set (mr := get_range my a b we). set (orr := get_range (fresh df th R) a b we).
    destruct (digest_eqb (r_hash mr) (r_hash orr)) eqn:Hde.
    - (* equal hashes: nothing to report — and indeed nothing differs *)
      intros [= <- <-]. cbn [app flat_map].
      split; [|split; [constructor|split; [reflexivity|intros it0 []]]].
      assert (Hd : r_hash mr = r_hash orr) by (apply digest_eqb_eq; exact Hde).
      pose proof (get_range_digest_eq df th Hdf Hdf64 L R a b we we HsL HsR HbL HbR Hd) as Hp.
      rewrite <- gcmp_range, Hp. unfold cmp. rewrite gcmp_same; [constructor|].
      apply nodup_pairs_range. exact HuR.
    - destruct (len (r_elems orr) =? r_count orr) eqn:Ho.
      + (* the other side sent its elements *)
        apply N.eqb_eq in Ho.
        pose proof (get_range_has_elems df th Hdf Hdf64 R a b we Ho) as Hoe. fold orr in Hoe.
        destruct (len (r_elems mr) =? r_count mr) eqn:Hm.
        * apply N.eqb_eq in Hm.
          pose proof (get_range_has_elems df th Hdf Hdf64 L a b we Hm) as Hme. fold my mr in Hme.
          intros [= <- <-]. rewrite Hme, Hoe, gcmp_range, app_nil_r.
          split; [apply Permutation_refl|split; [constructor|split; [reflexivity|intros it0 []]]].
        * destruct (get_range_true df th L a b) as [Hme _]. fold my in Hme.
          intros [= <- <-]. rewrite Hme, Hoe, gcmp_range, app_nil_r.
          split; [apply Permutation_refl|split; [constructor|split; [reflexivity|intros it0 []]]].
      + (* no elements from the other side: ask again with elements, or go one level down *)
        assert (Hwe : we = false).
        { destruct we; [|reflexivity]. destruct (get_range_true df th R a b) as [_ Hc]. fold orr in Hc.
          rewrite Hc, N.eqb_refl in Ho. discriminate. }
        destruct (((r_count orr <=? th) && (len (r_elems orr) =? 0)) || (len (r_elems mr) =? r_count mr)
                  || negb (can_divide df a b)) eqn:Hask.
        * intros [= <- <-]. cbn [app flat_map Ditem]. rewrite app_nil_r.
          split; [apply Permutation_refl|split; [constructor; [exact Hab|constructor]|split; [congruence|]]].
          intros it0 [<-|[]]. cbn. discriminate.
        * apply orb_false_iff in Hask as [_ Hcd]. apply negb_false_iff in Hcd.
          intros [= <- <-]. cbn [app].
          rewrite flat_map_concat_map. rewrite map_map.
          split; [|split; [|split]].
          -- eapply Permutation_trans; [apply (D_children a b Hab Hcd)|]. apply Permutation_refl.
          -- apply Forall_forall. intros it0 Hit. apply in_map_iff in Hit as ([c d] & <- & Hin). cbn.
             destruct (children_within df a b c d Hdf Hab Hcd Hin) as (_ & Hcd' & _). exact Hcd'.
          -- congruence.
          -- intros it0 Hit _. apply in_map_iff in Hit as ([c d] & <- & Hin). cbn.
             destruct (children_within df a b c d Hdf Hab Hcd Hin) as (_ & _ & _ & Hhalf). auto.
  Qed.

  (* ---------------------------------------------------------------- one round *)
  Definition step_item (it : item) : list (tag * N) * list item :=
    let '(a, b, we) := it in compare_results df th cmp my it (get_range my a b we) (other a b we).

  Lemma one_round_fold to_send : forall acc,
    fold_left (fun acc it =>
                 let '(from, to, we) := it in
                 let '(rep, nxt) := compare_results df th cmp my it (get_range my from to we) (other from to we) in
                 (fst acc ++ rep, snd acc ++ nxt)) to_send acc
    = (fst acc ++ flat_map (fun it => fst (step_item it)) to_send,
       snd acc ++ flat_map (fun it => snd (step_item it)) to_send).
  Proof.
    induction to_send as [|[[a b] we] r IH]; intros [ar an]; cbn [fold_left flat_map fst snd].
    - rewrite !app_nil_r. reflexivity.
    - unfold step_item at 1 3.
      destruct (compare_results df th cmp my (a, b, we) (get_range my a b we) (other a b we)) as [rep nxt].
      rewrite IH. cbn [fst snd]. rewrite !app_assoc. reflexivity.
  Qed.

  Lemma one_round_eq to_send :
    one_round df th cmp get_range my other to_send
    = (flat_map (fun it => fst (step_item it)) to_send, flat_map (fun it => snd (step_item it)) to_send).
  Proof. unfold one_round. rewrite one_round_fold. reflexivity. Qed.

  Lemma perm_4 {A} (a b c d : list A) : Permutation ((a ++ b) ++ (c ++ d)) ((a ++ c) ++ (b ++ d)).
  Proof.
    rewrite <- !app_assoc. apply Permutation_app_head. rewrite !app_assoc.
    apply Permutation_app_tail. apply Permutation_app_comm.
  Qed.

  Lemma one_round_spec to_send rep nxt :
    Forall item_wf to_send ->
    one_round df th cmp get_range my other to_send = (rep, nxt) ->
    Permutation (flat_map Ditem to_send) (rep ++ flat_map Ditem nxt)
    /\ Forall item_wf nxt
    /\ (forall it, In it nxt -> item_flag it = false ->
          exists a b, In (a, b, false) to_send /\ can_divide df a b = true /\ 2 * item_size it <= (b - a + 1) + 1)
    /\ (Forall (fun it => item_flag it = true) to_send -> nxt = []).
  Proof.
    rewrite one_round_eq. intros Hwf [= <- <-].
    induction to_send as [|[[a b] we] r IH]; cbn [flat_map].
    - repeat split; auto. intros it0 [].
    - apply Forall_cons_iff in Hwf as [Hab Hwf]. cbn [item_wf] in Hab.
      destruct (IH Hwf) as (IH1 & IH2 & IH3 & IH4). clear IH.
      destruct (step_item (a, b, we)) as [rep1 nxt1] eqn:Hst. cbn [fst snd]. unfold step_item in Hst.
      destruct (compare_item a b we rep1 nxt1 Hab Hst) as (C1 & C2 & C3 & C4).
      split; [|split; [|split]].
      + rewrite flat_map_app. cbn [Ditem].
        eapply Permutation_trans; [apply Permutation_app; [exact C1|exact IH1]|]. apply perm_4.
      + apply Forall_app. split; assumption.
      + intros it0 Hin Hfl. apply in_app_or in Hin as [Hin|Hin].
        * destruct (C4 it0 Hin Hfl) as [Hcd Hsz]. exists a, b.
          assert (we = false) as -> by (destruct we; [rewrite (C3 eq_refl) in Hin; destruct Hin|reflexivity]).
          split; [left; reflexivity|auto].
        * destruct (IH3 it0 Hin Hfl) as (a' & b' & Hin' & Hrest). exists a', b'. split; [right; exact Hin'|exact Hrest].
      + intros Hall. apply Forall_cons_iff in Hall as [Hwe Hall]. cbn [item_flag] in Hwe.
        rewrite (C3 Hwe), (IH4 Hall). reflexivity.
  Qed.

  (* ---------------------------------------------------------------- the loop terminates and is exact *)
  Definition bound_ok (k : nat) (it : item) : Prop :=
    item_wf it /\ (item_flag it = false -> item_size it <= 2 ^ N.of_nat k).

  Lemma rounds_all_true fuel acc to_send :
    (2 <= fuel)%nat -> Forall item_wf to_send -> Forall (fun it => item_flag it = true) to_send ->
    exists res, rounds df th fuel cmp get_range my other acc to_send = Some res
                /\ Permutation res (acc ++ flat_map Ditem to_send).
  Proof.
    intros Hf Hwf Hall. destruct to_send as [|it0 r].
    - exists acc. destruct fuel; cbn; rewrite app_nil_r; split; auto.
    - destruct fuel as [|f]; [lia|]. cbn [rounds].
      destruct (one_round df th cmp get_range my other (it0 :: r)) as [rep nxt] eqn:Hr.
      destruct (one_round_spec (it0 :: r) rep nxt Hwf Hr) as (P1 & _ & _ & P4).
      rewrite (P4 Hall) in *. exists (acc ++ rep). split; [destruct f; reflexivity|].
      apply Permutation_app_head. cbn [flat_map] in P1. rewrite app_nil_r in P1. symmetry. exact P1.
  Qed.

  Lemma bound_wf k l : Forall (bound_ok k) l -> Forall item_wf l.
  Proof. apply Forall_impl. intros it0 [Hw _]. exact Hw. Qed.

  Lemma rounds_bound : forall k fuel acc to_send,
    (k + 3 <= fuel)%nat -> Forall (bound_ok k) to_send ->
    exists res, rounds df th fuel cmp get_range my other acc to_send = Some res
                /\ Permutation res (acc ++ flat_map Ditem to_send).
  Proof.
    induction k as [|k IH]; intros fuel acc to_send Hf Hb.
    - destruct to_send as [|it0 r]; [exists acc; destruct fuel; cbn; rewrite app_nil_r; auto|].
      destruct fuel as [|f]; [lia|]. cbn [rounds].
      destruct (one_round df th cmp get_range my other (it0 :: r)) as [rep nxt] eqn:Hr.
      destruct (one_round_spec (it0 :: r) rep nxt (bound_wf 0 _ Hb) Hr) as (P1 & P2 & P3 & _).
      assert (Hall : Forall (fun it => item_flag it = true) nxt).
      { apply Forall_forall. intros it1 Hin. destruct (item_flag it1) eqn:Hfl; [reflexivity|].
        destruct (P3 it1 Hin Hfl) as (a & b & Hin' & Hcd & _).
        rewrite Forall_forall in Hb. destruct (Hb _ Hin') as [Hw Hs]. cbn in Hw, Hs. specialize (Hs eq_refl).
        unfold can_divide in Hcd. cbn in Hs. lia. }
      destruct (rounds_all_true f (acc ++ rep) nxt ltac:(lia) P2 Hall) as (res & Hres & Hp).
      exists res. split; [exact Hres|].
      eapply Permutation_trans; [exact Hp|]. rewrite <- app_assoc. apply Permutation_app_head. symmetry. exact P1.
    - destruct to_send as [|it0 r]; [exists acc; destruct fuel; cbn; rewrite app_nil_r; auto|].
      destruct fuel as [|f]; [lia|]. cbn [rounds].
      destruct (one_round df th cmp get_range my other (it0 :: r)) as [rep nxt] eqn:Hr.
      destruct (one_round_spec (it0 :: r) rep nxt (bound_wf _ _ Hb) Hr) as (P1 & P2 & P3 & _).
      assert (Hb' : Forall (bound_ok k) nxt).
      { rewrite Forall_forall in P2 |- *. intros it1 Hin. split; [apply P2, Hin|]. intros Hfl.
        destruct (P3 it1 Hin Hfl) as (a & b & Hin' & _ & Hsz).
        rewrite Forall_forall in Hb. destruct (Hb _ Hin') as [Hw Hs].
        cbn [item_wf item_flag item_size] in Hw, Hs. specialize (Hs eq_refl).
        rewrite Nat2N.inj_succ, N.pow_succ_r' in Hs. lia. }
      destruct (IH f (acc ++ rep) nxt ltac:(lia) Hb') as (res & Hres & Hp).
      exists res. split; [exact Hres|].
      eapply Permutation_trans; [exact Hp|]. rewrite <- app_assoc. apply Permutation_app_head. symmetry. exact P1.
  Qed.

  Theorem diff_exact :
    exists res, rounds df th DIFF_FUEL cmp get_range my other [] [(0, U64MAX, false)] = Some res
                /\ Permutation res (D 0 U64MAX).
  Proof.
    destruct (rounds_bound 64 DIFF_FUEL [] [(0, U64MAX, false)]) as (res & Hres & Hp).
    - unfold DIFF_FUEL. lia.
    - constructor; [|constructor]. split; cbn; [unfold U64MAX; lia|]. intros _.
      change (2 ^ N.of_nat 64) with 18446744073709551616. unfold U64MAX. lia.
    - exists res. split; [exact Hres|]. cbn [app flat_map Ditem] in Hp. rewrite app_nil_r in Hp. exact Hp.
  Qed.
End Diff.
