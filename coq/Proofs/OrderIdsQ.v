(* Proofs/OrderIdsQ.v — the rationals (Model/OrderIdsQ.v) satisfy the four laws that the order-id theorems assume of
   lexid: the hypotheses of Proofs/OrderIds.v are satisfiable, and the instance the correspondence runs execute is a
   legitimate one. *)
From Coq Require Import List NArith ZArith Bool QArith Lqa.
Import ListNotations.
From AnySync Require Import Model.OrderIds Model.OrderIdsQ Proofs.OrderIdsFill.

Lemma qltb_lt : forall a b, olt Q qltb a b <-> (a < b)%Q.
Proof. intros a b. unfold olt, qltb, Qlt. apply Z.ltb_lt. Qed.

Lemma q_trans : forall a b c, olt Q qltb a b -> olt Q qltb b c -> olt Q qltb a c.
Proof. intros a b c H1 H2. apply qltb_lt in H1, H2. apply qltb_lt. apply (Qlt_trans _ _ _ H1 H2). Qed.

Lemma q_irrefl : forall a, ~ olt Q qltb a a.
Proof. intros a H. apply qltb_lt in H. exact (Qlt_irrefl a H). Qed.

Lemma q_next_gt : forall a, olt Q qltb a (q_next a).
Proof. intros a. apply qltb_lt. unfold q_next. rewrite Qred_correct. lra. Qed.

Lemma q_between_gt : forall a b, olt Q qltb a b -> olt Q qltb a (q_between a b) /\ olt Q qltb (q_between a b) b.
Proof.
  intros a b H. apply qltb_lt in H. unfold q_between. split; apply qltb_lt; rewrite Qred_correct; unfold Qdiv;
    change (/ (2 # 1))%Q with (1 # 2)%Q; lra.
Qed.

Theorem q_laws : lexid_laws Q qltb q_next q_between.
Proof. split; [exact q_trans | split; [exact q_irrefl | split; [exact q_next_gt | exact q_between_gt]]]. Qed.
