(* Proofs/TreeSyncExact.v — C01: upper bounds.  Responses carry only changes the responder stores; a delivery adds only
   changes of the delivered message; hence an exchange in which only the two partners talk to each other (and every
   delivered message carries only changes its sender stores — true of every message a replica emits) leaves both with
   EXACTLY the union of their stored sets. *)
From Coq Require Import List NArith Bool Arith Lia.
Import ListNotations.
From AnySync Require Import Lib.Dag Model.Dfs Model.Tree Model.LoadIter Model.TreeSync Proofs.DfsBase
  Proofs.LoadIter Proofs.TreeSyncClosure Proofs.TreeSyncConverge Proofs.TreeSyncSnapshot Proofs.TreeSyncExchange.

(* ---------------------------------------------------------------- what a response carries is stored by the responder *)

Lemma stream_in_rest : forall fuel ms l b e, li_ok l -> length (nonrem (li_removed l) (li_rest l)) < fuel ->
  In b (stream next_batch fuel ms l) -> In e (b_changes b) -> In e (li_rest l).
Proof.
  intros fuel ms l b e Hok Hlen Hb He. destruct (stream_exact fuel ms l Hok Hlen) as [Hc _].
  assert (Hin : In e (concat (map b_changes (stream next_batch fuel ms l)))).
  { apply in_concat. exists (b_changes b). split; [apply in_map; exact Hb | exact He]. }
  rewrite Hc in Hin. apply filter_In in Hin. exact (proj1 Hin).
Qed.

Theorem responses_are_stored : forall U rq p heads path,
  let G := map se_ch U in
  ginv G -> rinv G rq ->
  forall e, In e (handle_req next_batch U (groot G) rq p heads path) -> incl (msg_changes (snd e)) (r_have rq).
Proof.
  intros U rq p heads path G HG Hrq e He. unfold handle_req in He. fold G in He.
  destruct (rep_path G rq) as [ourPath|]; [|destruct He].
  destruct (choose_snapshot ourPath path) as [cs|]; [|destruct He].
  destruct (same_set (rep_heads G rq) heads || contains_sorted heads (rep_heads G rq)).
  - destruct He as [<-|He]; [intros x []|]. destruct (Nat.eqb _ _); [destruct He|]. destruct He as [<-|[]]. intros x [].
  - apply in_app_or in He. destruct He as [He|He].
    + apply in_map_iff in He. destruct He as [b [<- Hb]]. cbn [snd msg_changes]. intros x Hx.
      apply in_map_iff in Hx. destruct Hx as [en [<- Hen]].
      unfold respond_with in Hb.
      set (sigma := sigma_of U rq (groot G)) in *.
      assert (Hrest : In en (li_rest (load sigma cs heads))).
      { apply (stream_in_rest (S (length sigma)) batch_size (load sigma cs heads) b en); [| |exact Hb | exact Hen].
        - unfold li_ok, load. cbn. intros; discriminate.
        - pose proof (nonrem_length (li_removed (load sigma cs heads)) (li_rest (load sigma cs heads))).
          unfold load in *. cbn [li_rest] in *. pose proof (from_id_length cs sigma). lia. }
      unfold load in Hrest. cbn [li_rest] in Hrest. destruct (from_id_suffix cs sigma) as [pre Epre].
      assert (Hs : In en sigma) by (rewrite Epre; apply in_or_app; right; exact Hrest).
      exact (proj1 (proj2 (sigma_entry U HG rq Hrq en Hs))).
    + destruct (is_nil heads); [destruct He|]. destruct He as [<-|[]]. intros x [].
Qed.

(* ---------------------------------------------------------------- a delivery adds only what the message carries *)

Lemma apply_upper : forall G r batch path r' res, apply G r batch path = (r', res) -> incl (r_have r') (batch ++ r_have r).
Proof.
  intros G r batch path r' res H.
  assert (Hsame : incl (r_have r) (batch ++ r_have r)) by (intros x Hx; apply in_or_app; right; exact Hx).
  unfold apply in H. set (v := rep_view G r) in *. set (newc := dedup (minus batch v) []) in *.
  assert (Hnewc : incl newc batch).
  { intros x Hx. unfold newc in Hx. apply dedup_In in Hx. destruct Hx as [Hx _]. apply minus_In in Hx. exact (proj1 Hx). }
  destruct (find_all G newc) as [|nc0 ncs]; [inversion H; subst; exact Hsame|].
  destruct (need_rb _ _ _ _ _) as [[|]|]; [| |inversion H; subst; exact Hsame].
  - destruct path as [|p0 pr]; [inversion H; subst; exact Hsame|].
    destruct (rep_path G r) as [ourPath|]; [|inversion H; subst; exact Hsame].
    destruct (common_snapshot ourPath (p0 :: pr)) as [base|]; [|inversion H; subst; exact Hsame].
    destruct (negb (mem base (r_have r))); [inversion H; subst; exact Hsame|].
    inversion H; subst r' res. cbn [r_have]. intros x Hx. apply grow_In in Hx. apply in_or_app.
    destruct Hx as [Hx|Hx]; [|right; exact Hx]. apply minus_In in Hx. destruct Hx as [Hx1 Hx2].
    destruct (attach_pass_spec G (minus newc (r_have r)) G (mview G (r_have r) base) (fun c Hc => Hc)) as [_ Hspec].
    destruct (Hspec x Hx1) as [Hv|[Hc _]]; [contradiction|]. left. apply Hnewc. apply minus_In in Hc. exact (proj1 Hc).
  - destruct (minus (attach_pass G newc v) v) as [|a0 ar] eqn:Eadd; [inversion H; subst; exact Hsame|].
    inversion H; subst r' res. cbn [r_have]. intros x Hx.
    assert (Hx' : In x (minus (a0 :: ar) (r_have r) ++ r_have r)) by exact Hx. clear Hx.
    apply grow_In in Hx'. apply in_or_app. destruct Hx' as [Hx|Hx]; [|right; exact Hx].
    rewrite <- Eadd in Hx. apply minus_In in Hx. destruct Hx as [Hx1 Hx2].
    destruct (attach_pass_spec G newc G v (fun c Hc => Hc)) as [_ Hspec].
    destruct (Hspec x Hx1) as [Hv|[Hc _]]; [contradiction|]. left. apply Hnewc. exact Hc.
Qed.

Lemma add_from_peer_upper : forall G n me from r heads chs path r' em res,
  add_from_peer G n me from r heads chs path = (r', em, res) -> incl (r_have r') (chs ++ r_have r).
Proof.
  intros G n me from r heads chs path r' em res H. unfold add_from_peer in H.
  assert (Hsame : incl (r_have r) (chs ++ r_have r)) by (intros x Hx; apply in_or_app; right; exact Hx).
  destruct (has_heads G r heads); [inversion H; subst; exact Hsame|].
  destruct (apply G r chs path) as [r1 a] eqn:Ea. pose proof (apply_upper _ _ _ _ _ _ Ea) as H1.
  destruct a; inversion H; subst; assumption.
Qed.

Lemma step_upper : forall nb w l w' em, step nb w l = (w', em) ->
  match l with
  | LocalAdd _ _ _ _ => True
  | SyncWithPeer _ _ => w' = w
  | Deliver a b m =>
      forall k, incl (r_have (get_rep w' k)) (if Nat.eqb k a then msg_changes m ++ r_have (get_rep w k) else r_have (get_rep w k))
  end.
Proof.
  intros nb w l w' em H. destruct l as [i isSnap id size | i from m | i p]; [exact I | |].
  - unfold step in H. destruct (Nat.ltb i (length (w_reps w))) eqn:Ei.
    + apply Nat.ltb_lt in Ei.
      assert (Hset : forall r', incl (r_have r') (msg_changes m ++ r_have (get_rep w i)) ->
                forall k, incl (r_have (get_rep (set_rep w i r') k))
                               (if Nat.eqb k i then msg_changes m ++ r_have (get_rep w k) else r_have (get_rep w k))).
      { intros r' Hr' k. rewrite get_set_rep by exact Ei. destruct (Nat.eqb k i) eqn:E; [|apply incl_refl].
        apply Nat.eqb_eq in E. subst k. exact Hr'. }
      assert (Hsame : incl (r_have (get_rep w i)) (msg_changes m ++ r_have (get_rep w i))) by (intros x Hx; apply in_or_app; right; exact Hx).
      destruct m as [hs chs p | hs p | hs chs p]; cbn [msg_changes] in *.
      * destruct (handle_head (wG w) (length (w_reps w)) i from (get_rep w i) hs chs p) as [r' em0] eqn:Eh.
        inversion H; subst w' em. apply Hset. unfold handle_head in Eh. destruct chs as [|c0 cr].
        -- destruct (has_heads _ _ _); inversion Eh; subst; exact Hsame.
        -- destruct (add_from_peer _ _ _ _ _ _ (c0 :: cr) _) as [[r1 em1] res] eqn:Ea.
           pose proof (add_from_peer_upper _ _ _ _ _ _ _ _ _ _ _ Ea) as H1.
           destruct res as [rh|]; [destruct (same_set rh hs)|]; inversion Eh; subst; exact H1.
      * inversion H; subst w' em. intros k. destruct (Nat.eqb k i); [|apply incl_refl]. intros x Hx. exact Hx.
      * destruct (handle_resp (wG w) (length (w_reps w)) i from (get_rep w i) hs chs p) as [r' em0] eqn:Eh.
        inversion H; subst w' em. apply Hset. unfold handle_resp in Eh. destruct chs as [|c0 cr].
        -- inversion Eh; subst. exact Hsame.
        -- destruct (add_from_peer _ _ _ _ _ _ (c0 :: cr) _) as [[r1 em1] res] eqn:Ea.
           pose proof (add_from_peer_upper _ _ _ _ _ _ _ _ _ _ _ Ea) as H1. inversion Eh; subst. exact H1.
    + inversion H; subst w' em. intros k. destruct (Nat.eqb k i); [|apply incl_refl]. intros x Hx. apply in_or_app. right. exact Hx.
  - unfold step in H. destruct (Nat.ltb i (length (w_reps w))); inversion H; reflexivity.
Qed.

(* only i and j act, only on messages from each other, and every delivered message carries only changes its sender
   stores at that moment *)
Fixpoint between_ok (nb : N -> liter -> batch * liter) (w : world) (ls : list label) (i j : nat) : Prop :=
  match ls with
  | [] => True
  | l :: r =>
      match l with
      | LocalAdd _ _ _ _ => False
      | SyncWithPeer _ _ => True
      | Deliver a b m => ((a = i /\ b = j) \/ (a = j /\ b = i)) /\ incl (msg_changes m) (r_have (get_rep w b))
      end /\ between_ok nb (fst (step nb w l)) r i j
  end.

Theorem between_upper : forall nb ls w i j (S : N -> Prop),
  between_ok nb w ls i j ->
  (forall x, In x (r_have (get_rep w i)) -> S x) -> (forall x, In x (r_have (get_rep w j)) -> S x) ->
  (forall x, In x (r_have (get_rep (run nb w ls) i)) -> S x) /\ (forall x, In x (r_have (get_rep (run nb w ls) j)) -> S x).
Proof.
  intros nb ls. induction ls as [|l ls IH]; intros w i j S Hok Hi Hj; [split; assumption|].
  cbn [between_ok] in Hok. destruct Hok as [Hl Hok]. rewrite run_cons.
  destruct (step nb w l) as [w1 em] eqn:Est. cbn [fst] in *. pose proof (step_upper _ _ _ _ _ Est) as Hup.
  apply IH; [exact Hok | |].
  - destruct l as [? ? ? ?|a b m|? ?]; [destruct Hl | | subst w1; exact Hi].
    destruct Hl as [Hab Hm]. intros x Hx. apply (Hup i) in Hx. destruct (Nat.eqb i a) eqn:E; [|apply Hi; exact Hx].
    apply in_app_or in Hx. destruct Hx as [Hx|Hx]; [|apply Hi; exact Hx].
    apply Hm in Hx. destruct Hab as [[_ ->]|[_ ->]]; [apply Hj | apply Hi]; exact Hx.
  - destruct l as [? ? ? ?|a b m|? ?]; [destruct Hl | | subst w1; exact Hj].
    destruct Hl as [Hab Hm]. intros x Hx. apply (Hup j) in Hx. destruct (Nat.eqb j a) eqn:E; [|apply Hj; exact Hx].
    apply in_app_or in Hx. destruct Hx as [Hx|Hx]; [|apply Hj; exact Hx].
    apply Hm in Hx. destruct Hab as [[_ ->]|[_ ->]]; [apply Hj | apply Hi]; exact Hx.
Qed.

Lemma between_noadd : forall nb ls w i j, between_ok nb w ls i j -> noadd ls.
Proof.
  intros nb ls. induction ls as [|l ls IH]; intros w i j H; [reflexivity|]. cbn [between_ok] in H. destruct H as [Hl H].
  unfold noadd. cbn [forallb]. apply andb_true_iff. split; [|exact (IH _ _ _ H)].
  destruct l; [destruct Hl | reflexivity | reflexivity].
Qed.

(* (2) in its exact form: one lossless exchange between two replicas makes both stored sets EQUAL to the union *)
Theorem exchange_exact : forall w ls i j,
  sinv w -> i < length (w_reps w) -> j < length (w_reps w) ->
  exchange next_batch w ls i j -> between_ok next_batch w ls i j ->
  let w' := run next_batch w ls in
  (forall x, In x (r_have (get_rep w' i)) <-> In x (r_have (get_rep w i)) \/ In x (r_have (get_rep w j)))
  /\ (forall x, In x (r_have (get_rep w' j)) <-> In x (r_have (get_rep w i)) \/ In x (r_have (get_rep w j))).
Proof.
  intros w ls i j Hw Hi Hj Hex Hbt w'.
  pose proof (between_noadd _ _ _ _ _ Hbt) as Hna.
  destruct (exchange_catch_up w ls i j Hw Hna Hi Hj Hex) as [H1 H2]. fold w' in H1, H2.
  destruct (run_noadd next_batch ls w Hw Hna) as [_ [_ [_ Hmono]]]. fold w' in Hmono.
  destruct (between_upper next_batch ls w i j (fun x => In x (r_have (get_rep w i)) \/ In x (r_have (get_rep w j))) Hbt
              (fun x Hx => or_introl Hx) (fun x Hx => or_intror Hx)) as [U1 U2]. fold w' in U1, U2.
  split; intros x; split.
  - apply U1.
  - intros [Hx|Hx]; [apply (Hmono i); exact Hx | apply H1; exact Hx].
  - apply U2.
  - intros [Hx|Hx]; [apply H2; exact Hx | apply (Hmono j); exact Hx].
Qed.

(* executable recogniser of [between_ok] *)
Fixpoint between_b (nb : N -> liter -> batch * liter) (w : world) (ls : list label) (i j : nat) : bool :=
  match ls with
  | [] => true
  | l :: r =>
      match l with
      | LocalAdd _ _ _ _ => false
      | SyncWithPeer _ _ => true
      | Deliver a b m => ((Nat.eqb a i && Nat.eqb b j) || (Nat.eqb a j && Nat.eqb b i)) && subset_b (msg_changes m) (r_have (get_rep w b))
      end && between_b nb (fst (step nb w l)) r i j
  end.

Lemma between_b_sound : forall nb ls w i j, between_b nb w ls i j = true -> between_ok nb w ls i j.
Proof.
  intros nb ls. induction ls as [|l ls IH]; intros w i j H; [exact I|]. cbn [between_b between_ok] in *.
  apply andb_true_iff in H. destruct H as [Hl H]. split; [|apply IH; exact H].
  destruct l as [? ? ? ?|a b m|? ?]; [discriminate | | exact I].
  apply andb_true_iff in Hl. destruct Hl as [Hab Hm]. split.
  - apply orb_true_iff in Hab. destruct Hab as [E|E]; apply andb_true_iff in E; destruct E as [E1 E2];
      apply Nat.eqb_eq in E1; apply Nat.eqb_eq in E2; [left | right]; split; assumption.
  - intros x Hx. unfold subset_b in Hm. rewrite forallb_forall in Hm. apply mem_In. apply Hm. exact Hx.
Qed.

(* every message emitted in answer to ANY request (heads and path arbitrary) from a state with the invariants carries
   only changes the responder stores *)
Theorem step_req_stored : forall w q p heads path w' em,
  sinv w -> step next_batch w (Deliver q p (MReq heads path)) = (w', em) ->
  Forall (fun e => incl (msg_changes (snd e)) (r_have (get_rep w' q))) em.
Proof.
  intros w q p heads path w' em Hw H. unfold step in H.
  destruct (Nat.ltb q (length (w_reps w))) eqn:Eq; inversion H; subst w' em; [|constructor].
  apply Nat.ltb_lt in Eq. apply Forall_forall. intros e He. rewrite root0_groot in He.
  exact (responses_are_stored (w_uni w) (get_rep w q) p heads path (proj1 Hw) (get_rep_rinv w q Hw Eq) e He).
Qed.

Theorem reachable_req_stored : forall n root size ls q p heads path w' em,
  honest_root root ->
  step next_batch (run next_batch (init_world n root size) ls) (Deliver q p (MReq heads path)) = (w', em) ->
  Forall (fun e => incl (msg_changes (snd e)) (r_have (get_rep w' q))) em.
Proof.
  intros n root size ls q p heads path w' em Hroot H.
  exact (step_req_stored _ q p heads path w' em (run_sinv next_batch ls _ (init_sinv n root size Hroot)) H).
Qed.
