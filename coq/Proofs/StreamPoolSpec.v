(* Proofs about Model/StreamPool.v (property C19), part 3: the harness-level histories ([run_op], [model_hist])
   only visit reachable states, and the model's own observations satisfy the per-observation part of spec_C19. *)
From Coq Require Import List NArith Bool Lia Arith.
Import ListNotations.
From AnySync Require Import Model.StreamPool Proofs.StreamPoolProofs Proofs.StreamPoolIndex.
Open Scope N_scope.

Definition good (s : state) : Prop := objs_ok (objs s) /\ idx_inv s.

Lemma good_init : forall c, good (init c).
Proof. intros c; split; [apply init_objs_ok|apply init_idx_inv]. Qed.

Lemma good_run : forall tr s, good s -> good (run s tr).
Proof. intros tr s (H1 & H2); split; [apply run_objs_ok|apply run_idx_inv]; auto. Qed.

Lemma run_op_state : forall s i op, fst (run_op s i op) = run s (expand s i op).
Proof. intros. unfold run_op. reflexivity. Qed.

(* every harness-level operation is a list of labels: its states are reachable states of the LTS *)
Lemma good_run_op : forall s i op, good s -> good (fst (run_op s i op)).
Proof. intros. rewrite run_op_state. apply good_run; auto. Qed.

Lemma snap_bounded_good : forall s, objs_ok (objs s) -> snap_bounded (snapshot s) = true.
Proof.
  intros s Hs. unfold snap_bounded, snapshot; cbn [sn_streams].
  apply forallb_forall. intros [sid v] Hin. apply in_flat_map in Hin. destruct Hin as (x & _ & Hin).
  destruct (hget x (objs s)) as [st|] eqn:E; cbn in Hin; [|tauto].
  destruct Hin as [Hin|[]]. inversion Hin; subst. cbn.
  apply N.leb_le. destruct (Hs _ _ E) as (_ & Hq & _). exact Hq.
Qed.

Lemma run_op_static_ok : forall s i op, good s -> obs_static_ok (snd (run_op s i op)) = true.
Proof.
  intros s i op Hg. pose proof (good_run_op s i op Hg) as (Ho & Hi).
  unfold run_op in *. cbn [fst snd] in *. unfold obs_static_ok; cbn [o_timely o_snap].
  apply andb_true_iff; split.
  - pose proof (ii_alive _ Hi) as Hd. unfold dead in Hd. rewrite Hd. reflexivity.
  - apply snap_bounded_good; auto.
Qed.

Lemma run_hist_static_ok : forall ops s i, good s -> forallb obs_static_ok (run_hist s i ops) = true.
Proof.
  induction ops as [|op ops IH]; intros s i Hg; cbn [run_hist]; auto.
  pose proof (run_op_static_ok s i op Hg) as H1. pose proof (good_run_op s i op Hg) as H2.
  destruct (run_op s i op) as [s' o]; cbn [fst snd] in *. cbn [forallb]. rewrite H1. cbn. apply IH; auto.
Qed.

(* the model's own history: every call returns (no fatal, no panic) and no snapshot shows an over-full queue *)
Theorem model_hist_static_ok : forall c ops, forallb obs_static_ok (model_hist c ops) = true.
Proof. intros. apply run_hist_static_ok. apply good_init. Qed.

Lemma run_hist_length : forall ops s i, length (run_hist s i ops) = length ops.
Proof.
  induction ops as [|op ops IH]; intros s i; cbn [run_hist]; auto.
  destruct (run_op s i op) as [s' o]. cbn. rewrite IH. reflexivity.
Qed.

(* [obs_static_ok] really is a part of the property predicate *)
Lemma spec_from_static : forall l st i, spec_from st i l = true -> forallb obs_static_ok l = true.
Proof.
  induction l as [|o l IH]; intros st i H; cbn in *; auto.
  apply andb_true_iff in H. destruct H as (H1 & H2). apply andb_true_iff; split; [|eapply IH; eauto].
  unfold obs_ok in H1. unfold obs_static_ok.
  repeat (apply andb_true_iff in H1; destruct H1 as (H1 & ?)). rewrite H1. cbn.
  assumption.
Qed.

Theorem spec_implies_static : forall ops observed, spec_C19 ops observed = true -> forallb obs_static_ok observed = true.
Proof.
  intros ops observed H. unfold spec_C19 in H. apply andb_true_iff in H. destruct H as (H & _).
  apply andb_true_iff in H. destruct H as (_ & H).
  eapply spec_from_static; eauto.
Qed.

(* ------------------------------------------------------------------ util/multiqueue: bounded and FIFO per queue object *)
Lemma hget_map : forall (f : stream -> stream) k h,
  hget k (map (fun kv => (fst kv, f (snd kv))) h) = option_map f (hget k h).
Proof.
  intros f k h; induction h as [|[a v] r IH]; cbn; auto. destruct (k =? a); auto.
Qed.

Lemma force_close_ok : forall st, stream_ok st -> stream_ok (force_close st).
Proof. intros. unfold force_close. apply close_queue_ok, read_err_ok; auto. Qed.

Fixpoint mq_run (s : mqstate) (i : N) (ops : list mqop) : mqstate :=
  match ops with
  | [] => s
  | op :: r => mq_run (fst (fst (mq_step s i op))) (N.succ i) r
  end.

Definition all_ok (h : heap) : Prop := Forall (fun kv => stream_ok (snd kv)) h.

Lemma all_ok_hset : forall h k st, all_ok h -> stream_ok st -> all_ok (hset k st h).
Proof.
  intros h k st Hh Hst. induction h as [|[a v] r IH]; cbn.
  - constructor; auto.
  - inversion Hh; subst. destruct (k =? a); constructor; auto. apply IH; auto.
Qed.

Lemma all_ok_hget : forall h k st, all_ok h -> hget k h = Some st -> stream_ok st.
Proof.
  intros h k st Hh. induction h as [|[a v] r IH]; cbn; [discriminate|].
  inversion Hh; subst. destruct (k =? a); [intros E; inversion E; subst; auto|auto].
Qed.

Definition mq_good (s : mqstate) : Prop := 0 < mq_cap s /\ all_ok (mq_objs s).

Lemma mq_ensure_good : forall s tid, mq_good s -> mq_good (fst (mq_ensure s tid)).
Proof.
  intros s tid (Hc & Ho). unfold mq_ensure. destruct (aget tid (mq_threads s)); cbn [fst]; [split; auto|].
  split; cbn; auto. apply all_ok_hset; auto.
  unfold stream_ok; cbn. repeat split; auto; try discriminate. lia.
Qed.

Lemma mq_add_at_good : forall s1 oid tid i, mq_good s1 -> mq_good (fst (fst (mq_add_at s1 oid tid i))).
Proof.
  intros s1 oid tid i (Hc1 & Ho1). unfold mq_add_at.
  destruct (hget oid (mq_objs s1)) as [st|] eqn:E; cbn [fst]; [|split; auto].
  pose proof (write_stream_ok st i (all_ok_hget _ _ _ Ho1 E)) as Hw.
  destruct (write_stream st i) as [st1 r]; cbn [fst] in Hw.
  destruct r; cbn [fst]; [|split; auto|split; auto].
  pose proof (take_ok st1 Hw) as Ht. destruct (take st1) as [st2 o]; cbn [fst] in *.
  split; cbn; auto. apply all_ok_hset; auto.
Qed.

Lemma mq_step_good : forall s i op, mq_good s -> mq_good (fst (fst (mq_step s i op))).
Proof.
  intros s i op Hg. pose proof Hg as (Hc & Ho). unfold mq_step. destruct op as [tid|tid m|tid|].
  - destruct (mq_closed s); cbn [fst]; [split; auto|].
    apply mq_add_at_good. apply mq_ensure_good; auto.
  - match goal with |- context [find ?f ?l] => destruct (find f l) as [[oid st]|] eqn:E end; cbn [fst]; [|split; auto].
    apply find_some in E. destruct E as (Hin & _).
    assert (Hst : stream_ok st).
    { unfold all_ok in Ho. rewrite Forall_forall in Ho. apply (Ho _ Hin). }
    pose proof (take_ok _ (send_ok_ok st Hst)) as Ht.
    destruct (take (send_ok st)) as [st2 o]; cbn [fst] in *. split; cbn; auto. apply all_ok_hset; auto.
  - destruct (mq_closed s); cbn [fst]; [split; auto|].
    destruct (aget tid (mq_threads s)) as [oid|]; cbn [fst]; [|split; auto].
    destruct (hget oid (mq_objs s)) as [st|] eqn:E; cbn [fst]; [|split; auto].
    split; cbn; auto. apply all_ok_hset; auto. apply take_ok, force_close_ok. eapply all_ok_hget; eauto.
  - destruct (mq_closed s); cbn [fst]; [split; auto|].
    split; cbn; auto. unfold all_ok in *. rewrite Forall_forall in *. intros kv Hin.
    apply in_map_iff in Hin. destruct Hin as (kv0 & Heq & Hin0). subst kv. cbn.
    apply take_ok, force_close_ok. apply (Ho _ Hin0).
Qed.

(* for every operation sequence on a multiqueue with a positive size: every thread queue ever created holds at most
   that size, and what its handler saw is a prefix (in acceptance order) of what Add accepted *)
Theorem mq_bounded_fifo_all_histories : forall cap ops k st,
  0 < cap ->
  hget k (mq_objs (mq_run (mq_init cap) 0 ops)) = Some st ->
  N.of_nat (length (st_queue st)) <= st_cap st
  /\ st_accepted st = st_taken st ++ st_queue st
  /\ prefix (st_written st) (st_taken st).
Proof.
  intros cap ops k st Hpos.
  assert (H : forall ops s i, mq_good s -> mq_good (mq_run s i ops)).
  { induction ops0 as [|op r IH]; intros s i Hg; cbn; auto. apply IH. apply mq_step_good; auto. }
  intros Hk. destruct (H ops (mq_init cap) 0) as (_ & Hall).
  - split; cbn; auto. constructor.
  - destruct (all_ok_hget _ _ _ Hall Hk) as (_ & Hq & Ha & Ht & _).
    split; auto. split; auto.
    destruct Ht as [Ht|(_ & _ & m & Ht)]; rewrite Ht; eexists; reflexivity.
Qed.
