(* C15: children follow within one complete run of the deletion worker (deleter.Delete + deleteBoundChildren):
   every id the run found queued is fully deleted, and so is every bound child of such an id that has a heads entry,
   whether or not the child was queued itself (NotDeleted -> Deleted directly); it is then not advertised and has
   nothing stored. *)
From Coq Require Import List NArith Bool Lia.
Import ListNotations.
From AnySync Require Import Model.Deletion Proofs.DeletionBase Proofs.DeletionInv Proofs.DeletionTheorems.
Open Scope N_scope.

Lemma In_ninsert : forall x y l, In x (ninsert y l) <-> x = y \/ In x l.
Proof.
  intros x y l. induction l as [|z r IH]; cbn [ninsert In].
  - intuition congruence.
  - destruct (y <? z); cbn [In]; [intuition congruence|].
    destruct (N.eqb_spec y z) as [E|E]; cbn [In]; [subst; intuition congruence|].
    rewrite IH. intuition congruence.
Qed.

Lemma In_nsort : forall x l, In x (nsort l) <-> In x l.
Proof.
  intros x l. unfold nsort. induction l as [|y r IH]; cbn [fold_right In]; [tauto|].
  rewrite In_ninsert, IH. intuition congruence.
Qed.

(* headstorage.GetEntriesByParentId returns every entry that names the parent *)
Lemma children_of_in : forall p c s, p <> 0 -> has_entry c s = true -> e_parent (get c s) = p -> In c (children_of p s).
Proof.
  intros p c s Hp He Hpar. unfold children_of. apply In_nsort. apply in_map_iff.
  unfold has_entry in He. unfold get in Hpar.
  destruct (find_e c (ents s)) as [e|] eqn:F; [|discriminate].
  exists e. split; [eapply find_e_id; eauto|]. apply filter_In. split; [eapply find_e_In; eauto|].
  apply andb_true_iff. split; [now apply N.eqb_eq|]. apply negb_true_iff. now apply N.eqb_neq.
Qed.

Lemma drop_tree_get : forall i s j, get j (drop_tree i s) = if j =? i then set_status 2 (get i s) else get j s.
Proof.
  intros i s j. unfold drop_tree, st_delete.
  set (s0 := if has_storage i s then with_chg (del_c i (chg s)) s else s).
  assert (He0 : ents s0 = ents s) by (unfold s0; now destruct (has_storage i s)).
  set (s1 := with_md (sadd i (md s0)) (with_mq (srem i (mq s0)) s0)).
  assert (Hg1 : forall x, get x s1 = get x s) by (intros x; unfold get; cbn [ents s1 with_md with_mq]; now rewrite He0).
  assert (Hid : e_id (set_status 2 (get i s1)) = i) by (rewrite Hg1; apply get_id).
  rewrite (upd_get i _ s1 Hid j). now rewrite !Hg1.
Qed.

Lemma drop_tree_status : forall i s j, status j (drop_tree i s) = if j =? i then 2 else status j s.
Proof. intros i s j. unfold status. rewrite drop_tree_get. now destruct (j =? i). Qed.

Lemma drop_tree_parent : forall i s j, e_parent (get j (drop_tree i s)) = e_parent (get j s).
Proof.
  intros i s j. rewrite drop_tree_get. destruct (N.eqb_spec j i) as [->|]; reflexivity.
Qed.

Lemma delete_one_nofail : forall i s, delete_one [] i s = Some (drop_tree i s).
Proof. reflexivity. Qed.

Lemma keep_deleted : forall s s' j, Inv s' -> Ext s s' -> status j s = 2 -> status j s' = 2.
Proof.
  intros s s' j HI [E _] H. specialize (E j). pose proof (i_st s' HI j). lia.
Qed.

Lemma not_cancelled : forall k n m, n <= m -> m < k -> cancelled k n = false.
Proof. intros k n m H1 H2. unfold cancelled. apply N.leb_gt. lia. Qed.

(* deleteBoundChildren: if the run is not cancelled, every listed child ends fully deleted; parents are untouched *)
Lemma worker_children_complete : forall k cs s n, Inv s ->
  n <= snd (worker_children k [] cs (s, n)) /\
  (forall j, e_parent (get j (fst (worker_children k [] cs (s, n)))) = e_parent (get j s)) /\
  (snd (worker_children k [] cs (s, n)) < k ->
   forall c, In c cs -> status c (fst (worker_children k [] cs (s, n))) = 2).
Proof.
  induction cs as [|c r IH]; intros s n HI; cbn [worker_children].
  - cbn [fst snd]. repeat split; [lia | intros _ c []].
  - destruct (cancelled k n) eqn:C.
    + cbn [fst snd]. repeat split; [lia|]. intros Hlt. unfold cancelled in C. apply N.leb_le in C. lia.
    + destruct (2 <=? status c s) eqn:S2.
      * destruct (IH s n HI) as [A [B D]]. repeat split; [exact A | exact B|].
        intros Hlt x [->|Hx]; [|now apply D].
        destruct (worker_children_step k [] r s n HI) as [I2 E2].
        apply (keep_deleted s _ x I2 E2). apply N.leb_le in S2. pose proof (i_st s HI x). lia.
      * rewrite delete_one_nofail. destruct (drop_tree_step s c HI) as [I1 E1].
        destruct (IH (drop_tree c s) (N.succ n) I1) as [A [B D]]. repeat split.
        -- lia.
        -- intros j. rewrite B. apply drop_tree_parent.
        -- intros Hlt x [->|Hx]; [|now apply D].
           destruct (worker_children_step k [] r (drop_tree x s) (N.succ n) I1) as [I2 E2].
           apply (keep_deleted (drop_tree x s) _ x I2 E2). rewrite drop_tree_status. now rewrite N.eqb_refl.
Qed.

(* deleter.Delete: if the run is not cancelled, every id of the queue snapshot and every bound child (an entry that
   names it as parent) of such an id ends fully deleted *)
Lemma worker_loop_complete : forall k order s n, Inv s ->
  n <= snd (worker_loop k [] order (s, n)) /\
  (snd (worker_loop k [] order (s, n)) < k ->
   forall p, In p order ->
     status p (fst (worker_loop k [] order (s, n))) = 2 /\
     forall c, p <> 0 -> has_entry c s = true -> e_parent (get c s) = p ->
       status c (fst (worker_loop k [] order (s, n))) = 2).
Proof.
  induction order as [|i r IH]; intros s n HI; cbn [worker_loop].
  - cbn [fst snd]. split; [lia | intros _ p []].
  - destruct (cancelled k n) eqn:C.
    + cbn [fst snd]. split; [lia|]. intros Hlt. unfold cancelled in C. apply N.leb_le in C. lia.
    + rewrite delete_one_nofail. destruct (drop_tree_step s i HI) as [I1 E1].
      destruct (worker_children_complete k (children_of i (drop_tree i s)) (drop_tree i s) (N.succ n) I1) as [A [B D]].
      destruct (worker_children_step k [] (children_of i (drop_tree i s)) (drop_tree i s) (N.succ n) I1) as [I2 E2].
      destruct (worker_children k [] (children_of i (drop_tree i s)) (drop_tree i s, N.succ n)) as [s2 n2] eqn:W.
      cbn [fst snd] in A, B, D, I2, E2.
      destruct (IH s2 n2 I2) as [A3 D3]. destruct (worker_loop_step k [] r s2 n2 I2) as [I3 E3].
      split; [lia|]. intros Hlt p [->|Hp].
      * split.
        -- apply (keep_deleted s2 _ p I3 E3). apply (keep_deleted (drop_tree p s) _ p I2 E2).
           rewrite drop_tree_status. now rewrite N.eqb_refl.
        -- intros c Hp0 Hc Hpar. apply (keep_deleted s2 _ c I3 E3). apply D; [lia|].
           apply children_of_in; [exact Hp0 | | now rewrite drop_tree_parent].
           destruct E1 as [_ [E1 _]]. now apply E1.
      * destruct (D3 Hlt p Hp) as [P1 P2]. split; [exact P1|]. intros c Hp0 Hc Hpar. apply P2; [exact Hp0 | |].
        -- destruct E1 as [_ [E1 _]]. destruct E2 as [_ [E2 _]]. apply E2, E1, Hc.
        -- now rewrite B, drop_tree_parent.
Qed.

(* the property-level statement, for every reachable state: a run of the worker that was not cancelled and whose tree
   manager did not fail fully deletes every id [p] that was queued and in the queue snapshot, and every bound child [c]
   of it that has a heads entry; the child is then observed as deleted, NOT ADVERTISED, with nothing stored and known
   to the deletion state - although it may never have been queued *)
Theorem worker_children_follow : forall ops order k p,
  let s := run true ops init in
  worker_calls order k [] s < k -> memb p (mq s) = true -> memb p order = true ->
  status p (worker order k [] s) = 2 /\
  forall c, p <> 0 -> has_entry c s = true -> e_parent (get c s) = p ->
    status c (worker order k [] s) = 2 /\ memb c (idx (worker order k [] s)) = false /\
    has_chg c (worker order k [] s) = false /\ observe1 (worker order k [] s) c = mkO 3 false 0 true.
Proof.
  intros ops order k p s Hlt Hq Ho. pose proof (reach_inv ops) as HI. fold s in HI.
  destruct (worker_step order k [] s HI) as [I1 E1].
  unfold worker_calls in Hlt. unfold worker in *.
  destruct (worker_loop_complete k (filter (fun i => memb i (mq s)) order) s 0 HI) as [_ D].
  assert (Hin : In p (filter (fun i => memb i (mq s)) order)).
  { apply filter_In. split; [now apply memb_In | exact Hq]. }
  destruct (D Hlt p Hin) as [P1 P2]. split; [exact P1|].
  intros c Hp0 Hc Hpar. pose proof (P2 c Hp0 Hc Hpar) as S2.
  set (s' := fst (worker_loop k [] (filter (fun i => memb i (mq s)) order) (s, 0))) in *.
  assert (Hidx : memb c (idx s') = false).
  { destruct (memb c (idx s')) eqn:E; [|reflexivity]. apply (i_idx s' I1) in E. rewrite E in S2. discriminate. }
  assert (Hch : has_chg c s' = false).
  { destruct (has_chg c s') eqn:E; [|reflexivity]. destruct (i_chg s' I1 c E) as [_ H2]. contradiction. }
  repeat split; [exact S2 | exact Hidx | exact Hch|].
  unfold observe1. destruct E1 as [_ [E1 _]]. rewrite (E1 c Hc), S2, Hidx.
  unfold has_chg in Hch. destruct (find_c c (chg s')); [discriminate|].
  unfold mem. apply (i_md s' I1) in S2. rewrite S2, orb_true_r. reflexivity.
Qed.

Example worker_children_follow_witness :
  let ops := [OpPut 1 0 false; OpHead 1 1001; OpPut 2 1 true; OpHead 2 1002; OpPut 3 0 false; OpHead 3 1003; OpSettings [1]] in
  let s := run true ops init in
  (worker_calls [1] never [] s <? never) = true /\ memb 1 (mq s) = true /\ e_parent (get 2 s) = 1 /\
  observe [1; 2; 3] s = [mkO 2 false 2 true; mkO 1 true 2 false; mkO 1 true 2 false] /\
  observe [1; 2; 3] (worker [1] never [] s) = [mkO 3 false 0 true; mkO 3 false 0 true; mkO 1 true 2 false].
Proof. vm_compute. repeat split; reflexivity. Qed.
