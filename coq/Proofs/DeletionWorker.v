(* C15: children follow within one complete run of the deletion worker (deleter.Delete + deleteBoundChildren):
   every id the run found queued is fully deleted, and so is every bound child of such an id that has a heads entry,
   whether or not the child was queued itself (NotDeleted -> Deleted directly); it is then not advertised and has
   nothing stored. *)
From Coq Require Import List NArith Bool Lia.
Import ListNotations.
From AnySync Require Import Model.Deletion Proofs.DeletionBase Proofs.DeletionInv Proofs.DeletionTheorems.
Open Scope N_scope.

Lemma In_ninsert : forall x y l, In x (ninsert y l) <-> x = y \/ In x l.
Proof.
  intros x y l. induction l as [|z r IH]; cbn [ninsert In].
  - intuition congruence.
  - destruct (y <? z); cbn [In]; [intuition congruence|].
    destruct (N.eqb_spec y z) as [E|E]; cbn [In]; [subst; intuition congruence|].
    rewrite IH. intuition congruence.
Qed.

Lemma In_nsort : forall x l, In x (nsort l) <-> In x l.
Proof.
  intros x l. unfold nsort. induction l as [|y r IH]; cbn [fold_right In]; [tauto|].
  rewrite In_ninsert, IH. intuition congruence.
Qed.

(* headstorage.GetEntriesByParentId returns every entry that names the parent *)
Lemma children_of_in : forall p c s, p <> 0 -> has_entry c s = true -> e_parent (get c s) = p -> In c (children_of p s).
Proof.
  intros p c s Hp He Hpar. unfold children_of. apply In_nsort. apply in_map_iff.
  unfold has_entry in He. unfold get in Hpar.
  destruct (find_e c (ents s)) as [e|] eqn:F; [|discriminate].
  exists e. split; [eapply find_e_id; eauto|]. apply filter_In. split; [eapply find_e_In; eauto|].
  apply andb_true_iff. split; [now apply N.eqb_eq|]. apply negb_true_iff. now apply N.eqb_neq.
Qed.

Lemma drop_tree_get : forall i s j, get j (drop_tree i s) = if j =? i then set_status 2 (get i s) else get j s.
Proof.
  intros i s j. unfold drop_tree, st_delete.
  set (s0 := if has_storage i s then with_chg (del_c i (chg s)) s else s).
  assert (He0 : ents s0 = ents s) by (unfold s0; now destruct (has_storage i s)).
  set (s1 := with_md (sadd i (md s0)) (with_mq (srem i (mq s0)) s0)).
  assert (Hg1 : forall x, get x s1 = get x s) by (intros x; unfold get; cbn [ents s1 with_md with_mq]; now rewrite He0).
  assert (Hid : e_id (set_status 2 (get i s1)) = i) by (rewrite Hg1; apply get_id).
  rewrite (upd_get i _ s1 Hid j). now rewrite !Hg1.
Qed.

Lemma drop_tree_status : forall i s j, status j (drop_tree i s) = if j =? i then 2 else status j s.
Proof. intros i s j. unfold status. rewrite drop_tree_get. now destruct (j =? i). Qed.

Lemma drop_tree_parent : forall i s j, e_parent (get j (drop_tree i s)) = e_parent (get j s).
Proof.
  intros i s j. rewrite drop_tree_get. destruct (N.eqb_spec j i) as [->|]; reflexivity.
Qed.

Lemma delete_one_nofail : forall i s, delete_one [] i s = Some (drop_tree i s).
Proof. reflexivity. Qed.

Lemma keep_deleted : forall s s' j, Inv s' -> Ext s s' -> status j s = 2 -> status j s' = 2.
Proof.
  intros s s' j HI [E _] H. specialize (E j). pose proof (i_st s' HI j). lia.
Qed.

Lemma not_cancelled : forall k n m, n <= m -> m < k -> cancelled k n = false.
Proof. intros k n m H1 H2. unfold cancelled. apply N.leb_gt. lia. Qed.

(* deleteBoundChildren: if the run is not cancelled, every listed child ends fully deleted; parents are untouched *)
Lemma worker_children_complete : forall k cs s n, Inv s ->
  n <= snd (worker_children k [] cs (s, n)) /\
  (forall j, e_parent (get j (fst (worker_children k [] cs (s, n)))) = e_parent (get j s)) /\
  (snd (worker_children k [] cs (s, n)) < k ->
   forall c, In c cs -> status c (fst (worker_children k [] cs (s, n))) = 2).
Proof.
  induction cs as [|c r IH]; intros s n HI; cbn [worker_children].
  - cbn [fst snd]. repeat split; [lia | intros _ c []].
  - destruct (cancelled k n) eqn:C.
    + cbn [fst snd]. repeat split; [lia|]. intros Hlt. unfold cancelled in C. apply N.leb_le in C. lia.
    + destruct (2 <=? status c s) eqn:S2.
      * destruct (IH s n HI) as [A [B D]]. repeat split; [exact A | exact B|].
        intros Hlt x [->|Hx]; [|now apply D].
        destruct (worker_children_step k [] r s n HI) as [I2 E2].
        apply (keep_deleted s _ x I2 E2). apply N.leb_le in S2. pose proof (i_st s HI x). lia.
      * rewrite delete_one_nofail. destruct (drop_tree_step s c HI) as [I1 E1].
        destruct (IH (drop_tree c s) (N.succ n) I1) as [A [B D]]. repeat split.
        -- lia.
        -- intros j. rewrite B. apply drop_tree_parent.
        -- intros Hlt x [->|Hx]; [|now apply D].
           destruct (worker_children_step k [] r (drop_tree x s) (N.succ n) I1) as [I2 E2].
           apply (keep_deleted (drop_tree x s) _ x I2 E2). rewrite drop_tree_status. now rewrite N.eqb_refl.
Qed.

(* deleter.Delete: if the run is not cancelled, every id of the queue snapshot and every bound child (an entry that
   names it as parent) of such an id ends fully deleted *)
Lemma worker_loop_complete : forall k order s n, Inv s ->
  n <= snd (worker_loop k [] order (s, n)) /\
  (snd (worker_loop k [] order (s, n)) < k ->
   forall p, In p order ->
     status p (fst (worker_loop k [] order (s, n))) = 2 /\
     forall c, p <> 0 -> has_entry c s = true -> e_parent (get c s) = p ->
       status c (fst (worker_loop k [] order (s, n))) = 2).
Proof.
  induction order as [|i r IH]; intros s n HI; cbn [worker_loop].
  - cbn [fst snd]. split; [lia | intros _ p []].
  - destruct (cancelled k n) eqn:C.
    + cbn [fst snd]. split; [lia|]. intros Hlt. unfold cancelled in C. apply N.leb_le in C. lia.
    + rewrite delete_one_nofail. destruct (drop_tree_step s i HI) as [I1 E1].
      destruct (worker_children_complete k (children_of i (drop_tree i s)) (drop_tree i s) (N.succ n) I1) as [A [B D]].
      destruct (worker_children_step k [] (children_of i (drop_tree i s)) (drop_tree i s) (N.succ n) I1) as [I2 E2].
      destruct (worker_children k [] (children_of i (drop_tree i s)) (drop_tree i s, N.succ n)) as [s2 n2] eqn:W.
      cbn [fst snd] in A, B, D, I2, E2.
      destruct (IH s2 n2 I2) as [A3 D3]. destruct (worker_loop_step k [] r s2 n2 I2) as [I3 E3].
      split; [lia|]. intros Hlt p [->|Hp].
      * split.
        -- apply (keep_deleted s2 _ p I3 E3). apply (keep_deleted (drop_tree p s) _ p I2 E2).
           rewrite drop_tree_status. now rewrite N.eqb_refl.
        -- intros c Hp0 Hc Hpar. apply (keep_deleted s2 _ c I3 E3). apply D; [lia|].
           apply children_of_in; [exact Hp0 | | now rewrite drop_tree_parent].
           destruct E1 as [_ [E1 _]]. now apply E1.
      * destruct (D3 Hlt p Hp) as [P1 P2]. split; [exact P1|]. intros c Hp0 Hc Hpar. apply P2; [exact Hp0 | |].
        -- destruct E1 as [_ [E1 _]]. destruct E2 as [_ [E2 _]]. apply E2, E1, Hc.
        -- now rewrite B, drop_tree_parent.
Qed.

(* the property-level statement, for every reachable state: a run of the worker that was not cancelled and whose tree
   manager did not fail fully deletes every id [p] that was queued and in the queue snapshot, and every bound child [c]
   of it that has a heads entry; the child is then observed as deleted, NOT ADVERTISED, with nothing stored and known
   to the deletion state - although it may never have been queued *)
Theorem worker_children_follow : forall ops order k p,
  let s := run true ops init in
  worker_calls order k [] s < k -> memb p (mq s) = true -> memb p order = true ->
  status p (worker order k [] s) = 2 /\
  forall c, p <> 0 -> has_entry c s = true -> e_parent (get c s) = p ->
    status c (worker order k [] s) = 2 /\ memb c (idx (worker order k [] s)) = false /\
    has_chg c (worker order k [] s) = false /\ observe1 (worker order k [] s) c = mkO 3 false 0 true.
Proof.
  intros ops order k p s Hlt Hq Ho. pose proof (reach_inv ops) as HI. fold s in HI.
  destruct (worker_step order k [] s HI) as [I1 E1].
  unfold worker_calls in Hlt. unfold worker in *.
  destruct (worker_loop_complete k (filter (fun i => memb i (mq s)) order) s 0 HI) as [_ D].
  assert (Hin : In p (filter (fun i => memb i (mq s)) order)).
  { apply filter_In. split; [now apply memb_In | exact Hq]. }
  destruct (D Hlt p Hin) as [P1 P2]. split; [exact P1|].
  intros c Hp0 Hc Hpar. pose proof (P2 c Hp0 Hc Hpar) as S2.
  set (s' := fst (worker_loop k [] (filter (fun i => memb i (mq s)) order) (s, 0))) in *.
  assert (Hidx : memb c (idx s') = false).
  { destruct (memb c (idx s')) eqn:E; [|reflexivity]. apply (i_idx s' I1) in E. rewrite E in S2. discriminate. }
  assert (Hch : has_chg c s' = false).
  { destruct (has_chg c s') eqn:E; [|reflexivity]. destruct (i_chg s' I1 c E) as [_ H2]. contradiction. }
  repeat split; [exact S2 | exact Hidx | exact Hch|].
  unfold observe1. destruct E1 as [_ [E1 _]]. rewrite (E1 c Hc), S2, Hidx.
  unfold has_chg in Hch. destruct (find_c c (chg s')); [discriminate|].
  unfold mem. apply (i_md s' I1) in S2. rewrite S2, orb_true_r. reflexivity.
Qed.

Example worker_children_follow_witness :
  let ops := [OpPut 1 0 false; OpHead 1 1001; OpPut 2 1 true; OpHead 2 1002; OpPut 3 0 false; OpHead 3 1003; OpSettings [1]] in
  let s := run true ops init in
  (worker_calls [1] never [] s <? never) = true /\ memb 1 (mq s) = true /\ e_parent (get 2 s) = 1 /\
  observe [1; 2; 3] s = [mkO 2 false 2 true; mkO 1 true 2 false; mkO 1 true 2 false] /\
  observe [1; 2; 3] (worker [1] never [] s) = [mkO 3 false 0 true; mkO 3 false 0 true; mkO 1 true 2 false].
Proof. vm_compute. repeat split; reflexivity. Qed.

(* ------------------------------------------------------------------ transient storage errors (OpWorkerS) *)
(* everything the deletion machinery keeps about one id: heads entry, stored changes, queue / deleted membership *)
Definition same_at (i : N) (s s' : state) : Prop :=
  get i s' = get i s /\ has_entry i s' = has_entry i s /\ find_c i (chg s') = find_c i (chg s) /\
  memb i (mq s') = memb i (mq s) /\ memb i (md s') = memb i (md s).

Lemma same_at_refl : forall i s, same_at i s s.
Proof. intros i s. repeat split. Qed.

Lemma same_at_trans : forall i a b c, same_at i a b -> same_at i b c -> same_at i a c.
Proof.
  intros i a b c [A1 [A2 [A3 [A4 A5]]]] [B1 [B2 [B3 [B4 B5]]]]. repeat split; congruence.
Qed.

Lemma bool_eq_iff : forall a b : bool, (a = true <-> b = true) -> a = b.
Proof. intros [|] [|] [H1 H2]; try reflexivity; [symmetry; apply H1; reflexivity | apply H2; reflexivity]. Qed.

(* the deletion of another id leaves it untouched *)
Lemma drop_tree_other : forall j s i, i <> j -> same_at i s (drop_tree j s).
Proof.
  intros j s i Hne.
  assert (Hid : forall s1, e_id (set_status 2 (get j s1)) = j) by (intros s1; apply get_id).
  repeat split.
  - rewrite drop_tree_get. destruct (N.eqb_spec i j); [contradiction|reflexivity].
  - unfold drop_tree, st_delete. apply bool_eq_iff. rewrite (upd_has_entry j _ _ (Hid _) i).
    assert (E : forall s0, has_entry i (with_md (sadd j (md s0)) (with_mq (srem j (mq s0)) s0)) = has_entry i s0) by reflexivity.
    rewrite E. assert (E2 : has_entry i (if has_storage j s then with_chg (del_c j (chg s)) s else s) = has_entry i s)
      by (now destruct (has_storage j s)).
    rewrite E2. split; [intros [H|[H _]]; [exact H | contradiction] | now left].
  - unfold drop_tree, st_delete. rewrite upd_chg. cbn [chg with_md with_mq].
    destruct (has_storage j s); [|reflexivity]. cbn [chg with_chg]. rewrite find_del_c.
    destruct (N.eqb_spec j i); [congruence|reflexivity].
  - unfold drop_tree, st_delete. rewrite upd_mq. cbn [mq with_md with_mq]. rewrite memb_srem.
    destruct (N.eqb_spec i j); [contradiction|]. cbn [negb andb]. now destruct (has_storage j s).
  - unfold drop_tree, st_delete. rewrite upd_md. cbn [md with_md with_mq]. rewrite memb_sadd.
    destruct (N.eqb_spec i j); [contradiction|]. cbn [orb]. now destruct (has_storage j s).
Qed.

Lemma delete_one_not_failing : forall fail i s s', delete_one fail i s = Some s' -> memb i fail = false.
Proof. intros fail i s s'. unfold delete_one. destruct (memb i fail); [discriminate|reflexivity]. Qed.

(* an id for which the tree manager fails is left exactly as it was by the whole run: whatever the queue order, the
   cancellation point, the other failures and the bound-children passes *)
Lemma worker_children_fault : forall k fail i, memb i fail = true ->
  forall cs s n, same_at i s (fst (worker_children k fail cs (s, n))).
Proof.
  intros k fail i Hf. induction cs as [|c r IH]; intros s n; cbn [worker_children fst].
  - apply same_at_refl.
  - destruct (cancelled k n); [apply same_at_refl|].
    destruct (2 <=? status c s); [apply IH|].
    destruct (delete_one fail c s) as [s'|] eqn:D; [|apply IH].
    pose proof (delete_one_not_failing _ _ _ _ D) as Hc. apply delete_one_some in D. subst s'.
    eapply same_at_trans; [|apply IH]. apply drop_tree_other. intros ->. congruence.
Qed.

Lemma worker_loop_fault : forall k fail i, memb i fail = true ->
  forall order s n, same_at i s (fst (worker_loop k fail order (s, n))).
Proof.
  intros k fail i Hf. induction order as [|j r IH]; intros s n; cbn [worker_loop fst].
  - apply same_at_refl.
  - destruct (cancelled k n); [apply same_at_refl|].
    destruct (delete_one fail j s) as [s'|] eqn:D; [|apply IH].
    pose proof (delete_one_not_failing _ _ _ _ D) as Hc. apply delete_one_some in D. subst s'.
    pose proof (worker_children_fault k fail i Hf (children_of j (drop_tree j s)) (drop_tree j s) (N.succ n)) as W.
    destruct (worker_children k fail (children_of j (drop_tree j s)) (drop_tree j s, N.succ n)) as [s2 n2].
    cbn [fst] in W. eapply same_at_trans; [|apply IH].
    eapply same_at_trans; [|exact W]. apply drop_tree_other. intros ->. congruence.
Qed.

Lemma worker_fault_keeps : forall order k fail s i, memb i fail = true -> same_at i s (worker order k fail s).
Proof. intros order k fail s i Hf. unfold worker. now apply worker_loop_fault. Qed.

Lemma same_at_views : forall i s s', same_at i s s' ->
  status i s' = status i s /\ has_chg i s' = has_chg i s /\ has_storage i s' = has_storage i s /\ mem i s' = mem i s /\
  o_st (observe1 s' i) = o_st (observe1 s i) /\ o_nchg (observe1 s' i) = o_nchg (observe1 s i) /\
  o_mem (observe1 s' i) = o_mem (observe1 s i).
Proof.
  intros i s s' [A1 [A2 [A3 [A4 A5]]]].
  assert (S : status i s' = status i s) by (unfold status; now rewrite A1).
  assert (C : has_chg i s' = has_chg i s) by (unfold has_chg; now rewrite A3).
  assert (M : mem i s' = mem i s) by (unfold mem; now rewrite A4, A5).
  repeat split; try assumption.
  - unfold has_storage. now rewrite A2, C.
  - cbn [observe1 o_st]. now rewrite A2, S.
  - cbn [observe1 o_nchg]. now rewrite A3.
Qed.

(* OpWorkerS: a stored id whose storage Delete fails during the run is left exactly as it was - in particular it is NOT
   reported deleted (a queued id stays queued, durably and in the deletion state), and all its changes are still stored *)
Theorem worker_storage_fault_keeps : forall s order k fail sfail i,
  memb i sfail = true -> has_storage i s = true ->
  same_at i s (fst (step true s (OpWorkerS order k fail sfail))).
Proof.
  intros s order k fail sfail i Hm Hs. cbn [step fst]. unfold worker_s. apply worker_fault_keeps.
  rewrite memb_app. apply orb_true_iff. right. unfold sfail_eff. apply memb_In. apply filter_In.
  split; [now apply memb_In | exact Hs].
Qed.

(* ... and the retry deletes it for good: after a faulty run (from any reachable state) the id is still queued and
   stored, and a later run that is not cancelled and whose tree manager / storage do not fail fully deletes it, with
   nothing left in the store *)
Theorem storage_fault_retry : forall ops order k fail sfail i,
  let s := run true ops init in
  let s1 := run true (ops ++ [OpWorkerS order k fail sfail]) init in
  memb i sfail = true -> has_storage i s = true -> memb i (mq s) = true ->
  (status i s1 = status i s /\ has_storage i s1 = true /\ memb i (mq s1) = true /\
   o_nchg (observe1 s1 i) = o_nchg (observe1 s i)) /\
  forall order2 k2, worker_calls order2 k2 [] s1 < k2 -> memb i order2 = true ->
    status i (worker order2 k2 [] s1) = 2 /\ has_chg i (worker order2 k2 [] s1) = false.
Proof.
  intros ops order k fail sfail i s s1 Hm Hs Hq.
  assert (E1 : s1 = fst (step true s (OpWorkerS order k fail sfail))).
  { unfold s1, s. rewrite run_app. reflexivity. }
  pose proof (worker_storage_fault_keeps s order k fail sfail i Hm Hs) as K. rewrite <- E1 in K.
  pose proof (same_at_views i s s1 K) as [V1 [V2 [V3 [V4 [V5 [V6 V7]]]]]].
  destruct K as [K1 [K2 [K3 [K4 K5]]]].
  assert (Hq1 : memb i (mq s1) = true) by congruence.
  split; [repeat split; [exact V1 | congruence | exact Hq1 | exact V6]|].
  intros order2 k2 Hlt Ho.
  destruct (worker_children_follow (ops ++ [OpWorkerS order k fail sfail]) order2 k2 i Hlt Hq1 Ho) as [P _].
  fold s1 in P. split; [exact P|].
  assert (E2 : worker order2 k2 [] s1 = run true ((ops ++ [OpWorkerS order k fail sfail]) ++ [OpWorker order2 k2 []]) init).
  { rewrite run_app. reflexivity. }
  rewrite E2 in *. now apply deleted_nothing_stored.
Qed.

(* a fully deleted id is gone: fetching or putting it fails as already deleted and changes nothing - it can no longer be
   served from the local store (only a merely queued id that is still stored can) *)
Theorem deleted_fetch_put_fail : forall ops i p d h rem,
  let s := run true ops init in
  status i s = 2 ->
  step true s (OpFetch i p d h rem) = (s, OErrDeleted) /\ step true s (OpPut i p d) = (s, OErrDeleted).
Proof.
  intros ops i p d h rem s H.
  assert (Ht : tomb i s = true).
  { apply tomb_spec. split; [|rewrite H; discriminate].
    unfold status, get in H. unfold has_entry. destruct (find_e i (ents s)); [reflexivity | discriminate]. }
  assert (Hc : has_storage i s = false).
  { unfold has_storage. unfold s. rewrite (deleted_nothing_stored ops i H). apply andb_false_r. }
  split; [|now apply put_tombstoned]. rewrite (fetch_tombstoned s i p d h rem Ht). now rewrite Hc.
Qed.

Example storage_fault_witness :
  let ops := [OpPut 1 0 false; OpHead 1 1001; OpPut 2 0 false; OpHead 2 1002; OpSettings [1; 2]] in
  let s := run true ops init in
  let s1 := run true (ops ++ [OpWorkerS [1; 2] never [] [1]]) init in
  has_storage 1 s = true /\ memb 1 (mq s) = true /\
  observe [1; 2] s = [mkO 2 false 2 true; mkO 2 false 2 true] /\
  observe [1; 2] s1 = [mkO 2 false 2 true; mkO 3 false 0 true] /\
  (worker_calls [1] never [] s1 <? never) = true /\
  observe [1; 2] (worker [1] never [] s1) = [mkO 3 false 0 true; mkO 3 false 0 true] /\
  snd (step true (restart (worker [1] never [] s1)) (OpFetch 1 0 false 1003 true)) = OErrDeleted.
Proof. vm_compute. repeat split; reflexivity. Qed.
