(* The skip index of Model/Chash.v implements sort.Search (property C18, fidelity lemma):
   on the sorted ring, [find_start] returns the suffix that starts at the first virtual node whose hash is >= h. *)
From Coq Require Import List NArith ZArith Bool Arith Lia Permutation Sorted Orders Sorting.Mergesort RelationClasses.
Import ListNotations.
From AnySync Require Import Model.Chash Proofs.ChashProofs.

Local Notation vleP := (fun a b : vnode => is_true (vle a b)).

(* what sort.Search(len(m), func(i) bool { return m[i].hash >= h }) denotes *)
Lemma drop_lt_spec : forall h l, exists pre,
  l = pre ++ drop_lt h l /\ (forall v, In v pre -> (fst v < h)%N) /\
  match drop_lt h l with [] => True | v :: _ => (h <= fst v)%N end.
Proof.
  intros h l. induction l as [|a r IH].
  - exists []. cbn. repeat split. intros v [].
  - cbn [drop_lt]. destruct (N.ltb_spec (fst a) h) as [Hlt|Hge].
    + destruct IH as [pre [Heq [Hpre Hhd]]]. exists (a :: pre). repeat split.
      * cbn [app]. now rewrite <- Heq.
      * intros v [Hv|Hv]; [now subst|now apply Hpre].
      * exact Hhd.
    + exists []. repeat split; [intros v []|exact Hge].
Qed.

Lemma drop_lt_app : forall h pre s, (forall v, In v pre -> (fst v < h)%N) -> drop_lt h (pre ++ s) = drop_lt h s.
Proof.
  intros h pre s. induction pre as [|a r IH]; intro Hpre; [reflexivity|].
  cbn [app drop_lt]. assert (Ha : (fst a <? h)%N = true) by (apply N.ltb_lt, Hpre; now left).
  rewrite Ha. apply IH. intros v Hv. apply Hpre. now right.
Qed.

Lemma sorted_app_inv : forall pre l : list vnode, StronglySorted vleP (pre ++ l) ->
  StronglySorted vleP l /\ (forall x y, In x pre -> In y l -> vle x y = true).
Proof.
  induction pre as [|a r IH]; intros l Hs.
  - split; [exact Hs|intros x y []].
  - cbn [app] in Hs. apply StronglySorted_inv in Hs. destruct Hs as [Hs Ha].
    destruct (IH l Hs) as [Hl Hxy]. split; [exact Hl|].
    intros x y [Hx|Hx] Hy.
    + subst x. rewrite Forall_forall in Ha. apply Ha. apply in_or_app. now right.
    + now apply Hxy.
Qed.

(* the index is a chain of nested suffixes *)
Fixpoint chain (cur : list vnode) (idx : list (list vnode)) : Prop :=
  match idx with
  | [] => True
  | s :: rest => (exists pre, cur = pre ++ s) /\ chain s rest
  end.

Lemma mk_index_aux_chain : forall l k cur pre, cur = pre ++ l -> chain cur (mk_index_aux l k).
Proof.
  induction l as [|a r IH]; intros k cur pre Heq; [exact I|].
  cbn [mk_index_aux]. destruct k as [|k'].
  - cbn [chain]. split; [now exists pre|]. apply (IH chunk (a :: r) [a]). reflexivity.
  - apply (IH k' cur (pre ++ [a])). rewrite <- app_assoc. exact Heq.
Qed.

Lemma seek_spec : forall idx h cur, StronglySorted vleP cur -> chain cur idx -> seek idx h cur = drop_lt h cur.
Proof.
  induction idx as [|s rest IH]; intros h cur Hs Hc; [reflexivity|].
  cbn [seek]. destruct Hc as [[pre Heq] Hc]. destruct s as [|v s']; [reflexivity|].
  destruct (N.ltb_spec (fst v) h) as [Hlt|Hge]; [|reflexivity].
  subst cur. destruct (sorted_app_inv _ _ Hs) as [Hs' Hxy].
  rewrite (IH h (v :: s') Hs' Hc). symmetry. apply drop_lt_app.
  intros x Hx. assert (Hle : vle x v = true) by (apply Hxy; [exact Hx|now left]).
  apply vle_hash_le in Hle. lia.
Qed.

Theorem find_start_spec : forall rg h, StronglySorted vleP rg -> find_start (mk_index rg) rg h = drop_lt h rg.
Proof.
  intros rg h Hs. unfold find_start, mk_index. apply seek_spec; [exact Hs|].
  apply (mk_index_aux_chain rg 0 rg []). reflexivity.
Qed.

(* on the model's ring (sort.Sort result) the search is sort.Search *)
Theorem find_start_ring : forall VH ms h,
  find_start (mk_index (ring VH ms)) (ring VH ms) h = drop_lt h (ring VH ms).
Proof.
  intros VH ms h. apply find_start_spec. unfold ring. apply VSort.StronglySorted_sort. exact vle_trans.
Qed.
