(* C05 — basic lemmas: sorted association lists, sort_N, deducibility (stdlib style). *)
From Coq Require Import List NArith Bool Lia.
Import ListNotations.
From AnySync Require Import Model.Acl Model.AclKeys Proofs.AclBase.
Open Scope N_scope.

(* ------------------------------------------------------------------------------------------ sort_N, set equality *)
Lemma insert_sorted_In : forall x y l, In y (insert_sorted x l) <-> y = x \/ In y l.
Proof.
  intros x y l. induction l as [|z r IH]; cbn [insert_sorted].
  - cbn. intuition.
  - destruct (x <=? z); cbn [In]; [intuition|]. rewrite IH. intuition.
Qed.

Lemma sort_N_In : forall y l, In y (sort_N l) <-> In y l.
Proof.
  intros y l. induction l as [|x r IH]; cbn [sort_N fold_right]; [tauto|].
  fold (sort_N r). rewrite insert_sorted_In, IH. cbn. intuition.
Qed.

Lemma sorted_eq_In : forall a b, list_N_eqb (sort_N a) (sort_N b) = true -> forall x, In x a <-> In x b.
Proof.
  intros a b H x. apply list_N_eqb_eq in H. rewrite <- (sort_N_In x a), <- (sort_N_In x b), H. tauto.
Qed.

(* ------------------------------------------------------------------------------------------ sorted association lists *)
Section Sorted.
  Context {V : Type}.
  Implicit Types (m : list (N * V)).

  (* every key of [m] is greater than [k] *)
  Definition above (k : N) m : Prop := forall k' x, In (k', x) m -> k < k'.
  Fixpoint skeys m : Prop :=
    match m with
    | [] => True
    | (k, _) :: r => above k r /\ skeys r
    end.

  Lemma mget_In : forall m k x, mget k m = Some x -> In (k, x) m.
  Proof.
    induction m as [|[k' x'] r IH]; intros k x H; cbn [mget] in H; [discriminate|].
    destruct (N.eqb_spec k k') as [->|Hne].
    - injection H as ->. now left.
    - right. now apply IH.
  Qed.

  Lemma In_mget : forall m k x, skeys m -> In (k, x) m -> mget k m = Some x.
  Proof.
    induction m as [|[k' x'] r IH]; intros k x Hs Hin; [contradiction|].
    cbn [skeys] in Hs. destruct Hs as [Hab Hs]. cbn [mget].
    destruct Hin as [Heq|Hin].
    - injection Heq as -> ->. now rewrite N.eqb_refl.
    - destruct (N.eqb_spec k k') as [->|Hne].
      + apply Hab in Hin. lia.
      + now apply IH.
  Qed.

  Lemma above_mset : forall m k0 k x, above k0 m -> k0 < k -> above k0 (mset k x m).
  Proof.
    induction m as [|[k' x'] r IH]; intros k0 k x Hab Hlt k1 x1 Hin; cbn [mset] in Hin.
    - destruct Hin as [Heq|[]]. injection Heq as <- _. exact Hlt.
    - destruct (k =? k').
      + destruct Hin as [Heq|Hin]; [injection Heq as <- _; exact Hlt|]. apply (Hab k1 x1). now right.
      + destruct (k <? k').
        * destruct Hin as [Heq|Hin]; [injection Heq as <- _; exact Hlt|]. now apply (Hab k1 x1).
        * destruct Hin as [Heq|Hin].
          -- apply (Hab k1 x1). left. exact Heq.
          -- assert (Hr : above k0 r) by (intros k2 x2 H2; apply (Hab k2 x2); now right).
             exact (IH k0 k x Hr Hlt k1 x1 Hin).
  Qed.

  Lemma skeys_mset : forall m k x, skeys m -> skeys (mset k x m).
  Proof.
    induction m as [|[k' x'] r IH]; intros k x Hs; cbn [mset].
    - cbn. split; [intros ? ? []|exact I].
    - cbn [skeys] in Hs. destruct Hs as [Hab Hs].
      destruct (N.eqb_spec k k') as [->|Hne].
      + cbn [skeys]. now split.
      + destruct (N.ltb_spec k k') as [Hlt|Hge].
        * cbn [skeys]. split; [|now split].
          intros k1 x1 [Heq|Hin]; [injection Heq as <- _; exact Hlt|]. apply Hab in Hin. lia.
        * cbn [skeys]. split; [|now apply IH].
          apply above_mset; [exact Hab|lia].
  Qed.

  Lemma In_mdel : forall m k k' x, In (k', x) (mdel k m) -> In (k', x) m.
  Proof.
    induction m as [|[k0 x0] r IH]; intros k k' x Hin; cbn [mdel] in Hin; [contradiction|].
    destruct (k =? k0).
    - right. now apply (IH k).
    - destruct Hin as [Heq|Hin]; [now left|right; now apply (IH k)].
  Qed.

  Lemma skeys_mdel : forall m k, skeys m -> skeys (mdel k m).
  Proof.
    induction m as [|[k0 x0] r IH]; intros k Hs; cbn [mdel]; [exact I|].
    cbn [skeys] in Hs. destruct Hs as [Hab Hs].
    destruct (k =? k0); [now apply IH|].
    cbn [skeys]. split; [|now apply IH].
    intros k1 x1 Hin. apply In_mdel in Hin. now apply (Hab k1 x1).
  Qed.
End Sorted.

(* ------------------------------------------------------------------------------------------ deducibility *)
Lemma sat_pass_sound : forall p L L0 S,
  incl L0 L ->
  (forall g, In g S -> Derives p L g) ->
  forall g, In g (sat_pass L0 S) -> Derives p L g.
Proof.
  intros p L L0. induction L0 as [|c r IH]; intros S Hincl HS g Hin; cbn [sat_pass fold_left] in Hin.
  - now apply HS.
  - assert (Hr : incl r L) by (intros x Hx; apply Hincl; now right).
    assert (Hc : In c L) by (apply Hincl; now left).
    destruct c as [q g0|o i].
    + exact (IH S Hr HS g Hin).
    + destruct (memN o S && negb (memN i S)) eqn:Hb.
      * apply (IH (i :: S) Hr); [|exact Hin].
        intros g1 [<-|H1]; [|now apply HS].
        apply andb_true_iff in Hb. destruct Hb as [Ho _]. apply memN_In in Ho.
        destruct (HS o Ho) as [n Hn]. exists (Datatypes.S n). now apply (D_open p L n o i).
      * exact (IH S Hr HS g Hin).
Qed.

Lemma saturate_sound : forall p L fuel S,
  (forall g, In g S -> Derives p L g) -> forall g, In g (saturate fuel L S) -> Derives p L g.
Proof.
  intros p L fuel. induction fuel as [|n IH]; intros S HS g Hin; cbn [saturate] in Hin.
  - now apply HS.
  - apply (IH (sat_pass L S)); [|exact Hin].
    intros g1 H1. apply (sat_pass_sound p L L S); [apply incl_refl|exact HS|exact H1].
Qed.

Lemma direct_In : forall p L g, In g (direct p L) <-> In (CAsym p g) L.
Proof.
  intros p L g. unfold direct. rewrite in_flat_map. split.
  - intros [c [Hc Hg]]. destruct c as [q g0|o i]; [|contradiction].
    destruct p as [a|a], q as [b|b]; cbn [principal_eqb] in Hg; try contradiction;
      destruct (N.eqb_spec a b) as [->|]; try contradiction; destruct Hg as [<-|[]]; exact Hc.
  - intros H. exists (CAsym p g). split; [exact H|].
    destruct p as [a|a]; cbn [principal_eqb]; rewrite N.eqb_refl; now left.
Qed.

(* soundness of the executable saturation: it only finds deducible keys *)
Lemma derives_sound : forall p L g, In g (derives p L) -> Derives p L g.
Proof.
  intros p L g H. unfold derives in H. apply (saturate_sound p L (sym_count L) (direct p L)); [|exact H].
  intros g1 H1. exists O. apply D_direct. now apply direct_In.
Qed.

Definition pass1 (S : list rid) (c : cipher) : list rid :=
  match c with
  | CSym o i => if memN o S && negb (memN i S) then i :: S else S
  | CAsym _ _ => S
  end.
Lemma sat_pass_cons : forall c r S, sat_pass (c :: r) S = sat_pass r (pass1 S c).
Proof. reflexivity. Qed.
Lemma pass1_mono : forall S c g, In g S -> In g (pass1 S c).
Proof.
  intros S c g H. destruct c as [q g0|o i]; cbn [pass1]; [exact H|].
  destruct (memN o S && negb (memN i S)); [now right|exact H].
Qed.

Lemma sat_pass_mono : forall L S g, In g S -> In g (sat_pass L S).
Proof.
  induction L as [|c r IH]; intros S g Hin; [exact Hin|].
  rewrite sat_pass_cons. apply IH. now apply pass1_mono.
Qed.

Lemma sat_pass_opens : forall L S o i, In (CSym o i) L -> In o S -> In i (sat_pass L S).
Proof.
  induction L as [|c r IH]; intros S o i Hin Ho; [contradiction|].
  rewrite sat_pass_cons. destruct Hin as [->|Hin].
  - apply sat_pass_mono. cbn [pass1].
    assert (Ho' : memN o S = true) by now apply memN_In.
    rewrite Ho'. cbn [andb]. destruct (memN i S) eqn:Hi; cbn [negb].
    + now apply memN_In.
    + now left.
  - apply (IH _ o i); [exact Hin|]. now apply pass1_mono.
Qed.

Lemma saturate_mono : forall fuel L S g, In g S -> In g (saturate fuel L S).
Proof.
  induction fuel as [|n IH]; intros L S g H; cbn [saturate]; [exact H|]. apply IH. now apply sat_pass_mono.
Qed.

(* bounded completeness: a derivation of depth n is found with fuel >= n *)
Lemma saturate_complete : forall p L n g, DerivesN p L n g ->
  forall fuel, (n <= fuel)%nat -> In g (saturate fuel L (direct p L)).
Proof.
  intros p L n g H. induction H as [g Hg|n o i Ho IH Hc]; intros fuel Hle.
  - apply saturate_mono. now apply direct_In.
  - destruct fuel as [|f]; [lia|].
    assert (Hf : In o (saturate f L (direct p L))) by (apply IH; lia).
    clear IH Ho Hle. revert Hf. generalize (direct p L) as S.
    induction f as [|f IHf]; intros S Hf.
    + cbn [saturate] in *. now apply (sat_pass_opens L S o i).
    + cbn [saturate] in Hf |- *. cbn [saturate] in IHf. now apply IHf.
Qed.
