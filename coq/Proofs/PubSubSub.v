(* C17 — serving side of Model/PubSub.v: what a Subscribe registers (the growth side of the registered
   interest [has]; the withdrawal side is in Proofs/PubSubThm.v).  Plain stdlib style. *)
From Coq Require Import List NArith Bool Arith Lia.
Import ListNotations.
From AnySync Require Import Model.Trie Model.PubSub Proofs.TrieProofs Proofs.PubSubBase Proofs.PubSubInv
  Proofs.PubSubStep Proofs.PubSubStep2 Proofs.PubSubThm.

Lemma sub_loop_rej : forall c pats sp total tr acc sp' total' tr' acc' rej,
  sub_loop c pats sp total tr acc = (sp', total', tr', acc', rej) ->
  (forall q, In q sp -> In q sp')
  /\ exists pre, pats = pre ++ rej /\ forall p, In p pre -> In p sp'.
Proof.
  intros c pats. induction pats as [|p r IH]; intros sp total tr acc sp' total' tr' acc' rej E; cbn [sub_loop] in E.
  - inversion E; subst. split; [auto|]. exists []. split; [reflexivity|intros p []].
  - destruct (mem_str p sp) eqn:EM.
    + destruct (IH _ _ _ _ _ _ _ _ _ E) as (H1 & pre & H2 & H3). split; [exact H1|].
      exists (p :: pre). split; [cbn [app]; rewrite H2; reflexivity|].
      intros q [<-|Hq]; [apply H1; apply mem_str_in; exact EM|auto].
    + destruct (N.leb (max_space c) (N.of_nat (length sp)) || N.leb (max_stream c) total).
      * inversion E; subst. split; [auto|]. exists []. split; [reflexivity|intros q []].
      * destruct (IH _ _ _ _ _ _ _ _ _ E) as (H1 & pre & H2 & H3). split.
        -- intros q Hq. apply H1. apply in_app_iff. left. exact Hq.
        -- exists (p :: pre). split; [cbn [app]; rewrite H2; reflexivity|].
           intros q [<-|Hq]; [apply H1; apply in_app_iff; right; left; reflexivity|auto].
Qed.

(* the Subscribe is acted upon: running read loop, responsible node, valid patterns, member *)
Definition sub_eligible (c : cfg) (s : svc) (sid space : N) (pats : list str) : bool :=
  match nassoc sid (sv_conns s) with
  | Some acct => memN space (resp c) && forallb validate_pattern pats && is_member s space acct
  | None => false
  end.

Theorem has_sub : forall c s sid space pats, Inv s ->
  let s' := fst (handle_sub c s sid space pats) in
  let o := snd (handle_sub c s sid space pats) in
  (* nothing is lost *)
  (forall sigma sp0 q, has s sigma sp0 q = true -> has s' sigma sp0 q = true)
  (* only requested patterns of an eligible, still pooled subscriber are added, to its own stream and space *)
  /\ (forall sigma sp0 q, has s' sigma sp0 q = true -> has s sigma sp0 q = true
        \/ (sigma = sid /\ sp0 = space /\ In q pats /\ in_pool s sid = true /\ sub_eligible c s sid space pats = true))
  (* every requested pattern is registered unless it is reported back as TooManyTopics *)
  /\ (in_pool s sid = true -> sub_eligible c s sid space pats = true ->
      forall q, In q pats ->
        has s' sid space q = true \/ exists rejected, o = OStatus TooManyTopics rejected /\ In q rejected).
Proof.
  intros c s sid space pats HI. pose proof HI as [HC HT]. cbv zeta.
  pose proof (inv_sub c s sid space pats HI) as HI'. unfold handle_sub, handle_sub_gen in HI'.
  unfold sub_eligible, handle_sub, handle_sub_gen.
  destruct (nassoc sid (sv_conns s)) as [acct|] eqn:EC; [|cbn [fst snd]; split; [auto|split; [auto|discriminate]]].
  destruct (memN space (resp c)); cbn [negb andb]; [|cbn [fst snd]; split; [auto|split; [auto|discriminate]]].
  destruct (forallb validate_pattern pats) eqn:EV; cbn [negb andb]; [|cbn [fst snd]; split; [auto|split; [auto|discriminate]]].
  destruct (is_member s space acct); cbn [negb]; [|cbn [fst snd]; split; [auto|split; [auto|discriminate]]].
  cbn [negb] in HI'.
  pose proof (sub_noop_remote s space HT) as NoopR. pose proof (sub_noop_streams s sid space acct HC) as NoopS.
  pose proof (trie_of_space s space HT) as HTtr. cbv zeta in NoopR, NoopS.
  set (tr := match nassoc space (sv_remote s) with Some t => t | None => trie_empty end) in *.
  assert (Hst : exists st, st = match nassoc sid (sv_streams s) with Some x => x | None => mkSS acct [] 0 end
                 /\ by_ok st
                 /\ (forall sp0 q, has s sid sp0 q = st_has st sp0 q)).
  { unfold has. destruct (nassoc sid (sv_streams s)) as [x|] eqn:E.
    - exists x. destruct (c_rec s HC sid x E) as ([Hb _] & _ & Ha). split; [reflexivity|split; [exact Hb|reflexivity]].
    - exists (mkSS acct [] 0). split; [reflexivity|split; [apply by_ok_empty|reflexivity]]. }
  destruct Hst as (st & Est & HB & Hhas). rewrite <- Est in *. clear Est.
  assert (Hsp : exists sp, sp = match nassoc space (ss_by st) with Some l => l | None => [] end
                 /\ NoDup sp /\ (forall q, st_has st space q = mem_str q sp)).
  { unfold st_has. destruct HB as (_ & HL & _). destruct (nassoc space (ss_by st)) as [l|] eqn:E.
    - exists l. destruct (HL space l E) as (_ & Hn & Hv). split; [reflexivity|split; [exact Hn|reflexivity]].
    - exists []. split; [reflexivity|split; [constructor|reflexivity]]. }
  destruct Hsp as (sp & Esp & NDsp & Hhas_sp). rewrite <- Esp in *.
  destruct (sub_loop c pats sp (ss_total st) tr []) as [[[[sp' total'] tr'] accepted] rejected] eqn:ES.
  destruct (sub_loop_spec _ _ _ _ _ _ _ _ _ _ _ _ NDsp HTtr ES) as (added & Ha & Hsp' & Htot' & NDsp' & Hsub & HTtr' & Hnil).
  destruct (sub_loop_rej _ _ _ _ _ _ _ _ _ _ _ ES) as (_ & pre & Hpats & Hpre).
  cbn [app] in Ha. subst accepted.
  assert (Rep : in_pool s sid = true -> forall q, In q rejected ->
                exists rej0, (if is_nil rejected then ONone else reply s sid (OStatus TooManyTopics rejected))
                             = OStatus TooManyTopics rej0 /\ In q rej0).
  { intros Hp q Hq. exists rejected. unfold reply. rewrite Hp. destruct rejected; [contradiction|]. split; [reflexivity|exact Hq]. }
  destruct added as [|a0 added0] eqn:Eadded.
  - cbn [is_nil fst snd]. rewrite app_nil_r in Hsp'. subst sp'. rewrite N.add_0_r in Htot'. subst total'.
    rewrite (Hnil eq_refl). rewrite NoopR.
    replace (prune_stream _ sid _) with (sv_streams s) by (symmetry; exact NoopS).
    rewrite svc_eta. split; [auto|split; [auto|]]. intros Hp _ q Hq. rewrite Hpats in Hq. apply in_app_iff in Hq.
    destruct Hq as [Hq|Hq]; [left|right; apply Rep; assumption].
    rewrite Hhas, Hhas_sp. apply mem_str_in. apply Hpre. exact Hq.
  - rewrite <- Eadded in *. assert (Eis : is_nil added = false) by (rewrite Eadded; reflexivity). rewrite Eis.
    set (st1 := mkSS (ss_account st) (nset space sp' (ss_by st)) total') in *.
    assert (Hst1_has : forall sp0 q, st_has st1 sp0 q
                        = if N.eqb sp0 space then mem_str q sp || mem_str q added else st_has st sp0 q).
    { intros sp0 q. unfold st_has, st1. cbn [ss_by]. destruct (N.eqb sp0 space) eqn:E0.
      - apply N.eqb_eq in E0. subst sp0. rewrite nassoc_nset_same, Hsp'. apply mem_str_app.
      - apply N.eqb_neq in E0. rewrite nassoc_nset_other by congruence. reflexivity. }
    destruct (nassoc sid (sv_pool s)) as [tags|] eqn:EP; cbn [fst snd].
    + assert (Hp : in_pool s sid = true) by (unfold in_pool; rewrite EP; reflexivity).
      assert (Hnew : forall sigma sp0 q,
                has (mkSvc (nset space tr' (sv_remote s)) (nset sid st1 (sv_streams s))
                           (nset sid (add_tags tags (map (fun p => (space, p)) added)) (sv_pool s))
                           (sv_conns s) (sv_members s) (sv_rate s)) sigma sp0 q
                = if N.eqb sigma sid then st_has st1 sp0 q else has s sigma sp0 q).
      { intros sigma sp0 q. unfold has at 1. cbn [sv_streams]. destruct (N.eqb sigma sid) eqn:E1.
        - apply N.eqb_eq in E1. subst sigma. rewrite nassoc_nset_same. reflexivity.
        - apply N.eqb_neq in E1. rewrite nassoc_nset_other by congruence. reflexivity. }
      split; [|split].
      * intros sigma sp0 q H. rewrite Hnew. destruct (N.eqb sigma sid) eqn:E1; [|exact H].
        apply N.eqb_eq in E1. subst sigma. rewrite Hst1_has. rewrite Hhas in H.
        destruct (N.eqb sp0 space) eqn:E0; [|exact H]. apply N.eqb_eq in E0. subst sp0.
        rewrite Hhas_sp in H. rewrite H. reflexivity.
      * intros sigma sp0 q H. rewrite Hnew in H. destruct (N.eqb sigma sid) eqn:E1; [|left; exact H].
        apply N.eqb_eq in E1. subst sigma. rewrite Hst1_has in H. rewrite Hhas.
        destruct (N.eqb sp0 space) eqn:E0; [|left; exact H]. apply N.eqb_eq in E0. subst sp0.
        rewrite Hhas_sp. destruct (mem_str q sp); [left; reflexivity|]. cbn [orb] in H. right.
        repeat (split; [reflexivity|]). split; [apply Hsub; apply mem_str_in; exact H|split; [exact Hp|reflexivity]].
      * intros _ _ q Hq. rewrite Hpats in Hq. apply in_app_iff in Hq.
        destruct Hq as [Hq|Hq]; [left|right; apply Rep; assumption].
        rewrite Hnew, N.eqb_refl, Hst1_has, N.eqb_refl, <- mem_str_app, <- Hsp'. apply mem_str_in. apply Hpre. exact Hq.
    + (* rolled back: the stream records are what they were *)
      assert (Hnp : in_pool s sid = false) by (unfold in_pool; rewrite EP; reflexivity).
      assert (ENone : nassoc sid (sv_streams s) = None).
      { destruct (nassoc sid (sv_streams s)) as [x|] eqn:E; [|reflexivity].
        destruct (c_rec s HC sid x E) as (_ & Hp & _). congruence. }
      rewrite Eis in HI'.
      destruct (remove_patterns st1 tr' space added []) as [[st2 tr2] rem2] eqn:ER. cbn [fst snd] in *.
      set (s2 := mkSvc _ _ _ _ _ _) in *.
      assert (Hsame : forall sigma sp0 q, has s2 sigma sp0 q = has s sigma sp0 q).
      { intros sigma sp0 q. destruct (N.eq_dec sid sigma) as [<-|Hne].
        - destruct (has s2 sid sp0 q) eqn:E2.
          + destruct (has_record_conn s2 sid sp0 q HI' E2) as (_ & _ & _ & _ & Hp2).
            unfold in_pool, s2 in Hp2. cbn [sv_pool] in Hp2. unfold in_pool in Hnp. congruence.
          + unfold has. rewrite ENone. reflexivity.
        - unfold has, s2. cbn [sv_streams]. rewrite prune_stream_other by exact Hne. rewrite nassoc_nset_other by exact Hne. reflexivity. }
      split; [|split].
      * intros sigma sp0 q H. rewrite Hsame. exact H.
      * intros sigma sp0 q H. rewrite Hsame in H. left. exact H.
      * intros Hp. congruence.
Qed.

(* ------------------------------------------------------------------ a stream leaves the pool in the middle of handleSubscribe *)
(* The race "stream [victim] is removed from the pool while the Subscribe handler of [sid] sits between the
   recording of the interest and pool.AddTagsCtx" (lock-region model [handle_sub_mid]) leaves exactly the
   registered interest of: the Subscribe, then the victim's removal.  In particular nobody else's interest is
   touched — whichever patterns the victim shared with other streams. *)
Theorem has_sub_mid : forall c s sid victim space pats, Inv s ->
  let s' := fst (handle_sub_mid c s sid victim space pats) in
  forall sigma sp0 q,
    has s' sigma sp0 q = has (fst (handle_sub c s sid space pats)) sigma sp0 q && negb (N.eqb sigma victim).
Proof.
  intros c s sid victim space pats HI. cbv zeta. intros sigma sp0 q.
  rewrite (proj1 (mid_state c s sid victim space pats HI)).
  rewrite has_pool_remove by (apply inv_mid_pre; exact HI). unfold mid_pre.
  destruct (mid_self c s sid victim space pats) eqn:Em; [|reflexivity].
  unfold mid_self in Em. apply andb_true_iff in Em. destruct Em as [Em _]. apply andb_true_iff in Em. destruct Em as [Ev _].
  apply N.eqb_eq in Ev. subst victim.
  rewrite has_unsub by (apply inv_sub; exact HI).
  destruct (N.eqb sigma sid); cbn [andb negb]; [rewrite !andb_false_r; reflexivity|rewrite !andb_true_r; reflexivity].
Qed.

(* the subscribing stream itself is the one that leaves: nothing is registered, its own interest is withdrawn,
   everybody else's registered interest is exactly what it was *)
Corollary has_sub_mid_self : forall c s sid space pats, Inv s ->
  forall sigma sp0 q,
    has (fst (handle_sub_mid c s sid sid space pats)) sigma sp0 q = has s sigma sp0 q && negb (N.eqb sigma sid).
Proof.
  intros c s sid space pats HI sigma sp0 q. rewrite (has_sub_mid c s sid sid space pats HI).
  destruct (N.eqb sigma sid) eqn:E; cbn [negb]; [rewrite !andb_false_r; reflexivity|]. rewrite !andb_true_r.
  apply N.eqb_neq in E. destruct (has_sub c s sid space pats HI) as (H1 & H2 & _).
  apply bool_ext. split; intros H.
  - destruct (H2 _ _ _ H) as [H0|(H0 & _)]; [exact H0|congruence].
  - apply H1. exact H.
Qed.
