(* Proofs for property C10, part 2: preservation of the durable invariant (P5), of live/storage
   agreement and success of well-formed operations (P6).  Model: Model/Store.v; base: Proofs/StoreProofs.v.

   [inv_b] alone is NOT preserved (counterexamples below): a shadowed duplicate key breaks ODeleteTree and
   OAclAdd.  The tables the store can reach have unique keys ([uniq]); the theorems carry [uniq] along. *)
From AnySync Require Import Model.Store Proofs.StoreProofs.
From Coq Require Import List NArith Bool Arith Lia ZifyBool ZifyNat ZifyN.
Import ListNotations.
Open Scope N_scope.

(* ------------------------------------------------------------------ counterexamples to the unqualified statement *)

Definition cex_t0 : table :=
  [(KAcl, 0, DRecord 0 1); (KHeads, 0, DHeads [0] 0 0);
   (KHeads, 5, DHeads [] 0 1); (KChanges, 5, DChange 5 [] 0 1); (KHeads, 5, DHeads [5] 5 0)].
Definition cex_w0 : world := mkW cex_t0 [(5, mkTL [] 0 None)] [0].

Example inv_preserved_needs_uniq_delete :
  inv_b (w_store cex_w0) = true /\ consistent cex_w0 = true /\ op_wf cex_w0 (ODeleteTree 5) = true
  /\ snd (run cex_w0 (ODeleteTree 5)) = true /\ inv_b (post cex_w0 (ODeleteTree 5)) = false
  /\ uniq (w_store cex_w0) = false.
Proof. vm_compute. repeat split. Qed.

Definition cex_t1 : table := [(KAcl, 0, DRecord 0 1); (KHeads, 0, DHeads [0] 0 0); (KHeads, 0, DHeads [0] 0 0)].
Definition cex_w1 : world := mkW cex_t1 [] [0].

Example inv_preserved_needs_uniq_acl :
  inv_b (w_store cex_w1) = true /\ consistent cex_w1 = true /\ op_wf cex_w1 (OAclAdd 3) = true
  /\ snd (run cex_w1 (OAclAdd 3)) = true /\ inv_b (post cex_w1 (OAclAdd 3)) = false
  /\ uniq (w_store cex_w1) = false.
Proof. vm_compute. repeat split. Qed.

(* ------------------------------------------------------------------ filter / del_tree *)

Lemma get_filter_keep : forall f t c id d,
  get t c id = Some d -> f (c, id, d) = true -> get (filter f t) c id = Some d.
Proof.
  intros f. induction t as [|[[c0 i0] d0] r IH]; intros c id d Hg Hf; [discriminate|].
  cbn [get] in Hg. destruct (key_eqb c id (c0, i0, d0)) eqn:Hk.
  - pose proof Hk as Hk'. apply key_eqb_eq in Hk'. destruct Hk'; subst c0 i0. cbn in Hg. inversion Hg; subst d0.
    cbn [filter]. rewrite Hf. cbn [get]. now rewrite Hk.
  - cbn [filter]. destruct (f (c0, i0, d0)); [cbn [get]; rewrite Hk|]; now apply IH.
Qed.

Lemma get_filter_None : forall f t c id, get t c id = None -> get (filter f t) c id = None.
Proof.
  intros f. induction t as [|e r IH]; intros c id Hg; [reflexivity|].
  cbn [get] in Hg. destruct (key_eqb c id e) eqn:Hk; [discriminate|].
  cbn [filter]. destruct (f e); [cbn [get]; rewrite Hk|]; now apply IH.
Qed.

Lemma uniq_filter : forall f t, uniq t = true -> uniq (filter f t) = true.
Proof.
  intros f. induction t as [|e r IH]; intros Hu; [reflexivity|].
  cbn [uniq] in Hu. apply andb_prop in Hu. destruct Hu as [Hh Hu].
  cbn [filter]. destruct (f e); [|now apply IH].
  cbn [uniq]. rewrite (IH Hu), andb_true_r.
  destruct (get r (fst (fst e)) (snd (fst e))) eqn:Hg; [discriminate|].
  now rewrite (get_filter_None f _ _ _ Hg).
Qed.

Lemma acl_id_del_tree : forall t tree, acl_id (del_tree t tree) = acl_id t.
Proof.
  intros t tree. unfold del_tree. induction t as [|[[c i] d] r IH]; [reflexivity|].
  destruct c; destruct d; cbn [filter in_tree negb acl_id]; try exact IH; try reflexivity.
  destruct (negb (tree0 =? tree)); cbn [acl_id]; exact IH.
Qed.

Lemma chg_in_del_tree : forall t tree tr x b,
  (tr =? tree) = false -> chg_in t tr x b = true -> chg_in (del_tree t tree) tr x b = true.
Proof.
  intros t tree tr x b Hne Hc. unfold chg_in in *.
  destruct (get t KChanges x) as [[a s|hs sn dl|tr' prevs snap ord|p o]|] eqn:Hg; try discriminate.
  apply andb_prop in Hc. destruct Hc as [Htr Hb]. apply N.eqb_eq in Htr. subst tr'.
  unfold del_tree. rewrite (get_filter_keep _ _ _ _ _ Hg).
  - now rewrite N.eqb_refl, Hb.
  - cbn. now rewrite Hne.
Qed.

Lemma has_heads_del_tree : forall t tree id, has_heads t id = true -> has_heads (del_tree t tree) id = true.
Proof.
  intros t tree id Hh. unfold has_heads in *.
  destruct (get t KHeads id) as [d|] eqn:Hg; [|discriminate].
  unfold del_tree. rewrite (get_filter_keep _ _ _ _ _ Hg); [exact Hh | reflexivity].
Qed.

Lemma rec_ord_del_tree : forall t tree x o, rec_ord t x = Some o -> rec_ord (del_tree t tree) x = Some o.
Proof.
  intros t tree x o Hr. unfold rec_ord in *.
  destruct (get t KAcl x) as [d|] eqn:Hg; [|discriminate].
  unfold del_tree. rewrite (get_filter_keep _ _ _ _ _ Hg); [exact Hr | reflexivity].
Qed.

(* ------------------------------------------------------------------ P5, table level *)

Lemma inv_mark_deleted : forall t tree h s status,
  inv_b t = true -> uniq t = true -> (tree =? acl_id t) = false -> (status =? 0) = false ->
  inv_b (put t KHeads tree (DHeads h s status)) = true /\ uniq (put t KHeads tree (DHeads h s status)) = true.
Proof.
  intros t tree h s status Hinv Hu Htree Hst. split; [|now apply uniq_put].
  apply inv_intro. intros e Hin. apply In_put in Hin. destruct Hin as [He|Hin].
  - subst e. cbn [entry_ok]. rewrite acl_id_put; [|reflexivity]. now rewrite Htree, Hst.
  - apply entry_ok_mono with t; [apply ext_put_heads | | now apply inv_In].
    intros e' Hin'. apply In_put in Hin'. destruct Hin' as [He'|Hin']; [subst e'; now right | now left].
Qed.

Lemma inv_delete_tree : forall t tree h s d,
  inv_b t = true -> uniq t = true -> (tree =? acl_id t) = false ->
  get t KHeads tree = Some (DHeads h s d) -> (d =? 0) = false ->
  inv_b (del_tree t tree) = true /\ uniq (del_tree t tree) = true.
Proof.
  intros t tree h s d Hinv Hu Htree Hg Hd. split; [|now apply uniq_filter].
  apply inv_intro. intros e Hin. unfold del_tree in Hin. apply filter_In in Hin. destruct Hin as [Hin Hf].
  fold (del_tree t tree). pose proof (inv_In _ _ Hinv Hin) as Hok.
  destruct e as [[c id] dd]. destruct c; destruct dd as [a s0|hs sn dl|tr prevs snap ord|p o];
    cbn [entry_ok] in *; try discriminate.
  - apply andb_prop in Hok. destruct Hok as [Hok H3]. apply andb_prop in Hok. destruct Hok as [H1 H2].
    now rewrite (has_heads_del_tree _ tree _ H1), (has_heads_del_tree _ tree _ H2), H3.
  - rewrite acl_id_del_tree. destruct (id =? acl_id t) eqn:Hacl.
    + destruct hs as [|h0 [|h2 hr]]; try discriminate.
      destruct (rec_ord t h0) as [o|] eqn:Hr; [|discriminate]. rewrite (rec_ord_del_tree _ tree _ _ Hr).
      rewrite forallb_forall in *. intros e' Hin'. unfold del_tree in Hin'. apply filter_In in Hin'.
      apply Hok. tauto.
    + destruct (dl =? 0) eqn:Hdl; [|reflexivity].
      assert (Hne : (id =? tree) = false).
      { apply N.eqb_neq. intros Heq. subst id. rewrite (In_get_uniq _ _ _ _ Hu Hin) in Hg.
        inversion Hg; subst. rewrite Hdl in Hd. discriminate. }
      apply andb_prop in Hok. destruct Hok as [Hok H4]. apply andb_prop in Hok. destruct Hok as [Hok H3].
      apply andb_prop in Hok. destruct Hok as [H1 H2].
      rewrite (chg_in_del_tree _ _ _ _ _ Hne H1), H2, (chg_in_del_tree _ _ _ _ _ Hne H4). cbn [andb].
      rewrite andb_true_r. rewrite forallb_forall in *. intros x Hx. apply chg_in_del_tree; auto.
  - cbn in Hf. destruct (tr =? tree) eqn:Hne; [discriminate|].
    apply andb_prop in Hok. destruct Hok as [Hok H3]. apply andb_prop in Hok. destruct Hok as [H1 H2].
    rewrite (has_heads_del_tree _ tree _ H1). cbn [andb].
    assert (H2' : forallb (fun p => chg_in (del_tree t tree) tr p (Some ord)) prevs = true).
    { rewrite forallb_forall in *. intros x Hx. apply chg_in_del_tree; auto. }
    rewrite H2'. cbn [andb]. destruct (id =? tr); [exact H3 | now apply chg_in_del_tree].
  - rewrite acl_id_del_tree. destruct (o =? 1); [exact Hok|].
    destruct (rec_ord t p) as [o'|] eqn:Hr; [|discriminate]. now rewrite (rec_ord_del_tree _ tree _ _ Hr).
Qed.

Lemma inv_acl_add : forall t id h s d n,
  inv_b t = true -> uniq t = true -> get t KAcl id = None ->
  get t KHeads (acl_id t) = Some (DHeads [h] s d) -> rec_ord t h = Some n -> (n =? 0) = false ->
  inv_b (put (t ++ [(KAcl, id, DRecord h (n + 1))]) KHeads (acl_id t) (DHeads [id] s d)) = true
  /\ uniq (put (t ++ [(KAcl, id, DRecord h (n + 1))]) KHeads (acl_id t) (DHeads [id] s d)) = true.
Proof.
  intros t id h s d n Hinv Hu Hnew Hheads Hrec Hn.
  set (t1 := t ++ [(KAcl, id, DRecord h (n + 1))]).
  set (t' := put t1 KHeads (acl_id t) (DHeads [id] s d)).
  assert (He1 : ext t t1) by (apply ext_app; reflexivity).
  assert (He2 : ext t1 t') by apply ext_put_heads.
  assert (He : ext t t') by (eapply ext_trans; eauto).
  assert (Hu1 : uniq t1 = true) by (apply uniq_app1; auto).
  assert (Hid : acl_id t' = acl_id t) by (destruct He as [_ [_ [_ Hx]]]; exact Hx).
  assert (Hold : forallb (fun e' : entry => match e' with
                                  | (KAcl, _, DRecord _ o') => o' <=? n
                                  | _ => true end) t = true).
  { pose proof (inv_In _ _ Hinv (get_In _ _ _ _ Hheads)) as Hok. cbn [entry_ok] in Hok.
    rewrite N.eqb_refl, Hrec in Hok. exact Hok. }
  split; [|now apply uniq_put].
  apply inv_intro. intros e Hin. apply (In_put_uniq _ _ _ _ _ Hu1) in Hin.
  destruct Hin as [He0|[Hin Hk]].
  - subst e. cbn [entry_ok]. rewrite Hid, N.eqb_refl.
    assert (Hr : rec_ord t' id = Some (n + 1)).
    { unfold rec_ord, t'. rewrite get_put_other; [|reflexivity]. unfold t1. rewrite get_app, Hnew.
      cbn. now rewrite N.eqb_refl. }
    rewrite Hr. rewrite forallb_forall. intros e' Hin'. apply In_put in Hin'.
    destruct Hin' as [He'|Hin']; [subst e'; reflexivity|].
    unfold t1 in Hin'. apply in_app_or in Hin'. destruct Hin' as [Hin'|[He'|[]]].
    + rewrite forallb_forall in Hold. specialize (Hold _ Hin').
      destruct e' as [[c' i'] d']. destruct c'; try reflexivity. destruct d'; try reflexivity. lia.
    + subst e'. lia.
  - unfold t1 in Hin. apply in_app_or in Hin. destruct Hin as [Hin|[He0|[]]].
    + apply entry_ok_mono_nah with t; [exact He | exact Hk | now apply inv_In].
    + subst e. cbn [entry_ok]. replace (n + 1 =? 1) with false by lia.
      rewrite (rec_ord_ext _ _ _ _ He Hrec). lia.
Qed.

Lemma inv_space_create : forall space acl settings ord,
  (acl =? 0) = false -> (settings =? 0) = false -> (acl =? settings) = false ->
  let t := [(KState, space, DState acl settings); (KAcl, acl, DRecord 0 1); (KHeads, acl, DHeads [acl] 0 0);
            (KChanges, settings, DChange settings [] 0 ord); (KHeads, settings, DHeads [settings] settings 0)] in
  inv_b t = true /\ uniq t = true.
Proof.
  intros space acl settings ord Ha Hs Has t. subst t.
  assert (Hsa : (settings =? acl) = false) by (rewrite N.eqb_sym; exact Has).
  split.
  - unfold inv_b, has_heads, chg_in, rec_ord. cbn -[N.eqb N.leb N.ltb N.add].
    unfold has_heads, chg_in, rec_ord. cbn -[N.eqb N.leb N.ltb N.add].
    repeat (rewrite ?N.eqb_refl, ?Ha, ?Hs, ?Has, ?Hsa; cbn -[N.eqb N.leb N.ltb N.add]).
    reflexivity.
  - cbn -[N.eqb]. repeat (rewrite ?N.eqb_refl, ?Ha, ?Hs, ?Has, ?Hsa; cbn -[N.eqb]). reflexivity.
Qed.

(* ================================================================== inserting a batch of changes (table level) *)

(* ------------------------------------------------------------------ small helpers *)

Lemma get_single_changes : forall x id d,
  get [(KChanges, id, d)] KChanges x = if x =? id then Some d else None.
Proof. intros x id d. cbn. reflexivity. Qed.

Lemma forallb_congr : forall (A : Type) (f g : A -> bool) l,
  (forall x, f x = g x) -> forallb f l = forallb g l.
Proof.
  intros A f g l Hfg. induction l as [|a l IH]; [reflexivity|].
  cbn [forallb]. now rewrite Hfg, IH.
Qed.

(* ------------------------------------------------------------------ (D) create_tab *)

Lemma inv_create_tab : forall t root ord,
  inv_b t = true -> uniq t = true -> get t KChanges root = None -> get t KHeads root = None ->
  (root =? acl_id t) = false ->
  inv_b (create_tab t root ord) = true /\ uniq (create_tab t root ord) = true.
Proof.
  intros t root ord Hinv Hu Hgc Hgh Hacl. unfold create_tab.
  match goal with |- inv_b (t ++ ?l) = true /\ _ => set (l0 := l) end.
  assert (Hext : ext t (t ++ l0)) by (apply ext_app; reflexivity).
  assert (Hc : chg_in (t ++ l0) root root None = true).
  { unfold chg_in. rewrite get_app, Hgc. unfold l0. cbn. rewrite N.eqb_refl. cbn.
    rewrite N.eqb_refl. reflexivity. }
  assert (Hh : has_heads (t ++ l0) root = true).
  { unfold has_heads. rewrite get_app, Hgh. unfold l0. cbn. rewrite N.eqb_refl. reflexivity. }
  split.
  - apply inv_intro. intros e Hin. apply in_app_or in Hin. destruct Hin as [Hin|Hin].
    + apply (entry_ok_mono t); [exact Hext| |now apply inv_In].
      intros e' Hin'. apply in_app_or in Hin'. destruct Hin' as [Hin'|Hin']; [now left|].
      right. destruct Hin' as [He|[He|[]]]; subst e'; reflexivity.
    + destruct Hin as [He|[He|[]]]; subst e.
      * cbn [entry_ok]. rewrite Hh. rewrite N.eqb_refl. reflexivity.
      * cbn [entry_ok].
        destruct Hext as [_ [_ [_ Hid]]]. rewrite Hid, Hacl.
        cbn [forallb is_nil negb]. rewrite Hc. reflexivity.
  - unfold l0.
    match goal with |- uniq (t ++ [?a; ?b]) = true => change (t ++ [a; b]) with (t ++ [a] ++ [b]) end.
    rewrite app_assoc. apply uniq_app1.
    + now apply uniq_app1.
    + rewrite get_app, Hgh. reflexivity.
Qed.

(* ------------------------------------------------------------------ (A) batch_ok gives fresh ids *)

Lemma batch_ok_ins_fresh_gen : forall batch t tree seen v,
  (forall x, get t KChanges x = None -> existsb (fun s => c_id s =? x) seen = false ->
             get v KChanges x = None) ->
  batch_ok t tree seen batch = true -> ins_fresh v tree batch = true.
Proof.
  induction batch as [|c r IH]; intros t tree seen v HR Hb; [reflexivity|].
  cbn [batch_ok] in Hb.
  apply andb_prop in Hb. destruct Hb as [Hb Hrest].
  apply andb_prop in Hb. destruct Hb as [Hb _].
  apply andb_prop in Hb. destruct Hb as [Hb _].
  apply andb_prop in Hb. destruct Hb as [Hb Hseen].
  apply andb_prop in Hb. destruct Hb as [_ Hget].
  destruct (get t KChanges (c_id c)) as [d|] eqn:Hgt; [discriminate|].
  apply negb_true_iff in Hseen.
  cbn [ins_fresh]. rewrite (HR _ Hgt Hseen).
  apply (IH t tree (c :: seen)); [|exact Hrest].
  intros x Hx Hex. cbn [existsb] in Hex. apply orb_false_iff in Hex. destruct Hex as [Hcx Hex].
  rewrite get_app, (HR _ Hx Hex). unfold chg_entry. rewrite get_single_changes.
  rewrite N.eqb_sym, Hcx. reflexivity.
Qed.

Lemma batch_ok_ins_fresh : forall batch t tree,
  batch_ok t tree [] batch = true -> ins_fresh t tree batch = true.
Proof.
  intros batch t tree Hb. apply (batch_ok_ins_fresh_gen batch t tree [] t); [|exact Hb].
  intros x Hx _. exact Hx.
Qed.

(* ------------------------------------------------------------------ (C) congruence in the table *)

Lemma chg_in_get_congr : forall t1 t2 tree x b,
  (forall y, get t1 KChanges y = get t2 KChanges y) -> chg_in t1 tree x b = chg_in t2 tree x b.
Proof. intros t1 t2 tree x b H. unfold chg_in. now rewrite H. Qed.

Lemma batch_ok_get_congr : forall batch t1 t2 tree seen,
  (forall x, get t1 KChanges x = get t2 KChanges x) ->
  batch_ok t1 tree seen batch = batch_ok t2 tree seen batch.
Proof.
  induction batch as [|c r IH]; intros t1 t2 tree seen H; [reflexivity|].
  cbn [batch_ok]. rewrite (IH t1 t2 tree (c :: seen) H), H.
  rewrite (chg_in_get_congr t1 t2 tree (c_snap c) (Some (c_ord c)) H).
  rewrite (forallb_congr _
    (fun x => chg_in t1 tree x (Some (c_ord c)) || existsb (fun s => (c_id s =? x) && (c_ord s <? c_ord c)) seen)
    (fun x => chg_in t2 tree x (Some (c_ord c)) || existsb (fun s => (c_id s =? x) && (c_ord s <? c_ord c)) seen)).
  - reflexivity.
  - intros x. now rewrite (chg_in_get_congr t1 t2 tree x (Some (c_ord c)) H).
Qed.

Lemma names_ok_get_congr : forall t1 t2 tree batch x,
  (forall y, get t1 KChanges y = get t2 KChanges y) ->
  names_ok t1 tree batch x = names_ok t2 tree batch x.
Proof. intros t1 t2 tree batch x H. unfold names_ok. now rewrite (chg_in_get_congr t1 t2 tree x None H). Qed.

Lemma ins_fresh_get_congr : forall batch t1 t2 tree,
  (forall y, get t1 KChanges y = get t2 KChanges y) ->
  ins_fresh t1 tree batch = ins_fresh t2 tree batch.
Proof.
  induction batch as [|c r IH]; intros t1 t2 tree H; [reflexivity|].
  cbn [ins_fresh]. rewrite H. destruct (get t2 KChanges (c_id c)); [reflexivity|].
  apply IH. intros y. now rewrite !get_app, H.
Qed.

(* ------------------------------------------------------------------ (B) add_tab preserves the invariant *)

Lemma inv_insert_one : forall v tree id prevs snap ord,
  inv_b v = true -> uniq v = true -> has_heads v tree = true ->
  get v KChanges id = None -> (id =? tree) = false ->
  forallb (fun p => chg_in v tree p (Some ord)) prevs = true ->
  chg_in v tree snap (Some ord) = true ->
  inv_b (v ++ [(KChanges, id, DChange tree prevs snap ord)]) = true /\
  uniq (v ++ [(KChanges, id, DChange tree prevs snap ord)]) = true.
Proof.
  intros v tree id prevs snap ord Hinv Hu Hh Hg Hne Hp Hs.
  assert (Hext : ext v (v ++ [(KChanges, id, DChange tree prevs snap ord)]))
    by (apply ext_app; reflexivity).
  split; [|now apply uniq_app1].
  apply inv_intro. intros e Hin. apply in_app_or in Hin. destruct Hin as [Hin|Hin].
  - apply (entry_ok_mono v); [exact Hext| |now apply inv_In].
    intros e' Hin'. apply in_app_or in Hin'. destruct Hin' as [Hin'|Hin']; [now left|].
    right. destruct Hin' as [He|[]]; subst e'; reflexivity.
  - destruct Hin as [He|[]]; subst e. cbn [entry_ok].
    pose proof Hext as [_ [_ [Hhh _]]]. rewrite (Hhh _ Hh), Hne.
    rewrite (forallb_chg_in_ext _ _ _ _ _ Hext Hp), (chg_in_ext _ _ _ _ _ Hext Hs). reflexivity.
Qed.

Lemma app_cons_assoc : forall (A : Type) (v : list A) e l, v ++ e :: l = (v ++ [e]) ++ l.
Proof. intros A v e l. now rewrite <- app_assoc. Qed.

Lemma inv_insert_batch : forall batch t tree seen v,
  batch_ok t tree seen batch = true ->
  (forall x, get t KChanges x = None -> existsb (fun s => c_id s =? x) seen = false ->
             get v KChanges x = None) ->
  ext t v ->
  (forall x o, existsb (fun s => (c_id s =? x) && (c_ord s <? o)) seen = true ->
               chg_in v tree x (Some o) = true) ->
  inv_b v = true -> uniq v = true -> has_heads v tree = true ->
  ext t (v ++ map (chg_entry tree) batch) /\
  (forall x, existsb (fun s => c_id s =? x) batch = true ->
             chg_in (v ++ map (chg_entry tree) batch) tree x None = true) /\
  inv_b (v ++ map (chg_entry tree) batch) = true /\
  uniq (v ++ map (chg_entry tree) batch) = true /\
  has_heads (v ++ map (chg_entry tree) batch) tree = true.
Proof.
  induction batch as [|c r IH]; intros t tree seen v Hb R1 R2 R3 Hinv Hu Hh.
  - cbn [map]. rewrite app_nil_r. split; [exact R2|]. split; [intros x Hx; discriminate Hx|]. auto.
  - cbn [batch_ok] in Hb.
    apply andb_prop in Hb. destruct Hb as [Hb Hrest].
    apply andb_prop in Hb. destruct Hb as [Hb Hsnap].
    apply andb_prop in Hb. destruct Hb as [Hb Hprevs].
    apply andb_prop in Hb. destruct Hb as [Hb Hseen].
    apply andb_prop in Hb. destruct Hb as [Hb Hget].
    apply andb_prop in Hb. destruct Hb as [Hnt _].
    destruct (get t KChanges (c_id c)) as [d|] eqn:Hgt; [discriminate|]. clear Hget.
    apply negb_true_iff in Hseen. apply negb_true_iff in Hnt.
    assert (Hgv : get v KChanges (c_id c) = None) by (apply R1; assumption).
    assert (Hstored : forall x,
      chg_in t tree x (Some (c_ord c)) || existsb (fun s => (c_id s =? x) && (c_ord s <? c_ord c)) seen = true ->
      chg_in v tree x (Some (c_ord c)) = true).
    { intros x Hx. apply orb_prop in Hx. destruct Hx as [Hx|Hx];
        [now apply (chg_in_ext t) | now apply R3]. }
    assert (Hp : forallb (fun p => chg_in v tree p (Some (c_ord c))) (c_prevs c) = true).
    { rewrite forallb_forall in *. intros p Hpin. apply Hstored. now apply Hprevs. }
    assert (Hs : chg_in v tree (c_snap c) (Some (c_ord c)) = true) by (now apply Hstored).
    destruct (inv_insert_one v tree (c_id c) (c_prevs c) (c_snap c) (c_ord c) Hinv Hu Hh Hgv Hnt Hp Hs)
      as [Hinv1 Hu1].
    fold (chg_entry tree c) in Hinv1, Hu1.
    assert (Hext1 : ext v (v ++ [chg_entry tree c])) by (apply ext_app; reflexivity).
    assert (Hh1 : has_heads (v ++ [chg_entry tree c]) tree = true).
    { destruct Hext1 as [_ [_ [Hhh _]]]. now apply Hhh. }
    assert (Hnew : forall b, chg_in (v ++ [chg_entry tree c]) tree (c_id c) b =
                             match b with Some o => c_ord c <? o | None => true end).
    { intros b. unfold chg_in. rewrite get_app, Hgv. unfold chg_entry. rewrite get_single_changes.
      rewrite !N.eqb_refl. reflexivity. }
    cbn [map]. rewrite app_cons_assoc.
    destruct (IH t tree (c :: seen) (v ++ [chg_entry tree c]) Hrest) as [E [F [I [U H]]]]; auto.
    + intros x Hx Hex. cbn [existsb] in Hex. apply orb_false_iff in Hex. destruct Hex as [Hcx Hex].
      rewrite get_app, (R1 _ Hx Hex). unfold chg_entry. rewrite get_single_changes.
      rewrite N.eqb_sym, Hcx. reflexivity.
    + now apply (ext_trans t v).
    + intros x o Hex. cbn [existsb] in Hex. apply orb_prop in Hex. destruct Hex as [Hex|Hex].
      * apply andb_prop in Hex. destruct Hex as [Hcx Hlt]. apply N.eqb_eq in Hcx. subst x.
        rewrite Hnew. exact Hlt.
      * apply (chg_in_ext v); [exact Hext1 | now apply R3].
    + split; [exact E|]. split; [|auto].
      intros x Hx. cbn [existsb] in Hx. apply orb_prop in Hx. destruct Hx as [Hx|Hx].
      * apply N.eqb_eq in Hx. subst x.
        apply (chg_in_ext (v ++ [chg_entry tree c])); [apply ext_app | now rewrite Hnew].
        clear. induction r as [|a r IHr]; [reflexivity | exact IHr].
      * now apply F.
Qed.

Lemma inv_add_tab : forall t tree batch heads snap h s,
  inv_b t = true -> uniq t = true ->
  get t KHeads tree = Some (DHeads h s 0) ->
  (tree =? acl_id t) = false -> is_nil heads = false ->
  batch_ok t tree [] batch = true ->
  forallb (names_ok t tree batch) heads = true -> names_ok t tree batch snap = true ->
  inv_b (add_tab t tree batch heads snap 0) = true /\ uniq (add_tab t tree batch heads snap 0) = true.
Proof.
  intros t tree batch heads snap h s Hinv Hu Hgh Hacl Hnil Hb Hheads Hsnap.
  assert (Hroot : chg_in t tree tree None = true).
  { pose proof (inv_In t _ Hinv (get_In _ _ _ _ Hgh)) as Hok. cbn [entry_ok] in Hok.
    rewrite Hacl in Hok. change (0 =? 0) with true in Hok. cbv iota in Hok.
    apply andb_prop in Hok. destruct Hok as [Hok _]. apply andb_prop in Hok. destruct Hok as [Hok _].
    apply andb_prop in Hok. destruct Hok as [Hok _]. exact Hok. }
  assert (Hht : has_heads t tree = true) by (unfold has_heads; now rewrite Hgh).
  destruct (inv_insert_batch batch t tree [] t Hb) as [E [F [I [U H]]]]; auto.
  { apply ext_refl. }
  { intros x o Hex. discriminate Hex. }
  unfold add_tab. set (v := t ++ map (chg_entry tree) batch) in *.
  set (v2 := put v KHeads tree (DHeads heads snap 0)).
  assert (E2 : ext v v2) by apply ext_put_heads.
  assert (Et : ext t v2) by (now apply (ext_trans t v)).
  assert (Hnames : forall x, names_ok t tree batch x = true -> chg_in v2 tree x None = true).
  { intros x Hx. unfold names_ok in Hx. apply orb_prop in Hx. destruct Hx as [Hx|Hx].
    - now apply (chg_in_ext t).
    - apply (chg_in_ext v); [exact E2 | now apply F]. }
  split; [|now apply uniq_put].
  apply inv_intro. intros e Hin. apply In_put_uniq in Hin; [|exact U].
  destruct Hin as [He|[Hin _]].
  - subst e. cbn [entry_ok].
    destruct Et as [_ [_ [_ Hid]]]. rewrite Hid, Hacl. change (0 =? 0) with true. cbv iota.
    rewrite (chg_in_ext t v2 tree tree None); [|now apply (ext_trans t v)|exact Hroot].
    rewrite Hnil. cbn [negb andb].
    rewrite (Hnames _ Hsnap), andb_true_r.
    rewrite forallb_forall in *. intros x Hx. apply Hnames. now apply Hheads.
  - apply (entry_ok_mono v); [exact E2| |now apply inv_In].
    intros e' Hin'. apply In_put in Hin'. destruct Hin' as [He'|Hin']; [right; subst e'; reflexivity | now left].
Qed.

(* ================================================================== closed forms of [run] *)

(* ------------------------------------------------------------------ single steps of exec_all *)

Lemma step_begin_nil : forall cm rest,
  exec_all (mkStore cm []) (CBegin :: rest) = exec_all (mkStore cm [cm]) rest.
Proof. reflexivity. Qed.

Lemma step_begin_cons : forall cm v r rest,
  exec_all (mkStore cm (v :: r)) (CBegin :: rest) = exec_all (mkStore cm (v :: v :: r)) rest.
Proof. reflexivity. Qed.

Lemma step_insert1 : forall cm v r k id d rest, get v k id = None ->
  exec_all (mkStore cm (v :: r)) (CInsert k [(id, d)] :: rest)
  = exec_all (mkStore cm ((v ++ [(k, id, d)]) :: r)) rest.
Proof.
  intros cm v r k id d rest Hg.
  cbn [exec_all exec view open committed set_view ins_all]. rewrite Hg. reflexivity.
Qed.

Lemma step_upsert : forall cm v r id h s d rest,
  exec_all (mkStore cm (v :: r)) (CUpsertHeads id h s d :: rest)
  = exec_all (mkStore cm (put v KHeads id (upd_heads (get v KHeads id) h s d) :: r)) rest.
Proof. reflexivity. Qed.

Lemma step_upsert_nil : forall cm id h s d rest,
  exec_all (mkStore cm []) (CUpsertHeads id h s d :: rest)
  = exec_all (mkStore (put cm KHeads id (upd_heads (get cm KHeads id) h s d)) []) rest.
Proof. reflexivity. Qed.

Lemma step_delete : forall cm v r tree rest,
  exec_all (mkStore cm (v :: r)) (CDeleteTree tree :: rest)
  = exec_all (mkStore cm (del_tree v tree :: r)) rest.
Proof. reflexivity. Qed.

Lemma step_commit1 : forall cm v rest,
  exec_all (mkStore cm [v]) (CCommit :: rest) = exec_all (mkStore v []) rest.
Proof. reflexivity. Qed.

Lemma step_commit2 : forall cm v u r rest,
  exec_all (mkStore cm (v :: u :: r)) (CCommit :: rest) = exec_all (mkStore cm (v :: r)) rest.
Proof. reflexivity. Qed.

Lemma exec_all_nil : forall s, exec_all s [] = (s, true).
Proof. reflexivity. Qed.

(* ------------------------------------------------------------------ create_calls *)

Lemma get_single_other : forall c id c' id' d, coll_eqb c c' = false -> get [(c', id', d)] c id = None.
Proof. intros c id c' id' d Hc. cbn [get key_eqb]. rewrite Hc. reflexivity. Qed.

Lemma exec_create : forall cm v r root ord rest,
  get v KChanges root = None -> get v KHeads root = None ->
  exec_all (mkStore cm (v :: r)) (create_calls root ord ++ rest)
  = exec_all (mkStore cm (create_tab v root ord :: r)) rest.
Proof.
  intros cm v r root ord rest Hc Hh. unfold create_calls, create_tab. cbn [app].
  rewrite (step_insert1 _ _ _ _ _ _ _ Hc). rewrite step_upsert.
  assert (Hg : get (v ++ [(KChanges, root, DChange root [] 0 ord)]) KHeads root = None).
  { rewrite get_app, Hh. apply get_single_other. reflexivity. }
  rewrite Hg. cbn [upd_heads]. rewrite (put_None _ _ _ _ Hg). rewrite <- app_assoc. reflexivity.
Qed.

Lemma get_create_tab_heads : forall t root ord, get t KHeads root = None ->
  get (create_tab t root ord) KHeads root = Some (DHeads [root] root 0).
Proof.
  intros t root ord Hh. unfold create_tab. rewrite get_app, Hh.
  cbn [get key_eqb coll_eqb andb snd]. rewrite N.eqb_refl. reflexivity.
Qed.

(* ------------------------------------------------------------------ 5. tree create *)

Lemma run_tree_create : forall w root ord,
  get (w_store w) KChanges root = None -> get (w_store w) KHeads root = None ->
  run w (OTreeCreate root ord)
  = (mkW (create_tab (w_store w) root ord) (tput (w_trees w) root (mkTL [root] root None)) (w_acl w), true).
Proof.
  intros w root ord Hc Hh. unfold run, prep, fresh. cbn [app].
  rewrite step_begin_nil. rewrite (exec_create _ _ _ _ _ _ Hc Hh).
  rewrite step_commit1, exec_all_nil. reflexivity.
Qed.

(* ------------------------------------------------------------------ 8. mark deleted *)

Lemma run_mark_deleted : forall w tree status h s d,
  get (w_store w) KHeads tree = Some (DHeads h s d) ->
  run w (OMarkDeleted tree status)
  = (mkW (put (w_store w) KHeads tree (DHeads h s status)) (w_trees w) (w_acl w), true).
Proof.
  intros w tree status h s d Hg. unfold run, prep, fresh.
  rewrite step_upsert_nil, exec_all_nil, Hg. reflexivity.
Qed.

(* ------------------------------------------------------------------ 9. delete tree *)

Lemma run_delete_tree : forall w tree tl, tget (w_trees w) tree = Some tl ->
  run w (ODeleteTree tree) = (mkW (del_tree (w_store w) tree) (tdel (w_trees w) tree) (w_acl w), true).
Proof.
  intros w tree tl Ht. unfold run, prep, fresh. rewrite Ht.
  rewrite step_begin_nil, step_delete, step_commit1, exec_all_nil. reflexivity.
Qed.

(* ------------------------------------------------------------------ 10. deferred open *)

Lemma run_deferred_open : forall w root ord, get (w_store w) KChanges root = None ->
  run w (ODeferredOpen root ord)
  = (mkW (w_store w) (tput (w_trees w) root (mkTL [root] root (Some ord))) (w_acl w), true).
Proof.
  intros w root ord Hc. unfold run, prep, fresh. rewrite Hc. reflexivity.
Qed.

(* ------------------------------------------------------------------ 7. ACL add *)

Lemma run_acl_add : forall w id h s d,
  existsb (N.eqb id) (w_acl w) = false -> get (w_store w) KAcl id = None ->
  get (w_store w) KHeads (acl_id (w_store w)) = Some (DHeads h s d) ->
  run w (OAclAdd id)
  = (mkW (put (w_store w ++ [(KAcl, id, DRecord (last_or0 (w_acl w)) (N.of_nat (length (w_acl w)) + 1))])
              KHeads (acl_id (w_store w)) (DHeads [id] s d))
         (w_trees w) (w_acl w ++ [id]), true).
Proof.
  intros w id h s d He Hg Hh. unfold run, prep, fresh. rewrite He.
  rewrite step_begin_nil. rewrite (step_insert1 _ _ _ _ _ _ _ Hg). rewrite step_upsert.
  rewrite get_app, Hh. cbn [upd_heads]. rewrite step_commit1, exec_all_nil. reflexivity.
Qed.

(* ------------------------------------------------------------------ 6. space create *)

Lemma run_space_create : forall w space acl settings ord, w_store w = [] -> (acl =? settings) = false ->
  run w (OSpaceCreate space acl settings ord)
  = (mkW [(KState, space, DState acl settings); (KAcl, acl, DRecord 0 1); (KHeads, acl, DHeads [acl] 0 0);
          (KChanges, settings, DChange settings [] 0 ord); (KHeads, settings, DHeads [settings] settings 0)]
         (w_trees w) [acl], true).
Proof.
  intros w space acl settings ord Ht Hne. unfold run, prep, fresh. rewrite Ht.
  unfold create_calls. cbn [app].
  rewrite step_begin_nil.
  rewrite step_insert1 by reflexivity. cbn [app].
  rewrite step_insert1 by reflexivity. cbn [app].
  rewrite step_upsert. cbn [get key_eqb coll_eqb andb upd_heads put].
  rewrite step_insert1 by reflexivity. cbn [app].
  rewrite step_upsert. cbn [get key_eqb coll_eqb andb upd_heads put snd].
  rewrite (N.eqb_sym settings acl), Hne. cbn [get put upd_heads].
  rewrite step_commit1, exec_all_nil. reflexivity.
Qed.

(* ------------------------------------------------------------------ 4. a local add is a remote add of one change *)

Lemma prep_local_is_remote : forall w tree id ord is_snap tl, tget (w_trees w) tree = Some tl ->
  prep w (OLocalAdd tree id ord is_snap)
  = prep w (ORemoteAdd tree [mkChg id (tl_heads tl) (tl_root tl) ord] [id] (if is_snap then id else tl_root tl)).
Proof. intros w tree id ord is_snap tl Ht. unfold prep. rewrite Ht. reflexivity. Qed.

Lemma script_local_is_remote : forall w tree id ord is_snap tl, tget (w_trees w) tree = Some tl ->
  script w (OLocalAdd tree id ord is_snap)
  = script w (ORemoteAdd tree [mkChg id (tl_heads tl) (tl_root tl) ord] [id] (if is_snap then id else tl_root tl)).
Proof.
  intros w tree id ord is_snap tl Ht. unfold script.
  rewrite (prep_local_is_remote _ _ _ _ _ _ Ht). reflexivity.
Qed.

Lemma run_local_is_remote : forall w tree id ord is_snap tl, tget (w_trees w) tree = Some tl ->
  run w (OLocalAdd tree id ord is_snap)
  = run w (ORemoteAdd tree [mkChg id (tl_heads tl) (tl_root tl) ord] [id] (if is_snap then id else tl_root tl)).
Proof.
  intros w tree id ord is_snap tl Ht. unfold run.
  rewrite (prep_local_is_remote _ _ _ _ _ _ Ht). reflexivity.
Qed.

Lemma fault_local_is_remote : forall w tree id ord is_snap tl k, tget (w_trees w) tree = Some tl ->
  fault w (OLocalAdd tree id ord is_snap) k
  = fault w (ORemoteAdd tree [mkChg id (tl_heads tl) (tl_root tl) ord] [id] (if is_snap then id else tl_root tl)) k.
Proof.
  intros w tree id ord is_snap tl k Ht. unfold fault.
  rewrite (prep_local_is_remote _ _ _ _ _ _ Ht). reflexivity.
Qed.

(* ------------------------------------------------------------------ 1. the inserts of a batch *)

Lemma exec_inserts : forall batch tree cm v r rest, ins_fresh v tree batch = true ->
  exec_all (mkStore cm (v :: r)) (map (fun c => CInsert KChanges [chg_doc tree c]) batch ++ rest)
  = exec_all (mkStore cm ((v ++ map (chg_entry tree) batch) :: r)) rest.
Proof.
  induction batch as [|c b IH]; intros tree cm v r rest Hf.
  - cbn [map app]. rewrite app_nil_r. reflexivity.
  - cbn [ins_fresh] in Hf. destruct (get v KChanges (c_id c)) as [d0|] eqn:Hg; [discriminate|].
    cbn [map app].
    change (chg_doc tree c) with (c_id c, DChange tree (c_prevs c) (c_snap c) (c_ord c)).
    rewrite (step_insert1 _ _ _ _ _ _ _ Hg).
    change (KChanges, c_id c, DChange tree (c_prevs c) (c_snap c) (c_ord c)) with (chg_entry tree c).
    etransitivity; [apply (IH tree cm _ r rest Hf)|]. rewrite <- app_assoc. reflexivity.
Qed.

(* ------------------------------------------------------------------ add_all_calls inside an open bracket *)

Lemma exec_add_all : forall cm v r tree batch heads snap h s d rest,
  get v KHeads tree = Some (DHeads h s d) -> ins_fresh v tree batch = true ->
  exec_all (mkStore cm (v :: r)) (add_all_calls tree batch heads snap ++ rest)
  = exec_all (mkStore cm (add_tab v tree batch heads snap d :: r)) rest.
Proof.
  intros cm v r tree batch heads snap h s d rest Hh Hf. unfold add_all_calls, add_tab.
  cbn [app]. rewrite step_begin_cons. rewrite <- app_assoc.
  rewrite (exec_inserts _ _ _ _ _ _ Hf). cbn [app].
  rewrite step_upsert. rewrite get_app, Hh. cbn [upd_heads].
  rewrite step_commit2. reflexivity.
Qed.

Lemma exec_add_all_nil : forall cm tree batch heads snap h s d rest,
  get cm KHeads tree = Some (DHeads h s d) -> ins_fresh cm tree batch = true ->
  exec_all (mkStore cm []) (add_all_calls tree batch heads snap ++ rest)
  = exec_all (mkStore (add_tab cm tree batch heads snap d) []) rest.
Proof.
  intros cm tree batch heads snap h s d rest Hh Hf. unfold add_all_calls, add_tab.
  cbn [app]. rewrite step_begin_nil. rewrite <- app_assoc.
  rewrite (exec_inserts _ _ _ _ _ _ Hf). cbn [app].
  rewrite step_upsert. rewrite get_app, Hh. cbn [upd_heads].
  rewrite step_commit1. reflexivity.
Qed.

(* ------------------------------------------------------------------ 2. remote add, storage exists *)

Lemma run_remote_add : forall w tree batch heads snap tl h s d,
  tget (w_trees w) tree = Some tl -> tl_defer tl = None ->
  get (w_store w) KHeads tree = Some (DHeads h s d) -> ins_fresh (w_store w) tree batch = true ->
  run w (ORemoteAdd tree batch heads snap)
  = (mkW (add_tab (w_store w) tree batch heads snap d) (tput (w_trees w) tree (mkTL heads snap None)) (w_acl w), true).
Proof.
  intros w tree batch heads snap tl h s d Ht Hd Hh Hf. unfold run, prep, fresh. rewrite Ht.
  unfold tree_add_calls. rewrite Hd.
  rewrite <- (app_nil_r (add_all_calls tree batch heads snap)).
  rewrite (exec_add_all_nil _ _ _ _ _ _ _ _ _ Hh Hf). rewrite exec_all_nil. reflexivity.
Qed.

(* ------------------------------------------------------------------ 3. remote add, storage creation deferred *)

Lemma run_remote_add_deferred : forall w tree batch heads snap tl ord,
  tget (w_trees w) tree = Some tl -> tl_defer tl = Some ord ->
  get (w_store w) KChanges tree = None -> get (w_store w) KHeads tree = None ->
  ins_fresh (create_tab (w_store w) tree ord) tree batch = true ->
  run w (ORemoteAdd tree batch heads snap)
  = (mkW (add_tab (create_tab (w_store w) tree ord) tree batch heads snap 0)
         (tput (w_trees w) tree (mkTL heads snap None)) (w_acl w), true).
Proof.
  intros w tree batch heads snap tl ord Ht Hd Hc Hh Hf. unfold run, prep, fresh. rewrite Ht.
  unfold tree_add_calls. rewrite Hd. cbn [app].
  rewrite step_begin_nil. rewrite (exec_create _ _ _ _ _ _ Hc Hh).
  rewrite (exec_add_all _ _ _ _ _ _ _ _ _ _ _ (get_create_tab_heads _ _ ord Hh) Hf).
  rewrite step_commit1, exec_all_nil. reflexivity.
Qed.

(* ================================================================== P5 / run_ok: every well-formed step *)

Lemma deferred_nokeys3 : forall t i,
  is_nil (filter (fun e : entry => match e with
                           | (KChanges, j, _) => j =? i
                           | (KHeads, j, _) => j =? i
                           | _ => false end) t) = true ->
  get t KChanges i = None /\ get t KHeads i = None
  /\ existsb (fun e : entry => match e with (KHeads, j, _) => j =? i | _ => false end) t = false.
Proof.
  induction t as [|[[c j] d] r IH]; intros i Hn; [repeat split|].
  destruct c; cbn [filter] in Hn.
  - destruct (IH _ Hn) as [H1 [H2 H3]]. repeat split; cbn; auto.
  - destruct (j =? i) eqn:Hj; [discriminate|]. destruct (IH _ Hn) as [H1 [H2 H3]].
    repeat split; cbn; rewrite ?(N.eqb_sym i j), ?Hj; auto.
  - destruct (j =? i) eqn:Hj; [discriminate|]. destruct (IH _ Hn) as [H1 [H2 H3]].
    repeat split; cbn; rewrite ?(N.eqb_sym i j), ?Hj; auto.
  - destruct (IH _ Hn) as [H1 [H2 H3]]. repeat split; cbn; auto.
Qed.

Lemma chg_in_weaken : forall t tree x b, chg_in t tree x b = true -> chg_in t tree x None = true.
Proof.
  intros t tree x b H. unfold chg_in in *.
  destruct (get t KChanges x) as [[a s|hs sn dl|tr p s o|p o]|]; try discriminate.
  apply andb_prop in H. destruct H as [H1 _]. now rewrite H1.
Qed.

Lemma acl_heads_cons : forall w, consistent w = true -> is_nil (w_acl w) = false ->
  exists h s d, get (w_store w) KHeads (acl_id (w_store w)) = Some (DHeads [h] s d)
                /\ h = last_or0 (w_acl w) /\ rec_ord (w_store w) h = Some (N.of_nat (length (w_acl w))).
Proof.
  intros w Hc Hne. unfold consistent in Hc. apply andb_prop in Hc. destruct Hc as [_ Ha].
  unfold acl_consistent in Ha. destruct (w_acl w) as [|x l] eqn:Hl; [discriminate Hne|].
  destruct (get (w_store w) KHeads (acl_id (w_store w))) as [[a s|h s dl|a b c0 d0|a b]|]; try discriminate Ha.
  destruct h as [|h0 [|h1 hr]]; try discriminate Ha.
  apply andb_prop in Ha. destruct Ha as [Ha _]. apply andb_prop in Ha. destruct Ha as [Hh Hr].
  apply N.eqb_eq in Hh. exists h0, s, dl. split; [reflexivity|]. split; [exact Hh|].
  destruct (rec_ord (w_store w) h0) as [o|]; [|discriminate Hr]. apply N.eqb_eq in Hr. now subst o.
Qed.

(* a step: the run succeeds unless the operation is rejected up front, and the invariant is carried over *)
Definition step_ok (w : world) (o : op) : Prop :=
  (prep w o <> None -> snd (run w o) = true) /\
  (inv_b (w_store w) = true -> uniq (w_store w) = true -> inv_b (post w o) = true /\ uniq (post w o) = true).

Lemma step_ok_of_run : forall w o W, run w o = (W, true) ->
  (inv_b (w_store w) = true -> uniq (w_store w) = true -> inv_b (w_store W) = true /\ uniq (w_store W) = true) ->
  step_ok w o.
Proof. intros w o W Hrun Hi. unfold step_ok, post. rewrite Hrun. cbn [fst snd]. auto. Qed.

Lemma run_prep_None : forall w o, prep w o = None -> run w o = (w, false).
Proof. intros w o Hp. unfold run. now rewrite Hp. Qed.

Lemma step_ok_of_prep_None : forall w o, prep w o = None -> step_ok w o.
Proof.
  intros w o Hp. unfold step_ok, post. rewrite (run_prep_None _ _ Hp). cbn [fst snd].
  split; [congruence | auto].
Qed.

Lemma step_ok_remote : forall w tree batch heads snap,
  consistent w = true -> op_wf w (ORemoteAdd tree batch heads snap) = true ->
  step_ok w (ORemoteAdd tree batch heads snap).
Proof.
  intros w tree batch heads snap Hc Hwf.
  destruct (tget (w_trees w) tree) as [tl|] eqn:Hg.
  2:{ apply step_ok_of_prep_None. cbn [prep]. now rewrite Hg. }
  cbn [op_wf] in Hwf. rewrite Hg in Hwf.
  pose proof (consistent_tree w tree tl Hc Hg) as Ht. unfold tree_consistent in Ht.
  destruct (tl_defer tl) as [ord|] eqn:Hd.
  - apply andb_prop in Ht. destruct Ht as [Ht _]. apply andb_prop in Ht. destruct Ht as [Hnil _].
    destruct (deferred_nokeys3 _ _ Hnil) as [Hk1 [Hk2 _]].
    rewrite Hk2 in Hwf. rewrite andb_true_r in Hwf.
    apply andb_prop in Hwf. destruct Hwf as [Hwf Hsnap]. apply andb_prop in Hwf. destruct Hwf as [Hwf Hheads].
    apply andb_prop in Hwf. destruct Hwf as [Hwf Hbatch]. apply andb_prop in Hwf. destruct Hwf as [Hacl Hne].
    apply negb_true_iff in Hacl. apply negb_true_iff in Hne.
    assert (Hcong : forall x, get (w_store w ++ [(KChanges, tree, DChange tree [] 0 ord)]) KChanges x
                              = get (create_tab (w_store w) tree ord) KChanges x).
    { intros x. unfold create_tab. rewrite !get_app. destruct (get (w_store w) KChanges x); [reflexivity|].
      cbn. destruct (x =? tree); reflexivity. }
    rewrite (batch_ok_get_congr _ _ _ _ _ Hcong) in Hbatch.
    rewrite (forallb_congr _ _ _ heads (fun x => names_ok_get_congr _ _ tree batch x Hcong)) in Hheads.
    rewrite (names_ok_get_congr _ _ tree batch snap Hcong) in Hsnap.
    eapply step_ok_of_run.
    + apply (run_remote_add_deferred w tree batch heads snap tl ord Hg Hd Hk1 Hk2).
      apply batch_ok_ins_fresh. exact Hbatch.
    + intros Hinv Hu. cbn [w_store].
      destruct (inv_create_tab _ tree ord Hinv Hu Hk1 Hk2 Hacl) as [Hinv' Hu'].
      assert (Hacl' : (tree =? acl_id (create_tab (w_store w) tree ord)) = false)
        by (unfold create_tab; rewrite acl_id_app; [exact Hacl | reflexivity]).
      pose proof (get_create_tab_heads _ _ ord Hk2) as Hh'.
      apply (inv_add_tab _ tree batch heads snap [tree] tree Hinv' Hu' Hh' Hacl' Hne Hbatch Hheads Hsnap).
  - destruct (get (w_store w) KHeads tree) as [[a s|h s d|a b c0 d0|a b]|] eqn:Hh; try discriminate Ht.
    apply andb_prop in Hwf. destruct Hwf as [Hwf Hd0]. apply N.eqb_eq in Hd0. subst d.
    apply andb_prop in Hwf. destruct Hwf as [Hwf Hsnap]. apply andb_prop in Hwf. destruct Hwf as [Hwf Hheads].
    apply andb_prop in Hwf. destruct Hwf as [Hwf Hbatch]. apply andb_prop in Hwf. destruct Hwf as [Hacl Hne].
    apply negb_true_iff in Hacl. apply negb_true_iff in Hne.
    eapply step_ok_of_run.
    + apply (run_remote_add w tree batch heads snap tl h s 0 Hg Hd Hh). apply batch_ok_ins_fresh. exact Hbatch.
    + intros Hinv Hu. cbn [w_store].
      apply (inv_add_tab _ tree batch heads snap h s Hinv Hu Hh Hacl Hne Hbatch Hheads Hsnap).
Qed.

(* the arguments of a local add are those of the corresponding resolved remote add *)
Lemma op_wf_local_remote : forall w tree id ord is_snap tl,
  tget (w_trees w) tree = Some tl -> op_wf w (OLocalAdd tree id ord is_snap) = true ->
  op_wf w (ORemoteAdd tree [mkChg id (tl_heads tl) (tl_root tl) ord] [id] (if is_snap then id else tl_root tl)) = true.
Proof.
  intros w tree id ord is_snap tl Hg Hwf. cbn [op_wf] in *. rewrite Hg in *.
  apply andb_prop in Hwf. destruct Hwf as [Hwf Hdel]. apply andb_prop in Hwf. destruct Hwf as [Hwf Hbatch].
  apply andb_prop in Hwf. destruct Hwf as [Hacl Hnn].
  assert (Hid : forall t', names_ok t' tree [mkChg id (tl_heads tl) (tl_root tl) ord] id = true).
  { intros t'. unfold names_ok. cbn [existsb c_id]. rewrite N.eqb_refl. cbn. apply orb_true_r. }
  apply andb_true_intro; split; [apply andb_true_intro; split; [apply andb_true_intro; split;
    [apply andb_true_intro; split; [apply andb_true_intro; split|]|]|]|].
  - exact Hacl.
  - reflexivity.
  - exact Hbatch.
  - cbn [forallb]. rewrite Hid. reflexivity.
  - destruct is_snap; [apply Hid|].
    pose proof Hbatch as Hb. cbn [batch_ok c_id c_prevs c_snap c_ord existsb] in Hb.
    rewrite andb_true_r in Hb. apply andb_prop in Hb. destruct Hb as [_ Hst]. rewrite orb_false_r in Hst.
    unfold names_ok. rewrite (chg_in_weaken _ _ _ _ Hst). reflexivity.
  - exact Hdel.
Qed.

Lemma step_ok_local : forall w tree id ord is_snap,
  consistent w = true -> op_wf w (OLocalAdd tree id ord is_snap) = true ->
  step_ok w (OLocalAdd tree id ord is_snap).
Proof.
  intros w tree id ord is_snap Hc Hwf.
  destruct (tget (w_trees w) tree) as [tl|] eqn:Hg.
  2:{ apply step_ok_of_prep_None. cbn [prep]. now rewrite Hg. }
  pose proof (step_ok_remote w tree _ _ _ Hc (op_wf_local_remote w tree id ord is_snap tl Hg Hwf)) as Hr.
  unfold step_ok, post in *.
  rewrite (run_local_is_remote w tree id ord is_snap tl Hg), (prep_local_is_remote w tree id ord is_snap tl Hg).
  exact Hr.
Qed.

Theorem step_ok_all : forall w o, consistent w = true -> op_wf w o = true -> step_ok w o.
Proof.
  intros w o Hc Hwf.
  destruct o as [space acl settings ord|root ord|root ord|tree id ord is_snap|tree batch heads snap|id|tree status|tree].
  - (* space create *)
    cbn [op_wf] in Hwf.
    apply andb_prop in Hwf. destruct Hwf as [Hwf Has]. apply andb_prop in Hwf. destruct Hwf as [Hwf Hs].
    apply andb_prop in Hwf. destruct Hwf as [Hnil Ha].
    apply negb_true_iff in Has. apply negb_true_iff in Hs. apply negb_true_iff in Ha.
    destruct (w_store w) as [|e r] eqn:Ht; [|discriminate Hnil].
    eapply step_ok_of_run.
    + apply (run_space_create w space acl settings ord Ht Has).
    + intros _ _. cbn [w_store]. apply (inv_space_create space acl settings ord Ha Hs Has).
  - (* tree create *)
    cbn [op_wf] in Hwf.
    apply andb_prop in Hwf. destruct Hwf as [Hwf Hget]. apply andb_prop in Hwf. destruct Hwf as [_ Hacl].
    apply negb_true_iff in Hacl.
    destruct (get (w_store w) KChanges root) eqn:Hk1; [discriminate Hget|].
    destruct (get (w_store w) KHeads root) eqn:Hk2; [discriminate Hget|].
    eapply step_ok_of_run.
    + apply (run_tree_create w root ord Hk1 Hk2).
    + intros Hinv Hu. cbn [w_store]. apply (inv_create_tab _ root ord Hinv Hu Hk1 Hk2 Hacl).
  - (* deferred open *)
    destruct (get (w_store w) KChanges root) eqn:Hk1.
    + apply step_ok_of_prep_None. cbn [prep]. now rewrite Hk1.
    + eapply step_ok_of_run; [apply (run_deferred_open w root ord Hk1)|]. intros Hinv Hu. cbn [w_store]. auto.
  - now apply step_ok_local.
  - now apply step_ok_remote.
  - (* acl add *)
    destruct (existsb (N.eqb id) (w_acl w)) eqn:Hex.
    + apply step_ok_of_prep_None. cbn [prep]. now rewrite Hex.
    + cbn [op_wf] in Hwf.
      apply andb_prop in Hwf. destruct Hwf as [Hwf Hget]. apply andb_prop in Hwf. destruct Hwf as [_ Hne].
      apply negb_true_iff in Hne.
      destruct (get (w_store w) KAcl id) eqn:Hk; [discriminate Hget|].
      destruct (acl_heads_cons w Hc Hne) as [h [s [d [Hh [Hlast Hrec]]]]].
      eapply step_ok_of_run.
      * apply (run_acl_add w id [h] s d Hex Hk Hh).
      * intros Hinv Hu. cbn [w_store]. rewrite <- Hlast.
        apply (inv_acl_add _ id h s d _ Hinv Hu Hk Hh Hrec).
        destruct (w_acl w) as [|x l]; [discriminate Hne|]. cbn [length]. lia.
  - (* mark deleted *)
    cbn [op_wf] in Hwf.
    apply andb_prop in Hwf. destruct Hwf as [Hwf Hhh]. apply andb_prop in Hwf. destruct Hwf as [Hst Hacl].
    apply negb_true_iff in Hst. apply negb_true_iff in Hacl.
    unfold has_heads in Hhh.
    destruct (get (w_store w) KHeads tree) as [[a s|h s d|a b c0 d0|a b]|] eqn:Hh; try discriminate Hhh.
    eapply step_ok_of_run.
    + apply (run_mark_deleted w tree status h s d Hh).
    + intros Hinv Hu. cbn [w_store]. apply (inv_mark_deleted _ tree h s status Hinv Hu Hacl Hst).
  - (* delete tree *)
    destruct (tget (w_trees w) tree) as [tl|] eqn:Hg.
    2:{ apply step_ok_of_prep_None. cbn [prep]. now rewrite Hg. }
    cbn [op_wf] in Hwf. apply andb_prop in Hwf. destruct Hwf as [Hacl Hd]. apply negb_true_iff in Hacl.
    destruct (get (w_store w) KHeads tree) as [[a s|h s d|a b c0 d0|a b]|] eqn:Hh; try discriminate Hd.
    apply negb_true_iff in Hd.
    eapply step_ok_of_run.
    + apply (run_delete_tree w tree tl Hg).
    + intros Hinv Hu. cbn [w_store]. apply (inv_delete_tree _ tree h s d Hinv Hu Hacl Hh Hd).
Qed.

(* P5 (with the unique-keys hypothesis that the counterexamples above show to be necessary) *)
Theorem inv_preserved : forall w o,
  inv_b (w_store w) = true -> uniq (w_store w) = true -> consistent w = true -> op_wf w o = true ->
  inv_b (post w o) = true.
Proof. intros w o Hinv Hu Hc Hwf. destruct (step_ok_all w o Hc Hwf) as [_ H]. now apply H. Qed.

Theorem uniq_preserved : forall w o,
  inv_b (w_store w) = true -> uniq (w_store w) = true -> consistent w = true -> op_wf w o = true ->
  uniq (post w o) = true.
Proof. intros w o Hinv Hu Hc Hwf. destruct (step_ok_all w o Hc Hwf) as [_ H]. now apply H. Qed.

(* P6, second statement: a well-formed operation that is not rejected up front succeeds *)
Theorem run_ok : forall w o,
  consistent w = true -> op_wf w o = true -> prep w o <> None -> snd (run w o) = true.
Proof. intros w o Hc Hwf Hp. destruct (step_ok_all w o Hc Hwf) as [H _]. now apply H. Qed.
