(* C10: the theorems stated over the REAL store, which enters as a Section variable [disk] with the hypothesis
   that it implements the reference transactional semantics (atomic transactions: the trusted SQLite/any-store
   layer).  After the Section closes, the hypothesis stays visible in every statement. *)
From Coq Require Import List NArith Bool Arith Lia.
Import ListNotations.
From AnySync Require Import Model.Store Proofs.StoreProofs Proofs.StoreInv Proofs.StoreSpec.

Section TrustedStore.
  (* [disk t l]: what is durable if the process dies after the storage calls [l] were issued against the
     durable state [t] *)
  Variable disk : table -> list call -> table.
  Hypothesis disk_atomic : forall t l, disk t l = ref_disk t l.

  (* the durable state when the process dies after the first k calls of operation o *)
  Definition crash_image (w : world) (o : op) (k : nat) : table := disk (w_store w) (firstn k (script w o)).

  Lemma crash_image_ref : forall w o k, crash_image w o k = crash w o k.
  Proof. intros w o k. unfold crash_image, crash. apply disk_atomic. Qed.

  Theorem crash_atomic : forall w o k,
    crash_image w o k = w_store w \/ (crash_image w o k = post w o /\ (length (script w o) <= k)%nat).
  Proof. intros w o k. rewrite crash_image_ref. apply crash_pre_or_post. Qed.

  Theorem crash_before_commit : forall w o k,
    (k < length (script w o))%nat -> crash_image w o k = w_store w.
  Proof.
    intros w o k Hk. destruct (crash_atomic w o k) as [H|[_ H]]; [exact H | lia].
  Qed.

  Theorem crash_inv : forall w o k,
    inv_b (w_store w) = true -> uniq (w_store w) = true -> consistent w = true -> op_wf w o = true ->
    inv_b (crash_image w o k) = true.
  Proof.
    intros w o k Hi Hu Hc Hwf. destruct (crash_atomic w o k) as [H|[H _]]; rewrite H.
    - exact Hi.
    - now apply inv_preserved.
  Qed.

  (* along every well-formed operation sequence from the empty store, every crash image of every operation
     satisfies the invariant and is the state before or after that operation *)
  Theorem crash_inv_seq : forall ops j o k,
    wf_seq (mkW [] [] []) ops = true -> nth_error ops j = Some o ->
    let w := run_seq (mkW [] [] []) (firstn j ops) in
    inv_b (crash_image w o k) = true /\ (crash_image w o k = w_store w \/ crash_image w o k = post w o).
  Proof.
    intros ops j o k Hwf Hn w.
    assert (Hg : good w) by (apply good_from_empty; exact Hwf).
    destruct Hg as [Hi [Hu [Hc Ht]]].
    assert (Hwfo : op_wf w o = true).
    { clear Hi Hu Hc Ht. subst w. revert j Hn Hwf. generalize (mkW [] [] []).
      induction ops as [|a r IH]; intros w0 j Hn Hwf; [destruct j; discriminate|].
      cbn [wf_seq] in Hwf. apply andb_prop in Hwf. destruct Hwf as [Hwf Hr].
      apply andb_prop in Hwf. destruct Hwf as [H1 H2].
      destruct j as [|j]; cbn in Hn.
      - inversion Hn; subst. cbn. exact H1.
      - cbn [firstn run_seq]. apply IH; assumption. }
    split.
    - now apply crash_inv.
    - destruct (crash_atomic w o k) as [H|[H _]]; auto.
  Qed.
End TrustedStore.
