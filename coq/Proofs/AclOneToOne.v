(* C03, one-to-one ACLs (Model/AclOneToOne.v): with the repaired Copy() a one-to-one list refuses every record, never
   changes, and a rebuild from its storage equals the live list -- for every delivery sequence; a list that is not
   one-to-one behaves exactly like [add_raw]; live = rebuilt holds for both kinds uniformly. *)
From Coq Require Import List NArith Bool Lia.
Import ListNotations.
From AnySync Require Import Model.Acl Model.AclOneToOne Proofs.AclBase Proofs.AclC03.
Open Scope N_scope.

(* ---- reflexivity of the projected-observables equality *)
Lemma hist_eqb_refl : forall h, hist_eqb h h = true.
Proof.
  intros h. unfold hist_eqb. apply list_eqb_refl. intros [a b]. unfold pair_eqb. cbn [fst snd]. now rewrite !N.eqb_refl.
Qed.

Lemma account_eqb_refl : forall a, account_eqb a a = true.
Proof.
  intros a. unfold account_eqb. now rewrite !N.eqb_refl, status_eqb_refl, hist_eqb_refl.
Qed.

Lemma set_eqb_refl : forall l, set_eqb l l = true.
Proof. intros l. unfold set_eqb. apply list_N_eqb_refl. Qed.

Lemma bool_eqb_refl : forall b, Bool.eqb b b = true.
Proof. now intros []. Qed.

Lemma obs_eqb_refl : forall s, obs_eqb s s = true.
Proof.
  intros s. unfold obs_eqb, obs_eqb_nolast.
  rewrite !set_eqb_refl, !N.eqb_refl.
  rewrite (opt_eqb_refl Bool.eqb (cur_opt s) bool_eqb_refl).
  rewrite (list_eqb_refl (pair_eqb N.eqb account_eqb) (accounts s)).
  2:{ intros [k a]. unfold pair_eqb. cbn [fst snd]. now rewrite N.eqb_refl, account_eqb_refl. }
  rewrite (list_eqb_refl (pair_eqb N.eqb invite_eqb) (invites s)).
  2:{ intros [k a]. unfold pair_eqb. cbn [fst snd]. now rewrite N.eqb_refl, invite_eqb_refl. }
  rewrite (list_eqb_refl (pair_eqb N.eqb request_eqb) (requests s)).
  2:{ intros [k a]. unfold pair_eqb. cbn [fst snd]. now rewrite N.eqb_refl, request_eqb_refl. }
  rewrite (list_eqb_refl (pair_eqb N.eqb N.eqb) (pending s)).
  2:{ intros [k a]. unfold pair_eqb. cbn [fst snd]. now rewrite !N.eqb_refl. }
  reflexivity.
Qed.

Section OneThms.
  Variable legacy need_acc v : bool.
  Variable me : acct.
  (* the repaired machine *)
  Notation oadd_raw := (oadd_raw false legacy need_acc v me).
  Notation oadd_raw_keep := (oadd_raw_keep false legacy need_acc v me).
  Notation oadd_raws := (oadd_raws false legacy need_acc v me).
  Notation obuild := (obuild legacy need_acc v me).
  Notation add_raw := (add_raw legacy need_acc v me).
  Notation add_raw_keep := (add_raw_keep legacy need_acc v me).

  (* ---- a one-to-one list accepts nothing *)
  Theorem one_rejects : forall l w, o_one l = true ->
    oadd_raw l w = (if memN (w_id w) (l_ids (o_list l)) then OAddDup else OAddRejected).
  Proof.
    intros l w H1. unfold AclOneToOne.oadd_raw, copy_one. rewrite H1.
    destruct (memN (w_id w) (l_ids (o_list l))); [reflexivity|].
    destruct (negb (verify_raw need_acc w)); reflexivity.
  Qed.

  Corollary one_never_accepts : forall l w l', o_one l = true -> oadd_raw l w <> OAddOk l'.
  Proof.
    intros l w l' H1. rewrite (one_rejects l w H1). destruct (memN (w_id w) (l_ids (o_list l))); discriminate.
  Qed.

  Lemma one_keep : forall l w, o_one l = true -> oadd_raw_keep l w = l.
  Proof.
    intros l w H1. unfold AclOneToOne.oadd_raw_keep. rewrite (one_rejects l w H1).
    destruct (memN (w_id w) (l_ids (o_list l))); reflexivity.
  Qed.

  (* ... whatever is offered, in whatever order: flag, state, in-memory log and storage stay what they were *)
  Theorem one_frozen : forall ws l, o_one l = true -> fold_left oadd_raw_keep ws l = l.
  Proof.
    induction ws as [|w rest IH]; intros l H1; [reflexivity|]. cbn [fold_left]. rewrite (one_keep l w H1). now apply IH.
  Qed.

  (* AddRawRecords on a one-to-one list: nothing changes; nil iff every offered id is already in the log *)
  Theorem one_batch_frozen : forall ws l, o_one l = true ->
    oadd_raws l ws = (l, forallb (fun w => memN (w_id w) (l_ids (o_list l))) ws).
  Proof.
    induction ws as [|w rest IH]; intros l H1; [reflexivity|]. cbn [AclOneToOne.oadd_raws forallb].
    rewrite (one_rejects l w H1). destruct (memN (w_id w) (l_ids (o_list l))); cbn [andb]; [now apply IH|reflexivity].
  Qed.

  (* ---- a list that is not one-to-one is the ordinary list (with or without the repair of Copy()) *)
  Definition lift (r : add_result) : oadd_result :=
    match r with AddOk l' => OAddOk (mkOList false l') | AddDup => OAddDup | AddRejected => OAddRejected end.

  Theorem not_one_same : forall lc l w, o_one l = false ->
    AclOneToOne.oadd_raw lc legacy need_acc v me l w = lift (add_raw (o_list l) w).
  Proof.
    intros lc l w H0. unfold AclOneToOne.oadd_raw, copy_one. rewrite H0.
    replace (if lc then false else false) with false by now destruct lc.
    unfold Acl.add_raw.
    destruct (memN (w_id w) (l_ids (o_list l))); [reflexivity|].
    destruct (negb (verify_raw need_acc w)); [reflexivity|].
    destruct (negb (w_prev w =? last (l_state (o_list l)))); [reflexivity|].
    destruct (apply_record legacy v me (l_state (o_list l)) (w_author w) (w_id w) (decode v me (w_contents w))); reflexivity.
  Qed.

  Lemma not_one_keep : forall l w, o_one l = false ->
    oadd_raw_keep l w = mkOList false (add_raw_keep (o_list l) w).
  Proof.
    intros [one l] w H0. cbn [o_one] in H0. subst one. unfold AclOneToOne.oadd_raw_keep, Acl.add_raw_keep.
    rewrite (not_one_same false (mkOList false l) w eq_refl). cbn [o_list].
    destruct (add_raw l w); reflexivity.
  Qed.

  Theorem not_one_fold : forall ws l,
    fold_left oadd_raw_keep ws (mkOList false l) = mkOList false (fold_left add_raw_keep ws l).
  Proof.
    induction ws as [|w rest IH]; intros l; [reflexivity|]. cbn [fold_left].
    rewrite (not_one_keep (mkOList false l) w eq_refl). cbn [o_list]. apply IH.
  Qed.

  (* ---- the flag never changes; state = replay of storage; live = rebuilt: for both kinds of list, every sequence *)
  Theorem flag_constant : forall ws one l0,
    o_one (fold_left oadd_raw_keep ws (mkOList one l0)) = one.
  Proof.
    intros ws [|] l0.
    - now rewrite one_frozen.
    - now rewrite not_one_fold.
  Qed.

  Theorem o_rebuild_eq : forall ws one s0 root,
    let l := fold_left oadd_raw_keep ws (mkOList one (mkList s0 [root] [])) in
    obuild one s0 root (l_store (o_list l)) = Some l.
  Proof.
    intros ws [|] s0 root l; subst l.
    - rewrite one_frozen by reflexivity. reflexivity.
    - rewrite not_one_fold. cbn [o_list]. unfold AclOneToOne.obuild, oreplay.
      pose proof (rebuild_eq legacy need_acc v me s0 root _ (state_is_fold legacy need_acc v me ws s0 root)) as R.
      unfold build in R.
      destruct (replay legacy need_acc v me s0 (l_store (fold_left add_raw_keep ws (mkList s0 [root] [])))) as [s|];
        [|discriminate].
      injection R as R. now rewrite R.
  Qed.

  (* catch-up between two replicas of a one-to-one ACL, whatever each of them has been offered before: the serving
     replica has nothing but the root to serve, the receiving one stays as it is, and they are equal *)
  Theorem one_catchup_eq : forall wsA wsE s0 root,
    let A := fold_left oadd_raw_keep wsA (mkOList true (mkList s0 [root] [])) in
    let E := fold_left oadd_raw_keep wsE (mkOList true (mkList s0 [root] [])) in
    records_after (o_list A) root (head (o_list E)) = Some [] /\
    oadd_raws E [] = (A, true) /\ E = A.
  Proof.
    intros wsA wsE s0 root A E. subst A E. rewrite !one_frozen by reflexivity.
    cbn [o_list]. unfold head, records_after. cbn [l_ids last_or l_store]. rewrite N.eqb_refl. auto.
  Qed.

  (* ---- the model satisfies the specification predicates *)
  Theorem one_add_spec : forall l w root, o_one l = true ->
    l_ids (o_list l) = root :: map w_id (l_store (o_list l)) ->
    let l' := oadd_raw_keep l w in
    spec_one_add (l_state (o_list l)) (l_ids (o_list l)) (outcome_of (oadd_raw l w))
                 (o_one l') (l_state (o_list l')) (l_ids (o_list l')) (root :: map w_id (l_store (o_list l'))) = true.
  Proof.
    intros l w root H1 Hi l'. subst l'. rewrite (one_keep l w H1), (one_rejects l w H1), <- Hi, H1.
    unfold spec_one_add. rewrite obs_eqb_refl, list_N_eqb_refl.
    destruct (memN (w_id w) (l_ids (o_list l))); reflexivity.
  Qed.

  Theorem one_batch_spec : forall l ws root, o_one l = true ->
    l_ids (o_list l) = root :: map w_id (l_store (o_list l)) ->
    let r := oadd_raws l ws in
    spec_one_batch (l_state (o_list l)) (l_ids (o_list l)) ws (snd r)
                   (o_one (fst r)) (l_state (o_list (fst r))) (l_ids (o_list (fst r)))
                   (root :: map w_id (l_store (o_list (fst r)))) = true.
  Proof.
    intros l ws root H1 Hi r. subst r. rewrite (one_batch_frozen ws l H1). cbn [fst snd]. rewrite <- Hi, H1.
    unfold spec_one_batch. now rewrite obs_eqb_refl, list_N_eqb_refl, bool_eqb_refl.
  Qed.

  Theorem rebuild_spec : forall ws one s0 root,
    let l := fold_left oadd_raw_keep ws (mkOList one (mkList s0 [root] [])) in
    match obuild one s0 root (l_store (o_list l)) with
    | Some r => spec_rebuild (o_one l) (l_state (o_list l)) (l_ids (o_list l))
                             true (o_one r) (l_state (o_list r)) (l_ids (o_list r)) = true
    | None => False
    end.
  Proof.
    intros ws one s0 root l. pose proof (o_rebuild_eq ws one s0 root) as R. cbv zeta in R. fold l in R. rewrite R.
    unfold spec_rebuild. now rewrite bool_eqb_refl, obs_eqb_refl, list_N_eqb_refl.
  Qed.
End OneThms.
