(* Proofs about Model/Chash.v (property C18): the ring is a function of the member multiset, every partition
   gets min(rf, n) pairwise-distinct members, the skip index implements sort.Search. *)
From Coq Require Import List NArith ZArith Bool Arith Lia Permutation Sorted Orders Sorting.Mergesort
     RelationClasses Morphisms.
Import ListNotations.
From AnySync Require Import Model.Chash.

Local Notation vleP := (fun a b : vnode => is_true (vle a b)).

(* ---------------------------------------------------------------- the order of the ring *)
Lemma vle_trans : Transitive vleP.
Proof.
  intros [h1 i1] [h2 i2] [h3 i3]. unfold is_true, vle. cbn [fst snd].
  destruct (N.eqb_spec h1 h2) as [E12|N12]; destruct (N.eqb_spec h2 h3) as [E23|N23];
    destruct (N.eqb_spec h1 h3) as [E13|N13]; rewrite ?N.leb_le, ?N.ltb_lt; intros H12 H23; subst; try lia.
Qed.

Lemma vle_antisym : forall a b, vle a b = true -> vle b a = true -> a = b.
Proof.
  intros [h1 i1] [h2 i2]. unfold vle. cbn [fst snd].
  destruct (N.eqb_spec h1 h2) as [E12|N12]; destruct (N.eqb_spec h2 h1) as [E21|N21];
    rewrite ?N.leb_le, ?N.ltb_lt; intros H12 H21; subst; try lia; try congruence.
  f_equal. lia.
Qed.

Lemma vle_hash_le : forall a b, vle a b = true -> (fst a <= fst b)%N.
Proof.
  intros [h1 i1] [h2 i2]. unfold vle. cbn [fst snd].
  destruct (N.eqb_spec h1 h2) as [E|NE]; rewrite ?N.ltb_lt; intros H; subst; lia.
Qed.

(* two sorted lists with the same elements (as multisets) are equal: sort.Sort has only one possible result *)
Lemma sorted_perm_unique : forall l1 l2 : list vnode,
  StronglySorted vleP l1 -> StronglySorted vleP l2 -> Permutation l1 l2 -> l1 = l2.
Proof.
  induction l1 as [|a l1 IH]; intros l2 Hs1 Hs2 Hp.
  - apply Permutation_nil in Hp. now subst.
  - destruct l2 as [|b l2]; [apply Permutation_sym, Permutation_nil in Hp; discriminate|].
    apply StronglySorted_inv in Hs1. destruct Hs1 as [Hs1 Ha].
    apply StronglySorted_inv in Hs2. destruct Hs2 as [Hs2 Hb].
    rewrite Forall_forall in Ha, Hb.
    assert (Hab : a = b).
    { assert (Hina : In a (b :: l2)) by (eapply Permutation_in; [exact Hp|left; reflexivity]).
      assert (Hinb : In b (a :: l1)) by (eapply Permutation_in; [apply Permutation_sym; exact Hp|left; reflexivity]).
      destruct Hina as [Hba|Hina]; [now subst|].
      destruct Hinb as [Hab'|Hinb]; [now subst|].
      apply vle_antisym; [apply Ha; exact Hinb|apply Hb; exact Hina]. }
    subst b. f_equal. apply IH; [exact Hs1|exact Hs2|]. eapply Permutation_cons_inv. exact Hp.
Qed.

Lemma sort_perm_eq : forall l1 l2 : list vnode, Permutation l1 l2 -> VSort.sort l1 = VSort.sort l2.
Proof.
  intros l1 l2 Hp. apply sorted_perm_unique.
  - apply VSort.StronglySorted_sort. exact vle_trans.
  - apply VSort.StronglySorted_sort. exact vle_trans.
  - eapply Permutation_trans; [apply Permutation_sym, VSort.Permuted_sort|].
    eapply Permutation_trans; [exact Hp|apply VSort.Permuted_sort].
Qed.

(* ---------------------------------------------------------------- members as a multiset / set *)
Lemma member_count_perm : forall ms1 ms2, Permutation ms1 ms2 -> member_count ms1 = member_count ms2.
Proof.
  intros ms1 ms2 Hp. unfold member_count. apply Permutation_length.
  apply NoDup_Permutation; try apply NoDup_nodup.
  intro x. rewrite !nodup_In. split; intro Hin.
  - eapply Permutation_in; [exact Hp|exact Hin].
  - eapply Permutation_in; [apply Permutation_sym; exact Hp|exact Hin].
Qed.

Section ChashProofs.
  Variable PH : list N.
  Variable RF : nat.
  Variable VH : N -> list N.

  Lemma ring_perm : forall ms1 ms2, Permutation ms1 ms2 -> ring VH ms1 = ring VH ms2.
  Proof.
    intros ms1 ms2 Hp. unfold ring. apply sort_perm_eq. unfold ring_unsorted.
    apply Permutation_flat_map. exact Hp.
  Qed.

  (* The partition table depends on the members only as a multiset: not on the order of AddMembers. *)
  Theorem distribute_perm : forall ms1 ms2, Permutation ms1 ms2 ->
    distribute PH RF VH ms1 = distribute PH RF VH ms2.
  Proof.
    intros ms1 ms2 Hp. unfold distribute, lap_fuel, quota0, eff_rf.
    rewrite (ring_perm _ _ Hp). rewrite (member_count_perm _ _ Hp). reflexivity.
  Qed.

  (* ... and, for duplicate-free member lists, only as a set *)
  Theorem distribute_set : forall ms1 ms2, NoDup ms1 -> NoDup ms2 -> (forall x, In x ms1 <-> In x ms2) ->
    distribute PH RF VH ms1 = distribute PH RF VH ms2.
  Proof.
    intros ms1 ms2 Hn1 Hn2 Hs. apply distribute_perm. apply NoDup_Permutation; assumption.
  Qed.

  Lemma in_ring_unsorted : forall ms v, In v (ring_unsorted VH ms) -> In (snd v) ms.
  Proof.
    intros ms v Hin. unfold ring_unsorted in Hin. apply in_flat_map in Hin.
    destruct Hin as [m [Hm Hv]]. unfold vnodes_of in Hv. apply in_map_iff in Hv.
    destruct Hv as [h [Hv _]]. subst v. exact Hm.
  Qed.

  Lemma in_ring : forall ms v, In v (ring VH ms) -> In (snd v) ms.
  Proof.
    intros ms v Hin. apply in_ring_unsorted. eapply Permutation_in; [|exact Hin].
    apply Permutation_sym. apply VSort.Permuted_sort.
  Qed.

  (* every member that has a virtual node is on the ring *)
  Lemma member_on_ring : forall ms m, In m ms -> VH m <> [] -> exists h, In (h, m) (ring VH ms).
  Proof.
    intros ms m Hm Hne. destruct (VH m) as [|h r] eqn:Hv; [congruence|].
    exists h. eapply Permutation_in; [apply VSort.Permuted_sort|].
    unfold ring_unsorted. apply in_flat_map. exists m. split; [exact Hm|].
    unfold vnodes_of. rewrite Hv. left. reflexivity.
  Qed.

  Lemma ring_nil : forall ms, (forall m, In m ms -> VH m <> []) -> ring VH ms = [] -> ms = [].
  Proof.
    intros ms Hne Hr. destruct ms as [|m ms]; [reflexivity|].
    destruct (member_on_ring (m :: ms) m) as [h Hin]; [left; reflexivity|apply Hne; left; reflexivity|].
    rewrite Hr in Hin. destruct Hin.
  Qed.
End ChashProofs.

(* ---------------------------------------------------------------- fillClosest: what a filled partition looks like *)
Section Walk.
  Variable S : N -> Prop.       (* the ids that occur on the ring *)
  Variable rf' : nat.

  Definition winv (st : wstate) : Prop :=
    NoDup (ws_found st) /\ (forall x, In x (ws_found st) -> S x) /\ length (ws_found st) + ws_need st = rf'.

  Lemma memN_true : forall x l, memN x l = true <-> In x l.
  Proof.
    intros x l. unfold memN. rewrite existsb_exists. split.
    - intros [y [Hin Hy]]. apply N.eqb_eq in Hy. now subst.
    - intro Hin. exists x. split; [exact Hin|apply N.eqb_refl].
  Qed.

  Lemma memN_false : forall x l, memN x l = false <-> ~ In x l.
  Proof.
    intros x l. rewrite <- memN_true. destruct (memN x l); split; intro H; congruence.
  Qed.

  Lemma walk_inv : forall q0 l st, (forall v, In v l -> S (snd v)) -> winv st -> winv (walk q0 l st).
  Proof.
    intros q0 l. induction l as [|v r IH]; intros st HS Hinv; [exact Hinv|].
    cbn [walk]. destruct (ws_need st) as [|k] eqn:Hneed; [exact Hinv|].
    destruct Hinv as [Hnd [Hsub Hlen]].
    assert (HSr : forall v0, In v0 r -> S (snd v0)) by (intros v0 Hv0; apply HS; right; exact Hv0).
    destruct (memN (snd v) (ws_found st)) eqn:Hmem.
    - apply IH; [exact HSr|]. unfold winv. cbn [ws_found ws_need]. rewrite Hneed in Hlen. auto.
    - destruct (- ws_ov st <? q0 - tget (snd v) (ws_tk st))%Z.
      + apply IH; [exact HSr|]. unfold winv. cbn [ws_found ws_need]. apply memN_false in Hmem.
        split; [|split].
        * apply NoDup_rev in Hnd. rewrite <- (rev_involutive (ws_found st ++ [snd v])).
          apply NoDup_rev. rewrite rev_app_distr. cbn [rev app]. constructor; [|exact Hnd].
          intro Hin. apply in_rev in Hin. contradiction.
        * intros x Hin. apply in_app_or in Hin. destruct Hin as [Hin|[Hx|[]]]; [apply Hsub; exact Hin|].
          subst x. apply HS. left. reflexivity.
        * rewrite app_length. cbn [length]. rewrite Hneed in Hlen. lia.
      + apply IH; [exact HSr|]. unfold winv. auto.
  Qed.

  Lemma laps_inv : forall fuel q0 rg st st', (forall v, In v rg -> S (snd v)) -> winv st ->
    laps fuel q0 rg st = Ok st' -> winv st' /\ ws_need st' = 0.
  Proof.
    induction fuel as [|f IH]; intros q0 rg st st' HS Hinv Hl.
    - cbn [laps] in Hl. destruct (ws_need st) eqn:Hneed; [|discriminate].
      injection Hl as <-. auto.
    - cbn [laps] in Hl. destruct (ws_need st) eqn:Hneed.
      + injection Hl as <-. auto.
      + eapply IH; [exact HS| |exact Hl]. apply walk_inv; assumption.
  Qed.

  Lemma suffix_drop_lt : forall h l v, In v (drop_lt h l) -> In v l.
  Proof.
    intros h l. induction l as [|a r IH]; intros v Hin; [exact Hin|].
    cbn [drop_lt] in Hin. destruct (fst a <? h)%N; [right; apply IH; exact Hin|exact Hin].
  Qed.

  Lemma fill_closest_ok : forall fuel q0 rg start tk f tk',
    (forall v, In v rg -> S (snd v)) -> (forall v, In v start -> S (snd v)) ->
    fill_closest fuel q0 rg start rf' tk = Ok (f, tk') ->
    NoDup f /\ (forall x, In x f -> S x) /\ length f = rf'.
  Proof.
    intros fuel q0 rg start tk f tk' HSr HSs Hf. unfold fill_closest in Hf.
    destruct (laps fuel q0 rg (walk q0 start (mkW rf' [] 0%Z tk))) as [st'|] eqn:Hl; [|discriminate].
    injection Hf as <- <-.
    apply laps_inv in Hl; [|exact HSr|].
    - destruct Hl as [[Hnd [Hsub Hlen]] Hneed]. rewrite Hneed in Hlen. repeat split; auto. lia.
    - apply walk_inv; [exact HSs|]. unfold winv. cbn [ws_found ws_need length]. repeat split.
      + constructor.
      + intros x [].
  Qed.
End Walk.

(* every suffix recorded in the skip index, and hence every search result, is a part of the ring *)
Lemma mk_index_aux_in : forall l k s v, In s (mk_index_aux l k) -> In v s -> In v l.
Proof.
  induction l as [|a r IH]; intros k s v Hs Hv; [destruct Hs|].
  cbn [mk_index_aux] in Hs. destruct k as [|k'].
  - destruct Hs as [Hs|Hs]; [subst s; exact Hv|]. right. eapply IH; [exact Hs|exact Hv].
  - right. eapply IH; [exact Hs|exact Hv].
Qed.

Lemma seek_in : forall idx h cur rg v,
  (forall s x, In s idx -> In x s -> In x rg) -> (forall x, In x cur -> In x rg) ->
  In v (seek idx h cur) -> In v rg.
Proof.
  induction idx as [|s rest IH]; intros h cur rg v Hidx Hcur Hin.
  - cbn [seek] in Hin. apply Hcur. eapply suffix_drop_lt. exact Hin.
  - cbn [seek] in Hin. destruct s as [|a s'].
    + apply Hcur. eapply suffix_drop_lt. exact Hin.
    + destruct (fst a <? h)%N.
      * eapply IH; [| |exact Hin].
        -- intros s0 x Hs0 Hx. eapply Hidx; [right; exact Hs0|exact Hx].
        -- intros x Hx. eapply Hidx; [left; reflexivity|exact Hx].
      * apply Hcur. eapply suffix_drop_lt. exact Hin.
Qed.

Lemma find_start_in : forall rg h v, In v (find_start (mk_index rg) rg h) -> In v rg.
Proof.
  intros rg h v Hin. unfold find_start in Hin. eapply seek_in; [| |exact Hin].
  - intros s x Hs Hx. eapply mk_index_aux_in; [exact Hs|exact Hx].
  - auto.
Qed.

Section Dist.
  Variable S : N -> Prop.
  Variable rf' : nat.

  Definition row_ok (r : list N) : Prop := NoDup r /\ (forall x, In x r -> S x) /\ length r = rf'.

  Lemma dist_loop_ok : forall fuel q0 rg phs tk t,
    (forall v, In v rg -> S (snd v)) ->
    dist_loop fuel q0 rg (mk_index rg) rf' phs tk = Ok t ->
    length t = length phs /\ Forall row_ok t.
  Proof.
    intros fuel q0 rg phs. induction phs as [|h r IH]; intros tk t HS Hd.
    - cbn [dist_loop] in Hd. injection Hd as <-. split; [reflexivity|constructor].
    - cbn [dist_loop] in Hd.
      destruct (fill_closest fuel q0 rg (find_start (mk_index rg) rg h) rf' tk) as [[f tk']|] eqn:Hf; [|discriminate].
      destruct (dist_loop fuel q0 rg (mk_index rg) rf' r tk') as [t'|] eqn:Hd'; [|discriminate].
      injection Hd as <-. destruct (IH _ _ HS Hd') as [Hlen Hall].
      split; [cbn [length]; now rewrite Hlen|]. constructor; [|exact Hall].
      eapply fill_closest_ok; [exact HS| |exact Hf].
      intros v Hv. apply HS. eapply find_start_in. exact Hv.
  Qed.
End Dist.

Section ChashShape.
  Variable PH : list N.
  Variable RF : nat.
  Variable VH : N -> list N.

  (* every partition holds min(rf, n) pairwise-distinct members *)
  Theorem distribute_shape : forall ms t,
    (forall m, In m ms -> VH m <> []) ->
    distribute PH RF VH ms = Ok t ->
    length t = length PH /\
    Forall (fun r => NoDup r /\ (forall x, In x r -> In x ms) /\ length r = Nat.min RF (member_count ms)) t.
  Proof.
    intros ms t Hne Hd. unfold distribute in Hd.
    destruct (ring VH ms) as [|v rg] eqn:Hr.
    - injection Hd as <-. apply ring_nil in Hr; [|exact Hne]. subst ms.
      split; [apply map_length|]. apply Forall_forall. intros r Hin. apply in_map_iff in Hin.
      destruct Hin as [_ [<- _]]. repeat split; [constructor|intros x []|].
      unfold member_count. cbn. now rewrite Nat.min_0_r.
    - rewrite <- Hr in Hd. apply dist_loop_ok with (S := fun x => In x ms) in Hd.
      + exact Hd.
      + intros v0 Hv0. eapply in_ring. exact Hv0.
  Qed.
End ChashShape.
