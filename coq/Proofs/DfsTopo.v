(* Proofs/DfsTopo.v — the presented order (reverse post-order of the explicit-stack DFS of Model/Dfs.v) is
   TOPOLOGICAL on acyclic Next relations: every emitted change comes before all of its Next-children, i.e. every
   change comes after all of its previous changes that are presented at all.

   Acyclicity is stated through a rank function [rk] that strictly increases along every Next edge ("a change is
   created after its previous changes").  It is needed: with a cycle root -> a -> b -> a the machine (like the Go
   code) emits root, a, b although b is a previous change of a.

   Invariant over the machine state (stack, visited, branchesFinished, result):
     the stack is a sequence of FRAMES  P_k ++ g_k :: ... :: P_1 ++ g_1 :: P_0  where g_k .. g_1 is exactly the
     branchesFinished list (the "grey" path, ranks strictly decreasing from the top), P_i are still pending Next
     entries of g_i, and every Next entry of g_i is pending in P_i, or already emitted, or grey;
     visited = grey + emitted, grey and emitted are disjoint, the result has no duplicates and every emitted
     change has all its Next entries LATER in the result. *)
From Coq Require Import List NArith Bool Arith Lia.
Import ListNotations.
From AnySync Require Import Lib.Dag Model.Dfs Proofs.DfsBase.

Section Topo.
  Variable nx : N -> list N.
  Variable rk : N -> nat.
  Hypothesis rk_edge : forall p y, In y (nx p) -> rk p < rk y.

  (* frames res bfall stack bf *)
  Inductive frames (res bfall : list N) : list N -> list N -> Prop :=
  | fr_base : forall P0, frames res bfall P0 []
  | fr_cons : forall P g st bf,
      frames res bfall st bf ->
      (forall x, In x P -> In x (nx g)) ->
      (forall g', In g' bf -> rk g' < rk g) ->
      (forall y, In y (nx g) -> In y P \/ In y res \/ In y bfall) ->
      frames res bfall (P ++ g :: st) (g :: bf).

  Lemma frames_weaken : forall res bfall res' bfall' st bf,
    frames res bfall st bf ->
    (forall y, In y res \/ In y bfall -> In y res' \/ In y bfall') ->
    frames res' bfall' st bf.
  Proof.
    intros res bfall res' bfall' st bf Hf Himp.
    induction Hf as [P0|P g st bf Hf IH HP Hrk HJ].
    - apply fr_base.
    - apply fr_cons; [exact IH | exact HP | exact Hrk |].
      intros y Hy. destruct (HJ y Hy) as [H1|H23]; [left; exact H1 | right; apply Himp; exact H23].
  Qed.

  (* every emitted change has all its Next entries later in the result *)
  Definition later_children (res : list N) : Prop :=
    forall l1 p l2, res = l1 ++ p :: l2 -> forall y, In y (nx p) -> In y l2.

  Record topo_inv (s : dstate) : Prop := mkTI {
    ti_frames : frames (d_res s) (d_bf s) (d_stack s) (d_bf s);
    ti_vis    : forall x, In x (d_vis s) -> In x (d_bf s) \/ In x (d_res s);
    ti_bfvis  : forall x, In x (d_bf s) -> In x (d_vis s);
    ti_resvis : forall x, In x (d_res s) -> In x (d_vis s);
    ti_disj   : forall x, In x (d_bf s) -> ~ In x (d_res s);
    ti_nodup  : NoDup (d_res s);
    ti_later  : later_children (d_res s)
  }.

  Lemma topo_inv_init : forall start, topo_inv (dfs_init start).
  Proof.
    intros start. unfold dfs_init. constructor; cbn [d_res d_bf d_stack d_vis].
    - apply fr_base.
    - intros x [].
    - intros x [].
    - intros x [].
    - intros x [].
    - constructor.
    - intros l1 p l2 H. destruct l1; discriminate.
  Qed.

  Lemma filter_neq_id : forall g l, ~ In g l -> filter (fun i => negb (N.eqb i g)) l = l.
  Proof.
    intros g l Hn. induction l as [|a r IH]; [reflexivity|]. cbn [filter].
    destruct (N.eqb a g) eqn:E.
    - apply N.eqb_eq in E. subst a. exfalso. apply Hn. left. reflexivity.
    - cbn [negb]. rewrite IH; [reflexivity|]. intro H. apply Hn. right. exact H.
  Qed.

  (* the new top frame after expanding [ch]: its pending entries are the unvisited Next entries *)
  Lemma expand_children : forall ch vis y,
    In y (nx ch) ->
    In y (rev (filter (fun i => negb (mem i (ch :: vis))) (nx ch))) \/ In y vis.
  Proof.
    intros ch vis y Hy. destruct (mem y (ch :: vis)) eqn:Em.
    - apply mem_In in Em. destruct Em as [Heq|Hin]; [|right; exact Hin].
      subst y. pose proof (rk_edge ch ch Hy). lia.
    - left. apply in_rev. rewrite rev_involutive. apply filter_In. split; [exact Hy|]. rewrite Em. reflexivity.
  Qed.

  Lemma expand_sub : forall ch vis x,
    In x (rev (filter (fun i => negb (mem i (ch :: vis))) (nx ch))) -> In x (nx ch).
  Proof. intros ch vis x Hx. apply in_rev in Hx. apply filter_In in Hx. tauto. Qed.

  Lemma topo_inv_step : forall s, topo_inv s -> topo_inv (dfs_step nx s).
  Proof.
    intros [stk vis bfs res] [Hfr Hvis Hbfvis Hresvis Hdisj Hnd Hlat]. unfold dfs_step.
    cbn [d_res d_bf d_stack d_vis] in *.
    destruct stk as [|ch st0].
    { constructor; cbn [d_res d_bf d_stack d_vis]; assumption. }
    inversion Hfr as [P0 HP0 Hbf0 | P g st bf Hf HP Hrk HJ Hstk Hbf].
    - (* no grey change: the stack is the initial frame *)
      subst bfs. cbn [mem existsb].
      destruct (mem ch vis) eqn:Ev.
      + constructor; cbn [d_res d_bf d_stack d_vis]; try assumption. apply fr_base.
      + apply mem_false_In in Ev.
        constructor; cbn [d_res d_bf d_stack d_vis]; try assumption.
        * apply (fr_cons _ _ _ ch st0 []).
          -- apply fr_base.
          -- apply expand_sub.
          -- intros g' [].
          -- intros y Hy. destruct (expand_children ch vis y Hy) as [H1|H1]; [left; exact H1|].
             destruct (Hvis y H1) as [[]|H2]. right. left. exact H2.
        * intros x [Hx|Hx]; [left; left; exact Hx|]. destruct (Hvis x Hx) as [[]|H2]. right. exact H2.
        * intros x [Hx|[]]. left. exact Hx.
        * intros x Hx. right. apply Hresvis. exact Hx.
        * intros x [Hx|[]] Hr. subst x. apply Ev. apply Hresvis. exact Hr.
    - (* top frame P ++ g :: st with g grey *)
      subst bfs.
      assert (Hgnot : ~ In g bf).
      { intro Hin. pose proof (Hrk g Hin). lia. }
      destruct P as [|x P'].
      + (* the grey change itself is on top: it is finished and emitted *)
        cbn [app] in Hstk. inversion Hstk as [[Hch Hst0]]. subst ch st0.
        assert (Em : mem g (g :: bf) = true) by (apply mem_In; left; reflexivity).
        rewrite Em.
        assert (Hfil : filter (fun i => negb (N.eqb i g)) (g :: bf) = bf).
        { cbn [filter]. rewrite N.eqb_refl. cbn [negb]. apply filter_neq_id. exact Hgnot. }
        rewrite Hfil.
        assert (Hall : forall y, In y (nx g) -> In y res).
        { intros y Hy. destruct (HJ y Hy) as [[]|[H1|H1]]; [exact H1|].
          pose proof (rk_edge g y Hy) as Hlt. destruct H1 as [H1|H1]; [subst y; lia|].
          pose proof (Hrk y H1). lia. }
        constructor; cbn [d_res d_bf d_stack d_vis].
        * apply (frames_weaken res (g :: bf)); [exact Hf|].
          intros y [Hy|[Hy|Hy]]; [left; right; exact Hy | left; left; exact Hy | right; exact Hy].
        * intros x Hx. destruct (Hvis x Hx) as [[H1|H1]|H1]; [right; left; exact H1 | left; exact H1 | right; right; exact H1].
        * intros x Hx. apply Hbfvis. right. exact Hx.
        * intros x [Hx|Hx]; [subst x; apply Hbfvis; left; reflexivity | apply Hresvis; exact Hx].
        * intros x Hx [Hr|Hr]; [subst x; exact (Hgnot Hx) | apply (Hdisj x); [right; exact Hx | exact Hr]].
        * constructor; [apply Hdisj; left; reflexivity | exact Hnd].
        * intros l1 p l2 Heq y Hy. destruct l1 as [|a l1'].
          -- cbn [app] in Heq. inversion Heq as [[Hp Hl2]]. subst. apply Hall. exact Hy.
          -- cbn [app] in Heq. inversion Heq as [[Ha Hres]]. apply (Hlat l1' p l2 Hres y Hy).
      + (* a pending Next entry x of g is on top *)
        cbn [app] in Hstk. inversion Hstk as [[Hch Hst0]]. subst ch st0.
        assert (Hxg : In x (nx g)) by (apply HP; left; reflexivity).
        pose proof (rk_edge g x Hxg) as Hgx.
        assert (Hxnot : ~ In x (g :: bf)).
        { intros [H1|H1]; [subst x; lia | pose proof (Hrk x H1); lia]. }
        assert (Em : mem x (g :: bf) = false) by (apply mem_false_In; exact Hxnot).
        rewrite Em.
        destruct (mem x vis) eqn:Ev.
        * (* already visited, hence already emitted: skipped *)
          apply mem_In in Ev.
          assert (Hxres : In x res).
          { destruct (Hvis x Ev) as [H1|H1]; [exfalso; exact (Hxnot H1) | exact H1]. }
          constructor; cbn [d_res d_bf d_stack d_vis]; try assumption.
          apply fr_cons; [exact Hf | | exact Hrk |].
          -- intros z Hz. apply HP. right. exact Hz.
          -- intros y Hy. destruct (HJ y Hy) as [[H1|H1]|H1].
             ++ subst y. right. left. exact Hxres.
             ++ left. exact H1.
             ++ right. exact H1.
        * (* first visit: x becomes grey, a new frame is pushed *)
          apply mem_false_In in Ev.
          constructor; cbn [d_res d_bf d_stack d_vis]; try assumption.
          -- apply (fr_cons _ _ _ x (P' ++ g :: st) (g :: bf)).
             ++ apply fr_cons.
                ** apply (frames_weaken res (g :: bf)); [exact Hf|].
                   intros y [Hy|Hy]; [left; exact Hy | right; right; exact Hy].
                ** intros z Hz. apply HP. right. exact Hz.
                ** exact Hrk.
                ** intros y Hy. destruct (HJ y Hy) as [[H1|H1]|[H1|H1]].
                   --- subst y. right. right. left. reflexivity.
                   --- left. exact H1.
                   --- right. left. exact H1.
                   --- right. right. right. exact H1.
             ++ apply expand_sub.
             ++ intros g' [Hg'|Hg']; [subst g'; exact Hgx | pose proof (Hrk g' Hg'); lia].
             ++ intros y Hy. destruct (expand_children x vis y Hy) as [H1|H1]; [left; exact H1|].
                destruct (Hvis y H1) as [H2|H2]; [right; right; right; exact H2 | right; left; exact H2].
          -- intros z [Hz|Hz]; [left; left; exact Hz|]. destruct (Hvis z Hz) as [H1|H1]; [left; right; exact H1 | right; exact H1].
          -- intros z [Hz|Hz]; [left; exact Hz | right; apply Hbfvis; exact Hz].
          -- intros z Hz. right. apply Hresvis. exact Hz.
          -- intros z [Hz|Hz] Hr; [subst z; apply Ev; apply Hresvis; exact Hr | exact (Hdisj z Hz Hr)].
  Qed.

  Lemma dfs_loop_topo : forall fuel s l,
    topo_inv s -> dfs_loop nx fuel s = Some l -> NoDup l /\ later_children l.
  Proof.
    induction fuel as [|f IH]; intros s l Hinv Hl; cbn [dfs_loop] in Hl.
    - destruct (d_stack s); [|discriminate]. inversion Hl. subst l. split; [apply ti_nodup | apply ti_later]; exact Hinv.
    - destruct (d_stack s) eqn:E.
      + inversion Hl. subst l. split; [apply ti_nodup | apply ti_later]; exact Hinv.
      + apply (IH (dfs_step nx s) l); [apply topo_inv_step; exact Hinv | exact Hl].
  Qed.

  (* everything visited is eventually emitted *)
  Lemma dfs_step_vis_mono : forall s x, In x (d_vis s) -> In x (d_vis (dfs_step nx s)).
  Proof.
    intros s x Hx. unfold dfs_step. destruct (d_stack s) as [|ch st]; [exact Hx|].
    destruct (mem ch (d_bf s)); cbn [d_vis]; [exact Hx|].
    destruct (mem ch (d_vis s)); cbn [d_vis]; [exact Hx | right; exact Hx].
  Qed.

  Lemma dfs_loop_vis : forall fuel s l,
    topo_inv s -> dfs_loop nx fuel s = Some l -> forall x, In x (d_vis s) -> In x l.
  Proof.
    assert (Hend : forall s, topo_inv s -> d_stack s = [] -> forall x, In x (d_vis s) -> In x (d_res s)).
    { intros s Hinv Hst x Hx. pose proof (ti_frames s Hinv) as Hfr. rewrite Hst in Hfr.
      inversion Hfr as [P0 HP0 Hbf | P g st bf Hf HP Hrk HJ Hstk Hbf].
      - destruct (ti_vis s Hinv x Hx) as [H1|H1]; [rewrite <- Hbf in H1; destruct H1 | exact H1].
      - destruct P; discriminate. }
    induction fuel as [|f IH]; intros s l Hinv Hl x Hx; cbn [dfs_loop] in Hl.
    - destruct (d_stack s) eqn:E; [|discriminate]. inversion Hl. subst l. apply Hend; assumption.
    - destruct (d_stack s) eqn:E.
      + inversion Hl. subst l. apply Hend; assumption.
      + apply (IH (dfs_step nx s) l); [apply topo_inv_step; exact Hinv | exact Hl | apply dfs_step_vis_mono; exact Hx].
  Qed.
End Topo.

(* ---------------------------------------------------------------- the canonical order *)

(* [acyclic_by rk V]: every change of V has a greater rank than each of its previous ids *)
Definition acyclic_by (rk : N -> nat) (V : list change) : Prop :=
  forall c p, In c V -> In p (cprev c) -> rk p < rk (cid c).

Theorem order_topological : forall S root rk,
  acyclic_by rk (view S root) ->
  NoDup (order S root) /\
  forall l1 p l2, order S root = l1 ++ p :: l2 ->
    forall c, In c (view S root) -> In p (cprev c) -> In (cid c) l2.
Proof.
  intros S root rk Hac.
  pose proof (order_opt_order S root) as Ho. unfold order_opt in Ho.
  assert (Hedge : forall p y, In y (next_of (view S root) p) -> rk p < rk y).
  { intros p y Hy. apply next_of_In in Hy. destruct Hy as [c [Hc [Hy Hp]]]. subst y. apply (Hac c p Hc Hp). }
  destruct (dfs_loop_topo (next_of (view S root)) rk Hedge _ _ _ (topo_inv_init _ _ root) Ho) as [Hnd Hlat].
  split; [exact Hnd|].
  intros l1 p l2 Heq c Hc Hp. apply (Hlat l1 p l2 Heq). apply next_of_In. exists c. auto.
Qed.

(* property-language form: a presented change comes after every previous change of it that is presented *)
Corollary order_parents_first : forall S root rk,
  acyclic_by rk (view S root) ->
  forall c p, In c (view S root) -> In p (cprev c) -> In p (order S root) ->
  exists l1 l2 l3, order S root = l1 ++ p :: l2 ++ cid c :: l3 /\ ~ In (cid c) l1 /\ ~ In p (l2 ++ cid c :: l3).
Proof.
  intros S root rk Hac c p Hc Hp Hin.
  destruct (order_topological S root rk Hac) as [Hnd Hlat].
  apply in_split in Hin. destruct Hin as [l1 [l2' Heq]].
  pose proof (Hlat l1 p l2' Heq c Hc Hp) as Hy.
  apply in_split in Hy. destruct Hy as [l2 [l3 Heq2]].
  exists l1, l2, l3. subst l2'. split; [exact Heq|].
  rewrite Heq in Hnd. split.
  - intro H1. apply NoDup_remove_2 in Hnd.
    assert (Hdup : NoDup (l1 ++ l2 ++ cid c :: l3)).
    { rewrite Heq in *. clear Hnd. pose proof (order_topological S root rk Hac) as [Hnd' _]. rewrite Heq in Hnd'.
      apply NoDup_remove_1 in Hnd'. exact Hnd'. }
    rewrite app_assoc in Hdup. apply NoDup_remove_2 in Hdup. apply Hdup.
    rewrite <- app_assoc. apply in_or_app. left. exact H1.
  - apply NoDup_remove_2 in Hnd. intro H1. apply Hnd. apply in_or_app. right. exact H1.
Qed.

(* the root is presented, so the order is not empty; its last element has no Next entry (it is a head) *)
Theorem order_root_in : forall S root rk, acyclic_by rk (view S root) -> In root (order S root).
Proof.
  intros S root rk Hac.
  pose proof (order_opt_order S root) as Ho. unfold order_opt in Ho.
  assert (Hedge : forall p y, In y (next_of (view S root) p) -> rk p < rk y).
  { intros p y Hy. apply next_of_In in Hy. destruct Hy as [c [Hc [Hy Hp]]]. subst y. apply (Hac c p Hc Hp). }
  unfold dfs_fuel in Ho. rewrite Nat.add_1_r in Ho. cbn [dfs_loop dfs_init d_stack] in Ho.
  apply (dfs_loop_vis (next_of (view S root)) rk Hedge _ _ _
           (topo_inv_step _ rk Hedge _ (topo_inv_init _ _ root)) Ho).
  unfold dfs_step, dfs_init. cbn [d_stack d_bf d_vis mem existsb]. left. reflexivity.
Qed.

Theorem order_last_head : forall S root rk, acyclic_by rk (view S root) ->
  exists A0 x, order S root = A0 ++ [x] /\ next_of (view S root) x = [].
Proof.
  intros S root rk Hac.
  pose proof (order_root_in S root rk Hac) as Hin.
  destruct (order_topological S root rk Hac) as [_ Hlat].
  assert (Hne : order S root <> []) by (intro E; rewrite E in Hin; destruct Hin).
  destruct (exists_last Hne) as [A0 [x Hx]]. exists A0, x. split; [exact Hx|].
  destruct (next_of (view S root) x) as [|y r] eqn:E; [reflexivity|]. exfalso.
  assert (Hy : In y (next_of (view S root) x)) by (rewrite E; left; reflexivity).
  apply next_of_In in Hy. destruct Hy as [c [Hc [_ Hp]]].
  exact (Hlat A0 x [] Hx c Hc Hp).
Qed.
