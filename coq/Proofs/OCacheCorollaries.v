(* Property-language consequences of the invariant (OCacheProofs) and of the simulation (OCacheSim). *)
From Coq Require Import List NArith Bool Lia.
Import ListNotations.
From AnySync Require Import Model.OCache Proofs.OCacheProofs Proofs.OCacheSim Proofs.OCacheAccept.
Open Scope N_scope.

(* ---- every instance handed to a caller had finished loading (or was added) *)
Theorem returned_is_loaded : forall ls s t n,
  run fixed init ls = Some s -> threads s t = PRet (RVal n) ->
  exists r e, heap s r = Some e /\ e_value e = Some n /\ e_loaddone e = true /\ e_failed e = false.
Proof.
  intros ls s t n H Hpc. destruct (model_monitor _ _ H) as [m [Hm [S I]]].
  destruct (call_of _ _ t S) as [c [st [Hc [Hok _]]]]; [rewrite Hpc; discriminate|].
  rewrite Hpc in Hok. simpl in Hok. destruct Hok as [Hsh Hsem].
  assert (Hex : exists x, m_inst m n = Some x).
  { destruct c; simpl in Hsh; try discriminate; try contradiction; destruct Hsem as [[stt A] _]; eauto. }
  destruct Hex as [x Hx]. destruct (s_back _ _ S _ _ Hx) as [r [e [Hr Hv]]].
  exists r, e. repeat split; auto;
    (destruct (shape_nonloading_loaded e (i_shape _ I _ _ Hr)) as [[A B] _]; auto;
     intros Hl; destruct (i_shape _ I _ _ Hr) as [S1 _]; destruct (S1 Hl) as [X _]; congruence).
Qed.

(* ---- once the cache is shut down and every call has returned, no loaded instance is left open *)
Theorem none_left_open : forall ls s r e n,
  run fixed init ls = Some s -> closed s = true -> (forall t, threads s t = Idle) ->
  heap s r = Some e -> e_value e = Some n -> e_state e = SClosed.
Proof.
  intros ls s r e n H Hcl Hidle Hr Hv. destruct (model_monitor _ _ H) as [m [Hm [S I]]].
  pose proof (s_inst _ _ S _ _ _ Hr Hv) as R. unfold inst_rel in R.
  destruct (e_state e) eqn:Es; auto; try contradiction; exfalso.
  - assert (Hd : data s (e_id e) = Some r) by (eapply i_present; eauto; right; left; exact Es).
    destruct (s_cl _ _ S Hcl _ _ Hd) as [t Ht]. rewrite Hidle in Ht. contradiction.
  - destruct R as [t [O _]]. rewrite Hidle in O. discriminate.
Qed.

(* ---- no instance is closed twice: after Close() of n was entered, or TryClose() of n returned true,
        neither Close() nor TryClose() is ever entered for n again *)
Definition sealed (m : mon) (n : N) : Prop :=
  exists id st, m_inst m n = Some (id, st) /\ (st = IClosed \/ exists t, st = IInClose t).

Lemma sealed_step : forall m e m' n, sealed m n -> mon_step m e = Some m' -> sealed m' n.
Proof.
  intros m e m' n [id [st [A B]]] H.
  assert (K : m_inst m' n = Some (id, st) \/ m_inst m' n = Some (id, IClosed)).
  { unfold mon_step, mon_create in H. destruct e; simpl in H;
    repeat match type of H with
           | context [match ?x with _ => _ end] => destruct x eqn:?; try discriminate H
           | context [if ?x then _ else _] => destruct x eqn:?; try discriminate H
           end; inversion H; subst; clear H; simpl; unfold upd;
    repeat match goal with |- context [?a =? ?b] => destruct (N.eqb_spec a b); subst end;
    try (left; exact A);
    try (match goal with Hx : m_inst m ?k = _, Hy : m_inst m ?k = _ |- _ =>
           rewrite Hx in Hy; inversion Hy; subst; clear Hy end;
         destruct B as [B|[tb B]]; try discriminate B; try (inversion B; subst); auto). }
  destruct K as [K|K]; unfold sealed; [exists id, st; auto | exists id, IClosed; auto].
Qed.

Lemma sealed_run : forall evs m m' n, sealed m n -> mon_run m evs = Some m' -> sealed m' n.
Proof.
  induction evs as [|e evs IH]; simpl; intros m m' n Hs H.
  - inversion H; subst; auto.
  - destruct (mon_step m e) eqn:E; [|discriminate]. eapply IH; [eapply sealed_step; eauto | eauto].
Qed.

Lemma sealed_no_entry : forall evs m m' n t,
  sealed m n -> mon_run m evs = Some m' -> ~ In (ECloseEntry t n) evs /\ ~ In (ETryEntry t n) evs.
Proof.
  induction evs as [|e evs IH]; simpl; intros m m' n t Hs H; [tauto|].
  destruct (mon_step m e) eqn:E; [|discriminate].
  destruct (IH _ _ _ t (sealed_step _ _ _ _ Hs E) H) as [A B].
  destruct Hs as [id [st [X Y]]].
  split; intros [F|F]; auto; subst e; unfold mon_step in E; simpl in E; rewrite X in E;
    destruct Y as [Y|[ty Y]]; subst st; discriminate.
Qed.

Theorem no_double_close : forall ls s l1 l2 t n e,
  run fixed init ls = Some s -> obs s = l1 ++ e :: l2 ->
  (e = ECloseEntry t n \/ e = ECloseExit t n \/ e = ETryExit t n true) ->
  forall t', ~ In (ECloseEntry t' n) l2 /\ ~ In (ETryEntry t' n) l2.
Proof.
  intros ls s l1 l2 t n e H Hobs He t'. destruct (model_monitor _ _ H) as [m [Hm _]].
  rewrite Hobs in Hm. rewrite mon_run_app in Hm.
  destruct (mon_run mon0 l1) as [m1|] eqn:E1; [|discriminate]. simpl in Hm.
  destruct (mon_step m1 e) as [m2|] eqn:E2; [|discriminate].
  eapply sealed_no_entry; [| exact Hm].
  unfold mon_step in E2. destruct He as [He|[He|He]]; subst e; simpl in E2;
    repeat match type of E2 with
           | context [match ?x with _ => _ end] => destruct x eqn:?; try discriminate E2
           | context [if ?x then _ else _] => destruct x eqn:?; try discriminate E2
           end; inversion E2; subst; unfold sealed; simpl; unfold upd; rewrite N.eqb_refl; eauto 7.
Qed.

(* ---- a Get/Pick never returns an instance whose close had finished before the call started.
        In monitor terms: [m_call m t = Some (c, st)] records the clock st of the call's start event and
        [m_cend m n = Some ce] the clock of the close end of instance n (clock = index in the trace, see
        [mon_clock_length]). *)
Theorem no_stale_after_remove : forall ls s m t n c st,
  run fixed init ls = Some s -> mon_run mon0 (obs s) = Some m ->
  threads s t = PRet (RVal n) -> m_call m t = Some (c, st) ->
  forall ce, m_cend m n = Some ce -> st < ce.
Proof.
  intros ls s m t n c st H Hm Hpc Hc ce Hce.
  destruct (model_monitor _ _ H) as [m0 [Hm0 [S I]]]. rewrite Hm in Hm0. inversion Hm0; subst m0.
  pose proof (s_calls _ _ S t) as X. rewrite Hc in X. destruct X as [Hok _].
  rewrite Hpc in Hok. simpl in Hok. destruct Hok as [Hsh Hsem].
  destruct c; simpl in Hsh; try discriminate; try contradiction; destruct Hsem as [_ B]; eauto.
Qed.

Lemma mon_step_clock : forall m e m', mon_step m e = Some m' -> m_clock m' = m_clock m + 1.
Proof.
  intros m e m' H. unfold mon_step, mon_create in H. destruct e; simpl in H;
    repeat match type of H with
           | context [match ?x with _ => _ end] => destruct x eqn:?; try discriminate H
           | context [if ?x then _ else _] => destruct x eqn:?; try discriminate H
           end; inversion H; subst; reflexivity.
Qed.

Lemma mon_clock_length : forall evs m m', mon_run m evs = Some m' -> m_clock m' = m_clock m + N.of_nat (length evs).
Proof.
  induction evs as [|e evs IH]; simpl; intros m m' H.
  - inversion H; subst. lia.
  - destruct (mon_step m e) eqn:E; [|discriminate]. rewrite (IH _ _ H). rewrite (mon_step_clock _ _ _ E). lia.
Qed.

(* ---- what the correspondence check's acceptance means: an accepted observed trace satisfies the property *)
Theorem accepted_satisfies_spec : forall n steps, accept n steps = true -> spec_C16 (concat steps) = true.
Proof.
  intros n steps H. destruct (accept_sound _ _ H) as [ls [s [R [O _]]]].
  rewrite <- O. eapply model_satisfies_spec; eauto.
Qed.

Theorem fine_accepted_satisfies_spec : forall steps, accept_fine steps = true -> spec_C16 (fine_events steps) = true.
Proof.
  intros steps H. destruct (accept_fine_sound _ H) as [ls [s [R [O _]]]].
  rewrite <- O. eapply model_satisfies_spec; eauto.
Qed.
