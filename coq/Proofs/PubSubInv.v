(* C17 — serving side of Model/PubSub.v: the invariant "the three views of interest agree" and its
   preservation by every event.  Plain stdlib style.

   Views: (1) per-stream record  sv_streams[sid].ss_by[space] ∋ p   ([has]),
          (2) pool tag           (space, p) ∈ sv_pool[sid],
          (3) trie reference     the trie of [space] counts one reference to p per stream having it ([cnt]). *)
From Coq Require Import List NArith Bool Arith Lia.
Import ListNotations.
From AnySync Require Import Model.Trie Model.PubSub Proofs.TrieProofs Proofs.PubSubBase.

Definition st_has (st : sstream) (space : N) (p : str) : bool :=
  match nassoc space (ss_by st) with Some l => mem_str p l | None => false end.
Definition ohas (o : option sstream) (space : N) (p : str) : bool :=
  match o with Some st => st_has st space p | None => false end.
Definition has (s : svc) (sid space : N) (p : str) : bool := ohas (nassoc sid (sv_streams s)) space p.
Definition b2n (b : bool) : nat := if b then 1 else 0.
(* number of stream records holding p in space *)
Definition cnt (streams : list (N * sstream)) (space : N) (p : str) : N :=
  N.of_nat (wsum (fun st => b2n (st_has st space p)) streams).
Definition tot (by_ : list (N * list str)) : nat := wsum (@length str) by_.

Definition by_ok (st : sstream) : Prop :=
  NoDup (map fst (ss_by st))
  /\ (forall sp l, nassoc sp (ss_by st) = Some l ->
        l <> [] /\ NoDup l /\ forall p, In p l -> validate_pattern p = true)
  /\ ss_total st = N.of_nat (tot (ss_by st)).
Definition st_ok (st : sstream) : Prop := by_ok st /\ ss_by st <> [].

Definition space_ok (f : str -> N) (o : option trie) : Prop :=
  match o with
  | Some tr => trie_inv tr f /\ exists p, (0 < f p)%N
  | None => forall p, f p = 0%N
  end.

Record core (s : svc) : Prop := mkCore {
  c_nd_streams : NoDup (map fst (sv_streams s));
  c_nd_pool : NoDup (map fst (sv_pool s));
  c_rec : forall sid st, nassoc sid (sv_streams s) = Some st ->
            st_ok st /\ in_pool s sid = true /\ nassoc sid (sv_conns s) = Some (ss_account st);
  c_tags : forall sid tags, nassoc sid (sv_pool s) = Some tags ->
            NoDup tags /\ forall sp p, mem_tag (sp, p) tags = has s sid sp p;
  c_pool_conn : forall sid, in_pool s sid = true -> nassoc sid (sv_conns s) <> None
}.
Definition tries_ok (s : svc) : Prop :=
  forall sp, space_ok (cnt (sv_streams s) sp) (nassoc sp (sv_remote s)).
Definition Inv (s : svc) : Prop := core s /\ tries_ok s.

(* ------------------------------------------------------------------ small facts *)

Lemma st_has_empty : forall a sp p, st_has (mkSS a [] 0) sp p = false.
Proof. reflexivity. Qed.

Lemma cnt_nset : forall sid st' l sp p, NoDup (map fst l) ->
  (cnt (nset sid st' l) sp p + N.of_nat (b2n (ohas (nassoc sid l) sp p))
   = cnt l sp p + N.of_nat (b2n (st_has st' sp p)))%N.
Proof.
  intros. unfold cnt. pose proof (wsum_nset (fun st => b2n (st_has st sp p)) sid st' l H) as E.
  assert (E2 : ow (fun st => b2n (st_has st sp p)) (nassoc sid l) = b2n (ohas (nassoc sid l) sp p))
    by (destruct (nassoc sid l); reflexivity).
  rewrite E2 in E. lia.
Qed.

Lemma cnt_ndel : forall sid l sp p, NoDup (map fst l) ->
  (cnt (ndel sid l) sp p + N.of_nat (b2n (ohas (nassoc sid l) sp p)) = cnt l sp p)%N.
Proof.
  intros. unfold cnt. pose proof (wsum_ndel (fun st => b2n (st_has st sp p)) sid l H) as E.
  assert (E2 : ow (fun st => b2n (st_has st sp p)) (nassoc sid l) = b2n (ohas (nassoc sid l) sp p))
    by (destruct (nassoc sid l); reflexivity).
  rewrite E2 in E. lia.
Qed.

Lemma cnt_ge_has : forall sid st l sp p, nassoc sid l = Some st -> st_has st sp p = true -> (0 < cnt l sp p)%N.
Proof.
  intros sid st l sp p H1 H2. unfold cnt.
  pose proof (wsum_ge (fun st => b2n (st_has st sp p)) sid st l H1) as G. cbv beta in G. rewrite H2 in G. cbn [b2n] in G. lia.
Qed.

Lemma cnt_pos_has : forall l sp p, NoDup (map fst l) -> (0 < cnt l sp p)%N ->
  exists sid st, nassoc sid l = Some st /\ st_has st sp p = true.
Proof.
  intros l sp p ND H. unfold cnt in H.
  destruct (wsum_pos (fun st => b2n (st_has st sp p)) l ND) as (k & v & Hk & Hw); [lia|].
  exists k, v. split; auto. cbv beta in Hw. destruct (st_has v sp p); auto. cbn in Hw. lia.
Qed.

Lemma tot_zero_nil : forall st, by_ok st -> ss_total st = 0%N -> ss_by st = [].
Proof.
  intros st (ND & HL & HT) HZ. destruct (ss_by st) as [|[k l] r] eqn:E; auto. exfalso.
  destruct (HL k l) as (Hne & _ & _). { cbn [nassoc]. rewrite N.eqb_refl. reflexivity. }
  rewrite HZ in HT. unfold tot in HT. cbn [wsum snd] in HT. destruct l; [congruence|]. cbn [length] in HT. lia.
Qed.

Lemma st_ok_total : forall st, st_ok st -> ss_total st <> 0%N.
Proof. intros st [HB HN] HZ. apply HN. apply tot_zero_nil; auto. Qed.

Lemma st_has_nil : forall st sp p, ss_by st = [] -> st_has st sp p = false.
Proof. intros st sp p H. unfold st_has. rewrite H. reflexivity. Qed.

Lemma ss_eta : forall st, mkSS (ss_account st) (ss_by st) (ss_total st) = st.
Proof. intros []. reflexivity. Qed.

(* prune_space / prune_stream *)
Lemma trie_inv_len_pos : forall t f, trie_inv t f -> trie_len t <> 0%N -> exists p, (0 < f p)%N.
Proof.
  intros t f (_ & _ & L & [ND HL] & HS) HN. unfold trie_len in HN. destruct L as [|x L]; [cbn in HS; congruence|].
  exists x. apply HL. left. reflexivity.
Qed.

Lemma prune_space_ok : forall rem sp tr f, trie_inv tr f -> space_ok f (nassoc sp (prune_space rem sp tr)).
Proof.
  intros rem sp tr f H. unfold prune_space. destruct (N.eqb (trie_len tr) 0) eqn:E.
  - rewrite nassoc_ndel_same. apply N.eqb_eq in E. cbn [space_ok]. apply (proj1 (trie_inv_len0 _ _ H)). exact E.
  - rewrite nassoc_nset_same. split; auto. apply N.eqb_neq in E. eapply trie_inv_len_pos; eauto.
Qed.

Lemma prune_space_other : forall rem sp sp' tr, sp <> sp' ->
  nassoc sp' (prune_space rem sp tr) = nassoc sp' rem.
Proof.
  intros. unfold prune_space. destruct (N.eqb (trie_len tr) 0);
    [apply nassoc_ndel_other|apply nassoc_nset_other]; auto.
Qed.

Lemma prune_stream_same : forall strs sid st,
  nassoc sid (prune_stream strs sid st) = if N.eqb (ss_total st) 0 then None else Some st.
Proof.
  intros. unfold prune_stream. destruct (N.eqb (ss_total st) 0);
    [apply nassoc_ndel_same|apply nassoc_nset_same].
Qed.

Lemma prune_stream_other : forall strs sid sid' st, sid <> sid' ->
  nassoc sid' (prune_stream strs sid st) = nassoc sid' strs.
Proof.
  intros. unfold prune_stream. destruct (N.eqb (ss_total st) 0);
    [apply nassoc_ndel_other|apply nassoc_nset_other]; auto.
Qed.

Lemma prune_stream_nodup : forall strs sid st, NoDup (map fst strs) -> NoDup (map fst (prune_stream strs sid st)).
Proof.
  intros. unfold prune_stream. destruct (N.eqb (ss_total st) 0); [apply nodup_ndel|apply nodup_nset]; auto.
Qed.

Lemma cnt_prune_stream : forall strs sid st sp p, NoDup (map fst strs) -> by_ok st ->
  (cnt (prune_stream strs sid st) sp p + N.of_nat (b2n (ohas (nassoc sid strs) sp p))
   = cnt strs sp p + N.of_nat (b2n (st_has st sp p)))%N.
Proof.
  intros strs sid st sp p ND HB. unfold prune_stream. destruct (N.eqb (ss_total st) 0) eqn:E.
  - apply N.eqb_eq in E. rewrite (st_has_nil st sp p (tot_zero_nil st HB E)). cbn [b2n].
    pose proof (cnt_ndel sid strs sp p ND). lia.
  - apply cnt_nset. exact ND.
Qed.

Lemma pool_remove_tags_same : forall pool sid gone,
  nassoc sid (pool_remove_tags pool sid gone)
  = match nassoc sid pool with Some tags => Some (remove_tags tags gone) | None => None end.
Proof.
  intros. unfold pool_remove_tags. destruct (nassoc sid pool) eqn:E; [apply nassoc_nset_same|exact E].
Qed.

Lemma pool_remove_tags_other : forall pool sid sid' gone, sid <> sid' ->
  nassoc sid' (pool_remove_tags pool sid gone) = nassoc sid' pool.
Proof.
  intros. unfold pool_remove_tags. destruct (nassoc sid pool); [apply nassoc_nset_other; auto|reflexivity].
Qed.

Lemma pool_remove_tags_nodup : forall pool sid gone, NoDup (map fst pool) ->
  NoDup (map fst (pool_remove_tags pool sid gone)).
Proof. intros. unfold pool_remove_tags. destruct (nassoc sid pool); [apply nodup_nset|]; auto. Qed.

(* by-map updates *)
Lemma tot_nset : forall sp l by_, NoDup (map fst by_) ->
  tot (nset sp l by_) + length (match nassoc sp by_ with Some x => x | None => [] end) = tot by_ + length l.
Proof.
  intros. unfold tot. pose proof (wsum_nset (@length str) sp l by_ H) as E.
  destruct (nassoc sp by_); cbn [ow length] in *; lia.
Qed.

Lemma tot_ndel : forall sp by_, NoDup (map fst by_) ->
  tot (ndel sp by_) + length (match nassoc sp by_ with Some x => x | None => [] end) = tot by_.
Proof.
  intros. unfold tot. pose proof (wsum_ndel (@length str) sp by_ H) as E.
  destruct (nassoc sp by_); cbn [ow length] in *; lia.
Qed.

(* ------------------------------------------------------------------ removeStreamPattern and its loop *)

Lemma remove_stream_pattern_spec : forall st tr space p st' tr' b f,
  by_ok st -> trie_inv tr f ->
  remove_stream_pattern st tr space p = (st', tr', b) ->
  by_ok st' /\ ss_account st' = ss_account st
  /\ b = st_has st space p
  /\ (forall sp0 q, st_has st' sp0 q = st_has st sp0 q && negb (N.eqb sp0 space && str_eqb q p))
  /\ trie_inv tr' (fun q => if str_eqb q p && st_has st space p then N.pred (f q) else f q).
Proof.
  intros st tr space p st' tr' b f HB HT E. unfold remove_stream_pattern in E.
  assert (Same : st' = st -> tr' = tr -> b = false -> st_has st space p = false ->
          by_ok st' /\ ss_account st' = ss_account st /\ b = st_has st space p
          /\ (forall sp0 q, st_has st' sp0 q = st_has st sp0 q && negb (N.eqb sp0 space && str_eqb q p))
          /\ trie_inv tr' (fun q => if str_eqb q p && st_has st space p then N.pred (f q) else f q)).
  { intros -> -> -> Hh. split; [exact HB|split; [reflexivity|split; [symmetry; exact Hh|split]]].
    - intros sp0 q. destruct (N.eqb sp0 space) eqn:E1; cbn [andb negb]; [|rewrite andb_true_r; reflexivity].
      destruct (str_eqb q p) eqn:E2; cbn [negb]; [|rewrite andb_true_r; reflexivity].
      apply N.eqb_eq in E1. apply str_eqb_eq in E2. subst. rewrite Hh. reflexivity.
    - eapply trie_inv_ext; [exact HT|]. intros q. rewrite Hh, andb_false_r. reflexivity. }
  destruct (nassoc space (ss_by st)) as [pats|] eqn:EN.
  2:{ inversion E; subst. apply Same; auto. unfold st_has. rewrite EN. reflexivity. }
  destruct (mem_str p pats) eqn:EM.
  2:{ inversion E; subst. apply Same; auto. unfold st_has. rewrite EN. exact EM. }
  inversion E; subst st' tr' b; clear E Same.
  destruct HB as (ND & HL & HTot). destruct (HL space pats EN) as (Hne & NDp & Hval).
  assert (Hin : In p pats) by (apply mem_str_in; exact EM).
  assert (Hh : st_has st space p = true) by (unfold st_has; rewrite EN; exact EM).
  assert (Hlen : length (del_str p pats) = pred (length pats)) by (apply length_del_str; auto).
  assert (Hpos : 0 < length pats) by (destruct pats; [contradiction|cbn; lia]).
  split; [|split; [reflexivity|split; [symmetry; exact Hh|split]]].
  - (* by_ok *)
    unfold by_ok. cbn [ss_by ss_total]. destruct (is_nil (del_str p pats)) eqn:ENil.
    + split; [apply nodup_ndel; exact ND|split].
      * intros sp l Hl. destruct (N.eq_dec space sp) as [->|Hne2]; [rewrite nassoc_ndel_same in Hl; discriminate|].
        rewrite nassoc_ndel_other in Hl by exact Hne2. apply (HL sp l Hl).
      * pose proof (tot_ndel space (ss_by st) ND) as Et. rewrite EN in Et.
        destruct (del_str p pats); [|discriminate]. cbn [length] in Hlen. rewrite HTot. lia.
    + split; [apply nodup_nset; exact ND|split].
      * intros sp l Hl. destruct (N.eq_dec space sp) as [->|Hne2].
        { rewrite nassoc_nset_same in Hl. inversion Hl; subst l. split; [|split].
          - intros Hz. rewrite Hz in ENil. discriminate.
          - apply nodup_del_str. exact NDp.
          - intros q Hq. apply in_del_str in Hq. apply Hval. apply Hq. }
        rewrite nassoc_nset_other in Hl by exact Hne2. apply (HL sp l Hl).
      * pose proof (tot_nset space (del_str p pats) (ss_by st) ND) as Et. rewrite EN in Et. rewrite HTot. lia.
  - (* st_has *)
    intros sp0 q. unfold st_has at 1. cbn [ss_by].
    destruct (N.eqb sp0 space) eqn:E1.
    + apply N.eqb_eq in E1. subst sp0. cbn [andb]. unfold st_has. rewrite EN.
      destruct (is_nil (del_str p pats)) eqn:ENil.
      * rewrite nassoc_ndel_same. destruct (del_str p pats) eqn:ED; [|discriminate].
        pose proof (mem_del_str p q pats) as M. rewrite ED in M. cbn [mem_str] in M. exact M.
      * rewrite nassoc_nset_same. apply mem_del_str.
    + apply N.eqb_neq in E1. cbn [andb negb]. rewrite andb_true_r. unfold st_has.
      destruct (is_nil (del_str p pats)); [rewrite nassoc_ndel_other by congruence|rewrite nassoc_nset_other by congruence]; reflexivity.
  - eapply trie_inv_ext; [apply trie_inv_remove; exact HT|]. intros q. cbv beta. rewrite Hh, andb_true_r. reflexivity.
Qed.

Lemma remove_patterns_spec : forall space ps st tr removed st' tr' removed' f,
  by_ok st -> trie_inv tr f ->
  remove_patterns st tr space ps removed = (st', tr', removed') ->
  by_ok st' /\ ss_account st' = ss_account st
  /\ (forall sp0 q, st_has st' sp0 q = st_has st sp0 q && negb (N.eqb sp0 space && mem_str q ps))
  /\ trie_inv tr' (fun q => (f q - N.of_nat (b2n (st_has st space q && mem_str q ps)))%N)
  /\ (forall q, mem_str q removed' = mem_str q removed || (st_has st space q && mem_str q ps)).
Proof.
  intros space ps. induction ps as [|p ps IH]; intros st tr removed st' tr' removed' f HB HT E; cbn [remove_patterns] in E.
  - inversion E; subst. split; [exact HB|split; [reflexivity|split; [|split]]].
    + intros. cbn [mem_str]. rewrite andb_false_r. cbn [negb]. rewrite andb_true_r. reflexivity.
    + eapply trie_inv_ext; [exact HT|]. intros q. cbn [mem_str]. rewrite andb_false_r. cbn [b2n]. lia.
    + intros. cbn [mem_str]. rewrite andb_false_r, orb_false_r. reflexivity.
  - destruct (remove_stream_pattern st tr space p) as [[st1 tr1] b] eqn:E1.
    destruct (remove_stream_pattern_spec _ _ _ _ _ _ _ f HB HT E1) as (HB1 & HA1 & Hb & Hh1 & HT1).
    destruct (IH _ _ _ _ _ _ _ HB1 HT1 E) as (HB' & HA' & Hh' & HT' & HR').
    split; [exact HB'|split; [congruence|split; [|split]]].
    + intros sp0 q. rewrite Hh', Hh1. cbn [mem_str]. destruct (st_has st sp0 q), (N.eqb sp0 space), (str_eqb q p), (mem_str q ps); reflexivity.
    + eapply trie_inv_ext; [exact HT'|]. intros q. cbv beta. rewrite Hh1, N.eqb_refl. cbn [mem_str andb].
      destruct (str_eqb q p) eqn:Eq.
      * apply str_eqb_eq in Eq. subst q. rewrite ?str_eqb_refl. cbn [negb andb orb]. rewrite ?andb_false_r.
        destruct (st_has st space p); cbn [b2n andb]; lia.
      * cbn [negb andb orb]. rewrite andb_true_r. reflexivity.
    + intros q. rewrite HR'. rewrite Hh1, N.eqb_refl. cbn [andb mem_str].
      assert (Em : mem_str q (if b then removed ++ [p] else removed) = mem_str q removed || (b && str_eqb q p)).
      { destruct b; [|rewrite orb_false_r; reflexivity]. rewrite mem_str_app. cbn [mem_str andb]. rewrite orb_false_r. reflexivity. }
      rewrite Em, Hb. destruct (str_eqb q p) eqn:Eq.
      * apply str_eqb_eq in Eq. subst q. destruct (mem_str p removed), (st_has st space p), (mem_str p ps); reflexivity.
      * destruct (mem_str q removed), (st_has st space p), (st_has st space q), (mem_str q ps); reflexivity.
Qed.
