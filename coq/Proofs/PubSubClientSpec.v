(* The client receive chain model satisfies the declarative predicate spec_C17_client (C17, part 4). *)
From Coq Require Import List NArith ZArith Bool Arith Lia ZifyBool ZifyNat ZifyN.
Import ListNotations.
From AnySync Require Import Model.Trie Model.PubSubClient Proofs.TrieProofs Proofs.TrieValidate Proofs.PubSubClient.

(* ------------------------------------------------------------------ trie facts from the invariant *)

Lemma trie_inv_ext : forall t f g, (forall p, f p = g p) -> trie_inv t f -> trie_inv t g.
Proof.
  intros t f g E ([I1 I2] & HD & L & [ND HL] & HS). split; [split|split].
  - intros p. rewrite I1. apply E.
  - exact I2.
  - exact HD.
  - exists L. split; [split; [exact ND|]|exact HS]. intros p. rewrite HL, E. reflexivity.
Qed.

Lemma trie_inv_match : forall t f topic, trie_inv t f ->
  NoDup (trie_match t topic)
  /\ forall p, In p (trie_match t topic) <->
       ((0 < f p)%N /\ matches (split_topic p) (split_topic topic) = true).
Proof.
  intros t f topic (HA & _ & _). split.
  - unfold trie_match. apply match_level_nodup. eapply abs_inv_inj; eauto.
  - intros p. unfold trie_match. rewrite match_level_spec. destruct HA as [I1 I2]. split.
    + intros (pi & Hne & Hl & Hp & Hm). pose proof (I2 pi Hl) as E. rewrite Hp in E. subst pi.
      rewrite I1 in Hl. auto.
    + intros [Hl Hm]. exists (split_topic p). split; [apply split_topic_nonempty|].
      rewrite <- I1 in Hl. repeat split; auto.
      apply split_topic_inj. apply I2. exact Hl.
Qed.

Lemma trie_inv_len0 : forall t f, trie_inv t f -> trie_len t = 0%N -> forall p, f p = 0%N.
Proof.
  intros t f (_ & _ & L & [ND HL] & HS) H0 p. unfold trie_len in H0. rewrite HS in H0.
  destruct L as [|x L]; [|cbn in H0; lia].
  destruct (N.eq_dec (f p) 0) as [E|E]; [exact E|]. assert (F : In p []) by (apply HL; lia). contradiction.
Qed.

(* ------------------------------------------------------------------ association lists *)

Lemma assoc_in_keys : forall {V} k (l : list (str * V)), In k (map fst l) <-> assoc k l <> None.
Proof.
  intros V k l. induction l as [|[k' v] l IH]; cbn [map fst In assoc]; [split; [contradiction|congruence]|].
  destruct (str_eqb k k') eqn:E.
  - apply str_eqb_eq in E. subst. split; [discriminate|auto].
  - apply str_eqb_neq in E. rewrite <- IH. split; [intros [H|H]; [congruence|exact H]|auto].
Qed.

Lemma keys_set_kv : forall {V} k (v : V) l x, In x (map fst (set_kv k v l)) <-> x = k \/ In x (map fst l).
Proof.
  intros V k v l x. rewrite !assoc_in_keys. destruct (str_eq_dec k x) as [E|E].
  - subst. rewrite assoc_set_same. split; [auto|discriminate].
  - rewrite assoc_set_other by exact E. split; [auto|]. intros [H|H]; [congruence|exact H].
Qed.

Lemma nodup_set_kv : forall {V} k (v : V) l, NoDup (map fst l) -> NoDup (map fst (set_kv k v l)).
Proof.
  intros V k v l. induction l as [|[k' v'] l IH]; intros ND; cbn [set_kv].
  - cbn. constructor; [intros []|constructor].
  - cbn [map fst] in ND. inversion ND as [|? ? Hn ND']; subst. destruct (str_eqb k k') eqn:E.
    + apply str_eqb_eq in E. subst. cbn [map fst]. constructor; assumption.
    + apply str_eqb_neq in E. cbn [map fst]. constructor; [|apply IH; exact ND'].
      rewrite keys_set_kv. intros [H|H]; [congruence|contradiction].
Qed.

Lemma keys_del_k : forall {V} k (l : list (str * V)) x, In x (map fst (del_k k l)) <-> x <> k /\ In x (map fst l).
Proof.
  intros V k l x. rewrite !assoc_in_keys. destruct (str_eq_dec k x) as [E|E].
  - subst. rewrite assoc_del_same. split; [congruence|intros [H _]; congruence].
  - rewrite assoc_del_other by exact E. split; [intros H; split; [congruence|exact H]|intros [_ H]; exact H].
Qed.

Lemma nodup_del_k : forall {V} k (l : list (str * V)), NoDup (map fst l) -> NoDup (map fst (del_k k l)).
Proof.
  intros V k l. induction l as [|[k' v'] l IH]; intros ND; cbn [del_k]; [constructor|].
  cbn [map fst] in ND. inversion ND as [|? ? Hn ND']; subst. destruct (str_eqb k k').
  - apply IH. exact ND'.
  - cbn [map fst]. constructor; [|apply IH; exact ND'].
    rewrite keys_del_k. intros [_ H]. contradiction.
Qed.

Lemma nodup_same_length : forall (a b : list str),
  NoDup a -> NoDup b -> (forall x, In x a <-> In x b) -> length a = length b.
Proof.
  intros a b Na Nb H. apply Nat.le_antisymm; apply NoDup_incl_length; auto; intros x Hx; apply H; exact Hx.
Qed.

(* ------------------------------------------------------------------ the spec's multiset of subscriptions *)

Lemma sp_eqb_eq : forall a b, sp_eqb a b = true <-> a = b.
Proof.
  intros [a1 a2] [b1 b2]. unfold sp_eqb. cbn [fst snd]. rewrite andb_true_iff, !str_eqb_eq.
  split; [intros [? ?]; subst; reflexivity|intros E; inversion E; auto].
Qed.

Lemma sp_eqb_refl : forall a, sp_eqb a a = true.
Proof. intros a. apply sp_eqb_eq. reflexivity. Qed.

Lemma sp_eqb_neq : forall a b, a <> b -> sp_eqb a b = false.
Proof. intros a b H. destruct (sp_eqb a b) eqn:E; [apply sp_eqb_eq in E; contradiction|reflexivity]. Qed.

Lemma sp_count_remove1_same : forall x l, sp_count x (sp_remove1 x l) = pred (sp_count x l).
Proof.
  intros x l. induction l as [|y l IH]; cbn [sp_remove1 sp_count]; [reflexivity|].
  destruct (sp_eqb x y) eqn:E; [cbn; reflexivity|]. cbn [sp_count]. rewrite E. cbn. exact IH.
Qed.

Lemma sp_count_remove1_other : forall x y l, x <> y -> sp_count y (sp_remove1 x l) = sp_count y l.
Proof.
  intros x y l Hne. induction l as [|z l IH]; cbn [sp_remove1 sp_count]; [reflexivity|].
  destruct (sp_eqb x z) eqn:E.
  - apply sp_eqb_eq in E. subst z. rewrite (sp_eqb_neq y x) by congruence. reflexivity.
  - cbn [sp_count]. rewrite IH. reflexivity.
Qed.

Lemma sp_remove1_absent : forall x l, sp_count x l = 0 -> sp_remove1 x l = l.
Proof.
  intros x l. induction l as [|y l IH]; cbn [sp_remove1 sp_count]; [reflexivity|].
  destruct (sp_eqb x y); [discriminate|]. cbn. intros H. rewrite IH by exact H. reflexivity.
Qed.

Lemma sp_remove1_incl : forall x y l, In y (sp_remove1 x l) -> In y l.
Proof.
  intros x y l. induction l as [|z l IH]; cbn [sp_remove1]; [auto|].
  destruct (sp_eqb x z); [intros H; right; exact H|]. intros [H|H]; [left; exact H|right; apply IH; exact H].
Qed.

Lemma sp_count_pos_in : forall s p l,
  0 < sp_count (s, p) l <-> In p (map snd (filter (fun e => str_eqb s (fst e)) l)).
Proof.
  intros s p l. induction l as [|[s' p'] l IH]; cbn [sp_count filter map]; [split; [lia|contradiction]|].
  unfold sp_eqb at 1. cbn [fst snd]. destruct (str_eqb s s') eqn:Es; cbn [andb map snd In].
  - destruct (str_eqb p p') eqn:Ep.
    + apply str_eqb_eq in Ep. subst. split; [auto|lia].
    + apply str_eqb_neq in Ep. cbn. rewrite IH. split; [auto|intros [H|H]; [congruence|exact H]].
  - cbn. exact IH.
Qed.

Lemma in_dedup_str : forall x l, In x (dedup_str l) <-> In x l.
Proof.
  intros x l. induction l as [|y l IH]; cbn [dedup_str]; [tauto|].
  destruct (mem_str y l) eqn:E.
  - rewrite IH. cbn [In]. split; [auto|]. intros [H|H]; [subst; apply mem_str_In; exact E|exact H].
  - cbn [In]. rewrite IH. tauto.
Qed.

Lemma nodup_dedup_str : forall l, NoDup (dedup_str l).
Proof.
  induction l as [|y l IH]; cbn [dedup_str]; [constructor|].
  destruct (mem_str y l) eqn:E; [exact IH|]. constructor; [|exact IH].
  rewrite in_dedup_str, <- mem_str_In. congruence.
Qed.

Lemma in_space_patterns : forall ss s p, In p (space_patterns ss s) <-> 0 < sp_count (s, p) (s_subs ss).
Proof. intros ss s p. unfold space_patterns. rewrite in_dedup_str, sp_count_pos_in. reflexivity. Qed.

(* ------------------------------------------------------------------ counting handler invocations *)

Lemma str_count_app : forall x a b, str_count x (a ++ b) = str_count x a + str_count x b.
Proof. intros x a b. induction a as [|y a IH]; cbn [app str_count]; [reflexivity|]. rewrite IH. lia. Qed.

Lemma str_count_repeat : forall x y k, str_count x (repeat y k) = if str_eqb x y then k else 0.
Proof.
  intros x y k. induction k as [|k IH]; cbn [repeat str_count]; [destruct (str_eqb x y); reflexivity|].
  rewrite IH. destruct (str_eqb x y); reflexivity.
Qed.

Lemma str_count_flat : forall (g : str -> nat) x M,
  NoDup M -> str_count x (flat_map (fun p => repeat p (g p)) M) = if mem_str x M then g x else 0.
Proof.
  intros g x M ND. induction ND as [|y M Hn ND IH]; cbn [flat_map mem_str]; [reflexivity|].
  rewrite str_count_app, str_count_repeat, IH. destruct (str_eqb x y) eqn:E; cbn [orb].
  - apply str_eqb_eq in E. subst y.
    destruct (mem_str x M) eqn:EM; [apply mem_str_In in EM; contradiction|lia].
  - reflexivity.
Qed.

(* ------------------------------------------------------------------ the simulation relation *)

Definition live_fn (ps : list (str * N)) : str -> N :=
  fun p => if N.ltb 0 (count_of ps p) then 1%N else 0%N.

Record sim (c : ccfg) (st : cstate) (ss : sst) : Prop := mkSim {
  sim_keys : forall s, NoDup (map fst (subs_of st s));
  sim_pos : forall s p n, assoc p (subs_of st s) = Some n -> (0 < n)%N;
  sim_cnt : forall s p, count_of (subs_of st s) p = N.of_nat (sp_count (s, p) (s_subs ss));
  sim_trie : forall s, match assoc s (c_tries st) with
                       | Some t => trie_inv t (live_fn (subs_of st s))
                       | None => subs_of st s = []
                       end;
  sim_valid : forall s p, In (s, p) (s_subs ss) -> validate_pattern p = true;
  sim_mem : c_members st = s_members ss;
  sim_ring : ring_inv (N.to_nat (cc_ring c)) (c_ring st) (s_rec ss) }.

Lemma sim_init : forall c, (0 < cc_ring c)%N -> sim c (cinit c) sinit.
Proof.
  intros c H. constructor; cbn; try (intros; reflexivity); try (intros; contradiction).
  - intros s. constructor.
  - intros s p n F. discriminate.
  - apply ring_inv_new. lia.
Qed.

Lemma sp_count_pos_In : forall x l, 0 < sp_count x l -> In x l.
Proof.
  intros x l. induction l as [|y l IH]; cbn [sp_count]; [lia|].
  destruct (sp_eqb x y) eqn:E; [apply sp_eqb_eq in E; subst; left; reflexivity|].
  cbn. intros H. right. apply IH. exact H.
Qed.

(* local interest: Match on the local trie = the live subscriptions matching by the rule *)
Lemma local_match_exact : forall c st ss s topic,
  sim c st ss -> validate_topic topic = true ->
  NoDup (local_match st s topic)
  /\ forall p, In p (local_match st s topic) <->
       (0 < sp_count (s, p) (s_subs ss) /\ spec_matches p topic = true).
Proof.
  intros c st ss s topic HS HT. unfold local_match. pose proof (sim_trie _ _ _ HS s) as HTr.
  destruct (assoc s (c_tries st)) as [t|].
  - destruct (trie_inv_match t _ topic HTr) as [ND HM]. split; [exact ND|]. intros p. rewrite HM.
    unfold live_fn. rewrite (sim_cnt _ _ _ HS). unfold spec_matches. rewrite <- (valid_topic_split topic HT).
    split.
    + intros [H1 H2]. assert (Hc : 0 < sp_count (s, p) (s_subs ss)).
      { destruct (N.ltb 0 (N.of_nat (sp_count (s, p) (s_subs ss)))) eqn:E; [apply N.ltb_lt in E; lia|lia]. }
      split; [exact Hc|]. rewrite <- (valid_pattern_split p); [exact H2|].
      apply (sim_valid _ _ _ HS s p). apply sp_count_pos_In. exact Hc.
    + intros [Hc H2]. split.
      * destruct (N.ltb 0 (N.of_nat (sp_count (s, p) (s_subs ss)))) eqn:E; [lia|apply N.ltb_ge in E; lia].
      * rewrite (valid_pattern_split p); [exact H2|].
        apply (sim_valid _ _ _ HS s p). apply sp_count_pos_In. exact Hc.
  - split; [constructor|]. intros p. cbn [In]. split; [contradiction|]. intros [Hc _].
    pose proof (sim_cnt _ _ _ HS s p) as E. rewrite HTr in E. cbn in E. lia.
Qed.

Lemma has_interest_match : forall c st ss s topic,
  sim c st ss -> validate_topic topic = true ->
  is_nil (local_match st s topic) = negb (has_interest ss s topic).
Proof.
  intros c st ss s topic HS HT. destruct (local_match_exact c st ss s topic HS HT) as [_ HM].
  unfold has_interest. destruct (existsb (fun p => spec_matches p topic) (space_patterns ss s)) eqn:E; cbn [negb].
  - apply existsb_exists in E. destruct E as (p & Hp & Hm). apply in_space_patterns in Hp.
    assert (F : In p (local_match st s topic)) by (apply HM; auto).
    destruct (local_match st s topic); [contradiction|reflexivity].
  - destruct (local_match st s topic) as [|p M] eqn:EL; [reflexivity|]. exfalso.
    assert (F : In p (p :: M)) by (left; reflexivity). apply HM in F. destruct F as [Hc Hm].
    assert (T : existsb (fun p => spec_matches p topic) (space_patterns ss s) = true).
    { apply existsb_exists. exists p. split; [apply in_space_patterns; exact Hc|exact Hm]. }
    congruence.
Qed.

Lemma exact_delivery_model : forall c st ss s topic,
  sim c st ss -> validate_topic topic = true ->
  exact_delivery ss s topic (invoked st s (local_match st s topic)) = true.
Proof.
  intros c st ss s topic HS HT. destruct (local_match_exact c st ss s topic HS HT) as [ND HM].
  unfold exact_delivery, invoked. apply andb_true_iff. split.
  - apply forallb_forall. intros p Hp. apply in_space_patterns in Hp. apply Nat.eqb_eq.
    rewrite (str_count_flat (fun p => N.to_nat (count_of (subs_of st s) p)) p _ ND).
    rewrite (sim_cnt _ _ _ HS), Nat2N.id.
    destruct (spec_matches p topic) eqn:Em.
    + assert (F : In p (local_match st s topic)) by (apply HM; auto). apply mem_str_In in F. rewrite F. reflexivity.
    + destruct (mem_str p (local_match st s topic)) eqn:F; [|reflexivity].
      apply mem_str_In, HM in F. destruct F as [_ F]. congruence.
  - apply forallb_forall. intros x Hx. apply in_flat_map in Hx. destruct Hx as (q & Hq & Hx).
    apply repeat_spec in Hx. subst x. apply mem_str_In, in_space_patterns. apply HM. exact Hq.
Qed.

Lemma stale_fresh : forall c now ts, negb (is_stale now ts (cc_skew c)) = fresh_ts c now ts.
Proof.
  intros c now ts. unfold is_stale, fresh_ts. destruct (Z.eqb ts 0); cbn [negb orb]; [reflexivity|].
  rewrite negb_orb, !Z.ltb_antisym, !negb_involutive. reflexivity.
Qed.

Lemma passes_acceptable : forall c st ss now m,
  sim c st ss -> passes_b c st now m = acceptable c ss now m.
Proof.
  intros c st ss now m HS. unfold passes_b, acceptable, well_formed. rewrite validate_topic_iff.
  destruct (Nat.eqb (length (m_id m)) msg_id_len); cbn [andb]; [|reflexivity].
  destruct (N.leb (N.of_nat (length (m_payload m))) (cc_maxpay c)); cbn [andb]; [|reflexivity].
  destruct (spec_valid_topic (m_topic m)) eqn:EV; cbn [andb]; [|reflexivity].
  rewrite <- validate_topic_iff in EV.
  rewrite (has_interest_match c st ss _ _ HS EV), negb_involutive.
  destruct (has_interest ss (m_space m) (m_topic m)); cbn [andb]; [|reflexivity].
  unfold authorized, genuine. destruct (m_ident m) as [k|]; [|reflexivity].
  unfold is_member. rewrite (sim_mem _ _ _ HS), stale_fresh.
  destruct (m_sig m) as [k' d|j]; cbn [verify]; [reflexivity|].
  rewrite !andb_false_r. reflexivity.
Qed.

Lemma wf_test : forall c m,
  negb (Nat.eqb (length (m_id m)) msg_id_len) || N.ltb (cc_maxpay c) (N.of_nat (length (m_payload m)))
  = negb (well_formed c m).
Proof. intros c m. unfold well_formed. rewrite negb_andb, N.ltb_antisym. reflexivity. Qed.

(* a well-formed message on a valid topic that fails a later check: silently dropped, state untouched *)
Lemma receive_rejects : forall c st now m,
  well_formed c m = true -> validate_topic (m_topic m) = true -> passes_b c st now m = false ->
  exists v, receive c st now m = (st, v) /\ forall st', obs_of_verdict st' m v = ORecv None [].
Proof.
  intros c st now m HW HV H. unfold receive. rewrite wf_test, HW, HV. cbn [negb].
  unfold passes_b in H. unfold well_formed in HW. rewrite HW, HV in H. cbn [andb] in H.
  destruct (is_nil (local_match st (m_space m) (m_topic m))); cbn [negb andb] in *; [eexists; split; [reflexivity|reflexivity]|].
  destruct (m_ident m) as [k|]; [|eexists; split; reflexivity].
  destruct (is_member st (m_space m) k); cbn [negb andb] in *; [|eexists; split; reflexivity].
  destruct (is_nil (topic_owner (m_topic m))); cbn [negb andb orb] in *.
  - destruct (is_stale now (m_ts m) (cc_skew c)); cbn [negb andb] in *; [eexists; split; reflexivity|].
    rewrite H. cbn [negb]. eexists; split; reflexivity.
  - destruct (str_eqb (account_name c k) (topic_owner (m_topic m))); cbn [negb andb] in *; [|eexists; split; reflexivity].
    destruct (is_stale now (m_ts m) (cc_skew c)); cbn [negb andb] in *; [eexists; split; reflexivity|].
    rewrite H. cbn [negb]. eexists; split; reflexivity.
Qed.

(* ------------------------------------------------------------------ table updates *)

Lemma count_set_same : forall p v ps, count_of (set_kv p v ps) p = v.
Proof. intros. unfold count_of. rewrite assoc_set_same. reflexivity. Qed.
Lemma count_set_other : forall p q v ps, p <> q -> count_of (set_kv p v ps) q = count_of ps q.
Proof. intros. unfold count_of. rewrite assoc_set_other by assumption. reflexivity. Qed.
Lemma count_del_same : forall p ps, count_of (del_k p ps) p = 0%N.
Proof. intros. unfold count_of. rewrite assoc_del_same. reflexivity. Qed.
Lemma count_del_other : forall p q ps, p <> q -> count_of (del_k p ps) q = count_of ps q.
Proof. intros. unfold count_of. rewrite assoc_del_other by assumption. reflexivity. Qed.

Lemma subs_set_same : forall T S M R s v, subs_of (mkC T (set_kv s v S) M R) s = v.
Proof. intros. unfold subs_of. cbn [c_subs]. rewrite assoc_set_same. reflexivity. Qed.
Lemma subs_set_other : forall T M R st s v s', s <> s' -> subs_of (mkC T (set_kv s v (c_subs st)) M R) s' = subs_of st s'.
Proof. intros. unfold subs_of. cbn [c_subs]. rewrite assoc_set_other by assumption. reflexivity. Qed.
Lemma subs_del_same : forall T S M R s, subs_of (mkC T (del_k s S) M R) s = [].
Proof. intros. unfold subs_of. cbn [c_subs]. rewrite assoc_del_same. reflexivity. Qed.
Lemma subs_del_other : forall T M R st s s', s <> s' -> subs_of (mkC T (del_k s (c_subs st)) M R) s' = subs_of st s'.
Proof. intros. unfold subs_of. cbn [c_subs]. rewrite assoc_del_other by assumption. reflexivity. Qed.

Lemma live_fn_set_pos : forall p v ps, (0 < count_of ps p)%N -> (0 < v)%N ->
  forall q, live_fn ps q = live_fn (set_kv p v ps) q.
Proof.
  intros p v ps H1 H2 q. unfold live_fn. destruct (str_eq_dec p q) as [E|E].
  - subst q. rewrite count_set_same.
    destruct (N.ltb 0 (count_of ps p)) eqn:A; destruct (N.ltb 0 v) eqn:B; try reflexivity;
      try (apply N.ltb_ge in A; lia); try (apply N.ltb_ge in B; lia).
  - rewrite count_set_other by exact E. reflexivity.
Qed.

Lemma live_fn_add : forall p v ps, count_of ps p = 0%N -> (0 < v)%N ->
  forall q, step_rc (TAdd p) (live_fn ps) q = live_fn (set_kv p v ps) q.
Proof.
  intros p v ps H1 H2 q. cbn [step_rc]. unfold live_fn. destruct (str_eqb q p) eqn:E.
  - apply str_eqb_eq in E. subst q. rewrite count_set_same, H1. cbn.
    destruct (N.ltb 0 v) eqn:B; [reflexivity|apply N.ltb_ge in B; lia].
  - apply str_eqb_neq in E. rewrite count_set_other by congruence. reflexivity.
Qed.

Lemma live_fn_remove : forall p ps, count_of ps p = 1%N ->
  forall q, step_rc (TRemove p) (live_fn ps) q = live_fn (del_k p ps) q.
Proof.
  intros p ps H1 q. cbn [step_rc]. unfold live_fn. destruct (str_eqb q p) eqn:E.
  - apply str_eqb_eq in E. subst q. rewrite count_del_same, H1. reflexivity.
  - apply str_eqb_neq in E. rewrite count_del_other by congruence. reflexivity.
Qed.

Lemma trie_step_add : forall t p, fst (trie_step t (TAdd p)) = fst (trie_add t p).
Proof. intros. cbn [trie_step]. destruct (trie_add t p). reflexivity. Qed.
Lemma trie_step_remove : forall t p, fst (trie_step t (TRemove p)) = fst (trie_remove t p).
Proof. intros. cbn [trie_step]. destruct (trie_remove t p). reflexivity. Qed.

Lemma keys_iff_count : forall c st ss s p, sim c st ss ->
  In p (map fst (subs_of st s)) <-> 0 < sp_count (s, p) (s_subs ss).
Proof.
  intros c st ss s p HS. rewrite assoc_in_keys. pose proof (sim_cnt _ _ _ HS s p) as HC. unfold count_of in HC.
  destruct (assoc p (subs_of st s)) as [n|] eqn:E.
  - pose proof (sim_pos _ _ _ HS s p n E). split; [intros _; lia|discriminate].
  - split; [congruence|lia].
Qed.

Lemma patterns_length : forall c st ss s, sim c st ss ->
  length (subs_of st s) = length (space_patterns ss s).
Proof.
  intros c st ss s HS. rewrite <- (map_length fst). apply nodup_same_length.
  - apply (sim_keys _ _ _ HS).
  - apply nodup_dedup_str.
  - intros p. rewrite (keys_iff_count c st ss s p HS), in_space_patterns. reflexivity.
Qed.

(* the trie a Subscribe starts from *)
Lemma start_trie : forall c st ss s, sim c st ss ->
  trie_inv (match assoc s (c_tries st) with Some t => t | None => trie_empty end) (live_fn (subs_of st s)).
Proof.
  intros c st ss s HS. pose proof (sim_trie _ _ _ HS s) as H. destruct (assoc s (c_tries st)); [exact H|].
  rewrite H. apply (trie_inv_ext _ (fun _ => 0%N)); [reflexivity|apply trie_inv_empty].
Qed.

(* ------------------------------------------------------------------ one step: Subscribe *)

Lemma step_sub : forall c st ss s p, sim c st ss ->
  fst (spec_step c ss (CSub s p) (OSubR (snd (do_subscribe c st s p)))) = true
  /\ sim c (fst (do_subscribe c st s p)) (snd (spec_step c ss (CSub s p) (OSubR (snd (do_subscribe c st s p))))).
Proof.
  intros c st ss s p HS. unfold do_subscribe. cbn [spec_step]. rewrite <- validate_pattern_iff.
  rewrite <- (patterns_length c st ss s HS).
  destruct (validate_pattern p) eqn:EV; cbn [negb andb fst snd]; [|split; [reflexivity|exact HS]].
  rewrite (N.ltb_antisym (cc_maxpat c) (N.of_nat (length (subs_of st s)))).
  destruct (N.leb (cc_maxpat c) (N.of_nat (length (subs_of st s)))); cbn [negb fst snd]; [split; [reflexivity|exact HS]|].
  split; [reflexivity|].
  set (ps := subs_of st s). set (n := count_of ps p).
  pose proof (start_trie c st ss s HS) as HT0. fold ps in HT0.
  set (t0 := match assoc s (c_tries st) with Some t => t | None => trie_empty end) in *.
  assert (Hn : n = N.of_nat (sp_count (s, p) (s_subs ss))) by apply (sim_cnt _ _ _ HS).
  constructor; cbn [s_subs s_members s_rec c_members c_ring c_tries].
  - intros s0. destruct (str_eq_dec s s0) as [E|E].
    + subst s0. rewrite subs_set_same. apply nodup_set_kv. apply (sim_keys _ _ _ HS).
    + rewrite subs_set_other by exact E. apply (sim_keys _ _ _ HS).
  - intros s0 q m. destruct (str_eq_dec s s0) as [E|E].
    + subst s0. rewrite subs_set_same. destruct (str_eq_dec p q) as [E2|E2].
      * subst q. rewrite assoc_set_same. intros H. inversion H. lia.
      * rewrite assoc_set_other by exact E2. apply (sim_pos _ _ _ HS).
    + rewrite subs_set_other by exact E. apply (sim_pos _ _ _ HS).
  - intros s0 q. cbn [sp_count]. destruct (str_eq_dec s s0) as [E|E].
    + subst s0. rewrite subs_set_same. destruct (str_eq_dec p q) as [E2|E2].
      * subst q. rewrite count_set_same, sp_eqb_refl. fold ps. fold n. lia.
      * rewrite count_set_other by exact E2. rewrite (sp_eqb_neq (s, q) (s, p)) by congruence.
        apply (sim_cnt _ _ _ HS).
    + rewrite subs_set_other by exact E. rewrite (sp_eqb_neq (s0, q) (s, p)) by congruence.
      apply (sim_cnt _ _ _ HS).
  - intros s0. destruct (str_eq_dec s s0) as [E|E].
    + subst s0. rewrite assoc_set_same, subs_set_same. destruct (N.eqb n 0) eqn:E0.
      * apply N.eqb_eq in E0. rewrite <- trie_step_add.
        apply (trie_inv_ext _ (step_rc (TAdd p) (live_fn ps))); [apply live_fn_add; [exact E0|lia]|].
        apply trie_inv_step. exact HT0.
      * apply N.eqb_neq in E0.
        apply (trie_inv_ext _ (live_fn ps)); [apply live_fn_set_pos; fold n; lia|exact HT0].
    + rewrite assoc_set_other by exact E. rewrite subs_set_other by exact E. apply (sim_trie _ _ _ HS).
  - intros s0 q [H|H]; [inversion H; subst; exact EV|apply (sim_valid _ _ _ HS s0 q H)].
  - apply (sim_mem _ _ _ HS).
  - apply (sim_ring _ _ _ HS).
Qed.

(* ------------------------------------------------------------------ one step: unsubscribe *)

Lemma live_fn_zero : forall ps q, live_fn ps q = 0%N -> count_of ps q = 0%N.
Proof.
  intros ps q. unfold live_fn. destruct (N.ltb 0 (count_of ps q)) eqn:E; [discriminate|].
  apply N.ltb_ge in E. lia.
Qed.

Lemma pair_neq_l : forall (a b c d : str), a <> c -> (a, b) <> (c, d).
Proof. intros a b c d H E. inversion E. contradiction. Qed.
Lemma pair_neq_r : forall (a b c d : str), b <> d -> (a, b) <> (c, d).
Proof. intros a b c d H E. inversion E. contradiction. Qed.

Lemma step_unsub : forall c st subs mem rec s p, sim c st (mkS subs mem rec) ->
  sim c (do_unsubscribe st s p) (mkS (sp_remove1 (s, p) subs) mem rec).
Proof.
  intros c st subs mem rec s p HS. unfold do_unsubscribe.
  set (ps := subs_of st s). set (n := count_of ps p).
  assert (Hn : n = N.of_nat (sp_count (s, p) subs)) by apply (sim_cnt _ _ _ HS).
  destruct (N.eqb n 0) eqn:E0.
  { apply N.eqb_eq in E0. rewrite sp_remove1_absent by lia. exact HS. }
  apply N.eqb_neq in E0.
  assert (Hsome : exists t, assoc s (c_tries st) = Some t /\ trie_inv t (live_fn ps)).
  { pose proof (sim_trie _ _ _ HS s) as H. destruct (assoc s (c_tries st)) as [t|]; [exists t; auto|].
    exfalso. fold ps in H. unfold n in E0. rewrite H in E0. apply E0. reflexivity. }
  destruct Hsome as (t & Et & HT).
  destruct (N.ltb 1 n) eqn:E1.
  - (* another handler of the pattern stays *)
    apply N.ltb_lt in E1.
    constructor; cbn [s_subs s_members s_rec c_members c_ring c_tries].
    + intros s0. destruct (str_eq_dec s s0) as [E|E].
      * subst s0. rewrite subs_set_same. apply nodup_set_kv. apply (sim_keys _ _ _ HS).
      * rewrite subs_set_other by exact E. apply (sim_keys _ _ _ HS).
    + intros s0 q m. destruct (str_eq_dec s s0) as [E|E].
      * subst s0. rewrite subs_set_same. destruct (str_eq_dec p q) as [E2|E2].
        -- subst q. rewrite assoc_set_same. intros H. inversion H. lia.
        -- rewrite assoc_set_other by exact E2. apply (sim_pos _ _ _ HS).
      * rewrite subs_set_other by exact E. apply (sim_pos _ _ _ HS).
    + intros s0 q. destruct (str_eq_dec s s0) as [E|E].
      * subst s0. rewrite subs_set_same. destruct (str_eq_dec p q) as [E2|E2].
        -- subst q. rewrite count_set_same, sp_count_remove1_same. lia.
        -- rewrite count_set_other by exact E2. rewrite sp_count_remove1_other by (apply pair_neq_r; exact E2).
           apply (sim_cnt _ _ _ HS).
      * rewrite subs_set_other by exact E. rewrite sp_count_remove1_other by (apply pair_neq_l; exact E).
        apply (sim_cnt _ _ _ HS).
    + intros s0. destruct (str_eq_dec s s0) as [E|E].
      * subst s0. rewrite Et, subs_set_same.
        apply (trie_inv_ext _ (live_fn ps)); [apply live_fn_set_pos; fold n; lia|exact HT].
      * rewrite subs_set_other by exact E. apply (sim_trie _ _ _ HS).
    + intros s0 q H. apply (sim_valid _ _ _ HS s0 q). cbn [s_subs]. eapply sp_remove1_incl. exact H.
    + apply (sim_mem _ _ _ HS).
    + apply (sim_ring _ _ _ HS).
  - (* the last handler of the pattern goes *)
    apply N.ltb_ge in E1. assert (N1 : n = 1%N) by lia.
    assert (C1 : sp_count (s, p) subs = 1) by lia.
    rewrite Et.
    assert (HT' : trie_inv (fst (trie_remove t p)) (live_fn (del_k p ps))).
    { rewrite <- trie_step_remove.
      apply (trie_inv_ext _ (step_rc (TRemove p) (live_fn ps))); [apply live_fn_remove; exact N1|].
      apply trie_inv_step. exact HT. }
    set (t' := fst (trie_remove t p)) in *.
    destruct (N.eqb (trie_len t') 0) eqn:EL.
    + apply N.eqb_eq in EL. pose proof (trie_inv_len0 _ _ HT' EL) as HZ.
      constructor; cbn [s_subs s_members s_rec c_members c_ring c_tries].
      * intros s0. destruct (str_eq_dec s s0) as [E|E].
        -- subst s0. rewrite subs_del_same. constructor.
        -- rewrite subs_del_other by exact E. apply (sim_keys _ _ _ HS).
      * intros s0 q m. destruct (str_eq_dec s s0) as [E|E].
        -- subst s0. rewrite subs_del_same. discriminate.
        -- rewrite subs_del_other by exact E. apply (sim_pos _ _ _ HS).
      * intros s0 q. destruct (str_eq_dec s s0) as [E|E].
        -- subst s0. rewrite subs_del_same. cbn. destruct (str_eq_dec p q) as [E2|E2].
           ++ subst q. rewrite sp_count_remove1_same. lia.
           ++ rewrite sp_count_remove1_other by (apply pair_neq_r; exact E2).
              pose proof (live_fn_zero _ _ (HZ q)) as Z. rewrite count_del_other in Z by exact E2.
              pose proof (sim_cnt _ _ _ HS s q) as Q. cbn [s_subs] in Q. fold ps in Q. lia.
        -- rewrite subs_del_other by exact E. rewrite sp_count_remove1_other by (apply pair_neq_l; exact E).
           apply (sim_cnt _ _ _ HS).
      * intros s0. destruct (str_eq_dec s s0) as [E|E].
        -- subst s0. rewrite assoc_del_same, subs_del_same. reflexivity.
        -- rewrite assoc_del_other by exact E. rewrite subs_del_other by exact E. apply (sim_trie _ _ _ HS).
      * intros s0 q H. apply (sim_valid _ _ _ HS s0 q). cbn [s_subs]. eapply sp_remove1_incl. exact H.
      * apply (sim_mem _ _ _ HS).
      * apply (sim_ring _ _ _ HS).
    + constructor; cbn [s_subs s_members s_rec c_members c_ring c_tries].
      * intros s0. destruct (str_eq_dec s s0) as [E|E].
        -- subst s0. rewrite subs_set_same. apply nodup_del_k. apply (sim_keys _ _ _ HS).
        -- rewrite subs_set_other by exact E. apply (sim_keys _ _ _ HS).
      * intros s0 q m. destruct (str_eq_dec s s0) as [E|E].
        -- subst s0. rewrite subs_set_same. destruct (str_eq_dec p q) as [E2|E2].
           ++ subst q. rewrite assoc_del_same. discriminate.
           ++ rewrite assoc_del_other by exact E2. apply (sim_pos _ _ _ HS).
        -- rewrite subs_set_other by exact E. apply (sim_pos _ _ _ HS).
      * intros s0 q. destruct (str_eq_dec s s0) as [E|E].
        -- subst s0. rewrite subs_set_same. destruct (str_eq_dec p q) as [E2|E2].
           ++ subst q. rewrite count_del_same, sp_count_remove1_same. lia.
           ++ rewrite count_del_other by exact E2. rewrite sp_count_remove1_other by (apply pair_neq_r; exact E2).
              apply (sim_cnt _ _ _ HS).
        -- rewrite subs_set_other by exact E. rewrite sp_count_remove1_other by (apply pair_neq_l; exact E).
           apply (sim_cnt _ _ _ HS).
      * intros s0. destruct (str_eq_dec s s0) as [E|E].
        -- subst s0. rewrite assoc_set_same, subs_set_same. exact HT'.
        -- rewrite assoc_set_other by exact E. rewrite subs_set_other by exact E. apply (sim_trie _ _ _ HS).
      * intros s0 q H. apply (sim_valid _ _ _ HS s0 q). cbn [s_subs]. eapply sp_remove1_incl. exact H.
      * apply (sim_mem _ _ _ HS).
      * apply (sim_ring _ _ _ HS).
Qed.

(* ------------------------------------------------------------------ steps that keep the subscriptions *)

Lemma sim_change : forall c st ss st' ss',
  sim c st ss -> c_tries st' = c_tries st -> c_subs st' = c_subs st -> s_subs ss' = s_subs ss ->
  c_members st' = s_members ss' -> ring_inv (N.to_nat (cc_ring c)) (c_ring st') (s_rec ss') -> sim c st' ss'.
Proof.
  intros c st ss st' ss' HS E1 E2 E3 E4 E5.
  assert (ES : forall s, subs_of st' s = subs_of st s) by (intros s; unfold subs_of; rewrite E2; reflexivity).
  constructor.
  - intros s. rewrite ES. apply (sim_keys _ _ _ HS).
  - intros s p n. rewrite ES. apply (sim_pos _ _ _ HS).
  - intros s p. rewrite ES, E3. apply (sim_cnt _ _ _ HS).
  - intros s. rewrite E1, ES. apply (sim_trie _ _ _ HS).
  - intros s p. rewrite E3. apply (sim_valid _ _ _ HS).
  - exact E4.
  - exact E5.
Qed.

Lemma invoked_same_subs : forall st st' s M, c_subs st' = c_subs st -> invoked st' s M = invoked st s M.
Proof. intros st st' s M E. unfold invoked, subs_of. rewrite E. reflexivity. Qed.

Lemma delivery_nonempty : forall ss s topic inv,
  exact_delivery ss s topic inv = true -> has_interest ss s topic = true -> is_nil inv = false.
Proof.
  intros ss s topic inv HE HI. unfold has_interest in HI. apply existsb_exists in HI. destruct HI as (p & Hp & Hm).
  unfold exact_delivery in HE. apply andb_true_iff in HE. destruct HE as [HE _].
  pose proof (proj1 (forallb_forall _ _) HE p Hp) as H. cbn beta in H. rewrite Hm in H. apply Nat.eqb_eq in H.
  apply in_space_patterns in Hp. destruct inv; [cbn in H; lia|reflexivity].
Qed.

Lemma step_recv : forall c st ss now m, (0 < cc_ring c)%N -> sim c st ss ->
  fst (spec_step c ss (CRecv now m) (snd (cstep c st (CRecv now m)))) = true
  /\ sim c (fst (cstep c st (CRecv now m))) (snd (spec_step c ss (CRecv now m) (snd (cstep c st (CRecv now m))))).
Proof.
  intros c st ss now m Hc HS. cbn [cstep].
  destruct (well_formed c m) eqn:EW.
  2:{ assert (ER : receive c st now m = (st, VStatus InvalidMessageC)).
      { unfold receive. rewrite wf_test, EW. reflexivity. }
      rewrite ER. cbn [fst snd obs_of_verdict spec_step]. rewrite EW. cbn [negb fst snd]. split; [reflexivity|exact HS]. }
  destruct (validate_topic (m_topic m)) eqn:EV.
  2:{ assert (ER : receive c st now m = (st, VStatus InvalidTopicC)).
      { unfold receive. rewrite wf_test, EW, EV. reflexivity. }
      rewrite ER. cbn [fst snd obs_of_verdict spec_step]. rewrite EW, <- validate_topic_iff, EV.
      cbn [negb fst snd]. split; [reflexivity|exact HS]. }
  pose proof (passes_acceptable c st ss now m HS) as EA.
  destruct (passes_b c st now m) eqn:EP.
  2:{ destruct (receive_rejects c st now m EW EV EP) as (v & ER & HO). rewrite ER. cbn [fst snd].
      rewrite HO. cbn [spec_step]. rewrite EW, <- validate_topic_iff, EV, <- EA. cbn [negb fst snd].
      split; [reflexivity|exact HS]. }
  rewrite (receive_passes _ _ _ _ EP). cbn [fst snd].
  assert (Hid : length (m_id m) = msg_id_len).
  { unfold well_formed in EW. apply andb_true_iff in EW. destruct EW as [H _]. apply Nat.eqb_eq. exact H. }
  assert (Hn : 0 < N.to_nat (cc_ring c)) by lia.
  destruct (seen_step _ _ _ (m_id m) Hn (sim_ring _ _ _ HS) Hid) as [H1 H2].
  assert (HI : has_interest ss (m_space m) (m_topic m) = true).
  { symmetry in EA. unfold acceptable in EA. repeat (apply andb_true_iff in EA; destruct EA as [EA ?]). assumption. }
  rewrite H1. change (mem_str (m_id m) (lastn (N.to_nat (cc_ring c)) (s_rec ss))) with (in_window c ss (m_id m)) in *.
  destruct (in_window c ss (m_id m)) eqn:EWn.
  - cbn [obs_of_verdict spec_step]. rewrite EW, <- validate_topic_iff, EV, <- EA, EWn. cbn [negb fst snd is_nil andb].
    split; [reflexivity|]. apply (sim_change c st ss); auto. apply (sim_mem _ _ _ HS).
  - destruct (is_nil (m_key m)) eqn:EK; cbn [negb obs_of_verdict spec_step];
      rewrite EW, <- validate_topic_iff, EV, <- EA, EWn, EK; cbn [negb fst snd is_nil andb].
    + rewrite (invoked_same_subs st) by reflexivity.
      pose proof (exact_delivery_model c st ss (m_space m) (m_topic m) HS EV) as HE.
      rewrite HE, (delivery_nonempty _ _ _ _ HE HI). split; [reflexivity|].
      apply (sim_change c st ss); auto. apply (sim_mem _ _ _ HS).
    + split; [reflexivity|]. apply (sim_change c st ss); auto. apply (sim_mem _ _ _ HS).
Qed.

Lemma step_pub : forall c st ss s topic id plen, (0 < cc_ring c)%N -> sim c st ss ->
  fst (spec_step c ss (CPub s topic id plen) (snd (cstep c st (CPub s topic id plen)))) = true
  /\ sim c (fst (cstep c st (CPub s topic id plen)))
           (snd (spec_step c ss (CPub s topic id plen) (snd (cstep c st (CPub s topic id plen))))).
Proof.
  intros c st ss s topic id plen Hc HS. cbn [cstep]. unfold do_publish.
  destruct (validate_topic topic) eqn:EV; cbn [negb].
  2:{ cbn [fst snd spec_step]. rewrite <- validate_topic_iff, EV. cbn [andb negb fst snd invoked flat_map is_nil].
      split; [reflexivity|exact HS]. }
  rewrite (N.ltb_antisym plen (cc_maxpay c)).
  destruct (N.leb plen (cc_maxpay c)) eqn:EL; cbn [negb].
  2:{ cbn [fst snd spec_step]. rewrite <- validate_topic_iff, EV, EL. cbn [andb negb fst snd invoked flat_map is_nil].
      split; [reflexivity|exact HS]. }
  destruct (is_nil (topic_owner topic) || str_eqb (topic_owner topic) (account_name c (cc_self c))) eqn:EO.
  2:{ apply orb_false_iff in EO. destruct EO as [O1 O2]. rewrite O1, O2. cbn [negb andb].
      cbn [fst snd spec_step]. rewrite <- validate_topic_iff, EV, EL, O1, O2.
      cbn [andb orb negb fst snd invoked flat_map is_nil]. split; [reflexivity|exact HS]. }
  assert (EO' : negb (is_nil (topic_owner topic)) && negb (str_eqb (topic_owner topic) (account_name c (cc_self c))) = false).
  { rewrite <- negb_orb, EO. reflexivity. }
  rewrite EO'. cbn [fst snd spec_step]. rewrite <- validate_topic_iff, EV, EL, EO. cbn [andb fst snd].
  rewrite (invoked_same_subs st) by reflexivity. rewrite (exact_delivery_model c st ss s topic HS EV).
  split; [reflexivity|].
  assert (Hn : 0 < N.to_nat (cc_ring c)) by lia.
  apply (sim_change c st ss); auto; cbn [c_members c_ring s_members s_rec]; [apply (sim_mem _ _ _ HS)|].
  destruct (Nat.eq_dec (length id) msg_id_len) as [E|E].
  - destruct (seen_step _ _ _ id Hn (sim_ring _ _ _ HS) E) as [_ H2].
    rewrite E, Nat.eqb_refl. cbn [andb]. unfold in_window.
    destruct (mem_str id (lastn (N.to_nat (cc_ring c)) (s_rec ss))); exact H2.
  - rewrite (seen_badlen _ _ E). apply Nat.eqb_neq in E. rewrite E. cbn [andb fst]. apply (sim_ring _ _ _ HS).
Qed.

(* ------------------------------------------------------------------ every step, every run *)

Lemma step_sim : forall c st ss e, (0 < cc_ring c)%N -> sim c st ss ->
  fst (spec_step c ss e (snd (cstep c st e))) = true
  /\ sim c (fst (cstep c st e)) (snd (spec_step c ss e (snd (cstep c st e)))).
Proof.
  intros c st ss e Hc HS. destruct e as [s p|s p|s k b|now m|s topic id plen].
  - cbn [cstep]. pose proof (step_sub c st ss s p HS) as H.
    destruct (do_subscribe c st s p) as [st' ok]. cbn [fst snd] in *. exact H.
  - cbn [cstep fst snd spec_step]. split; [reflexivity|]. destruct ss as [subs mem rec]. cbn [s_subs s_members s_rec].
    apply step_unsub. exact HS.
  - cbn [cstep fst snd spec_step]. split; [reflexivity|]. unfold do_set_member.
    apply (sim_change c st ss); auto; cbn [c_members c_ring s_members s_rec].
    + rewrite (sim_mem _ _ _ HS). reflexivity.
    + apply (sim_ring _ _ _ HS).
  - apply step_recv; assumption.
  - apply step_pub; assumption.
Qed.

Theorem model_satisfies_spec_from : forall c evs st ss,
  (0 < cc_ring c)%N -> sim c st ss -> spec_run c ss evs (client_run c st evs) = true.
Proof.
  intros c evs. induction evs as [|e r IH]; intros st ss Hc HS; [reflexivity|].
  cbn [client_run]. destruct (step_sim c st ss e Hc HS) as [H1 H2].
  destruct (cstep c st e) as [st' o]. cbn [fst snd] in *. cbn [spec_run].
  destruct (spec_step c ss e o) as [ok ss']. cbn [fst snd] in *. rewrite H1. cbn [andb].
  apply IH; assumption.
Qed.

(* THE MODEL SATISFIES THE PREDICATE: for every configuration with DedupSize > 0 (Config.withDefaults
   guarantees it) and every event sequence, the model's outputs satisfy spec_C17_client. *)
Theorem model_satisfies_spec_client : forall c evs,
  (0 < cc_ring c)%N -> spec_C17_client c evs (client_run c (cinit c) evs) = true.
Proof. intros c evs Hc. apply model_satisfies_spec_from; [exact Hc|apply sim_init; exact Hc]. Qed.
